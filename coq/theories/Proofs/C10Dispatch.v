(* Proofs/C10Dispatch.v -- C10: which responder [proto::repl] hands a payload to is
   a function of the identification alone ([udp_id] / [tcp_first_id]): a payload
   that completes no signature reaches no signature-dispatched responder (UDP: the
   DNS fallback only; TCP: no payload), an identified one reaches the responder of
   its protocol id; the client information (addresses, ports) plays no part. *)
From MS Require Import Smack Proto Spec.AppView Spec.C10 Proofs.Tactics Proofs.Pending.

Lemma udp_id_tbl_eq E p : udp_id E p = udp_id_tbl (e_proto_tbl E) p.
Proof. reflexivity. Qed.
Lemma tcp_first_id_tbl_eq E p : tcp_first_id E p = tcp_first_id_tbl (e_proto_tbl E) p.
Proof. reflexivity. Qed.

(* the two possible shapes of proto_repl_udp *)
Definition udp_via (E : env) (clk : clock) (ci : cinfo) (id : N) (p : bytes) : res (cinfo * option bytes) :=
  do r <- dispatch E clk ci id None p; let '(ci', _, out) := r in Ok (ci', out).
Definition udp_fallback (ci : cinfo) (p : bytes) : res (cinfo * option bytes) :=
  match dns_repl (ci_ip_dst ci) p with Some r => Ok (ci, Some r) | None => Ok (ci, None) end.

Theorem dispatch_udp E clk ci p :
  proto_repl_udp E clk ci p =
  match udp_id E p with
  | Some id => udp_via E clk ci id p
  | None => udp_fallback ci p
  end.
Proof.
  unfold proto_repl_udp, udp_id, udp_via, udp_fallback.
  destruct (search_next (e_proto_tbl E) BASE_STATE p) as [[[i|] st] n]; [reflexivity|].
  destruct (fst (search_next_end (e_proto_tbl E) st)); reflexivity.
Qed.

Theorem dispatch_udp_some E clk ci p id : udp_id E p = Some id ->
  proto_repl_udp E clk ci p = udp_via E clk ci id p.
Proof. intros H. rewrite dispatch_udp, H. reflexivity. Qed.
Theorem dispatch_udp_none E clk ci p : udp_id E p = None ->
  proto_repl_udp E clk ci p = udp_fallback ci p.
Proof. intros H. rewrite dispatch_udp, H. reflexivity. Qed.

(* first segment of a TCP flow *)
Theorem dispatch_tcp_none E clk ci p : tcp_first_id E p = None ->
  exists st, proto_repl_tcp E clk ci tcb_new p =
             Ok (ci, {| t_smack := st; t_proto := PROTO_NONE; t_pstate := None;
                        t_pending := if lenN p <=? PENDING_MAX then p else [] |}, None).
Proof.
  unfold tcp_first_id. rewrite proto_repl_tcp_first.
  destruct (search_next (e_proto_tbl E) BASE_STATE p) as [[id st] n]. intros ->. exists st. reflexivity.
Qed.
Theorem dispatch_tcp_some E clk ci p id : tcp_first_id E p = Some id ->
  exists st, proto_repl_tcp E clk ci tcb_new p =
    (let tc1 := {| t_smack := st; t_proto := id; t_pstate := None; t_pending := [] |} in
     do r <- dispatch E clk ci id (Some tc1) p;
     let '(ci', t', out) := r in Ok (ci', match t' with Some x => x | None => tc1 end, out)).
Proof.
  unfold tcp_first_id. rewrite proto_repl_tcp_first.
  destruct (search_next (e_proto_tbl E) BASE_STATE p) as [[i st] n]. intros ->. exists st. reflexivity.
Qed.

(* the handler chosen does not depend on the client information *)
Theorem id_independent_of_ctx E clk ci1 ci2 p :
  (exists id, proto_repl_udp E clk ci1 p = udp_via E clk ci1 id p /\
              proto_repl_udp E clk ci2 p = udp_via E clk ci2 id p) \/
  (proto_repl_udp E clk ci1 p = udp_fallback ci1 p /\
   proto_repl_udp E clk ci2 p = udp_fallback ci2 p).
Proof.
  rewrite !dispatch_udp. destruct (udp_id E p) as [id|]; [left; exists id|right]; split; reflexivity.
Qed.

(* [dispatch] under a protocol id IS that protocol's responder (datagram case) *)
Theorem dispatch_responders E clk ci p :
  dispatch E clk ci PROTO_HTTP None p =
    (do hr <- http_repl (e_http_tbl E) (e_http_pre E) (e_http_post E) (clk_date clk) http_new p;
     Ok (ci, None, snd hr)) /\
  dispatch E clk ci PROTO_STUN None p = (let '(ci', r) := stun_repl ci p in Ok (ci', None, r)) /\
  dispatch E clk ci PROTO_SSH None p = Ok (ci, None, ssh_repl (e_ssh_banner E) p) /\
  dispatch E clk ci PROTO_GHOST None p = Ok (ci, None, ghost_repl (e_ghost E) p) /\
  dispatch E clk ci PROTO_RPC_TCP None p =
    match ci_ip_dst ci, ci_port_dst ci with
    | Some ip, Some port => Ok (ci, None, snd (rpc_repl_tcp (rpc_new R_FRAG) ip port p))
    | _, _ => Ok (ci, None, None)
    end /\
  dispatch E clk ci PROTO_RPC_UDP None p =
    match ci_ip_dst ci, ci_port_dst ci with
    | Some ip, Some port => Ok (ci, None, rpc_repl_udp ip port p)
    | _, _ => Ok (ci, None, None)
    end /\
  dispatch E clk ci PROTO_SMB1 None p =
    (do r <- smb1_repl (e_smb_neg E) (e_smb_chal E) (clk_filetime clk) p; Ok (ci, None, r)) /\
  dispatch E clk ci PROTO_SMB2 None p =
    (do r <- smb2_repl (e_smb_neg E) (e_smb_chal E) (clk_filetime clk) p; Ok (ci, None, r)).
Proof. repeat split; reflexivity. Qed.

(* an id outside 1..8 reaches no responder *)
Theorem dispatch_other E clk ci t p id :
  id <> PROTO_HTTP -> id <> PROTO_STUN -> id <> PROTO_SSH -> id <> PROTO_GHOST ->
  id <> PROTO_RPC_TCP -> id <> PROTO_RPC_UDP -> id <> PROTO_SMB1 -> id <> PROTO_SMB2 ->
  exists t', dispatch E clk ci id t p = Ok (ci, t', None).
Proof.
  intros H1 H2 H3 H4 H5 H6 H7 H8. unfold dispatch.
  repeat match goal with
         | H : id <> ?c |- context [id =? ?c] =>
           replace (id =? c) with false by (symmetry; apply N.eqb_neq; exact H)
         end.
  eexists. reflexivity.
Qed.
