(* Proofs/C18.v -- SSH identification string: the parser model (Ssh.v) accepts
   exactly the reference language of Spec/C18.v; Gh0st: the reply is the dumped
   frame, well-formed by env_ok; dispatch- and proto_repl-level statements. *)
From MS Require Import Proofs.Tactics Proofs.Pending Proto Spec.AppView Spec.C18 Spec.EnvOk.

(* ------------------------------------------------------------------ *)
(* A. the boolean scanner = the declarative grammar                    *)
(* ------------------------------------------------------------------ *)

Lemma is_prefix_iff (a l : bytes) : is_prefix a l = true <-> exists r, l = a ++ r.
Proof.
  revert l. induction a as [|x a IH]; intros l.
  - cbn. split; [intros _; exists l; reflexivity | reflexivity].
  - destruct l as [|y l]; cbn [is_prefix].
    + split; [discriminate | intros [r Hr]; discriminate].
    + rewrite andb_true_iff, N.eqb_eq, IH. split.
      * intros [-> [r ->]]. exists r. reflexivity.
      * intros [r Hr]. cbn [app] in Hr. inversion Hr; subst. split; [reflexivity | exists r; reflexivity].
Qed.

Lemma has_crlf_cons2 b c r :
  has_crlf (b :: c :: r) = ((b =? CH_CR) && (c =? CH_LF)) || has_crlf (c :: r).
Proof. reflexivity. Qed.

Lemma has_crlf_iff (l : bytes) :
  has_crlf l = true <-> exists a b, l = a ++ [CH_CR; CH_LF] ++ b.
Proof.
  induction l as [|x l IH].
  - cbn. split; [discriminate | intros (a & b & H); destruct a; discriminate].
  - destruct l as [|c r].
    + cbn. split; [discriminate|]. intros (a & b & H). destruct a as [|? [|? ?]]; discriminate.
    + rewrite has_crlf_cons2, orb_true_iff, andb_true_iff, !N.eqb_eq, IH. split.
      * intros [[-> ->] | (a & b & H)].
        -- exists [], r. reflexivity.
        -- exists (x :: a), b. rewrite H. reflexivity.
      * intros (a & b & H). destruct a as [|y a]; cbn [app] in H.
        -- inversion H; subst. left. split; reflexivity.
        -- inversion H as [[Hy Ha]]. right. exists a, b. exact Ha.
Qed.

(* the first CR LF *)
Lemma has_crlf_first (l : bytes) :
  has_crlf l = true -> exists a b, l = a ++ [CH_CR; CH_LF] ++ b /\ no_crlf a.
Proof.
  induction l as [|x l IH]; [discriminate|].
  destruct l as [|c r]; [discriminate|].
  rewrite has_crlf_cons2. destruct ((x =? CH_CR) && (c =? CH_LF)) eqn:Hxc.
  - intros _. apply andb_true_iff in Hxc. destruct Hxc as [Hx Hc].
    apply N.eqb_eq in Hx, Hc. subst. exists [], r. split; [reflexivity|].
    intros a b H. destruct a; discriminate.
  - cbn [orb]. intros H. destruct (IH H) as (a & b & Heq & Hno).
    exists (x :: a), b. split; [rewrite Heq; reflexivity|].
    intros a' b' H'. destruct a' as [|y a']; cbn [app] in H'.
    + inversion H' as [[Hx Ha]]. subst x a. cbn [app] in Heq. inversion Heq; subst c.
      cbn in Hxc. discriminate.
    + inversion H'; subst. exact (Hno a' b' eq_refl).
Qed.

Lemma ver_char_dash : ver_char CH_DASH = false.
Proof. reflexivity. Qed.

Lemma ssh_after_magic_iff (l : bytes) :
  ssh_after_magic l = true <->
  exists v rest t, l = v ++ [CH_DASH] ++ rest ++ [CH_CR; CH_LF] ++ t /\
                   Forall (fun b => ver_char b = true) v.
Proof.
  induction l as [|x l IH].
  - cbn. split; [discriminate | intros (v & rest & t & H & _); destruct v; discriminate].
  - cbn [ssh_after_magic]. destruct (x =? CH_DASH) eqn:Hx.
    + apply N.eqb_eq in Hx. subst x. rewrite has_crlf_iff. split.
      * intros (a & b & ->). exists [], a, b. split; [reflexivity | constructor].
      * intros (v & rest & t & H & Hv). destruct v as [|y v]; cbn [app] in H.
        -- inversion H; subst. exists rest, t. reflexivity.
        -- inversion H; subst. inversion Hv; subst. rewrite ver_char_dash in *. discriminate.
    + apply N.eqb_neq in Hx. destruct (ver_char x) eqn:Hvx.
      * rewrite IH. split.
        -- intros (v & rest & t & -> & Hv). exists (x :: v), rest, t.
           split; [reflexivity | constructor; assumption].
        -- intros (v & rest & t & H & Hv). destruct v as [|y v]; cbn [app] in H.
           ++ inversion H; subst. congruence.
           ++ inversion H; subst. inversion Hv; subst. exists v, rest, t. split; [reflexivity | assumption].
      * split; [discriminate|]. intros (v & rest & t & H & Hv). destruct v as [|y v]; cbn [app] in H.
        -- inversion H; subst. congruence.
        -- inversion H; subst. inversion Hv; subst. congruence.
Qed.

Lemma ssh_ref_split (p : bytes) :
  ssh_ref p = true <-> exists r, p = S_SSH_DASH ++ r /\ ssh_after_magic r = true.
Proof.
  unfold ssh_ref. rewrite andb_true_iff, is_prefix_iff. split.
  - intros [[r ->] H]. exists r. split; [reflexivity | exact H].
  - intros (r & -> & H). split; [exists r; reflexivity | exact H].
Qed.

Theorem ssh_ref_ident (p : bytes) : ssh_ref p = true <-> ssh_ident p.
Proof.
  rewrite ssh_ref_split. unfold ssh_ident. split.
  - intros (r & -> & H). apply ssh_after_magic_iff in H. destruct H as (v & rest & t & -> & Hv).
    exists v, rest, t. split; [reflexivity | exact Hv].
  - intros (v & rest & t & -> & Hv). exists (v ++ [CH_DASH] ++ rest ++ [CH_CR; CH_LF] ++ t).
    split; [reflexivity|]. apply ssh_after_magic_iff. exists v, rest, t. split; [reflexivity | exact Hv].
Qed.

Theorem ssh_ident_first_iff (p : bytes) : ssh_ident p <-> ssh_ident_first p.
Proof.
  split.
  - intros (v & rest & t & -> & Hv).
    assert (Hc : has_crlf (rest ++ [CH_CR; CH_LF] ++ t) = true)
      by (apply has_crlf_iff; exists rest, t; reflexivity).
    destruct (has_crlf_first _ Hc) as (a & b & Heq & Hno).
    exists v, a, b. repeat split; try assumption. rewrite Heq. reflexivity.
  - intros (v & rest & t & -> & Hv & _). exists v, rest, t. split; [reflexivity | exact Hv].
Qed.

(* ------------------------------------------------------------------ *)
(* B. the parser model accepts exactly that language                   *)
(* ------------------------------------------------------------------ *)

Lemma loop_nil fuel st prev : ssh_loop fuel st prev [] = st.
Proof. destruct fuel; reflexivity. Qed.

Lemma loop_step f st prev b rest :
  ssh_loop (S f) st prev (b :: rest) =
  if st =? SSH_START then ssh_loop f SSH_S1 prev (b :: rest)
  else if st =? SSH_FAIL then st
  else let '(st', prev', consumed) := ssh_byte st prev b in
       ssh_loop f st' prev' (if consumed then rest else b :: rest).
Proof. reflexivity. Qed.

Lemma loop_fail fuel prev data : ssh_loop fuel SSH_FAIL prev data = SSH_FAIL.
Proof. destruct fuel; [reflexivity|]. destruct data; reflexivity. Qed.

Lemma loop_eob fuel : forall prev data, ssh_loop fuel SSH_EOB prev data = SSH_EOB.
Proof.
  induction fuel as [|f IH]; intros prev data; [reflexivity|].
  destruct data as [|b r]; [reflexivity|].
  rewrite loop_step. change (SSH_EOB =? SSH_START) with false. change (SSH_EOB =? SSH_FAIL) with false.
  cbv iota. change (ssh_byte SSH_EOB prev b) with (SSH_EOB, prev, true). cbv iota beta. apply IH.
Qed.

(* the transition function at each control state *)
Lemma byte_software prev b :
  ssh_byte SSH_SOFTWARE prev b =
  if b =? 13 then (SSH_LF, SSH_SOFTWARE, true)
  else if b =? 32 then (SSH_COMMENT, prev, true) else (SSH_SOFTWARE, prev, true).
Proof. reflexivity. Qed.
Lemma byte_comment prev b :
  ssh_byte SSH_COMMENT prev b =
  if b =? 13 then (SSH_LF, SSH_COMMENT, true) else (SSH_COMMENT, prev, true).
Proof. reflexivity. Qed.
Lemma byte_lf_software b :
  ssh_byte SSH_LF SSH_SOFTWARE b =
  if b =? 10 then (SSH_EOB, SSH_SOFTWARE, true) else (SSH_SOFTWARE, SSH_SOFTWARE, false).
Proof. reflexivity. Qed.
Lemma byte_lf_comment b :
  ssh_byte SSH_LF SSH_COMMENT b =
  if b =? 10 then (SSH_EOB, SSH_COMMENT, true) else (SSH_COMMENT, SSH_COMMENT, false).
Proof. reflexivity. Qed.
Lemma byte_version prev b :
  ssh_byte SSH_VERSION prev b =
  if b =? 45 then (SSH_SOFTWARE, prev, true)
  else if negb (ver_char b) then (SSH_FAIL, prev, true) else (SSH_VERSION, prev, true).
Proof.
  unfold ver_char. change ((48 <=? b) && (b <=? 57)) with (is_digit b).
  rewrite negb_orb. reflexivity.
Qed.
Lemma byte_magic1 prev b :
  ssh_byte 1 prev b = if b =? 83 then (2, prev, true) else (SSH_FAIL, prev, true).
Proof. reflexivity. Qed.
Lemma byte_magic2 prev b :
  ssh_byte 2 prev b = if b =? 83 then (3, prev, true) else (SSH_FAIL, prev, true).
Proof. reflexivity. Qed.
Lemma byte_magic3 prev b :
  ssh_byte 3 prev b = if b =? 72 then (4, prev, true) else (SSH_FAIL, prev, true).
Proof. reflexivity. Qed.
Lemma byte_magic4 prev b :
  ssh_byte 4 prev b = if b =? 45 then (SSH_VERSION, prev, true) else (SSH_FAIL, prev, true).
Proof. reflexivity. Qed.

(* In SOFTWARE / COMMENT the loop reaches EOB iff a CR LF follows; in the
   look-ahead state LF (entered after a CR) iff the next byte is LF or a CR LF
   follows. Fuel: a byte is examined at most twice (once in LF, where it is
   "un-read", once in the restored state). *)
Definition text_state (st : N) : Prop := st = SSH_SOFTWARE \/ st = SSH_COMMENT.

Definition text_spec (data : bytes) : Prop :=
  forall fuel st prev, text_state st -> (2 * length data <= fuel)%nat ->
    (ssh_loop fuel st prev data = SSH_EOB <-> has_crlf data = true).

Definition lf_or_crlf (data : bytes) : bool :=
  match data with [] => false | c :: _ => (c =? 10) || has_crlf data end.

Definition lf_spec (data : bytes) : Prop :=
  forall fuel prev, text_state prev -> (2 * length data + 1 <= fuel)%nat ->
    (ssh_loop fuel SSH_LF prev data = SSH_EOB <-> lf_or_crlf data = true).

Lemma lf_from_text data : text_spec data -> lf_spec data.
Proof.
  intros HT fuel prev Hp Hf. destruct data as [|c r].
  - rewrite loop_nil. cbn. split; discriminate.
  - destruct fuel as [|f]; [cbn in Hf; lia|]. rewrite loop_step.
    change (SSH_LF =? SSH_START) with false. change (SSH_LF =? SSH_FAIL) with false. cbv iota.
    cbn [lf_or_crlf].
    destruct Hp as [-> | ->]; [rewrite byte_lf_software | rewrite byte_lf_comment];
      (destruct (c =? 10) eqn:Hc; cbv iota beta;
       [rewrite loop_eob; cbn [orb]; split; reflexivity
       | cbn [orb]; apply HT; [unfold text_state; auto | cbn [length] in *; lia]]).
Qed.

Lemma text_all data : text_spec data.
Proof.
  induction data as [|b r IH].
  - intros fuel st prev Hs _. rewrite loop_nil. cbn.
    destruct Hs as [-> | ->]; split; discriminate.
  - pose proof (lf_from_text r IH) as HL.
    intros fuel st prev Hs Hf. destruct fuel as [|f]; [cbn in Hf; lia|].
    assert (Hf1 : (2 * length r + 1 <= f)%nat) by (cbn [length] in Hf; lia).
    assert (Hf2 : (2 * length r <= f)%nat) by lia.
    assert (Hcr : has_crlf (13 :: r) = lf_or_crlf r).
    { destruct r as [|c r']; [reflexivity|]. rewrite has_crlf_cons2. reflexivity. }
    assert (Hncr : (b =? 13) = false -> has_crlf (b :: r) = has_crlf r).
    { intros Hb. destruct r as [|c r']; [reflexivity|]. rewrite has_crlf_cons2.
      change CH_CR with 13. rewrite Hb. reflexivity. }
    rewrite loop_step. destruct Hs as [-> | ->].
    + change (SSH_SOFTWARE =? SSH_START) with false. change (SSH_SOFTWARE =? SSH_FAIL) with false.
      cbv iota. rewrite byte_software. destruct (b =? 13) eqn:Hb.
      * apply N.eqb_eq in Hb. subst b. cbv iota beta. rewrite Hcr.
        apply HL; [unfold text_state; auto | exact Hf1].
      * rewrite (Hncr eq_refl). destruct (b =? 32); cbv iota beta;
          (apply IH; [unfold text_state; auto | exact Hf2]).
    + change (SSH_COMMENT =? SSH_START) with false. change (SSH_COMMENT =? SSH_FAIL) with false.
      cbv iota. rewrite byte_comment. destruct (b =? 13) eqn:Hb.
      * apply N.eqb_eq in Hb. subst b. cbv iota beta. rewrite Hcr.
        apply HL; [unfold text_state; auto | exact Hf1].
      * rewrite (Hncr eq_refl). cbv iota beta. apply IH; [unfold text_state; auto | exact Hf2].
Qed.

Lemma version_spec data : forall fuel prev, (2 * length data <= fuel)%nat ->
  (ssh_loop fuel SSH_VERSION prev data = SSH_EOB <-> ssh_after_magic data = true).
Proof.
  induction data as [|b r IH]; intros fuel prev Hf.
  - rewrite loop_nil. cbn. split; discriminate.
  - destruct fuel as [|f]; [cbn in Hf; lia|].
    assert (Hf2 : (2 * length r <= f)%nat) by (cbn [length] in Hf; lia).
    rewrite loop_step.
    change (SSH_VERSION =? SSH_START) with false. change (SSH_VERSION =? SSH_FAIL) with false.
    cbv iota. rewrite byte_version. cbn [ssh_after_magic]. change CH_DASH with 45.
    destruct (b =? 45).
    + cbv iota beta. apply text_all; [unfold text_state; auto | exact Hf2].
    + destruct (ver_char b); cbn [negb]; cbv iota beta.
      * apply IH. exact Hf2.
      * rewrite loop_fail. split; discriminate.
Qed.

Lemma ssh_ref_cons4 b0 b1 b2 b3 r :
  ssh_ref (b0 :: b1 :: b2 :: b3 :: r) =
  (b0 =? 83) && ((b1 =? 83) && ((b2 =? 72) && (b3 =? 45))) && ssh_after_magic r.
Proof.
  unfold ssh_ref, S_SSH_DASH. cbn [is_prefix skipn].
  rewrite andb_true_r, (N.eqb_sym 83 b0), (N.eqb_sym 83 b1), (N.eqb_sym 72 b2), (N.eqb_sym 45 b3).
  reflexivity.
Qed.

Lemma ssh_ref_short (p : bytes) : (length p < 4)%nat -> ssh_ref p = false.
Proof.
  intros H. destruct (ssh_ref p) eqn:E; [|reflexivity].
  apply ssh_ref_split in E. destruct E as (r & -> & _). cbn in H. lia.
Qed.

Ltac magic_step byte_lemma :=
  rewrite loop_step;
  match goal with |- context [?a =? SSH_START] => change (a =? SSH_START) with false end;
  match goal with |- context [?a =? SSH_FAIL] => change (a =? SSH_FAIL) with false end;
  cbv iota; rewrite byte_lemma.

Lemma magic_spec (p : bytes) fuel prev : (2 * length p <= fuel)%nat ->
  (ssh_loop fuel SSH_S1 prev p = SSH_EOB <-> ssh_ref p = true).
Proof.
  intros Hf.
  destruct p as [|b0 p]; [rewrite loop_nil, ssh_ref_short by (cbn; lia); split; discriminate|].
  destruct fuel as [|f0]; [cbn in Hf; lia|]. change SSH_S1 with 1. magic_step byte_magic1.
  destruct (b0 =? 83) eqn:H0; cbv iota beta;
    [|rewrite loop_fail; destruct (ssh_ref (b0 :: p)) eqn:E; [|split; discriminate];
      apply ssh_ref_split in E; destruct E as (r & E & _); inversion E; subst; discriminate].
  destruct p as [|b1 p]; [rewrite loop_nil, ssh_ref_short by (cbn; lia); split; discriminate|].
  destruct f0 as [|f1]; [cbn in Hf; lia|]. magic_step byte_magic2.
  destruct (b1 =? 83) eqn:H1; cbv iota beta;
    [|rewrite loop_fail; destruct (ssh_ref (b0 :: b1 :: p)) eqn:E; [|split; discriminate];
      apply ssh_ref_split in E; destruct E as (r & E & _); inversion E; subst; discriminate].
  destruct p as [|b2 p]; [rewrite loop_nil, ssh_ref_short by (cbn; lia); split; discriminate|].
  destruct f1 as [|f2]; [cbn in Hf; lia|]. magic_step byte_magic3.
  destruct (b2 =? 72) eqn:H2; cbv iota beta;
    [|rewrite loop_fail; destruct (ssh_ref (b0 :: b1 :: b2 :: p)) eqn:E; [|split; discriminate];
      apply ssh_ref_split in E; destruct E as (r & E & _); inversion E; subst; discriminate].
  destruct p as [|b3 p]; [rewrite loop_nil, ssh_ref_short by (cbn; lia); split; discriminate|].
  destruct f2 as [|f3]; [cbn in Hf; lia|]. magic_step byte_magic4.
  rewrite ssh_ref_cons4, H0, H1, H2. cbn [andb].
  destruct (b3 =? 45); cbv iota beta; cbn [andb].
  - apply version_spec. cbn [length] in Hf. lia.
  - rewrite loop_fail. split; discriminate.
Qed.

(* the fuel S (2 * length) of ssh_parse is sufficient *)
Theorem ssh_parse_ref (p : bytes) : ssh_parse p = SSH_EOB <-> ssh_ref p = true.
Proof.
  unfold ssh_parse. destruct p as [|b r].
  - cbn. split; discriminate.
  - rewrite loop_step. change (SSH_START =? SSH_START) with true. cbv iota.
    apply magic_spec. lia.
Qed.

Theorem ssh_repl_ref (banner p : bytes) :
  ssh_repl banner p = if ssh_ref p then Some banner else None.
Proof.
  unfold ssh_repl. pose proof (ssh_parse_ref p) as H.
  destruct (ssh_ref p).
  - rewrite (proj2 H eq_refl). reflexivity.
  - destruct (ssh_parse p =? SSH_EOB) eqn:E; [|reflexivity].
    apply N.eqb_eq in E. apply H in E. discriminate.
Qed.

Theorem ssh_repl_iff (banner p : bytes) :
  ssh_repl banner p = Some banner <-> ssh_ref p = true.
Proof.
  rewrite ssh_repl_ref. destruct (ssh_ref p); split; try reflexivity; discriminate.
Qed.

Theorem ssh_repl_none_iff (banner p : bytes) :
  ssh_repl banner p = None <-> ssh_ref p = false.
Proof.
  rewrite ssh_repl_ref. destruct (ssh_ref p); split; try reflexivity; discriminate.
Qed.

(* ------------------------------------------------------------------ *)
(* C. dispatch, proto::repl                                            *)
(* ------------------------------------------------------------------ *)

Theorem dispatch_ssh E clk ci t p :
  dispatch E clk ci PROTO_SSH t p =
  Ok (ci, t, if ssh_ref p then Some (e_ssh_banner E) else None).
Proof.
  unfold dispatch.
  change (PROTO_SSH =? PROTO_HTTP) with false. change (PROTO_SSH =? PROTO_STUN) with false.
  change (PROTO_SSH =? PROTO_SSH) with true. cbv iota. rewrite ssh_repl_ref. reflexivity.
Qed.

Theorem dispatch_ghost E clk ci t p :
  dispatch E clk ci PROTO_GHOST t p = Ok (ci, t, Some (e_ghost E)).
Proof.
  unfold dispatch.
  change (PROTO_GHOST =? PROTO_HTTP) with false. change (PROTO_GHOST =? PROTO_STUN) with false.
  change (PROTO_GHOST =? PROTO_SSH) with false. change (PROTO_GHOST =? PROTO_GHOST) with true.
  cbv iota. reflexivity.
Qed.

Lemma udp_dispatch E clk ci p i :
  udp_id E p = Some i ->
  proto_repl_udp E clk ci p =
  (do r <- dispatch E clk ci i None p; let '(ci', _, out) := r in Ok (ci', out)).
Proof.
  unfold udp_id, proto_repl_udp.
  destruct (search_next (e_proto_tbl E) BASE_STATE p) as [[id st] n].
  cbv zeta. intros ->. reflexivity.
Qed.

Lemma tcp_first_dispatch E clk ci p i :
  tcp_first_id E p = Some i ->
  exists st,
    proto_repl_tcp E clk ci tcb_new p =
    (let tc1 := {| t_smack := st; t_proto := i; t_pstate := None; t_pending := [] |} in
     do r <- dispatch E clk ci i (Some tc1) p;
     let '(ci', t', out) := r in
     Ok (ci', match t' with Some x => x | None => tc1 end, out)).
Proof.
  unfold tcp_first_id. rewrite Pending.proto_repl_tcp_first.
  destruct (search_next (e_proto_tbl E) BASE_STATE p) as [[id st] n].
  intros ->. exists st. reflexivity.
Qed.

Theorem udp_ssh E clk ci p :
  udp_id E p = Some PROTO_SSH ->
  proto_repl_udp E clk ci p = Ok (ci, if ssh_ref p then Some (e_ssh_banner E) else None).
Proof. intros H. rewrite (udp_dispatch _ _ _ _ _ H), dispatch_ssh. reflexivity. Qed.

Theorem udp_ghost E clk ci p :
  udp_id E p = Some PROTO_GHOST ->
  proto_repl_udp E clk ci p = Ok (ci, Some (e_ghost E)).
Proof. intros H. rewrite (udp_dispatch _ _ _ _ _ H), dispatch_ghost. reflexivity. Qed.

Theorem tcp_first_ssh E clk ci p :
  tcp_first_id E p = Some PROTO_SSH ->
  exists tc', proto_repl_tcp E clk ci tcb_new p =
              Ok (ci, tc', if ssh_ref p then Some (e_ssh_banner E) else None) /\
              t_proto tc' = PROTO_SSH /\ t_pstate tc' = None.
Proof.
  intros H. destruct (tcp_first_dispatch E clk ci p _ H) as [st ->].
  cbv zeta. rewrite dispatch_ssh. cbn [bind]. eexists. repeat split.
Qed.

Theorem tcp_first_ghost E clk ci p :
  tcp_first_id E p = Some PROTO_GHOST ->
  exists tc', proto_repl_tcp E clk ci tcb_new p = Ok (ci, tc', Some (e_ghost E)) /\
              t_proto tc' = PROTO_GHOST /\ t_pstate tc' = None.
Proof.
  intros H. destruct (tcp_first_dispatch E clk ci p _ H) as [st ->].
  cbv zeta. rewrite dispatch_ghost. cbn [bind]. eexists. repeat split.
Qed.

(* ------------------------------------------------------------------ *)
(* D. identification of the literal prefixes (table obligation)        *)
(* ------------------------------------------------------------------ *)

Lemma inner_match_stop t a x : forall row n,
  stops_in t row a = true -> inner_match t row (a ++ x) n = inner_match t row a n.
Proof.
  induction a as [|b a IH]; intros row n H; [discriminate|].
  cbn [stops_in] in H. cbn [app inner_match].
  destruct (sm_match_limit t <=? sm_next t row (sm_sym t (N.to_nat b))); [reflexivity|].
  apply IH. exact H.
Qed.

Lemma search_next_stop t a x :
  stops_in t 0 a = true -> search_next t BASE_STATE (a ++ x) = search_next t BASE_STATE a.
Proof.
  intros H. unfold search_next.
  change (BASE_STATE mod TWO24) with 0. change (BASE_STATE / TWO24) with 0.
  cbv zeta. change (0 =? 0) with true. cbv iota.
  rewrite (inner_match_stop t a x 0 0%nat H). reflexivity.
Qed.

Theorem prefix_identified_sound E a id p :
  prefix_identified (e_proto_tbl E) a id = true -> is_prefix a p = true ->
  tcp_first_id E p = Some id /\ udp_id E p = Some id.
Proof.
  unfold prefix_identified. intros H Hp. apply andb_true_iff in H. destruct H as [Hs Hi].
  apply is_prefix_iff in Hp. destruct Hp as [x ->].
  unfold tcp_first_id, udp_id. rewrite (search_next_stop _ a x Hs).
  destruct (search_next (e_proto_tbl E) BASE_STATE a) as [[[i|] st] n]; [|discriminate].
  apply N.eqb_eq in Hi. subst i. split; reflexivity.
Qed.

(* ------------------------------------------------------------------ *)
(* E. the payload-level monitor holds on the model's application layer *)
(* ------------------------------------------------------------------ *)

Lemma env_ok_c18 E : env_ok E = true ->
  e_ssh_banner E = S_SERVER_ID /\ ghost_wf (e_ghost E) = true.
Proof.
  (* independent of the position of the two clauses in the conjunction *)
  unfold env_ok. intros H.
  repeat (apply andb_true_iff in H; destruct H as [H ?]).
  split.
  - apply bytes_eqb_eq. assumption.
  - assumption.
Qed.

Lemma ghost_not_ssh p : is_prefix S_GHOST p = true ->
  is_prefix S_SSH_20 p = false /\ is_prefix S_SSH_199 p = false.
Proof.
  destruct p as [|b p]; [discriminate|]. unfold S_GHOST, S_SSH_20, S_SSH_199. cbn [is_prefix].
  intros H. apply andb_true_iff in H. destruct H as [H _]. apply N.eqb_eq in H. subst b.
  split; reflexivity.
Qed.

Lemma expected_ok ctx p o : c18_prefixed p = true -> c18_expected p o -> app_ok_C18 ctx p o = true.
Proof.
  unfold c18_prefixed, c18_expected, app_ok_C18. intros Hp He.
  destruct (is_prefix S_GHOST p) eqn:Hg.
  - destruct He as (g & -> & Hw). exact Hw.
  - cbn [orb] in Hp. rewrite Hp. destruct (ssh_ref p); subst o; [apply bytes_eqb_eq|]; reflexivity.
Qed.

Lemma app_id E p : c18_ident_ok E = true -> c18_prefixed p = true ->
  let id := if is_prefix S_GHOST p then PROTO_GHOST else PROTO_SSH in
  tcp_first_id E p = Some id /\ udp_id E p = Some id.
Proof.
  unfold c18_ident_ok, c18_prefixed. intros H Hp.
  apply andb_true_iff in H. destruct H as [H H3]. apply andb_true_iff in H. destruct H as [H1 H2].
  destruct (is_prefix S_GHOST p) eqn:Hg; cbv zeta.
  - exact (prefix_identified_sound E _ _ p H3 Hg).
  - cbn [orb] in Hp. apply orb_true_iff in Hp. destruct Hp as [Hp | Hp].
    + exact (prefix_identified_sound E _ _ p H1 Hp).
    + exact (prefix_identified_sound E _ _ p H2 Hp).
Qed.

Theorem app_udp E clk ci p :
  env_ok E = true -> c18_ident_ok E = true -> c18_prefixed p = true ->
  exists o, proto_repl_udp E clk ci p = Ok (ci, o) /\ c18_expected p o.
Proof.
  intros HE HI Hp. destruct (env_ok_c18 E HE) as [Hb Hg].
  destruct (app_id E p HI Hp) as [_ Hid]. unfold c18_expected.
  destruct (is_prefix S_GHOST p).
  - rewrite (udp_ghost _ _ _ _ Hid). eexists. split; [reflexivity|]. eexists. split; [reflexivity | exact Hg].
  - rewrite (udp_ssh _ _ _ _ Hid), Hb. eexists. split; [reflexivity|]. destruct (ssh_ref p); reflexivity.
Qed.

Theorem app_tcp_first E clk ci p :
  env_ok E = true -> c18_ident_ok E = true -> c18_prefixed p = true ->
  exists o tc', proto_repl_tcp E clk ci tcb_new p = Ok (ci, tc', o) /\ c18_expected p o.
Proof.
  intros HE HI Hp. destruct (env_ok_c18 E HE) as [Hb Hg].
  destruct (app_id E p HI Hp) as [Hid _]. unfold c18_expected.
  destruct (is_prefix S_GHOST p).
  - destruct (tcp_first_ghost E clk ci p Hid) as (tc' & -> & _). do 2 eexists. split; [reflexivity|].
    eexists. split; [reflexivity | exact Hg].
  - destruct (tcp_first_ssh E clk ci p Hid) as (tc' & -> & _). rewrite Hb. do 2 eexists.
    split; [reflexivity|]. destruct (ssh_ref p); reflexivity.
Qed.

Theorem app_monitor_udp E clk ci ctx p ci' o :
  env_ok E = true -> c18_ident_ok E = true ->
  proto_repl_udp E clk ci p = Ok (ci', o) -> app_ok_C18 ctx p o = true.
Proof.
  intros HE HI H. destruct (c18_prefixed p) eqn:Hp.
  - destruct (app_udp E clk ci p HE HI Hp) as (o' & H' & He). rewrite H' in H. inversion H; subst.
    exact (expected_ok ctx p o Hp He).
  - unfold c18_prefixed in Hp. apply orb_false_iff in Hp. destruct Hp as [Hp H3].
    apply orb_false_iff in Hp. destruct Hp as [H1 H2]. unfold app_ok_C18. rewrite H1, H2, H3. reflexivity.
Qed.

Theorem app_monitor_tcp_first E clk ci ctx p ci' tc' o :
  env_ok E = true -> c18_ident_ok E = true ->
  proto_repl_tcp E clk ci tcb_new p = Ok (ci', tc', o) -> app_ok_C18 ctx p o = true.
Proof.
  intros HE HI H. destruct (c18_prefixed p) eqn:Hp.
  - destruct (app_tcp_first E clk ci p HE HI Hp) as (o' & tc2 & H' & He). rewrite H' in H.
    inversion H; subst. exact (expected_ok ctx p o Hp He).
  - unfold c18_prefixed in Hp. apply orb_false_iff in Hp. destruct Hp as [Hp H3].
    apply orb_false_iff in Hp. destruct Hp as [H1 H2]. unfold app_ok_C18. rewrite H1, H2, H3. reflexivity.
Qed.

(* the two statements of Spec/C18.v, for the application layer over UDP *)
Theorem ssh_statement_udp E clk ci :
  env_ok E = true -> c18_ident_ok E = true ->
  C18_ssh_statement (fun p => match proto_repl_udp E clk ci p with Ok (_, o) => o | Panic _ => None end).
Proof.
  intros HE HI p Hp.
  assert (Hng : is_prefix S_GHOST p = false).
  { destruct (is_prefix S_GHOST p) eqn:Hg; [|reflexivity].
    destruct (ghost_not_ssh p Hg) as [H1 H2]. rewrite H1, H2 in Hp. discriminate. }
  assert (Hpp : c18_prefixed p = true).
  { unfold c18_prefixed. rewrite Hng. exact Hp. }
  destruct (app_udp E clk ci p HE HI Hpp) as (o & -> & He). unfold c18_expected in He. rewrite Hng in He.
  split; intros Hi.
  - apply ssh_ref_ident in Hi. rewrite Hi in He. exact He.
  - destruct (ssh_ref p) eqn:Hr; [|exact He]. exfalso. apply Hi, ssh_ref_ident, Hr.
Qed.

Theorem ghost_statement_udp E clk ci :
  env_ok E = true -> c18_ident_ok E = true ->
  C18_ghost_statement (fun p => match proto_repl_udp E clk ci p with Ok (_, o) => o | Panic _ => None end).
Proof.
  intros HE HI p Hg.
  assert (Hpp : c18_prefixed p = true) by (unfold c18_prefixed; rewrite Hg; reflexivity).
  destruct (app_udp E clk ci p HE HI Hpp) as (o & -> & He). unfold c18_expected in He. rewrite Hg in He.
  exact He.
Qed.

Theorem ssh_statement_tcp E clk ci :
  env_ok E = true -> c18_ident_ok E = true ->
  C18_ssh_statement (fun p => match proto_repl_tcp E clk ci tcb_new p with Ok (_, _, o) => o | Panic _ => None end).
Proof.
  intros HE HI p Hp.
  assert (Hng : is_prefix S_GHOST p = false).
  { destruct (is_prefix S_GHOST p) eqn:Hg; [|reflexivity].
    destruct (ghost_not_ssh p Hg) as [H1 H2]. rewrite H1, H2 in Hp. discriminate. }
  assert (Hpp : c18_prefixed p = true).
  { unfold c18_prefixed. rewrite Hng. exact Hp. }
  destruct (app_tcp_first E clk ci p HE HI Hpp) as (o & tc' & -> & He). unfold c18_expected in He.
  rewrite Hng in He. split; intros Hi.
  - apply ssh_ref_ident in Hi. rewrite Hi in He. exact He.
  - destruct (ssh_ref p) eqn:Hr; [|exact He]. exfalso. apply Hi, ssh_ref_ident, Hr.
Qed.

Theorem ghost_statement_tcp E clk ci :
  env_ok E = true -> c18_ident_ok E = true ->
  C18_ghost_statement (fun p => match proto_repl_tcp E clk ci tcb_new p with Ok (_, _, o) => o | Panic _ => None end).
Proof.
  intros HE HI p Hg.
  assert (Hpp : c18_prefixed p = true) by (unfold c18_prefixed; rewrite Hg; reflexivity).
  destruct (app_tcp_first E clk ci p HE HI Hpp) as (o & tc' & -> & He). unfold c18_expected in He.
  rewrite Hg in He. exact He.
Qed.
