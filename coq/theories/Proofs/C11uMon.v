(* Proofs/C11uMon.v -- the flow-level monitor [ok_C11_http_flow] of Spec/C11u.v holds of
   everything the model emits on a flow (any cuts); its strict variant is refuted on the
   class [c11_trailing_class] (computed on the current tables). *)
From Coq Require Import Lia.
From MS Require Import Proofs.Tactics Smack Http Proto Spec.AppView Spec.C11 Spec.C11http Spec.C11u
     Instance Proofs.C11 Proofs.C11Witness Proofs.C11uHttp Proofs.C11uExamples.

Lemma is_prefix_app (p x : bytes) : is_prefix p (p ++ x) = true.
Proof. induction p as [|a p IH]; [reflexivity|]. cbn [app is_prefix]. rewrite N.eqb_refl, IH. reflexivity. Qed.

Lemma is_401_resp E clk : is_401 E (http_401 E clk) = true.
Proof.
  unfold is_401, http_401. rewrite is_prefix_app. rewrite !rev_app_distr, <- app_assoc, is_prefix_app.
  cbn [andb]. apply Nat.leb_le. rewrite !app_length. lia.
Qed.

Lemma outs_match_ref E clk : forall segs acc,
  outs_match E (http_stream_ref_at E clk0 acc segs) (http_stream_ref_at E clk acc segs) = true.
Proof.
  induction segs as [|s rest IH]; intros acc; [reflexivity|]. cbn [http_stream_ref_at].
  destruct (http_answered (e_http_tbl E) (acc ++ s)); cbn [outs_match]; [rewrite is_401_resp|]; apply IH.
Qed.

Theorem http_flow_monitor E clk ci segs outs :
  proto_tbl_ok E = true -> http_uniform_ok E = true ->
  smack_ok (e_http_tbl E) = true -> http_tbl_ok (e_http_tbl E) = true ->
  bytes_ok (concat segs) = true ->
  tcp_stream E clk ci tcb_new segs = Ok outs -> ok_C11_http_flow E segs outs = true.
Proof.
  intros Ht Hu Hhok Hhtbl Hb Hs. unfold ok_C11_http_flow.
  destruct (tcp_first_id E (concat segs)) as [i|] eqn:Hid; [|reflexivity].
  destruct (i =? PROTO_HTTP) eqn:Hi; [|reflexivity]. apply N.eqb_eq in Hi. subst i.
  rewrite (http_stream_uniform E clk ci segs Ht Hu Hhok Hhtbl Hb Hid) in Hs. injection Hs as <-.
  apply outs_match_ref.
Qed.

(* the strict monitor (the property as worded, for the whole flow) flags the pipelined stream
   in one segment, which is in the class; it accepts the same stream cut between the requests,
   which is not; the monitor of the implementation's reading accepts both *)
Theorem http_flow_strict_refuted :
  exists o1 o2,
    tcp_stream the_env w11_clk w11_ci tcb_new cut_one = Ok o1 /\
    tcp_stream the_env w11_clk w11_ci tcb_new cut_two = Ok o2 /\
    ok_C11_http_flow_strict the_env cut_one o1 = false /\ c11_trailing_class the_env cut_one = true /\
    ok_C11_http_flow_strict the_env cut_two o2 = true /\ c11_trailing_class the_env cut_two = false /\
    ok_C11_http_flow the_env cut_one o1 = true /\ ok_C11_http_flow the_env cut_two o2 = true /\
    http_requests (e_http_tbl the_env) http_new w11_two = 2%nat.
Proof.
  eexists _, _. split; [vm_compute; reflexivity|]. split; [vm_compute; reflexivity|].
  repeat split; vm_compute; reflexivity.
Qed.
