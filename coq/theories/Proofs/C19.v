(* Proofs/C19.v -- the application layer factors through a context-free core. *)
From MS Require Import Proofs.Tactics Proofs.Pending Proto Spec.AppView Spec.C19.

Lemma ci_full_inv ci : ci_full ci = true ->
  exists a b c d, ci_ip_src ci = Some a /\ ci_ip_dst ci = Some b /\ ci_port_src ci = Some c /\ ci_port_dst ci = Some d.
Proof.
  unfold ci_full. destruct (ci_ip_src ci), (ci_ip_dst ci), (ci_port_src ci), (ci_port_dst ci); try discriminate.
  intros _. eauto 10.
Qed.

(* STUN: the payload depends on the context only through MAPPED-ADDRESS; the
   reply port is shifted iff the core says so *)
Lemma stun_repl_core ci p : ci_full ci = true ->
  snd (stun_repl ci p) = render (stun_core p) ci /\
  ci_port_dst (fst (stun_repl ci p)) = option_map (reply_port (stun_core p)) (ci_port_dst ci).
Proof.
  intros Hf. destruct (ci_full_inv _ Hf) as (a & b & c & d & Ha & Hb & Hc & Hd).
  unfold stun_repl, stun_core.
  destruct (length p <? 20)%nat; [cbn; rewrite Hd; split; reflexivity|].
  destruct (64 <=? u8_at 0 p); [cbn; rewrite Hd; split; reflexivity|].
  destruct (lenN p <? 20 + u16_at 2 p); [cbn; rewrite Hd; split; reflexivity|].
  destruct (stun_attrs _ _ false) as [chg|]; [|cbn; rewrite Hd; split; reflexivity].
  destruct (negb (_ =? 0)); [cbn; rewrite Hd; split; reflexivity|].
  destruct (negb (_ =? 1)); [cbn; rewrite Hd; split; reflexivity|].
  rewrite Ha, Hc, Hd. cbn [fst snd render]. rewrite Ha, Hc, Hd.
  split; [reflexivity|]. destruct chg; cbn; [reflexivity|exact Hd].
Qed.

Lemma render_of_opt o ci : render (of_opt o) ci = o.
Proof. destruct o; reflexivity. Qed.
Lemma reply_port_of_opt o d : reply_port (of_opt o) d = d.
Proof. destruct o; reflexivity. Qed.

Definition pstate_of (t : option tcb) : option pstate :=
  match t with Some tc => t_pstate tc | None => None end.

Lemma dispatch_core_sound E clk ci id t p : ci_full ci = true ->
  match dispatch_core E clk id (pstate_of t) p with
  | Ok (c, ps') =>
    exists ci' t', dispatch E clk ci id t p = Ok (ci', t', render c ci) /\
                   ci_port_dst ci' = option_map (reply_port c) (ci_port_dst ci) /\
                   match t with Some _ => pstate_of t' = ps' | None => t' = None end
  | Panic s => dispatch E clk ci id t p = Panic s
  end.
Proof.
  intros Hf. destruct (ci_full_inv _ Hf) as (a & b & c & d & Ha & Hb & Hc & Hd).
  unfold dispatch_core, dispatch.
  destruct (id =? PROTO_HTTP).
  { destruct t as [tc|]; cbn [pstate_of].
    - destruct (t_pstate tc) as [[h|r]|]; try reflexivity.
      + destruct (http_repl _ _ _ _ h p) as [[h' o]|s]; cbn [bind fst snd]; [|reflexivity].
        eexists _, _. rewrite ?render_of_opt, Hd; cbn [option_map]; rewrite ?reply_port_of_opt. repeat split; reflexivity.
      + destruct (http_repl _ _ _ _ http_new p) as [[h' o]|s]; cbn [bind fst snd]; [|reflexivity].
        eexists _, _. rewrite ?render_of_opt, Hd; cbn [option_map]; rewrite ?reply_port_of_opt. repeat split; reflexivity.
    - destruct (http_repl _ _ _ _ http_new p) as [[h' o]|s]; cbn [bind fst snd]; [|reflexivity].
      eexists _, _. rewrite ?render_of_opt, Hd; cbn [option_map]; rewrite ?reply_port_of_opt. repeat split; reflexivity. }
  destruct (id =? PROTO_STUN).
  { destruct (stun_repl_core ci p Hf) as [Hs Hp].
    destruct (stun_repl ci p) as [ci2 o] eqn:Hst. cbn [fst snd] in Hs, Hp.
    eexists _, _. rewrite <- Hs. split; [reflexivity|]. split; [exact Hp|]. destruct t; reflexivity. }
  destruct (id =? PROTO_SSH).
  { eexists _, _. rewrite ?render_of_opt, Hd; cbn [option_map]; rewrite ?reply_port_of_opt. repeat split; try reflexivity. destruct t; reflexivity. }
  destruct (id =? PROTO_GHOST).
  { eexists _, _. rewrite ?render_of_opt, Hd; cbn [option_map]; rewrite ?reply_port_of_opt. repeat split; try reflexivity. destruct t; reflexivity. }
  destruct (id =? PROTO_RPC_TCP).
  { rewrite Hb, Hd. destruct t as [tc|]; cbn [pstate_of].
    - destruct (t_pstate tc) as [[h|r]|]; try reflexivity.
      + unfold rpc_repl_tcp. destruct (r_state (rpc_parse r p) =? R_END);
          [destruct (r_mtype (rpc_parse r p) =? 0)|]; cbn [render reply_port];
          eexists _, _; rewrite ?Hb, ?Hd; repeat split; reflexivity.
      + unfold rpc_repl_tcp. destruct (r_state (rpc_parse (rpc_new R_FRAG) p) =? R_END);
          [destruct (r_mtype (rpc_parse (rpc_new R_FRAG) p) =? 0)|]; cbn [render reply_port];
          eexists _, _; rewrite ?Hb, ?Hd; repeat split; reflexivity.
    - unfold rpc_repl_tcp. destruct (r_state (rpc_parse (rpc_new R_FRAG) p) =? R_END);
        [destruct (r_mtype (rpc_parse (rpc_new R_FRAG) p) =? 0)|]; cbn [render reply_port snd];
        eexists _, _; rewrite ?Hb, ?Hd; repeat split; reflexivity. }
  destruct (id =? PROTO_RPC_UDP).
  { rewrite Hb, Hd. unfold rpc_repl_udp.
    destruct ((r_state (rpc_parse (rpc_new R_XID) p) =? R_END) && (r_mtype (rpc_parse (rpc_new R_XID) p) =? 0));
      cbn [render reply_port];
      eexists _, _; rewrite ?Hb, ?Hd; repeat split; try reflexivity; destruct t; reflexivity. }
  destruct (id =? PROTO_SMB1).
  { destruct (smb1_repl _ _ _ p) as [o|s]; cbn [bind]; [|reflexivity].
    eexists _, _. rewrite ?render_of_opt, Hd; cbn [option_map]; rewrite ?reply_port_of_opt. repeat split; try reflexivity. destruct t; reflexivity. }
  destruct (id =? PROTO_SMB2).
  { destruct (smb2_repl _ _ _ p) as [o|s]; cbn [bind]; [|reflexivity].
    eexists _, _. rewrite ?render_of_opt, Hd; cbn [option_map]; rewrite ?reply_port_of_opt. repeat split; try reflexivity. destruct t; reflexivity. }
  eexists _, _. cbn [render reply_port]. rewrite Hd. repeat split; try reflexivity.
  destruct t; reflexivity.
Qed.

(* ---- datagrams ---- *)
Theorem udp_context_free E clk p ci : ci_full ci = true ->
  match udp_core E clk p with
  | Ok c => exists ci', proto_repl_udp E clk ci p = Ok (ci', render c ci) /\
                        ci_port_dst ci' = option_map (reply_port c) (ci_port_dst ci)
  | Panic s => proto_repl_udp E clk ci p = Panic s
  end.
Proof.
  intros Hf. unfold udp_core, proto_repl_udp, udp_id.
  destruct (search_next (e_proto_tbl E) BASE_STATE p) as [[id st] n].
  set (id' := match id with Some i => Some i | None => fst (search_next_end (e_proto_tbl E) st) end).
  destruct id' as [i|].
  - pose proof (dispatch_core_sound E clk ci i None p Hf) as D. cbn [pstate_of] in D.
    destruct (dispatch_core E clk i None p) as [[c ps']|s]; cbn [bind fst].
    + destruct D as (ci' & t' & -> & Hp & _). cbn [bind]. eexists. split; [reflexivity|exact Hp].
    + rewrite D. reflexivity.
  - destruct (ci_full_inv _ Hf) as (a & b & c & d & Ha & Hb & Hc & Hd).
    unfold dns_core, dns_repl. rewrite Hb.
    destruct (dns_parse p) as [m|]; [|eexists; cbn; rewrite Hd; split; reflexivity].
    destruct (32768 <=? d_flags m); [eexists; cbn; rewrite Hd; split; reflexivity|].
    destruct (forallb _ _); eexists; cbn [render reply_port]; rewrite ?Hb, Hd; split; reflexivity.
Qed.

(* ---- first data segment of a TCP flow ---- *)
Theorem tcp_first_context_free E clk p ci : ci_full ci = true ->
  match tcp_first_core E clk p with
  | Ok c => exists ci' tc', proto_repl_tcp E clk ci tcb_new p = Ok (ci', tc', render c ci) /\
                            ci_port_dst ci' = option_map (reply_port c) (ci_port_dst ci)
  | Panic s => proto_repl_tcp E clk ci tcb_new p = Panic s
  end.
Proof.
  intros Hf. rewrite proto_repl_tcp_first. unfold tcp_first_core, tcp_first_id.
  destruct (search_next (e_proto_tbl E) BASE_STATE p) as [[id st] n].
  cbv zeta. cbn [t_proto t_pstate].
  set (tc1 := {| t_smack := st; t_proto := id_of id; t_pstate := None; t_pending := pending_first id p |}).
  pose proof (dispatch_core_sound E clk ci (id_of id) (Some tc1) p Hf) as D. cbn [pstate_of t_pstate tc1 tcb_new] in D.
  destruct (dispatch_core E clk (id_of id) None p) as [[c ps']|s]; cbn [bind fst].
  - destruct D as (ci' & t' & -> & Hp & _). cbn [bind]. eexists _, _. split; [reflexivity|exact Hp].
  - rewrite D. reflexivity.
Qed.

(* ---- where the context may show ---- *)
Lemma rpc_build_endpoint_free s ip port ip' port' :
  rpc_endpoint_free s = true -> rpc_build s ip port = rpc_build s ip' port'.
Proof.
  unfold rpc_endpoint_free, rpc_build, rpc_portmap. intros H.
  destruct ((r_progvers s <? 2) || (4 <? r_progvers s)); [reflexivity|].
  destruct (r_proc s =? 0) eqn:P0; [reflexivity|].
  destruct (r_prog s =? 100000); [|reflexivity].
  cbn [orb negb] in H.
  destruct (r_proc s =? 3); [discriminate|]. destruct (r_proc s =? 4); [discriminate|]. reflexivity.
Qed.

(* constant responders (HTTP, SSH, Gh0st, SMB) and silence: the very same bytes in every context *)
Lemma render_const c ci ci' :
  (match c with CSilent | CConst _ => True | _ => False end) -> render c ci = render c ci'.
Proof. destruct c; intros H; try contradiction; reflexivity. Qed.

(* whether a payload is answered does not depend on the context *)
Lemma answered_context_free c ci ci' :
  ci_full ci = true -> ci_full ci' = true ->
  (match render c ci with Some _ => true | None => false end) =
  (match render c ci' with Some _ => true | None => false end).
Proof.
  intros H H'. destruct (ci_full_inv _ H) as (a & b & x & d & Ha & Hb & Hc & Hd).
  destruct (ci_full_inv _ H') as (a' & b' & x' & d' & Ha' & Hb' & Hc' & Hd').
  destruct c; cbn [render]; rewrite ?Ha, ?Hb, ?Hc, ?Hd, ?Ha', ?Hb', ?Hc', ?Hd'; reflexivity.
Qed.

(* STUN: only MAPPED-ADDRESS and the two lengths derived from it depend on the context *)
Lemma stun_response_shape tid src sport :
  length tid = 16%nat ->
  firstn 2 (stun_response tid src sport) = [1; 1] /\
  slice 4 16 (stun_response tid src sport) = tid /\
  slice 20 2 (stun_response tid src sport) = [0; 1].
Proof.
  intros H. unfold stun_response, slice, be16.
  repeat split; explode_lists; reflexivity.
Qed.

(* DNS: only the RDATA (and RDLENGTH) of the answers depends on the context *)
Lemma render_dns_prefix m ip ip' :
  firstn (length (dns_header_reply m ++ concat (map ser_question (d_qd m)))) (render_dns m ip) =
  firstn (length (dns_header_reply m ++ concat (map ser_question (d_qd m)))) (render_dns m ip').
Proof.
  unfold render_dns. rewrite !app_assoc.
  set (pre := dns_header_reply m ++ concat (map ser_question (d_qd m))).
  rewrite !firstn_app, !Nat.sub_diag, !firstn_all. reflexivity.
Qed.

(* ---- frame level: two datagrams carrying the same payload, whatever their addresses,
   ports, IP version, configuration and history ---- *)
From MS Require Import L2 Spec.View Spec.RefDec Proofs.Lift.

Theorem frames_same_payload E clk cfg cfg' tb tb2 f f' v v' tb' tb2' r r' evs evs' :
  cfg_ok cfg = true -> cfg_ok cfg' = true -> bytes_ok f = true -> bytes_ok f' = true ->
  view_udp cfg f = Some v -> view_udp cfg' f' = Some v' ->
  skipn 8 (v_l4 v) = skipn 8 (v_l4 v') ->
  reply E cfg clk tb f = Ok (tb', r, evs) ->
  reply E cfg' clk tb2 f' = Ok (tb2', r', evs') ->
  exists c, udp_core E clk (skipn 8 (v_l4 v)) = Ok c /\
            udp_resp r = Some (render c (udp_ci f v)) /\
            udp_resp r' = Some (render c (udp_ci f' v')).
Proof.
  intros Hc Hc' Hf Hf' Hv Hv' Hp Hr Hr'.
  destruct (udp_lift _ _ _ _ _ _ _ _ _ Hc Hf Hv Hr) as (_ & ci1 & out & Hpr & Hresp & _).
  destruct (udp_lift _ _ _ _ _ _ _ _ _ Hc' Hf' Hv' Hr') as (_ & ci2 & out' & Hpr' & Hresp' & _).
  pose proof (udp_context_free E clk (skipn 8 (v_l4 v)) (udp_ci f v) (udp_ci_full f v)) as A.
  pose proof (udp_context_free E clk (skipn 8 (v_l4 v')) (udp_ci f' v') (udp_ci_full f' v')) as B.
  rewrite <- Hp in B.
  destruct (udp_core E clk (skipn 8 (v_l4 v))) as [c|s].
  - destruct A as (x & A & _). destruct B as (y & B & _).
    rewrite Hpr in A. rewrite <- Hp in Hpr'. rewrite Hpr' in B.
    inversion A; subst. inversion B; subst.
    exists c. repeat split; assumption.
  - rewrite Hpr in A. discriminate.
Qed.
