"""Shared generators: configurations, application payload seeds, frames at every layer,
and the malformed stream. All randomness comes from the rng passed in."""
import struct, random
import net
from runner import Script, Cfg

SELF4, SELF6 = "10.0.0.1", "2001:db8::1"
PEER4, PEER6 = "10.0.0.9", "2001:db8::9"
OTHER4, OTHER6 = "10.0.0.77", "2001:db8::77"
DENY4, DENY6 = "10.0.0.66", "2001:db8::66"


def cfgs(logger="none", level=5, key=(0, 0)):
    return [
        Cfg(key=key, logger=logger, level=level),
        Cfg(self_ips=[SELF4, SELF6], key=key, logger=logger, level=level),
        Cfg(self_ips=[SELF4, SELF6, "10.0.0.2"], deny=[DENY4, DENY6], key=key, logger=logger, level=level),
        Cfg(deny=[DENY4, DENY6], key=key, logger=logger, level=level),
    ]


# ---------------- application payload seeds ----------------
def http_req(rng=None, verb=b"GET", target=b"/", version=b"HTTP/1.1", headers=None, eol=b"\r\n"):
    headers = headers if headers is not None else [(b"Host", b"example.org"), (b"Accept", b"*/*")]
    s = verb + b" " + target + b" " + version + eol
    for k, v in headers:
        s += k + b": " + v + eol
    return s + eol


def stun_req(tid=None, attrs=b"", magic=False, mtype=0x0001, length=None):
    tid = tid if tid is not None else bytes(range(16))
    if magic:
        tid = bytes.fromhex("2112a442") + tid[4:]
    if length is None:
        length = len(attrs)
    return struct.pack("!HH", mtype, length) + tid + attrs


def stun_attr(ty, val):
    return struct.pack("!HH", ty, len(val)) + val


def dns_query(qid=0x1337, flags=0x0100, names=(b"www.example.com",), qtype=1, qclass=1, an=0, ns=0, ar=0, tail=b""):
    q = struct.pack("!HHHHHH", qid, flags, len(names), an, ns, ar)
    for n in names:
        for lab in n.split(b"."):
            if lab:
                q += bytes([len(lab)]) + lab
        q += b"\0" + struct.pack("!HH", qtype, qclass)
    return q + tail


def rpc_call(xid=0x12345678, rpcvers=2, prog=100000, vers=2, proc=3, cred=b"", verf=b"", tcp=False, body=b"", mtype=0):
    m = struct.pack("!IIIIII", xid, mtype, rpcvers, prog, vers, proc)
    m += struct.pack("!II", 0, len(cred)) + cred + struct.pack("!II", 0, len(verf)) + verf + body
    if tcp:
        m = struct.pack("!I", 0x80000000 | len(m)) + m
    return m


SMB1_NEG = bytes.fromhex("00000054ff534d4272000000001843c80000000000000000000000000000feff0000000000310002") + \
    b"NT LANMAN 1.0\x00\x02NT LM 0.12\x00\x02SMB 2.002\x00\x02SMB 2.???\x00"
SMB2_NEG = bytes.fromhex("00000068fe534d42400000000000000000001f0000000000000000000700000000000000000000000000"
                         "000000000000000000000000000000000000000000000000000024000200010000007f000000"
                         "a0a1a2a3a4a5a6a7a8a9aaabacadaeaf780000000300000002021002")
SMB2_SETUP = bytes.fromhex("00000060fe534d42400000000000000001001f00000000000000000001000000000000000000000000000000000000000000000000000000000000000000000000000000"
                           "1900000101000000000000005800080000000000000000006006626c6f623132")


def app_seeds():
    """(name, payload, works over tcp?, works over udp?)"""
    cr = stun_attr(3, struct.pack("!I", 2))
    return [
        ("http", http_req(), True, True),
        ("http-lf", http_req(eol=b"\n", headers=[]), True, True),
        ("ssh2", b"SSH-2.0-OpenSSH_8.9 comment here\r\n", True, True),
        ("ssh199", b"SSH-1.99-x\r\n", True, True),
        ("ghost", b"Gh0st\x00\x01\x02", True, True),
        ("stun-empty", stun_req(), True, True),
        ("stun-change-port", stun_req(attrs=cr), True, True),
        ("stun-change-ip", stun_req(attrs=stun_attr(3, struct.pack("!I", 4))), True, True),
        ("stun-change-both", stun_req(attrs=stun_attr(3, struct.pack("!I", 6))), True, True),
        ("stun-change-all-bits", stun_req(attrs=stun_attr(3, struct.pack("!I", 7))), True, True),
        ("stun-magic-long", stun_req(attrs=stun_attr(0x8022, b"x" * 252) + cr, magic=True), True, True),
        ("dns", dns_query(), False, True),
        ("dns-2q", dns_query(names=(b"a.b", b"c.d.e")), False, True),
        ("rpc-udp", rpc_call(xid=0xa1b2c3d4), False, True),
        ("rpc-tcp", rpc_call(xid=0xa1b2c3d4, tcp=True), True, False),
        ("rpc-dump-v4", rpc_call(xid=0xa1b2c3d4, vers=4, proc=4), False, True),
        ("smb1-negotiate", SMB1_NEG, True, True),
        ("smb2-negotiate", SMB2_NEG, True, True),
        ("smb2-session-setup", SMB2_SETUP, True, True),
        ("junk", b"\x01\x02\x03hello", True, True),
        ("empty", b"", True, True),
    ]


# ---------------- frames ----------------
def addr_pair(v6, src=None, dst=None):
    if v6:
        return (src or PEER6, dst or SELF6)
    return (src or PEER4, dst or SELF4)


def handshake(key, src, dst, sport, dport, payloads, isn=1000, **kw):
    """SYN, then PSH|ACK segments carrying the payloads in order (correct cookie)."""
    ck = net.cookie(key, src, dst, sport, dport)
    fr = [net.frame_tcp(src, dst, sport, dport, isn, 0, 0x02, **kw)]
    seq = isn + 1
    for p in payloads:
        fr.append(net.frame_tcp(src, dst, sport, dport, seq, (ck + 1) & 0xFFFFFFFF, 0x18, p, **kw))
        seq = (seq + len(p)) & 0xFFFFFFFF
    return fr


def arp_req(tpa, spa=PEER4, sha=net.MAC_PEER, op=1, mac_dst=b"\xff" * 6, eth_src=None, **kw):
    """eth_src: Ethernet source when it differs from the sender hardware address announced in the ARP body
    (proxy / relayed / spoofed ARP)."""
    return net.eth(mac_dst, sha if eth_src is None else eth_src, 0x0806, net.arp(op, sha, spa, b"\0" * 6, tpa, **kw))


def echo4(src, dst, data=b"abcdefgh", ident=0x1234, seqno=1, ty=8, code=0, mac_dst=net.MAC_SELF):
    return net.eth(mac_dst, net.MAC_PEER, 0x0800,
                   net.ipv4(src, dst, 1, net.icmp4(ty, code, struct.pack("!HH", ident, seqno) + data)))


def echo6(src, dst, data=b"abcdefgh", ident=0x1234, seqno=1, ty=128, code=0, mac_dst=net.MAC_SELF):
    return net.eth(mac_dst, net.MAC_PEER, 0x86DD,
                   net.ipv6(src, dst, 58, net.icmp6(src, dst, ty, code, struct.pack("!HH", ident, seqno) + data)))


def ns6(src, target, dst=None, code=0, opts=None, mac_dst=None, trunc=None):
    t = net.ip_bytes(target)
    dst = dst or (bytes.fromhex("ff0200000000000000000001ff") + t[13:])
    mac_dst = mac_dst or (b"\x33\x33\xff" + t[13:])
    opts = opts if opts is not None else (b"\x01\x01" + net.MAC_PEER)
    body = b"\0\0\0\0" + t + opts
    if trunc is not None:
        body = body[:trunc]
    return net.eth(mac_dst, net.MAC_PEER, 0x86DD, net.ipv6(src, dst, 58, net.icmp6(src, dst, 135, code, body), hlim=255))


def l2l3_noise(rng, n):
    """UDP / ICMP / ARP traffic that must never touch TCP state."""
    out = []
    for _ in range(n):
        k = rng.randrange(5)
        if k == 0:
            out.append(arp_req(SELF4))
        elif k == 1:
            out.append(echo4(PEER4, SELF4, data=bytes(rng.randrange(256) for _ in range(rng.randrange(40)))))
        elif k == 2:
            out.append(echo6(PEER6, SELF6))
        elif k == 3:
            name, p, _, _ = rng.choice(app_seeds())
            out.append(net.frame_udp(PEER4, SELF4, rng.randrange(65536), rng.randrange(65536), p))
        else:
            out.append(ns6(PEER6, SELF6))
    return out


def mutate_bytes(rng, b, n=1):
    b = bytearray(b)
    for _ in range(n):
        if not b:
            break
        k = rng.randrange(4)
        i = rng.randrange(len(b))
        if k == 0:
            b[i] = rng.randrange(256)
        elif k == 1:
            b[i] ^= 1 << rng.randrange(8)
        elif k == 2:
            del b[i]
        else:
            b.insert(i, rng.randrange(256))
    return bytes(b)


def all_layers_frames(rng, v6_too=True):
    """A mixed bag of frames of every kind that elicits replies of every kind."""
    fr = []
    for v6 in ([False, True] if v6_too else [False]):
        s, d = addr_pair(v6)
        for name, p, t, u in app_seeds():
            if u:
                fr.append(net.frame_udp(s, d, rng.randrange(1, 65536), rng.choice([53, 80, 111, 3478, 65535, rng.randrange(65536)]), p))
        fr.append(net.frame_tcp(s, d, 1234, 80, 77, 0, 0x02))
        fr.append(net.frame_tcp(s, d, 1234, 80, 77, 99, 0x11))
    fr += [arp_req(SELF4), echo4(PEER4, SELF4), echo6(PEER6, SELF6), ns6(PEER6, SELF6)]
    return fr


def patch(frame, off, bs):
    return frame[:off] + bs + frame[off + len(bs):]


def hostile_requests(rng):
    """Requests that elicit replies although their OWN header fields lie or are unusual: wrong / zero checksums at
    every layer, length fields that disagree with the frame (Ethernet padding, short totals), IPv4 options, TTL / hop
    limit 0, 1, 255, TOS / traffic class / flow label / fragment bits set, TCP options, window 0, neighbour
    solicitations from the unspecified address (duplicate address detection) and from link-local sources. Nothing of
    the reply may be derived from such a field without recomputation."""
    fr = []
    s4, d4, s6, d6 = PEER4, SELF4, PEER6, SELF6
    bad = lambda c: [b"\0\0", b"\xff\xff", struct.pack("!H", (c + 1) & 0xFFFF), struct.pack("!H", c ^ 0x8001),
                     struct.pack("!H", rng.randrange(65536))]
    datas = [b"", b"a", b"abcdefgh", bytes(range(33)), bytes(200)]
    # ICMP echo, both versions: checksum field of the request wrong
    for data in datas:
        e4, e6 = echo4(s4, d4, data=data), echo6(s6, d6, data=data)
        for f, off in ((e4, 14 + 20 + 2), (e6, 14 + 40 + 2)):
            c = struct.unpack("!H", f[off:off + 2])[0]
            for b in bad(c):
                fr.append(patch(f, off, b))
    # neighbour solicitations: unspecified / link-local source, unicast destination, wrong checksum, hop limits
    for src in ("::", "fe80::1", s6):
        for dst in (None, d6, "ff02::1"):
            f = ns6(src, d6, dst=dst, opts=(b"" if src == "::" else None),
                         mac_dst=(net.MAC_SELF if dst == d6 else None if dst is None else bytes.fromhex("333300000001")))
            fr.append(f)
            fr.append(patch(f, 14 + 40 + 2, b"\0\0"))
    # UDP application requests: checksum zero / wrong, length field lies, over both versions
    for payload in (dns_query(), b"SSH-2.0-x\r\n", stun_req(), rpc_call(xid=0xa1b2c3d4, vers=3, proc=3)):
        for v6 in (False, True):
            s, d = addr_pair(v6)
            l3 = 40 if v6 else 20
            f = net.frame_udp(s, d, 4321, 111, payload)
            c = struct.unpack("!H", f[14 + l3 + 6:14 + l3 + 8])[0]
            for b in bad(c):
                fr.append(patch(f, 14 + l3 + 6, b))
            for ln in (0, 7, 8, 8 + len(payload) - 1, 8 + len(payload) + 1, 65535):
                fr.append(patch(f, 14 + l3 + 4, struct.pack("!H", ln)))
    # TCP: SYN and data with wrong checksum, options, window 0, urgent pointer
    for v6 in (False, True):
        s, d = addr_pair(v6)
        l3 = 40 if v6 else 20
        syn = net.frame_tcp(s, d, 40000, 80, 7, 0, 0x02)
        fr += [patch(syn, 14 + l3 + 16, b"\0\0"), patch(syn, 14 + l3 + 16, b"\x12\x34"), patch(syn, 14 + l3 + 14, b"\0\0"),
               patch(syn, 14 + l3 + 18, b"\xff\xff")]
        for doff in (6, 8, 15):
            fr.append(net.frame_tcp(s, d, 40000 + doff, 80, 7, 0, 0x02, doff=doff, options=b"\x01" * (4 * (doff - 5))))
        # well-formed options with boundary values: MSS 0 / 1 / 536 / 1460 / 65535, window scale 0 / 14 / 255, SACK permitted,
        # timestamps, an option whose length byte lies, an unknown kind, end-of-list in the middle
        k = 0
        for opts in [b"\x02\x04" + struct.pack("!H", m) for m in (0, 1, 536, 1460, 65535)] + \
                    [b"\x03\x03" + bytes([w]) + b"\x01" for w in (0, 14, 255)] + \
                    [b"\x04\x02\x01\x01", b"\x08\x0a" + bytes(8) + b"\x01\x01", b"\x02\x04\x00\x00\x03\x03\x0e\x04\x02\x01\x01\x01",
                     b"\x02\xff\x05\xb4", b"\x02\x00\x05\xb4", b"\xfe\x04\xde\xad", b"\x00\x02\x04\x05", b"\x02\x03\x05\x01"]:
            k += 1
            pad = opts + b"\x01" * ((4 - len(opts) % 4) % 4)
            fr.append(net.frame_tcp(s, d, 40100 + k, 80, 7, 0, 0x02, doff=5 + len(pad) // 4, options=pad))
        for doff in (5, 7, 15):
            hs = handshake((5, 6), s, d, 41000 + doff, 80, [http_req()], doff=doff, options=b"\x01" * (4 * (doff - 5)))
            fr += hs
            fr.append(patch(hs[-1], 14 + l3 + 16, b"\0\0"))
    # IPv4 header: checksum wrong, TTL, TOS, id, fragment bits, options, totals that disagree with the frame
    base4 = [echo4(s4, d4), net.frame_udp(s4, d4, 999, 53, dns_query()), net.frame_tcp(s4, d4, 42000, 22, 1, 0, 0x02)]
    for f in base4:
        fr += [patch(f, 14 + 10, b"\0\0"), patch(f, 14 + 10, b"\xab\xcd"), patch(f, 14 + 8, b"\0"), patch(f, 14 + 8, b"\x01"),
               patch(f, 14 + 8, b"\xff"), patch(f, 14 + 1, b"\xff"), patch(f, 14 + 4, b"\xff\xff"),
               patch(f, 14 + 6, b"\x20\x00"), patch(f, 14 + 6, b"\x00\x01"), patch(f, 14 + 6, b"\x00\x00"),
               patch(f, 14 + 6, b"\xff\xff")]
        for pad in (1, 2, 18, 46):
            fr.append(f + bytes(pad))                      # Ethernet padding after the IP datagram
        total = struct.unpack("!H", f[16:18])[0]
        for t in (total - 1, total + 1, 20, 0, 65535):
            fr.append(patch(f, 16, struct.pack("!H", t & 0xFFFF)))
    for ihl in (0, 1, 3, 4):       # header length field below the minimum (the datagram still has 20 header bytes)
        fr.append(net.eth(net.MAC_SELF, net.MAC_PEER, 0x0800, net.ipv4(s4, d4, 1, net.icmp4(8, 0, b"\x12\x34\0\x01abcd"), ihl=ihl)))
        fr.append(net.eth(net.MAC_SELF, net.MAC_PEER, 0x0800,
                          net.ipv4(s4, d4, 17, net.udp(net.ip_bytes(s4), net.ip_bytes(d4), 5, 53, dns_query()), ihl=ihl)))
    for ihl in (6, 7, 15):
        opts = b"\x01" * (4 * (ihl - 5))
        fr.append(net.eth(net.MAC_SELF, net.MAC_PEER, 0x0800, net.ipv4(s4, d4, 1, net.icmp4(8, 0, b"\x12\x34\0\x01abcd"), ihl=ihl, options=opts)))
        fr.append(net.eth(net.MAC_SELF, net.MAC_PEER, 0x0800,
                          net.ipv4(s4, d4, 17, net.udp(net.ip_bytes(s4), net.ip_bytes(d4), 5, 53, dns_query()), ihl=ihl, options=opts)))
    # IPv6 header: traffic class / flow label, hop limits, payload length shorter than the frame
    base6 = [echo6(s6, d6), net.frame_udp(s6, d6, 999, 53, b"SSH-2.0-x\r\n"), net.frame_tcp(s6, d6, 42000, 22, 1, 0, 0x02),
             ns6(s6, d6)]
    for f in base6:
        fr += [patch(f, 14, b"\x6f\xff\xff\xff"), patch(f, 14 + 7, b"\0"), patch(f, 14 + 7, b"\x01"), patch(f, 14 + 7, b"\xff")]
        for pad in (1, 3, 40):
            fr.append(f + bytes(pad))
        plen = struct.unpack("!H", f[18:20])[0]
        for t in (plen - 1, plen + 1, 0, 8):
            fr.append(patch(f, 18, struct.pack("!H", t & 0xFFFF)))
    # IPv6 extension headers (hop-by-hop 0, routing 43, destination options 60, fragment 44) in front of an answerable
    # upper layer: the next-header value of the IPv6 header is then not one of the handled protocols
    def ext(nh, body=b"\x01\x04\0\0\0\0", second=0):
        return bytes([nh, second]) + body
    uppers = [(58, net.icmp6(s6, d6, 128, 0, b"\x12\x34\0\x01abcdefgh")), (58, net.icmp6(s6, d6, 129, 0, net.icmp6(s6, d6, 128, 0, b"\0\1\0\2data"))),
              (6, net.tcp(net.ip_bytes(s6), net.ip_bytes(d6), 43000, 80, 1, 0, 0x02)),
              (17, net.udp(net.ip_bytes(s6), net.ip_bytes(d6), 43000, 53, dns_query()))]
    for nh, upper in uppers:
        for chain in ([0], [60], [43], [44], [0, 60], [44, 60], [60, 44]):
            for second in (0, 1):
                pl, nxt = upper, nh
                for h in reversed(chain):
                    pl = ext(nxt, second=(second if h == 44 else 0)) + pl
                    nxt = h
                fr.append(net.eth(net.MAC_SELF, net.MAC_PEER, 0x86DD, net.ipv6(s6, d6, chain[0], pl)))
    # data segments that advertise a tiny receive window (the answer must not depend on it)
    for v6 in (False, True):
        s, d = addr_pair(v6)
        for k, win in enumerate((0, 1, 100, 229, 400, 65535)):
            for j, req in enumerate((http_req(), SMB1_NEG, SMB2_NEG, rpc_call(xid=0x81000001, vers=4, proc=4, tcp=True))):
                fr += handshake((5, 6), s, d, 44000 + 10 * k + j, 445, [req], window=win)
    return fr


def control_on_established(rng, key, v6_too=True):
    """Control segments on flows that already hold connection state, and data in unusual segments:
    every flow is validated by a first data segment (the first half of a split HTTP request, or an RPC call), then
    receives one of RST, RST|ACK, FIN|ACK, FIN, SYN, SYN|ACK, bare ACK, URG|ACK, SYN|PSH|ACK -- with and without a payload, with
    the cookie acknowledgement and with a stale one --, then the rest of the request. Also: SYNs that carry data on
    fresh flows, empty PSH|ACK segments with a wrong acknowledgement, the same 4-tuple re-used after FIN|ACK + SYN by
    another protocol. None of the control segments may create, delete or alter per-flow state, and what is answered
    afterwards must not depend on them."""
    fr, sport = [], 20000 + rng.randrange(1000)
    half1, half2 = b"GET /index.html HT", b"TP/1.1\r\nHost: a\r\n\r\n"
    ctrl = [0x04, 0x14, 0x11, 0x01, 0x02, 0x12, 0x10, 0x30, 0x1a, 0x0c, 0x42, 0x82]
    for v6 in ([False, True] if v6_too else [False]):
        s, d = addr_pair(v6)
        for fl in ctrl:
            for payload in (b"", b"HTTP/1.1 200 OK\r\n\r\n"):
                for good_ack in (True, False):
                    sport += 1
                    ck = net.cookie(key, s, d, sport, 80)
                    ack = (ck + 1) & 0xFFFFFFFF if good_ack else (ck + 1 + len(half1)) & 0xFFFFFFFF
                    hs = handshake(key, s, d, sport, 80, [half1])
                    fr += hs
                    fr.append(net.frame_tcp(s, d, sport, 80, 1001 + len(half1), ack, fl, payload))
                    fr.append(net.frame_tcp(s, d, sport, 80, 1001 + len(half1), (ck + 1) & 0xFFFFFFFF, 0x18, half2))
        # SYN with data on a fresh flow (all allowed SYN flag sets), then the normal exchange
        for fl in (0x02, 0x0a, 0x22, 0x42, 0x82, 0x2a):
            sport += 1
            fr.append(net.frame_tcp(s, d, sport, 22, 77, 0, fl, b"SSH-2.0-early\r\n"))
            fr += handshake(key, s, d, sport, 22, [b"SSH-2.0-x\r\n"])[1:]
        # empty PSH|ACK with wrong / zero / right acknowledgement on an unvalidated flow
        for ack_of in (lambda ck: 0, lambda ck: ck, lambda ck: (ck + 2) & 0xFFFFFFFF, lambda ck: (ck + 1) & 0xFFFFFFFF):
            sport += 1
            ck = net.cookie(key, s, d, sport, 80)
            fr.append(net.frame_tcp(s, d, sport, 80, 5, ack_of(ck), 0x18, b""))
            fr.append(net.frame_tcp(s, d, sport, 80, 5, (ck + 1) & 0xFFFFFFFF, 0x18, http_req()))
        # the same 4-tuple closed and re-used by another protocol
        for first, second in ((http_req(), rpc_call(xid=0x81000001, tcp=True)), (rpc_call(xid=0x81000002, tcp=True), http_req()),
                              (b"SSH-2.0-a\r\n", http_req())):
            for closer in ([0x11], [0x11, 0x02], [0x04, 0x02], [0x02]):
                sport += 1
                ck = net.cookie(key, s, d, sport, 111)
                fr += handshake(key, s, d, sport, 111, [first])
                for fl in closer:
                    fr.append(net.frame_tcp(s, d, sport, 111, 2000, (ck + 1) & 0xFFFFFFFF if fl != 0x02 else 0, fl))
                fr.append(net.frame_tcp(s, d, sport, 111, 2001, (ck + 1) & 0xFFFFFFFF, 0x18, second))
    return fr
