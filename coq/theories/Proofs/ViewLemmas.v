(* ViewLemmas.v -- sizes of the pieces of a view; decoding of wrapped replies. *)
From MS Require Import Proofs.Tactics Proofs.DecLemmas Proofs.Pipeline L2 Spec.View Spec.RefDec.

Lemma cfg_ok_mac cfg : cfg_ok cfg = true -> length (c_mac cfg) = 6%nat.
Proof. unfold cfg_ok. intros H. repeat (apply andb_true_iff in H; destruct H as [H ?]). lia. Qed.

Lemma ltb_false_le (a b : nat) : (a <? b)%nat = false -> (b <= a)%nat.
Proof. intros H. apply Nat.ltb_ge. exact H. Qed.

Lemma view_sizes cfg f v :
  view cfg f = Some v ->
  length (slice 6 6 f) = 6%nat /\
  (if v_v4 v then length (v_src v) = 4%nat /\ length (v_dst v) = 4%nat
   else length (v_src v) = 16%nat /\ length (v_dst v) = 16%nat).
Proof.
  intros Hv. destruct (view_inv _ _ _ Hv) as (Hlen & _ & [H4 | H6]).
  - destruct H4 as (_ & Hl3 & -> & -> & -> & _).
    apply ltb_false_le in Hlen. apply ltb_false_le in Hl3.
    split; [apply slice_length; lia|].
    split; apply slice_length; lia.
  - destruct H6 as (_ & Hl3 & -> & -> & -> & _).
    apply ltb_false_le in Hlen. apply ltb_false_le in Hl3.
    split; [apply slice_length; lia|].
    split; apply slice_length; lia.
Qed.

(* decoding a TCP reply built by the stack *)
Lemma dec_wrap_tcp cfg f v hlim sp dp seq ack fl pl :
  cfg_ok cfg = true -> view cfg f = Some v -> v_proto v = 6 -> fl < 512 -> hlim < 256 ->
  exists e i,
    dec_frame_tcp (wrap_ip cfg f v (v_dst v) hlim (seal_tcp v (tcp_header sp dp seq ack fl ++ pl)))
    = Some (e, i,
            {| dt_sport := sp mod 65536; dt_dport := dp mod 65536;
               dt_seq := seq mod 4294967296; dt_ack := ack mod 4294967296;
               dt_doff := 5; dt_flags := fl; dt_window := 65535; dt_payload := pl |}) /\
    de_dst e = slice 6 6 f /\ de_src e = c_mac cfg /\
    de_type e = (if v_v4 v then 2048 else 34525) /\
    di_v4 i = v_v4 v /\ di_src i = v_dst v /\ di_dst i = v_src v /\ di_proto i = 6.
Proof.
  intros Hcfg Hv Hp Hfl Hh.
  destruct (view_sizes _ _ _ Hv) as (Hm & Hsz).
  pose proof (cfg_ok_mac _ Hcfg) as Hmac.
  unfold wrap_ip, seal_tcp, dec_frame_tcp, dec_frame_ip. rewrite Hp.
  destruct (v_v4 v).
  - destruct Hsz as [Hs Hd].
    rewrite dec_eth_frame by (assumption || lia).
    unfold dec_ip. cbn [de_type de_payload]. change (2048 =? 2048) with true. cbv iota.
    rewrite dec_ipv4_packet by (assumption || lia).
    cbn [di_proto di_payload]. change (6 =? 6) with true. cbv iota.
    rewrite dec_tcp_segment by assumption.
    eexists _, _. split; [reflexivity|]. cbn. repeat split; reflexivity.
  - destruct Hsz as [Hs Hd].
    rewrite dec_eth_frame by (assumption || lia).
    unfold dec_ip. cbn [de_type de_payload]. change (34525 =? 2048) with false.
    change (34525 =? 34525) with true. cbv iota.
    rewrite dec_ipv6_packet by (assumption || lia).
    cbn [di_proto di_payload]. change (6 =? 6) with true. cbv iota.
    rewrite dec_tcp_segment by assumption.
    eexists _, _. split; [reflexivity|]. cbn. repeat split; reflexivity.
Qed.
