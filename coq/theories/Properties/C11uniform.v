(* Properties/C11uniform.v -- C11: the UNIFORM form of the HTTP segmentation theorem, cut
   invariance (HTTP and ONC-RPC), and the frame-level version.  Pins statements only.

   [http_stream_ref] (Spec/C11u.v) is a function of the byte stream and the segment boundaries
   alone, read off the per-byte parser: bare ACK until the bytes received since the last answer
   contain the completing byte, the 401 in the segment that contains it, then a fresh start
   with the NEXT segment (the rest of the answering segment is dropped).
   Per-table obligations, decided by computation on the dumped matchers on every run:
   [proto_tbl_ok E] (Properties/C11.v) and [http_uniform_ok E] -- a stream whose first 11 bytes
   complete no signature is never identified as HTTP (C11_current_uniform_table); 11 bytes is
   less than any request the parser answers, for every verb table (C11_http_quiet_short). *)
From MS Require Import Rpc Proto L2 Spec.View Spec.TcpRef Spec.AppView Spec.C11 Spec.EnvOk Spec.C11http Spec.C11u Spec.C11uFrame
     Instance Proofs.C11 Proofs.C11Witness Proofs.C11Examples Proofs.LiftTcp Proofs.FrameBuild
     Proofs.C11uQuiet Proofs.C11uHttp Proofs.C11uCut Proofs.C11uFrame Proofs.C11uClock Proofs.C11uExamples Proofs.C11uMon.

(* ---- per-run obligation ---- *)
Theorem C11_current_uniform_table : http_uniform_ok the_env = true.
Proof. exact current_http_uniform_ok. Qed.

Theorem C11_current_uniform_table_tight :
  sig_bound_ok (e_proto_tbl the_env) PROTO_HTTP 9 = true /\ sig_bound_ok (e_proto_tbl the_env) PROTO_HTTP 8 = false.
Proof. exact current_sig_bound_tight. Qed.

(* ---- the key lemma, two halves ---- *)
(* for EVERY verb table: the per-byte parser does not answer a stream of fewer than 11 bytes *)
Theorem C11_http_quiet_short :
  forall tbl p, (length p < HTTP_QUIET)%nat -> http_answered tbl p = false.
Proof. exact http_quiet_short. Qed.

(* for every protocol table that passes the check: an unidentified prefix of a stream
   identified as HTTP is shorter than 11 bytes *)
Theorem C11_http_ident_early :
  forall E p a, proto_tbl_ok E = true -> http_uniform_ok E = true -> bytes_ok (p ++ a) = true ->
    tcp_first_id E p = None -> tcp_first_id E (p ++ a) = Some PROTO_HTTP -> (length p < HTTP_QUIET)%nat.
Proof. exact http_ident_early. Qed.

(* ---- 1. the uniform equation ---- a flow whose stream is identified as HTTP, cut in ANY way
   (also inside the verb, also one byte per segment, empty segments allowed) *)
Theorem C11_http_stream_uniform :
  forall E clk ci segs,
    proto_tbl_ok E = true -> http_uniform_ok E = true ->
    smack_ok (e_http_tbl E) = true -> http_tbl_ok (e_http_tbl E) = true ->
    bytes_ok (concat segs) = true -> tcp_first_id E (concat segs) = Some PROTO_HTTP ->
    tcp_stream E clk ci tcb_new segs = Ok (http_stream_ref E clk segs).
Proof. exact http_stream_uniform. Qed.

Theorem C11_http_stream_uniform_env :
  forall E clk ci segs,
    env_ok E = true -> proto_tbl_ok E = true -> http_uniform_ok E = true ->
    bytes_ok (concat segs) = true -> tcp_first_id E (concat segs) = Some PROTO_HTTP ->
    tcp_stream E clk ci tcb_new segs = Ok (http_stream_ref E clk segs).
Proof. exact http_stream_uniform_env. Qed.

(* the responder on an identified flow, from any point at which its state is similar to the
   per-byte state after the bytes received since the last answer *)
Theorem C11_http_outs_uniform :
  forall E clk, smack_ok (e_http_tbl E) = true -> http_tbl_ok (e_http_tbl E) = true ->
  forall segs, bytes_ok (concat segs) = true ->
    http_outs E clk http_new segs = Ok (http_stream_ref E clk segs).
Proof. exact http_outs_new_ref. Qed.

(* ---- 2. cut invariance, HTTP ---- [http_complete_at tbl s] is a function of s only *)
Theorem C11_http_complete_at_some :
  forall tbl s k, http_complete_at tbl s = Some k ->
    (k < length s)%nat /\ (forall n, (n <= k)%nat -> http_answered tbl (firstn n s) = false) /\
    (forall n, (k < n)%nat -> http_answered tbl (firstn n s) = true).
Proof. exact http_complete_at_some. Qed.

Theorem C11_http_complete_at_none :
  forall tbl s, http_complete_at tbl s = None -> forall n, http_answered tbl (firstn n s) = false.
Proof. exact http_complete_at_none. Qed.

Theorem C11_seg_index_spec :
  forall segs k, (k < length (concat segs))%nat ->
    (seg_index segs k < length segs)%nat /\
    (length (concat (firstn (seg_index segs k) segs)) <= k < length (concat (firstn (S (seg_index segs k)) segs)))%nat.
Proof. exact seg_index_spec. Qed.

Theorem C11_http_reply_segment :
  forall E clk ci s segs,
    proto_tbl_ok E = true -> http_uniform_ok E = true ->
    smack_ok (e_http_tbl E) = true -> http_tbl_ok (e_http_tbl E) = true ->
    concat segs = s -> bytes_ok s = true -> tcp_first_id E s = Some PROTO_HTTP ->
    exists outs, tcp_stream E clk ci tcb_new segs = Ok outs /\ length outs = length segs /\
      match http_complete_at (e_http_tbl E) s with
      | Some k => (k < length s)%nat /\ first_reply_at outs (seg_index segs k) (Some (http_401 E clk))
      | None => outs = quiet (length segs)
      end.
Proof. exact http_reply_segment. Qed.

Theorem C11_http_cut_invariance :
  forall E clk ci s segs1 segs2,
    proto_tbl_ok E = true -> http_uniform_ok E = true ->
    smack_ok (e_http_tbl E) = true -> http_tbl_ok (e_http_tbl E) = true ->
    concat segs1 = s -> concat segs2 = s -> bytes_ok s = true -> tcp_first_id E s = Some PROTO_HTTP ->
    exists outs1 outs2,
      tcp_stream E clk ci tcb_new segs1 = Ok outs1 /\ tcp_stream E clk ci tcb_new segs2 = Ok outs2 /\
      length outs1 = length segs1 /\ length outs2 = length segs2 /\
      match http_complete_at (e_http_tbl E) s with
      | Some k => (k < length s)%nat /\
                  first_reply_at outs1 (seg_index segs1 k) (Some (http_401 E clk)) /\
                  first_reply_at outs2 (seg_index segs2 k) (Some (http_401 E clk))
      | None => outs1 = quiet (length segs1) /\ outs2 = quiet (length segs2)
      end.
Proof. exact http_cut_invariance. Qed.

(* ---- 3. cut invariance, ONC-RPC ---- *)
Theorem C11_rpc_cut_invariance :
  forall E clk ci ip port s segs1 segs2,
    proto_tbl_ok E = true -> ci_ip_dst ci = Some ip -> ci_port_dst ci = Some port ->
    concat segs1 = s -> concat segs2 = s -> bytes_ok s = true -> tcp_first_id E s = Some PROTO_RPC_TCP ->
    exists outs1 outs2,
      tcp_stream E clk ci tcb_new segs1 = Ok outs1 /\ tcp_stream E clk ci tcb_new segs2 = Ok outs2 /\
      length outs1 = length segs1 /\ length outs2 = length segs2 /\
      match rpc_complete_at s with
      | Some k => (k < length s)%nat /\
                  first_reply_at outs1 (seg_index segs1 k) (rpc_expected ip port (firstn (S k) s)) /\
                  first_reply_at outs2 (seg_index segs2 k) (rpc_expected ip port (firstn (S k) s))
      | None => outs1 = quiet (length segs1) /\ outs2 = quiet (length segs2)
      end.
Proof. exact rpc_cut_invariance. Qed.

Theorem C11_rpc_complete_at_some :
  forall s k, rpc_complete_at s = Some k ->
    (k < length s)%nat /\ (forall n, (n <= k)%nat -> rpc_end_at s n = false) /\
    (forall n, (k < n)%nat -> rpc_parse (rpc_new R_FRAG) (firstn n s) = rpc_parse (rpc_new R_FRAG) (firstn (S k) s)) /\
    rpc_end_at s (S k) = true.
Proof. exact rpc_complete_at_some. Qed.

(* [rpc_stream_ref] is the self-contained reading that starts afresh after the first message *)
Theorem C11_rpc_stream_ref_self :
  forall ip port acc s rest,
    rpc_stream_ref ip port acc (s :: rest) =
    rpc_expected ip port (acc ++ s) ::
    (if r_state (rpc_parse (rpc_new R_FRAG) (acc ++ s)) =? R_END
     then rpc_stream_ref ip port [] rest else rpc_stream_ref ip port (acc ++ s) rest).
Proof. exact rpc_stream_ref_self. Qed.

(* ---- the whole-flow reading of the property text is FALSE (pipelined requests) ---- *)
Theorem C11_http_pipelined_cut_dependent :
  exists o1 o2 o3,
    concat cut_one = w11_two /\ concat cut_two = w11_two /\ concat cut_mid = w11_two /\
    bytes_ok w11_two = true /\ tcp_first_id the_env w11_two = Some PROTO_HTTP /\
    tcp_stream the_env w11_clk w11_ci tcb_new cut_one = Ok o1 /\
    tcp_stream the_env w11_clk w11_ci tcb_new cut_two = Ok o2 /\
    tcp_stream the_env w11_clk w11_ci tcb_new cut_mid = Ok o3 /\
    length (out_payloads o1) = 1%nat /\ length (out_payloads o2) = 2%nat /\ length (out_payloads o3) = 1%nat.
Proof. exact http_pipelined_cut_dependent. Qed.

Theorem C11_http_whole_flow_refuted : ~ C11_http_whole_flow_stmt the_env.
Proof. exact http_whole_flow_refuted. Qed.

Theorem C11_rpc_pipelined_cut_dependent :
  exists o1 o2,
    tcp_first_id the_env (x11_stream ++ x11_stream) = Some PROTO_RPC_TCP /\
    tcp_stream the_env w11_clk w11_ci tcb_new [x11_stream ++ x11_stream] = Ok o1 /\
    tcp_stream the_env w11_clk w11_ci tcb_new [x11_stream; x11_stream] = Ok o2 /\
    length (out_payloads o1) = 1%nat /\ length (out_payloads o2) = 2%nat.
Proof. exact rpc_pipelined_cut_dependent. Qed.

(* ---- flow-level monitors ---- *)
Theorem C11_http_flow_monitor :
  forall E clk ci segs outs,
    proto_tbl_ok E = true -> http_uniform_ok E = true ->
    smack_ok (e_http_tbl E) = true -> http_tbl_ok (e_http_tbl E) = true ->
    bytes_ok (concat segs) = true ->
    tcp_stream E clk ci tcb_new segs = Ok outs -> ok_C11_http_flow E segs outs = true.
Proof. exact http_flow_monitor. Qed.

Theorem C11_http_flow_strict_refuted :
  exists o1 o2,
    tcp_stream the_env w11_clk w11_ci tcb_new cut_one = Ok o1 /\
    tcp_stream the_env w11_clk w11_ci tcb_new cut_two = Ok o2 /\
    ok_C11_http_flow_strict the_env cut_one o1 = false /\ c11_trailing_class the_env cut_one = true /\
    ok_C11_http_flow_strict the_env cut_two o2 = true /\ c11_trailing_class the_env cut_two = false /\
    ok_C11_http_flow the_env cut_one o1 = true /\ ok_C11_http_flow the_env cut_two o2 = true /\
    http_requests (e_http_tbl the_env) http_new w11_two = 2%nat.
Proof. exact http_flow_strict_refuted. Qed.

(* ---- 4. frame level ---- *)
(* any ACCEPTED data segment (flow in the table, or cookie presented): reply() emits exactly
   what proto::repl returns for the payload on the flow's control block; generic in the protocol *)
Theorem C11_tcp_data_lift_state :
  forall E cfg clk tb f tb' r evs v,
    cfg_ok cfg = true -> bytes_ok f = true ->
    view_tcp cfg f = Some v ->
    is_data (tcp_flags (v_l4 v)) = true ->
    tbl_mem (flow_cookie cfg (flow_of v)) tb || presents_cookie cfg v = true ->
    reply E cfg clk tb f = Ok (tb', r, evs) ->
    exists ci' tc' out,
      proto_repl_tcp E clk (tcp_ci cfg f v) (flow_tcb (flow_cookie cfg (flow_of v)) tb) (tcp_payload (v_l4 v))
        = Ok (ci', tc', out) /\
      tb' = tbl_set (flow_cookie cfg (flow_of v)) tc' tb /\
      tcp_resp r = Some (norm_out out) /\
      tcp_reply_is v ci' out r.
Proof. exact tcp_data_lift_state. Qed.

(* a later segment of a flow whose control block is tc in the table *)
Theorem C11_tcp_later_lift :
  forall E cfg clk tb tc f tb' r evs v,
    cfg_ok cfg = true -> bytes_ok f = true ->
    view_tcp cfg f = Some v ->
    is_data (tcp_flags (v_l4 v)) = true ->
    tbl_find (flow_cookie cfg (flow_of v)) tb = Some tc ->
    reply E cfg clk tb f = Ok (tb', r, evs) ->
    exists ci' tc' out,
      proto_repl_tcp E clk (tcp_ci cfg f v) tc (tcp_payload (v_l4 v)) = Ok (ci', tc', out) /\
      tb' = tbl_set (flow_cookie cfg (flow_of v)) tc' tb /\
      tcp_resp r = Some (norm_out out) /\
      tcp_reply_is v ci' out r.
Proof. exact tcp_later_lift. Qed.

(* any number of data segments of one flow, each with its own clock reading: the emitted frames
   carry, one for one, the outputs of the application layer on the payloads *)
Theorem C11_flow_lift :
  forall E cfg ci ck, cfg_ok cfg = true ->
  forall fs tb tb' rs,
    Forall (fun cf : clock * bytes => flow_frame cfg ci ck (snd cf)) fs ->
    match fs with cf :: _ => flow_accepts cfg ck tb (snd cf) | [] => True end ->
    flow_run E cfg tb fs = Ok (tb', rs) ->
    exists outs,
      tcp_stream_c E ci (flow_tcb ck tb) (map (fun cf : clock * bytes => (fst cf, frame_payload cfg (snd cf))) fs)
        = Ok outs /\
      frames_carry cfg (map snd fs) outs rs.
Proof. exact flow_lift. Qed.

(* C11 for HTTP at frame level (one clock reading for the flow) *)
Theorem C11_http_frames_uniform :
  forall E cfg clk ci ck fs tb tb' rs,
    cfg_ok cfg = true -> proto_tbl_ok E = true -> http_uniform_ok E = true ->
    smack_ok (e_http_tbl E) = true -> http_tbl_ok (e_http_tbl E) = true ->
    Forall (flow_frame cfg ci ck) fs ->
    tbl_mem ck tb = false ->
    match fs with f :: _ => exists v, view_tcp cfg f = Some v /\ presents_cookie cfg v = true | [] => True end ->
    tcp_first_id E (concat (map (frame_payload cfg) fs)) = Some PROTO_HTTP ->
    flow_run E cfg tb (map (pair clk) fs) = Ok (tb', rs) ->
    frames_carry cfg fs (http_stream_ref E clk (map (frame_payload cfg) fs)) rs.
Proof. exact http_frames_uniform. Qed.

Theorem C11_http_frames_reply_segment :
  forall E cfg clk ci ck fs tb tb' rs s k,
    cfg_ok cfg = true -> proto_tbl_ok E = true -> http_uniform_ok E = true ->
    smack_ok (e_http_tbl E) = true -> http_tbl_ok (e_http_tbl E) = true ->
    Forall (flow_frame cfg ci ck) fs ->
    tbl_mem ck tb = false ->
    match fs with f :: _ => exists v, view_tcp cfg f = Some v /\ presents_cookie cfg v = true | [] => True end ->
    concat (map (frame_payload cfg) fs) = s ->
    tcp_first_id E s = Some PROTO_HTTP ->
    http_complete_at (e_http_tbl E) s = Some k ->
    flow_run E cfg tb (map (pair clk) fs) = Ok (tb', rs) ->
    let j := seg_index (map (frame_payload cfg) fs) k in
    (j < length fs)%nat /\ length rs = length fs /\
    frame_carries cfg (nth j fs []) (Some (http_401 E clk)) (nth j rs None) /\
    forall i, (i < j)%nat -> frame_carries cfg (nth i fs []) None (nth i rs None).
Proof. exact http_frames_reply_segment. Qed.

(* ---- a clock reading per segment / per frame ---- the control block after a segment does not
   depend on the clock; the uniform equation and its frame-level form with the Date of each
   401 read when the answering segment arrives *)
Theorem C11_proto_repl_tcp_tcb_clk :
  forall E clk clk' ci tc data c1 t1 o1 c2 t2 o2,
    proto_repl_tcp E clk ci tc data = Ok (c1, t1, o1) ->
    proto_repl_tcp E clk' ci tc data = Ok (c2, t2, o2) -> t1 = t2.
Proof. exact proto_repl_tcp_tcb_clk. Qed.

Theorem C11_http_stream_uniform_c :
  forall E ci segs,
    proto_tbl_ok E = true -> http_uniform_ok E = true ->
    smack_ok (e_http_tbl E) = true -> http_tbl_ok (e_http_tbl E) = true ->
    bytes_ok (concat (map snd segs)) = true -> tcp_first_id E (concat (map snd segs)) = Some PROTO_HTTP ->
    tcp_stream_c E ci tcb_new segs = Ok (http_stream_ref_c E segs).
Proof. exact http_stream_uniform_c. Qed.

Theorem C11_http_frames_uniform_c :
  forall E cfg ci ck fs tb tb' rs,
    cfg_ok cfg = true -> proto_tbl_ok E = true -> http_uniform_ok E = true ->
    smack_ok (e_http_tbl E) = true -> http_tbl_ok (e_http_tbl E) = true ->
    Forall (fun cf : clock * bytes => flow_frame cfg ci ck (snd cf)) fs ->
    tbl_mem ck tb = false ->
    match fs with cf :: _ => exists v, view_tcp cfg (snd cf) = Some v /\ presents_cookie cfg v = true | [] => True end ->
    let segs := map (fun cf : clock * bytes => (fst cf, frame_payload cfg (snd cf))) fs in
    tcp_first_id E (concat (map snd segs)) = Some PROTO_HTTP ->
    flow_run E cfg tb fs = Ok (tb', rs) ->
    frames_carry cfg (map snd fs) (http_stream_ref_c E segs) rs.
Proof. exact http_frames_uniform_c. Qed.

(* ---- 5. non-vacuity on the current tables ---- *)
Theorem C11_uniform_nonvacuous :
  bytes_ok w11_stream = true /\ tcp_first_id the_env w11_stream = Some PROTO_HTTP /\
  bytes_ok w11_two = true /\ tcp_first_id the_env w11_two = Some PROTO_HTTP /\
  concat (singletons w11_stream) = w11_stream /\ concat cut_verb = w11_stream /\
  concat cut_one = w11_two /\ concat cut_two = w11_two /\ concat cut_mid = w11_two /\
  concat (singletons w11_two) = w11_two /\
  tcp_first_id the_env (firstn 2 w11_stream) = None /\
  http_complete_at (e_http_tbl the_env) w11_stream = Some 15%nat /\
  http_complete_at (e_http_tbl the_env) w11_two = Some 15%nat /\
  http_complete_at (e_http_tbl the_env) (firstn 15 w11_stream) = None.
Proof. exact uniform_nonvacuous. Qed.

Theorem C11_uniform_readings :
  let R := Some (http_401 the_env w11_clk) in
  http_stream_ref the_env w11_clk (singletons w11_stream) = repeat None 15 ++ [R] /\
  http_stream_ref the_env w11_clk cut_verb = [None; R] /\
  http_stream_ref the_env w11_clk [w11_stream] = [R] /\
  http_stream_ref the_env w11_clk cut_one = [R] /\
  http_stream_ref the_env w11_clk cut_two = [R; R] /\
  http_stream_ref the_env w11_clk cut_mid = [R; None] /\
  http_stream_ref the_env w11_clk (singletons w11_two) = repeat None 15 ++ [R] ++ repeat None 15 ++ [R] /\
  seg_index (singletons w11_stream) 15 = 15%nat /\ seg_index cut_verb 15 = 1%nat /\
  seg_index cut_one 15 = 0%nat /\ seg_index cut_mid 15 = 0%nat.
Proof. exact uniform_readings. Qed.

Theorem C11_uniform_instances :
  tcp_stream the_env w11_clk w11_ci tcb_new (singletons w11_stream) = Ok (http_stream_ref the_env w11_clk (singletons w11_stream)) /\
  tcp_stream the_env w11_clk w11_ci tcb_new cut_verb = Ok (http_stream_ref the_env w11_clk cut_verb) /\
  tcp_stream the_env w11_clk w11_ci tcb_new cut_one = Ok (http_stream_ref the_env w11_clk cut_one) /\
  tcp_stream the_env w11_clk w11_ci tcb_new cut_two = Ok (http_stream_ref the_env w11_clk cut_two) /\
  tcp_stream the_env w11_clk w11_ci tcb_new cut_mid = Ok (http_stream_ref the_env w11_clk cut_mid) /\
  tcp_stream the_env w11_clk w11_ci tcb_new (singletons w11_two) = Ok (http_stream_ref the_env w11_clk (singletons w11_two)).
Proof. exact uniform_instances. Qed.

Theorem C11_rpc_cut_nonvacuous :
  bytes_ok x11_stream = true /\ tcp_first_id the_env x11_stream = Some PROTO_RPC_TCP /\
  ci_ip_dst w11_ci = Some (V4 [10; 0; 0; 1]) /\ ci_port_dst w11_ci = Some 8080 /\
  length x11_stream = 52%nat /\
  rpc_complete_at x11_stream = Some 48%nat /\
  rpc_complete_at (x11_stream ++ x11_stream) = Some 48%nat /\
  rpc_expected (V4 [10; 0; 0; 1]) 8080 (firstn 49 x11_stream) <> None.
Proof. exact rpc_cut_nonvacuous. Qed.

Theorem C11_frames_nonvacuous :
  cfg_ok fx_cfg = true /\ Forall (flow_frame fx_cfg fu_ci fu_ck) fu_frames /\
  tbl_mem fu_ck [] = false /\
  (exists v, view_tcp fx_cfg fu_f1 = Some v /\ presents_cookie fx_cfg v = true) /\
  map (frame_payload fx_cfg) fu_frames = cut_verb ++ [w11_stream] /\
  tcp_first_id the_env (concat (map (frame_payload fx_cfg) fu_frames)) = Some PROTO_HTTP /\
  http_complete_at (e_http_tbl the_env) (concat (map (frame_payload fx_cfg) fu_frames)) = Some 15%nat /\
  seg_index (map (frame_payload fx_cfg) fu_frames) 15 = 1%nat /\
  (exists tb', flow_run the_env fx_cfg [] (map (pair fx_clk) fu_frames) = Ok (tb', fu_replies)) /\
  map tcp_resp fu_replies = [Some None; Some (Some (http_401 the_env fx_clk)); Some (Some (http_401 the_env fx_clk))].
Proof. exact frames_nonvacuous. Qed.

Theorem C11_frames_instance :
  frames_carry fx_cfg fu_frames (http_stream_ref the_env fx_clk (map (frame_payload fx_cfg) fu_frames)) fu_replies.
Proof. exact frames_instance. Qed.

Print Assumptions C11_current_uniform_table.
Print Assumptions C11_current_uniform_table_tight.
Print Assumptions C11_http_quiet_short.
Print Assumptions C11_http_ident_early.
Print Assumptions C11_http_stream_uniform.
Print Assumptions C11_http_stream_uniform_env.
Print Assumptions C11_http_outs_uniform.
Print Assumptions C11_http_complete_at_some.
Print Assumptions C11_http_complete_at_none.
Print Assumptions C11_seg_index_spec.
Print Assumptions C11_http_reply_segment.
Print Assumptions C11_http_cut_invariance.
Print Assumptions C11_rpc_cut_invariance.
Print Assumptions C11_rpc_complete_at_some.
Print Assumptions C11_rpc_stream_ref_self.
Print Assumptions C11_http_pipelined_cut_dependent.
Print Assumptions C11_http_whole_flow_refuted.
Print Assumptions C11_rpc_pipelined_cut_dependent.
Print Assumptions C11_http_flow_monitor.
Print Assumptions C11_http_flow_strict_refuted.
Print Assumptions C11_tcp_data_lift_state.
Print Assumptions C11_tcp_later_lift.
Print Assumptions C11_flow_lift.
Print Assumptions C11_http_frames_uniform.
Print Assumptions C11_http_frames_reply_segment.
Print Assumptions C11_proto_repl_tcp_tcb_clk.
Print Assumptions C11_http_stream_uniform_c.
Print Assumptions C11_http_frames_uniform_c.
Print Assumptions C11_uniform_nonvacuous.
Print Assumptions C11_uniform_readings.
Print Assumptions C11_uniform_instances.
Print Assumptions C11_rpc_cut_nonvacuous.
Print Assumptions C11_frames_nonvacuous.
Print Assumptions C11_frames_instance.
