(* Proofs/GlueC14.v -- C14 (DNS) against the published signature list, on the current
   implementation: the monitor [ok_C14_udp_ref] (Spec/C14ref.v), which evaluates "no
   signature completed" on the reference [ref_udp] and not on the compiled table, holds
   of everything reply() emits.  From C14_frame_udp (the monitor on the compiled table,
   any env) and C10's product check (outside the refined class the two identifications
   are equal). *)
From Coq Require Import Lia.
From MS Require Import Proofs.Tactics Dns Proto L2 Spec.View Spec.RefDec Spec.AppView Spec.RefDns Spec.C14
     Spec.RefSig Spec.C10 Spec.C10Known Spec.C14ref Instance
     Proofs.Lift Proofs.LiftTcp Proofs.C10Sound Proofs.C10Dispatch Proofs.C10Current
     Proofs.C14Reply Proofs.C14Frame Proofs.C16Frame Proofs.C16Examples Proofs.C14Examples.

(* outside C10's refined class the two payload-level monitors coincide *)
Lemma app_ok_C14_ref_eq ctx p o :
  bytes_ok p = true -> c10_class_payload false p = false ->
  app_ok_C14_ref_gen true ctx p o = app_ok_C14 the_env ctx p o /\
  app_ok_C14_ref_gen false ctx p o = app_ok_C14 the_env ctx p o.
Proof.
  intros Hok Hc. unfold app_ok_C14_ref_gen, app_ok_C14. rewrite Hc. cbn [negb andb].
  rewrite (proj1 (current_ident_refined p Hok) Hc). split; reflexivity.
Qed.

Lemma app_ok_C14_ref_of ctx p o :
  bytes_ok p = true -> app_ok_C14 the_env ctx p o = true -> app_ok_C14_ref ctx p o = true.
Proof.
  intros Hok H. destruct (c10_class_payload false p) eqn:Hc.
  - unfold app_ok_C14_ref, app_ok_C14_ref_gen. rewrite Hc. reflexivity.
  - unfold app_ok_C14_ref. rewrite (proj2 (app_ok_C14_ref_eq ctx p o Hok Hc)). exact H.
Qed.

(* every frame, the monitor against the published list (C10's class excluded inside it) *)
Theorem frame_udp_C14_ref cfg clk tb f tb' r evs :
  cfg_ok cfg = true -> bytes_ok f = true ->
  reply the_env cfg clk tb f = Ok (tb', r, evs) ->
  ok_C14_udp_ref cfg f r = true.
Proof.
  intros Hcfg Hf Hr. pose proof (frame_udp_C14 the_env cfg clk tb f tb' r evs Hcfg Hf Hr) as H.
  unfold ok_C14_udp_ref, ok_C14_udp, ok_app_udp in *.
  destruct (udp_req cfg f) as [[ctx p]|] eqn:Hreq; [|reflexivity].
  destruct (udp_resp r) as [o|]; [|discriminate H].
  exact (app_ok_C14_ref_of ctx p o (udp_req_payload_ok cfg f ctx p Hf Hreq) H).
Qed.

(* ... and the property as worded against the published list, for every frame outside C10's class *)
Theorem frame_udp_C14_ref_strict cfg clk tb f tb' r evs :
  cfg_ok cfg = true -> bytes_ok f = true ->
  c14_c10_class_frame cfg f = false ->
  reply the_env cfg clk tb f = Ok (tb', r, evs) ->
  ok_C14_udp_ref_strict cfg f r = true.
Proof.
  intros Hcfg Hf Hcl Hr. pose proof (frame_udp_C14 the_env cfg clk tb f tb' r evs Hcfg Hf Hr) as H.
  unfold ok_C14_udp_ref_strict, ok_C14_udp, ok_app_udp, c14_c10_class_frame in *.
  destruct (udp_req cfg f) as [[ctx p]|] eqn:Hreq; [|reflexivity].
  destruct (udp_resp r) as [o|]; [|discriminate H].
  unfold app_ok_C14_ref_strict.
  rewrite (proj1 (app_ok_C14_ref_eq ctx p o (udp_req_payload_ok cfg f ctx p Hf Hreq) Hcl)). exact H.
Qed.

(* ---------- non-vacuity and the class, on the DNS examples of Proofs/C14Examples.v ---------- *)
(* in scope, no published signature completed, outside the refined class.  The COARSE class
   D0 contains nearly every ordinary query: QDCOUNT = 1 gives byte 4 = 00, byte 5 = 01, the
   dead point (5, [RPC_TCP; RPC_UDP]) + a byte other than 00 of K0_rpc -- only x_zero
   (QDCOUNT 0) below is outside it.  This is why the monitor uses the refined class. *)
Definition dns_example_ok (q : dquery) : bool :=
  let p := ser_query q in
  match classify p with InScope _ => true | _ => false end &&
  match ref_udp p with None => true | Some _ => false end &&
  negb (c10_class_payload false p).

Example ex_dns_examples_outside_class :
  forallb dns_example_ok [x_www; x_three; x_zero; x_zbyte; x_root; x_l63; x_max] = true /\
  (map (fun q => c10_class_payload_coarse false (ser_query q)) [x_www; x_three; x_zero; x_zbyte; x_root; x_l63; x_max]
   = [true; true; false; true; true; true; true]).
Proof. vm_compute. split; reflexivity. Qed.

(* an in-scope query whose ID starts like another signature ('G'): inside the coarse class D0
   (the reference run meets the dead point (1, [GET; Gh0st; RPC_TCP; RPC_UDP]) + a byte other
   than 'E' / 'h'), outside the refined class: the monitor still demands the answer, and the
   model gives it *)
Definition x_idG : dquery := {| k_id := 18193; k_flags := 256; k_qd := k_qd x_www |}.   (* ID 0x4711 *)
Definition x_run_ref (p : bytes) : option (bool * bool * bool * bool * bool) :=
  match reply the_env x_cfg x_clk [] (x_frame p) with
  | Ok (_, r, _) => Some (ok_C14_udp_ref x_cfg (x_frame p) r, ok_C14_udp_ref_strict x_cfg (x_frame p) r,
                          c14_positive_frame_ref x_cfg (x_frame p), c14_negative_frame_ref x_cfg (x_frame p),
                          ok_C14_udp_ref x_cfg (x_frame p) None)
  | Panic _ => None
  end.

Example ex_dns_idG :
  (match classify (ser_query x_idG) with InScope _ => true | _ => false end) = true /\
  c10_class_payload_coarse false (ser_query x_idG) = true /\
  c10_class_payload false (ser_query x_idG) = false /\
  ref_udp (ser_query x_idG) = None /\ udp_id the_env (ser_query x_idG) = None /\
  x_run_ref (ser_query x_idG) = Some (true, true, true, false, false).
Proof. vm_compute. repeat split; reflexivity. Qed.

Example ex_frames_ref :
  x_run_ref (ser_query x_www) = Some (true, true, true, false, false) /\
  x_run_ref (ser_query x_three) = Some (true, true, true, false, false) /\
  x_run_ref (ser_query x_txt) = Some (true, true, false, true, true) /\
  x_run_ref (firstn 20 (ser_query x_www)) = Some (true, true, false, true, true) /\
  x_run_ref (ser_query x_stun) = Some (true, true, false, false, true).
Proof. vm_compute. repeat split; reflexivity. Qed.

(* a datagram of C10's class on which table and published list differ: the first 23 bytes of
   an ONC-RPC/UDP call (K0_end): the published list completes no signature, the table says
   RPC_UDP; the non-strict monitor demands nothing there *)
Example ex_c10_class_datagram :
  c10_class_payload false W_end_udp23 = true /\ ref_udp W_end_udp23 = None /\
  udp_id the_env W_end_udp23 = Some PROTO_RPC_UDP /\
  c14_c10_class_frame x_cfg (x_frame W_end_udp23) = true.
Proof. vm_compute. repeat split; reflexivity. Qed.
