(* Properties/C16ip6.v -- C16, the IPv6 universal address: closes the "partial" of
   Properties/C16.v (IPv6 address text shared with the model and validated by testing
   only).  Spec/RefIp6Text.v is an independent reader of the RFC 4291 text forms
   ([parse_ip6_text], [parse_uaddr6]) and the strengthened reference [uaddr_ok]
   (the advertised universal address READS BACK to the contacted address and port);
   the proofs are in Proofs/C16Ip6.v, concrete evaluations in Proofs/C16Ip6Examples.v.
   Statements only. *)
From MS Require Import Text Spec.C16 Spec.View Spec.RefIp6Text Proofs.C16Ip6 Proofs.C16Ip6Examples.

(* the reader reads back what the model's printer (Rust's Display for Ipv6Addr) writes: all addresses *)
Theorem C16_ip6_text_roundtrip :
  forall o, length o = 16%nat -> bytes_ok o = true -> parse_ip6_text (render_ipv6 o) = Some o.
Proof. exact parse_ip6_render. Qed.

(* hence the printer never writes the same text for two addresses *)
Theorem C16_render_ipv6_injective :
  forall o1 o2, length o1 = 16%nat -> bytes_ok o1 = true -> length o2 = 16%nat -> bytes_ok o2 = true ->
    render_ipv6 o1 = render_ipv6 o2 -> o1 = o2.
Proof. exact render_ipv6_injective. Qed.

(* the IPv6 universal address reads back to the contacted address and port *)
Theorem C16_uaddr6_roundtrip :
  forall o port, length o = 16%nat -> bytes_ok o = true -> port < 65536 ->
    parse_uaddr6 (uaddr_text (V6 o) port) = Some (o, port).
Proof. exact parse_uaddr6_render. Qed.

(* the strengthened reference accepts the expected universal address of every well-formed endpoint *)
Theorem C16_uaddr_ok_expected :
  forall ip port, ip_ok ip = true -> port < 65536 -> uaddr_ok ip port (uaddr_text ip port) = true.
Proof. exact uaddr_ok_render. Qed.

(* ... and what it accepts is a text that reads to exactly that endpoint, which is well formed *)
Theorem C16_uaddr_ok_sound :
  forall ip port s, uaddr_ok ip port s = true ->
    match ip with
    | V4 o => parse_uaddr4 s = Some (o, port)
    | V6 o => parse_uaddr6 s = Some (o, port)
    end.
Proof. exact uaddr_ok_sound. Qed.
Theorem C16_uaddr_ok_wf :
  forall ip port s, uaddr_ok ip port s = true -> ip_ok ip = true /\ port < 65536.
Proof. exact uaddr_ok_wf. Qed.

(* the reader only returns 16 octets *)
Theorem C16_ip6_reader_wf :
  forall s o, parse_ip6_text s = Some o -> length o = 16%nat /\ bytes_ok o = true.
Proof. exact parse_ip6_text_wf. Qed.

(* the reader does not depend on WHICH run of zero groups is compressed (RFC 4291: any run
   of one or more): whatever run [s, s+n) of zero groups is replaced by "::", the 8 groups
   are recovered *)
Theorem C16_ip6_any_compression :
  forall segs s n, length segs = 8%nat -> gok segs = true -> zeros_at segs s n -> (1 <= n)%nat ->
    parse_ip6_groups (join 58 (map hex_digits (firstn s segs)) ++ [58; 58] ++
                      join 58 (map hex_digits (skipn (s + n) segs))) = Some segs.
Proof. exact parse_any_compression. Qed.

(* the full statements recorded in the Spec file are the proved ones *)
Theorem C16_ip6_stmts : ip6_text_roundtrip_stmt /\ uaddr6_roundtrip_stmt /\ uaddr_ok_stmt.
Proof. exact (conj parse_ip6_render (conj parse_uaddr6_render uaddr_ok_render)). Qed.

(* concrete evaluations: the 19 destination addresses of the test generator with its 6 ports
   (reader = Python's ipaddress, printer = Rust's rules, round trips, [uaddr_ok]); 40 texts
   rejected; 16 alternative spellings accepted; all 256 zero / non-zero group patterns;
   [uaddr_ok] accepts / rejects; non-vacuity of the hypotheses *)
Theorem C16_ip6_examples_dsts : forallb dst_ok x_v6_dsts = true /\ length x_v6_dsts = 19%nat.
Proof. exact ex_v6_dsts. Qed.
Theorem C16_ip6_examples_rejected :
  forallb (fun t => match parse_ip6_text t with None => true | Some _ => false end) x_v6_bad = true /\
  length x_v6_bad = 40%nat.
Proof. exact ex_v6_bad. Qed.
Theorem C16_ip6_examples_alt :
  forallb (fun e => obytes_eqb (parse_ip6_text (fst e)) (snd e)) x_v6_alt = true /\ length x_v6_alt = 16%nat.
Proof. exact ex_v6_alt. Qed.
Theorem C16_ip6_examples_patterns :
  forallb (fun p => let o := pattern_octets true p in obytes_eqb (parse_ip6_text (render_ipv6 o)) o)
          (patterns 8) = true /\ length (patterns 8) = 256%nat.
Proof. exact ex_v6_patterns. Qed.
Theorem C16_ip6_examples_uaddr_ok :
  uaddr_ok (V6 x_o1) 111 x_ua_1_111 = true /\
  uaddr_ok (V6 x_o1) 111 x_ua_1_111_long = true /\
  uaddr_ok (V6 x_o2) 111 x_ua_2_111 = true /\
  uaddr_ok (V6 x_o1) 2049 x_ua_1_2049 = true /\
  uaddr_ok (V6 x_om) 111 x_ua_m_111 = true /\
  uaddr_ok (V6 x_o1) 111 x_ua_2_111 = false /\
  uaddr_ok (V6 x_o1) 111 x_ua_1_2049 = false /\
  uaddr_ok (V6 x_o1) 111 x_ua_lead0 = false /\
  uaddr_ok (V6 x_o1) 257 x_ua_big = false /\
  parse_uaddr6 x_ua_short = None /\
  uaddr_ok (V6 x_o1) 111 x_ua4 = false /\
  uaddr_ok (V4 [192; 0; 2; 1]) 111 x_ua4 = true /\
  uaddr_ok (V4 [1; 2; 3; 4]) 111 x_ua_m_111 = false /\
  length x_om = 16%nat /\ bytes_ok x_om = true /\ ip_ok (V6 x_om) = true /\
  uaddr_text (V6 x_om) 111 = x_ua_m_111 /\ uaddr_text (V6 x_o1) 2049 = x_ua_1_2049.
Proof. exact ex_uaddr_ok. Qed.

Print Assumptions C16_ip6_text_roundtrip.
Print Assumptions C16_render_ipv6_injective.
Print Assumptions C16_uaddr6_roundtrip.
Print Assumptions C16_uaddr_ok_expected.
Print Assumptions C16_uaddr_ok_sound.
Print Assumptions C16_uaddr_ok_wf.
Print Assumptions C16_ip6_reader_wf.
Print Assumptions C16_ip6_any_compression.
Print Assumptions C16_ip6_stmts.
Print Assumptions C16_ip6_examples_dsts.
Print Assumptions C16_ip6_examples_rejected.
Print Assumptions C16_ip6_examples_alt.
Print Assumptions C16_ip6_examples_patterns.
Print Assumptions C16_ip6_examples_uaddr_ok.
