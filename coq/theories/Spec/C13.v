(* Spec/C13.v -- HTTP: complete requests get a well-formed 401, anything else
   gets silence.  Monitors and the full statements (proved in Proofs/C13.v,
   restated in Properties/C13.v).  Definitions only.

   Language accepted by the COMPOSITION protocol matcher + HTTP responder: the
   protocol matcher (PROTO_SMACK, case-sensitive, patterns "GET /" ...) admits
   only payloads that start with an upper-case method, SP and "/"; the verb
   matcher of the responder (HTTP_SMACK, case-insensitive) would also accept
   "get", but such a payload is never dispatched to it.  The composition
   therefore answers exactly  { p | has_http_sig p  and  p has a complete prefix
   in Lrelaxed } -- on such p the leniencies (L1) and (L2) of RefHttp.v cannot
   occur any more. *)
From MS Require Export Spec.AppView Spec.RefHttp Spec.EnvOk Spec.C11http.

(* payload-level specification for ONE datagram / the first data segment of a flow *)
Definition app_ok_C13_body (p : bytes) (o : option bytes) : bool :=
  match http_complete_prefix p with
  | Some _ =>                                   (* a complete request: must be answered *)
    match o with Some r => http_resp_wf r | None => false end
  | None =>
    match http_relaxed_prefix p with
    | None =>                                   (* not even leniently complete: silence *)
      match o with None => true | Some _ => false end
    | Some _ =>                                 (* lenient only: either, but an answer is the 401 *)
      match o with None => true | Some r => http_resp_wf r end
    end
  end.
Definition app_ok_C13 (ctx : app_ctx) (p : bytes) (o : option bytes) : bool :=
  if has_http_sig p then app_ok_C13_body p o else true.

Definition ok_C13_udp : config -> bytes -> option bytes -> bool := ok_app_udp app_ok_C13.
Definition ok_C13_tcp : config -> ref_state -> bytes -> option bytes -> bool := ok_app_tcp_first app_ok_C13.


Definition http_resp (E : env) (clk : clock) : bytes := e_http_pre E ++ clk_date clk ++ e_http_post E.

(* ---- the full statements ---- *)

(* the response is well-formed, whatever the clock renders (no LF in a date) *)
Definition C13_response_wf_stmt : Prop :=
  forall E date, env_ok E = true -> no_lf date = true ->
    http_resp_wf (e_http_pre E ++ date ++ e_http_post E) = true.

(* the responder on a fresh state: answered iff a complete Lrelaxed prefix exists *)
Definition C13_language_stmt : Prop :=
  forall E clk p, env_ok E = true -> bytes_ok p = true ->
    exists h', http_repl (e_http_tbl E) (e_http_pre E) (e_http_post E) (clk_date clk) http_new p =
               Ok (h', if is_some (rl_request p) then Some (http_resp E clk) else None).

(* completeness for the strict grammar, with any trailing bytes (body, pipelined data) *)
Definition C13_complete_stmt : Prop :=
  forall E clk s t, env_ok E = true -> Lstrict s -> bytes_ok (s ++ t) = true ->
    exists h', http_repl (e_http_tbl E) (e_http_pre E) (e_http_post E) (clk_date clk) http_new (s ++ t) =
               Ok (h', Some (http_resp E clk)).

(* soundness: an answer implies a complete (lenient) request head, and the answer is the 401 *)
Definition C13_sound_stmt : Prop :=
  forall E clk p h' r, env_ok E = true -> bytes_ok p = true ->
    http_repl (e_http_tbl E) (e_http_pre E) (e_http_post E) (clk_date clk) http_new p = Ok (h', Some r) ->
    (exists n, http_relaxed_prefix p = Some n) /\ r = http_resp E clk.

(* through the dispatcher: one UDP datagram identified as HTTP *)
Definition C13_udp_stmt : Prop :=
  forall E clk ci p, env_ok E = true -> bytes_ok p = true ->
    udp_id E p = Some PROTO_HTTP ->
    proto_repl_udp E clk ci p =
    Ok (ci, if is_some (rl_request p) then Some (http_resp E clk) else None).

(* ... the first data segment of a TCP flow identified as HTTP *)
Definition C13_tcp_stmt : Prop :=
  forall E clk ci p, env_ok E = true -> bytes_ok p = true ->
    tcp_first_id E p = Some PROTO_HTTP ->
    exists tc', proto_repl_tcp E clk ci tcb_new p =
                Ok (ci, tc', if is_some (rl_request p) then Some (http_resp E clk) else None) /\
                t_proto tc' = PROTO_HTTP.

(* a payload that starts with one of the nine "VERB /" signatures is identified as HTTP *)
Definition C13_identified_stmt : Prop :=
  forall E p, env_ok E = true -> has_http_sig p = true ->
    udp_id E p = Some PROTO_HTTP /\ tcp_first_id E p = Some PROTO_HTTP.

(* the model satisfies the payload-level monitor, over UDP and on the first TCP segment *)
Definition C13_monitor_udp_stmt : Prop :=
  forall E clk ci ctx p ci' o, env_ok E = true -> bytes_ok p = true -> no_lf (clk_date clk) = true ->
    proto_repl_udp E clk ci p = Ok (ci', o) -> app_ok_C13 ctx p o = true.
Definition C13_monitor_tcp_stmt : Prop :=
  forall E clk ci ctx p ci' tc' o, env_ok E = true -> bytes_ok p = true -> no_lf (clk_date clk) = true ->
    proto_repl_tcp E clk ci tcb_new p = Ok (ci', tc', o) -> app_ok_C13 ctx p o = true.
