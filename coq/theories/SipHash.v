(* SipHash.v -- SipHash-2-4 over N (mod 2^64), as in the siphasher crate. *)
From MS Require Export Bytes.

Definition M64 : N := 18446744073709551616.
Definition add64 (a b : N) : N := (a + b) mod M64.
Definition rotl64 (x : N) (r : N) : N :=
  (N.shiftl x r) mod M64 + N.shiftr x (64 - r).

Record sipst := { v0 : N; v1 : N; v2 : N; v3 : N }.

Definition sipround (s : sipst) : sipst :=
  let a0 := add64 (v0 s) (v1 s) in
  let b1 := N.lxor (rotl64 (v1 s) 13) a0 in
  let a0 := rotl64 a0 32 in
  let a2 := add64 (v2 s) (v3 s) in
  let b3 := N.lxor (rotl64 (v3 s) 16) a2 in
  let c0 := add64 a0 b3 in
  let c3 := N.lxor (rotl64 b3 21) c0 in
  let c2 := add64 a2 b1 in
  let c1 := N.lxor (rotl64 b1 17) c2 in
  let c2 := rotl64 c2 32 in
  {| v0 := c0; v1 := c1; v2 := c2; v3 := c3 |}.

Definition sip_init (k0 k1 : N) : sipst :=
  {| v0 := N.lxor k0 8317987319222330741;
     v1 := N.lxor k1 7237128888997146477;
     v2 := N.lxor k0 7816392313619706465;
     v3 := N.lxor k1 8387220255154660723 |}.

Definition sip_compress (s : sipst) (m : N) : sipst :=
  let s := {| v0 := v0 s; v1 := v1 s; v2 := v2 s; v3 := N.lxor (v3 s) m |} in
  let s := sipround (sipround s) in
  {| v0 := N.lxor (v0 s) m; v1 := v1 s; v2 := v2 s; v3 := v3 s |}.

(* consume the message in 8-byte little-endian words; [fuel] = length bound *)
Fixpoint sip_words (fuel : nat) (s : sipst) (msg : bytes) : sipst * bytes :=
  match fuel with
  | O => (s, msg)
  | S fuel' =>
    match msg with
    | a :: b :: c :: d :: e :: f :: g :: h :: t =>
      sip_words fuel' (sip_compress s (dec_le [a; b; c; d; e; f; g; h])) t
    | _ => (s, msg)
    end
  end.

Definition siphash24 (k0 k1 : N) (msg : bytes) : N :=
  let '(s, tail) := sip_words (length msg) (sip_init k0 k1) msg in
  let b := ((lenN msg) mod 256) * 72057594037927936 + dec_le tail in
  let s := sip_compress s b in
  let s := {| v0 := v0 s; v1 := v1 s; v2 := N.lxor (v2 s) 255; v3 := v3 s |} in
  let s := sipround (sipround (sipround (sipround s))) in
  N.lxor (N.lxor (v0 s) (v1 s)) (N.lxor (v2 s) (v3 s)).
