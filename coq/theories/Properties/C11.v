(* Properties/C11.v -- stream parsing is independent of TCP segmentation (HTTP, ONC-RPC over TCP).
   Pins statements only. Parser-level statements for HTTP are in Properties/C11http.v.

   proto::repl keeps the bytes of a TCP flow while its protocol is unknown (at most
   PENDING_MAX = 64) and starts the handler on the whole stream so far in the segment that
   completes a signature.  [proto_tbl_ok E] is the per-table obligation, decided by
   computation on the dumped matcher: the table is structurally sane and a stream whose first
   SIG_SPAN = 28 bytes complete no signature never completes one -- so the bytes of a flow
   are all in the buffer when it is identified (C11_current_table: it holds of the current
   tables).  The statements below hold for ANY list of segments: the former hypothesis "the
   first segment completes the signature" (known class short_first_segment) is gone. *)
From MS Require Import Proto Spec.AppView Spec.C11 Spec.EnvOk Spec.C11http Instance Proofs.C11 Proofs.C11Witness.

Theorem C11_current_table : proto_tbl_ok the_env = true.
Proof. exact current_proto_tbl_ok. Qed.

(* ---- the identifying segment ---- for every table, whatever the cuts of the leading bytes:
   if the bytes before segment d complete no signature (and fit the buffer) and d completes
   one, the segments before d get a bare ACK and, from d on, the flow is the flow in which
   all these bytes came in ONE segment. *)
Theorem C11_stream_join :
  forall E clk ci, smack_ok (e_proto_tbl E) = true -> sm_rows (e_proto_tbl E) <= TWO24 ->
    0 < sm_rows (e_proto_tbl E) -> 0 < sm_match_limit (e_proto_tbl E) ->
  forall pre d rest i,
    lenN (concat pre) <= PENDING_MAX ->
    tcp_first_id E (concat pre) = None -> tcp_first_id E (concat pre ++ d) = Some i ->
    tcp_stream E clk ci tcb_new (pre ++ d :: rest) =
    do outs <- tcp_stream E clk ci tcb_new ((concat pre ++ d) :: rest);
    Ok (quiet (length pre) ++ outs).
Proof. exact stream_join. Qed.

(* a stream that is identified is identified in one of its segments, within its first
   SIG_SPAN bytes (so the buffer bound is never hit before) *)
Theorem C11_identified_in_a_segment :
  forall E segs i, proto_tbl_ok E = true -> bytes_ok (concat segs) = true ->
    tcp_first_id E (concat segs) = Some i ->
    exists pre d rest, segs = pre ++ d :: rest /\
      tcp_first_id E (concat pre) = None /\ tcp_first_id E (concat pre ++ d) = Some i /\
      (length (concat pre) < SIG_SPAN)%nat.
Proof. exact ident_split. Qed.

(* ---- ONC-RPC ---- a flow whose stream is identified as RPC/TCP, cut in ANY way: every
   segment, up to and including the one that completes the first message, is answered with
   rpc_expected(stream prefix ending with that segment) -- a function of the byte stream alone
   (None = bare ACK) -- after which the flow starts afresh. *)
Theorem C11_rpc_stream :
  forall E clk ci ip port segs,
    proto_tbl_ok E = true ->
    ci_ip_dst ci = Some ip -> ci_port_dst ci = Some port ->
    bytes_ok (concat segs) = true -> tcp_first_id E (concat segs) = Some PROTO_RPC_TCP ->
    tcp_stream E clk ci tcb_new segs = Ok (rpc_stream_ref ip port [] segs).
Proof. exact rpc_stream_any. Qed.

(* the same when the first segment completes the signature, for every table *)
Theorem C11_rpc_stream_first :
  forall E clk ci ip port s rest,
    ci_ip_dst ci = Some ip -> ci_port_dst ci = Some port ->
    tcp_first_id E s = Some PROTO_RPC_TCP ->
    tcp_stream E clk ci tcb_new (s :: rest) = Ok (rpc_stream_ref ip port [] (s :: rest)).
Proof. exact rpc_stream_segmentation. Qed.

(* ---- HTTP ---- a flow whose stream is identified as HTTP, cut in ANY way: the segments
   before the one that completes the "VERB /" signature get a bare ACK; from that segment on
   the flow is the fold of the HTTP responder, started on the whole stream so far ... *)
Theorem C11_http_stream :
  forall E clk ci segs,
    proto_tbl_ok E = true ->
    bytes_ok (concat segs) = true -> tcp_first_id E (concat segs) = Some PROTO_HTTP ->
    exists pre d rest, segs = pre ++ d :: rest /\
      tcp_first_id E (concat pre) = None /\ tcp_first_id E (concat pre ++ d) = Some PROTO_HTTP /\
      (length (concat pre) < SIG_SPAN)%nat /\
      tcp_stream E clk ci tcb_new segs =
      do outs <- http_outs E clk http_new ((concat pre ++ d) :: rest); Ok (quiet (length pre) ++ outs).
Proof. exact http_stream_any. Qed.

Theorem C11_http_stream_first :
  forall E clk ci d rest,
    tcp_first_id E d = Some PROTO_HTTP ->
    tcp_stream E clk ci tcb_new (d :: rest) = http_outs E clk http_new (d :: rest).
Proof. exact http_stream. Qed.

(* ... and: there is the list l of answers of ONE whole-buffer parse of each stream prefix at
   a segment boundary from the identifying segment on (a function of the byte stream, and of
   the cut points only through these prefixes), the responder does not get stuck, every
   segment before the first "true" of l gets a bare ACK while that segment carries the 401
   response. *)
Theorem C11_http_stream_segmentation :
  forall E clk ci segs,
    proto_tbl_ok E = true -> smack_ok (e_http_tbl E) = true -> http_tbl_ok (e_http_tbl E) = true ->
    bytes_ok (concat segs) = true -> tcp_first_id E (concat segs) = Some PROTO_HTTP ->
    exists pre d rest l outs, segs = pre ++ d :: rest /\
      tcp_first_id E (concat pre) = None /\ tcp_first_id E (concat pre ++ d) = Some PROTO_HTTP /\
      (length (concat pre) < SIG_SPAN)%nat /\
      Forall2 (fun upto a => http_answers_at (e_http_tbl E) http_new upto = Ok a)
              (prefixes_at (concat pre) (d :: rest)) l /\
      tcp_stream E clk ci tcb_new segs = Ok (quiet (length pre) ++ outs) /\ length outs = length l /\
      forall j, (forall i, (i < j)%nat -> nth i l false = false) ->
                nth j outs None = (if nth j l false then Some (http_resp_of E clk) else None).
Proof. exact http_stream_segmentation_any. Qed.

(* the responder itself, for every list of segments (unchanged) *)
Theorem C11_http_outs_segmentation :
  forall E clk, smack_ok (e_http_tbl E) = true -> http_tbl_ok (e_http_tbl E) = true ->
  forall segs, bytes_ok (concat segs) = true ->
    exists l outs,
      Forall2 (fun upto a => http_answers_at (e_http_tbl E) http_new upto = Ok a) (prefixes_at [] segs) l /\
      http_outs E clk http_new segs = Ok outs /\ length outs = length l /\
      forall j, (forall i, (i < j)%nat -> nth i l false = false) ->
                nth j outs None = (if nth j l false then Some (http_resp_of E clk) else None).
Proof. exact http_stream_segmentation. Qed.

(* ---- replay of the former finding ---- "GET / HTTP/1.0\n\n" in one segment, cut after "GE",
   and one byte per segment: answered alike, with the same single payload, by the segment that
   completes the request (computed on the current tables). *)
Theorem C11_short_first_segment_answered :
  answered (tcp_stream the_env w11_clk w11_ci tcb_new [w11_stream]) = true /\
  answered (tcp_stream the_env w11_clk w11_ci tcb_new [firstn 2 w11_stream; skipn 2 w11_stream]) = true /\
  concat [firstn 2 w11_stream; skipn 2 w11_stream] = w11_stream /\
  payloads (tcp_stream the_env w11_clk w11_ci tcb_new [firstn 2 w11_stream; skipn 2 w11_stream]) =
  payloads (tcp_stream the_env w11_clk w11_ci tcb_new [w11_stream]) /\
  payloads (tcp_stream the_env w11_clk w11_ci tcb_new (singletons w11_stream)) =
  payloads (tcp_stream the_env w11_clk w11_ci tcb_new [w11_stream]) /\
  length (payloads (tcp_stream the_env w11_clk w11_ci tcb_new [w11_stream])) = 1%nat /\
  (exists outs, tcp_stream the_env w11_clk w11_ci tcb_new (singletons w11_stream) = Ok outs /\
                firstn 15 outs = repeat None 15 /\ nth 15 outs None <> None).
Proof. exact short_first_segment_answered. Qed.

Theorem C11_nonvacuous :
  bytes_ok w11_stream = true /\ tcp_first_id the_env w11_stream = Some PROTO_HTTP /\
  tcp_first_id the_env (firstn 2 w11_stream) = None.
Proof. exact w11_identified. Qed.

Print Assumptions C11_current_table.
Print Assumptions C11_stream_join.
Print Assumptions C11_identified_in_a_segment.
Print Assumptions C11_rpc_stream.
Print Assumptions C11_rpc_stream_first.
Print Assumptions C11_http_stream.
Print Assumptions C11_http_stream_first.
Print Assumptions C11_http_stream_segmentation.
Print Assumptions C11_http_outs_segmentation.
Print Assumptions C11_short_first_segment_answered.
Print Assumptions C11_nonvacuous.
