"""C13 -- HTTP: complete requests get a well-formed 401, anything else gets silence
(plus the parser-level theorems of the HTTP half of C11)."""
import re
import net, gens
from runner import Script, Cfg

ID = "C13"
THEOREMS = ["C13_grammar_recogniser", "C13_strict_in_relaxed", "C13_response_wf", "C13_language",
            "C13_complete", "C13_sound", "C13_udp", "C13_tcp_first", "C13_identified",
            "C13_monitor_udp", "C13_monitor_tcp_first",
            "C11http.C11_http_parse_is_fold", "C11http.C11_http_parse_app", "C11http.C11_http_segments",
            "C11http.C11_http_segments_fold", "C11http.C11_http_per_segment", "C11http.C11_http_reply_point", "C11http.C11_http_answer_monotone",
            "C11http.C11_http_dead_absorbing", "C11http.C11_http_fail_absorbing", "C11http.C11_http_content_absorbing",
            "C13frame.C13_frame_udp", "C13frame.C13_frame_tcp_first_state", "C13frame.C13_frame_tcp_first_history", "C13frame.C13_frame_tcp_answered", "C13frame.C13_frame_udp_answered", "C13frame.C13_frame_examples", "Env.the_env_ok"]
MONITORS = ["C13udp", "C13tcp"]
RULE = ("grammar-directed HTTP requests (all nine methods, targets with arbitrary bytes incl. non-UTF-8 and '%', 0..8 header "
        "lines, CRLF or bare LF, optional body), every prefix and every single-byte deletion / insertion / substitution of "
        "several of them, lenient variants (CR runs, CR in values, ':'-led names), sent as one UDP datagram (IPv4, IPv6) and as "
        "the first data segment of a TCP flow (real SYN / PSH-ACK exchange) on several ports, with logging off and at level "
        "warn; implementation and model are compared on (answered?, status line, Content-Length value, body length, challenge "
        "header present, payload modulo Date); the extracted monitors ok_C13_udp / ok_C13_tcp and an independent Python "
        "oracle (regular expressions for the strict and the relaxed grammar, own response parser) judge the implementation's "
        "output; non-trivial = script carries a payload starting with one of the nine 'VERB /' signatures")
TRUSTED = ["Coq kernel incl. vm_compute", "extraction (ExtrOcamlBasic) + ocaml/model_run.ml",
           "hooked driver (feature verif) calling the real reply()", "harness generators / projection / Python oracle",
           "data translator gen_tables.py / gen_consts.py (tables and the 401 template split at the Date value)"]
ASSUMPTIONS = ["theorems are about the Gallina model; the model is tied to the code by the differential runs of this check",
               "the Date value rendered by chrono contains no LF (checked on every observed reply)",
               "payload-level theorems take bytes_ok (all bytes < 256) and, for the dispatcher, the identification "
               "udp_id / tcp_first_id = HTTP, which theorem C13_identified derives for payloads starting with 'VERB /'"]

VERBS = [b"GET", b"PUT", b"POST", b"HEAD", b"DELETE", b"CONNECT", b"OPTIONS", b"TRACE", b"PATCH"]
PORTS = [80, 8080, 443, 22, 53, 1, 65535, 31337]

# ---------------- independent oracle (Python regular expressions) ----------------
_V = b"|".join(VERBS)
RE_SIG = re.compile(rb"(?:" + _V + rb") /", re.S)
RE_STRICT = re.compile(rb"(?:" + _V + rb") /[^ \r\n]* HTTP/[0-9]+\.[0-9]+\r?\n(?:[^:\r\n]+:[^\r\n]*\r?\n)*\r?\n", re.S)
RE_RELAXED = re.compile(rb"(?i:" + _V + rb") [^ \r\n]* HTTP/[0-9]+\.\r*[0-9][0-9\r]*\n"
                        rb"(?:\r*[^\r\n][^:\r\n]*:[^\n]*\n)*\r*\n", re.S)


def has_sig(p):
    return RE_SIG.match(p) is not None


def strict_len(p):
    m = RE_STRICT.match(p)
    return m.end() if m else None


def relaxed_ok(p):
    return RE_RELAXED.match(p) is not None


def parse_response(r):
    """Independent parse of the 401: (status line, {header: value}, body) or None."""
    head, sep, body = r.partition(b"\n\n")
    if not sep:
        head, sep, body = r.partition(b"\r\n\r\n")
        if not sep:
            return None
    lines = [l.rstrip(b"\r") for l in head.split(b"\n")]
    hdr = {}
    for l in lines[1:]:
        k, c, v = l.partition(b":")
        if not c:
            return None
        hdr.setdefault(k.strip().lower(), v.strip())
    return lines[0], hdr, body


def response_problems(r):
    pr = parse_response(r)
    if pr is None:
        return ["response has no header/body separator or a malformed header line"]
    status, hdr, body = pr
    out = []
    if not status.startswith(b"HTTP/1.1 401"):
        out.append("status line %r" % status)
    if b"www-authenticate" not in hdr:
        out.append("no WWW-Authenticate header")
    cl = hdr.get(b"content-length")
    if cl is None or not cl.isdigit():
        out.append("no numeric Content-Length")
    elif int(cl) != len(body):
        out.append("Content-Length %d but %d body bytes" % (int(cl), len(body)))
    if b"date" in hdr and b"\n" in hdr[b"date"]:
        out.append("LF inside the Date value")
    return out


# ---------------- request generators ----------------
def rand_target(rng):
    k = rng.randrange(6)
    if k == 0:
        return b"/"
    if k == 1:
        return b"/index.php?a=%20&b=%zz%"
    n = rng.randrange(1, 24)
    pool = [x for x in range(256) if x not in (0x20, 0x0d, 0x0a)]
    return b"/" + bytes(rng.choice(pool) for _ in range(n))


def rand_headers(rng):
    hs = []
    for _ in range(rng.randrange(9)):
        name = bytes(rng.choice(b"ABCDEFGHIJKLMNOPQRSTUVWXYZabcdefghijklmnopqrstuvwxyz0123456789-_ \t\xff\x00")
                     for _ in range(rng.randrange(1, 12)))
        vpool = [x for x in range(256) if x not in (0x0d, 0x0a)]
        val = bytes(rng.choice(vpool) for _ in range(rng.randrange(0, 20)))
        hs.append((name, val))
    return hs


def build_request(verb, target, version, headers, eol, body=b"", sep=b":"):
    s = verb + b" " + target + b" " + version + eol
    for k, v in headers:
        s += k + sep + v + eol
    return s + eol + body


def grammar_request(rng, verb=None):
    verb = verb or rng.choice(VERBS)
    version = rng.choice([b"HTTP/1.1", b"HTTP/1.0", b"HTTP/2.0", b"HTTP/10.11", b"HTTP/0.9", b"HTTP/007.000"])
    eol = rng.choice([b"\r\n", b"\n"])
    body = rng.choice([b"", b"", b"a=b&c=d", b"\r\n\r\n", bytes(rng.randrange(256) for _ in range(rng.randrange(40)))])
    return build_request(verb, rand_target(rng), version, rand_headers(rng), eol, body)


LENIENT = [
    b"GET / HTTP/1.\r1\r\r\n\r\r\n",                       # CRs inside / after the minor version, CR run before the final LF
    b"GET / HTTP/1.1\n:x:\ry\n\r\n",                       # header name led by ':', CR inside the value
    b"GET / HTTP/1.1\r\n\r\rHost: x\r\r\n\r\n",            # CRs at the start of a header line and before its LF
    b"GET / HTTP/1.1\r\nA:\x00\xff:::\r\n\n",              # odd value bytes
    b"GET /  HTTP/1.1\r\n\r\n",                            # empty second component: target "/" then extra SP -> malformed
    b"GET / HTTP/1.1\r\nHost\r\n\r\n",                     # header line without ':'
    b"GET / HTTP/1.1\r\n: x\r\n\r\n",                      # empty header name
    b"GET / HTTP/1.1 \r\n\r\n",                            # SP after the version
    b"GET / HTTP/1.1\r\n\r",                               # not yet terminated
    b"GET / HTTP/1.1\r\nHost: x\r\n",                      # not yet terminated
    b"GET / HTTP/1\r\n\r\n", b"GET / HTTP/a.1\r\n\r\n", b"GET / HTTP/1.a\r\n\r\n", b"GET / HTTP1.1\r\n\r\n",
    b"GET / http/1.1\r\n\r\n", b"GET /\tx HTTP/1.1\r\n\r\n", b"GET /\x00 HTTP/1.1\r\n\r\n",
    b"GET /a\rb HTTP/1.1\r\n\r\n", b"GET /a\r\n HTTP/1.1\r\n\r\n",
    b"get / HTTP/1.1\r\n\r\n", b"Get / HTTP/1.1\r\n\r\n", b"GETT / HTTP/1.1\r\n\r\n", b"GE / HTTP/1.1\r\n\r\n",
    b"BREW / HTTP/1.1\r\n\r\n", b"GET/ HTTP/1.1\r\n\r\n", b"GET  / HTTP/1.1\r\n\r\n", b" GET / HTTP/1.1\r\n\r\n",
    b"GET / HTTP/1.1\r\n\r\nGET / HTTP/1.1\r\n\r\n",       # two pipelined requests in one segment
    b"X:GET / HTTP/1.1\r\n\r\n", b"Content-Length: 3\r\n\r\nGET / HTTP/1.1\r\n\r\n",
]

FIXED = [   # witnesses of the fixed findings (known_findings.txt: fixed: property=C13 / C01 967279c)
    (b"GET /a\nb HTTP/1.1\r\n\r\n", 5), (b"GET / HTTP/.\r\n\r\n", 5), (b"GET / HTTP/1.\r\n\r\n", 5),
    (b"GET / HTTP/.1\r\n\r\n", 5), (b"GET /\xff HTTP/1.1\r\n\r\n", 1), (b"G\xc3\x28T / HTTP/1.1\r\n\r\n", 1),
    (b"GET / HTTP/1.1\r\nHost: a\r\n\r\n", 5), (b"GET / HTTP/1.1\r\nHost: a\r\n\r\n", 1),
]

MUT_BYTES = [0x20, 0x0d, 0x0a, 0x3a, 0x41, 0x2f, 0x2e, 0x30, 0x00, 0xff]


def single_faults(p, rng, full):
    """Every prefix, every single-byte deletion, insertion and substitution (from MUT_BYTES)."""
    out = [p[:i] for i in range(len(p) + 1)]
    out += [p[:i] + p[i + 1:] for i in range(len(p))]
    for i in range(len(p) + 1):
        for b in (MUT_BYTES if full else rng.sample(MUT_BYTES, 4)):
            out.append(p[:i] + bytes([b]) + p[i:])
    for i in range(len(p)):
        for b in (MUT_BYTES if full else rng.sample(MUT_BYTES, 4)):
            if p[i] != b:
                out.append(p[:i] + bytes([b]) + p[i + 1:])
    return out


# ---------------- scripts ----------------
def udp_script(cfg, payloads, v6, rng, tag):
    s, d = gens.addr_pair(v6)
    return Script(cfg, [net.frame_udp(s, d, rng.randrange(1, 65536), rng.choice(PORTS), p) for p in payloads], tag)


def tcp_script(cfg, payloads, v6, rng, tag):
    """Each payload is the first (and only) data segment of its own flow."""
    s, d = gens.addr_pair(v6)
    fr = []
    sport0 = rng.randrange(1024, 30000)
    for i, p in enumerate(payloads):
        fr += gens.handshake(cfg.key, s, d, sport0 + i, rng.choice(PORTS), [p], isn=rng.getrandbits(32))
    return Script(cfg, fr, tag)


def chunks(xs, n):
    return [xs[i:i + n] for i in range(0, len(xs), n)]


def corpus():
    import random
    rng = random.Random(13)
    for p, level in FIXED:
        cfg = Cfg(level=level)
        yield udp_script(cfg, [p], False, rng, "corpus:fixed %r level=%d udp4" % (p, level))
        yield udp_script(cfg, [p], True, rng, "corpus:fixed %r level=%d udp6" % (p, level))
        yield tcp_script(cfg, [p], False, rng, "corpus:fixed %r level=%d tcp4" % (p, level))
    for lvl in (5, 1):
        yield udp_script(Cfg(level=lvl), LENIENT, False, rng, "corpus:lenient/malformed udp4 level=%d" % lvl)
        yield tcp_script(Cfg(level=lvl), LENIENT, lvl == 1, rng, "corpus:lenient/malformed tcp level=%d" % lvl)



def keepalive_scripts(rng):
    """Several requests on ONE TCP flow (each must be answered on its own), a second request split over two
    segments, and garbage between requests (fix ab1cb4b: the parser starts afresh after each answer)."""
    out = []
    reqs = [b"GET / HTTP/1.1\r\nHost: a\r\n\r\n", b"HEAD /x HTTP/1.0\n\n", b"POST /p HTTP/1.1\r\nA: b\r\n\r\n",
            b"DELETE /d HTTP/2.0\r\n\r\n", b"OPTIONS /* HTTP/1.1\r\n\r\n"]
    for v6 in (False, True):
        s, d = gens.addr_pair(v6)
        key = (0x51, 0x52)
        cfg = Cfg(key=key)
        out.append(Script(cfg, gens.handshake(key, s, d, 42000, 80, reqs), "keepalive:5-requests"))
        out.append(Script(cfg, gens.handshake(key, s, d, 42001, 8080, [reqs[0], reqs[1][:7], reqs[1][7:], reqs[2]]), "keepalive:split-second"))
        out.append(Script(cfg, gens.handshake(key, s, d, 42002, 80, [reqs[0], b"BREW / HTTP/1.1\r\n\r\n", reqs[1]]), "keepalive:bad-then-good"))
        out.append(Script(cfg, gens.handshake(key, s, d, 42003, 80, [reqs[3], b"", b"x", reqs[4]]), "keepalive:empty-and-junk"))
        for i, r in enumerate(reqs):
            out.append(Script(cfg, gens.handshake(key, s, d, 42100 + i, 80, [r, r, r]), "keepalive:same-thrice"))
    return out


def generate(tier, rng):
    for _sc in keepalive_scripts(rng):
        yield _sc
    quick = tier == "quick"
    cfgs = [Cfg(level=5), Cfg(level=1), Cfg(level=1, logger="console"),
            Cfg(self_ips=[gens.SELF4, gens.SELF6], level=5), Cfg(key=(1, 2), level=3)]
    # (1) grammar-directed requests, all verbs, over UDP v4/v6 and TCP v4/v6
    reqs = [grammar_request(rng, verb=v) for v in VERBS for _ in range(10 if quick else 60)]
    for i, ch in enumerate(chunks(reqs, 12)):
        cfg = cfgs[i % len(cfgs)]
        yield udp_script(cfg, ch, i % 2 == 1, rng, "grammar udp")
        yield tcp_script(cfg, ch, i % 2 == 0, rng, "grammar tcp")
    long_reqs = []
    for n in (63, 64, 127, 128, 129, 255, 256, 257, 511, 512, 1023, 1024):
        for o in (b"\xc3\xa9", b"\xe2\x82\xac", b"\xff", b"\xfe\xfd"):
            for k in range(len(o) + 1):
                long_reqs.append(build_request(b"GET", b"/" + b"a" * max(0, n - k - 1) + o + b"zz", b"HTTP/1.1", [(b"Host", b" a")], b"\r\n"))
    for i, ch in enumerate(chunks(long_reqs, 24)):
        cfg = [Cfg(level=1), Cfg(level=3, logger="console"), Cfg(level=5), Cfg(level=4, logger="logfmt")][i % 4]
        yield (udp_script if i % 2 else tcp_script)(cfg, ch, i % 3 == 0, rng, "long-targets")
    # (2) single faults and prefixes of a few base requests
    bases = [build_request(b"GET", b"/", b"HTTP/1.1", [(b"Host", b" a")], b"\r\n"),
             build_request(b"POST", b"/x%41\xfe", b"HTTP/1.0", [], b"\n", b"body"),
             build_request(b"OPTIONS", b"/", b"HTTP/12.34", [(b"A", b"b"), (b"C-d", b"")], b"\r\n")]
    bases += [grammar_request(rng) for _ in range(3 if quick else 24)]
    for bi, base in enumerate(bases):
        faults = single_faults(base, rng, full=(bi < 3 or not quick))
        for i, ch in enumerate(chunks(faults, 60)):
            cfg = cfgs[(bi + i) % len(cfgs)]
            if i % 5 == 4:
                yield tcp_script(cfg, ch, i % 2 == 0, rng, "single-fault tcp base%d" % bi)
            elif i % 5 == 3:
                yield udp_script(cfg, ch, True, rng, "single-fault udp6 base%d" % bi)
            else:
                yield udp_script(cfg, ch, False, rng, "single-fault udp4 base%d" % bi)
    # (3) lenient variants mutated once more
    muts = [gens.mutate_bytes(rng, p, 1) for p in LENIENT for _ in range(3 if quick else 30)]
    for i, ch in enumerate(chunks(muts, 60)):
        yield udp_script(cfgs[i % len(cfgs)], ch, i % 2 == 1, rng, "lenient-mutated udp")


# ---------------- projection, oracle ----------------
def request_of(frame):
    """-> (transport, payload) for UDP datagrams and TCP PSH|ACK segments, else None."""
    p = net.parse_frame(frame)
    if p is None or p.app is None:
        return None
    if p.proto == 17:
        return ("udp", p.app)
    if p.proto == 6 and (p.flags & 0x18) == 0x18:
        return ("tcp", p.app)
    return None


def nontrivial(script):
    for f in script.frames:
        rq = request_of(f)
        if rq is not None and has_sig(rq[1]):
            return True
    return False


DATE = re.compile(rb"\nDate: [^\n]*\n")


def app_of(o):
    """Application payload of an outcome: None = no payload."""
    if o.kind != "R":
        return None
    p = net.parse_frame(o.reply)
    if p is None or p.app is None or len(p.app) == 0:
        return None
    return p.app


def project(script, i, o):
    rq = request_of(script.frames[i])
    if rq is None:
        return (o.kind,)
    if o.kind == "P":
        return ("P",)
    a = app_of(o)
    if a is None:
        return (o.kind, "silent")
    pr = parse_response(a)
    if pr is None:
        return (o.kind, "payload", a)
    status, hdr, body = pr
    return (o.kind, "answer", status, hdr.get(b"content-length"), len(body), b"www-authenticate" in hdr,
            DATE.sub(b"\nDate: *\n", a))


def history_monitor(script, outs):
    """Independent oracle on the implementation's output (first data segment of each flow / each datagram)."""
    msgs = []
    seen_flows = set()
    for i, f in enumerate(script.frames):
        rq = request_of(f)
        if rq is None:
            continue
        tr, p = rq
        if tr == "tcp":
            q = net.parse_frame(f)
            flow = (q.ip_src, q.ip_dst, q.sport, q.dport)
            first = flow not in seen_flows
            seen_flows.add(flow)
            if not first:
                continue
        if not has_sig(p):
            continue
        o = outs[i]
        if o.kind == "P":
            msgs.append((i, "panic on HTTP payload %r: %s" % (p[:60], o.panic)))
            continue
        a = app_of(o)
        if strict_len(p) is not None:
            if a is None:
                msgs.append((i, "complete request %r not answered" % p[:80]))
            else:
                for pb in response_problems(a):
                    msgs.append((i, "response to %r: %s" % (p[:60], pb)))
        elif not relaxed_ok(p):
            if a is not None:
                msgs.append((i, "incomplete / malformed request %r answered with %r" % (p[:80], a[:40])))
        elif a is not None:
            for pb in response_problems(a):
                msgs.append((i, "response to %r: %s" % (p[:60], pb)))
    return msgs
