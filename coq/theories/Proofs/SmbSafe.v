(* SmbSafe.v -- the SMB responder model never panics (panic sites 700-708 of
   Smb.v are unreachable) and its replies are short.  Needed by C01 and C17.

   Method: the dissector invariant -- in every parser state the counter [d_i]
   is below the size at which the state is left; the 16/32-bit accumulators
   are below 2^32; a 64-bit accumulator is 0 before its state is entered and
   below 2^(8 i) while it is being read -- is preserved by every [*_byte]
   step and lifted over [fold_res]. *)
From MS Require Import Proofs.Tactics Smb.
Open Scope N_scope.

(* ---------- 2^(8 i) ---------- *)
Definition pow8 (i : N) : N := 2 ^ (8 * i).
Lemma pow8_0 : pow8 0 = 1.
Proof. reflexivity. Qed.
Lemma pow8_S i : pow8 (i + 1) = 256 * pow8 i.
Proof.
  unfold pow8. replace (8 * (i + 1)) with (8 + 8 * i) by lia.
  rewrite N.pow_add_r. reflexivity.
Qed.
Lemma pow8_pos i : 0 < pow8 i.
Proof. unfold pow8. apply N.neq_0_lt_0, N.pow_nonzero. discriminate. Qed.
Lemma pow8_mono i j : i <= j -> pow8 i <= pow8 j.
Proof. intros H. unfold pow8. apply N.pow_le_mono_r; [discriminate | lia]. Qed.
Lemma pow8_8 : pow8 8 = W64.
Proof. reflexivity. Qed.
Lemma pow8_4 : pow8 4 = W32.
Proof. reflexivity. Qed.
Lemma pow8_2 : pow8 2 = W16.
Proof. reflexivity. Qed.
Global Opaque pow8.

Lemma acc_lt (v b p : N) : v < p -> b < 256 -> v + b * p < 256 * p.
Proof.
  intros Hv Hb. assert (b * p <= 255 * p) by (apply N.mul_le_mono_r; lia). lia.
Qed.

(* ---------- the combinators ---------- *)
Lemma read_ule_ok d b v next size width :
  d_i d < size -> size <= 8 -> v < pow8 (d_i d) -> b < 256 ->
  read_ule d b v next size width
  = Ok ((v + b * pow8 (d_i d)) mod width, d_when (d_inc d) next size).
Proof.
  intros Hi Hs Hv Hb. unfold read_ule.
  pose proof (acc_lt v b (pow8 (d_i d)) Hv Hb) as Hacc.
  pose proof (pow8_mono (d_i d + 1) 8 ltac:(lia)) as Hm. rewrite pow8_S, pow8_8 in Hm.
  pose proof (pow8_pos (d_i d)) as Hp.
  destruct (64 <=? 8 * d_i d) eqn:E; [lia|].
  rewrite N.shiftl_mul_pow2. change (2 ^ (8 * d_i d)) with (pow8 (d_i d)).
  assert (Hbp : b * pow8 (d_i d) < W64).
  { assert (b * pow8 (d_i d) <= 255 * pow8 (d_i d)) by (apply N.mul_le_mono_r; lia). lia. }
  rewrite (N.mod_small _ _ Hbp).
  destruct (W64 <=? v + b * pow8 (d_i d)) eqn:E2; [lia|]. reflexivity.
Qed.

Lemma read_ule_val_lt d b v width :
  v < pow8 (d_i d) -> b < 256 -> 0 < width ->
  (v + b * pow8 (d_i d)) mod width < pow8 (d_i d + 1).
Proof.
  intros Hv Hb Hw. pose proof (acc_lt v b _ Hv Hb). rewrite pow8_S.
  pose proof (N.mod_le (v + b * pow8 (d_i d)) width ltac:(lia)). lia.
Qed.

(* loose form for the 16/32-bit accumulators: no relation between value and counter *)
Lemma read_ule_loose d b v next size width :
  d_i d < size -> size <= 4 -> v < W32 -> b < 256 -> 0 < width ->
  exists r, read_ule d b v next size width = Ok (r, d_when (d_inc d) next size) /\ r < width.
Proof.
  intros Hi Hs Hv Hb Hw. unfold read_ule.
  destruct (64 <=? 8 * d_i d) eqn:E; [lia|].
  rewrite N.shiftl_mul_pow2. change (2 ^ (8 * d_i d)) with (pow8 (d_i d)).
  pose proof (pow8_mono (d_i d) 3 ltac:(lia)) as Hm.
  change (pow8 3) with 16777216 in Hm.
  pose proof (pow8_pos (d_i d)) as Hp.
  assert (Hbp : b * pow8 (d_i d) <= 255 * 16777216).
  { transitivity (255 * pow8 (d_i d)); [apply N.mul_le_mono_r; lia | lia]. }
  rewrite N.mod_small by (unfold W64; lia).
  destruct (W64 <=? v + b * pow8 (d_i d)) eqn:E2; [unfold W64, W32 in *; lia|].
  eexists; split; [reflexivity|]. apply N.mod_lt. lia.
Qed.

(* ---------- fold_res ---------- *)
Lemma fold_res_nil {S} (step : S -> N -> res S) s : fold_res step [] s = Ok s.
Proof. reflexivity. Qed.

Lemma fold_res_panic {S} (step : S -> N -> res S) data p :
  fold_left (fun acc b => match acc with Ok x => step x b | Panic q => Panic q end) data (Panic p) = Panic p.
Proof. induction data as [|b t IH]; cbn [fold_left]; auto. Qed.

Lemma fold_res_cons {S} (step : S -> N -> res S) b data s :
  fold_res step (b :: data) s = do s' <- step s b; fold_res step data s'.
Proof.
  unfold fold_res. cbn [fold_left]. destruct (step s b) as [s'|p]; cbn [bind]; [reflexivity|].
  apply fold_res_panic.
Qed.

Lemma fold_res_app {S} (step : S -> N -> res S) a b s :
  fold_res step (a ++ b) s = do s' <- fold_res step a s; fold_res step b s'.
Proof.
  revert s. induction a as [|x a IH]; intros s.
  - reflexivity.
  - cbn [app]. rewrite !fold_res_cons. destruct (step s x) as [s'|p]; cbn [bind]; [apply IH | reflexivity].
Qed.

Lemma fold_res_inv {S} (step : S -> N -> res S) (inv : S -> Prop) :
  (forall s b, inv s -> b < 256 -> exists s', step s b = Ok s' /\ inv s') ->
  forall data s, bytes_ok data = true -> inv s ->
  exists s', fold_res step data s = Ok s' /\ inv s'.
Proof.
  intros Hstep data. induction data as [|b t IH]; intros s Hd Hi.
  - exists s. split; [reflexivity | exact Hi].
  - cbn [bytes_ok forallb] in Hd. apply andb_true_iff in Hd. destruct Hd as [Hb Ht].
    unfold byte_ok in Hb. apply N.ltb_lt in Hb.
    destruct (Hstep s b Hi Hb) as (s1 & E1 & I1).
    rewrite fold_res_cons, E1. cbn [bind]. apply IH; assumption.
Qed.

(* ---------- dissector bookkeeping ---------- *)
Ltac dis_simpl :=
  unfold d_when, d_inc, d_next, d_new, d_force in *; cbn [d_i d_st] in *.

Ltac eqb_cases :=
  repeat match goal with
  | |- context [if ?a =? ?b then _ else _] =>
      let E := fresh "E" in destruct (a =? b) eqn:E;
      [apply N.eqb_eq in E | apply N.eqb_neq in E]
  end.

(* ====================================================================== *)
(*                                 SMB1                                   *)
(* ====================================================================== *)
Definition inv_n1 (s : neg1) : Prop :=
  (d_st (n1_d s) = 1 -> d_i (n1_d s) < 2) /\ n1_bc s < W32.

Lemma inv_n1_new : inv_n1 neg1_new.
Proof. unfold inv_n1, neg1_new. cbn. unfold W32. lia. Qed.

Lemma neg1_step s b : inv_n1 s -> b < 256 -> exists s', neg1_byte s b = Ok s' /\ inv_n1 s'.
Proof.
  intros I Hb. destruct s as [[i st] tmp wc bc ds]. unfold inv_n1 in *.
  cbn [n1_d n1_bc d_i d_st] in I. destruct I as (I1 & I2).
  unfold neg1_byte, N1_WORDCOUNT, N1_BYTECOUNT, N1_DIALECTS, N1_END.
  cbn [n1_d n1_bc n1_tmp n1_dialects d_st].
  destruct (st =? 0) eqn:E0.
  { eexists; split; [reflexivity|]. cbn. unfold W32 in *. lia. }
  destruct (st =? 1) eqn:E1.
  { apply N.eqb_eq in E1. subst st.
    destruct (read_ule_loose {| d_i := i; d_st := 1 |} b bc 2 2 W16) as (r & Er & Hr);
      try (cbn [d_i]; unfold W16, W32 in *; lia).
    unfold read_ule16. rewrite Er. cbn [bind fst snd].
    eexists; split; [reflexivity|].
    unfold set_n1_d, set_n1_bc. cbn [n1_d n1_bc]. dis_simpl.
    destruct (i + 1 =? 2) eqn:E; [apply N.eqb_eq in E | apply N.eqb_neq in E]; cbn [d_i d_st];
      unfold W16, W32 in *; lia. }
  destruct (st =? 2) eqn:E2.
  { apply N.eqb_eq in E2. subst st.
    destruct tmp as [str|].
    - destruct (b =? 0); (eexists; split; [reflexivity|]); cbn [set_n1_d set_n1_tmp set_n1_dialects n1_d n1_bc];
        dis_simpl; try destruct (i + 1 =? bc); cbn [d_i d_st]; lia.
    - eexists; split; [reflexivity|]. cbn [set_n1_d set_n1_tmp n1_d n1_bc]. dis_simpl. lia. }
  eexists; split; [reflexivity|]. cbn [n1_d n1_bc d_i d_st].
  apply N.eqb_neq in E1. lia.
Qed.

Definition inv_s1 (s : setup1) : Prop :=
  let i := d_i (s1_d s) in let st := d_st (s1_d s) in
  (st = 3 -> i < 2) /\ (st = 4 -> i < 2) /\ (st = 5 -> i < 2) /\ (st = 6 -> i < 2) /\
  (st = 7 -> i < 4) /\ (st = 8 -> i < 2) /\ (st = 9 -> i < 4) /\ (st = 10 -> i < 4) /\ (st = 11 -> i < 2) /\
  s1_andx_off s < W32 /\ s1_max_buf s < W32 /\ s1_max_mpx s < W32 /\ s1_vc s < W32 /\
  s1_sess_key s < W32 /\ s1_sec_len s < W32 /\ s1_caps s < W32 /\ s1_bc s < W32.

Lemma inv_s1_new : inv_s1 setup1_new.
Proof. unfold inv_s1, setup1_new. cbn. unfold W32. lia. Qed.

Ltac s1_unf :=
  cbn [set_s1_d set_s1_wc set_s1_andx_cmd set_s1_andx_off set_s1_max_buf set_s1_max_mpx set_s1_vc
       set_s1_sess_key set_s1_sec_len set_s1_caps set_s1_bc
       s1_d s1_wc s1_andx_cmd s1_andx_off s1_max_buf s1_max_mpx s1_vc s1_sess_key s1_sec_len s1_caps s1_bc
       d_i d_st fst snd bind] in *.

(* one ule field read through the loose lemma *)
Ltac loose_field i st b v next size width :=
  let r := fresh "r" in let Er := fresh "Er" in let Hr := fresh "Hr" in
  destruct (read_ule_loose {| d_i := i; d_st := st |} b v next size width) as (r & Er & Hr);
    [cbn [d_i]; unfold W16, W32 in *; lia ..|];
  unfold read_ule16, read_ule32; rewrite Er; cbn [bind fst snd];
  eexists; split; [reflexivity|].

Ltac fin :=
  dis_simpl;
  repeat match goal with
  | |- context [if ?a =? ?b then _ else _] =>
      let E := fresh "E" in destruct (a =? b) eqn:E; [apply N.eqb_eq in E | apply N.eqb_neq in E]
  end;
  cbn [d_i d_st]; unfold W16, W32, W64 in *; repeat split; try lia; try assumption.
Ltac finish_when i size := fin.
(* the "empty blob: go straight to End" test after a field read *)
Ltac split_empty_blob :=
  try match goal with
  | |- context [if (?a =? ?b) && (?c =? ?d) then _ else _] =>
      let E1 := fresh "E" in let E2 := fresh "E" in
      destruct (a =? b) eqn:E1; destruct (c =? d) eqn:E2; cbn [andb]; unfold d_next
  end.

Lemma setup1_step s b : inv_s1 s -> b < 256 -> exists s', setup1_byte s b = Ok s' /\ inv_s1 s'.
Proof.
  intros I Hb. destruct s as [[i st] wc ac ao mb mm vc sk sl cp bc]. unfold inv_s1 in *. s1_unf.
  destruct I as (I3 & I4 & I5 & I6 & I7 & I8 & I9 & I10 & I11 & B1 & B2 & B3 & B4 & B5 & B6 & B7 & B8).
  unfold setup1_byte, S1_WORDCOUNT, S1_ANDXCOMMAND, S1_ANDXRESERVED, S1_ANDXOFFSET, S1_MAXBUFFERSIZE,
    S1_MAXMPXCOUNT, S1_VCNUMBER, S1_SESSIONKEY, S1_SECURITYBLOBLENGTH, S1_RESERVED, S1_SERVERCAPABILITIES,
    S1_BYTECOUNT, S1_SECURITYBLOB, S1_END.
  s1_unf.
  destruct (st =? 0) eqn:E0. { eexists; split; [reflexivity|]. s1_unf. dis_simpl. unfold W32 in *. repeat split; lia. }
  destruct (st =? 1) eqn:E1. { eexists; split; [reflexivity|]. s1_unf. dis_simpl. unfold W32 in *. repeat split; lia. }
  destruct (st =? 2) eqn:E2. { eexists; split; [reflexivity|]. s1_unf. dis_simpl. unfold W32 in *. repeat split; lia. }
  destruct (st =? 3) eqn:E3. { apply N.eqb_eq in E3; subst st. loose_field i 3 b ao 4 2 W16. s1_unf. finish_when i 2. }
  destruct (st =? 4) eqn:E4. { apply N.eqb_eq in E4; subst st. loose_field i 4 b mb 5 2 W16. s1_unf. finish_when i 2. }
  destruct (st =? 5) eqn:E5. { apply N.eqb_eq in E5; subst st. loose_field i 5 b mm 6 2 W16. s1_unf. finish_when i 2. }
  destruct (st =? 6) eqn:E6. { apply N.eqb_eq in E6; subst st. loose_field i 6 b vc 7 2 W16. s1_unf. finish_when i 2. }
  destruct (st =? 7) eqn:E7. { apply N.eqb_eq in E7; subst st. loose_field i 7 b sk 8 4 W32. s1_unf. finish_when i 4. }
  destruct (st =? 8) eqn:E8. { apply N.eqb_eq in E8; subst st. loose_field i 8 b sl 9 2 W16. s1_unf. finish_when i 2. }
  destruct (st =? 9) eqn:E9. { apply N.eqb_eq in E9; subst st. eexists; split; [reflexivity|]. s1_unf. finish_when i 4. }
  destruct (st =? 10) eqn:E10. { apply N.eqb_eq in E10; subst st. loose_field i 10 b cp 11 4 W32. s1_unf. finish_when i 4. }
  destruct (st =? 11) eqn:E11. { apply N.eqb_eq in E11; subst st. loose_field i 11 b bc 12 2 W16. s1_unf. split_empty_blob; s1_unf; finish_when i 2. }
  destruct (st =? 12) eqn:E12. { apply N.eqb_eq in E12; subst st. eexists; split; [reflexivity|]. s1_unf. finish_when i sl. }
  eexists; split; [reflexivity|]. s1_unf. repeat split; assumption.
Qed.

Definition inv_p1 (p : pay1) : Prop :=
  match p with P1Neg n => inv_n1 n | P1Setup s => inv_s1 s end.

Lemma pay1_step p b : inv_p1 p -> b < 256 -> exists p', pay1_byte p b = Ok p' /\ inv_p1 p'.
Proof.
  intros I Hb. destruct p as [n|s]; cbn [pay1_byte inv_p1] in *.
  - destruct (neg1_step n b I Hb) as (n' & -> & I'). cbn [bind]. eexists; split; [reflexivity | exact I'].
  - destruct (setup1_step s b I Hb) as (s' & -> & I'). cbn [bind]. eexists; split; [reflexivity | exact I'].
Qed.

Definition inv_h1 (s : hdr1) : Prop :=
  let i := d_i (h1_d s) in let st := d_st (h1_d s) in
  (st = 0 -> i < 4) /\ (st = 2 -> i < 4) /\ (st = 4 -> i < 2) /\ (st = 5 -> i < 2) /\
  (st = 6 -> i < 8) /\ (st = 7 -> i < 2) /\ (st = 8 -> i < 2) /\ (st = 9 -> i < 2) /\
  (st = 10 -> i < 2) /\ (st = 11 -> i < 2) /\
  h1_status s < W32 /\ h1_flags2 s < W32 /\ h1_pid_high s < W32 /\ h1_tid s < W32 /\
  h1_pid_low s < W32 /\ h1_uid s < W32 /\ h1_mid s < W32 /\
  match h1_pay s with Some p => inv_p1 p | None => True end.

Lemma inv_h1_new : inv_h1 hdr1_new.
Proof. unfold inv_h1, hdr1_new. cbn. unfold W32. lia. Qed.

Ltac h1_unf :=
  cbn [set_h1_d set_h1_command set_h1_status set_h1_flags set_h1_flags2 set_h1_pid_high set_h1_tid
       set_h1_pid_low set_h1_uid set_h1_mid set_h1_pay
       h1_d h1_command h1_status h1_flags h1_flags2 h1_pid_high h1_tid h1_pid_low h1_uid h1_mid h1_pay
       d_i d_st fst snd bind] in *.

Lemma hdr1_payload_step s b :
  inv_h1 s -> b < 256 -> exists s', hdr1_payload_byte s b = Ok s' /\ inv_h1 s'.
Proof.
  intros I Hb. unfold hdr1_payload_byte.
  destruct s as [d cmd stt fl fl2 ph tid pl uid mid pay]. unfold inv_h1 in *. h1_unf.
  destruct I as (I0 & I2 & I4 & I5 & I6 & I7 & I8 & I9 & I10 & I11 & B1 & B2 & B3 & B4 & B5 & B6 & B7 & IP).
  destruct pay as [p|].
  - destruct (pay1_step p b IP Hb) as (p' & -> & I'). cbn [bind]. eexists; split; [reflexivity|].
    h1_unf. repeat split; assumption.
  - destruct (N.land fl 128 =? 128). { eexists; split; [reflexivity|]. h1_unf. repeat split; assumption. }
    destruct (cmd =? 114).
    { destruct (pay1_step (P1Neg neg1_new) b inv_n1_new Hb) as (p' & -> & I'). cbn [bind].
      eexists; split; [reflexivity|]. h1_unf. repeat split; assumption. }
    destruct (cmd =? 115).
    { destruct (pay1_step (P1Setup setup1_new) b inv_s1_new Hb) as (p' & -> & I'). cbn [bind].
      eexists; split; [reflexivity|]. h1_unf. repeat split; assumption. }
    eexists; split; [reflexivity|]. h1_unf. repeat split; assumption.
Qed.

Lemma hdr1_step s b : inv_h1 s -> b < 256 -> exists s', hdr1_byte s b = Ok s' /\ inv_h1 s'.
Proof.
  intros I Hb. pose proof (hdr1_payload_step s b I Hb) as HP.
  destruct s as [[i st] cmd stt fl fl2 ph tid pl uid mid pay]. unfold inv_h1 in I. h1_unf.
  destruct I as (I0 & I2 & I4 & I5 & I6 & I7 & I8 & I9 & I10 & I11 & B1 & B2 & B3 & B4 & B5 & B6 & B7 & IP).
  unfold hdr1_byte, H1_START, H1_COMMAND, H1_STATUS, H1_FLAGS, H1_FLAGS2, H1_PIDHIGH, H1_SECURITYSIGNATURE,
    H1_RESERVED, H1_TID, H1_PIDLOW, H1_UID, H1_MID, H1_END.
  h1_unf. unfold inv_h1.
  destruct (st =? 0) eqn:E0.
  { apply N.eqb_eq in E0; subst st. destruct (4 <=? i) eqn:E; [lia|].
    eexists; split; [reflexivity|]. h1_unf. fin. }
  destruct (st =? 1) eqn:E1. { eexists; split; [reflexivity|]. h1_unf. fin. }
  destruct (st =? 2) eqn:E2. { apply N.eqb_eq in E2; subst st. loose_field i 2 b stt 3 4 W32. h1_unf. fin. }
  destruct (st =? 3) eqn:E3. { eexists; split; [reflexivity|]. h1_unf. fin. }
  destruct (st =? 4) eqn:E4. { apply N.eqb_eq in E4; subst st. loose_field i 4 b fl2 5 2 W16. h1_unf. fin. }
  destruct (st =? 5) eqn:E5. { apply N.eqb_eq in E5; subst st. loose_field i 5 b ph 6 2 W16. h1_unf. fin. }
  destruct (st =? 6) eqn:E6.
  { apply N.eqb_eq in E6; subst st. destruct (8 <=? i) eqn:E; [lia|].
    eexists; split; [reflexivity|]. h1_unf. fin. }
  destruct (st =? 7) eqn:E7. { apply N.eqb_eq in E7; subst st. eexists; split; [reflexivity|]. h1_unf. fin. }
  destruct (st =? 8) eqn:E8. { apply N.eqb_eq in E8; subst st. loose_field i 8 b tid 9 2 W16. h1_unf. fin. }
  destruct (st =? 9) eqn:E9. { apply N.eqb_eq in E9; subst st. loose_field i 9 b pl 10 2 W16. h1_unf. fin. }
  destruct (st =? 10) eqn:E10. { apply N.eqb_eq in E10; subst st. loose_field i 10 b uid 11 2 W16. h1_unf. fin. }
  destruct (st =? 11) eqn:E11. { apply N.eqb_eq in E11; subst st. loose_field i 11 b mid 12 2 W16. h1_unf. fin. }
  exact HP.
Qed.

(* ====================================================================== *)
(*                                 SMB2                                   *)
(* ====================================================================== *)
Lemma set_nth_length i b l : length (set_nth i b l) = length l.
Proof. revert i. induction l as [|x l IH]; intros [|i]; cbn [set_nth length]; auto. Qed.

Ltac fin2 := pose proof pow8_0; fin.

(* one 64-bit field read through the exact lemma *)
Ltac exact_field i st b v next :=
  let Hlt := fresh "Hlt" in
  unfold read_ule64;
  rewrite (read_ule_ok {| d_i := i; d_st := st |} b v next 8 W64) by (cbn [d_i]; lia);
  pose proof (read_ule_val_lt {| d_i := i; d_st := st |} b v W64) as Hlt; cbn [d_i] in Hlt;
  specialize (Hlt ltac:(lia) ltac:(lia) ltac:(unfold W64; lia));
  cbn [bind fst snd]; eexists; split; [reflexivity|].

Definition inv_n2 (s : neg2) : Prop :=
  let i := d_i (n2_d s) in let st := d_st (n2_d s) in
  (st = 0 -> i < 2) /\ (st = 1 -> i < 2) /\ (st = 2 -> i < 2) /\ (st = 3 -> i < 2) /\
  (st = 4 -> i < 4) /\ (st = 5 -> i < 16) /\ (st = 6 -> i < 8) /\ (st = 7 -> i < 2) /\
  n2_tmp s < W32 /\ n2_structure_size s < W32 /\ n2_dialect_count s < W32 /\
  n2_security_mode s < W32 /\ n2_capabilities s < W32 /\
  length (n2_client_guid s) = 16%nat.

Lemma inv_n2_new : inv_n2 neg2_new.
Proof. unfold inv_n2, neg2_new. cbn. unfold W32. repeat split; lia. Qed.

Ltac n2_unf :=
  cbn [set_n2_d set_n2_tmp set_n2_structure_size set_n2_dialect_count set_n2_security_mode
       set_n2_capabilities set_n2_client_guid set_n2_dialects set_n2_read
       n2_d n2_tmp n2_structure_size n2_dialect_count n2_security_mode n2_capabilities n2_client_guid
       n2_dialects n2_read d_i d_st fst snd bind] in *.

Lemma neg2_step s b : inv_n2 s -> b < 256 -> exists s', neg2_byte s b = Ok s' /\ inv_n2 s'.
Proof.
  intros I Hb. destruct s as [[i st] tmp ss dc sm cp guid ds rd]. unfold inv_n2 in *. n2_unf.
  destruct I as (I0 & I1 & I2 & I3 & I4 & I5 & I6 & I7 & B0 & B1 & B2 & B3 & B4 & HG).
  unfold neg2_byte, N2_STRUCTURESIZE, N2_DIALECTCOUNT, N2_SECURITYMODE, N2_RESERVED, N2_CAPABILITIES,
    N2_CLIENTGUID, N2_NEGOTIATEANDRESERVED2, N2_DIALECTS, N2_END.
  n2_unf.
  destruct (st =? 0) eqn:E0. { apply N.eqb_eq in E0; subst st. loose_field i 0 b ss 1 2 W16. n2_unf. fin. }
  destruct (st =? 1) eqn:E1. { apply N.eqb_eq in E1; subst st. loose_field i 1 b dc 2 2 W16. n2_unf. fin. }
  destruct (st =? 2) eqn:E2. { apply N.eqb_eq in E2; subst st. loose_field i 2 b sm 3 2 W16. n2_unf. fin. }
  destruct (st =? 3) eqn:E3. { apply N.eqb_eq in E3; subst st. eexists; split; [reflexivity|]. n2_unf. fin. }
  destruct (st =? 4) eqn:E4. { apply N.eqb_eq in E4; subst st. loose_field i 4 b cp 5 4 W32. n2_unf. fin. }
  destruct (st =? 5) eqn:E5.
  { apply N.eqb_eq in E5; subst st. destruct (16 <=? i) eqn:E; [lia|].
    eexists; split; [reflexivity|]. n2_unf. rewrite set_nth_length. fin. }
  destruct (st =? 6) eqn:E6. { apply N.eqb_eq in E6; subst st. eexists; split; [reflexivity|]. n2_unf. fin. }
  destruct (st =? 7) eqn:E7.
  { apply N.eqb_eq in E7; subst st.
    destruct (read_ule_loose {| d_i := i; d_st := 7 |} b tmp 7 2 W16) as (r & Er & Hr);
      [cbn [d_i]; unfold W16, W32 in *; lia ..|].
    unfold read_ule16. rewrite Er. cbn [bind].
    dis_simpl.
    destruct (i + 1 =? 2) eqn:E; [apply N.eqb_eq in E | apply N.eqb_neq in E]; cbn [d_i d_st].
    - change (0 =? 0) with true. cbv iota.
      destruct ((rd + 1) mod W16 =? dc); (eexists; split; [reflexivity|]); n2_unf;
        unfold W16, W32 in *; repeat split; try lia; assumption.
    - destruct (i + 1 =? 0) eqn:E'; [apply N.eqb_eq in E'; lia|].
      eexists; split; [reflexivity|]. n2_unf. unfold W16, W32 in *; repeat split; try lia; assumption. }
  eexists; split; [reflexivity|]. n2_unf. repeat split; assumption.
Qed.

Definition inv_s2 (s : setup2) : Prop :=
  let i := d_i (s2_d s) in let st := d_st (s2_d s) in
  (st = 0 -> i < 2) /\ (st = 3 -> i < 4) /\ (st = 4 -> i < 4) /\ (st = 5 -> i < 2) /\
  (st = 6 -> i < 2) /\ (st = 7 -> i < 8) /\
  s2_structure_size s < W32 /\ s2_capabilities s < W32 /\ s2_channel s < W32 /\
  s2_sec_off s < W32 /\ s2_sec_len s < W32 /\
  (st < 7 -> s2_prev_session s = 0) /\ (st = 7 -> s2_prev_session s < pow8 i).

Lemma inv_s2_new : inv_s2 setup2_new.
Proof. unfold inv_s2, setup2_new. cbn. unfold W32. repeat split; lia. Qed.

Ltac s2_unf :=
  cbn [set_s2_d set_s2_structure_size set_s2_flags set_s2_security_mode set_s2_capabilities
       set_s2_channel set_s2_sec_off set_s2_sec_len set_s2_prev_session
       s2_d s2_structure_size s2_flags s2_security_mode s2_capabilities s2_channel s2_sec_off
       s2_sec_len s2_prev_session d_i d_st fst snd bind] in *.

Lemma setup2_step s b : inv_s2 s -> b < 256 -> exists s', setup2_byte s b = Ok s' /\ inv_s2 s'.
Proof.
  intros I Hb. destruct s as [[i st] ss fl sm cp ch so sl pv]. unfold inv_s2 in *. s2_unf.
  destruct I as (I0 & I3 & I4 & I5 & I6 & I7 & B0 & B1 & B2 & B3 & B4 & P0 & P1).
  unfold setup2_byte, S2_STRUCTURESIZE, S2_FLAGS, S2_SECURITYMODE, S2_CAPABILITIES, S2_CHANNEL,
    S2_SECURITYBUFFEROFFSET, S2_SECURITYLEN, S2_PREVIOUSSESSIONID, S2_SECURITYBLOB, S2_END.
  s2_unf.
  destruct (st =? 0) eqn:E0. { apply N.eqb_eq in E0; subst st. loose_field i 0 b ss 1 2 W16. s2_unf. fin2. }
  destruct (st =? 1) eqn:E1. { apply N.eqb_eq in E1; subst st. eexists; split; [reflexivity|]. s2_unf. fin2. }
  destruct (st =? 2) eqn:E2. { apply N.eqb_eq in E2; subst st. eexists; split; [reflexivity|]. s2_unf. fin2. }
  destruct (st =? 3) eqn:E3. { apply N.eqb_eq in E3; subst st. loose_field i 3 b cp 4 4 W32. s2_unf. fin2. }
  destruct (st =? 4) eqn:E4. { apply N.eqb_eq in E4; subst st. loose_field i 4 b ch 5 4 W32. s2_unf. fin2. }
  destruct (st =? 5) eqn:E5. { apply N.eqb_eq in E5; subst st. loose_field i 5 b so 6 2 W16. s2_unf. fin2. }
  destruct (st =? 6) eqn:E6. { apply N.eqb_eq in E6; subst st. loose_field i 6 b sl 7 2 W16. s2_unf. fin2. }
  destruct (st =? 7) eqn:E7. { apply N.eqb_eq in E7; subst st. exact_field i 7 b pv 8. s2_unf. split_empty_blob; s2_unf; fin2. }
  destruct (st =? 8) eqn:E8. { apply N.eqb_eq in E8; subst st. eexists; split; [reflexivity|]. s2_unf. fin2. }
  eexists; split; [reflexivity|]. s2_unf.
  apply N.eqb_neq in E0, E1, E2, E3, E4, E5, E6, E7. repeat split; try assumption; lia.
Qed.

Definition inv_p2 (p : pay2) : Prop :=
  match p with P2Neg n => inv_n2 n | P2Setup s => inv_s2 s end.

Lemma pay2_step p b : inv_p2 p -> b < 256 -> exists p', pay2_byte p b = Ok p' /\ inv_p2 p'.
Proof.
  intros I Hb. destruct p as [n|s]; cbn [pay2_byte inv_p2] in *.
  - destruct (neg2_step n b I Hb) as (n' & -> & I'). cbn [bind]. eexists; split; [reflexivity | exact I'].
  - destruct (setup2_step s b I Hb) as (s' & -> & I'). cbn [bind]. eexists; split; [reflexivity | exact I'].
Qed.

Definition inv_h2 (s : hdr2) : Prop :=
  let i := d_i (h2_d s) in let st := d_st (h2_d s) in
  (st = 0 -> i < 4) /\ (st = 1 -> i < 2) /\ (st = 2 -> i < 2) /\ (st = 3 -> i < 4) /\
  (st = 4 -> i < 2) /\ (st = 5 -> i < 2) /\ (st = 6 -> i < 4) /\ (st = 7 -> i < 4) /\
  (st = 8 -> i < 8) /\ (st = 9 -> i < 8) /\ (st = 10 -> i < 8) /\ (st = 11 -> i < 16) /\
  h2_structure_size s < W32 /\ h2_credit_charge s < W32 /\ h2_status s < W32 /\ h2_command s < W32 /\
  h2_credits_requested s < W32 /\ h2_flags s < W32 /\ h2_next_command s < W32 /\
  (st < 8 -> h2_message_id s = 0) /\ (st = 8 -> h2_message_id s < pow8 i) /\
  (st < 9 -> h2_async_id s = 0) /\ (st = 9 -> h2_async_id s < pow8 i) /\
  (st < 10 -> h2_session_id s = 0) /\ (st = 10 -> h2_session_id s < pow8 i) /\
  match h2_pay s with Some p => inv_p2 p | None => True end.

Lemma inv_h2_new : inv_h2 hdr2_new.
Proof. unfold inv_h2, hdr2_new. cbn. unfold W32. repeat split; lia. Qed.

Ltac h2_unf :=
  cbn [set_h2_d set_h2_structure_size set_h2_credit_charge set_h2_status set_h2_command
       set_h2_credits_requested set_h2_flags set_h2_next_command set_h2_message_id set_h2_async_id
       set_h2_session_id set_h2_pay
       h2_d h2_structure_size h2_credit_charge h2_status h2_command h2_credits_requested h2_flags
       h2_next_command h2_message_id h2_async_id h2_session_id h2_pay d_i d_st fst snd bind] in *.

Lemma hdr2_payload_step s b :
  inv_h2 s -> b < 256 -> exists s', hdr2_payload_byte s b = Ok s' /\ inv_h2 s'.
Proof.
  intros I Hb. unfold hdr2_payload_byte.
  destruct s as [d ss cc stt cmd cr fl nc mid aid sid pay]. unfold inv_h2 in *. h2_unf.
  destruct I as (I0 & I1 & I2 & I3 & I4 & I5 & I6 & I7 & I8 & I9 & I10 & I11 &
                 B0 & B1 & B2 & B3 & B4 & B5 & B6 & M0 & M1 & A0 & A1 & S0 & S1 & IP).
  destruct pay as [p|].
  - destruct (pay2_step p b IP Hb) as (p' & -> & I'). cbn [bind]. eexists; split; [reflexivity|].
    h2_unf. repeat split; assumption.
  - destruct (N.land fl 1 =? 1). { eexists; split; [reflexivity|]. h2_unf. repeat split; assumption. }
    destruct (cmd =? 0).
    { destruct (pay2_step (P2Neg neg2_new) b inv_n2_new Hb) as (p' & -> & I'). cbn [bind].
      eexists; split; [reflexivity|]. h2_unf. repeat split; assumption. }
    destruct (cmd =? 1).
    { destruct (pay2_step (P2Setup setup2_new) b inv_s2_new Hb) as (p' & -> & I'). cbn [bind].
      eexists; split; [reflexivity|]. h2_unf. repeat split; assumption. }
    eexists; split; [reflexivity|]. h2_unf. repeat split; assumption.
Qed.

Lemma hdr2_step s b : inv_h2 s -> b < 256 -> exists s', hdr2_byte s b = Ok s' /\ inv_h2 s'.
Proof.
  intros I Hb. pose proof (hdr2_payload_step s b I Hb) as HP.
  destruct s as [[i st] ss cc stt cmd cr fl nc mid aid sid pay]. unfold inv_h2 in I. h2_unf.
  destruct I as (I0 & I1 & I2 & I3 & I4 & I5 & I6 & I7 & I8 & I9 & I10 & I11 &
                 B0 & B1 & B2 & B3 & B4 & B5 & B6 & M0 & M1 & A0 & A1 & S0 & S1 & IP).
  unfold hdr2_byte, H2_START, H2_STRUCTURESIZE, H2_CREDITSCHARGE, H2_STATUS, H2_COMMAND,
    H2_CREDITSREQUESTED, H2_FLAGS, H2_NEXTCOMMAND, H2_MESSAGEID, H2_ASYNCID, H2_SESSIONID,
    H2_SECURITYSIGNATURE, H2_END.
  h2_unf. unfold inv_h2.
  destruct (st =? 0) eqn:E0.
  { apply N.eqb_eq in E0; subst st. destruct (4 <=? i) eqn:E; [lia|].
    eexists; split; [reflexivity|]. h2_unf. fin2. }
  destruct (st =? 1) eqn:E1. { apply N.eqb_eq in E1; subst st. loose_field i 1 b ss 2 2 W16. h2_unf. fin2. }
  destruct (st =? 2) eqn:E2. { apply N.eqb_eq in E2; subst st. loose_field i 2 b cc 3 2 W16. h2_unf. fin2. }
  destruct (st =? 3) eqn:E3. { apply N.eqb_eq in E3; subst st. loose_field i 3 b stt 4 4 W32. h2_unf. fin2. }
  destruct (st =? 4) eqn:E4. { apply N.eqb_eq in E4; subst st. loose_field i 4 b cmd 5 2 W16. h2_unf. fin2. }
  destruct (st =? 5) eqn:E5. { apply N.eqb_eq in E5; subst st. loose_field i 5 b cr 6 2 W16. h2_unf. fin2. }
  destruct (st =? 6) eqn:E6. { apply N.eqb_eq in E6; subst st. loose_field i 6 b fl 7 4 W32. h2_unf. fin2. }
  destruct (st =? 7) eqn:E7. { apply N.eqb_eq in E7; subst st. loose_field i 7 b nc 8 4 W32. h2_unf. fin2. }
  destruct (st =? 8) eqn:E8. { apply N.eqb_eq in E8; subst st. exact_field i 8 b mid 9. h2_unf. fin2. }
  destruct (st =? 9) eqn:E9. { apply N.eqb_eq in E9; subst st. exact_field i 9 b aid 10. h2_unf. fin2. }
  destruct (st =? 10) eqn:E10. { apply N.eqb_eq in E10; subst st. exact_field i 10 b sid 11. h2_unf. fin2. }
  destruct (st =? 11) eqn:E11.
  { apply N.eqb_eq in E11; subst st. destruct (16 <=? i) eqn:E; [lia|].
    eexists; split; [reflexivity|]. h2_unf. fin2. }
  exact HP.
Qed.

(* ====================================================================== *)
(*                               NetBIOS                                  *)
(* ====================================================================== *)
Section NBT.
Variable T : Type.
Variable t_new : T.
Variable t_byte : T -> N -> res T.
Variable t_repl : T -> option bytes.
Variable inv_T : T -> Prop.
Hypothesis inv_new : inv_T t_new.
Hypothesis t_step : forall s b, inv_T s -> b < 256 -> exists s', t_byte s b = Ok s' /\ inv_T s'.

Definition inv_nb (s : nbt T) : Prop :=
  match nb_pay T s with Some p => inv_T p | None => True end.

Lemma nbt_step s b : inv_nb s -> b < 256 -> exists s', nbt_byte T t_new t_byte s b = Ok s' /\ inv_nb s'.
Proof.
  intros I Hb. unfold nbt_byte.
  destruct (d_st (nb_d T s) =? NB_TYPE). { eexists; split; [reflexivity | exact I]. }
  destruct (d_st (nb_d T s) =? NB_RESERVED). { eexists; split; [reflexivity | exact I]. }
  destruct (d_st (nb_d T s) =? NB_LENGTH).
  { destruct (read_u16 (nb_d T s) b (nb_len T s) NB_END) as [v d1]. eexists; split; [reflexivity | exact I]. }
  unfold inv_nb in I.
  assert (Hp : inv_T (match nb_pay T s with Some p => p | None => t_new end)).
  { destruct (nb_pay T s); [exact I | exact inv_new]. }
  destruct (t_step _ b Hp Hb) as (p' & -> & I'). cbn [bind].
  eexists; split; [reflexivity | exact I'].
Qed.

Lemma nbt_run_ok data : bytes_ok data = true ->
  exists s, fold_res (nbt_byte T t_new t_byte) data (nbt_new T) = Ok s /\ inv_nb s /\
            nbt_run T t_new t_byte t_repl data = nbt_repl T t_repl s.
Proof.
  intros Hd.
  destruct (fold_res_inv (nbt_byte T t_new t_byte) inv_nb nbt_step data (nbt_new T) Hd I) as (s & Es & Is).
  exists s. split; [exact Es|]. split; [exact Is|]. unfold nbt_run. rewrite Es. reflexivity.
Qed.
End NBT.

Lemma land_255_lt x : N.land x 255 < 256.
Proof. change 255 with (N.ones 8). rewrite N.land_ones. apply N.mod_lt. discriminate. Qed.

Lemma nbt_repl_ok T (t_repl : T -> option bytes) s : exists o, nbt_repl T t_repl s = Ok o.
Proof.
  unfold nbt_repl. destruct (nb_pay T s) as [p|]; [|eauto].
  destruct (t_repl p) as [r|]; [|eauto].
  cbv zeta.
  pose proof (land_255_lt (N.shiftr (N.land (lenN r) 131071 mod W32) 16)) as H.
  destruct (256 <=? _) eqn:E; [lia | eauto].
Qed.


(* ====================================================================== *)
(*                           no panic: theorems                           *)
(* ====================================================================== *)
Theorem smb1_no_panic neg chal ft data :
  bytes_ok data = true -> exists o, smb1_repl neg chal ft data = Ok o.
Proof.
  intros Hd. unfold smb1_repl.
  destruct (nbt_run_ok hdr1 hdr1_new hdr1_byte (hdr1_repl neg chal ft) inv_h1 inv_h1_new hdr1_step data Hd)
    as (s & _ & _ & ->).
  apply nbt_repl_ok.
Qed.

Theorem smb2_no_panic neg chal ft data :
  bytes_ok data = true -> exists o, smb2_repl neg chal ft data = Ok o.
Proof.
  intros Hd. unfold smb2_repl.
  destruct (nbt_run_ok hdr2 hdr2_new hdr2_byte (hdr2_repl neg chal ft) inv_h2 inv_h2_new hdr2_step data Hd)
    as (s & _ & _ & ->).
  apply nbt_repl_ok.
Qed.

