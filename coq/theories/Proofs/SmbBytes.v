(* SmbBytes.v -- the SMB replies are strings of octets. The only reply bytes that
   are not produced by le16/le32/le64/be16 (which reduce mod 256), constants or
   the two security blobs are the echoed SMB1 command byte and the echoed SMB2
   client GUID; both are copies of request bytes. Method: a predicate preserved
   by every [*_byte] step, lifted over [fold_res]. *)
From MS Require Import Proofs.Tactics Smb Proofs.SmbSafe Proofs.SmbLen.
Open Scope N_scope.

(* ---------- encoders ---------- *)
Lemma bcons (b : N) (l : bytes) : b < 256 -> bytes_ok l = true -> bytes_ok (b :: l) = true.
Proof.
  intros Hb Hl. cbn [bytes_ok forallb]. fold (bytes_ok l). rewrite Hl. unfold byte_ok.
  apply andb_true_iff. split; [lia | reflexivity].
Qed.
Lemma bapp (a b : bytes) : bytes_ok a = true -> bytes_ok b = true -> bytes_ok (a ++ b) = true.
Proof. intros Ha Hb. rewrite bytes_ok_app, Ha, Hb. reflexivity. Qed.
Lemma bytes_ok_le16 x : bytes_ok (le16 x) = true.
Proof. unfold le16. repeat (apply bcons; [lia|]). reflexivity. Qed.
Lemma bytes_ok_le32 x : bytes_ok (le32 x) = true.
Proof. unfold le32. repeat (apply bcons; [lia|]). reflexivity. Qed.
Lemma bytes_ok_le64 x : bytes_ok (le64 x) = true.
Proof. unfold le64. apply bapp; apply bytes_ok_le32. Qed.
Lemma bytes_ok_be16' x : bytes_ok (be16 x) = true.
Proof. unfold be16. repeat (apply bcons; [lia|]). reflexivity. Qed.
Lemma bytes_ok_zeros' n : bytes_ok (zeros n) = true.
Proof. unfold zeros. induction n as [|n IH]; [reflexivity | exact IH]. Qed.

Lemma bytes_ok_set_nth i b l : b < 256 -> bytes_ok l = true -> bytes_ok (set_nth i b l) = true.
Proof.
  intros Hb. revert i. induction l as [|x l IH]; intros i Hl; [destruct i; reflexivity|].
  cbn [bytes_ok forallb] in Hl. fold (bytes_ok l) in Hl. apply andb_true_iff in Hl. destruct Hl as [Hx Hl].
  unfold byte_ok in Hx.
  destruct i as [|i]; cbn [set_nth]; apply bcons; try lia; auto.
Qed.

Ltac btac :=
  repeat match goal with
  | |- bytes_ok (_ ++ _) = true => apply bapp
  | |- bytes_ok (le16 _) = true => apply bytes_ok_le16
  | |- bytes_ok (le32 _) = true => apply bytes_ok_le32
  | |- bytes_ok (le64 _) = true => apply bytes_ok_le64
  | |- bytes_ok (be16 _) = true => apply bytes_ok_be16'
  | |- bytes_ok (zeros _) = true => apply bytes_ok_zeros'
  | |- bytes_ok (_ :: _) = true => apply bcons; [lia|]
  | |- bytes_ok [] = true => reflexivity
  | |- bytes_ok NATIVE_OS = true => reflexivity
  | |- bytes_ok _ = true => assumption
  end.

(* ---------- preservation over fold_res ---------- *)
Lemma fold_res_pres {S} (step : S -> N -> res S) (Q : S -> Prop) :
  (forall s b s', b < 256 -> Q s -> step s b = Ok s' -> Q s') ->
  forall data s s', bytes_ok data = true -> Q s -> fold_res step data s = Ok s' -> Q s'.
Proof.
  intros Hstep data. induction data as [|b t IH]; intros s s' Hd HQ H.
  - rewrite fold_res_nil in H. inversion H; subst. exact HQ.
  - cbn [bytes_ok forallb] in Hd. apply andb_true_iff in Hd. destruct Hd as [Hb Ht].
    unfold byte_ok in Hb. apply N.ltb_lt in Hb.
    rewrite fold_res_cons in H. destruct (step s b) as [s1|p] eqn:E1; cbn [bind] in H.
    + apply (IH s1 s' Ht); [eapply Hstep; eassumption | exact H].
    + discriminate.
Qed.

Lemma ok_inj {A} (a b : A) : Ok a = Ok b -> a = b.
Proof. congruence. Qed.

(* split an execution of a [*_byte] function into its branches *)
Ltac step_cases H :=
  repeat first
    [ discriminate H
    | match type of H with
      | context [if ?c then _ else _] => destruct c
      | context [bind ?x _] => let r := fresh "r" in destruct x as [r|?]; cbn [bind] in H
      end ].

(* ====================================================================== *)
(* SMB1: the command byte                                                  *)
(* ====================================================================== *)
Definition q_h1 (s : hdr1) : Prop := h1_command s < 256.

Lemma hdr1_byte_pres s b s' : b < 256 -> q_h1 s -> hdr1_byte s b = Ok s' -> q_h1 s'.
Proof.
  unfold q_h1. intros Hb HQ H. unfold hdr1_byte, hdr1_payload_byte in H. cbv zeta in H.
  destruct (h1_pay s) as [p|]; step_cases H; apply ok_inj in H; subst s';
    cbn [h1_command set_h1_d set_h1_command set_h1_status set_h1_flags set_h1_flags2 set_h1_pid_high
         set_h1_tid set_h1_pid_low set_h1_uid set_h1_mid set_h1_pay]; assumption.
Qed.

Section NbtPres.
  Variable T : Type.
  Variable t_new : T.
  Variable t_byte : T -> N -> res T.
  Variable Q : T -> Prop.
  Hypothesis Q_new : Q t_new.
  Hypothesis Q_step : forall s b s', b < 256 -> Q s -> t_byte s b = Ok s' -> Q s'.

  Definition q_nb (s : nbt T) : Prop := match nb_pay T s with Some p => Q p | None => True end.

  Lemma nbt_byte_pres s b s' : b < 256 -> q_nb s -> nbt_byte T t_new t_byte s b = Ok s' -> q_nb s'.
  Proof.
    unfold q_nb. intros Hb HQ H. unfold nbt_byte in H.
    destruct (d_st (nb_d T s) =? NB_TYPE); [apply ok_inj in H; subst s'; exact HQ|].
    destruct (d_st (nb_d T s) =? NB_RESERVED); [apply ok_inj in H; subst s'; exact HQ|].
    destruct (d_st (nb_d T s) =? NB_LENGTH).
    { destruct (read_u16 _ _ _ _) as [v d1]. apply ok_inj in H. subst s'. exact HQ. }
    assert (Q (match nb_pay T s with Some p => p | None => t_new end)) as Hp.
    { destruct (nb_pay T s); [exact HQ | exact Q_new]. }
    destruct (t_byte _ b) as [p'|e] eqn:E; cbn [bind] in H; [|discriminate].
    apply ok_inj in H. subst s'. cbn [nb_pay set_nb_pay]. eapply Q_step; eassumption.
  Qed.

  Lemma nbt_fold_pres data s :
    bytes_ok data = true -> fold_res (nbt_byte T t_new t_byte) data (nbt_new T) = Ok s -> q_nb s.
  Proof.
    intros Hd H. apply (fold_res_pres _ q_nb nbt_byte_pres data (nbt_new T) s Hd); [exact I | exact H].
  Qed.
End NbtPres.

Lemma neg1_repl_bytes neg ft n body :
  bytes_ok neg = true -> neg1_repl neg ft n = Some body -> bytes_ok body = true.
Proof.
  intros Hn. unfold neg1_repl. destruct (negb _); [discriminate|].
  intros H. apply some_inj in H. subst body. btac.
Qed.

Lemma setup1_repl_bytes chal s body :
  bytes_ok chal = true -> setup1_repl chal s = Some body -> bytes_ok body = true.
Proof.
  intros Hc. unfold setup1_repl. destruct (negb _); [discriminate|].
  intros H. apply some_inj in H. subst body. btac.
Qed.

Lemma hdr1_repl_bytes neg chal ft s r0 :
  bytes_ok neg = true -> bytes_ok chal = true -> q_h1 s ->
  hdr1_repl neg chal ft s = Some r0 -> bytes_ok r0 = true.
Proof.
  intros Hn Hc HQ. unfold hdr1_repl. destruct (h1_pay s) as [p|]; [|discriminate].
  destruct (pay1_repl neg chal ft p) as [body|] eqn:Eb; [|discriminate].
  assert (bytes_ok body = true) as Hb.
  { destruct p as [n|su]; cbn [pay1_repl] in Eb.
    - exact (neg1_repl_bytes neg ft n body Hn Eb).
    - exact (setup1_repl_bytes chal su body Hc Eb). }
  unfold q_h1 in HQ. intros H. apply some_inj in H. subst r0. unfold SMB1_MAGIC. btac.
Qed.

Lemma nbt_wrap_bytes (r0 : bytes) (h l : N) :
  bytes_ok r0 = true -> bytes_ok ([0; N.land h 255] ++ be16 l ++ r0) = true.
Proof. intros H. pose proof (land_255_lt h). btac. Qed.

Theorem smb1_reply_bytes neg chal ft data r :
  bytes_ok neg = true -> bytes_ok chal = true -> bytes_ok data = true ->
  smb1_repl neg chal ft data = Ok (Some r) -> bytes_ok r = true.
Proof.
  intros Hn Hc Hd. unfold smb1_repl, nbt_run.
  destruct (fold_res _ data _) as [s|p] eqn:Ef; cbn [bind]; [|discriminate].
  pose proof (nbt_fold_pres hdr1 hdr1_new hdr1_byte q_h1 ltac:(unfold q_h1; cbn; lia) hdr1_byte_pres
                            data s Hd Ef) as HQ.
  intros H. apply nbt_repl_some in H. destruct H as (p & r0 & Ep & Er & ->).
  unfold q_nb in HQ. rewrite Ep in HQ.
  apply nbt_wrap_bytes. exact (hdr1_repl_bytes neg chal ft p r0 Hn Hc HQ Er).
Qed.

(* ====================================================================== *)
(* SMB2: the client GUID                                                   *)
(* ====================================================================== *)
Definition q_n2 (s : neg2) : Prop := bytes_ok (n2_client_guid s) = true.
Definition q_p2 (p : pay2) : Prop := match p with P2Neg n => q_n2 n | P2Setup _ => True end.
Definition q_h2 (s : hdr2) : Prop := match h2_pay s with Some p => q_p2 p | None => True end.

Lemma neg2_byte_pres s b s' : b < 256 -> q_n2 s -> neg2_byte s b = Ok s' -> q_n2 s'.
Proof.
  unfold q_n2. intros Hb HQ H. unfold neg2_byte in H. cbv zeta in H.
  step_cases H;
    try (apply ok_inj in H; subst s';
         cbn [n2_client_guid set_n2_d set_n2_tmp set_n2_structure_size set_n2_dialect_count
              set_n2_security_mode set_n2_capabilities set_n2_client_guid set_n2_dialects set_n2_read];
         first [assumption | apply bytes_ok_set_nth; assumption]).
  (* the dialect list branch: a pattern-matching let *)
  all: destruct r as [v d1]; step_cases H; apply ok_inj in H; subst s';
    cbn [n2_client_guid set_n2_d set_n2_tmp set_n2_structure_size set_n2_dialect_count
         set_n2_security_mode set_n2_capabilities set_n2_client_guid set_n2_dialects set_n2_read];
    assumption.
Qed.

Lemma pay2_byte_pres p b p' : b < 256 -> q_p2 p -> pay2_byte p b = Ok p' -> q_p2 p'.
Proof.
  intros Hb HQ H. destruct p as [n|s]; cbn [pay2_byte] in H.
  - destruct (neg2_byte n b) as [n'|e] eqn:E; cbn [bind] in H; [|discriminate].
    apply ok_inj in H. subst p'. cbn [q_p2] in *. eapply neg2_byte_pres; eassumption.
  - destruct (setup2_byte s b) as [s'|e]; cbn [bind] in H; [|discriminate].
    apply ok_inj in H. subst p'. exact I.
Qed.

Lemma q_n2_new : q_n2 neg2_new.
Proof. unfold q_n2, neg2_new. cbn [n2_client_guid]. apply bytes_ok_zeros'. Qed.

Lemma hdr2_payload_byte_pres s b s' : b < 256 -> q_h2 s -> hdr2_payload_byte s b = Ok s' -> q_h2 s'.
Proof.
  unfold q_h2. intros Hb HQ H. unfold hdr2_payload_byte in H.
  destruct (h2_pay s) as [p|] eqn:Ep.
  - destruct (pay2_byte p b) as [p'|e] eqn:E; cbn [bind] in H; [|discriminate].
    apply ok_inj in H. subst s'. cbn [h2_pay set_h2_pay]. eapply pay2_byte_pres; eassumption.
  - destruct (_ =? 1); [apply ok_inj in H; subst s'; rewrite Ep; exact I|].
    destruct (h2_command s =? 0).
    { destruct (pay2_byte (P2Neg neg2_new) b) as [p'|e] eqn:E; cbn [bind] in H; [|discriminate].
      apply ok_inj in H. subst s'. cbn [h2_pay set_h2_pay].
      eapply pay2_byte_pres; [exact Hb | | exact E]. exact q_n2_new. }
    destruct (h2_command s =? 1).
    { destruct (pay2_byte (P2Setup setup2_new) b) as [p'|e] eqn:E; cbn [bind] in H; [|discriminate].
      apply ok_inj in H. subst s'. cbn [h2_pay set_h2_pay].
      eapply pay2_byte_pres; [exact Hb | | exact E]. exact I. }
    apply ok_inj in H. subst s'. rewrite Ep. exact I.
Qed.

Lemma hdr2_byte_pres s b s' : b < 256 -> q_h2 s -> hdr2_byte s b = Ok s' -> q_h2 s'.
Proof.
  intros Hb HQ H. unfold hdr2_byte in H. cbv zeta in H.
  repeat match type of H with
         | (if ?c then _ else hdr2_payload_byte _ _) = _ => destruct c
         | (if ?c then _ else (if _ then _ else _)) = _ => destruct c
         end;
    try (eapply hdr2_payload_byte_pres; eassumption);
    step_cases H; apply ok_inj in H; subst s'; unfold q_h2 in *;
    cbn [h2_pay set_h2_d set_h2_structure_size set_h2_credit_charge set_h2_status set_h2_command
         set_h2_credits_requested set_h2_flags set_h2_next_command set_h2_message_id set_h2_async_id
         set_h2_session_id set_h2_pay]; assumption.
Qed.

Lemma neg2_repl_bytes neg ft n body :
  bytes_ok neg = true -> q_n2 n -> neg2_repl neg ft n = Some body -> bytes_ok body = true.
Proof.
  intros Hn HQ. unfold neg2_repl. destruct (negb _); [discriminate|].
  destruct (neg2_pick _) as [dialect|]; [|discriminate].
  unfold q_n2 in HQ. intros H. apply some_inj in H. subst body. btac.
Qed.

Lemma setup2_repl_bytes chal s body :
  bytes_ok chal = true -> setup2_repl chal s = Some body -> bytes_ok body = true.
Proof.
  intros Hc. unfold setup2_repl. destruct (negb _); [discriminate|].
  intros H. apply some_inj in H. subst body. btac.
Qed.

Lemma hdr2_repl_bytes neg chal ft s r0 :
  bytes_ok neg = true -> bytes_ok chal = true -> q_h2 s ->
  hdr2_repl neg chal ft s = Some r0 -> bytes_ok r0 = true.
Proof.
  intros Hn Hc HQ. unfold hdr2_repl. unfold q_h2 in HQ. destruct (h2_pay s) as [p|]; [|discriminate].
  destruct (pay2_repl neg chal ft p) as [body|] eqn:Eb; [|discriminate].
  assert (bytes_ok body = true) as Hb.
  { destruct p as [n|su]; cbn [pay2_repl q_p2] in *.
    - exact (neg2_repl_bytes neg ft n body Hn HQ Eb).
    - exact (setup2_repl_bytes chal su body Hc Eb). }
  intros H. apply some_inj in H. subst r0. unfold SMB2_MAGIC. btac.
Qed.

Theorem smb2_reply_bytes neg chal ft data r :
  bytes_ok neg = true -> bytes_ok chal = true -> bytes_ok data = true ->
  smb2_repl neg chal ft data = Ok (Some r) -> bytes_ok r = true.
Proof.
  intros Hn Hc Hd. unfold smb2_repl, nbt_run.
  destruct (fold_res _ data _) as [s|p] eqn:Ef; cbn [bind]; [|discriminate].
  pose proof (nbt_fold_pres hdr2 hdr2_new hdr2_byte q_h2 I hdr2_byte_pres data s Hd Ef) as HQ.
  intros H. apply nbt_repl_some in H. destruct H as (p & r0 & Ep & Er & ->).
  unfold q_nb in HQ. rewrite Ep in HQ.
  apply nbt_wrap_bytes. exact (hdr2_repl_bytes neg chal ft p r0 Hn Hc HQ Er).
Qed.
