#!/usr/bin/env python3
"""Writes MANIFEST.json from the table below (kept in one place so it stays valid)."""
import json, os
VERIF = os.path.dirname(os.path.dirname(os.path.abspath(__file__)))

CLAIMED = {
    "C02": dict(
        text=("Coq theorems over the model of reply(), for every configuration, connection table and frame: a frame whose "
              "destination MAC is not authorised (independent reading ref_auth, proved equal to the model's test for all "
              "MACs), whose IP source is denied, or whose EtherType / next protocol is unsupported gets no reply and leaves "
              "the table untouched; with a self-IP list every reply's source address, ARP sender address and advertised "
              "neighbour-discovery target is on the list (decided by independent decoders on the emitted frame). Tied to "
              "/repo by differential execution (MAC grid with every single-bit flip, address scopes, all 256 next "
              "protocols, EtherType grid / all 65536 in thorough) and by evaluating the extracted monitor on real output."),
        design="DESIGN.md section 5, C02",
        note="Trusted: Coq kernel/vm_compute, extraction + OCaml driver, harness; correspondence is testing; pnet accessor semantics modelled.",
        technique="Coq theorem (case analysis over the factorised pipeline) + model/implementation correspondence"),
    "C03": dict(
        text=("Coq theorem over the model of reply(): every emitted frame decodes (independent decoders) to Ethernet source "
              "= configured MAC, destination = requester's MAC, same EtherType, same IP version and transport, IP source = "
              "request's destination (ND: the solicited target), IP destination = request's source, ports swapped, except "
              "that a STUN success response to a request carrying a change-port CHANGE-REQUEST (independent STUN reading) "
              "comes from destination port + 1 mod 2^16; no other responder can produce that exception (per-responder "
              "lemmas; constants via env_ok, re-decided per run). At most one reply per frame is the type of reply(). Tied "
              "to /repo by differential execution over all reply kinds, both IP versions, random addresses/MACs/ports."),
        design="DESIGN.md section 5, C03",
        note=("Trusted: Coq kernel/vm_compute, extraction + OCaml driver, harness; correspondence is testing; pnet accessor "
              "semantics modelled. Two genuine defects found while proving it were repaired in /repo (STUN method decoding, "
              "multiple CHANGE-REQUEST attributes)."),
        technique="Coq theorem (decode-after-encode laws + per-responder port lemmas) + model/implementation correspondence"),
    "C05": dict(
        text=("Coq theorem over the model of reply(): an ARP request (op 1) for a handled IPv4 address gets an Ethernet/IPv4 "
              "ARP reply op 2 with sender = (configured MAC, requested address) and target = requester's pair; a code-0 "
              "Neighbour Solicitation (>= 24 bytes) for a handled target gets a Neighbour Advertisement for that target with "
              "S|O set, R clear and one TLLA option = configured MAC; code-0 Echo Requests (v4/v6) get Echo Replies with "
              "identical rest-of-header and data for every length; every other ARP op, ICMP type and non-zero code gets "
              "nothing. Tied to /repo by differential execution: all ARP ops on a grid, all type/code pairs, payload "
              "lengths 0..1472, NS option layouts."),
        design="DESIGN.md section 5, C05",
        note=("Trusted: Coq kernel/vm_compute, extraction + OCaml driver, harness; correspondence is testing. ARP requests "
              "with a non-IPv4 ptype/hlen/plen are outside the positive clause (the code mirrors those fields)."),
        technique="Coq theorem (structured cases over the factorised pipeline) + model/implementation correspondence"),
    "C06": dict(
        text=("Machine-checked theorems (Coq 8.16.1) over a Gallina model of the whole reply pipeline: for every "
              "configuration, connection table and frame, what reply() emits satisfies the executable C06 "
              "specification (SYN|ACK, ack = seq+1 mod 2^32, empty payload, seq = SipHash-2-4 cookie of the 4-tuple, "
              "iff the flags pass the Linux rule; table untouched); the 512 flag words are decided by kernel "
              "computation. The model is tied to /repo by differential execution (extracted model vs hooked "
              "implementation, all 512 flag words x IPv4/IPv6 x table states) and the specification is evaluated "
              "on the implementation's own output."),
        design="DESIGN.md section 5, C06",
        note=("Trusted: Coq kernel and vm_compute; extraction + OCaml driver; the correspondence is testing "
              "(exhaustive on the flag domain, sampled on addresses/ports/seq); pnet accessor semantics are modelled; "
              "cookie sensitivity (2^-32) is statistical and not proved: proved is identity with SipHash-2-4 over an "
              "injective encoding of exactly the five inputs."),
        technique="Coq theorem over executable model + extracted-model/implementation correspondence + finite flag table by vm_compute"),
    "C07": dict(
        text=("Coq theorems over the model of reply(): (state level, unconditional) for every table and frame, a PSH|ACK "
              "segment is answered iff its flow's cookie is in the table or it acknowledges cookie+1, with exactly one "
              "reply carrying ACK (PSH iff application data), seq = peer ack, ack = peer seq + payload length mod 2^32; "
              "FIN|ACK gets FIN|ACK acking seq+1; bare ACK / RST get nothing. (history level) the same with acceptance "
              "decided by the reference connection model keyed by the 4-tuple, for every history, assuming no cookie "
              "collision among the flows involved. Tied to /repo by differential execution of scripted multi-flow "
              "interleavings; the extracted specification monitors the implementation's replies."),
        design="DESIGN.md section 5, C07",
        note=("Trusted: Coq kernel/vm_compute, extraction + OCaml driver, harness; correspondence is testing; pnet accessor "
              "semantics modelled. The history-level theorem carries the hypothesis no_collision (C08 known finding: the "
              "table is keyed by the 32-bit cookie). env_ok (non-empty reply constants, table sanity) is re-proved per run."),
        technique="Coq theorems (state-level + refinement to 4-tuple reference model) + model/implementation correspondence"),
    "C08": dict(
        text=("Coq theorems over the model of reply(): for every history h and TCP frame f, the outcome of f after h equals "
              "its outcome after h restricted to the data segments of f's own flow, provided no data segment of another "
              "flow in h has the same 32-bit SYN cookie (boolean class predicate collision_free, extracted and used by the "
              "check); for every frame that is not a TCP segment in scope the outcome does not depend on the table at all. "
              "Inside the collision class the property is refuted by a kernel-computed witness (known finding). Tied to "
              "/repo metamorphically: the implementation answers each probe after the full and after the restricted "
              "history (restriction computed by the extracted specification) and the two replies are compared, and "
              "model and implementation are compared on both."),
        design="DESIGN.md section 5, C08",
        note=("Trusted: Coq kernel/vm_compute, extraction + OCaml driver, harness; correspondence is testing; pnet accessor "
              "semantics modelled. Known finding (collision class) listed in known_findings.txt; 'accepted data segments' "
              "is widened to 'data segments of the same flow' (rejected ones do not change state: C09)."),
        technique="Coq locality/refinement theorem over histories + refutation witness for the known class + metamorphic model/implementation correspondence"),
    "C09": dict(
        text=("Coq theorems by induction over arbitrary frame histories: the key set of the connection table equals the set "
              "of cookies of flows that sent a PSH|ACK acknowledging cookie+1, keys are duplicate-free, the table size "
              "equals the specification's count, frames that do not validate a flow never add a key and frames that are "
              "not accepted data segments leave the table syntactically unchanged. Tied to /repo by comparing the "
              "implementation's table size (hook verif_len) after every frame of mixed histories with the model and "
              "with the specification's expected size."),
        design="DESIGN.md section 5, C09",
        note=("Trusted: Coq kernel, extraction + OCaml driver, harness, hook tcb::verif_len; correspondence is testing. "
              "'Distinct flows' are counted as distinct cookies (they differ from 4-tuples only on a SipHash collision, C08)."),
        technique="Coq invariant by induction over histories + table-size correspondence through a hook"),
    "C19": dict(
        text=("Coq theorems over the model's application layer: for every datagram payload, and for every first TCP data "
              "segment, the reply is render(core, context) where the core (silent / constant bytes / STUN transaction id + "
              "shift flag / parsed RPC call / parsed DNS query) is computed by functions with NO address, port or IP-version "
              "argument, and render lets the context enter only through STUN MAPPED-ADDRESS (+ derived lengths), successful "
              "portmapper GETPORT/GETADDR/DUMP results (+ record-mark length) and DNS answer RDLENGTH/RDATA; whether a "
              "payload is answered never depends on the context; HTTP/SSH/Gh0st/SMB replies are identical bytes in every "
              "context; the reply port is the contacted port (+1 only for STUN change-port). Tied to /repo "
              "metamorphically: the implementation answers the same payload over dozens of port pairs x IPv4/IPv6 x "
              "address pairs and the independently masked replies must coincide; each reply is also compared with the model."),
        design="DESIGN.md section 5, C19",
        note=("Trusted: Coq kernel, extraction + OCaml driver, harness incl. the Python masks; correspondence is testing. "
              "Wall-clock fields (HTTP Date, SMB FILETIME) are inputs of the model (clock record) and masked in comparisons. "
              "Later TCP segments of a flow are covered through the per-flow parser state by C08/C11, not here."),
        technique="Coq factorisation theorem (context-free core + explicit rendering) + metamorphic model/implementation correspondence"),
}

ALL = ["C%02d" % i for i in range(1, 21)]
PENDING_REASON = "not claimed yet: model/theorems for this property are still under construction in this round (see DESIGN.md section 9)"


def main():
    checks = []
    for pid in ALL:
        if pid in CLAIMED:
            c = CLAIMED[pid]
            checks.append({
                "property_id": pid,
                "quick_cmd": "./check %s --quick" % pid,
                "thorough_cmd": "./check %s --thorough" % pid,
                "evidence_file": "/verif/evidence/%s.json" % pid,
                "replay_cmd_template": "./check %s --quick --replay {path}" % pid,
                "engine": "coq-model",
                "level_claimed": {"category": "proof", "text": c["text"], "design_ref": c["design"]},
                "level_note": c["note"],
                "technique": c["technique"],
            })
    m = {
        "version": 1,
        "setup_cmd": "./setup.sh",
        "hooks": {
            "guard": "cargo feature `verif`",
            "enable": "cargo build --offline --features verif --target-dir /verif/.cache/target (MASSCANNED_VERIF=1 selects the line-protocol driver at run time)",
            "baseline_off_cmd": "cd /repo && cargo test --workspace --no-fail-fast --offline",
            "source_commits": ["verif hooks: cargo feature 'verif' with line-protocol driver, table dump, TCB table accessors"],
            "add_only": True,
        },
        "engines": [{
            "name": "coq-model", "path": "/verif/coq",
            "serves_properties": sorted(CLAIMED),
            "kind_free_text": ("hand-written Gallina model of masscanned's reply() pipeline with theorems per property; "
                               "tables/constants regenerated from /repo on every run; extracted to OCaml and compared with "
                               "the hooked implementation (harness/*.py)"),
        }],
        "checks": checks,
        "not_applicable": [{"property_id": p, "reason": PENDING_REASON} for p in ALL if p not in CLAIMED],
        "notes": "All checks are `./check <id> --quick|--thorough` (harness/check.py); known findings in known_findings.txt.",
    }
    with open(os.path.join(VERIF, "MANIFEST.json"), "w") as f:
        json.dump(m, f, indent=1)


if __name__ == "__main__":
    main()
