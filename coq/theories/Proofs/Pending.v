(* Proofs/Pending.v -- elementary facts on the per-flow prefix buffer ([t_pending]) and
   on [tcp_identify], the first part of the TCP branch of proto::repl. *)
From MS Require Import Proofs.Tactics Proto Spec.Pending.

(* the buffer after the first data segment of a flow *)
Definition pending_first (id : option N) (data : bytes) : bytes :=
  match id with
  | None => if lenN data <=? PENDING_MAX then data else []
  | Some _ => []
  end.

Lemma join_pending (p data : bytes) :
  match p with [] => data | _ :: _ => p ++ data end = p ++ data.
Proof. destruct p; reflexivity. Qed.

(* a flow that is identified keeps its identification: the handler gets the segment *)
Lemma tcp_identify_sticky E tc data :
  t_proto tc <> PROTO_NONE -> tcp_identify E tc data = (tc, data).
Proof.
  intros H. unfold tcp_identify. destruct (t_proto tc =? PROTO_NONE) eqn:He; [|reflexivity].
  apply N.eqb_eq in He. contradiction.
Qed.

(* the general shape: the handler is given the segment, preceded by the kept bytes
   exactly when this segment completes a signature *)
Lemma tcp_identify_none E tc data st n :
  t_proto tc = PROTO_NONE ->
  search_next (e_proto_tbl E) (t_smack tc) data = (None, st, n) ->
  tcp_identify E tc data =
  ({| t_smack := st; t_proto := NO_MATCH; t_pstate := t_pstate tc;
      t_pending := if lenN (t_pending tc) + lenN data <=? PENDING_MAX
                   then t_pending tc ++ data else [] |}, data).
Proof.
  intros Hp H. unfold tcp_identify. rewrite Hp. change (PROTO_NONE =? PROTO_NONE) with true. cbv iota.
  rewrite H. reflexivity.
Qed.

Lemma tcp_identify_some E tc data i st n :
  t_proto tc = PROTO_NONE ->
  search_next (e_proto_tbl E) (t_smack tc) data = (Some i, st, n) ->
  tcp_identify E tc data =
  ({| t_smack := st; t_proto := i; t_pstate := t_pstate tc; t_pending := [] |}, t_pending tc ++ data).
Proof.
  intros Hp H. unfold tcp_identify. rewrite Hp. change (PROTO_NONE =? PROTO_NONE) with true. cbv iota.
  rewrite H, join_pending. reflexivity.
Qed.

(* what the handler is given is the segment, or the kept bytes followed by the segment *)
Lemma tcp_identify_data E tc data :
  snd (tcp_identify E tc data) = data \/ snd (tcp_identify E tc data) = t_pending tc ++ data.
Proof.
  unfold tcp_identify. destruct (t_proto tc =? PROTO_NONE); [|left; reflexivity].
  destruct (search_next _ _ data) as [[[i|] st] n]; cbn [snd]; [|left; reflexivity].
  right. apply join_pending.
Qed.

Lemma tcp_identify_data_empty E tc data :
  t_pending tc = [] -> snd (tcp_identify E tc data) = data.
Proof.
  intros Hp. destruct (tcp_identify_data E tc data) as [H|H]; rewrite H; [reflexivity|].
  rewrite Hp. reflexivity.
Qed.

Lemma tcp_identify_data_ok E tc data :
  bytes_ok (t_pending tc) = true -> bytes_ok data = true ->
  bytes_ok (snd (tcp_identify E tc data)) = true.
Proof.
  intros Hp Hd. destruct (tcp_identify_data E tc data) as [H|H]; rewrite H; [exact Hd|].
  rewrite bytes_ok_app, Hp, Hd. reflexivity.
Qed.

(* the kept bytes stay bytes, and stay within the bound *)
Lemma tcp_identify_pending_ok E tc data :
  bytes_ok (t_pending tc) = true -> bytes_ok data = true ->
  bytes_ok (t_pending (fst (tcp_identify E tc data))) = true.
Proof.
  intros Hp Hd. unfold tcp_identify. destruct (t_proto tc =? PROTO_NONE); [|exact Hp].
  destruct (search_next _ _ data) as [[[i|] st] n]; cbn [fst t_pending]; [reflexivity|].
  destruct (_ <=? _); [|reflexivity]. rewrite bytes_ok_app, Hp, Hd. reflexivity.
Qed.

Lemma tcp_identify_pending_bound E tc data :
  lenN (t_pending tc) <= PENDING_MAX ->
  lenN (t_pending (fst (tcp_identify E tc data))) <= PENDING_MAX.
Proof.
  intros Hp. unfold tcp_identify. destruct (t_proto tc =? PROTO_NONE); [|exact Hp].
  destruct (search_next _ _ data) as [[[i|] st] n]; cbn [fst t_pending]; [unfold PENDING_MAX, lenN; cbn; lia|].
  destruct (_ <=? _) eqn:Hl; [|unfold PENDING_MAX, lenN; cbn; lia].
  apply N.leb_le in Hl. unfold lenN in *. rewrite app_length. lia.
Qed.

(* the handlers leave the buffer alone *)
Lemma dispatch_pending E clk ci id tc data ci' tc' out :
  dispatch E clk ci id (Some tc) data = Ok (ci', Some tc', out) -> t_pending tc' = t_pending tc.
Proof.
  unfold dispatch.
  destruct (id =? PROTO_HTTP).
  { destruct (match t_pstate tc with None => _ | Some _ => _ end) as [h|s]; [|discriminate].
    destruct (http_repl _ _ _ _ h data) as [[h' r]|s]; cbn [bind]; [|discriminate].
    intros H. inversion H. reflexivity. }
  destruct (id =? PROTO_STUN).
  { destruct (stun_repl ci data). intros H. inversion H. reflexivity. }
  destruct (id =? PROTO_SSH); [intros H; inversion H; reflexivity|].
  destruct (id =? PROTO_GHOST); [intros H; inversion H; reflexivity|].
  destruct (id =? PROTO_RPC_TCP).
  { destruct (ci_ip_dst ci); [|intros H; inversion H; reflexivity].
    destruct (ci_port_dst ci); [|intros H; inversion H; reflexivity].
    destruct (match t_pstate tc with None => _ | Some _ => _ end) as [r0|s]; [|discriminate].
    destruct (rpc_repl_tcp r0 _ _ data). intros H. inversion H. reflexivity. }
  destruct (id =? PROTO_RPC_UDP).
  { destruct (ci_ip_dst ci); [|intros H; inversion H; reflexivity].
    destruct (ci_port_dst ci); intros H; inversion H; reflexivity. }
  destruct (id =? PROTO_SMB1).
  { destruct (smb1_repl _ _ _ data); cbn [bind]; [|discriminate]. intros H; inversion H; reflexivity. }
  destruct (id =? PROTO_SMB2).
  { destruct (smb2_repl _ _ _ data); cbn [bind]; [|discriminate]. intros H; inversion H; reflexivity. }
  intros H. inversion H. reflexivity.
Qed.

(* the first data segment of a flow: the buffer is empty, the handler gets the segment *)
Lemma proto_repl_tcp_first E clk ci data :
  proto_repl_tcp E clk ci tcb_new data =
  let '(id, st, _) := search_next (e_proto_tbl E) BASE_STATE data in
  let tc1 := {| t_smack := st; t_proto := id_of id; t_pstate := None;
                t_pending := pending_first id data |} in
  do r <- dispatch E clk ci (t_proto tc1) (Some tc1) data;
  let '(ci', t', out) := r in
  Ok (ci', match t' with Some x => x | None => tc1 end, out).
Proof.
  unfold proto_repl_tcp, tcp_identify. cbn [t_proto tcb_new t_smack t_pstate t_pending].
  change (PROTO_NONE =? PROTO_NONE) with true. cbv iota.
  destruct (search_next (e_proto_tbl E) BASE_STATE data) as [[[i|] st] n]; reflexivity.
Qed.

(* ---------- the invariant [pending_ok] ---------- *)
Lemma pending_ok_new : pending_ok tcb_new.
Proof. split; [reflexivity|]. unfold PENDING_MAX, lenN. cbn. lia. Qed.

Lemma tcp_identify_pending E tc data :
  pending_ok tc -> bytes_ok data = true -> pending_ok (fst (tcp_identify E tc data)).
Proof.
  intros [Hb Hl] Hd. split; [apply tcp_identify_pending_ok; assumption|apply tcp_identify_pending_bound; exact Hl].
Qed.

Lemma proto_repl_tcp_pending E clk ci tc data ci' tc' out :
  pending_ok tc -> bytes_ok data = true ->
  proto_repl_tcp E clk ci tc data = Ok (ci', tc', out) -> pending_ok tc'.
Proof.
  intros Hp Hd. unfold proto_repl_tcp.
  pose proof (tcp_identify_pending E tc data Hp Hd) as H1.
  destruct (tcp_identify E tc data) as [tc1 data1]. cbn [fst] in H1.
  destruct (dispatch E clk ci (t_proto tc1) (Some tc1) data1) as [[[c2 [t2|]] o]|s] eqn:Hd1; cbn [bind]; try discriminate.
  - intros H. inversion H; subst. unfold pending_ok. rewrite (dispatch_pending _ _ _ _ _ _ _ _ _ Hd1). exact H1.
  - intros H. inversion H; subst. exact H1.
Qed.

(* what the handler is given, under the invariant: octets, at most PENDING_MAX more than the segment *)
Lemma tcp_identify_data_bound E tc data :
  pending_ok tc -> bytes_ok data = true ->
  bytes_ok (snd (tcp_identify E tc data)) = true /\
  (length (snd (tcp_identify E tc data)) <= 64 + length data)%nat.
Proof.
  intros [Hb Hl] Hd. split; [apply tcp_identify_data_ok; assumption|].
  destruct (tcp_identify_data E tc data) as [H|H]; rewrite H; [lia|].
  rewrite app_length. unfold PENDING_MAX, lenN in Hl. lia.
Qed.

Lemma table_pending_find tb k :
  table_pending_ok tb -> pending_ok (match tbl_find k tb with Some t => t | None => tcb_new end).
Proof.
  intros H. destruct (tbl_find k tb) as [t|] eqn:Hf; [exact (H k t Hf)|exact pending_ok_new].
Qed.
