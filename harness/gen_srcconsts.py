"""Data translator, part 3: constants read from /repo's SOURCE TEXT (not through a hook) -> coq/gen/SrcConsts.v.
Only plain items are translated: integer constants, byte-string constants, arrays of string literals.
The generated file is pure data; Properties/SrcTie.v proves that the model / specifications use the same values."""
import os, re
from common import *

FILES = ["src/proto/mod.rs", "src/proto/http.rs", "src/proto/ssh.rs", "src/proto/ghost.rs", "src/proto/stun.rs",
         "src/proto/rpc.rs", "src/proto/smb.rs", "src/smack/smack_constants.rs"]

INT_RE = re.compile(r'^\s*(?:pub(?:\([a-z]+\))?\s+)?const\s+([A-Z_][A-Z0-9_]*)\s*:\s*(usize|u8|u16|u32|u64)\s*=\s*([0-9][0-9a-fA-FxXob_]*)\s*;', re.M)
BYTES_RE = re.compile(r'^\s*(?:pub(?:\([a-z]+\))?\s+)?const\s+([A-Z_][A-Z0-9_]*)\s*:\s*&\[u8(?:;\s*\d+)?\]\s*=\s*b"((?:[^"\\]|\\.|\\\n)*)"\s*;', re.M | re.S)
STRS_RE = re.compile(r'^\s*(?:pub(?:\([a-z]+\))?\s+)?const\s+([A-Z_][A-Z0-9_]*)\s*:\s*\[&str;\s*\d+\]\s*=\s*\[([^\]]*)\]\s*;', re.M | re.S)


def rust_bytes(lit):
    out, i = bytearray(), 0
    simple = {"n": 10, "r": 13, "t": 9, "\\": 92, "0": 0, '"': 34, "'": 39}
    while i < len(lit):
        c = lit[i]
        if c != "\\":
            out.append(ord(c))
            i += 1
        elif lit[i + 1] == "x":
            out.append(int(lit[i + 2:i + 4], 16))
            i += 4
        elif lit[i + 1] in simple:
            out.append(simple[lit[i + 1]])
            i += 2
        elif lit[i + 1] == "\n":
            i += 2
            while i < len(lit) and lit[i] in " \t\r\n":
                i += 1
        else:
            raise ValueError("unknown escape")
    return bytes(out)


def rust_int(s):
    s = s.replace("_", "")
    if s[:2] in ("0x", "0X"):
        return int(s[2:], 16)
    if s[:2] == "0b":
        return int(s[2:], 2)
    if s[:2] == "0o":
        return int(s[2:], 8)
    return int(s)


def strip_tests(src):
    i = src.find("#[cfg(test)]")
    return src if i < 0 else src[:i]


def collect(repo=None):
    repo = repo or REPO
    items = []       # (coq name, kind, value)
    for f in FILES:
        path = os.path.join(repo, f)
        if not os.path.exists(path):
            continue
        src = strip_tests(open(path, encoding="utf-8").read())
        mod = f[len("src/"):-3].replace("/", "_")
        for m in INT_RE.finditer(src):
            items.append(("%s__%s" % (mod, m.group(1)), "N", rust_int(m.group(3))))
        for m in BYTES_RE.finditer(src):
            try:
                items.append(("%s__%s" % (mod, m.group(1)), "bytes", rust_bytes(m.group(2))))
            except (ValueError, IndexError):
                pass
        for m in STRS_RE.finditer(src):
            strs = re.findall(r'"((?:[^"\\]|\\.)*)"', m.group(2))
            items.append(("%s__%s" % (mod, m.group(1)), "strs", [rust_bytes(x) for x in strs]))
    return items


def coq_bytes(b):
    return "[" + "; ".join(str(x) for x in b) + "]"


def generate(repo=None):
    items = collect(repo)
    src = "(* GENERATED from the source text of /repo (harness/gen_srcconsts.py) on every run; do not edit. *)\n"
    src += "From MS Require Import Bytes.\nOpen Scope N_scope.\n\n"
    seen = set()
    for name, kind, v in items:
        if name in seen:
            continue
        seen.add(name)
        if kind == "N":
            src += "Definition %s : N := %d.\n" % (name, v)
        elif kind == "bytes":
            src += "Definition %s : bytes := %s.\n" % (name, coq_bytes(v))
        else:
            src += "Definition %s : list bytes := [%s].\n" % (name, "; ".join(coq_bytes(x) for x in v))
    changed = write_if_changed(os.path.join(GEN, "SrcConsts.v"), src)
    return items, changed


if __name__ == "__main__":
    it, ch = generate()
    for n, k, v in it:
        print(n, k, v if k == "N" else len(v))
    print("changed" if ch else "unchanged")
