"""C20 -- the event log is a faithful, balanced account of every frame.

The implementation is run with the REAL ConsoleLogger / LogfmtLogger attached; the bytes it
writes between two frame markers are cut into lines, every line is parsed by a strict parser
(exact column count / exact key order per layer) into a canonical event, and
  (a) the canonical event list is compared with the event list of the extracted model
      (correspondence on the projection "event list"),
  (b) the extracted monitor ok_C20 judges the implementation's event list (passed to the
      model runner as ev=...), and
  (c) the extracted renderers of Log.v re-render every parsed event with the timestamp the
      implementation printed; the result must be byte-identical to the real line."""
import os, re, glob, subprocess, ipaddress, struct
from concurrent.futures import ThreadPoolExecutor
import net, gens, runner, build
from common import *
from runner import Script, Cfg

ID = "C20"
THEOREMS = ["C20_event_log_balanced_and_faithful", "C20_reply_events_factor", "C20_console_line_one_newline",
            "C20_logfmt_line_one_newline", "C20_field_renderers_newline_free"]
MONITORS = ["C20"]
RULE = ("one script per early return / drop reason of every layer: truncations of every frame kind at every length 0..60 "
        "(and at every length of the longer ones), foreign / broadcast / multicast destination MACs, every EtherType pnet "
        "names plus unnamed ones, ARP operations 0..4 and 0xffff / foreign target / short, IPv4 and IPv6 with foreign "
        "destination under a self-IP list, denied source, all 256 next-protocol values, short transport headers, IHL / total "
        "length lies, all 256 ICMP and ICMPv6 types with codes 0, 1, 255, NS for listed / unlisted / truncated targets, all "
        "512 TCP flag words, data segments with right and wrong ack on fresh and validated flows, UDP with every "
        "application seed incl. STUN change-port (also over TCP), both IP versions, the four gens.cfgs() configurations, "
        "both loggers; non-trivial = frame of at least 14 bytes; distinct = distinct (configuration, frame list)")
TRUSTED = ["Coq 8.16.1 kernel + vm_compute", "extraction (ExtrOcamlBasic) + ocaml/model_run.ml",
           "harness/*.py (strict log-line parsers, generators, comparison)", "Rust hook verif_driver.rs (frame markers)",
           "pnet accessor semantics as modelled in L2.v/L3.v/L4.v",
           "Rust's Display/Debug of MacAddr, IpAddr, integers and pnet's name tables agree with Log.v/Text.v "
           "(validated: every real line is re-rendered byte-for-byte by the extracted renderers)"]
ASSUMPTIONS = ["frames on which reply() panics are out of scope (C01); none occurs in the generated cases",
               "EtherTypes / next protocols without a pnet name all print as 'unknown' and are compared as one class"]

# ---------------------------------------------------------------- name tables (parsed from the pnet sources)
def _pnet_src(name):
    c = sorted(glob.glob(os.path.expanduser("~/.cargo/registry/src/*/pnet_packet-0.33.0/src/" + name)))
    if not c:
        raise RuntimeError("pnet_packet-0.33.0 sources not found")
    return open(c[0]).read()


def _tables():
    src = _pnet_src("ethernet.rs")
    consts = {m.group(1): int(m.group(2), 16) for m in
              re.finditer(r"pub const (\w+): EtherType = EtherType\((0x[0-9a-fA-F]+)\);", src)}
    ety = {}
    for c, n in re.findall(r'&EtherTypes::(\w+) => "([^"]*)"', src):
        assert n not in ety and n != "unknown"
        ety[n] = consts[c]
    src = _pnet_src("ip.rs")
    consts = {m.group(1): int(m.group(2)) for m in
              re.finditer(r"pub const (\w+): IpNextHeaderProtocol = IpNextHeaderProtocol\((\d+)\);", src)}
    ip = {}
    for c, n in re.findall(r'&IpNextHeaderProtocols::(\w+) => "([^"]*)"', src):
        assert n not in ip and n != "unknown"
        ip[n] = consts[c]
    assert len(set(ety.values())) == len(ety) and len(set(ip.values())) == len(ip)
    return ety, ip


ETY_NAMES, IP_NAMES = _tables()
ETY_NUMS, IP_NUMS = set(ETY_NAMES.values()), set(IP_NAMES.values())
UNKNOWN_ETY, UNKNOWN_PROTO = 65536, 256     # the class of everything that prints as "unknown" (Spec/C20.v)


def ety_class(n):
    return n if n in ETY_NUMS else UNKNOWN_ETY


def proto_class(n):
    return n if n in IP_NUMS else UNKNOWN_PROTO


# ---------------------------------------------------------------- strict parsers of the real log lines
class LineError(Exception):
    pass


LAYERS = ("arp", "eth", "ipv4", "ipv6", "icmpv4", "icmpv6", "tcp", "udp")
VERBS = ("recv", "send", "drop")
MAC_RE = re.compile(r"^[0-9a-f]{2}(:[0-9a-f]{2}){5}$")
TS_RE = re.compile(r"^(0|[1-9][0-9]*)\.(0|[1-9][0-9]{0,2})$")
NUM_RE = re.compile(r"^(0|[1-9][0-9]*)$")
EXTRA_KEYS = {"eth": ("eth_type",), "ipv4": ("next_proto",), "ipv6": ("next_proto",),
              "icmpv4": ("icmp_type", "icmp_code"), "icmpv6": ("icmpv6_type", "icmpv6_code"),
              "tcp": ("flags", "seq", "ack"), "udp": (), "arp": ("op",)}
DEBUG_WRAP = {"icmp_type": "IcmpType", "icmp_code": "IcmpCode", "icmpv6_type": "Icmpv6Type",
              "icmpv6_code": "Icmpv6Code", "op": "ArpOperation"}
CI_KEYS = ("mac_src", "mac_dst", "ip_src", "ip_dst", "transport", "port_src", "port_dst")


def p_mac(s):
    if not MAC_RE.match(s):
        raise LineError("bad MAC %r" % s)
    return s.replace(":", "")


def p_ip(s):
    try:
        a = ipaddress.ip_address(s)
    except ValueError:
        raise LineError("bad IP %r" % s)
    return a.packed.hex()


def p_num(s, bound):
    if not NUM_RE.match(s) or int(s) >= bound:
        raise LineError("bad number %r" % s)
    return int(s)


def p_name(s, table, unknown):
    if s == "unknown":
        return unknown
    if s not in table:
        raise LineError("unknown name %r" % s)
    return table[s]


def p_extra(key, s):
    if key == "eth_type":
        return p_name(s, ETY_NAMES, UNKNOWN_ETY)
    if key == "next_proto":
        return p_name(s, IP_NAMES, UNKNOWN_PROTO)
    if key in DEBUG_WRAP:
        w = DEBUG_WRAP[key]
        if not (s.startswith(w + "(") and s.endswith(")")):
            raise LineError("bad %s %r" % (key, s))
        return p_num(s[len(w) + 1:-1], 65536 if key == "op" else 256)
    if key == "flags":
        return p_num(s, 65536)
    return p_num(s, 1 << 32)


def p_ci(key, s):
    if key in ("mac_src", "mac_dst"):
        return p_mac(s)
    if key in ("ip_src", "ip_dst"):
        return p_ip(s)
    if key == "transport":
        return p_name(s, IP_NAMES, UNKNOWN_PROTO)
    return p_num(s, 65536)


def mk_event(layer, verb, ci, extras):
    """canonical event: (layer, verb, mac_src, mac_dst, ip_src, ip_dst, transport, port_src, port_dst, extras)"""
    return (layer, verb) + tuple(ci) + (tuple(extras),)


def parse_console(line):
    """-> (timestamp text, canonical event). Raises LineError on anything unexpected."""
    cols = line.split("\t")
    if len(cols) < 3:
        raise LineError("too few columns")
    ts, layer, verb = cols[0], cols[1], cols[2]
    if not TS_RE.match(ts) or layer not in LAYERS or verb not in VERBS:
        raise LineError("bad prolog %r" % cols[:3])
    rest = cols[3:]
    if layer == "arp":
        if len(rest) != 5:
            raise LineError("arp: %d columns" % len(rest))
        if not re.match(r"^\d+\.\d+\.\d+\.\d+$", rest[2]) or not re.match(r"^\d+\.\d+\.\d+\.\d+$", rest[3]):
            raise LineError("arp: not an IPv4 address")
        return ts, mk_event(layer, verb, (p_mac(rest[0]), p_mac(rest[1]), p_ip(rest[2]), p_ip(rest[3]), None, None, None),
                            (p_extra("op", rest[4]),))
    keys = EXTRA_KEYS[layer]
    want = 7 + max(1, len(keys))        # udp: println!("") after the trailing TAB of the client columns
    if len(rest) != want:
        raise LineError("%s: %d columns instead of %d" % (layer, len(rest), want))
    ci = [None if rest[i] == "" else p_ci(CI_KEYS[i], rest[i]) for i in range(7)]
    if not keys:
        if rest[7] != "":
            raise LineError("udp: trailing text")
        return ts, mk_event(layer, verb, ci, ())
    return ts, mk_event(layer, verb, ci, [p_extra(k, v) for k, v in zip(keys, rest[7:])])


def parse_logfmt(line):
    m = re.match(r"^ts=(\S+) proto=(\S+) verb=(\S+) (.*)$", line)
    if not m:
        raise LineError("bad prolog")
    ts, layer, verb, rest = m.groups()
    if not TS_RE.match(ts) or layer not in LAYERS or verb not in VERBS:
        raise LineError("bad prolog")
    # the remainder is a sequence of " key=value" items (values without blanks)
    items = []
    while rest:
        m = re.match(r"^ ([a-z0-9_]+)=(\S*)", rest)
        if not m:
            raise LineError("stray text %r" % rest)
        items.append((m.group(1), m.group(2)))
        rest = rest[m.end():]
    if layer == "arp":
        order = ("mac_dst", "mac_src", "ip_dst", "ip_src", "op") if verb == "send" else ("mac_src", "mac_dst", "ip_src", "ip_dst", "op")
        if tuple(k for k, _ in items) != order:
            raise LineError("arp: key order %r" % [k for k, _ in items])
        v = [x for _, x in items]
        if ":" in v[2] or ":" in v[3]:
            raise LineError("arp: not an IPv4 address")
        # by position, as on the console: (target|sender) hw, (sender|target) hw, ...
        return ts, mk_event(layer, verb, (p_mac(v[0]), p_mac(v[1]), p_ip(v[2]), p_ip(v[3]), None, None, None), (p_extra("op", v[4]),))
    keys = EXTRA_KEYS[layer]
    n_ci = len(items) - len(keys)
    if n_ci < 0 or tuple(k for k, _ in items[n_ci:]) != keys:
        raise LineError("%s: trailing keys %r" % (layer, [k for k, _ in items]))
    ci = {}
    last = -1
    for k, v in items[:n_ci]:
        if k not in CI_KEYS or CI_KEYS.index(k) <= last:
            raise LineError("%s: key %r out of order" % (layer, k))
        last = CI_KEYS.index(k)
        ci[k] = p_ci(k, v)
    return ts, mk_event(layer, verb, [ci.get(k) for k in CI_KEYS], [p_extra(k, v) for k, v in zip(keys, (x for _, x in items[n_ci:]))])


PARSERS = {"console": parse_console, "logfmt": parse_logfmt}


def parse_block(logger, block):
    """The bytes the logger wrote for one frame -> (events, timestamps, problems).
    'One syntactically complete line per event': the block is a sequence of lines, each ended by
    exactly one newline (no text after the last newline, no empty line) and each parsing strictly."""
    if block == b"":
        return [], [], []
    problems = []
    if not block.endswith(b"\n"):
        problems.append("log output does not end with a newline: %r" % block[-60:])
        body = block
    else:
        body = block[:-1]
    evs, tss = [], []
    for raw in body.split(b"\n"):
        try:
            line = raw.decode("ascii")
            ts, ev = PARSERS[logger](line)
            evs.append(ev)
            tss.append(ts)
        except (LineError, UnicodeDecodeError) as e:
            problems.append("unparsable %s line %r: %s" % (logger, raw[:200], e))
    return evs, tss, problems


# ---------------------------------------------------------------- the model's E lines in the same canonical form
def canon_model_event(line):
    w = line.split("|")
    a = w[0].split()
    layer, verb = a[0], a[1]
    opt = lambda s: None if s == "-" else s
    num = lambda s: None if s == "-" else int(s)
    extras = [int(x) for x in w[1].split()]
    tr = num(a[6])
    if layer in ("eth",):
        extras = [ety_class(extras[0])]
    elif layer in ("ipv4", "ipv6"):
        extras = [proto_class(extras[0])]
    return mk_event(layer, verb, (opt(a[2]), opt(a[3]), opt(a[4]), opt(a[5]),
                                  None if tr is None else proto_class(tr), num(a[7]), num(a[8])), extras)


def encode_events(evs):
    """ev=<...> argument of the model runner's F line: ';'-separated events, ','-separated fields, '-' = absent,
    extras '/'-separated. '.' stands for the empty list."""
    if not evs:
        return "."
    out = []
    for e in evs:
        f = [e[0], e[1]] + ["-" if x is None else str(x) for x in e[2:9]] + ["/".join(str(x) for x in e[9]) or "-"]
        out.append(",".join(f))
    return ";".join(out)


# ---------------------------------------------------------------- runners
class Out:
    __slots__ = ("kind", "reply", "panic", "tsize", "block", "events", "ts", "problems", "monitors", "model_events", "rendered")

    def __init__(self):
        self.kind, self.reply, self.panic, self.tsize, self.block = "?", None, "", None, b""
        self.events, self.ts, self.problems, self.monitors, self.model_events, self.rendered = [], [], [], {}, [], []

    def short(self):
        return self.kind + ("" if self.reply is None else " " + self.reply.hex())


def run_impl_raw(scripts, driver):
    """Like runner.run_impl, but keeps the logger's bytes exactly as written."""
    env = dict(os.environ, MASSCANNED_VERIF="1")

    def work(chunk):
        lines = []
        for s in chunk:
            lines.append(s.cfg.impl_line())
            lines.append("RESET")
            for f in s.frames:
                lines.append("F " + f.hex())
        p = subprocess.run([driver], input=("\n".join(lines) + "\n").encode(), stdout=subprocess.PIPE,
                           stderr=subprocess.DEVNULL, env=env)
        segs = p.stdout.split(b"@@END\n")
        res, k = [], 0
        for s in chunk:
            outs = []
            for fi in range(len(s.frames)):
                o = Out()
                seg = segs[k] if k < len(segs) else b""
                k += 1
                if fi == 0:
                    if not seg.startswith(b"@@OK\n@@OK\n"):
                        o.problems.append("driver protocol error")
                    seg = seg[len(b"@@OK\n@@OK\n"):]
                # the driver prints "\n@@R ...", "\n@@N" or "\n@@P ..." right after reply() returned
                i = seg.find(b"\n@@")
                if i < 0:
                    o.problems.append("driver protocol error: no result marker")
                    outs.append(o)
                    continue
                o.block = seg[:i]
                for line in seg[i + 1:].decode("ascii", "replace").split("\n"):
                    if line.startswith("@@R "):
                        o.kind, o.reply = "R", bytes.fromhex(line[4:])
                    elif line == "@@N":
                        o.kind = "N"
                    elif line.startswith("@@P"):
                        o.kind, o.panic = "P", line[4:]
                    elif line.startswith("@@T "):
                        o.tsize = int(line[4:])
                    elif line:
                        o.problems.append("stray text after the result marker: %r" % line[:80])
                if s.cfg.logger in PARSERS:
                    o.events, o.ts, pr = parse_block(s.cfg.logger, o.block)
                    o.problems += pr
                elif o.block:
                    o.problems.append("output without a logger: %r" % o.block[:80])
                outs.append(o)
            res.append(outs)
        return res

    with ThreadPoolExecutor(runner.NPROC) as ex:
        parts = list(ex.map(work, runner._chunks(scripts, runner.NPROC)))
    return [r for p in parts for r in p]


def run_model_ev(scripts, impl_outs, ovf=True):
    """Model run; the implementation's parsed events are handed to the monitor (ev=) and re-rendered (LOG)."""
    def work(args):
        chunk, oc = args
        lines = []
        for si, s in enumerate(chunk):
            lines.append(s.cfg.model_line(ovf))
            lines.append("RESET")
            for fi, f in enumerate(s.frames):
                io = oc[si][fi]
                extra = ""
                if io.kind in ("R", "N") and s.cfg.logger in PARSERS and not io.problems:
                    extra = " impl=" + (io.reply.hex() if io.kind == "R" else "N") + " ev=" + encode_events(io.events)
                lines.append("F " + f.hex() + runner.clock_of(io) + extra)
                if s.cfg.logger in PARSERS and not io.problems:
                    for ts, e in zip(io.ts, io.events):
                        lines.append("LOG %s %s %s" % (s.cfg.logger, ts.encode().hex(), encode_events([e])))
        out = runner._run_proc([MODEL_RUN, build.ENVFILE, "C20"], "\n".join(lines) + "\n")
        res = []
        it = iter(out.split("\n"))
        for si, s in enumerate(chunk):
            n_ok = 0
            for line in it:
                if line == "OK":
                    n_ok += 1
                    if n_ok == 2:
                        break
            outs = []
            for fi in range(len(s.frames)):
                o = Out()
                for line in it:
                    if line.startswith("R "):
                        o.kind, o.reply = "R", bytes.fromhex(line[2:])
                    elif line == "N":
                        o.kind = "N"
                    elif line.startswith("P "):
                        o.kind, o.panic = "P", line[2:]
                    elif line.startswith("E "):
                        o.model_events.append(canon_model_event(line[2:]))
                    elif line.startswith("V "):
                        w = line.split()
                        o.monitors[w[1]] = (w[2] == "1")
                    elif line == "END":
                        break
                io = oc[si][fi]
                if s.cfg.logger in PARSERS and not io.problems:
                    for _ in io.events:
                        for line in it:
                            if line.startswith("L "):
                                o.rendered.append(bytes.fromhex(line[2:]))
                                break
                outs.append(o)
            res.append(outs)
        return res

    sc = runner._chunks(scripts, runner.NPROC)
    oc = runner._chunks(impl_outs, runner.NPROC)
    with ThreadPoolExecutor(runner.NPROC) as ex:
        parts = list(ex.map(work, zip(sc, oc)))
    return [r for p in parts for r in p]


def mutants(evs):
    """Corrupted versions of a real event list, none of which may satisfy the monitor."""
    out = []
    for i in range(len(evs)):
        out.append(("drop event %d" % i, evs[:i] + evs[i + 1:]))
        out.append(("duplicate event %d" % i, evs[:i + 1] + evs[i:]))
    if len(evs) >= 2:
        out.append(("swap first two", [evs[1], evs[0]] + evs[2:]))
        last = evs[-1]
        out.append(("flip fate", evs[:-1] + [(last[0], {"send": "drop", "drop": "send"}.get(last[1], "send")) + last[2:]]))
    for i, e in enumerate(evs):
        e = list(e)
        if e[2] is not None:
            m = list(e); m[2] = e[2][:-2] + "%02x" % (int(e[2][-2:], 16) ^ 1); out.append(("mac_src of %d" % i, evs[:i] + [tuple(m)] + evs[i + 1:]))
        if e[4] is not None and e[4] != e[5]:
            m = list(e); m[4], m[5] = e[5], e[4]; out.append(("swap ips of %d" % i, evs[:i] + [tuple(m)] + evs[i + 1:]))
        if e[7] is not None:
            m = list(e); m[7] = (e[7] + 1) % 65536; out.append(("port_src of %d" % i, evs[:i] + [tuple(m)] + evs[i + 1:]))
            m = list(e); m[8] = (e[8] + 1) % 65536; out.append(("port_dst of %d" % i, evs[:i] + [tuple(m)] + evs[i + 1:]))
        if e[0] in ("icmpv4", "icmpv6", "tcp", "arp"):
            m = list(e); m[9] = (e[9][0] ^ 1,) + tuple(e[9][1:]); out.append(("extra of %d" % i, evs[:i] + [tuple(m)] + evs[i + 1:]))
        if e[0] == "eth" and e[2] is not None:
            m = list(e); m[4] = "01020304"; m[5] = "05060708" if e[4] is None else None
            out.append(("ip columns of %d" % i, evs[:i] + [tuple(m)] + evs[i + 1:]))
    return out


def monitor_selftest(scripts, io, limit):
    """The monitor must reject every corrupted log (guards against a vacuous specification)."""
    lines, meta = [], []
    n = 0
    for si, s in enumerate(scripts):
        if s.cfg.logger not in PARSERS:
            continue
        first = True
        for fi, f in enumerate(s.frames):
            a = io[si][fi]
            if a.problems or a.kind not in ("R", "N") or not a.events or n >= limit:
                continue
            if (si * 7 + fi) % 11:
                continue
            n += 1
            if first:
                lines.append(s.cfg.model_line(True))
                first = False
            for what, m in mutants(a.events):
                lines.append("F " + f.hex() + " impl=" + (a.reply.hex() if a.kind == "R" else "N") + " ev=" + encode_events(m))
                meta.append((s, fi, what, m))
    if not lines:
        return [], 0
    out = runner._run_proc([MODEL_RUN, build.ENVFILE, "C20"], "\n".join(lines) + "\n")
    verdicts = [l.split()[2] for l in out.split("\n") if l.startswith("V C20 ")]
    survivors = [m for m, v in zip(meta, verdicts) if v == "1"]
    if len(verdicts) != len(meta):
        survivors.append((meta[0][0], 0, "protocol error: %d verdicts for %d mutants" % (len(verdicts), len(meta)), []))
    return survivors, len(meta)


def parser_selftest():
    """The line-syntax check must reject damaged output (so that passing it means something)."""
    con = b"1790886784.7\ttcp\trecv\t0a:0b:0c:0d:0e:0f\tc0:ff:ee:c0:ff:ee\t10.0.0.9\t10.0.0.1\tTcp\t1234\t80\t2\t77\t0\n"
    udp = b"1790886784.744\tudp\tdrop\t0a:0b:0c:0d:0e:0f\tc0:ff:ee:c0:ff:ee\t2001:db8::9\t2001:db8::1\tUdp\t1234\t3478\t\n"
    lf = (b"ts=1790886784.766 proto=ipv4 verb=send  mac_src=0a:0b:0c:0d:0e:0f mac_dst=c0:ff:ee:c0:ff:ee ip_src=10.0.0.9 "
          b"ip_dst=10.0.0.1 transport=Tcp port_src=1234 port_dst=80 next_proto=Tcp\n")
    arp = b"ts=1.0 proto=arp verb=send  mac_dst=0a:0b:0c:0d:0e:0f mac_src=c0:ff:ee:c0:ff:ee ip_dst=10.0.0.9 ip_src=10.0.0.1 op=ArpOperation(2)\n"
    good = [("console", con), ("console", udp), ("console", con + udp), ("logfmt", lf), ("logfmt", arp), ("logfmt", lf + arp)]
    bad = [("console", con[:-1]), ("console", con + b"\n"), ("console", b"\n" + con), ("console", con[:-1] + b"\r\n"),
           ("console", con + udp[:-1]), ("console", con[:-1] + udp), ("console", con.replace(b"\t77", b"")),
           ("console", con.replace(b"\t77", b"\t77\t1")), ("console", con.replace(b"Tcp", b"tcp")),
           ("console", con.replace(b"\t2\t77", b"\t0x2\t77")), ("console", con.replace(b"1790886784.7", b"1790886784")),
           ("console", udp.replace(b"3478\t\n", b"3478\n")), ("console", udp.replace(b"3478\t\n", b"3478\tx\n")),
           ("console", con.replace(b"0a:0b", b"0A:0b")), ("console", con.replace(b"10.0.0.9", b"10.0.0.256")),
           ("console", con + b"@@junk\n"), ("console", b" " + con),
           ("logfmt", lf[:-1]), ("logfmt", lf + b"\n"), ("logfmt", lf.replace(b"verb=send  mac", b"verb=send mac")),
           ("logfmt", lf.replace(b" ip_src=10.0.0.9", b"") .replace(b" mac_dst", b" ip_src=10.0.0.9 mac_dst")),
           ("logfmt", lf.replace(b" next_proto=Tcp", b"")), ("logfmt", lf.replace(b"next_proto", b"eth_type")),
           ("logfmt", lf.replace(b"port_dst=80", b"port_dst=80 port_dst=80")), ("logfmt", lf.replace(b"port_dst=80", b"port_dst=65536")),
           ("logfmt", lf.replace(b"=Tcp\n", b"=Tcp \n")), ("logfmt", lf.replace(b"ts=", b"time=")),
           ("logfmt", arp.replace(b"mac_dst=0a:0b:0c:0d:0e:0f mac_src=c0:ff:ee:c0:ff:ee", b"mac_src=0a:0b:0c:0d:0e:0f mac_dst=c0:ff:ee:c0:ff:ee")),
           ("logfmt", lf[:-1] + arp), ("logfmt", lf.replace(b"mac_src", b"mac src"))]
    errs = []
    for lg, b in good:
        if parse_block(lg, b)[2]:
            errs.append("parser rejects a well-formed %s block: %r" % (lg, parse_block(lg, b)[2]))
    for lg, b in bad:
        if not parse_block(lg, b)[2]:
            errs.append("parser accepts a damaged %s block: %r" % (lg, b))
    return errs, len(good) + len(bad)


def app_level_difference(ea, eb):
    """True when two event lists differ only by what the application layer decided: same recv events down to a
    TCP / UDP layer, and (TCP) both sides accepted the segment and sent something."""
    ra = [e for e in ea if e[1] == "recv"]
    rb = [e for e in eb if e[1] == "recv"]
    if ra != rb or not ra or ra[-1][0] not in ("tcp", "udp") or len(ea) != 2 * len(ra) or len(eb) != 2 * len(rb):
        return False
    if ra[-1][0] == "tcp":
        return ea[len(ra)][:2] == ("tcp", "send") and eb[len(rb)][:2] == ("tcp", "send")
    return ea[len(ra)][0] == "udp" and eb[len(rb)][0] == "udp"


def evaluate_custom(scripts, drivers):
    issues = []
    stats = {"frames": 0, "replies": 0, "silence": 0, "panics": 0, "monitor_evals": 0, "log_lines": 0,
             "lines_rerendered_identically": 0, "corrupted_logs_rejected": 0, "parser_selftests": 0, "app_level_differences_not_compared": 0, "console_frames": 0, "logfmt_frames": 0, "events_by_layer": {}}
    errs, n = parser_selftest()
    stats["parser_selftests"] = n
    for e in errs:
        issues.append({"kind": "correspondence", "script": scripts[0], "frame": 0, "driver": "-", "impl": e, "model": ""})
    for dname, driver in drivers:
        io = run_impl_raw(scripts, driver)
        mo = run_model_ev(scripts, io, ovf=(dname == "dev"))
        for si, s in enumerate(scripts):
            for fi in range(len(s.frames)):
                a, b = io[si][fi], mo[si][fi]
                stats["frames"] += 1
                stats["replies" if a.kind == "R" else "silence" if a.kind == "N" else "panics"] += 1
                if s.cfg.logger in PARSERS:
                    stats[s.cfg.logger + "_frames"] += 1
                stats["log_lines"] += len(a.events)
                for e in a.events:
                    k = e[0] + " " + e[1]
                    stats["events_by_layer"][k] = stats["events_by_layer"].get(k, 0) + 1
                base = {"script": s, "frame": fi, "driver": dname, "impl": a.short(), "model": b.short()}
                # (1) line syntax: one complete line per event
                for pr in a.problems:
                    issues.append(dict(base, kind="monitor", monitor="C20-line-syntax", detail=pr))
                if a.problems or s.cfg.logger not in PARSERS:
                    continue
                # (2) the monitor on the implementation's real log
                if a.kind in ("R", "N"):
                    stats["monitor_evals"] += 1
                    if not b.monitors.get("C20", False):
                        issues.append(dict(base, kind="monitor", monitor="C20", detail="ok_C20 = false on the real log",
                                           impl_events=[repr(e) for e in a.events]))
                # (3) correspondence: event lists (and fate) of implementation and model
                pa = (a.kind, a.events)
                pb = (b.kind, b.model_events)
                if pa != pb:
                    if app_level_difference(a.events, b.model_events):
                        # the two sides took a different APPLICATION-level decision (answer or not, data or bare ACK,
                        # STUN port): that is the business of C10-C18, not of the log. The transport-level part (all
                        # recv events, accept/drop of the segment) is still compared, the monitor still judges the
                        # real log against the real reply, and the case is counted in the evidence.
                        stats["app_level_differences_not_compared"] += 1
                    else:
                        issues.append(dict(base, kind="correspondence", impl=repr(pa), model=repr(pb)))
                # (4) the renderers of Log.v reproduce the real lines
                real = a.block[:-1].split(b"\n") if a.block else []
                for k, line in enumerate(real):
                    if k < len(b.rendered) and b.rendered[k] == line + b"\n":
                        stats["lines_rerendered_identically"] += 1
                    else:
                        issues.append(dict(base, kind="correspondence", impl=repr(line),
                                           model=repr(b.rendered[k] if k < len(b.rendered) else None)))
        survivors, total = monitor_selftest(scripts, io, 400 if len(scripts) > 1 else 0)
        stats["corrupted_logs_rejected"] += total - len(survivors)
        for s, fi, what, m in survivors:
            issues.append({"kind": "monitor", "monitor": "C20-selftest", "script": s, "frame": fi, "driver": dname,
                           "impl": "corrupted log accepted by ok_C20: " + what, "model": repr(m), "detail": what})
    return issues, stats


# ---------------------------------------------------------------- generators
S4, P4, O4, D4 = gens.SELF4, gens.PEER4, gens.OTHER4, gens.DENY4
S6, P6, O6, D6 = gens.SELF6, gens.PEER6, gens.OTHER6, gens.DENY6
MS, MP = net.MAC_SELF, net.MAC_PEER
CHG = gens.stun_req(attrs=gens.stun_attr(3, struct.pack("!I", 2)))


def base_frames(key):
    """One well-formed frame of every kind (each is answered in the default configuration)."""
    ck4 = (net.cookie(key, P4, S4, 4000, 80) + 1) & 0xFFFFFFFF
    return [
        ("arp", gens.arp_req(S4)),
        ("echo4", gens.echo4(P4, S4)),
        ("echo6", gens.echo6(P6, S6)),
        ("ns6", gens.ns6(P6, S6, mac_dst=MS)),
        ("syn4", net.frame_tcp(P4, S4, 4000, 80, 7, 0, 2)),
        ("syn6", net.frame_tcp(P6, S6, 4000, 80, 7, 0, 2)),
        ("data4", net.frame_tcp(P4, S4, 4000, 80, 8, ck4, 0x18, b"GET / HTTP/1.0\r\n\r\n")),
        ("udp4", net.frame_udp(P4, S4, 5000, 3478, CHG)),
        ("udp6", net.frame_udp(P6, S6, 5000, 53, gens.dns_query())),
    ]


def drop_reason_frames(key, rng):
    """(tag, frames): one list per early return / drop reason."""
    out = []
    bf = base_frames(key)
    # --- truncation at every length (0..60 and beyond: every length of every base frame)
    for name, f in bf:
        out.append(("trunc-" + name, [f[:n] for n in range(0, len(f) + 1)] + [f + b"\0" * k for k in (1, 7, 40)]))
    # --- the longest lines: IPv6 addresses that print at full length (no '::'), five-digit ports, ten-digit seq / ack
    LP, LS = "2001:db8:aaaa:bbbb:cccc:dddd:eeee:ffff", "2001:db8:1111:2222:3333:4444:5555:6666"
    ckl = (net.cookie(key, LP, LS, 65535, 65534) + 1) & 0xFFFFFFFF
    out.append(("long-ipv6", [net.frame_tcp(LP, LS, 65535, 65534, 0xFFFFFFFF, 0xFFFFFFFE, 0x02),
                              net.frame_tcp(LP, LS, 65535, 65534, 4294967295, ckl, 0x18, b"GET / HTTP/1.0\r\n\r\n"),
                              net.frame_tcp(LP, LS, 65535, 65534, 4294967295, 4294967290, 0x1ff, b"x"),
                              net.frame_udp(LP, LS, 65535, 65534, gens.dns_query()), net.frame_udp(LP, LS, 65535, 65535, CHG),
                              gens.echo6(LP, LS), gens.ns6(LP, LS, mac_dst=MS), gens.echo6(LP, LS, ty=200, code=255),
                              net.eth(MS, MP, 0x86DD, net.ipv6(LP, LS, 255, b"payload"))]))
    big = gens.dns_query(names=tuple(b"q%d.example.org" % i for i in range(40)))
    longstun = gens.stun_req(attrs=gens.stun_attr(0x8022, b"x" * 252) + gens.stun_attr(3, struct.pack("!I", 2)), magic=True)
    out.append(("large-answers", [net.frame_udp(P4, S4, 5000, 53, big), net.frame_udp(P6, S6, 5000, 53, big),
                                  gens.echo4(P4, S4, data=bytes(1600)), gens.echo6(P6, S6, data=bytes(1500))]))
    out.append(("stun-change-port-tcp", gens.handshake(key, P4, S4, 4100, 3478, [longstun]) + gens.handshake(key, P6, S6, 4100, 65535, [longstun])
                + [net.frame_udp(P4, S4, 4101, 65535, CHG)]))
    # --- layer 2: destination MAC
    macs = [MS, b"\xff" * 6, bytes.fromhex("333300000001"), bytes.fromhex("3333ff000001"), bytes.fromhex("01005e000001"),
            bytes.fromhex("01005e000002"), bytes.fromhex("3333ff000002"), bytes.fromhex("c0ffeec0ffef"), b"\0" * 6, MP]
    fr = []
    for m in macs:
        fr += [gens.arp_req(S4, mac_dst=m), gens.echo4(P4, S4, mac_dst=m), gens.echo6(P6, S6, mac_dst=m),
               gens.ns6(P6, S6, mac_dst=m), net.frame_udp(P4, S4, 1, 2, b"x", mac_dst=m)]
    out.append(("mac-dst", fr))
    # --- layer 2: EtherTypes (every named one, neighbours, unnamed ones), with a plausible payload behind
    etys = sorted(ETY_NUMS | {e + d for e in ETY_NUMS for d in (-1, 1)} | {0, 1, 0x05dc, 0x0600, 0x1234, 0xfffe, 0xffff})
    pl = net.ipv4(P4, S4, 1, net.icmp4(8, 0, b"abcdefgh"))
    out.append(("ethertypes", [net.eth(MS, MP, e & 0xFFFF, pl) for e in etys] +
                [net.eth(MS, MP, rng.randrange(65536), pl) for _ in range(40)]))
    # --- ARP
    fr = []
    for op in (0, 1, 2, 3, 4, 8, 255, 256, 0xffff):
        for tpa in (S4, O4, "10.0.0.2", "255.255.255.255"):
            fr.append(gens.arp_req(tpa, op=op))
    fr += [gens.arp_req(S4, spa=D4), gens.arp_req(S4, mac_dst=MS), gens.arp_req(S4, sha=b"\x01\x02\x03\x04\x05\x06"),
           net.eth(MS, MP, 0x0806, net.arp(1, MP, P4, b"\x11" * 6, S4, htype=6, ptype=0x86dd, hlen=8, plen=16, trailer=b"zz" * 9))]
    out.append(("arp", fr))
    # --- IPv4 / IPv6 addressing: destination handled or not, source denied or not
    fr = []
    for s4, s6 in ((P4, P6), (D4, D6), (S4, S6)):
        for d4, d6 in ((S4, S6), (O4, O6), ("10.0.0.2", "ff02::1"), ("255.255.255.255", "ff02::1:ff00:1")):
            fr += [gens.echo4(s4, d4), gens.echo6(s6, d6), gens.ns6(s6, S6, dst=d6, mac_dst=MS), gens.ns6(s6, d6, mac_dst=MS),
                   net.frame_tcp(s4, d4, 5, 80, 1, 0, 2), net.frame_tcp(s6, d6, 5, 80, 1, 0, 2),
                   net.frame_udp(s4, d4, 5, 53, gens.dns_query()), net.frame_udp(s6, d6, 5, 53, gens.dns_query()),
                   net.frame_udp(s4, d4, 5, 9, b"nothing"), net.frame_udp(s6, d6, 5, 9, b"nothing")]
    out.append(("ip-addresses", fr))
    # --- next protocol: all 256 values, both families, with a transport-sized payload
    l4 = net.tcp(net.ip_bytes(P4), net.ip_bytes(S4), 5, 80, 1, 0, 2)
    out.append(("next-proto4", [net.eth(MS, MP, 0x0800, net.ipv4(P4, S4, p, l4)) for p in range(256)]))
    out.append(("next-proto6", [net.eth(MS, MP, 0x86DD, net.ipv6(P6, S6, p, l4)) for p in range(256)]))
    # --- IP header lies: IHL, total length, payload length (they decide how long the transport packet is)
    fr = []
    t4 = net.tcp(net.ip_bytes(P4), net.ip_bytes(S4), 5, 80, 1, 0, 2, b"hello")
    u4 = net.udp(net.ip_bytes(P4), net.ip_bytes(S4), 5, 53, gens.dns_query())
    i4 = net.icmp4(8, 0, b"abcdefgh")
    for proto, l4b in ((6, t4), (17, u4), (1, i4)):
        for ihl in (0, 4, 5, 6, 7, 15):
            for total in (None, 0, 19, 20, 21, 23, 24, 27, 28, 39, 40, 41, 0xffff):
                fr.append(net.eth(MS, MP, 0x0800, net.ipv4(P4, S4, proto, l4b, ihl=ihl, total=total, options=b"\1" * 8)))
    t6 = net.tcp(net.ip_bytes(P6), net.ip_bytes(S6), 5, 80, 1, 0, 2, b"hello")
    u6 = net.udp(net.ip_bytes(P6), net.ip_bytes(S6), 5, 53, gens.dns_query())
    i6 = net.icmp6(P6, S6, 128, 0, b"abcdefgh")
    for nh, l4b in ((6, t6), (17, u6), (58, i6)):
        for plen in (None, 0, 1, 3, 4, 7, 8, 19, 20, 21, 23, 24, 0xffff):
            fr.append(net.eth(MS, MP, 0x86DD, net.ipv6(P6, S6, nh, l4b, plen=plen)))
    out.append(("ip-length-lies", fr))
    # --- ICMPv4 / ICMPv6: every type, codes 0 / 1 / 255
    out.append(("icmp4-types", [gens.echo4(P4, S4, ty=t, code=c) for t in range(256) for c in (0, 1, 255)]))
    out.append(("icmp6-types", [gens.echo6(P6, S6, ty=t, code=c) for t in range(256) for c in (0, 1, 255)] +
                [gens.echo6(P6, O6, ty=t, code=0) for t in (1, 127, 128, 129, 133, 134, 135, 136, 137)]))
    # --- neighbour solicitations: listed / unlisted target, truncated, option lies, non-zero code
    fr = []
    for tgt in (S6, O6, "::", "ff02::1", "fe80::1", "::ffff:10.0.0.1", "::10.0.0.1", "2001:db8:0:0:1:0:0:1", "1:0:0:2:0:0:0:3"):
        for trunc in (None, 0, 1, 8, 15, 19, 20, 21):
            fr.append(gens.ns6(P6, tgt, mac_dst=MS, trunc=trunc))
        fr.append(gens.ns6(P6, tgt, mac_dst=MS, code=3))
        fr.append(gens.ns6(P6, tgt, mac_dst=MS, opts=b"\x01\xff" + MP))
        fr.append(gens.ns6(tgt, S6, mac_dst=MS))          # unusual SOURCE addresses: how they are printed
        fr.append(gens.echo6(tgt, S6))
    out.append(("ns6", fr))
    # --- TCP: all 512 flag words (fresh table), both families
    out.append(("tcp-flags4", [net.frame_tcp(P4, S4, 1234, 80, 0xfffffffe, 0x01020304, fl, b"xy" if fl & 1 else b"") for fl in range(512)]))
    out.append(("tcp-flags6", [net.frame_tcp(P6, S6, 1234, 80, 0xffffffff, 0, fl) for fl in range(512)]))
    # --- TCP data: wrong ack (drop), right ack (send, with and without application answer), then again on the validated flow
    for v6 in (False, True):
        s, d = gens.addr_pair(v6)
        fr = []
        for i, (name, p, t, u) in enumerate(gens.app_seeds()):
            sport, dport = 20000 + i, [80, 22, 3478, 111, 445, 65535, 0][i % 7]
            ck = net.cookie(key, s, d, sport, dport)
            fr.append(net.frame_tcp(s, d, sport, dport, 100, ck, 0x18, p))                         # ack = cookie: wrong
            fr.append(net.frame_tcp(s, d, sport, dport, 100, (ck + 2) & 0xFFFFFFFF, 0x18, p))     # wrong
            fr.append(net.frame_tcp(s, d, sport, dport, 100, 0, 0x18, p))                          # ack 0 (underflow hack)
            fr.append(net.frame_tcp(s, d, sport, dport, 100, (ck + 1) & 0xFFFFFFFF, 0x18, p))     # right
            fr.append(net.frame_tcp(s, d, sport, dport, 100 + len(p), 12345, 0x18, p))             # validated: any ack
            fr.append(net.frame_tcp(s, d, sport, dport, 5, 6, 0x11))
            fr.append(net.frame_tcp(s, d, sport, dport, 5, 6, 0x10))
            fr.append(net.frame_tcp(s, d, sport, dport, 5, 6, 0x04))
            fr.append(net.frame_tcp(s, d, sport, dport, 5, 6, 0x19, p))                            # FIN|PSH|ACK: data class
        # STUN change-port over TCP at port 65535 (wraps to 0) and in two segments
        for dport in (3478, 65535):
            ck = net.cookie(key, s, d, 777, dport)
            fr.append(net.frame_tcp(s, d, 777, dport, 1, (ck + 1) & 0xFFFFFFFF, 0x18, CHG))
            fr.append(net.frame_tcp(s, d, 777, dport, 1 + len(CHG), 0, 0x18, CHG[:10]))
            fr.append(net.frame_tcp(s, d, 777, dport, 11 + len(CHG), 0, 0x18, CHG[10:]))
        # data offset lies
        ck = net.cookie(key, s, d, 778, 80)
        for doff in (0, 4, 5, 6, 15):
            fr.append(net.frame_tcp(s, d, 778, 80, 1, (ck + 1) & 0xFFFFFFFF, 0x18, b"GET / HTTP/1.0\r\n\r\n", doff=doff))
        out.append(("tcp-data" + ("6" if v6 else "4"), fr))
    # --- UDP: every seed on several ports (answered / ignored), STUN change-port incl. wrap-around
    for v6 in (False, True):
        s, d = gens.addr_pair(v6)
        fr = []
        for name, p, t, u in gens.app_seeds():
            for dport in (53, 80, 3478, 65535, 0):
                fr.append(net.frame_udp(s, d, 40000, dport, p))
        fr.append(net.frame_udp(s, d, 0, 65535, CHG))
        fr.append(net.frame_udp(s, d, 65535, 65534, CHG))
        fr.append(net.frame_udp(s, d, 1, 2, gens.stun_req(attrs=gens.stun_attr(3, struct.pack("!I", 2)) * 3)))
        fr.append(net.frame_udp(s, d, 1, 2, gens.stun_req(attrs=gens.stun_attr(3, struct.pack("!I", 2)) + b"\0\1\0\x40")))   # malformed tail
        fr.append(net.frame_udp(s, d, 1, 2, gens.stun_req(attrs=gens.stun_attr(3, struct.pack("!I", 2)), mtype=0x0101)))
        fr.append(net.frame_udp(s, d, 1, 2, gens.dns_query(flags=0x8100)))
        out.append(("udp" + ("6" if v6 else "4"), fr))
    return out


def corpus():
    # witnesses of the two repaired logging defects (double ARP logging, missing icmpv6 drop)
    for lg in ("console", "logfmt"):
        yield Script(Cfg(logger=lg), [gens.arp_req(S4), gens.echo6(P6, S6, code=1), gens.ns6(P6, S6, mac_dst=MS, code=7)],
                     "corpus:arp-double-logging+icmpv6-code (fixed) [%s]" % lg)


def generate(tier, rng):
    key = (0x1122334455667788, 0x99aabbccddeeff00)
    reasons = drop_reason_frames(key, rng)
    for lg in ("console", "logfmt"):
        for ci, cfg in enumerate(gens.cfgs(logger=lg, key=key)):
            for tag, frames in reasons:
                if tier == "quick" and ci in (1, 3) and tag.startswith(("trunc-", "tcp-flags", "icmp", "next-proto", "ethertypes")):
                    # the sweeps do not depend on the address lists: two of the four configurations suffice in quick
                    continue
                yield Script(cfg, frames, "%s [%s cfg%d]" % (tag, lg, ci))
    # random mixtures and mutations (thorough: many more)
    n = 6 if tier == "quick" else 200
    for i in range(n):
        lg = ("console", "logfmt")[i % 2]
        cfg = rng.choice(gens.cfgs(logger=lg, key=key) + [Cfg(self_ips=[], logger=lg, key=key),
                                                          Cfg(self_ips=[S6], deny=[], logger=lg, key=key, level=rng.choice([0, 3, 5]))])
        fr = []
        pool = [f for _, fs in reasons for f in fs]
        for _ in range(300):
            f = rng.choice(pool)
            fr.append(gens.mutate_bytes(rng, f, rng.randrange(1, 4)) if rng.random() < 0.6 else f)
        yield Script(cfg, fr, "mutations [%s]" % lg)


def nontrivial(script):
    return any(len(f) >= 14 for f in script.frames)


def project(script, i, o):
    return None
