(* C15Ref.v -- the reference STUN codec of Spec/RefStun.v is coherent: the message type
   splits into class and method and back, a serialised message reads back (whatever
   follows it, for requests), and whatever the reader accepts is well formed. *)
From MS Require Import Proofs.Tactics Spec.RefStun.

(* ---------- lists ---------- *)
Lemma firstn_app_n {A} (n : nat) (a b : list A) : length a = n -> firstn n (a ++ b) = a.
Proof. intros <-. rewrite firstn_app, Nat.sub_diag, firstn_all. cbn. apply app_nil_r. Qed.
Lemma skipn_app_n {A} (n : nat) (a b : list A) : length a = n -> skipn n (a ++ b) = b.
Proof. intros <-. rewrite skipn_app, Nat.sub_diag, skipn_all. reflexivity. Qed.
Lemma nth_firstn_lt' (i n : nat) (l : bytes) : (i < n)%nat -> nth i (firstn n l) 0 = nth i l 0.
Proof.
  revert i l. induction n as [|n IH]; intros i l H; [lia|].
  destruct l as [|x l]; [destruct i; reflexivity|]. destruct i as [|i]; [reflexivity|].
  cbn [firstn nth]. apply IH. lia.
Qed.
Lemma nth_skipn_add' (o i : nat) (l : bytes) : nth i (skipn o l) 0 = nth (o + i) l 0.
Proof.
  revert l. induction o as [|o IH]; intros l; [reflexivity|].
  destruct l as [|x l]; [destruct i; reflexivity|]. cbn [skipn Nat.add nth]. apply IH.
Qed.

Lemma skipn_skipn' {A} (a b : nat) (l : list A) : skipn a (skipn b l) = skipn (b + a) l.
Proof.
  revert l. induction b as [|b IH]; intros l; [reflexivity|].
  destruct l as [|x l]; [rewrite !skipn_nil; reflexivity|]. cbn [skipn Nat.add]. apply IH.
Qed.

Lemma pad4n_bounds (n : nat) : (n <= pad4n n < n + 4)%nat /\ (pad4n n mod 4 = 0)%nat.
Proof. unfold pad4n. lia. Qed.

Lemma to_nat_lenN (v : bytes) : N.to_nat (lenN v) = length v.
Proof. unfold lenN. lia. Qed.

(* ---------- message type ---------- *)
Lemma meth_split meth : meth < 4096 -> exists a b c, meth = a * 128 + b * 16 + c /\ a < 32 /\ b < 8 /\ c < 16.
Proof. intros H. exists (meth / 128), ((meth / 16) mod 8), (meth mod 16). lia. Qed.

Lemma type_fields a h b lo c : a < 32 -> h < 2 -> b < 8 -> lo < 2 -> c < 16 ->
  let ty := a * 512 + h * 256 + b * 32 + lo * 16 + c in
  (ty / 256) mod 2 = h /\ (ty / 16) mod 2 = lo /\ ty / 512 = a /\ (ty / 32) mod 8 = b /\ ty mod 16 = c /\ ty < 16384.
Proof. intros. subst ty. repeat split; lia. Qed.

Lemma stun_type_roundtrip cls meth : cls < 4 -> meth < 4096 ->
  type_class (stun_type cls meth) = cls /\ type_method (stun_type cls meth) = meth /\ stun_type cls meth < 16384.
Proof.
  intros Hc Hm. destruct (meth_split meth Hm) as (a & b & c & -> & Ha & Hb & Hcc).
  unfold type_class, type_method, stun_type.
  assert ((a * 128 + b * 16 + c) / 128 = a) as -> by lia.
  assert (((a * 128 + b * 16 + c) / 16) mod 8 = b) as -> by lia.
  assert ((a * 128 + b * 16 + c) mod 16 = c) as -> by lia.
  assert (cls / 2 < 2) as Hh by lia. assert (cls mod 2 < 2) as Hl by lia.
  destruct (type_fields a (cls / 2) b (cls mod 2) c Ha Hh Hb Hl Hcc) as (E1 & E2 & E3 & E4 & E5 & E6).
  rewrite E1, E2, E3, E4, E5. repeat split; lia.
Qed.

Lemma type_split ty : ty < 16384 ->
  exists a h b lo c, ty = a * 512 + h * 256 + b * 32 + lo * 16 + c /\ a < 32 /\ h < 2 /\ b < 8 /\ lo < 2 /\ c < 16.
Proof.
  intros H. exists (ty / 512), ((ty / 256) mod 2), ((ty / 32) mod 8), ((ty / 16) mod 2), (ty mod 16).
  assert (ty = (ty / 512) * 512 + ty mod 512) as E1 by lia.
  assert (ty mod 512 = ((ty / 256) mod 2) * 256 + ty mod 256) as E2 by lia.
  assert (ty mod 256 = ((ty / 32) mod 8) * 32 + ty mod 32) as E3 by lia.
  assert (ty mod 32 = ((ty / 16) mod 2) * 16 + ty mod 16) as E4 by lia.
  repeat split; lia.
Qed.

Lemma type_of_fields ty : ty < 16384 ->
  type_class ty < 4 /\ type_method ty < 4096 /\ stun_type (type_class ty) (type_method ty) = ty.
Proof.
  intros H. destruct (type_split ty H) as (a & h & b & lo & c & -> & Ha & Hh & Hb & Hl & Hc).
  destruct (type_fields a h b lo c Ha Hh Hb Hl Hc) as (E1 & E2 & E3 & E4 & E5 & _).
  unfold type_class, type_method. rewrite E1, E2, E3, E4, E5.
  split; [lia|]. split; [lia|]. unfold stun_type.
  assert ((a * 128 + b * 16 + c) / 128 = a) as -> by lia.
  assert (((a * 128 + b * 16 + c) / 16) mod 8 = b) as -> by lia.
  assert ((a * 128 + b * 16 + c) mod 16 = c) as -> by lia.
  assert ((h * 2 + lo) / 2 = h) as -> by lia.
  assert ((h * 2 + lo) mod 2 = lo) as -> by lia.
  reflexivity.
Qed.

(* ---------- big-endian 16-bit fields ---------- *)
Lemma u16_be16_0 (x : N) (rest : bytes) : x < 65536 -> u16_at 0 (be16 x ++ rest) = x.
Proof. intros H. unfold be16, u16_at, u8_at. cbn [app nth]. lia. Qed.
Lemma u16_be16_2 (a b x : N) (rest : bytes) : x < 65536 -> u16_at 2 (a :: b :: be16 x ++ rest) = x.
Proof. intros H. unfold be16, u16_at, u8_at. cbn [app nth]. lia. Qed.

(* ---------- the attribute walk ---------- *)
Lemma walk_nil (fuel : nat) : walk_attrs fuel [] = ([], TlvDone).
Proof. destruct fuel; reflexivity. Qed.

Lemma walk_unfold (fuel : nat) (v : bytes) : v <> [] ->
  walk_attrs (S fuel) v =
    if (length v <? 4)%nat then ([], TlvStray)
    else
      let t := u16_at 0 v in
      let l := N.to_nat (u16_at 2 v) in
      let body := skipn 4 v in
      if (length body <? l)%nat then ([], if (length v =? 4)%nat then TlvHeaderOnly else TlvOverrun)
      else
        let val := firstn l body in
        if negb (attr_value_ok t val) then ([], if (length v =? 4)%nat then TlvHeaderOnly else TlvBadValue)
        else if (length body <? pad4n l)%nat then ([(t, val)], TlvUnpadded)
        else
          let '(rest, st) := walk_attrs fuel (skipn (pad4n l) body) in
          ((t, val) :: rest, st).
Proof. destruct v; [congruence|reflexivity]. Qed.

(* one well-formed attribute, whatever its padding bytes are *)
Lemma walk_cons (fuel : nat) (t : N) (v padb rest : bytes) :
  t < 65536 -> lenN v < 65536 -> attr_value_ok t v = true ->
  length padb = (pad4n (length v) - length v)%nat ->
  walk_attrs (S fuel) (be16 t ++ be16 (lenN v) ++ v ++ padb ++ rest) =
    let '(r, st) := walk_attrs fuel rest in ((t, v) :: r, st).
Proof.
  intros Ht Hl Hok Hpad.
  pose proof (pad4n_bounds (length v)) as [Hp _].
  set (x := be16 t ++ be16 (lenN v) ++ v ++ padb ++ rest).
  assert (x <> []) as Hne by (unfold x, be16; discriminate).
  assert (u16_at 0 x = t) as E0 by (apply u16_be16_0, Ht).
  assert (u16_at 2 x = lenN v) as E2.
  { unfold x. unfold be16 at 1. cbn [app]. apply u16_be16_2, Hl. }
  assert (skipn 4 x = v ++ padb ++ rest) as Eb by reflexivity.
  assert (length x = (4 + length v + length padb + length rest)%nat) as Elen.
  { unfold x. rewrite !app_length. unfold be16. cbn [length]. lia. }
  rewrite (walk_unfold fuel x Hne). cbv zeta. rewrite E0, E2, Eb, to_nat_lenN.
  assert ((length x <? 4)%nat = false) as -> by lia.
  assert ((length (v ++ padb ++ rest) <? length v)%nat = false) as ->.
  { rewrite !app_length. lia. }
  rewrite (firstn_app_n (length v) v _ eq_refl), Hok. cbn [negb].
  assert ((length (v ++ padb ++ rest) <? pad4n (length v))%nat = false) as ->.
  { rewrite !app_length. lia. }
  rewrite app_assoc. rewrite skipn_app_n by (rewrite app_length; lia). reflexivity.
Qed.

Lemma ser_attr_length (a : attr) : length (ser_attr a) = (4 + pad4n (length (snd a)))%nat.
Proof.
  unfold ser_attr. rewrite !app_length. unfold be16, zeros. rewrite repeat_length. cbn [length].
  pose proof (pad4n_bounds (length (snd a))). lia.
Qed.

Lemma walk_ser (l : list attr) : forall fuel,
  forallb attr_wf l = true -> (length (ser_attrs l) <= fuel)%nat ->
  walk_attrs fuel (ser_attrs l) = (l, TlvDone).
Proof.
  induction l as [|[t v] l IH]; intros fuel Hwf Hf.
  { apply walk_nil. }
  cbn [forallb] in Hwf. apply andb_true_iff in Hwf. destruct Hwf as [Ha Hl].
  unfold attr_wf in Ha. cbn [fst snd] in Ha.
  apply andb_true_iff in Ha. destruct Ha as [Ha Hv]. apply andb_true_iff in Ha. destruct Ha as [Ha _].
  apply andb_true_iff in Ha. destruct Ha as [Ht Hlen].
  change (ser_attrs ((t, v) :: l)) with (ser_attr (t, v) ++ ser_attrs l) in *.
  rewrite app_length, ser_attr_length in Hf. cbn [snd] in Hf.
  destruct fuel as [|fuel]; [lia|].
  unfold ser_attr. cbn [fst snd]. rewrite <- !app_assoc.
  rewrite walk_cons; [|lia|lia|exact Hv|unfold zeros; apply repeat_length].
  rewrite IH; [reflexivity|exact Hl|lia].
Qed.

(* ---------- messages ---------- *)
Lemma stun_wf_fields (m : stun_msg) : stun_wf m = true ->
  sm_class m < 4 /\ sm_method m < 4096 /\ length (sm_tid m) = 16%nat /\ bytes_ok (sm_tid m) = true /\
  forallb attr_wf (sm_attrs m) = true /\ lenN (ser_attrs (sm_attrs m)) < 65536.
Proof.
  unfold stun_wf. intros H. repeat (apply andb_true_iff in H; destruct H as [H ?]).
  repeat split; try assumption; lia.
Qed.

Lemma ser_stun_split (m : stun_msg) :
  ser_stun m = (be16 (stun_type (sm_class m) (sm_method m)) ++ be16 (lenN (ser_attrs (sm_attrs m))) ++ sm_tid m)
               ++ ser_attrs (sm_attrs m).
Proof. unfold ser_stun. rewrite <- !app_assoc. reflexivity. Qed.

(* a serialised well-formed message reads back; a request may be followed by anything *)
Theorem dec_stun_gen_ser (exact : bool) (m : stun_msg) (tail : bytes) :
  stun_wf m = true -> (exact = true -> tail = []) ->
  dec_stun_gen exact (ser_stun m ++ tail) = Some m.
Proof.
  intros Hwf Hex. destruct (stun_wf_fields m Hwf) as (Hc & Hm & Htid & _ & Hattrs & Hlen).
  destruct (stun_type_roundtrip _ _ Hc Hm) as (Ecls & Emeth & Hty).
  set (A := ser_attrs (sm_attrs m)) in *.
  set (hdr := be16 (stun_type (sm_class m) (sm_method m)) ++ be16 (lenN A) ++ sm_tid m).
  assert (length hdr = 20%nat) as Hhl.
  { unfold hdr. rewrite !app_length. unfold be16. cbn [length]. lia. }
  assert (ser_stun m ++ tail = hdr ++ A ++ tail) as Ep.
  { rewrite ser_stun_split. fold A. fold hdr. rewrite <- app_assoc. reflexivity. }
  rewrite Ep. unfold dec_stun_gen.
  assert (length (hdr ++ A ++ tail) = (20 + length A + length tail)%nat) as Hpl.
  { rewrite !app_length. lia. }
  assert ((length (hdr ++ A ++ tail) <? 20)%nat = false) as -> by lia.
  assert (u16_at 0 (hdr ++ A ++ tail) = stun_type (sm_class m) (sm_method m)) as ->.
  { unfold hdr. rewrite <- !app_assoc. apply u16_be16_0. lia. }
  assert (u16_at 2 (hdr ++ A ++ tail) = lenN A) as ->.
  { unfold hdr. rewrite <- !app_assoc. unfold be16 at 1. cbn [app]. apply u16_be16_2. exact Hlen. }
  assert ((16384 <=? stun_type (sm_class m) (sm_method m)) = false) as -> by lia.
  rewrite to_nat_lenN.
  assert ((if exact then negb (length (hdr ++ A ++ tail) =? 20 + length A)%nat
           else (length (hdr ++ A ++ tail) <? 20 + length A)%nat) = false) as ->.
  { destruct exact; [pose proof (Hex eq_refl); subst tail; cbn [length] in Hpl|]; lia. }
  rewrite (skipn_app_n 20 hdr _ Hhl), (firstn_app_n (length A) A _ eq_refl).
  unfold read_attrs. unfold A at 1 2. rewrite walk_ser; [|exact Hattrs|lia].
  rewrite Ecls, Emeth.
  assert (firstn 16 (skipn 4 (hdr ++ A ++ tail)) = sm_tid m) as ->.
  { unfold hdr. rewrite <- !app_assoc. unfold be16. cbn [app skipn]. apply firstn_app_n, Htid. }
  destruct m; reflexivity.
Qed.

Theorem dec_stun_req_ser (m : stun_msg) (tail : bytes) :
  stun_wf m = true -> dec_stun_req (ser_stun m ++ tail) = Some m.
Proof. intros H. apply dec_stun_gen_ser; [exact H|discriminate]. Qed.

Theorem dec_stun_resp_ser (m : stun_msg) : stun_wf m = true -> dec_stun_resp (ser_stun m) = Some m.
Proof. intros H. rewrite <- (app_nil_r (ser_stun m)). apply dec_stun_gen_ser; [exact H|reflexivity]. Qed.
