(* Proofs/C04.v -- every frame the model emits is well-formed at every layer. *)
From MS Require Import Proofs.Tactics Proofs.DecLemmas Proofs.Pipeline Proofs.ViewLemmas
     Proofs.Factor Proofs.ChecksumLemmas Proofs.C06
     L2 Spec.View Spec.RefDec Spec.C04.

(* ---------- generic helpers ---------- *)
Lemma checksum_nonempty (l : bytes) : (0 < length l)%nat -> checksum l = finalize (sum_words l).
Proof. destruct l; cbn [length]; [lia | reflexivity]. Qed.

(* the literal 65536%nat is kept abstract by the number parser; lemmas below are
   stated with [lenN l < 65536] instead, which lia can read *)
Lemma nat_65536 : 65536%nat = N.to_nat 65536.
Proof.
  cbv [Nat.of_num_uint Nat.of_uint Nat.of_uint_acc].
  rewrite !Nat.tail_mul_spec. lia.
Qed.
Lemma lenN_lt_65536 (l : bytes) : (length l < 65536)%nat -> lenN l < 65536.
Proof. rewrite nat_65536. unfold lenN. lia. Qed.

Lemma verify_sealed0 (a b : bytes) (c : N) :
  let p := a ++ [0; 0] ++ b in
  Nat.even (length a) = true ->
  sum_words p < 1099511627776 ->
  c = finalize (sum_words p) ->
  verify_sum (sum_words (set_cksum (length a) p c)) = true.
Proof.
  intros p He Hb Hc.
  rewrite <- (N.add_0_l (sum_words (set_cksum _ _ _))).
  apply verify_sealed; [exact He | rewrite N.add_0_l; exact Hb | left; rewrite N.add_0_l; exact Hc].
Qed.

(* the part of a decoded IP packet that [wf_l4] looks at *)
Definition mkip (v4 : bool) (ttl proto : N) (src dst pl : bytes) : d_ip :=
  {| di_v4 := v4; di_hdr := []; di_len_field := 0; di_ttl := ttl; di_proto := proto;
     di_src := src; di_dst := dst; di_payload := pl |}.

Lemma l4_sum_ok_ext (i j : d_ip) :
  di_proto i = di_proto j -> di_src i = di_src j -> di_dst i = di_dst j ->
  di_payload i = di_payload j -> l4_sum_ok i = l4_sum_ok j.
Proof. unfold l4_sum_ok. intros -> -> -> ->. reflexivity. Qed.

Lemma wf_l4_ext (i j : d_ip) :
  di_v4 i = di_v4 j -> di_ttl i = di_ttl j -> di_proto i = di_proto j ->
  di_src i = di_src j -> di_dst i = di_dst j -> di_payload i = di_payload j ->
  wf_l4 i = wf_l4 j.
Proof.
  intros H1 H2 H3 H4 H5 H6. unfold wf_l4.
  rewrite (l4_sum_ok_ext i j H3 H4 H5 H6), H1, H2, H3, H6. reflexivity.
Qed.

(* ---------- facts about views ---------- *)
Lemma view_fields_ok cfg f v :
  bytes_ok f = true -> view cfg f = Some v ->
  bytes_ok (v_src v) = true /\ bytes_ok (v_dst v) = true /\ v_proto v < 256.
Proof.
  intros Hf Hv. destruct (view_inv _ _ _ Hv) as (_ & _ & [H4 | H6]).
  - destruct H4 as (_ & _ & _ & -> & -> & -> & _).
    repeat split; try (apply bytes_ok_slice, bytes_ok_skipn, Hf).
    apply u8_at_lt, bytes_ok_skipn, Hf.
  - destruct H6 as (_ & _ & _ & -> & -> & -> & _).
    repeat split; try (apply bytes_ok_slice, bytes_ok_skipn, Hf).
    apply u8_at_lt, bytes_ok_skipn, Hf.
Qed.

(* ---------- the IP and Ethernet wrapping ---------- *)
Definition ipv4_pre (total proto : N) : bytes := [69; 0] ++ be16 total ++ [0; 0; 64; 0; 64; proto].

Lemma ipv4_header_split total proto src dst :
  ipv4_header total proto src dst = ipv4_pre total proto ++ [0; 0] ++ (src ++ dst).
Proof. reflexivity. Qed.

Lemma ipv4_header_length total proto src dst :
  length src = 4%nat -> length dst = 4%nat -> length (ipv4_header total proto src dst) = 20%nat.
Proof. intros Hs Hd. unfold ipv4_header, be16. rewrite !app_length, Hs, Hd. reflexivity. Qed.

Lemma ipv6_header_length plen nh hlim src dst :
  length src = 16%nat -> length dst = 16%nat -> length (ipv6_header plen nh hlim src dst) = 40%nat.
Proof. intros Hs Hd. unfold ipv6_header, be16. rewrite !app_length, Hs, Hd. reflexivity. Qed.

Lemma eth_frame_length dst src ety pl :
  length dst = 6%nat -> length src = 6%nat -> length (eth_frame dst src ety pl) = (14 + length pl)%nat.
Proof. intros Hd Hs. unfold eth_frame, be16. rewrite !app_length, Hd, Hs. cbn [length]. lia. Qed.

Lemma eth_frame_payload_ok dst src ety pl :
  bytes_ok (eth_frame dst src ety pl) = true -> bytes_ok pl = true.
Proof.
  unfold eth_frame. rewrite !bytes_ok_app. intros H.
  repeat (apply andb_true_iff in H; destruct H as [? H]). exact H.
Qed.

(* sealing the header checksum does not touch the payload *)
Lemma set_cksum_ipv4 total proto src dst l4 c :
  set_cksum 10 (ipv4_header total proto src dst ++ l4) c =
  set_cksum 10 (ipv4_header total proto src dst) c ++ l4.
Proof.
  rewrite ipv4_header_split.
  change 10%nat with (length (ipv4_pre total proto)).
  replace ((ipv4_pre total proto ++ [0; 0] ++ src ++ dst) ++ l4)
    with (ipv4_pre total proto ++ 0 :: 0 :: ((src ++ dst) ++ l4))
    by (rewrite <- !app_assoc; reflexivity).
  cbn [app]. rewrite !set_cksum_app. rewrite <- !app_assoc. reflexivity.
Qed.

Lemma wrap_ip_length cfg f v rsrc hlim l4 :
  cfg_ok cfg = true -> view cfg f = Some v ->
  length rsrc = (if v_v4 v then 4 else 16)%nat ->
  length (wrap_ip cfg f v rsrc hlim l4) = ((if v_v4 v then 34 else 54) + length l4)%nat.
Proof.
  intros Hcfg Hv Hrs. destruct (view_sizes _ _ _ Hv) as (Hm & Hsz).
  pose proof (cfg_ok_mac _ Hcfg) as Hmac. unfold wrap_ip.
  destruct (v_v4 v).
  - destruct Hsz as [Hs Hd]. rewrite eth_frame_length by assumption.
    rewrite set_cksum_length; rewrite app_length, ipv4_header_length by assumption; lia.
  - destruct Hsz as [Hs Hd]. rewrite eth_frame_length by assumption.
    rewrite app_length, ipv6_header_length by assumption. lia.
Qed.

Lemma wrap_ip_l4_ok cfg f v rsrc hlim l4 :
  bytes_ok (wrap_ip cfg f v rsrc hlim l4) = true -> bytes_ok l4 = true.
Proof.
  unfold wrap_ip. destruct (v_v4 v); intros H; apply eth_frame_payload_ok in H.
  - rewrite set_cksum_ipv4, bytes_ok_app in H. apply andb_true_iff in H. apply H.
  - rewrite bytes_ok_app in H. apply andb_true_iff in H. apply H.
Qed.

Lemma wrap_ip_hdr4_ok cfg f v rsrc hlim l4 :
  v_v4 v = true ->
  bytes_ok (wrap_ip cfg f v rsrc hlim l4) = true ->
  bytes_ok (set_cksum 10 (ipv4_header (20 + lenN l4) (v_proto v) rsrc (v_src v))
                      (checksum (firstn 20 (ipv4_header (20 + lenN l4) (v_proto v) rsrc (v_src v) ++ l4))))
  = true.
Proof.
  unfold wrap_ip. intros -> H. apply eth_frame_payload_ok in H.
  rewrite set_cksum_ipv4, bytes_ok_app in H. apply andb_true_iff in H. apply H.
Qed.

Lemma wf_wrap4 cfg f v rsrc hlim l4 :
  cfg_ok cfg = true -> bytes_ok f = true -> view cfg f = Some v -> v_v4 v = true ->
  length rsrc = 4%nat ->
  bytes_ok (wrap_ip cfg f v rsrc hlim l4) = true ->
  lenN (wrap_ip cfg f v rsrc hlim l4) < 65536 ->
  wf_l4 (mkip true 64 (v_proto v) rsrc (v_src v) l4) = true ->
  wf_frame (wrap_ip cfg f v rsrc hlim l4) = true.
Proof.
  intros Hcfg Hf Hv Hv4 Hrs Hok Hlen Hl4.
  pose proof (wrap_ip_hdr4_ok _ _ _ _ _ _ Hv4 Hok) as Hhdr.
  unfold lenN in Hlen.
  rewrite (wrap_ip_length _ _ _ _ _ _ Hcfg Hv) in Hlen by (rewrite Hv4; exact Hrs).
  rewrite Hv4 in Hlen.
  destruct (view_sizes _ _ _ Hv) as (Hm & Hsz). rewrite Hv4 in Hsz. destruct Hsz as [Hs Hd].
  destruct (view_fields_ok _ _ _ Hf Hv) as (Hsok & Hdok & Hp).
  pose proof (cfg_ok_mac _ Hcfg) as Hmac.
  unfold wrap_ip, wf_frame. rewrite Hv4.
  rewrite dec_eth_frame by (assumption || lia).
  cbn [de_type de_payload]. change (2048 =? 2054) with false. change (2048 =? 2048) with true. cbv iota.
  rewrite dec_ipv4_packet by assumption.
  cbn [di_len_field di_hdr di_ttl].
  set (hdr := ipv4_header (20 + lenN l4) (v_proto v) rsrc (v_src v)) in *.
  assert (length hdr = 20%nat) as Hhl by (apply ipv4_header_length; assumption).
  assert (firstn 20 (hdr ++ l4) = hdr) as Hfn.
  { rewrite <- Hhl. apply firstn_length_app. }
  rewrite Hfn in *.
  repeat (apply andb_true_iff; split).
  - apply N.eqb_eq. unfold lenN. rewrite set_cksum_length by (rewrite app_length; lia).
    rewrite app_length, Hhl. lia.
  - subst hdr. clear Hhdr Hfn Hhl. explode_lists.
    unfold ipv4_header, set_cksum, be16, u16_at, u8_at. list_cbn. reflexivity.
  - reflexivity.
  - rewrite checksum_nonempty in * by lia.
    subst hdr. rewrite ipv4_header_split in *.
    change 10%nat with (length (ipv4_pre (20 + lenN l4) (v_proto v))) in Hhdr |- *.
    apply verify_sealed0; [reflexivity | | reflexivity].
    apply bytes_ok_unsealed in Hhdr. apply sum_words_le in Hhdr.
    rewrite <- ipv4_header_split in Hhdr |- *. unfold lenN in Hhdr |- *.
    rewrite ipv4_header_length in Hhdr by assumption. lia.
  - erewrite wf_l4_ext; [exact Hl4 | reflexivity ..].
Qed.

Lemma wf_wrap6 cfg f v rsrc hlim l4 :
  cfg_ok cfg = true -> bytes_ok f = true -> view cfg f = Some v -> v_v4 v = false ->
  length rsrc = 16%nat -> 1 <= hlim < 256 ->
  lenN (wrap_ip cfg f v rsrc hlim l4) < 65536 ->
  wf_l4 (mkip false hlim (v_proto v) rsrc (v_src v) l4) = true ->
  wf_frame (wrap_ip cfg f v rsrc hlim l4) = true.
Proof.
  intros Hcfg Hf Hv Hv4 Hrs Hh Hlen Hl4.
  unfold lenN in Hlen.
  rewrite (wrap_ip_length _ _ _ _ _ _ Hcfg Hv) in Hlen by (rewrite Hv4; exact Hrs).
  rewrite Hv4 in Hlen.
  destruct (view_sizes _ _ _ Hv) as (Hm & Hsz). rewrite Hv4 in Hsz. destruct Hsz as [Hs Hd].
  destruct (view_fields_ok _ _ _ Hf Hv) as (Hsok & Hdok & Hp).
  pose proof (cfg_ok_mac _ Hcfg) as Hmac.
  unfold wrap_ip, wf_frame. rewrite Hv4.
  rewrite dec_eth_frame by (assumption || lia).
  cbn [de_type de_payload]. change (34525 =? 2054) with false. change (34525 =? 2048) with false.
  change (34525 =? 34525) with true. cbv iota.
  rewrite dec_ipv6_packet by (assumption || lia).
  cbn [di_len_field di_payload di_ttl].
  repeat (apply andb_true_iff; split).
  - apply N.eqb_eq. unfold lenN. lia.
  - apply N.leb_le. lia.
  - erewrite wf_l4_ext; [exact Hl4 | reflexivity ..].
Qed.

(* ---------- layer 4: the receiver's checksum over a sealed packet ---------- *)
Lemma l4_sum_sealed v4 ttl proto src dst a b c :
  let p := a ++ [0; 0] ++ b in
  let s := sum_words src + sum_words dst + proto + lenN p + sum_words p in
  Nat.even (length a) = true ->
  bytes_ok src = true -> bytes_ok dst = true ->
  (length src <= 16)%nat -> (length dst <= 16)%nat -> proto < 256 ->
  bytes_ok (set_cksum (length a) p c) = true -> lenN p < 65536 ->
  c = finalize s \/ c = udp6_cksum (finalize s) ->
  l4_sum_ok (mkip v4 ttl proto src dst (set_cksum (length a) p c)) = true.
Proof.
  intros p s He Hs Hd Hsl Hdl Hp Hok Hlen Hc.
  unfold l4_sum_ok, mkip. cbn [di_src di_dst di_proto di_payload].
  assert (lenN (set_cksum (length a) p c) = lenN p) as ->.
  { unfold lenN. rewrite set_cksum_length; [reflexivity|].
    subst p. rewrite !app_length. cbn [length]. lia. }
  apply verify_sealed; [exact He | | exact Hc].
  apply bytes_ok_unsealed in Hok. apply sum_words_le in Hok. fold p in Hok.
  apply sum_words_le in Hs. apply sum_words_le in Hd.
  fold p. unfold lenN in *. lia.
Qed.

(* ----- TCP ----- *)
Definition tcp_pre (sp dp seq ack fl : N) : bytes :=
  be16 sp ++ be16 dp ++ be32 seq ++ be32 ack ++ [80 + (fl / 256) mod 2; fl mod 256] ++ be16 65535.

Lemma tcp_split sp dp seq ack fl pl :
  tcp_header sp dp seq ack fl ++ pl = tcp_pre sp dp seq ack fl ++ [0; 0] ++ ([0; 0] ++ pl).
Proof. reflexivity. Qed.

Lemma wf_l4_tcp v4 ttl src dst sp dp seq ack fl pl :
  let r := tcp_header sp dp seq ack fl ++ pl in
  fl < 512 ->
  bytes_ok src = true -> bytes_ok dst = true ->
  (length src <= 16)%nat -> (length dst <= 16)%nat ->
  bytes_ok (set_cksum 16 r (checksum_pseudo src dst 6 r)) = true -> lenN r < 65536 ->
  wf_l4 (mkip v4 ttl 6 src dst (set_cksum 16 r (checksum_pseudo src dst 6 r))) = true.
Proof.
  intros r Hfl Hs Hd Hsl Hdl Hok Hlen.
  unfold wf_l4. cbn [mkip di_proto di_payload]. change (6 =? 6) with true. cbv iota.
  subst r. rewrite dec_tcp_segment by exact Hfl.
  cbn [dt_doff dt_flags dt_window]. unfold tcp_opts.
  change (N.to_nat 5 * 4 - 20)%nat with 0%nat. cbn [firstn length opts_wf].
  change (65535 =? 0) with false. cbn [negb andb].
  assert ((if fl =? 18 then true else true) = true) as -> by (destruct (fl =? 18); reflexivity).
  rewrite andb_true_r.
  rewrite tcp_split in *.
  change 16%nat with (length (tcp_pre sp dp seq ack fl)) in Hok |- *.
  apply l4_sum_sealed; try assumption; try reflexivity; try lia.
  left. reflexivity.
Qed.

(* ----- UDP ----- *)
Definition udp_pre (sp dp len : N) : bytes := be16 sp ++ be16 dp ++ be16 len.

Lemma udp_split sp dp len d :
  be16 sp ++ be16 dp ++ be16 len ++ [0; 0] ++ d = udp_pre sp dp len ++ [0; 0] ++ d.
Proof. reflexivity. Qed.

Lemma wf_l4_udp (v4 : bool) ttl src dst sp dp d c :
  let r := be16 sp ++ be16 dp ++ be16 (8 + lenN d) ++ [0; 0] ++ d in
  let c0 := checksum_pseudo src dst 17 r in
  bytes_ok src = true -> bytes_ok dst = true ->
  (length src <= 16)%nat -> (length dst <= 16)%nat ->
  bytes_ok (set_cksum 6 r c) = true -> lenN r < 65536 ->
  c = (if v4 then c0 else udp6_cksum c0) ->
  wf_l4 (mkip v4 ttl 17 src dst (set_cksum 6 r c)) = true.
Proof.
  intros r c0 Hs Hd Hsl Hdl Hok Hlen Hc.
  unfold wf_l4. cbn [mkip di_proto di_payload di_v4]. change (17 =? 6) with false.
  change (17 =? 17) with true. cbv iota.
  subst r. rewrite dec_udp_datagram. cbn [du_len du_cksum].
  assert (l4_sum_ok (mkip v4 ttl 17 src dst
            (set_cksum 6 (be16 sp ++ be16 dp ++ be16 (8 + lenN d) ++ [0; 0] ++ d) c)) = true) as Hsum.
  { rewrite udp_split in *.
    change 6%nat with (length (udp_pre sp dp (8 + lenN d))) in Hok |- *.
    apply l4_sum_sealed; try assumption; try reflexivity; try lia.
    subst c c0. destruct v4; [left | right]; reflexivity. }
  rewrite Hsum.
  apply andb_true_iff; split.
  - apply N.eqb_eq. unfold lenN in *. rewrite set_cksum_length; rewrite !app_length in *; cbn [length be16] in *; lia.
  - destruct v4; [apply orb_true_r|].
    rewrite andb_true_r. apply negb_true_iff, N.eqb_neq.
    subst c. pose proof (udp6_cksum_nz c0). pose proof (udp6_cksum_lt c0 ltac:(apply finalize_lt)). lia.
Qed.

(* ----- ICMPv4 echo reply ----- *)
Lemma wf_l4_icmp4 ttl src dst q :
  let r := [0; 0; 0; 0] ++ q in
  bytes_ok (seal_icmp4 r) = true -> lenN r < 65536 ->
  wf_l4 (mkip true ttl 1 src dst (seal_icmp4 r)) = true.
Proof.
  intros r Hok Hlen.
  unfold wf_l4. cbn [mkip di_proto di_payload di_v4]. change (1 =? 6) with false.
  change (1 =? 17) with false. change (1 =? 1) with true. cbn [andb]. cbv iota.
  unfold seal_icmp4 in *.
  assert (checksum r = finalize (sum_words r)) as Hck by reflexivity.
  rewrite Hck in *. clear Hck.
  apply andb_true_iff; split.
  - apply Nat.leb_le. rewrite set_cksum_length; subst r; cbn [app length]; lia.
  - subst r.
    change ([0; 0; 0; 0] ++ q) with ([0; 0] ++ [0; 0] ++ q) in Hok, Hlen |- *.
    change 2%nat with (length [0; 0]) in Hok |- *.
    apply verify_sealed0; [reflexivity | | reflexivity].
    apply bytes_ok_unsealed in Hok. apply sum_words_le in Hok. unfold lenN in *. lia.
Qed.

(* ----- ICMPv6: echo reply and neighbour advertisement ----- *)
Lemma wf_l4_icmp6 hlim (vsrc rsrc : bytes) (t : N) (q : bytes) :
  let r := [t; 0; 0; 0] ++ q in
  let c := checksum_pseudo vsrc rsrc 58 r in
  bytes_ok vsrc = true -> bytes_ok rsrc = true ->
  (length vsrc <= 16)%nat -> (length rsrc <= 16)%nat ->
  bytes_ok (set_cksum 2 r c) = true -> lenN r < 65536 ->
  (if t =? 136 then hlim =? 255 else true) = true ->
  wf_l4 (mkip false hlim 58 rsrc vsrc (set_cksum 2 r c)) = true.
Proof.
  intros r c Hs Hd Hsl Hdl Hok Hlen Hh.
  unfold wf_l4. cbn [mkip di_proto di_payload di_v4 di_ttl]. change (58 =? 6) with false.
  change (58 =? 17) with false. change (58 =? 58) with true. cbn [andb negb]. cbv iota.
  assert (l4_sum_ok (mkip false hlim 58 rsrc vsrc (set_cksum 2 r c)) = true) as Hsum.
  { change r with ([t; 0] ++ [0; 0] ++ q) in *.
    change 2%nat with (length [t; 0]) in Hok |- *.
    apply l4_sum_sealed; try assumption; try reflexivity; try lia.
    left. subst c. unfold checksum_pseudo, pseudo_sum. f_equal. lia. }
  rewrite Hsum.
  apply andb_true_iff; split; [apply andb_true_iff; split; [|reflexivity]|].
  - apply Nat.leb_le. rewrite set_cksum_length; subst r; cbn [app length]; lia.
  - subst r. unfold set_cksum, u8_at. list_cbn. exact Hh.
Qed.

(* ---------- shapes of what the responders return ---------- *)
Lemma udp_repl_shape E cfg clk ci p ci' r evs :
  udp_repl E cfg clk ci p = Ok (ci', Some r, evs) ->
  exists sp dp d, r = be16 sp ++ be16 dp ++ be16 (8 + lenN d) ++ [0; 0] ++ d.
Proof.
  unfold udp_repl.
  destruct (proto_repl_udp _ _ _ _) as [[ci1 [d|]]|s]; cbn [bind]; try discriminate.
  destruct (ci_port_dst ci1) as [sp|]; [|discriminate].
  destruct (ci_port_src ci1) as [dp|]; [|discriminate].
  intros H. inversion H; subst. eexists _, _, _. reflexivity.
Qed.

Lemma icmpv4_repl_shape ci p r evs :
  icmpv4_repl ci p = (Some r, evs) -> r = [0; 0; 0; 0] ++ skipn 4 p.
Proof.
  unfold icmpv4_repl. destruct (_ && _); [|discriminate].
  intros H. inversion H. reflexivity.
Qed.

Lemma icmpv6_repl_shape cfg ci p r tgt evs :
  icmpv6_repl cfg ci p = (Some r, tgt, evs) ->
  (exists t, tgt = Some t /\ length t = 16%nat /\ t = slice 8 16 p /\ r = [136; 0; 0; 0] ++ ([96; 0; 0; 0] ++ t ++ [2; 1] ++ c_mac cfg)) \/
  (tgt = None /\ r = [129; 0; 0; 0] ++ skipn 4 p).
Proof.
  unfold icmpv6_repl.
  destruct (negb (u8_at 1 p =? 0)); [discriminate|].
  destruct (u8_at 0 p =? 135).
  - destruct (length p <? 24)%nat eqn:Hl; [discriminate|].
    match goal with |- context [if ?c then _ else _] => destruct c end; [discriminate|].
    intros H. inversion H. left. eexists. split; [reflexivity|]. split; [|split; reflexivity].
    apply slice_length. apply ltb_false_le in Hl. lia.
  - destruct (u8_at 0 p =? 128); [|discriminate].
    match goal with |- context [if ?c then _ else _] => destruct c end; [discriminate|].
    intros H. inversion H. right. split; reflexivity.
Qed.

Lemma some_inj {A : Type} (a b : A) : Some a = Some b -> a = b.
Proof. intros H. congruence. Qed.

Lemma arp_repl_length cfg p r evs :
  cfg_ok cfg = true -> arp_repl cfg p = (Some r, evs) -> (28 <= length p)%nat -> (28 <= length r)%nat.
Proof.
  intros Hcfg H Hl. pose proof (cfg_ok_mac _ Hcfg) as Hmac. unfold arp_repl in H.
  destruct (u16_at 6 p =? 1); [|discriminate].
  match type of H with context [if ?c then _ else _] => destruct c end; [discriminate|].
  apply (f_equal fst) in H. cbn [fst] in H. apply some_inj in H. subst r.
  rewrite !app_length, Hmac, !slice_length by lia. cbn [length]. lia.
Qed.

Lemma tcp_repl_fl_lt E cfg clk tb ci p tb' ci' r evs :
  tcp_repl E cfg clk tb ci p = Ok (tb', ci', Some r, evs) ->
  exists sp dp seq ack fl pl, r = tcp_header sp dp seq ack fl ++ pl /\ fl < 512.
Proof.
  intros H. destruct (tcp_repl_flags _ _ _ _ _ _ _ _ _ _ H) as (sp & dp & sq & ak & fl & pl & Hr & Hc).
  exists sp, dp, sq, ak, fl, pl. split; [exact Hr|].
  unfold ACK, PSH, FIN, SYN in Hc.
  destruct (tcp_class (tcp_flags p)); try contradiction; lia.
Qed.

Lemma set_cksum_lenN (off : nat) (p : bytes) (c : N) :
  (off + 2 <= length p)%nat -> lenN (set_cksum off p c) = lenN p.
Proof. intros H. unfold lenN. rewrite set_cksum_length by exact H. reflexivity. Qed.

(* ---------- the theorem ---------- *)
Lemma wf_arp_frame dst src r :
  length dst = 6%nat -> length src = 6%nat -> (28 <= length r)%nat ->
  wf_frame (eth_frame dst src 2054 r) = true.
Proof.
  intros Hd Hs Hr. unfold wf_frame. rewrite dec_eth_frame by (assumption || lia).
  cbn [de_type de_payload]. change (2054 =? 2054) with true. cbv iota. apply Nat.leb_le. exact Hr.
Qed.

Section Wrapped.
  Variables (cfg : config) (f : bytes) (v : l4view).
  Hypothesis Hcfg : cfg_ok cfg = true.
  Hypothesis Hf : bytes_ok f = true.
  Hypothesis Hv : view cfg f = Some v.

  Lemma view_addr_len :
    (length (v_src v) <= 16)%nat /\ (length (v_dst v) <= 16)%nat /\
    length (v_dst v) = (if v_v4 v then 4 else 16)%nat.
  Proof.
    destruct (view_sizes _ _ _ Hv) as (_ & Hsz). destruct (v_v4 v); destruct Hsz as [-> ->]; lia.
  Qed.

  (* reduce well-formedness of a wrapped packet to [wf_l4] plus facts on the packet *)
  Lemma wf_wrapped rsrc hlim l4 :
    length rsrc = (if v_v4 v then 4 else 16)%nat -> 1 <= hlim < 256 ->
    bytes_ok (wrap_ip cfg f v rsrc hlim l4) = true ->
    lenN (wrap_ip cfg f v rsrc hlim l4) < 65536 ->
    (bytes_ok l4 = true -> lenN l4 < 65536 ->
     wf_l4 (mkip (v_v4 v) (if v_v4 v then 64 else hlim) (v_proto v) rsrc (v_src v) l4) = true) ->
    wf_frame (wrap_ip cfg f v rsrc hlim l4) = true.
  Proof.
    intros Hrs Hh Hok Hlen Hl4.
    pose proof (wrap_ip_l4_ok _ _ _ _ _ _ Hok) as Hl4ok.
    pose proof Hlen as Hlen'. unfold lenN in Hlen'. rewrite (wrap_ip_length _ _ _ _ _ _ Hcfg Hv Hrs) in Hlen'.
    assert (lenN l4 < 65536) as Hl4len by (unfold lenN; destruct (v_v4 v); lia).
    specialize (Hl4 Hl4ok Hl4len).
    destruct (v_v4 v) eqn:Hv4.
    - apply wf_wrap4; assumption.
    - apply wf_wrap6; assumption.
  Qed.
End Wrapped.

Theorem wellformed E cfg clk tb f tb' r evs :
  cfg_ok cfg = true -> bytes_ok f = true ->
  reply E cfg clk tb f = Ok (tb', Some r, evs) ->
  bytes_ok r = true -> (length r < 65536)%nat ->
  wf_frame r = true.
Proof.
  intros Hcfg Hf Hr Hrok Hrlen. apply lenN_lt_65536 in Hrlen.
  apply reply_factor_ok in Hr. unfold reply_spec in Hr.
  destruct (length f <? 14)%nat eqn:Hlen; [discriminate|].
  destruct (auth_mac cfg (slice 0 6 f)); cbn [negb] in Hr; [|discriminate].
  apply ltb_false_le in Hlen.
  destruct (u16_at 12 f =? 2054).
  { (* ARP *)
    destruct (length (skipn 14 f) <? 28)%nat eqn:Hl; [discriminate|].
    destruct (arp_repl cfg (skipn 14 f)) as [[x|] e] eqn:Ha; [|discriminate].
    apply ok_pair_inj in Hr. destruct Hr as [_ Hr]. apply some_inj in Hr. subst r. apply ltb_false_le in Hl.
    apply wf_arp_frame; [apply slice_length; lia | apply cfg_ok_mac; exact Hcfg |].
    eapply arp_repl_length; eassumption. }
  destruct (view cfg f) as [v|] eqn:Hv; [|discriminate].
  destruct (view_fields_ok _ _ _ Hf Hv) as (Hsok & Hdok & Hp).
  destruct (view_addr_len cfg f v Hv) as (Hsl & Hdl & Hdl').
  unfold l3_reply in Hr.
  assert (forall l4, r = wrap_ip cfg f v (v_dst v) 64 l4 ->
            (bytes_ok l4 = true -> lenN l4 < 65536 ->
             wf_l4 (mkip (v_v4 v) 64 (v_proto v) (v_dst v) (v_src v) l4) = true) ->
            wf_frame r = true) as Hwrap.
  { intros l4 -> Hl4. apply wf_wrapped; try assumption; try lia.
    destruct (v_v4 v); exact Hl4. }
  assert (forall tb0 tb1 l4,
            match tcp_repl E cfg clk tb0 (l3_ci f v) (v_l4 v) with
            | Ok (tb', _, Some r, _) => Ok (tb', Some (wrap_ip cfg f v (v_dst v) 64 (seal_tcp v r)))
            | Ok (tb', _, None, _) => Ok (tb', None)
            | Panic s => Panic s
            end = Ok (tb1, Some l4) -> v_proto v = 6 -> l4 = r -> wf_frame r = true) as Htcp.
  { intros tb0 tb1 l4 H Hp6 <-. revert H.
    destruct (tcp_repl E cfg clk tb0 (l3_ci f v) (v_l4 v)) as [[[[tb2 ci2] [seg|]] evs2]|s] eqn:Ht;
      intros H; try discriminate.
    apply ok_pair_inj in H. destruct H as [_ H]. apply some_inj in H. subst l4.
    destruct (tcp_repl_fl_lt _ _ _ _ _ _ _ _ _ _ Ht) as (sp & dp & sq & ak & fl & pl & -> & Hfl).
    eapply Hwrap; [reflexivity|]. intros Hok Hl. rewrite Hp6. unfold seal_tcp in *.
    rewrite set_cksum_lenN in Hl by (rewrite app_length; cbn [tcp_header be16 be32 app length]; lia).
    apply wf_l4_tcp; assumption. }
  destruct (v_v4 v) eqn:Hv4.
  - (* IPv4 *)
    destruct (v_proto v =? 1) eqn:P1.
    { apply N.eqb_eq in P1.
      destruct (length (v_l4 v) <? 4)%nat; [discriminate|].
      destruct (icmpv4_repl _ _) as [[x|] e] eqn:Hi; [|discriminate].
      apply icmpv4_repl_shape in Hi. subst x. apply ok_pair_inj in Hr. destruct Hr as [_ Hr]. apply some_inj in Hr. subst r.
      eapply Hwrap; [reflexivity|]. intros Hok Hl. rewrite P1.
      unfold seal_icmp4 in Hl. rewrite set_cksum_lenN in Hl by (cbn [app length]; lia).
      apply wf_l4_icmp4; assumption. }
    destruct (v_proto v =? 6) eqn:P6.
    { apply N.eqb_eq in P6.
      destruct (length (v_l4 v) <? 20)%nat; [discriminate|].
      eapply Htcp; [exact Hr | exact P6 | reflexivity]. }
    destruct (v_proto v =? 17) eqn:P17; [|discriminate].
    apply N.eqb_eq in P17.
    destruct (length (v_l4 v) <? 8)%nat; [discriminate|].
    destruct (udp_repl _ _ _ _ _) as [[[ci' [x|]] e]|s] eqn:Hu; try discriminate.
    destruct (65535 <? lenN x); [discriminate|].
    destruct (udp_repl_shape _ _ _ _ _ _ _ _ Hu) as (sp & dp & d & ->).
    apply ok_pair_inj in Hr. destruct Hr as [_ Hr]. apply some_inj in Hr. subst r.
    eapply Hwrap; [reflexivity|]. intros Hok Hl. rewrite P17. unfold seal_udp in *. rewrite Hv4 in *.
    rewrite set_cksum_lenN in Hl by (rewrite !app_length; cbn [be16 length]; lia).
    eapply wf_l4_udp; try eassumption. reflexivity.
  - (* IPv6 *)
    destruct (v_proto v =? 58) eqn:P58.
    { apply N.eqb_eq in P58.
      destruct (length (v_l4 v) <? 4)%nat; [discriminate|].
      destruct (icmpv6_repl _ _ _) as [[[x|] tgt] e] eqn:Hi; [|discriminate].
      apply icmpv6_repl_shape in Hi. apply ok_pair_inj in Hr. destruct Hr as [_ Hr]. apply some_inj in Hr. subst r. clear Hwrap Htcp.
      destruct Hi as [(t & -> & Htl & Ht & ->) | (-> & ->)].
      - change (u8_at 0 ([136; 0; 0; 0] ++ [96; 0; 0; 0] ++ t ++ [2; 1] ++ c_mac cfg) =? 136) with true in *.
        cbv iota in *.
        assert (bytes_ok t = true) as Htok.
        { rewrite Ht. apply bytes_ok_slice. exact (view_l4_ok cfg f v Hf Hv). }
        clear Ht.
        apply wf_wrapped; try assumption; try lia; [rewrite Hv4; exact Htl|].
        intros Hok Hl. rewrite Hv4, P58. unfold seal_icmp6 in *.
        rewrite set_cksum_lenN in Hl by (cbn [app length]; lia).
        apply wf_l4_icmp6; try assumption; try lia. reflexivity.
      - change (u8_at 0 ([129; 0; 0; 0] ++ skipn 4 (v_l4 v)) =? 136) with false in *.
        cbv iota in *.
        apply wf_wrapped; try assumption; try lia; [rewrite Hv4; exact Hdl'|].
        intros Hok Hl. rewrite Hv4, P58. unfold seal_icmp6 in *.
        rewrite set_cksum_lenN in Hl by (cbn [app length]; lia).
        apply wf_l4_icmp6; try assumption; try lia. reflexivity. }
    destruct (v_proto v =? 6) eqn:P6.
    { apply N.eqb_eq in P6.
      destruct (length (v_l4 v) <? 20)%nat; [discriminate|].
      eapply Htcp; [exact Hr | exact P6 | reflexivity]. }
    destruct (v_proto v =? 17) eqn:P17; [|discriminate].
    apply N.eqb_eq in P17.
    destruct (length (v_l4 v) <? 8)%nat; [discriminate|].
    destruct (udp_repl _ _ _ _ _) as [[[ci' [x|]] e]|s] eqn:Hu; try discriminate.
    destruct (udp_repl_shape _ _ _ _ _ _ _ _ Hu) as (sp & dp & d & ->).
    apply ok_pair_inj in Hr. destruct Hr as [_ Hr]. apply some_inj in Hr. subst r.
    eapply Hwrap; [reflexivity|]. intros Hok Hl. rewrite P17. unfold seal_udp in *. rewrite Hv4 in *.
    rewrite set_cksum_lenN in Hl by (rewrite !app_length; cbn [be16 length]; lia).
    eapply wf_l4_udp; try eassumption. reflexivity.
Qed.
