(* Proofs/C03Cor.v -- the link-layer and network-layer clauses of C03 as plain
   statements about the decoded reply (no monitor in the statement).
   Corollaries of [mirror]. *)
From MS Require Import Proto L2 Spec.View Spec.RefDec Spec.C03 Spec.EnvOk Proofs.Tactics Proofs.C03.

Section Cor.
  Variables (E : env) (cfg : config) (clk : clock) (tb tb' : table) (f rf : bytes)
            (evs : list event).
  Hypothesis Hcfg : cfg_ok cfg = true.
  Hypothesis HE : env_ok E = true.
  Hypothesis Hf : bytes_ok f = true.
  Hypothesis Hr : reply E cfg clk tb f = Ok (tb', Some rf, evs).

  (* every reply frame: from the configured MAC, to the MAC that asked, same EtherType *)
  Lemma reply_ethernet :
    exists e, dec_eth rf = Some e /\ de_src e = c_mac cfg /\
              de_dst e = firstn 6 (skipn 6 f) /\ de_type e = u16_at 12 f.
  Proof.
    pose proof (mirror _ _ _ _ _ _ _ _ Hcfg HE Hf Hr) as H.
    unfold ok_C03, ok_C03_gen in H.
    destruct (dec_eth rf) as [e|]; [|discriminate].
    exists e. split; [reflexivity|].
    repeat match type of H with (_ && _) = true => apply andb_prop in H; destruct H as [H ?] end.
    repeat split.
    - apply bytes_eqb_eq; assumption.
    - apply bytes_eqb_eq; assumption.
    - apply N.eqb_eq; assumption.
  Qed.

  (* every IP reply: same IP version and protocol, addressed to the source of the request *)
  Lemma reply_ip :
    forall e, dec_eth rf = Some e -> de_type e <> 2054 ->
    exists i v, dec_ip e = Some i /\ view cfg f = Some v /\
                di_v4 i = v_v4 v /\ di_proto i = v_proto v /\ di_dst i = v_src v.
  Proof.
    intros e He Ht. pose proof (mirror _ _ _ _ _ _ _ _ Hcfg HE Hf Hr) as H.
    unfold ok_C03, ok_C03_gen in H. rewrite He in H.
    apply N.eqb_neq in Ht.
    apply andb_prop in H. destruct H as [_ H]. rewrite Ht in H.
    destruct (dec_ip e) as [i|]; [|discriminate].
    destruct (view cfg f) as [v|]; [|discriminate].
    exists i, v. do 2 (split; [reflexivity|]).
    repeat match type of H with (_ && _) = true => apply andb_prop in H; destruct H as [H ?] end.
    repeat split.
    - apply Bool.eqb_prop; assumption.
    - apply N.eqb_eq; assumption.
    - apply bytes_eqb_eq; assumption.
  Qed.
End Cor.
