(* Proofs/C09.v *)
From MS Require Import Proofs.Tactics Proofs.Pipeline Proofs.ViewLemmas Proofs.C06 Proofs.TcpState
     L2 Spec.View Spec.TcpRef Spec.C09 Spec.History.

Lemma flow_eqb_eq a b : flow_eqb a b = true -> a = b.
Proof.
  unfold flow_eqb. intros H.
  apply andb_true_iff in H; destruct H as [H H5].
  apply andb_true_iff in H; destruct H as [H H4].
  apply andb_true_iff in H; destruct H as [H H3].
  apply andb_true_iff in H; destruct H as [H1 H2].
  destruct a, b; cbn in *. apply eqb_prop in H1.
  apply bytes_eqb_eq in H2. apply bytes_eqb_eq in H3. f_equal; try assumption; lia.
Qed.

Lemma ref_mem_key cfg fl st : ref_mem fl st = true -> In (flow_cookie cfg fl) (ref_keys cfg st).
Proof.
  unfold ref_mem, ref_keys. rewrite existsb_exists. intros (x & Hx & He).
  apply flow_eqb_eq in He. subst x. apply in_map. exact Hx.
Qed.

Definition same_keys (cfg : config) (tb : table) (st : ref_state) : Prop :=
  forall k, In k (keys tb) <-> In k (ref_keys cfg st).

Lemma step_same_keys E cfg clk tb st f tb' r evs :
  bytes_ok f = true ->
  same_keys cfg tb st ->
  reply E cfg clk tb f = Ok (tb', r, evs) ->
  same_keys cfg tb' (ref_step cfg st f).
Proof.
  intros Hf Hs Hr. pose proof (reply_table_step _ _ _ _ _ _ _ _ Hf Hr) as T.
  unfold ref_step, validates. destruct (view_tcp cfg f) as [v|]; [|subst tb'; exact Hs].
  cbv zeta in T.
  destruct (is_data (tcp_flags (v_l4 v))); cbn [andb] in *; [|subst tb'; exact Hs].
  destruct (presents_cookie cfg v) eqn:Hp.
  - rewrite orb_true_r in T. destruct T as (tc' & ->).
    intros k. rewrite keys_tbl_set.
    destruct (ref_mem (flow_of v) st) eqn:Hm.
    + pose proof (ref_mem_key cfg _ _ Hm) as Hk. apply Hs in Hk.
      apply tbl_mem_In in Hk. rewrite Hk. apply Hs.
    + unfold ref_keys. cbn [map].
      destruct (tbl_mem _ tb) eqn:Hmem.
      * apply tbl_mem_In in Hmem. rewrite (Hs k). unfold ref_keys.
        split; [intros H; right; exact H|]. intros [<-|H]; [apply Hs; exact Hmem|exact H].
      * rewrite in_app_iff. rewrite (Hs k). unfold ref_keys. cbn. tauto.
  - rewrite orb_false_r in T.
    destruct (tbl_mem _ tb) eqn:Hmem; [|subst tb'; exact Hs].
    destruct T as (tc' & ->). intros k. rewrite keys_tbl_set, Hmem. apply Hs.
Qed.

Lemma step_nodup E cfg clk tb f tb' r evs :
  bytes_ok f = true -> NoDup (keys tb) ->
  reply E cfg clk tb f = Ok (tb', r, evs) -> NoDup (keys tb').
Proof.
  intros Hf Hn Hr. pose proof (reply_table_step _ _ _ _ _ _ _ _ Hf Hr) as T.
  destruct (view_tcp cfg f) as [v|]; [|subst tb'; exact Hn].
  cbv zeta in T. destruct (_ && _); [|subst tb'; exact Hn].
  destruct T as (tc' & ->). apply nodup_tbl_set. exact Hn.
Qed.

Lemma run_invariant E cfg h : forall tb st tb',
  Forall (fun f => bytes_ok f = true) (frames h) ->
  same_keys cfg tb st -> NoDup (keys tb) ->
  run E cfg tb h = Ok tb' ->
  same_keys cfg tb' (fold_left (ref_step cfg) (frames h) st) /\ NoDup (keys tb').
Proof.
  induction h as [|[clk f] h IH]; intros tb st tb' Hall Hs Hn Hrun; cbn in *.
  - inversion Hrun; subst. split; assumption.
  - inversion Hall as [|? ? Hf Hall']; subst.
    destruct (reply E cfg clk tb f) as [[[tb1 r] evs]|s] eqn:Hr; [|discriminate].
    apply (IH tb1 (ref_step cfg st f) tb' Hall').
    + eapply step_same_keys; eassumption.
    + eapply step_nodup; eassumption.
    + exact Hrun.
Qed.

Theorem table_keys E cfg h tb :
  Forall (fun f => bytes_ok f = true) (frames h) ->
  run E cfg [] h = Ok tb ->
  forall k, In k (keys tb) <-> In k (ref_keys cfg (ref_run cfg (frames h))).
Proof.
  intros Hall Hrun. apply (run_invariant E cfg h [] [] tb Hall); [intros k; cbn; tauto|constructor|exact Hrun].
Qed.

Theorem table_nodup E cfg h tb :
  Forall (fun f => bytes_ok f = true) (frames h) ->
  run E cfg [] h = Ok tb -> NoDup (keys tb).
Proof.
  intros Hall Hrun. apply (run_invariant E cfg h [] [] tb Hall); [intros k; cbn; tauto|constructor|exact Hrun].
Qed.

(* dedup keeps exactly the elements and has no duplicates *)
Lemma dedup_In l x : In x (dedup l) <-> In x l.
Proof.
  induction l as [|y l IH]; cbn; [tauto|].
  destruct (existsb (N.eqb y) l) eqn:E.
  - rewrite IH. split; [tauto|]. intros [<-|H]; [|exact H].
    apply existsb_exists in E. destruct E as (z & Hz & Hyz). apply N.eqb_eq in Hyz. subst z. exact Hz.
  - cbn. rewrite IH. tauto.
Qed.

Lemma dedup_NoDup l : NoDup (dedup l).
Proof.
  induction l as [|y l IH]; cbn; [constructor|].
  destruct (existsb (N.eqb y) l) eqn:E; [exact IH|].
  constructor; [|exact IH]. rewrite dedup_In. intros H.
  assert (existsb (N.eqb y) l = true) as X; [|congruence].
  apply existsb_exists. exists y. split; [exact H|apply N.eqb_refl].
Qed.

Lemma nodup_same_length (a b : list N) :
  NoDup a -> NoDup b -> (forall x, In x a <-> In x b) -> length a = length b.
Proof.
  intros Ha Hb H. apply Nat.le_antisymm.
  - apply NoDup_incl_length; [exact Ha|]. intros x Hx. apply H. exact Hx.
  - apply NoDup_incl_length; [exact Hb|]. intros x Hx. apply H. exact Hx.
Qed.

Theorem size E cfg h tb :
  Forall (fun f => bytes_ok f = true) (frames h) ->
  run E cfg [] h = Ok tb ->
  length tb = expected_size cfg (frames h).
Proof.
  intros Hall Hrun. unfold expected_size.
  replace (length tb) with (length (keys tb)) by (unfold keys; apply map_length).
  apply nodup_same_length.
  - eapply table_nodup; eassumption.
  - apply dedup_NoDup.
  - intros x. rewrite dedup_In. eapply table_keys; eassumption.
Qed.

(* a frame that does not validate a flow never adds a key; a frame that is not an
   accepted data segment leaves the table syntactically unchanged *)
Theorem non_validating E cfg clk tb f tb' r evs :
  bytes_ok f = true ->
  reply E cfg clk tb f = Ok (tb', r, evs) ->
  (validates cfg f = None -> keys tb' = keys tb) /\
  ((match view_tcp cfg f with
    | Some v => is_data (tcp_flags (v_l4 v)) &&
                (tbl_mem (flow_cookie cfg (flow_of v)) tb || presents_cookie cfg v)
    | None => false
    end) = false -> tb' = tb).
Proof.
  intros Hf Hr. pose proof (reply_table_step _ _ _ _ _ _ _ _ Hf Hr) as T.
  unfold validates. destruct (view_tcp cfg f) as [v|]; [|split; intros _; subst; reflexivity].
  cbv zeta in T. split.
  - intros Hv. destruct (is_data _); cbn [andb] in *; [|subst; reflexivity].
    destruct (presents_cookie cfg v); [discriminate|]. rewrite orb_false_r in T.
    destruct (tbl_mem _ tb) eqn:Hm; [|subst; reflexivity].
    destruct T as (tc' & ->). rewrite keys_tbl_set, Hm. reflexivity.
  - intros Hc. rewrite Hc in T. exact T.
Qed.
