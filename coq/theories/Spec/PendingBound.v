(* Spec/PendingBound.v -- a per-table check, decided by computation on the dumped matcher:
   a stream whose first [L] bytes complete no signature never completes one.  The rows
   the matcher can be in after exactly [k] bytes without a match are computed layer by
   layer; the check asks that layer [L] be closed under every symbol and lead to no match.
   With L <= PENDING_MAX + 1 this is what makes the bounded prefix buffer of proto::repl
   lossless: the buffer is dropped only on flows that can no longer be identified.
   Definitions only. *)
From MS Require Export Bytes Smack.

Definition memN (x : N) (l : list N) : bool := existsb (N.eqb x) l.
Definition add_row (acc : list N) (x : N) : list N := if memN x acc then acc else x :: acc.
Definition add_rows (acc : list N) (xs : list N) : list N := fold_left add_row xs acc.

(* the columns a received byte can select *)
Definition byte_cols (t : smack) : list N := add_rows [] (map (sm_sym t) (seq 0 256)).

Definition row_succs (t : smack) (cols : list N) (r : N) : list N :=
  filter (fun r' => r' <? sm_match_limit t) (map (sm_next t r) cols).
Definition next_layer (t : smack) (cols : list N) (l : list N) : list N :=
  fold_left (fun acc r => add_rows acc (row_succs t cols r)) l [].
Fixpoint layer_c (t : smack) (cols : list N) (k : nat) : list N :=
  match k with
  | O => [BASE_STATE]
  | S k' => next_layer t cols (layer_c t cols k')
  end.
Definition layer (t : smack) (k : nat) : list N := layer_c t (byte_cols t) k.

(* from the rows of [l] every byte leads back into [l], below the match limit *)
Definition layer_dead_c (t : smack) (cols : list N) (l : list N) : bool :=
  forallb (fun r => forallb (fun c => let r' := sm_next t r c in
                                      (r' <? sm_match_limit t) && memN r' l) cols) l.
Definition layer_dead (t : smack) (l : list N) : bool := layer_dead_c t (byte_cols t) l.

Definition ident_bound_ok (t : smack) (L : nat) : bool :=
  let cols := byte_cols t in layer_dead_c t cols (layer_c t cols L).
