(* LiftTcp.v -- from frames to the application layer and back, GENERIC in the
   property:

   * [tcp_first_lift_state] / [tcp_first_lift_history]: the first accepted data
     segment of a TCP flow (state level: the flow's cookie is not a key of the
     connection table and the segment presents the cookie; history level: the
     flow is not validated in the reference connection state [ref_run], no
     cookie collision) is answered with exactly what [proto_repl_tcp] returns
     for its payload on a fresh control block: the emitted frame is a TCP
     segment that carries that output (the empty segment when there is none),
     its ports are the ones of the client information handed back, and the
     table is the old one with the flow's control block set.
   * [ok_app_tcp_first_lift*] / [ok_app_udp_lift*]: a payload-level predicate
     that holds of everything proto::repl returns holds, as a frame-level
     monitor ([ok_app_tcp_first P] / [ok_app_udp P] of Spec/AppView.v), of
     everything reply() emits.
   The UDP half rests on [udp_lift] (Proofs/Lift.v).  No hypothesis on the data
   of the implementation ([env]) is needed anywhere in this file. *)
From MS Require Import Proofs.Tactics Proofs.DecLemmas Proofs.Pipeline Proofs.Factor Proofs.ViewLemmas
     Proofs.DecLemmas2 Proofs.C06 Proofs.TcpState Proofs.C09 Proofs.C07 Proofs.Lift
     L2 Spec.View Spec.RefDec Spec.TcpRef Spec.AppView Spec.C09 Spec.History.

(* ---------- the client information the transport layer hands to proto::repl ---------- *)
Definition tcp_ci (cfg : config) (f : bytes) (v : l4view) : cinfo :=
  ci_set_cookie (ci_set_ports (l3_ci f v) (u16_at 0 (v_l4 v)) (u16_at 2 (v_l4 v)))
                (flow_cookie cfg (flow_of v)).

(* ... is the one the specifications compute from the application context *)
Lemma tcp_ci_ctx cfg f v :
  v_proto v = 6 -> tcp_ci cfg f v = ctx_ci cfg (slice 6 6 f) (slice 0 6 f) (ctx_of true v).
Proof.
  intros Hp. unfold tcp_ci, ctx_ci, l3_ci, base_ci, flow_cookie, flow_of, ctx_of, ctx_src_ip, ctx_dst_ip.
  rewrite Hp. cbn. reflexivity.
Qed.

Lemma udp_ci_ctx cfg f v :
  v_proto v = 17 -> udp_ci f v = ctx_ci cfg (slice 6 6 f) (slice 0 6 f) (ctx_of false v).
Proof.
  intros Hp. unfold udp_ci, ctx_ci, l3_ci, base_ci, ctx_of, ctx_src_ip, ctx_dst_ip.
  rewrite Hp. cbn. reflexivity.
Qed.

(* what every frame guarantees of the application context of its request *)
Definition frame_ctx_ok (tcp : bool) (ctx : app_ctx) : Prop :=
  a_tcp ctx = tcp /\
  length (a_src ctx) = (if a_v4 ctx then 4 else 16)%nat /\
  length (a_dst ctx) = (if a_v4 ctx then 4 else 16)%nat /\
  bytes_ok (a_src ctx) = true /\ bytes_ok (a_dst ctx) = true /\
  a_sport ctx < 65536 /\ a_dport ctx < 65536.

Lemma view_addr_ok cfg f v :
  bytes_ok f = true -> view cfg f = Some v -> bytes_ok (v_src v) = true /\ bytes_ok (v_dst v) = true.
Proof.
  intros Hf Hv. destruct (view_inv _ _ _ Hv) as (_ & _ & [H4 | H6]).
  - destruct H4 as (_ & _ & _ & -> & -> & _). split; apply bytes_ok_slice, bytes_ok_skipn, Hf.
  - destruct H6 as (_ & _ & _ & -> & -> & _). split; apply bytes_ok_slice, bytes_ok_skipn, Hf.
Qed.

Lemma frame_ctx_of tcp cfg f v :
  bytes_ok f = true -> view cfg f = Some v -> frame_ctx_ok tcp (ctx_of tcp v).
Proof.
  intros Hf Hv. pose proof (view_sizes _ _ _ Hv) as [_ Hs].
  destruct (view_addr_ok _ _ _ Hf Hv) as [Hbs Hbd].
  pose proof (view_l4_ok _ _ _ Hf Hv) as Hl4.
  unfold frame_ctx_ok, ctx_of. cbn [a_tcp a_v4 a_src a_dst a_sport a_dport].
  split; [reflexivity|].
  split; [destruct (v_v4 v); apply Hs|]. split; [destruct (v_v4 v); apply Hs|].
  split; [exact Hbs|]. split; [exact Hbd|]. split; apply u16_at_lt, Hl4.
Qed.

(* the application payload of an emitted TCP segment, as [tcp_resp] reports it *)
Definition norm_out (o : option bytes) : option bytes :=
  match o with Some [] => None | _ => o end.

Definition out_bytes (o : option bytes) : bytes := match o with Some d => d | None => [] end.
Definition out_flags (o : option bytes) : N := match o with Some _ => ACK + PSH | None => ACK end.

Lemma norm_out_bytes o :
  (if (length (out_bytes o) =? 0)%nat then None else Some (out_bytes o)) = norm_out o.
Proof. destruct o as [[|b d]|]; reflexivity. Qed.

(* ---------- tcp_repl on the first accepted data segment of a flow ---------- *)
Lemma tbl_mem_find k tb : tbl_mem k tb = false -> tbl_find k tb = None.
Proof. unfold tbl_mem. destruct (tbl_find k tb); [discriminate | reflexivity]. Qed.

Lemma tcp_repl_first_gen E cfg clk tb f v tb' ci' out evs :
  bytes_ok (v_l4 v) = true ->
  tcp_class (tcp_flags (v_l4 v)) = TData ->
  tbl_mem (flow_cookie cfg (flow_of v)) tb = false ->
  presents_cookie cfg v = true ->
  tcp_repl E cfg clk tb (l3_ci f v) (v_l4 v) = Ok (tb', ci', out, evs) ->
  exists tc' o sp dp,
    proto_repl_tcp E clk (tcp_ci cfg f v) tcb_new (tcp_payload (v_l4 v)) = Ok (ci', tc', o) /\
    tb' = tbl_set (flow_cookie cfg (flow_of v)) tc' tb /\
    ci_port_dst ci' = Some sp /\ ci_port_src ci' = Some dp /\
    out = Some (tcp_header sp dp (u32_at 8 (v_l4 v))
                           (wrap32 (u32_at 4 (v_l4 v) + lenN (tcp_payload (v_l4 v))))
                           (out_flags o) ++ out_bytes o).
Proof.
  intros Hok Hc. unfold tcp_repl. rewrite Hc. rewrite cookie_ci_l3.
  cbv zeta. unfold tcp_ci, presents_cookie, flow_cookie, flow_of. cbn [fl_src fl_dst fl_sport fl_dport].
  set (ck := cookie (c_key0 cfg) (c_key1 cfg) (v_src v) (v_dst v) (u16_at 0 (v_l4 v)) (u16_at 2 (v_l4 v))).
  rewrite (ackno_presents (u32_at 8 (v_l4 v)) ck (u32_at_lt _ _ Hok) (cookie_lt _ _ _ _ _ _)).
  intros Hmem Hpres. rewrite Hmem, Hpres. cbn [negb andb]. rewrite (tbl_mem_find _ _ Hmem).
  destruct (proto_repl_tcp _ _ _ _ _) as [[[ci2 tc'] o]|s] eqn:Hp; cbn [bind]; [|discriminate].
  destruct o as [d|];
    (destruct (ci_port_dst ci2) as [sp|] eqn:Hsp; [|discriminate];
     destruct (ci_port_src ci2) as [dp|] eqn:Hdp; [|discriminate]);
    intros H; inversion H; subst; eexists _, _, sp, dp;
    (split; [reflexivity|]); (split; [reflexivity|]); (split; [assumption|]); (split; [assumption|]);
    reflexivity.
Qed.

(* ---------- the generic lift, state level ---------- *)
(* what the emitted frame is, given the output (ci', out) of proto::repl *)
Definition tcp_reply_is (v : l4view) (ci' : cinfo) (out : option bytes) (r : option bytes) : Prop :=
  exists rf e i t,
    r = Some rf /\ dec_frame_tcp rf = Some (e, i, t) /\
    dt_payload t = out_bytes out /\ dt_flags t = out_flags out /\
    Some (dt_sport t) = option_map (fun x => x mod 65536) (ci_port_dst ci') /\
    Some (dt_dport t) = option_map (fun x => x mod 65536) (ci_port_src ci') /\
    dt_seq t = u32_at 8 (v_l4 v) /\
    dt_ack t = wrap32 (u32_at 4 (v_l4 v) + lenN (tcp_payload (v_l4 v))).

Theorem tcp_first_lift_state E cfg clk tb f tb' r evs v :
  cfg_ok cfg = true -> bytes_ok f = true ->
  view_tcp cfg f = Some v ->
  is_data (tcp_flags (v_l4 v)) = true ->
  tbl_mem (flow_cookie cfg (flow_of v)) tb = false ->
  presents_cookie cfg v = true ->
  reply E cfg clk tb f = Ok (tb', r, evs) ->
  exists ci' tc' out,
    proto_repl_tcp E clk (tcp_ci cfg f v) tcb_new (tcp_payload (v_l4 v)) = Ok (ci', tc', out) /\
    tb' = tbl_set (flow_cookie cfg (flow_of v)) tc' tb /\
    tcp_resp r = Some (norm_out out) /\
    tcp_reply_is v ci' out r.
Proof.
  intros Hcfg Hf Hvt Hd Hmem Hpres Hr.
  destruct (view_tcp_view _ _ _ Hvt) as [Hv Hp].
  pose proof (view_l4_ok _ _ _ Hf Hv) as Hok.
  pose proof (reply_tcp E cfg clk tb f v Hvt) as Hfac. rewrite Hr in Hfac. cbn [strip] in Hfac.
  pose proof (tcp_flags_lt _ Hok) as Hfl.
  apply (is_data_class _ Hfl) in Hd.
  destruct (tcp_repl E cfg clk tb (l3_ci f v) (v_l4 v)) as [[[[tb2 ci2] o2] evs2]|s] eqn:Ht; [|discriminate].
  destruct (tcp_repl_first_gen _ _ _ _ _ _ _ _ _ _ Hok Hd Hmem Hpres Ht)
    as (tc' & o & sp & dp & Hpr & Htb & Hsp & Hdp & ->).
  apply ok_pair_inj in Hfac. destruct Hfac as [<- ->].
  exists ci2, tc', o. split; [exact Hpr|]. split; [exact Htb|].
  assert (Hfl' : out_flags o < 512) by (destruct o; unfold out_flags, ACK, PSH; lia).
  match goal with |- context [tcp_header ?a ?b ?c ?d ?e ++ ?pl] =>
    destruct (dec_wrap_tcp cfg f v 64 a b c d e pl Hcfg Hv Hp Hfl' ltac:(lia)) as (e' & i & Hdec & _)
  end.
  split.
  - unfold tcp_resp. rewrite Hdec. cbn [dt_payload]. rewrite norm_out_bytes. reflexivity.
  - eexists _, e', i, _. split; [reflexivity|]. split; [exact Hdec|].
    cbn [dt_payload dt_flags dt_sport dt_dport dt_seq dt_ack]. rewrite Hsp, Hdp. cbn [option_map].
    repeat split; try reflexivity.
    + apply N.mod_small. apply u32_at_lt, Hok.
    + unfold wrap32. apply N.mod_mod. lia.
Qed.

(* ---------- history level ---------- *)
(* the reference connection state (keyed by the 4-tuple) decides membership in
   the implementation's table (keyed by the cookie) when no two flows collide *)
Lemma history_tbl_mem E cfg h tb v :
  Forall (fun x => bytes_ok x = true) (frames h) ->
  run E cfg [] h = Ok tb ->
  no_collision cfg (flow_of v :: ref_run cfg (frames h)) ->
  tbl_mem (flow_cookie cfg (flow_of v)) tb = ref_mem (flow_of v) (ref_run cfg (frames h)).
Proof.
  intros Hall Hrun Hnc.
  apply Bool.eq_true_iff_eq. rewrite tbl_mem_In, ref_mem_In.
  rewrite (table_keys E cfg h tb Hall Hrun). unfold ref_keys. rewrite in_map_iff. split.
  - intros (x & Hx & Hin). assert (x = flow_of v) as ->; [|exact Hin].
    apply Hnc; [right; exact Hin|left; reflexivity|exact Hx].
  - intros Hin. exists (flow_of v). split; [reflexivity|exact Hin].
Qed.

Theorem tcp_first_lift_history E cfg h clk tb f tb' r evs v :
  cfg_ok cfg = true ->
  Forall (fun x => bytes_ok x = true) (frames h) -> bytes_ok f = true ->
  run E cfg [] h = Ok tb ->
  view_tcp cfg f = Some v ->
  no_collision cfg (flow_of v :: ref_run cfg (frames h)) ->
  is_data (tcp_flags (v_l4 v)) = true ->
  ref_mem (flow_of v) (ref_run cfg (frames h)) = false ->
  presents_cookie cfg v = true ->
  reply E cfg clk tb f = Ok (tb', r, evs) ->
  exists ci' tc' out,
    proto_repl_tcp E clk (tcp_ci cfg f v) tcb_new (tcp_payload (v_l4 v)) = Ok (ci', tc', out) /\
    tb' = tbl_set (flow_cookie cfg (flow_of v)) tc' tb /\
    tcp_resp r = Some (norm_out out) /\
    tcp_reply_is v ci' out r.
Proof.
  intros Hcfg Hall Hf Hrun Hvt Hnc Hd Hm Hpres Hr.
  apply (tcp_first_lift_state E cfg clk tb f tb' r evs v Hcfg Hf Hvt Hd); try assumption.
  rewrite (history_tbl_mem E cfg h tb v Hall Hrun Hnc). exact Hm.
Qed.

(* in terms of the request view [tcp_first_req] of Spec/AppView.v *)
Lemma tcp_first_req_inv cfg st f ctx p :
  tcp_first_req cfg st f = Some (ctx, p) ->
  exists v, view_tcp cfg f = Some v /\ ctx = ctx_of true v /\ p = tcp_payload (v_l4 v) /\
            is_data (tcp_flags (v_l4 v)) = true /\ ref_mem (flow_of v) st = false /\
            presents_cookie cfg v = true.
Proof.
  unfold tcp_first_req. destruct (view_tcp cfg f) as [v|]; [|discriminate].
  destruct (is_data (tcp_flags (v_l4 v))) eqn:Hd; cbn [andb]; [|discriminate].
  destruct (ref_mem (flow_of v) st) eqn:Hm; cbn [negb andb]; [discriminate|].
  destruct (presents_cookie cfg v) eqn:Hc; [|discriminate].
  intros H. inversion H; subst. exists v. repeat split; (reflexivity || assumption).
Qed.

(* the reference state [st] agrees with the table on the flow of frame [f] *)
Definition st_agrees (cfg : config) (st : ref_state) (tb : table) (f : bytes) : Prop :=
  forall v, view_tcp cfg f = Some v ->
    tbl_mem (flow_cookie cfg (flow_of v)) tb = ref_mem (flow_of v) st.

Lemma st_agrees_history E cfg h tb f :
  Forall (fun x => bytes_ok x = true) (frames h) ->
  run E cfg [] h = Ok tb ->
  (forall v, view_tcp cfg f = Some v -> no_collision cfg (flow_of v :: ref_run cfg (frames h))) ->
  st_agrees cfg (ref_run cfg (frames h)) tb f.
Proof. intros Hall Hrun Hnc v Hv. apply (history_tbl_mem E cfg h tb v Hall Hrun (Hnc v Hv)). Qed.

Theorem tcp_first_req_lift E cfg st clk tb f tb' r evs ctx p :
  cfg_ok cfg = true -> bytes_ok f = true ->
  st_agrees cfg st tb f ->
  tcp_first_req cfg st f = Some (ctx, p) ->
  reply E cfg clk tb f = Ok (tb', r, evs) ->
  bytes_ok p = true /\ frame_ctx_ok true ctx /\
  exists ci' tc' out,
    proto_repl_tcp E clk (ctx_ci cfg (slice 6 6 f) (slice 0 6 f) ctx) tcb_new p = Ok (ci', tc', out) /\
    tb' = tbl_set (cookie (c_key0 cfg) (c_key1 cfg) (a_src ctx) (a_dst ctx) (a_sport ctx) (a_dport ctx)) tc' tb /\
    tcp_resp r = Some (norm_out out) /\
    exists rf e i t,
      r = Some rf /\ dec_frame_tcp rf = Some (e, i, t) /\
      dt_payload t = out_bytes out /\ dt_flags t = out_flags out /\
      Some (dt_sport t) = option_map (fun x => x mod 65536) (ci_port_dst ci') /\
      Some (dt_dport t) = option_map (fun x => x mod 65536) (ci_port_src ci').
Proof.
  intros Hcfg Hf Hag Hreq Hr.
  destruct (tcp_first_req_inv _ _ _ _ _ Hreq) as (v & Hvt & -> & -> & Hd & Hm & Hpres).
  destruct (view_tcp_view _ _ _ Hvt) as [Hv Hp].
  split.
  { pose proof (view_l4_ok _ _ _ Hf Hv) as Hok. unfold tcp_payload.
    destruct (_ <=? _)%nat; [reflexivity|apply bytes_ok_skipn, Hok]. }
  split; [exact (frame_ctx_of true cfg f v Hf Hv)|].
  assert (Hmem : tbl_mem (flow_cookie cfg (flow_of v)) tb = false) by (rewrite (Hag v Hvt); exact Hm).
  destruct (tcp_first_lift_state E cfg clk tb f tb' r evs v Hcfg Hf Hvt Hd Hmem Hpres Hr)
    as (ci' & tc' & out & Hpr & Htb & Hresp & (rf & e & i & t & Hrf & Hdec & H1 & H2 & H3 & H4 & _)).
  rewrite (tcp_ci_ctx cfg f v Hp) in Hpr.
  exists ci', tc', out. split; [exact Hpr|]. split; [exact Htb|]. split; [exact Hresp|].
  exists rf, e, i, t. repeat split; assumption.
Qed.

(* ---------- generic corollaries: payload-level predicate => frame-level monitor ---------- *)
Section Monitors.
Variable P : app_ctx -> bytes -> option bytes -> bool.

(* TCP, for any reference state that agrees with the table on the frame's flow *)
Theorem ok_app_tcp_first_lift E cfg st clk tb f tb' r evs :
  cfg_ok cfg = true -> bytes_ok f = true ->
  st_agrees cfg st tb f ->
  (forall ctx p ci' tc' out,
     tcp_first_req cfg st f = Some (ctx, p) -> bytes_ok p = true -> frame_ctx_ok true ctx ->
     proto_repl_tcp E clk (ctx_ci cfg (slice 6 6 f) (slice 0 6 f) ctx) tcb_new p = Ok (ci', tc', out) ->
     P ctx p (norm_out out) = true) ->
  reply E cfg clk tb f = Ok (tb', r, evs) ->
  ok_app_tcp_first P cfg st f r = true.
Proof.
  intros Hcfg Hf Hag HP Hr. unfold ok_app_tcp_first.
  destruct (tcp_first_req cfg st f) as [[ctx p]|] eqn:Hreq; [|reflexivity].
  destruct (tcp_first_req_lift E cfg st clk tb f tb' r evs ctx p Hcfg Hf Hag Hreq Hr)
    as (Hp & Hctx & ci' & tc' & out & Hpr & _ & Hresp & _).
  rewrite Hresp. exact (HP ctx p ci' tc' out eq_refl Hp Hctx Hpr).
Qed.

(* state level: the reference state is any state in which the flow is "not validated"
   exactly when its cookie is not a key of the table *)
Theorem ok_app_tcp_first_lift_state E cfg clk tb f tb' r evs v :
  cfg_ok cfg = true -> bytes_ok f = true ->
  view_tcp cfg f = Some v ->
  is_data (tcp_flags (v_l4 v)) = true ->
  tbl_mem (flow_cookie cfg (flow_of v)) tb = false ->
  presents_cookie cfg v = true ->
  (forall ci' tc' out,
     bytes_ok (tcp_payload (v_l4 v)) = true -> frame_ctx_ok true (ctx_of true v) ->
     proto_repl_tcp E clk (ctx_ci cfg (slice 6 6 f) (slice 0 6 f) (ctx_of true v)) tcb_new (tcp_payload (v_l4 v))
       = Ok (ci', tc', out) ->
     P (ctx_of true v) (tcp_payload (v_l4 v)) (norm_out out) = true) ->
  reply E cfg clk tb f = Ok (tb', r, evs) ->
  exists o, tcp_resp r = Some o /\ P (ctx_of true v) (tcp_payload (v_l4 v)) o = true.
Proof.
  intros Hcfg Hf Hvt Hd Hmem Hpres HP Hr.
  destruct (view_tcp_view _ _ _ Hvt) as [Hv Hp].
  destruct (tcp_first_lift_state E cfg clk tb f tb' r evs v Hcfg Hf Hvt Hd Hmem Hpres Hr)
    as (ci' & tc' & out & Hpr & _ & Hresp & _).
  rewrite (tcp_ci_ctx cfg f v Hp) in Hpr.
  exists (norm_out out). split; [exact Hresp|].
  apply (HP ci' tc' out); [| |exact Hpr].
  - pose proof (view_l4_ok _ _ _ Hf Hv) as Hok. unfold tcp_payload.
    destruct (_ <=? _)%nat; [reflexivity|apply bytes_ok_skipn, Hok].
  - exact (frame_ctx_of true cfg f v Hf Hv).
Qed.

(* history level *)
Theorem ok_app_tcp_first_lift_history E cfg h clk tb f tb' r evs :
  cfg_ok cfg = true ->
  Forall (fun x => bytes_ok x = true) (frames h) -> bytes_ok f = true ->
  run E cfg [] h = Ok tb ->
  (forall v, view_tcp cfg f = Some v -> no_collision cfg (flow_of v :: ref_run cfg (frames h))) ->
  (forall ctx p ci' tc' out,
     tcp_first_req cfg (ref_run cfg (frames h)) f = Some (ctx, p) -> bytes_ok p = true -> frame_ctx_ok true ctx ->
     proto_repl_tcp E clk (ctx_ci cfg (slice 6 6 f) (slice 0 6 f) ctx) tcb_new p = Ok (ci', tc', out) ->
     P ctx p (norm_out out) = true) ->
  reply E cfg clk tb f = Ok (tb', r, evs) ->
  ok_app_tcp_first P cfg (ref_run cfg (frames h)) f r = true.
Proof.
  intros Hcfg Hall Hf Hrun Hnc HP Hr.
  apply (ok_app_tcp_first_lift E cfg _ clk tb f tb' r evs Hcfg Hf); try assumption.
  exact (st_agrees_history E cfg h tb f Hall Hrun Hnc).
Qed.

(* UDP *)
Theorem udp_req_lift E cfg clk tb f tb' r evs ctx p :
  cfg_ok cfg = true -> bytes_ok f = true ->
  udp_req cfg f = Some (ctx, p) ->
  reply E cfg clk tb f = Ok (tb', r, evs) ->
  bytes_ok p = true /\ frame_ctx_ok false ctx /\ tb' = tb /\
  exists ci' out,
    proto_repl_udp E clk (ctx_ci cfg (slice 6 6 f) (slice 0 6 f) ctx) p = Ok (ci', out) /\
    udp_resp r = Some out /\
    (forall d, out = Some d ->
       exists rf e i u, r = Some rf /\ dec_frame_udp rf = Some (e, i, u) /\ du_payload u = d /\
                        Some (du_sport u) = option_map (fun x => x mod 65536) (ci_port_dst ci') /\
                        Some (du_dport u) = option_map (fun x => x mod 65536) (ci_port_src ci')).
Proof.
  intros Hcfg Hf Hreq Hr. unfold udp_req in Hreq.
  destruct (view_udp cfg f) as [v|] eqn:Hvu; [|discriminate].
  assert (ctx = ctx_of false v /\ p = skipn 8 (v_l4 v)) as [-> ->] by (inversion Hreq; split; reflexivity).
  clear Hreq.
  destruct (view_udp_view _ _ _ Hvu) as (Hv & Hp & _).
  split; [apply bytes_ok_skipn, (view_l4_ok _ _ _ Hf Hv)|].
  split; [exact (frame_ctx_of false cfg f v Hf Hv)|].
  destruct (udp_lift _ _ _ _ _ _ _ _ _ Hcfg Hf Hvu Hr) as (Htb & ci' & out & Hpr & Hresp & Hframe).
  split; [exact Htb|].
  rewrite (udp_ci_ctx cfg f v Hp) in Hpr.
  exists ci', out. split; [exact Hpr|]. split; [exact Hresp|exact Hframe].
Qed.

Theorem ok_app_udp_lift E cfg clk tb f tb' r evs :
  cfg_ok cfg = true -> bytes_ok f = true ->
  (forall ctx p ci' out,
     udp_req cfg f = Some (ctx, p) -> bytes_ok p = true -> frame_ctx_ok false ctx ->
     proto_repl_udp E clk (ctx_ci cfg (slice 6 6 f) (slice 0 6 f) ctx) p = Ok (ci', out) ->
     P ctx p out = true) ->
  reply E cfg clk tb f = Ok (tb', r, evs) ->
  ok_app_udp P cfg f r = true.
Proof.
  intros Hcfg Hf HP Hr. unfold ok_app_udp.
  destruct (udp_req cfg f) as [[ctx p]|] eqn:Hreq; [|reflexivity].
  destruct (udp_req_lift E cfg clk tb f tb' r evs ctx p Hcfg Hf Hreq Hr)
    as (Hp & Hctx & _ & ci' & out & Hpr & Hresp & _).
  rewrite Hresp. exact (HP ctx p ci' out eq_refl Hp Hctx Hpr).
Qed.
End Monitors.

(* when the application layer never answers with an empty payload (true of every
   handler once [env_ok] holds: Proofs/C07.v [proto_repl_tcp_nonempty]), the
   normalisation is the identity *)
Lemma norm_out_id (o : option bytes) : (forall d, o = Some d -> d <> []) -> norm_out o = o.
Proof. destruct o as [[|b d]|]; intros H; try reflexivity. exfalso. apply (H [] eq_refl eq_refl). Qed.

Lemma norm_out_env E clk ci tc p ci' tc' out :
  Spec.EnvOk.env_ok E = true -> proto_repl_tcp E clk ci tc p = Ok (ci', tc', out) -> norm_out out = out.
Proof.
  intros HE Hpr. apply norm_out_id. intros d ->. exact (proto_repl_tcp_nonempty _ _ _ _ _ _ _ _ HE Hpr).
Qed.
