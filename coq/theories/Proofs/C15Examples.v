(* C15Examples.v -- non-vacuity: concrete requests run through proto::repl (and one whole
   frame through [reply]) on the tables of the current implementation ([the_env]); the
   hypotheses of the C15 theorems hold for them and the replies are the expected ones; the
   known shadowing class is inhabited; the malformed payloads that ARE answered.
   Closed computations (vm_compute). *)
From MS Require Import Stun Proto L2 Spec.View Spec.RefDec Spec.RefStun Spec.C15 Spec.AppView Instance
     Proofs.C15Walk Proofs.C15Handler.

Definition x_clk : clock := {| clk_date := []; clk_filetime := 0 |}.
Definition x_cfg : config :=
  {| c_mac := [192; 255; 238; 192; 255; 238]; c_self := None; c_deny := None; c_key0 := 0; c_key1 := 0;
     c_level := 5; c_ovf := true |}.
(* the contacted port is 65535: the next port is 0 *)
Definition x_ctx4 (tcp : bool) : app_ctx :=
  {| a_v4 := true; a_tcp := tcp; a_src := [10; 0; 0; 9]; a_dst := [10; 0; 0; 1]; a_sport := 40000; a_dport := 65535 |}.
(* the client port is 65535 *)
Definition x_ctx6 (tcp : bool) : app_ctx :=
  {| a_v4 := false; a_tcp := tcp; a_src := [32; 1; 13; 184; 0; 0; 0; 0; 0; 0; 0; 0; 0; 0; 0; 9];
     a_dst := [32; 1; 13; 184; 0; 0; 0; 0; 0; 0; 0; 0; 0; 0; 0; 1]; a_sport := 65535; a_dport := 3478 |}.
Definition x_ci (ctx : app_ctx) : cinfo := ctx_ci x_cfg [1; 2; 3; 4; 5; 6] (c_mac x_cfg) ctx.

(* reply payload and the destination port of the client information handed back *)
Definition udp_out (ctx : app_ctx) (p : bytes) : option N * option bytes :=
  match proto_repl_udp the_env x_clk (x_ci ctx) p with
  | Ok (ci, o) => (ci_port_dst ci, o)
  | Panic _ => (None, None)
  end.
Definition tcp_out (ctx : app_ctx) (p : bytes) : option N * option bytes :=
  match proto_repl_tcp the_env x_clk (x_ci ctx) tcb_new p with
  | Ok (ci, _, o) => (ci_port_dst ci, o)
  | Panic _ => (None, None)
  end.

Definition x_tid12 : bytes := [170; 187; 204; 221; 238; 255; 255; 238; 221; 204; 187; 170].
Definition x_tid16 : bytes := [3; 163; 185; 70; 77; 216; 235; 117; 225; 148; 129; 71; 66; 147; 132; 92].
Definition x_req (tid : bytes) (l : list attr) : stun_msg :=
  {| sm_class := CLASS_REQUEST; sm_method := METHOD_BINDING; sm_tid := tid; sm_attrs := l |}.

(* RFC 5389 request, no attribute, UDP / IPv4: 20 bytes, identified, answered from the
   contacted port with MAPPED-ADDRESS 10.0.0.9:40000 *)
Definition x_empty := x_req (MAGIC_COOKIE ++ x_tid12) [].
Example ex_empty_udp :
  stun_wf x_empty = true /\ udp_id the_env (ser_stun x_empty) = Some PROTO_STUN /\
  udp_out (x_ctx4 false) (ser_stun x_empty) =
    (Some 65535,
     Some ([1; 1; 0; 12] ++ MAGIC_COOKIE ++ x_tid12 ++ [0; 1; 0; 8; 0; 1; 156; 64; 10; 0; 0; 9])) /\
  app_ok_C15_strict (x_ctx4 false) (ser_stun x_empty) (snd (udp_out (x_ctx4 false) (ser_stun x_empty))) = true.
Proof. vm_compute. repeat split; reflexivity. Qed.

(* RFC 3489 request (no cookie) with CHANGE-REQUEST change-port, UDP / IPv4, contacted port
   65535: identified by the end-anchored signature, answered, the reply port is 0 *)
Definition x_change := x_req x_tid16 [(ATTR_CHANGE_REQUEST, [0; 0; 0; 2])].
Example ex_change_udp :
  stun_wf x_change = true /\ change_port_requested x_change = true /\
  ser_stun x_change = [0; 1; 0; 8] ++ x_tid16 ++ [0; 3; 0; 4; 0; 0; 0; 2] /\
  udp_id the_env (ser_stun x_change) = Some PROTO_STUN /\
  udp_out (x_ctx4 false) (ser_stun x_change) =
    (Some 0, Some ([1; 1; 0; 12] ++ x_tid16 ++ [0; 1; 0; 8; 0; 1; 156; 64; 10; 0; 0; 9])) /\
  app_ok_C15_strict (x_ctx4 false) (ser_stun x_change) (snd (udp_out (x_ctx4 false) (ser_stun x_change))) = true.
Proof. vm_compute. repeat split; reflexivity. Qed.

(* RFC 5389 request of 288 bytes over TCP / IPv6, client port 65535: an unknown attribute of
   249 bytes (padded to 252), CHANGE-REQUEST change-ip + change-port, an empty attribute;
   identified (length high byte 1), answered with family 2, port 65535, reply port 3479 *)
Definition x_big := x_req (MAGIC_COOKIE ++ x_tid12)
  [(32802, repeat 65 249); (ATTR_CHANGE_REQUEST, [0; 0; 0; 6]); (5, [])].
Example ex_big_tcp :
  stun_wf x_big = true /\ length (ser_stun x_big) = 288%nat /\ firstn 4 (ser_stun x_big) = [0; 1; 1; 12] /\
  tcp_first_id the_env (ser_stun x_big) = Some PROTO_STUN /\
  udp_id the_env (ser_stun x_big) = Some PROTO_STUN /\
  tcp_out (x_ctx6 true) (ser_stun x_big) =
    (Some 3479,
     Some ([1; 1; 0; 24] ++ MAGIC_COOKIE ++ x_tid12 ++
           [0; 1; 0; 20; 0; 2; 255; 255; 32; 1; 13; 184; 0; 0; 0; 0; 0; 0; 0; 0; 0; 0; 0; 9])) /\
  app_ok_C15_strict (x_ctx6 true) (ser_stun x_big) (snd (tcp_out (x_ctx6 true) (ser_stun x_big))) = true.
Proof. vm_compute. repeat split; reflexivity. Qed.

(* an indication and another method, well formed: nothing *)
Definition x_indication :=
  {| sm_class := CLASS_INDICATION; sm_method := METHOD_BINDING; sm_tid := x_tid16; sm_attrs := [] |}.
Definition x_allocate :=
  {| sm_class := CLASS_REQUEST; sm_method := 3; sm_tid := x_tid16; sm_attrs := [] |}.
Example ex_other_class_method :
  firstn 2 (ser_stun x_indication) = [0; 17] /\ firstn 2 (ser_stun x_allocate) = [0; 3] /\
  stun_repl (x_ci (x_ctx4 false)) (ser_stun x_indication) = (x_ci (x_ctx4 false), None) /\
  stun_repl (x_ci (x_ctx4 false)) (ser_stun x_allocate) = (x_ci (x_ctx4 false), None).
Proof. vm_compute. repeat split; reflexivity. Qed.

(* ---- the known class ---- *)
(* UDP: an RFC 5389 request of 32 bytes carrying a SOFTWARE attribute ("abcde", padded): in
   scope (well formed, binding request, published magic-cookie signature), length high byte 0,
   neither end-anchored layout: not identified, no reply; only the strict monitor objects.
   TCP: the empty RFC 5389 request itself. *)
Definition x_soft := x_req (MAGIC_COOKIE ++ x_tid12) [(32802, [97; 98; 99; 100; 101])].
Example ex_shadowed :
  dec_stun_req (ser_stun x_soft) = Some x_soft /\ stun_published false (ser_stun x_soft) = true /\
  stun_shadowed false (ser_stun x_soft) = true /\
  udp_id the_env (ser_stun x_soft) = None /\
  udp_out (x_ctx4 false) (ser_stun x_soft) = (Some 65535, None) /\
  app_ok_C15_strict (x_ctx4 false) (ser_stun x_soft) None = false /\
  app_ok_C15 (x_ctx4 false) (ser_stun x_soft) None = true /\
  (* had it been dispatched, it would have been answered *)
  snd (stun_repl (x_ci (x_ctx4 false)) (ser_stun x_soft)) =
    Some ([1; 1; 0; 12] ++ MAGIC_COOKIE ++ x_tid12 ++ [0; 1; 0; 8; 0; 1; 156; 64; 10; 0; 0; 9]) /\
  dec_stun_req (ser_stun x_empty) = Some x_empty /\ stun_published true (ser_stun x_empty) = true /\
  stun_shadowed true (ser_stun x_empty) = true /\
  tcp_first_id the_env (ser_stun x_empty) = None /\
  tcp_out (x_ctx4 true) (ser_stun x_empty) = (Some 65535, None) /\
  app_ok_C15_strict (x_ctx4 true) (ser_stun x_empty) None = false /\
  app_ok_C15 (x_ctx4 true) (ser_stun x_empty) None = true /\
  (* outside the class: the same request over UDP (20 bytes: end-anchored layout) and the
     288-byte request over TCP are identified (ex_empty_udp, ex_big_tcp) *)
  stun_shadowed false (ser_stun x_empty) = false /\ stun_shadowed true (ser_stun x_big) = false.
Proof. vm_compute. repeat split; reflexivity. Qed.

(* ---- malformed payloads that are answered (the three tolerated malformations) ---- *)
Definition x_hdr (len : N) : bytes := [0; 1] ++ be16 len ++ x_tid16.
Definition w_stray : bytes := x_hdr 3 ++ [170; 187; 204].                  (* 3 bytes that are no attribute *)
Definition w_header : bytes := x_hdr 4 ++ [0; 3; 0; 4].                    (* CHANGE-REQUEST header, value missing *)
Definition w_unpadded : bytes := x_hdr 5 ++ [128; 34; 0; 1; 65].           (* 1-byte value, no padding *)
Definition w_shift : bytes := x_hdr 11 ++ [0; 3; 0; 4; 0; 0; 0; 2; 170; 187; 204].  (* change-port, then 3 stray bytes *)
Definition x_answer : bytes := [1; 1; 0; 12] ++ x_tid16 ++ [0; 1; 0; 8; 0; 1; 156; 64; 10; 0; 0; 9].

Example ex_malformed_answered :
  stun_diag_of w_stray = DAttrs TlvStray /\ dec_stun_req w_stray = None /\
  stun_repl (x_ci (x_ctx4 false)) w_stray = (x_ci (x_ctx4 false), Some x_answer) /\
  stun_diag_of w_header = DAttrs TlvHeaderOnly /\ dec_stun_req w_header = None /\
  stun_repl (x_ci (x_ctx4 false)) w_header = (x_ci (x_ctx4 false), Some x_answer) /\
  stun_diag_of w_unpadded = DAttrs TlvUnpadded /\ dec_stun_req w_unpadded = None /\
  stun_repl (x_ci (x_ctx4 false)) w_unpadded = (x_ci (x_ctx4 false), Some x_answer) /\
  stun_diag_of w_shift = DAttrs TlvStray /\ dec_stun_req w_shift = None /\
  stun_repl (x_ci (x_ctx4 false)) w_shift = (ci_set_port_dst (x_ci (x_ctx4 false)) 0, Some x_answer).
Proof. vm_compute. repeat split; reflexivity. Qed.

(* the same through identification: 259 attribute bytes = a 252-byte unknown attribute
   (256 bytes) and 3 stray bytes; magic cookie, length 0x0103: identified, answered *)
Definition w_stray_big : bytes :=
  [0; 1; 1; 3] ++ MAGIC_COOKIE ++ x_tid12 ++ [128; 34; 0; 252] ++ repeat 65 252 ++ [170; 187; 204].
Example ex_malformed_answered_identified :
  bytes_ok w_stray_big = true /\ dec_stun_req w_stray_big = None /\
  stun_diag_of w_stray_big = DAttrs TlvStray /\
  udp_id the_env w_stray_big = Some PROTO_STUN /\
  udp_out (x_ctx4 false) w_stray_big =
    (Some 65535, Some ([1; 1; 0; 12] ++ MAGIC_COOKIE ++ x_tid12 ++ [0; 1; 0; 8; 0; 1; 156; 64; 10; 0; 0; 9])).
Proof. vm_compute. repeat split; reflexivity. Qed.

Theorem malformed_silent_refuted :
  exists ci p, bytes_ok p = true /\ dec_stun_req p = None /\ stun_repl ci p <> (ci, None).
Proof.
  exists (x_ci (x_ctx4 false)), w_stray. split; [reflexivity|]. split; [reflexivity|].
  vm_compute. discriminate.
Qed.

(* ---- malformed payloads that are ignored: fixed-layout values, overrun ---- *)
Definition w_badfamily : bytes := x_hdr 8 ++ [0; 1; 0; 4; 0; 7; 18; 52].   (* MAPPED-ADDRESS, family 7 *)
Definition w_shortchange : bytes := x_hdr 8 ++ [0; 3; 0; 0; 0; 5; 0; 0].   (* CHANGE-REQUEST, empty value *)
Definition w_overrun : bytes := x_hdr 8 ++ [0; 5; 0; 8; 1; 2; 3; 4].       (* 8-byte value, 4 present *)
Example ex_malformed_ignored :
  stun_diag_of w_badfamily = DAttrs TlvBadValue /\
  stun_repl (x_ci (x_ctx4 false)) w_badfamily = (x_ci (x_ctx4 false), None) /\
  stun_diag_of w_shortchange = DAttrs TlvBadValue /\
  stun_repl (x_ci (x_ctx4 false)) w_shortchange = (x_ci (x_ctx4 false), None) /\
  stun_diag_of w_overrun = DAttrs TlvOverrun /\
  stun_repl (x_ci (x_ctx4 false)) w_overrun = (x_ci (x_ctx4 false), None) /\
  stun_diag_of (firstn 19 (ser_stun x_empty)) = DShort /\
  stun_diag_of ([64] ++ skipn 1 (ser_stun x_empty)) = DTopBits /\
  stun_diag_of (firstn 27 (ser_stun x_change)) = DLength.
Proof. vm_compute. repeat split; reflexivity. Qed.

(* ---- a whole frame: Ethernet / IPv4 / UDP carrying the change-port request to port 65535;
   the emitted frame comes from port 0, goes to port 40000, and satisfies the monitors ---- *)
Definition x_frame : bytes :=
  c_mac x_cfg ++ [1; 2; 3; 4; 5; 6] ++ [8; 0] ++
  [69; 0; 0; 56; 0; 0; 0; 0; 64; 17; 0; 0; 10; 0; 0; 9; 10; 0; 0; 1] ++
  be16 40000 ++ be16 65535 ++ be16 36 ++ [0; 0] ++ ser_stun x_change.
Definition x_frame_reply : option bytes :=
  match reply the_env x_cfg x_clk [] x_frame with Ok (_, r, _) => r | Panic _ => None end.
Example ex_frame :
  cfg_ok x_cfg = true /\ bytes_ok x_frame = true /\
  udp_req x_cfg x_frame = Some (x_ctx4 false, ser_stun x_change) /\
  (match x_frame_reply with
   | Some rf => match dec_frame_udp rf with
                | Some (_, _, u) => Some (du_sport u, du_dport u, du_payload u)
                | None => None
                end
   | None => None
   end) = Some (0, 40000, [1; 1; 0; 12] ++ x_tid16 ++ [0; 1; 0; 8; 0; 1; 156; 64; 10; 0; 0; 9]) /\
  ok_C15_udp_strict x_cfg x_frame x_frame_reply = true /\ ok_C15_udp x_cfg x_frame x_frame_reply = true /\
  c15_class_frame x_cfg x_frame = false.
Proof. vm_compute. repeat split; reflexivity. Qed.

(* ---- the class is exact on a sample of 4800 payloads (type bytes 00/01 x 01/00/11, length
   bytes {0,1,2,255} x {0,4,8,12,255}, with / without / almost the magic cookie, ten
   continuations incl. both end-anchored layouts, one byte more, 260 bytes): a payload
   covered by the published signatures is identified iff it is not in [stun_shadowed]; a
   payload outside them is never identified as STUN ---- *)
Definition s_heads : list bytes :=
  flat_map (fun b0 => flat_map (fun b1 => flat_map (fun b2 =>
    map (fun b3 => [b0; b1; b2; b3]) [0; 4; 8; 12; 255]) [0; 1; 2; 255]) [1; 0; 17]) [0; 1].
Definition s_ids : list bytes :=
  [MAGIC_COOKIE ++ x_tid12; [33; 18; 164; 67] ++ x_tid12; [0; 0; 0; 0] ++ x_tid12; [0; 1; 0; 0] ++ x_tid12].
Definition s_tails : list bytes :=
  [[]; [0]; [0; 3; 0; 4]; [0; 3; 0; 4; 0; 0; 0; 2]; [0; 3; 0; 4; 0; 0; 0; 255]; [0; 3; 0; 4; 0; 0; 1; 2];
   [0; 5; 0; 4; 0; 0; 0; 2]; [0; 3; 0; 4; 0; 0; 0; 2; 0]; [0; 3; 0; 4; 0; 0; 0; 2; 0; 5; 0; 0]; repeat 0 260].
Definition s_payloads : list bytes :=
  flat_map (fun h => flat_map (fun i => map (fun t => h ++ i ++ t) s_tails) s_ids) s_heads.
Definition s_check (tcp : bool) (p : bytes) : bool :=
  let id := match (if tcp then tcp_first_id the_env p else udp_id the_env p) with
            | Some i => i =? PROTO_STUN | None => false end in
  if stun_published tcp p then Bool.eqb id (negb (stun_shadowed tcp p)) else negb id.
Example ex_class_exact_on_sample :
  length s_payloads = 4800%nat /\
  forallb (s_check false) s_payloads = true /\ forallb (s_check true) s_payloads = true /\
  length (filter (stun_published false) s_payloads) = 209%nat /\
  length (filter (stun_shadowed false) s_payloads) = 47%nat /\
  length (filter (stun_shadowed true) s_payloads) = 50%nat.
Proof. vm_compute. repeat split; reflexivity. Qed.
