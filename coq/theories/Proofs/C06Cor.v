(* Proofs/C06Cor.v -- the positive clause of C06 as a plain statement about
   the decoded reply (no monitor in the statement), and the retransmission
   corollary: the SYN-ACK does not depend on the table, the clock or the
   environment. Corollaries of [syn_policy]. *)
From MS Require Import L2 Spec.View Spec.RefDec Spec.C06 Proofs.C06.

Lemma syn_gets_synack E cfg clk tb tb' f r evs v :
  cfg_ok cfg = true -> bytes_ok f = true ->
  reply E cfg clk tb f = Ok (tb', r, evs) ->
  view_tcp cfg f = Some v ->
  has_syn (tcp_flags (v_l4 v)) = true -> linux_ok (tcp_flags (v_l4 v)) = true ->
  exists rf e i t, r = Some rf /\ dec_frame_tcp rf = Some (e, i, t) /\
    dt_flags t = 18 /\ dt_ack t = wrap32 (u32_at 4 (v_l4 v) + 1) /\
    dt_payload t = [] /\
    dt_seq t = cookie (c_key0 cfg) (c_key1 cfg) (v_src v) (v_dst v)
                      (u16_at 0 (v_l4 v)) (u16_at 2 (v_l4 v)).
Proof.
  intros Hcfg Hf Hr Hv Hs Hl. pose proof (syn_policy _ _ _ _ _ _ _ _ Hcfg Hf Hr) as H.
  unfold ok_C06 in H. rewrite Hv, Hs, Hl in H. cbn [negb] in H.
  destruct r as [rf|]; [|discriminate].
  destruct (dec_frame_tcp rf) as [[[e i] t]|] eqn:Hd; [|discriminate].
  exists rf, e, i, t. split; [reflexivity|]. split; [exact Hd|].
  repeat match type of H with (_ && _) = true => apply andb_prop in H; destruct H as [H ?] end.
  repeat split.
  - apply N.eqb_eq; assumption.
  - apply N.eqb_eq; assumption.
  - match goal with Hn : (length _ =? 0)%nat = true |- _ =>
      apply Nat.eqb_eq in Hn; destruct (dt_payload t); [reflexivity|discriminate] end.
  - apply N.eqb_eq; assumption.
Qed.

(* a SYN that is not acceptable never gets a SYN-ACK *)
Lemma bad_syn_no_synack E cfg clk tb tb' f rf evs v e i t :
  cfg_ok cfg = true -> bytes_ok f = true ->
  reply E cfg clk tb f = Ok (tb', Some rf, evs) ->
  view_tcp cfg f = Some v ->
  has_syn (tcp_flags (v_l4 v)) = true -> linux_ok (tcp_flags (v_l4 v)) = false ->
  dec_frame_tcp rf = Some (e, i, t) -> dt_flags t <> 18.
Proof.
  intros Hcfg Hf Hr Hv Hs Hl Hd. pose proof (syn_policy _ _ _ _ _ _ _ _ Hcfg Hf Hr) as H.
  unfold ok_C06 in H. rewrite Hv, Hs, Hl, Hd in H. cbn [negb] in H.
  apply N.eqb_neq. destruct (dt_flags t =? 18); [discriminate|reflexivity].
Qed.
