(* Properties/C18.v -- SSH and Gh0st: banner exchanges are answered exactly,
   malformed ones are not. *)
From MS Require Import L2 Spec.View Spec.TcpRef Spec.History Proto Spec.AppView Spec.C18 Spec.EnvOk Instance
     Proofs.C07 Proofs.C18 Proofs.C18Instance Proofs.C18Table Proofs.C18Frame.

(* The reference reading of the identification string: the boolean scanner of
   Spec/C18.v decides exactly the declarative grammar
   "SSH-" v "-" rest CR LF t, v digits and dots, rest arbitrary ... *)
Theorem C18_ssh_reference_grammar :
  forall p, ssh_ref p = true <-> ssh_ident p.
Proof. exact ssh_ref_ident. Qed.

(* ... and the terminator may equivalently be pinned to the first CR LF after the dash. *)
Theorem C18_ssh_reference_first_crlf :
  forall p, ssh_ident p <-> ssh_ident_first p.
Proof. exact ssh_ident_first_iff. Qed.

(* The parser (index loop with `i -= 1` re-examination, fuel S (2 * length))
   reaches EOB exactly on that language; the fuel is sufficient for every input. *)
Theorem C18_ssh_parser_language :
  forall p, ssh_parse p = SSH_EOB <-> ssh_ref p = true.
Proof. exact ssh_parse_ref. Qed.

Theorem C18_ssh_repl_exact :
  forall banner p, ssh_repl banner p = if ssh_ref p then Some banner else None.
Proof. exact ssh_repl_ref. Qed.

Theorem C18_ssh_repl_iff :
  forall banner p, ssh_repl banner p = Some banner <-> ssh_ref p = true.
Proof. exact ssh_repl_iff. Qed.

(* dispatch *)
Theorem C18_dispatch_ssh :
  forall E clk ci t p,
    dispatch E clk ci PROTO_SSH t p = Ok (ci, t, if ssh_ref p then Some (e_ssh_banner E) else None).
Proof. exact dispatch_ssh. Qed.

Theorem C18_dispatch_ghost :
  forall E clk ci t p,
    dispatch E clk ci PROTO_GHOST t p = Ok (ci, t, Some (e_ghost E)).
Proof. exact dispatch_ghost. Qed.

(* proto::repl, datagram and first TCP data segment of a flow *)
Theorem C18_udp_ssh :
  forall E clk ci p,
    udp_id E p = Some PROTO_SSH ->
    proto_repl_udp E clk ci p = Ok (ci, if ssh_ref p then Some (e_ssh_banner E) else None).
Proof. exact udp_ssh. Qed.

Theorem C18_udp_ghost :
  forall E clk ci p,
    udp_id E p = Some PROTO_GHOST ->
    proto_repl_udp E clk ci p = Ok (ci, Some (e_ghost E)).
Proof. exact udp_ghost. Qed.

Theorem C18_tcp_first_ssh :
  forall E clk ci p,
    tcp_first_id E p = Some PROTO_SSH ->
    exists tc', proto_repl_tcp E clk ci tcb_new p =
                Ok (ci, tc', if ssh_ref p then Some (e_ssh_banner E) else None) /\
                t_proto tc' = PROTO_SSH /\ t_pstate tc' = None.
Proof. exact tcp_first_ssh. Qed.

Theorem C18_tcp_first_ghost :
  forall E clk ci p,
    tcp_first_id E p = Some PROTO_GHOST ->
    exists tc', proto_repl_tcp E clk ci tcb_new p = Ok (ci, tc', Some (e_ghost E)) /\
                t_proto tc' = PROTO_GHOST /\ t_pstate tc' = None.
Proof. exact tcp_first_ghost. Qed.

(* the constants: env_ok (re-decided on the dumped data by Env.the_env_ok on every
   run) pins the banner to the literal and the Gh0st frame to a well-formed one *)
Theorem C18_constants :
  forall E, env_ok E = true -> e_ssh_banner E = S_SERVER_ID /\ ghost_wf (e_ghost E) = true.
Proof. exact env_ok_c18. Qed.

(* identification of the literal prefixes: a table obligation decided by computation *)
Theorem C18_prefix_identified_sound :
  forall E a id p,
    prefix_identified (e_proto_tbl E) a id = true -> is_prefix a p = true ->
    tcp_first_id E p = Some id /\ udp_id E p = Some id.
Proof. exact prefix_identified_sound. Qed.

Theorem C18_current_tables_identify : c18_ident_ok the_env = true.
Proof. exact the_env_ident_ok. Qed.

(* the payload-level monitor holds for whatever the application layer answers *)
Theorem C18_app_udp :
  forall E clk ci ctx p ci' o,
    env_ok E = true -> c18_ident_ok E = true ->
    proto_repl_udp E clk ci p = Ok (ci', o) -> app_ok_C18 ctx p o = true.
Proof. exact app_monitor_udp. Qed.

Theorem C18_app_tcp_first :
  forall E clk ci ctx p ci' tc' o,
    env_ok E = true -> c18_ident_ok E = true ->
    proto_repl_tcp E clk ci tcb_new p = Ok (ci', tc', o) -> app_ok_C18 ctx p o = true.
Proof. exact app_monitor_tcp_first. Qed.

(* payloads carrying one of the three prefixes are answered (no panic, client
   information unchanged) with exactly what the property text prescribes *)
Theorem C18_answer_udp :
  forall E clk ci p,
    env_ok E = true -> c18_ident_ok E = true -> c18_prefixed p = true ->
    exists o, proto_repl_udp E clk ci p = Ok (ci, o) /\ c18_expected p o.
Proof. exact app_udp. Qed.

Theorem C18_answer_tcp_first :
  forall E clk ci p,
    env_ok E = true -> c18_ident_ok E = true -> c18_prefixed p = true ->
    exists o tc', proto_repl_tcp E clk ci tcb_new p = Ok (ci, tc', o) /\ c18_expected p o.
Proof. exact app_tcp_first. Qed.

(* the property, for the data of the current implementation *)
Theorem C18_current :
  forall clk ci,
    C18_ssh_statement (fun p => match proto_repl_udp the_env clk ci p with Ok (_, o) => o | Panic _ => None end) /\
    C18_ghost_statement (fun p => match proto_repl_udp the_env clk ci p with Ok (_, o) => o | Panic _ => None end) /\
    C18_ssh_statement (fun p => match proto_repl_tcp the_env clk ci tcb_new p with Ok (_, _, o) => o | Panic _ => None end) /\
    C18_ghost_statement (fun p => match proto_repl_tcp the_env clk ci tcb_new p with Ok (_, _, o) => o | Panic _ => None end).
Proof. exact current_statements. Qed.

(* identification, both directions, for the tables of the current implementation:
   a payload is identified as SSH iff it starts with "SSH-2.0" or "SSH-1.99", and
   as Gh0st iff it starts with "Gh0st" (first TCP data segment and datagram) *)
Theorem C18_current_ssh_identification :
  forall p, bytes_ok p = true ->
    (tcp_first_id the_env p = Some PROTO_SSH <-> (is_prefix S_SSH_20 p || is_prefix S_SSH_199 p) = true) /\
    (udp_id the_env p = Some PROTO_SSH <-> (is_prefix S_SSH_20 p || is_prefix S_SSH_199 p) = true).
Proof. exact current_ssh_iff. Qed.

Theorem C18_current_ghost_identification :
  forall p, bytes_ok p = true ->
    (tcp_first_id the_env p = Some PROTO_GHOST <-> is_prefix S_GHOST p = true) /\
    (udp_id the_env p = Some PROTO_GHOST <-> is_prefix S_GHOST p = true).
Proof. exact current_ghost_iff. Qed.

(* whole frames: what reply() emits satisfies the frame-level monitors *)
Theorem C18_frame_udp :
  forall E cfg clk tb f tb' r evs,
    cfg_ok cfg = true -> env_ok E = true -> c18_ident_ok E = true ->
    reply E cfg clk tb f = Ok (tb', r, evs) ->
    ok_C18_udp cfg f r = true.
Proof. exact frame_udp. Qed.

Theorem C18_frame_tcp_first_state :
  forall E cfg clk tb f tb' r evs v,
    cfg_ok cfg = true -> env_ok E = true -> c18_ident_ok E = true -> bytes_ok f = true ->
    view_tcp cfg f = Some v ->
    is_data (tcp_flags (v_l4 v)) = true ->
    tbl_mem (flow_cookie cfg (flow_of v)) tb = false ->
    presents_cookie cfg v = true ->
    reply E cfg clk tb f = Ok (tb', r, evs) ->
    exists o, tcp_resp r = Some o /\ app_ok_C18 (ctx_of true v) (tcp_payload (v_l4 v)) o = true.
Proof. exact frame_tcp_first_state. Qed.

Theorem C18_frame_tcp_first_history :
  forall E cfg h clk tb f tb' r evs,
    cfg_ok cfg = true -> env_ok E = true -> c18_ident_ok E = true ->
    Forall (fun x => bytes_ok x = true) (frames h) -> bytes_ok f = true ->
    run E cfg [] h = Ok tb ->
    (forall v, view_tcp cfg f = Some v -> no_collision cfg (flow_of v :: ref_run cfg (frames h))) ->
    reply E cfg clk tb f = Ok (tb', r, evs) ->
    ok_C18_tcp cfg (ref_run cfg (frames h)) f r = true.
Proof. exact frame_tcp_first_history. Qed.

(* ... and with the data of the current implementation no hypothesis about tables or constants is left *)
Theorem C18_current_frame_udp :
  forall cfg clk tb f tb' r evs,
    cfg_ok cfg = true ->
    reply the_env cfg clk tb f = Ok (tb', r, evs) ->
    ok_C18_udp cfg f r = true.
Proof.
  exact (fun cfg clk tb f tb' r evs Hc =>
           frame_udp the_env cfg clk tb f tb' r evs Hc the_env_ok_c18 the_env_ident_ok).
Qed.

Theorem C18_current_frame_tcp_first :
  forall cfg h clk tb f tb' r evs,
    cfg_ok cfg = true ->
    Forall (fun x => bytes_ok x = true) (frames h) -> bytes_ok f = true ->
    run the_env cfg [] h = Ok tb ->
    (forall v, view_tcp cfg f = Some v -> no_collision cfg (flow_of v :: ref_run cfg (frames h))) ->
    reply the_env cfg clk tb f = Ok (tb', r, evs) ->
    ok_C18_tcp cfg (ref_run cfg (frames h)) f r = true.
Proof.
  exact (fun cfg h clk tb f tb' r evs Hc =>
           frame_tcp_first_history the_env cfg h clk tb f tb' r evs Hc the_env_ok_c18 the_env_ident_ok).
Qed.

Print Assumptions C18_ssh_reference_grammar.
Print Assumptions C18_ssh_reference_first_crlf.
Print Assumptions C18_ssh_parser_language.
Print Assumptions C18_ssh_repl_exact.
Print Assumptions C18_ssh_repl_iff.
Print Assumptions C18_dispatch_ssh.
Print Assumptions C18_dispatch_ghost.
Print Assumptions C18_udp_ssh.
Print Assumptions C18_udp_ghost.
Print Assumptions C18_tcp_first_ssh.
Print Assumptions C18_tcp_first_ghost.
Print Assumptions C18_constants.
Print Assumptions C18_prefix_identified_sound.
Print Assumptions C18_current_tables_identify.
Print Assumptions C18_app_udp.
Print Assumptions C18_app_tcp_first.
Print Assumptions C18_answer_udp.
Print Assumptions C18_answer_tcp_first.
Print Assumptions C18_current.
Print Assumptions C18_current_ssh_identification.
Print Assumptions C18_current_ghost_identification.
Print Assumptions C18_frame_udp.
Print Assumptions C18_frame_tcp_first_state.
Print Assumptions C18_frame_tcp_first_history.
Print Assumptions C18_current_frame_udp.
Print Assumptions C18_current_frame_tcp_first.
