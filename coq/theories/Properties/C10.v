(* Properties/C10.v -- protocol identification is decided by the leading bytes
   against the published signature set.  Statements only; the reference (the
   published signatures and their automaton) is Spec/RefSig.v, the product check
   and the known points are Spec/C10.v + Spec/C10Known.v, proofs in Proofs/C10*.v.

   The identification by the compiled matcher equals the reference identification
   on byte strings of every length, EXCEPT on the known class: payloads whose
   reference run passes a point of K0 (Spec/C10Known.v; 92 points, 4 families, all
   needed for the current implementation: C10_known_needed, C10_known_witnesses).
   The hypothesis [product_ok t K0] is decided by computation on the table dumped
   from the implementation on every run (C10_current, C10_current_product_ok). *)
From MS Require Import Smack Proto Spec.AppView Spec.RefSig Spec.C10 Spec.C10Known Instance
  Proofs.C10Sound Proofs.C10Seg Proofs.C10Dispatch Proofs.C10Ref Proofs.C10Current.

(* ---- generic over the table: soundness of the product check (unbounded strings) ---- *)
Theorem C10_product_sound :
  forall t K, smack_ok t = true -> product_ok t K = true ->
  forall s, bytes_ok s = true -> D0 K s = false ->
    udp_id_tbl t s = ref_udp s /\ tcp_first_id_tbl t s = ref_tcp s.
Proof. exact product_sound. Qed.
Print Assumptions C10_product_sound.

(* the monotone variant of the check (every point of K read as "unconstrained") *)
Theorem C10_product_sound_lax :
  forall t K, smack_ok t = true -> product_ok_lax t K = true ->
  forall s, bytes_ok s = true -> D0 K s = false ->
    udp_id_tbl t s = ref_udp s /\ tcp_first_id_tbl t s = ref_tcp s.
Proof. exact product_sound_lax. Qed.
Print Assumptions C10_product_sound_lax.

(* over TCP the end-of-datagram points of K play no part *)
Theorem C10_product_sound_tcp :
  forall t K, smack_ok t = true -> product_ok t K = true ->
  forall s, bytes_ok s = true -> D0_tcp K s = false -> tcp_first_id_tbl t s = ref_tcp s.
Proof. exact product_sound_tcp. Qed.
Print Assumptions C10_product_sound_tcp.

(* the same for any certificate: only closure and agreement of (Dd, V) matter *)
Theorem C10_check_sound :
  forall t K Dd V, smack_ok t = true -> check t K Dd V = true ->
  forall s, bytes_ok s = true ->
    (D0_tcp K s = false -> tcp_first_id_tbl t s = ref_tcp s) /\
    (D0_udp K s = false -> udp_id_tbl t s = ref_udp s).
Proof. exact check_sound. Qed.
Print Assumptions C10_check_sound.

(* refined class: where the first known point met is a dead point the table identifies
   nothing; so the two agree unless the reference identifies something *)
Theorem C10_product_sound_refined :
  forall t K, smack_ok t = true -> product_ok t K = true ->
  forall s, bytes_ok s = true ->
    (D0x_udp K s = false -> udp_id_tbl t s = ref_udp s) /\
    (D0x_tcp K s = false -> tcp_first_id_tbl t s = ref_tcp s).
Proof. exact product_sound_refined. Qed.
Print Assumptions C10_product_sound_refined.

Theorem C10_dead_points :
  forall t K, smack_ok t = true -> product_ok t K = true ->
  forall (udp : bool) s s1 x, bytes_ok s = true ->
    d0_first K udp r_init s = Some (s1, x) -> x < 256 -> k_dead_at K s1 = true ->
    tcp_first_id_tbl t s = None /\ udp_id_tbl t s = None.
Proof. exact product_dead_sound. Qed.
Print Assumptions C10_dead_points.

(* ---- the current implementation (per-run obligation discharged by computation) ---- *)
Theorem C10_current_product_ok : product_ok (e_proto_tbl the_env) K0 = true.
Proof. exact cur_product_ok. Qed.
Print Assumptions C10_current_product_ok.

Theorem C10_current_product_ok_lax : product_ok_lax (e_proto_tbl the_env) K0 = true.
Proof. exact cur_product_ok_lax. Qed.
Print Assumptions C10_current_product_ok_lax.

Theorem C10_current :
  forall s, bytes_ok s = true -> D0 K0 s = false ->
    udp_id the_env s = ref_udp s /\ tcp_first_id the_env s = ref_tcp s.
Proof. exact current_ident. Qed.
Print Assumptions C10_current.

Theorem C10_current_tcp :
  forall s, bytes_ok s = true -> D0_tcp K0 s = false -> tcp_first_id the_env s = ref_tcp s.
Proof. exact current_ident_tcp. Qed.
Print Assumptions C10_current_tcp.

Theorem C10_current_refined :
  forall s, bytes_ok s = true ->
    (c10_class_payload false s = false -> udp_id the_env s = ref_udp s) /\
    (c10_class_payload true s = false -> tcp_first_id the_env s = ref_tcp s).
Proof. exact current_ident_refined. Qed.
Print Assumptions C10_current_refined.

(* ---- segmentation over TCP ---- *)
(* one cut: the search over a ++ b is the search over a, resumed over b from the state
   reached when a completes no signature *)
Theorem C10_segmentation :
  forall t, smack_ok t = true -> sm_rows t <= TWO24 ->
  forall st a b, plain t st ->
    search_next t st (a ++ b) =
    let '(id, st', n) := search_next t st a in
    match id with
    | Some i => (Some i, st', n)
    | None => let '(id2, st2, n2) := search_next t st' b in (id2, st2, (length a + n2)%nat)
    end.
Proof. exact search_next_split. Qed.
Print Assumptions C10_segmentation.

(* any number of cuts: same id, same matcher state, same stream offset as one search
   over the concatenation *)
Theorem C10_segmentation_any :
  forall t, smack_ok t = true -> sm_rows t <= TWO24 ->
  forall segs st off, plain t st ->
    ident_segs t st off segs =
    let '(id, st', n) := search_next t st (concat segs) in (id, st', (off + n)%nat).
Proof. exact ident_segs_concat. Qed.
Print Assumptions C10_segmentation_any.

(* in the control block: while the stream completes no signature nothing is answered,
   [t_smack] is the state of the one-shot search, and [t_pending] holds the bytes kept so
   far ([pending_after]: a segment is appended as long as the total is at most PENDING_MAX,
   otherwise the buffer is dropped) ... *)
Theorem C10_segmentation_tcb :
  forall E clk ci, smack_ok (e_proto_tbl E) = true -> sm_rows (e_proto_tbl E) <= TWO24 ->
  forall segs tc st' n,
    t_proto tc = PROTO_NONE -> plain (e_proto_tbl E) (t_smack tc) ->
    search_next (e_proto_tbl E) (t_smack tc) (concat segs) = (None, st', n) ->
    tcp_feed E clk ci tc segs =
    Ok (ci, {| t_smack := st'; t_proto := PROTO_NONE; t_pstate := t_pstate tc;
               t_pending := pending_after (t_pending tc) segs |}, repeat None (length segs)).
Proof. exact tcp_feed_unidentified. Qed.
Print Assumptions C10_segmentation_tcb.

(* ... which is all of them as long as they are at most PENDING_MAX: on a fresh flow the
   control block holds exactly the one-shot search state and the bytes received so far *)
Theorem C10_segmentation_pending :
  forall segs p, lenN p + lenN (concat segs) <= PENDING_MAX -> pending_after p segs = p ++ concat segs.
Proof. exact pending_after_small. Qed.
Print Assumptions C10_segmentation_pending.

Theorem C10_segmentation_tcb_new :
  forall E clk ci, smack_ok (e_proto_tbl E) = true -> sm_rows (e_proto_tbl E) <= TWO24 ->
  forall segs st' n,
    0 < sm_rows (e_proto_tbl E) -> 0 < sm_match_limit (e_proto_tbl E) ->
    lenN (concat segs) <= PENDING_MAX ->
    search_next (e_proto_tbl E) BASE_STATE (concat segs) = (None, st', n) ->
    tcp_feed E clk ci tcb_new segs =
    Ok (ci, {| t_smack := st'; t_proto := PROTO_NONE; t_pstate := None; t_pending := concat segs |},
        repeat None (length segs)).
Proof. exact tcp_feed_unidentified_new. Qed.
Print Assumptions C10_segmentation_tcb_new.

(* the bound loses nothing on the current table: a stream whose first 28 bytes complete no
   signature never completes one (per-run computed fact), so a signature is completed while
   everything received is still in the buffer *)
Theorem C10_identified_early :
  forall s a i, bytes_ok (s ++ a) = true ->
    tcp_first_id the_env s = None -> tcp_first_id the_env (s ++ a) = Some i ->
    (length s < 28)%nat /\ lenN s <= PENDING_MAX.
Proof. exact current_ident_within. Qed.
Print Assumptions C10_identified_early.

Theorem C10_unidentified_forever :
  forall s a, bytes_ok (s ++ a) = true -> (28 <= length s)%nat ->
    tcp_first_id the_env s = None -> tcp_first_id the_env (s ++ a) = None.
Proof. exact current_unidentified_forever. Qed.
Print Assumptions C10_unidentified_forever.

(* the current implementation against the reference: however the leading bytes are cut,
   the segments before the one in which the published set completes a signature get no
   payload (they are kept in the control block), and the responder of the reference's id
   is handed the whole stream up to the end of that segment *)
Theorem C10_segmentation_current :
  forall clk ci segs a id,
    bytes_ok (concat segs ++ a) = true -> D0_tcp K0 (concat segs ++ a) = false ->
    ref_tcp (concat segs) = None -> ref_tcp (concat segs ++ a) = Some id ->
    exists st1 st',
      let tc0 := {| t_smack := st1; t_proto := PROTO_NONE; t_pstate := None; t_pending := concat segs |} in
      tcp_feed the_env clk ci tcb_new segs = Ok (ci, tc0, repeat None (length segs)) /\
      proto_repl_tcp the_env clk ci tc0 a =
        (let tc1 := {| t_smack := st'; t_proto := id; t_pstate := None; t_pending := [] |} in
         do r <- dispatch the_env clk ci id (Some tc1) (concat segs ++ a);
         let '(ci', t', out) := r in Ok (ci', match t' with Some x => x | None => tc1 end, out)).
Proof. exact current_segmentation. Qed.
Print Assumptions C10_segmentation_current.

Theorem C10_segmentation_nonvacuous :
  let segs := [[71]; [69; 84]] in let a := skipn 3 E_http_get in
  bytes_ok (concat segs ++ a) = true /\ D0_tcp K0 (concat segs ++ a) = false /\
  ref_tcp (concat segs) = None /\ ref_tcp (concat segs ++ a) = Some ID_HTTP /\
  fst (fst (ident_segs cur_tbl BASE_STATE 0 (segs ++ [a]))) = Some PROTO_HTTP /\
  snd (ident_segs cur_tbl BASE_STATE 0 (segs ++ [a])) = 5%nat.
Proof. exact segmentation_nonvacuous. Qed.
Print Assumptions C10_segmentation_nonvacuous.

(* ---- dispatch: the responder is a function of the identification alone ---- *)
Theorem C10_dispatch_udp :
  forall E clk ci p,
    proto_repl_udp E clk ci p =
    match udp_id E p with
    | Some id => udp_via E clk ci id p          (* dispatch E clk ci id None p *)
    | None => udp_fallback ci p                 (* the DNS fallback, nothing else *)
    end.
Proof. exact dispatch_udp. Qed.
Print Assumptions C10_dispatch_udp.

Theorem C10_dispatch_tcp_none :
  forall E clk ci p, tcp_first_id E p = None ->
    exists st, proto_repl_tcp E clk ci tcb_new p =
               Ok (ci, {| t_smack := st; t_proto := PROTO_NONE; t_pstate := None;
                          t_pending := if lenN p <=? PENDING_MAX then p else [] |}, None).
Proof. exact dispatch_tcp_none. Qed.
Print Assumptions C10_dispatch_tcp_none.

Theorem C10_dispatch_tcp_some :
  forall E clk ci p id, tcp_first_id E p = Some id ->
    exists st, proto_repl_tcp E clk ci tcb_new p =
      (let tc1 := {| t_smack := st; t_proto := id; t_pstate := None; t_pending := [] |} in
       do r <- dispatch E clk ci id (Some tc1) p;
       let '(ci', t', out) := r in Ok (ci', match t' with Some x => x | None => tc1 end, out)).
Proof. exact dispatch_tcp_some. Qed.
Print Assumptions C10_dispatch_tcp_some.

(* ports and addresses play no part in the choice of the handler *)
Theorem C10_id_independent_of_ctx :
  forall E clk ci1 ci2 p,
    (exists id, proto_repl_udp E clk ci1 p = udp_via E clk ci1 id p /\
                proto_repl_udp E clk ci2 p = udp_via E clk ci2 id p) \/
    (proto_repl_udp E clk ci1 p = udp_fallback ci1 p /\
     proto_repl_udp E clk ci2 p = udp_fallback ci2 p).
Proof. exact id_independent_of_ctx. Qed.
Print Assumptions C10_id_independent_of_ctx.

(* [dispatch] under a protocol id is that protocol's responder (composes with C13, C15-C18) *)
Theorem C10_dispatch_responders :
  forall E clk ci p,
  dispatch E clk ci PROTO_HTTP None p =
    (do hr <- http_repl (e_http_tbl E) (e_http_pre E) (e_http_post E) (clk_date clk) http_new p;
     Ok (ci, None, snd hr)) /\
  dispatch E clk ci PROTO_STUN None p = (let '(ci', r) := stun_repl ci p in Ok (ci', None, r)) /\
  dispatch E clk ci PROTO_SSH None p = Ok (ci, None, ssh_repl (e_ssh_banner E) p) /\
  dispatch E clk ci PROTO_GHOST None p = Ok (ci, None, ghost_repl (e_ghost E) p) /\
  dispatch E clk ci PROTO_RPC_TCP None p =
    match ci_ip_dst ci, ci_port_dst ci with
    | Some ip, Some port => Ok (ci, None, snd (rpc_repl_tcp (rpc_new R_FRAG) ip port p))
    | _, _ => Ok (ci, None, None)
    end /\
  dispatch E clk ci PROTO_RPC_UDP None p =
    match ci_ip_dst ci, ci_port_dst ci with
    | Some ip, Some port => Ok (ci, None, rpc_repl_udp ip port p)
    | _, _ => Ok (ci, None, None)
    end /\
  dispatch E clk ci PROTO_SMB1 None p =
    (do r <- smb1_repl (e_smb_neg E) (e_smb_chal E) (clk_filetime clk) p; Ok (ci, None, r)) /\
  dispatch E clk ci PROTO_SMB2 None p =
    (do r <- smb2_repl (e_smb_neg E) (e_smb_chal E) (clk_filetime clk) p; Ok (ci, None, r)).
Proof. exact dispatch_responders. Qed.
Print Assumptions C10_dispatch_responders.

(* ---- the property, on the current implementation, in terms of the published set ---- *)
(* a payload whose leading bytes complete no signature is never answered by a
   signature-dispatched responder *)
Theorem C10_no_signature_udp :
  forall clk ci p, bytes_ok p = true -> c10_class_payload false p = false ->
    ref_udp p = None -> proto_repl_udp the_env clk ci p = udp_fallback ci p.
Proof. exact current_no_signature_udp. Qed.
Print Assumptions C10_no_signature_udp.

Theorem C10_no_signature_tcp :
  forall clk ci p, bytes_ok p = true -> c10_class_payload true p = false ->
    ref_tcp p = None ->
    exists st, proto_repl_tcp the_env clk ci tcb_new p =
               Ok (ci, {| t_smack := st; t_proto := PROTO_NONE; t_pstate := None;
                          t_pending := if lenN p <=? PENDING_MAX then p else [] |}, None).
Proof. exact current_no_signature_tcp. Qed.
Print Assumptions C10_no_signature_tcp.

(* a payload whose leading bytes complete a signature goes to that protocol's responder *)
Theorem C10_signature_udp :
  forall clk ci p id, bytes_ok p = true -> c10_class_payload false p = false ->
    ref_udp p = Some id -> proto_repl_udp the_env clk ci p = udp_via the_env clk ci id p.
Proof. exact current_signature_udp. Qed.
Print Assumptions C10_signature_udp.

Theorem C10_signature_tcp :
  forall clk ci p id, bytes_ok p = true -> c10_class_payload true p = false ->
    ref_tcp p = Some id ->
    exists st, proto_repl_tcp the_env clk ci tcb_new p =
      (let tc1 := {| t_smack := st; t_proto := id; t_pstate := None; t_pending := [] |} in
       do r <- dispatch the_env clk ci id (Some tc1) p;
       let '(ci', t', out) := r in Ok (ci', match t' with Some x => x | None => tc1 end, out)).
Proof. exact current_signature_tcp. Qed.
Print Assumptions C10_signature_tcp.

(* ---- the known class: sufficient, needed, replayed ---- *)
(* every point at which the verdicts of the current table and of the reference differ
   lies in the known class, and with K0 tolerated none is left *)
Theorem C10_known_covers :
  known_covers (e_proto_tbl the_env) K0 = true /\ disagreements_k (e_proto_tbl the_env) K0 = [].
Proof. exact (conj cur_known_covers cur_no_new_disagreement). Qed.
Print Assumptions C10_known_covers.

(* every entry of K0 is met first by some payload on which table and reference differ *)
Theorem C10_known_needed : k0_needed (e_proto_tbl the_env) = true.
Proof. exact cur_k0_needed. Qed.
Print Assumptions C10_known_needed.

Theorem C10_known_witnesses :
  (D0 K0 W_shadow_udp = true /\ udp_id the_env W_shadow_udp = None /\ ref_udp W_shadow_udp = Some ID_RPC_UDP) /\
  (D0_tcp K0 W_shadow_tcp = true /\ tcp_first_id the_env W_shadow_tcp = None /\ ref_tcp W_shadow_tcp = Some ID_RPC_TCP) /\
  (D0_tcp K0 W_rpc_tcp_xid0 = true /\ tcp_first_id the_env W_rpc_tcp_xid0 = None /\ ref_tcp W_rpc_tcp_xid0 = Some ID_RPC_TCP) /\
  (D0 K0 W_stun_len4 = true /\ udp_id the_env W_stun_len4 = None /\ ref_udp W_stun_len4 = Some ID_STUN) /\
  (D0_tcp K0 W_stun_cookie20 = true /\ tcp_first_id the_env W_stun_cookie20 = None /\
   ref_tcp W_stun_cookie20 = Some ID_STUN /\ udp_id the_env W_stun_cookie20 = Some ID_STUN) /\
  (D0 K0 W_stun_len8 = true /\ udp_id the_env W_stun_len8 = None /\ ref_udp W_stun_len8 = Some ID_STUN) /\
  (D0 K0 W_end_udp23 = true /\ udp_id the_env W_end_udp23 = Some ID_RPC_UDP /\ ref_udp W_end_udp23 = None) /\
  (D0 K0 W_end_tcp27 = true /\ udp_id the_env W_end_tcp27 = Some ID_RPC_TCP /\ ref_udp W_end_tcp27 = None) /\
  (D0 K0 W_tie = true /\ udp_id the_env W_tie = Some ID_STUN /\ ref_udp W_tie = Some ID_RPC_TCP).
Proof. exact known_witnesses. Qed.
Print Assumptions C10_known_witnesses.

(* ordinary payloads (HTTP, SSH, Gh0st, the STUN layouts, RPC with an ordinary xid, SMB1/2
   in NBT, DNS, garbage, empty): outside the class, identified as published, by the table,
   by the reference automaton and by the direct reading of the signature list *)
Theorem C10_examples : forallb example_ok examples = true.
Proof. exact examples_ok. Qed.
Print Assumptions C10_examples.

(* ---- the reference automaton computes the direct reading of the published list: the
   shortest prefix of the payload that is exactly matched by a signature without end anchor
   decides (first such signature in the list); failing that, over UDP, an end-anchored
   signature that matches the whole datagram ---- *)
Theorem C10_ref_is_direct_reading :
  forall p, ref_udp p = ref_udp_decl p /\ ref_tcp p = ref_tcp_decl p.
Proof. exact (fun p => conj (ref_udp_is_decl p) (ref_tcp_is_decl p)). Qed.
Print Assumptions C10_ref_is_direct_reading.

(* ---- the reference: ties between signatures completed at the same position carry the
   same id on every payload (the order of the published list is immaterial) ---- *)
Theorem C10_ref_tie_free : forall p, bytes_ok p = true -> ties_run r_init p = true.
Proof. exact ref_tie_free. Qed.
Print Assumptions C10_ref_tie_free.
