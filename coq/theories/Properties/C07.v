(* Properties/C07.v -- TCP data is accepted only behind a valid cookie; seq/ack arithmetic is exact. *)
From MS Require Import L2 Spec.View Spec.RefDec Spec.TcpRef Spec.C07 Spec.History Spec.EnvOk Proofs.C07.

(* State level, unconditional: with "accepted" read off the implementation's table
   (keyed by the cookie), every TCP segment is answered as the reference prescribes. *)
Theorem C07_state_level :
  forall E cfg clk tb f tb' r evs v,
    cfg_ok cfg = true -> env_ok E = true -> bytes_ok f = true ->
    view_tcp cfg f = Some v ->
    reply E cfg clk tb f = Ok (tb', r, evs) ->
    ok_C07_with (tbl_mem (flow_cookie cfg (flow_of v)) tb || presents_cookie cfg v) cfg f r = true.
Proof. exact state_level. Qed.

(* History level: after any history, with "accepted" decided by the reference
   connection model keyed by the 4-tuple -- provided no two flows involved share
   a SYN cookie (without that hypothesis the statement is false: C08 known finding). *)
Theorem C07_history_level :
  forall E cfg h clk tb f tb' r evs v,
    cfg_ok cfg = true -> env_ok E = true ->
    Forall (fun x => bytes_ok x = true) (frames h) -> bytes_ok f = true ->
    run E cfg [] h = Ok tb ->
    view_tcp cfg f = Some v ->
    no_collision cfg (flow_of v :: ref_run cfg (frames h)) ->
    reply E cfg clk tb f = Ok (tb', r, evs) ->
    ok_C07 cfg (ref_run cfg (frames h)) f r = true.
Proof. exact history_level. Qed.

Print Assumptions C07_state_level.
Print Assumptions C07_history_level.
