(* Spec/RefIp6Text.v -- an INDEPENDENT reader for the textual form of IPv6
   addresses (RFC 4291 section 2.2, accepted forms; RFC 5952 only restricts what
   a printer should emit, a reader must accept all of 4291) and for the IPv6
   universal address of RFC 1833 / RFC 5665 ("<host text>.<port/256>.<port mod 256>").

   Nothing here is derived from [Text.render_ipv6]: the reader works on the text,
     1. looks for the first "::" (at most one may occur);
     2. reads the text on each side as a ':'-separated list of groups, each group
        1..4 hexadecimal digits of either case; the LAST field of the right-hand
        side (of the whole text when there is no "::") may instead be a dotted
        decimal IPv4 address standing for two groups;
     3. without "::" exactly 8 groups are required; with "::" at most 7 may be
        written and the "::" stands for the missing (one or more) zero groups;
     4. everything else is rejected: empty groups (a stray ':' at either end, ":::"),
        a second "::", more than 8 groups, a "::" when 8 groups are written,
        groups of more than 4 digits, an IPv4 part that is not last or not
        four numbers below 256 without leading zeros, any other character.
   Shared with the rest of the development: [Bytes.v] and the Spec-side helpers
   [split_on] / [dec_value] / [parse_uaddr4] of Spec/C16.v (themselves independent
   of the model).  Definitions only; the round trip with the model's printer is
   Proofs/C16Ip6.v. *)
From MS Require Export Bytes Types Spec.C16 Spec.View.

(* ---- hexadecimal groups ---- *)
Definition hex_value (b : N) : option N :=
  if (48 <=? b) && (b <=? 57) then Some (b - 48)            (* 0-9 *)
  else if (97 <=? b) && (b <=? 102) then Some (b - 87)      (* a-f *)
  else if (65 <=? b) && (b <=? 70) then Some (b - 55)       (* A-F *)
  else None.

Fixpoint hex_acc (l : bytes) (acc : N) : option N :=
  match l with
  | [] => Some acc
  | b :: t => match hex_value b with Some d => hex_acc t (acc * 16 + d) | None => None end
  end.

(* one group: 1 to 4 hexadecimal digits *)
Definition group_value (l : bytes) : option N :=
  match l with
  | [] => None
  | _ :: _ => if (length l <=? 4)%nat then hex_acc l 0 else None
  end.

(* ---- the trailing dotted-decimal IPv4 part: two groups ---- *)
Definition has_dot (l : bytes) : bool := existsb (fun b => b =? 46) l.

Definition v4_groups (f : bytes) : option (list N) :=
  match map dec_value (split_on 46 f []) with
  | [Some a; Some b; Some c; Some d] =>
    if (a <? 256) && (b <? 256) && (c <? 256) && (d <? 256)
    then Some [a * 256 + b; c * 256 + d] else None
  | _ => None
  end.

(* ---- a ':'-separated list of groups ---- *)
(* [v4 = true]: the last field may be a dotted IPv4 address *)
Fixpoint field_groups (v4 : bool) (fs : list bytes) : option (list N) :=
  match fs with
  | [] => Some []
  | f :: t =>
    match t with
    | [] =>
      if v4 && has_dot f then v4_groups f
      else match group_value f with Some g => Some [g] | None => None end
    | _ :: _ =>
      match group_value f, field_groups v4 t with
      | Some g, Some r => Some (g :: r)
      | _, _ => None
      end
    end
  end.

(* the empty text is the empty list of groups (only meaningful beside "::") *)
Definition text_groups (v4 : bool) (t : bytes) : option (list N) :=
  match t with
  | [] => Some []
  | _ :: _ => field_groups v4 (split_on 58 t [])
  end.

(* ---- the first "::" : text before, text after ---- *)
Fixpoint find_dcolon (s : bytes) : option (bytes * bytes) :=
  match s with
  | [] => None
  | a :: s' =>
    match s' with
    | [] => None
    | b :: t =>
      if (a =? 58) && (b =? 58) then Some ([], t)
      else match find_dcolon s' with
           | Some (l, r) => Some (a :: l, r)
           | None => None
           end
    end
  end.

(* ---- the 8 groups of an address text ---- *)
Definition parse_ip6_groups (s : bytes) : option (list N) :=
  match find_dcolon s with
  | None =>
    match text_groups true s with
    | Some g => if (length g =? 8)%nat then Some g else None
    | None => None
    end
  | Some (l, r) =>
    (* a second "::" in [r], or a ':' next to the "::", gives an empty field, rejected by [group_value] *)
    match text_groups false l, text_groups true r with
    | Some gl, Some gr =>
      if (length gl + length gr <? 8)%nat
      then Some (gl ++ repeat 0 (8 - (length gl + length gr)) ++ gr)
      else None
    | _, _ => None
    end
  end.

Definition group_octets (g : N) : bytes := [g / 256; g mod 256].

(* text -> 16 octets *)
Definition parse_ip6_text (s : bytes) : option bytes :=
  match parse_ip6_groups s with
  | Some gs => Some (flat_map group_octets gs)
  | None => None
  end.

(* ---- universal address, IPv6 form ---- *)
(* split at the LAST dot (the host text of an IPv4-mapped address contains dots itself) *)
Fixpoint split_last_dot (s : bytes) : option (bytes * bytes) :=
  match s with
  | [] => None
  | b :: t =>
    match split_last_dot t with
    | Some (h, x) => Some (b :: h, x)
    | None => if b =? 46 then Some ([], t) else None
    end
  end.

(* host text, then ".hi.lo": decimal numbers below 256 without leading zeros *)
Definition parse_uaddr6 (s : bytes) : option (bytes * N) :=
  match split_last_dot s with
  | Some (s1, lo) =>
    match split_last_dot s1 with
    | Some (host, hi) =>
      match parse_ip6_text host, dec_value hi, dec_value lo with
      | Some o, Some h, Some l =>
        if (h <? 256) && (l <? 256) then Some (o, h * 256 + l) else None
      | _, _, _ => None
      end
    | None => None
    end
  | None => None
  end.

(* ---- the strengthened reference for C16: the advertised universal address
   READS BACK (with the independent readers) to exactly the contacted address and
   port.  Independent of [render_ip]. ---- *)
Definition uaddr_ok (ip : ipaddr) (port : N) (s : bytes) : bool :=
  match ip with
  | V4 o =>
    match parse_uaddr4 s with
    | Some (o', p') => bytes_eqb o o' && (p' =? port)
    | None => false
    end
  | V6 o =>
    match parse_uaddr6 s with
    | Some (o', p') => bytes_eqb o o' && (p' =? port)
    | None => false
    end
  end.

(* full statements (all proved in Proofs/C16Ip6.v; kept here for reference) *)
Definition ip6_text_roundtrip_stmt : Prop :=
  forall o, length o = 16%nat -> bytes_ok o = true -> parse_ip6_text (render_ipv6 o) = Some o.
Definition uaddr6_roundtrip_stmt : Prop :=
  forall o port, length o = 16%nat -> bytes_ok o = true -> port < 65536 ->
    parse_uaddr6 (uaddr_text (V6 o) port) = Some (o, port).
Definition uaddr_ok_stmt : Prop :=
  forall ip port, ip_ok ip = true -> port < 65536 -> uaddr_ok ip port (uaddr_text ip port) = true.
