(* L2.v -- src/layer_2/{mod,arp}.rs and the entry point src/masscanned.rs:reply. *)
From MS Require Export Bytes Res Types Checksum L3.

Definition MAC_BROADCAST : bytes := [255; 255; 255; 255; 255; 255].
Definition MAC_ALLNODES : bytes := [51; 51; 0; 0; 0; 1].

Definition mcast_mac (a : ipaddr) : bytes :=
  match a with
  | V4 o => [1; 0; 94; N.land (u8_at 1 o) 127; u8_at 2 o; u8_at 3 o]
  | V6 o => [51; 51; 255; u8_at 13 o; u8_at 14 o; u8_at 15 o]
  end.

Definition auth_mac (cfg : config) (m : bytes) : bool :=
  bytes_eqb m MAC_BROADCAST || bytes_eqb m (c_mac cfg) || bytes_eqb m MAC_ALLNODES ||
  match c_self cfg with
  | Some l => existsb (fun a => bytes_eqb m (mcast_mac a)) l
  | None => false
  end.

Definition arp_ci (hw1 hw2 ip1 ip2 : bytes) : cinfo :=
  {| ci_mac_src := Some hw1; ci_mac_dst := Some hw2; ci_ip_src := Some (V4 ip1); ci_ip_dst := Some (V4 ip2);
     ci_transport := None; ci_port_src := None; ci_port_dst := None; ci_cookie := None |}.

Definition arp_repl (cfg : config) (p : bytes) : option bytes * list event :=
  let op := u16_at 6 p in
  let sha := slice 8 6 p in
  let spa := slice 14 4 p in
  let tha := slice 18 6 p in
  let tpa := slice 24 4 p in
  let req_ci := arp_ci sha tha spa tpa in
  let recv := mk_ev LArp Recv req_ci [op] in
  let drop := (None, [recv; mk_ev LArp Drop req_ci [op]]) in
  if op =? 1 then
    if match c_self cfg with Some l => negb (ip_in (V4 tpa) l) | None => false end then drop
    else
      (* the reply is the request buffer with six fields overwritten *)
      (Some ([0; 1] ++ slice 2 4 p ++ [0; 2] ++ c_mac cfg ++ tpa ++ sha ++ spa ++ skipn 28 p),
       (* arp_send prints target hw, sender hw, target ip, sender ip of the reply *)
       [recv; mk_ev LArp Send (arp_ci sha (c_mac cfg) spa tpa) [2]])
  else drop.

Definition eth_frame (dst src : bytes) (ety : N) (pl : bytes) : bytes :=
  dst ++ src ++ be16 ety ++ pl.

Definition eth_repl (E : env) (cfg : config) (clk : clock) (tb : table) (f : bytes)
  : res (table * option bytes * list event) :=
  let dst := slice 0 6 f in
  let src := slice 6 6 f in
  let ety := u16_at 12 f in
  let pl := skipn 14 f in
  let ci := ci_set_mac ci_empty src dst in
  let recv := mk_ev LEth Recv ci [ety] in
  let dropped tb' c evs := Ok (tb', None, recv :: evs ++ [mk_ev LEth Drop c [ety]]) in
  let sent tb' c l3 evs :=
    Ok (tb', Some (eth_frame src (c_mac cfg) ety l3), recv :: evs ++ [mk_ev LEth Send c [ety]]) in
  if negb (auth_mac cfg dst) then dropped tb ci []
  else if ety =? 2054 then
    if (length pl <? 28)%nat then dropped tb ci []
    else
      match arp_repl cfg pl with
      | (Some r, evs) => sent tb ci r evs
      | (None, evs) => dropped tb ci evs
      end
  else if ety =? 2048 then
    if (length pl <? 20)%nat then dropped tb ci []
    else
      do x <- ipv4_repl E cfg clk tb ci pl;
      let '(tb', ci', out, evs) := x in
      match out with
      | Some r => sent tb' ci' (set_cksum 10 r (checksum (firstn 20 r))) evs
      | None => dropped tb' ci' evs
      end
  else if ety =? 34525 then
    if (length pl <? 40)%nat then dropped tb ci []
    else
      do x <- ipv6_repl E cfg clk tb ci pl;
      let '(tb', ci', out, evs) := x in
      match out with
      | Some r => sent tb' ci' r evs
      | None => dropped tb' ci' evs
      end
  else dropped tb ci [].

(* src/masscanned.rs: reply() *)
Definition reply (E : env) (cfg : config) (clk : clock) (tb : table) (f : bytes)
  : res (table * option bytes * list event) :=
  if (length f <? 14)%nat then Ok (tb, None, [])
  else eth_repl E cfg clk tb f.
