(* C17Stmts.v -- the theorems of Proofs/C17Smb1.v / C17Smb2.v restated without the
   auxiliary definitions of the proof files (final parser states and expected reply
   headers spelled out field by field), in the form quoted by Properties/C17.v. *)
From MS Require Import Proofs.Tactics Smb Proto Proofs.SmbSafe Spec.RefSmb Spec.C17 Spec.AppView
  Proofs.C17Lib Proofs.C17Smb1 Proofs.C17Smb2 Proofs.C17Mon.
Open Scope N_scope.

(* the fields of an SMB1 / SMB2 header as the header dissector holds them at End *)
Definition hdr1_holds (hs : hdr1) (h : smb1_hdr) : Prop :=
  d_st (h1_d hs) = H1_END /\ h1_command hs = sh1_command h /\ h1_status hs = sh1_status h /\
  h1_flags hs = sh1_flags h /\ h1_flags2 hs = sh1_flags2 h /\ h1_pid_high hs = sh1_pid_high h /\
  h1_tid hs = sh1_tid h /\ h1_pid_low hs = sh1_pid_low h /\ h1_uid hs = sh1_uid h /\ h1_mid hs = sh1_mid h.
Definition hdr2_holds (hs : hdr2) (h : smb2_hdr) : Prop :=
  d_st (h2_d hs) = H2_END /\ h2_structure_size hs = 64 /\ h2_credit_charge hs = sh2_credit_charge h /\
  h2_status hs = sh2_status h /\ h2_command hs = sh2_command h /\ h2_credits_requested hs = sh2_credits h /\
  h2_flags hs = sh2_flags h /\ h2_next_command hs = sh2_next_command h /\
  h2_message_id hs = sh2_message_id h /\ h2_async_id hs = sh2_async_id h /\ h2_session_id hs = sh2_session_id h.

(* the correlation fields of a reply header *)
Definition reply1_echoes (h rh : smb1_hdr) : Prop :=
  has_bit (sh1_flags rh) SMB_FLAGS_REPLY = true /\ sh1_command rh = sh1_command h /\
  sh1_pid_high rh = sh1_pid_high h /\ sh1_tid rh = sh1_tid h /\ sh1_pid_low rh = sh1_pid_low h /\
  sh1_uid rh = sh1_uid h /\ sh1_mid rh = sh1_mid h.
Definition reply2_echoes (h rh : smb2_hdr) : Prop :=
  has_bit (sh2_flags rh) SMB2_FLAGS_SERVER_TO_REDIR = true /\ sh2_command rh = sh2_command h /\
  sh2_message_id rh = sh2_message_id h /\ sh2_async_id rh = sh2_async_id h /\
  sh2_session_id rh = sh2_session_id h.

Lemma reply1_echoes_model h : reply1_echoes h (reply_hdr1 h).
Proof. unfold reply1_echoes, reply_hdr1. cbn. repeat split; reflexivity. Qed.
Lemma reply2_echoes_model h : reply2_echoes h (reply_hdr2 h).
Proof. unfold reply2_echoes, reply_hdr2. cbn. repeat split; reflexivity. Qed.

(* ---------- parse ---------- *)
Theorem smb1_negotiate_parse_fields h d ds tail t f a b :
  smb1_hdr_wf h = true -> neg1_req_wf (d :: ds) = true ->
  smb1_is_request h = true -> sh1_command h = SMB_COM_NEGOTIATE ->
  exists s hs n,
    fold_res (nbt_byte hdr1 hdr1_new hdr1_byte)
      ([t; f; a; b] ++ ser_smb1_hdr h ++ ser_neg1_req (d :: ds) ++ tail) (nbt_new hdr1) = Ok s /\
    d_st (nb_d hdr1 s) = NB_END /\ nb_type hdr1 s = t /\ nb_pay hdr1 s = Some hs /\
    hdr1_holds hs h /\ h1_pay hs = Some (P1Neg n) /\
    d_st (n1_d n) = N1_END /\ n1_wc n = 0 /\ n1_bc n = lenN (ser_dialects (d :: ds)) /\
    n1_dialects n = d :: ds.
Proof.
  intros Hwf Hq Hreq Hcmd.
  destruct (smb1_negotiate_parse h d ds tail t f a b Hwf Hq Hreq Hcmd) as [l Hl].
  do 3 eexists. split; [exact Hl|]. unfold hdr1_holds. cbn. repeat split; reflexivity.
Qed.

Theorem smb1_setup_parse_fields h q tail t f a b :
  smb1_hdr_wf h = true -> setup1_req_wf q = true ->
  smb1_is_request h = true -> sh1_command h = SMB_COM_SESSION_SETUP_ANDX ->
  exists s hs n,
    fold_res (nbt_byte hdr1 hdr1_new hdr1_byte)
      ([t; f; a; b] ++ ser_smb1_hdr h ++ ser_setup1_req q ++ tail) (nbt_new hdr1) = Ok s /\
    d_st (nb_d hdr1 s) = NB_END /\ nb_type hdr1 s = t /\ nb_pay hdr1 s = Some hs /\
    hdr1_holds hs h /\ h1_pay hs = Some (P1Setup n) /\
    d_st (s1_d n) = S1_END /\ s1_wc n = 12 /\ s1_andx_cmd n = sq1_andx_command q /\
    s1_andx_off n = sq1_andx_offset q /\ s1_max_buf n = sq1_max_buffer q /\ s1_max_mpx n = sq1_max_mpx q /\
    s1_vc n = sq1_vc_number q /\ s1_sess_key n = sq1_session_key q /\ s1_sec_len n = lenN (sq1_blob q) /\
    s1_caps n = sq1_capabilities q /\ s1_bc n = lenN (sq1_blob q) + lenN (sq1_strings q).
Proof.
  intros Hwf Hq Hreq Hcmd.
  destruct (smb1_setup_parse h q tail t f a b Hwf Hq Hreq Hcmd) as [l Hl].
  do 3 eexists. split; [exact Hl|]. unfold hdr1_holds. cbn. repeat split; reflexivity.
Qed.

Theorem smb2_negotiate_parse_fields h q tail t f a b :
  smb2_hdr_wf h = true -> neg2_req_wf q = true ->
  smb2_is_request h = true -> sh2_command h = SMB2_NEGOTIATE ->
  exists s hs n,
    fold_res (nbt_byte hdr2 hdr2_new hdr2_byte)
      ([t; f; a; b] ++ ser_smb2_hdr h ++ ser_neg2_req q ++ tail) (nbt_new hdr2) = Ok s /\
    d_st (nb_d hdr2 s) = NB_END /\ nb_type hdr2 s = t /\ nb_pay hdr2 s = Some hs /\
    hdr2_holds hs h /\ h2_pay hs = Some (P2Neg n) /\
    d_st (n2_d n) = N2_END /\ n2_structure_size n = 36 /\
    n2_dialect_count n = N.of_nat (length (nq2_dialects q)) /\ n2_read n = N.of_nat (length (nq2_dialects q)) /\
    n2_security_mode n = nq2_security_mode q /\ n2_capabilities n = nq2_capabilities q /\
    n2_client_guid n = nq2_client_guid q /\
    (forall v, set_mem v (n2_dialects n) = offered2 v (nq2_dialects q)).
Proof.
  intros Hwf Hq Hreq Hcmd.
  destruct (smb2_negotiate_parse h q tail t f a b Hwf Hq Hreq Hcmd) as [l Hl].
  do 3 eexists. split; [exact Hl|]. unfold hdr2_holds. cbn. repeat split; try reflexivity.
  intros v. apply (set_mem_insert_all v (nq2_dialects q) []).
Qed.

Theorem smb2_setup_parse_fields h q tail t f a b :
  smb2_hdr_wf h = true -> setup2_req_wf q = true ->
  smb2_is_request h = true -> sh2_command h = SMB2_SESSION_SETUP ->
  exists s hs n,
    fold_res (nbt_byte hdr2 hdr2_new hdr2_byte)
      ([t; f; a; b] ++ ser_smb2_hdr h ++ ser_setup2_req q ++ tail) (nbt_new hdr2) = Ok s /\
    d_st (nb_d hdr2 s) = NB_END /\ nb_type hdr2 s = t /\ nb_pay hdr2 s = Some hs /\
    hdr2_holds hs h /\ h2_pay hs = Some (P2Setup n) /\
    d_st (s2_d n) = S2_END /\ s2_structure_size n = 25 /\ s2_flags n = sq2_flags q /\
    s2_security_mode n = sq2_security_mode q /\ s2_capabilities n = sq2_capabilities q /\
    s2_channel n = sq2_channel q /\ s2_sec_off n = 88 + lenN (sq2_pad q) /\
    s2_sec_len n = lenN (sq2_blob q) /\ s2_prev_session n = sq2_previous_session q.
Proof.
  intros Hwf Hq Hreq Hcmd.
  destruct (smb2_setup_parse h q tail t f a b Hwf Hq Hreq Hcmd) as [l Hl].
  do 3 eexists. split; [exact Hl|]. unfold hdr2_holds. cbn. repeat split; reflexivity.
Qed.

(* ---------- replies ---------- *)
Lemma dec_nbt_exact_len r m : dec_nbt_exact r = Some m -> lenN r = lenN m + 4.
Proof.
  unfold dec_nbt_exact. intros Hd1. destruct (rd_nbt r) as [[n rest]|] eqn:En; [|discriminate].
  destruct (rd_nbt_shape _ _ _ En) as (t0 & f0 & a0 & b0 & ->).
  destruct (n =? lenN rest); [|discriminate]. injection Hd1 as <-. rewrite lenN_app. unfold lenN at 1. cbn [length]. lia.
Qed.

Theorem smb1_negotiate_reply_fields neg chal ft h d ds tail t f a b :
  blob_ok neg chal = true -> smb1_hdr_wf h = true -> neg1_req_wf (d :: ds) = true ->
  smb1_is_request h = true -> sh1_command h = SMB_COM_NEGOTIATE ->
  exists r m rh body rsp,
    smb1_repl neg chal ft ([t; f; a; b] ++ ser_smb1_hdr h ++ ser_neg1_req (d :: ds) ++ tail) = Ok (Some r) /\
    dec_nbt_exact r = Some m /\ lenN r = lenN m + 4 /\
    rd_smb1_hdr m = Some (rh, body) /\ reply1_echoes h rh /\
    rd_neg1_resp body = Some rsp /\
    neg1_resp_consistent rsp = true /\ nr1_byte_count rsp = 16 + lenN neg /\ nr1_blob rsp = neg /\
    sel1_ok (d :: ds) (nr1_dialect_index rsp) = true /\
    neg1_reply_ok h (d :: ds) r = true.
Proof.
  intros Hblob Hwf Hq Hreq Hcmd.
  destruct (smb1_negotiate_reply neg chal ft h d ds tail t f a b Hblob Hwf Hq Hreq Hcmd)
    as (r & body & rsp & Hr & Hd1 & Hd2 & Hrd & Hc & Hbc & Hb & Hsel & Hok).
  exists r, (ser_smb1_hdr (reply_hdr1 h) ++ body), (reply_hdr1 h), body, rsp.
  split; [exact Hr|]. split; [exact Hd1|].
  split; [apply dec_nbt_exact_len; exact Hd1|].
  split. { unfold dec_smb1_reply in Hd2. rewrite Hd1 in Hd2. exact Hd2. }
  split; [apply reply1_echoes_model|]. repeat split; assumption.
Qed.

Theorem smb1_setup_reply_fields neg chal ft h q tail t f a b :
  blob_ok neg chal = true -> smb1_hdr_wf h = true -> setup1_req_wf q = true ->
  smb1_is_request h = true -> sh1_command h = SMB_COM_SESSION_SETUP_ANDX ->
  exists r m rh body rsp,
    smb1_repl neg chal ft ([t; f; a; b] ++ ser_smb1_hdr h ++ ser_setup1_req q ++ tail) = Ok (Some r) /\
    dec_nbt_exact r = Some m /\ lenN r = lenN m + 4 /\
    rd_smb1_hdr m = Some (rh, body) /\ reply1_echoes h rh /\
    rd_setup1_resp body = Some rsp /\
    setup1_resp_consistent rsp = true /\
    sr1_blob_length rsp = lenN chal /\ sr1_blob rsp = chal /\
    sr1_byte_count rsp = lenN chal + lenN (sr1_strings rsp) /\
    setup1_reply_ok h r = true.
Proof.
  intros Hblob Hwf Hq Hreq Hcmd.
  destruct (smb1_setup_reply neg chal ft h q tail t f a b Hblob Hwf Hq Hreq Hcmd)
    as (r & body & rsp & Hr & Hd1 & Hd2 & Hrd & Hc & H1 & H2 & H3 & Hok).
  exists r, (ser_smb1_hdr (reply_hdr1 h) ++ body), (reply_hdr1 h), body, rsp.
  split; [exact Hr|]. split; [exact Hd1|]. split; [apply dec_nbt_exact_len; exact Hd1|].
  split. { unfold dec_smb1_reply in Hd2. rewrite Hd1 in Hd2. exact Hd2. }
  split; [apply reply1_echoes_model|]. repeat split; assumption.
Qed.

Theorem smb2_negotiate_reply_fields neg chal ft h q d tail t f a b :
  blob_ok neg chal = true -> smb2_hdr_wf h = true -> neg2_req_wf q = true ->
  smb2_is_request h = true -> sh2_command h = SMB2_NEGOTIATE ->
  select2 (nq2_dialects q) = Some d ->
  exists r m rh body rsp,
    smb2_repl neg chal ft ([t; f; a; b] ++ ser_smb2_hdr h ++ ser_neg2_req q ++ tail) = Ok (Some r) /\
    dec_nbt_exact r = Some m /\ lenN r = lenN m + 4 /\
    rd_smb2_hdr m = Some (rh, body) /\ reply2_echoes h rh /\
    rd_neg2_resp body = Some rsp /\
    neg2_resp_consistent rsp = true /\
    nr2_dialect rsp = d /\ offered2 d (nq2_dialects q) = true /\
    nr2_buffer_offset rsp = 128 /\ nr2_buffer_length rsp = lenN neg /\ nr2_blob rsp = neg /\
    neg2_reply_ok h d r = true.
Proof.
  intros Hblob Hwf Hq Hreq Hcmd Hsel.
  destruct (smb2_negotiate_reply neg chal ft h q d tail t f a b Hblob Hwf Hq Hreq Hcmd Hsel)
    as (r & body & rsp & Hr & Hd1 & Hd2 & Hrd & Hc & H1 & H2 & H3 & H4 & Hok).
  exists r, (ser_smb2_hdr (reply_hdr2 h) ++ body), (reply_hdr2 h), body, rsp.
  split; [exact Hr|]. split; [exact Hd1|]. split; [apply dec_nbt_exact_len; exact Hd1|].
  split. { unfold dec_smb2_reply in Hd2. rewrite Hd1 in Hd2. exact Hd2. }
  split; [apply reply2_echoes_model|].
  destruct (first_offered2_spec _ _ _ Hsel) as (_ & Hoff & _).
  repeat split; assumption.
Qed.

Theorem smb2_setup_reply_fields neg chal ft h q tail t f a b :
  blob_ok neg chal = true -> smb2_hdr_wf h = true -> setup2_req_wf q = true ->
  smb2_is_request h = true -> sh2_command h = SMB2_SESSION_SETUP ->
  exists r m rh body rsp,
    smb2_repl neg chal ft ([t; f; a; b] ++ ser_smb2_hdr h ++ ser_setup2_req q ++ tail) = Ok (Some r) /\
    dec_nbt_exact r = Some m /\ lenN r = lenN m + 4 /\
    rd_smb2_hdr m = Some (rh, body) /\ reply2_echoes h rh /\
    rd_setup2_resp body = Some rsp /\
    setup2_resp_consistent rsp = true /\
    sr2_buffer_offset rsp = 72 /\ sr2_buffer_length rsp = lenN chal /\ sr2_blob rsp = chal /\
    setup2_reply_ok h r = true.
Proof.
  intros Hblob Hwf Hq Hreq Hcmd.
  destruct (smb2_setup_reply neg chal ft h q tail t f a b Hblob Hwf Hq Hreq Hcmd)
    as (r & body & rsp & Hr & Hd1 & Hd2 & Hrd & Hc & H1 & H2 & H3 & Hok).
  exists r, (ser_smb2_hdr (reply_hdr2 h) ++ body), (reply_hdr2 h), body, rsp.
  split; [exact Hr|]. split; [exact Hd1|]. split; [apply dec_nbt_exact_len; exact Hd1|].
  split. { unfold dec_smb2_reply in Hd2. rewrite Hd1 in Hd2. exact Hd2. }
  split; [apply reply2_echoes_model|]. repeat split; assumption.
Qed.

(* ---------- negative clauses, one statement per clause ---------- *)
Theorem smb1_response_flag_silent neg chal ft h body t f a b :
  smb1_hdr_wf h = true -> has_bit (sh1_flags h) SMB_FLAGS_REPLY = true ->
  smb1_repl neg chal ft ([t; f; a; b] ++ ser_smb1_hdr h ++ body) = Ok None.
Proof.
  intros Hwf Hf. apply smb1_not_request_silent; [exact Hwf|]. left. unfold smb1_is_request. rewrite Hf. reflexivity.
Qed.
Theorem smb1_other_command_silent neg chal ft h body t f a b :
  smb1_hdr_wf h = true -> sh1_command h <> SMB_COM_NEGOTIATE -> sh1_command h <> SMB_COM_SESSION_SETUP_ANDX ->
  smb1_repl neg chal ft ([t; f; a; b] ++ ser_smb1_hdr h ++ body) = Ok None.
Proof. intros Hwf H1 H2. apply smb1_not_request_silent; [exact Hwf|]. right. split; assumption. Qed.
Theorem smb2_response_flag_silent neg chal ft h body t f a b :
  smb2_hdr_wf h = true -> has_bit (sh2_flags h) SMB2_FLAGS_SERVER_TO_REDIR = true ->
  smb2_repl neg chal ft ([t; f; a; b] ++ ser_smb2_hdr h ++ body) = Ok None.
Proof.
  intros Hwf Hf. apply smb2_not_request_silent; [exact Hwf|]. left. unfold smb2_is_request. rewrite Hf. reflexivity.
Qed.
Theorem smb2_other_command_silent neg chal ft h body t f a b :
  smb2_hdr_wf h = true -> sh2_command h <> SMB2_NEGOTIATE -> sh2_command h <> SMB2_SESSION_SETUP ->
  smb2_repl neg chal ft ([t; f; a; b] ++ ser_smb2_hdr h ++ body) = Ok None.
Proof. intros Hwf H1 H2. apply smb2_not_request_silent; [exact Hwf|]. right. split; assumption. Qed.
