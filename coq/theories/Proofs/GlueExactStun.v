(* Proofs/GlueExactStun.v -- C15's class over UDP is exact as well: a datagram inside
   [stun_shadowed false] (magic-cookie layout, zero high length byte, not one of the two
   end-anchored layouts) is identified by nothing.  With Proofs/GlueC15.v: on datagrams covered
   by the published STUN signatures, [stun_shadowed false] is exactly the set the compiled
   matcher does not identify as STUN.
   A fourth checker: like [tbl_none_chk], and in addition no end-of-datagram match at the
   levels selected by [endok] (the datagram may end inside the pattern). *)
From Coq Require Import Lia.
From MS Require Import Proofs.Tactics Smack Stun Proto Spec.RefStun Spec.AppView
     Spec.RefSig Spec.C10 Spec.C10Known Spec.C15 Instance
     Proofs.SmackSeg Proofs.C10Sound Proofs.C10Dispatch Proofs.C10Current Proofs.C15Frame
     Proofs.GluePat Proofs.GlueC15 Proofs.GlueExact.

Fixpoint tbl_none_end_chk (t : smack) (Dd : list bool) (endok : nat -> bool) (k : nat)
         (pat : list cls) (rows : list N) : bool :=
  (if endok k then forallb (fun r => oN_eqb (m_end t r) None) rows else true) &&
  match pat with
  | [] => forallb (deadb Dd) rows
  | c :: pr =>
    let bs := cls_bytes c in
    forallb (fun r => forallb (fun b => match m_step t r b with MAcc _ => false | MCont _ => true end) bs) rows &&
    tbl_none_end_chk t Dd endok (S k) pr (mnext t rows bs)
  end.

Lemma tbl_none_end_sound t Dd endok pat : dead_closed t Dd = true ->
  forall rows k, tbl_none_end_chk t Dd endok k pat rows = true ->
  forall row p, In row rows -> bytes_ok p = true -> pcompat pat p = true ->
    exists r', m_run t row p = MCont r' /\
      (((length pat <= length p)%nat \/ endok (k + length p)%nat = true) -> m_end t r' = None).
Proof.
  intros Hdc. induction pat as [|c pr IH]; intros rows k Hc row p Hs Hp Hm.
  - cbn [tbl_none_end_chk] in Hc. apply andb_true_iff in Hc. destruct Hc as [_ Hc]. rewrite forallb_forall in Hc.
    destruct (dead_run t Dd Hdc p row (Hc row Hs) Hp) as (r' & Hr & Hd). exists r'. split; [exact Hr|].
    intros _. exact (proj2 (dead_spec t Dd Hdc r' Hd)).
  - cbn [tbl_none_end_chk] in Hc. apply andb_true_iff in Hc. destruct Hc as [He Hc].
    destruct p as [|b r].
    + exists row. split; [reflexivity|]. cbn [length]. rewrite Nat.add_0_r. intros [Hl | Hk]; [lia|].
      rewrite Hk in He. rewrite forallb_forall in He. apply oN_eqb_eq. exact (He row Hs).
    + cbn [pcompat] in Hm. apply andb_true_iff in Hm. destruct Hm as [Hcb Hm].
      cbn [bytes_ok forallb] in Hp. apply andb_true_iff in Hp. destruct Hp as [Hb Hr].
      unfold byte_ok in Hb. apply N.ltb_lt in Hb.
      apply andb_true_iff in Hc. destruct Hc as [Hc1 Hc2].
      rewrite forallb_forall in Hc1. specialize (Hc1 row Hs). rewrite forallb_forall in Hc1.
      pose proof (cls_bytes_in c b Hb Hcb) as Hin. specialize (Hc1 b Hin).
      cbn [m_run]. destruct (m_step t row b) as [r1 | j] eqn:Hstep; [|discriminate Hc1].
      destruct (IH _ _ Hc2 r1 r (mnext_in t rows _ row b r1 Hs Hin Hstep) Hr Hm) as (r' & Hrun & Hd).
      exists r'. split; [exact Hrun|]. cbn [length]. rewrite Nat.add_succ_r. intros [Hl | Hk]; apply Hd; [left; lia | right; exact Hk].
Qed.

Theorem tbl_none_end_init t Dd endok pat :
  smack_ok t = true -> tbl_pre t = true -> dead_closed t Dd = true ->
  tbl_none_end_chk t Dd endok 0 pat [BASE_STATE] = true ->
  forall p, bytes_ok p = true -> pcompat pat p = true ->
    ((length pat <= length p)%nat \/ endok (length p) = true) -> udp_id_tbl t p = None.
Proof.
  intros Hok Hpre Hdc Hc p Hp Hm Hl.
  unfold tbl_pre in Hpre. rewrite !andb_true_iff in Hpre. destruct Hpre as [[Hsz H0] H1].
  apply N.leb_le in Hsz. apply N.ltb_lt in H0. apply N.ltb_lt in H1.
  destruct (tbl_none_end_sound t Dd endok pat Hdc _ _ Hc BASE_STATE p (or_introl eq_refl) Hp Hm) as (r' & Hr & Hd).
  rewrite (udp_id_m_run t Hok Hsz p H0 H1), Hr. apply Hd. exact Hl.
Qed.

(* ---------- the patterns of [stun_shadowed false] ---------- *)
Definition HDR (b3 : cls) : list cls := [CLit 0; CLit 1; CLit 0; b3; CLit 33; CLit 18; CLit 164; CLit 66].
Definition ne (n : nat) (k : nat) : bool := negb (k =? n)%nat.

(* length field 00 xx, xx not 00 / 08: dead after the header *)
Lemma chk_sh_other : tbl_none_end_chk cur_tbl cur_dead (fun _ => false) 0 (HDR (CNot [0; 8])) [BASE_STATE] = true.
Proof. vm_compute. reflexivity. Qed.
(* length field 00 00: any datagram length but 20 *)
Lemma chk_sh_empty : tbl_none_end_chk cur_tbl cur_dead (ne 20) 0 (HDR (CLit 0) ++ repeat CAny 13) [BASE_STATE] = true.
Proof. vm_compute. reflexivity. Qed.
(* length field 00 08: any datagram length but 28 *)
Lemma chk_sh_change : tbl_none_end_chk cur_tbl cur_dead (ne 28) 0 (HDR (CLit 8) ++ repeat CAny 21) [BASE_STATE] = true.
Proof. vm_compute. reflexivity. Qed.
(* length field 00 08, 28 bytes or more, the CHANGE-REQUEST attribute header left at offset 20 + i *)
Definition CR : list N := [0; 3; 0; 4; 0; 0; 0].
Definition pat_sh_cr (i : nat) : list cls :=
  HDR (CLit 8) ++ repeat CAny 12 ++ map CLit (firstn i CR) ++ [CNot [nth i CR 0]].
Lemma chk_sh_cr : forallb (fun i => tbl_none_end_chk cur_tbl cur_dead (fun _ => false) 0 (pat_sh_cr i) [BASE_STATE])
                          (seq 0 7) = true.
Proof. vm_compute. reflexivity. Qed.

Lemma none_of chk endok pat p :
  tbl_none_end_chk cur_tbl cur_dead endok 0 pat [BASE_STATE] = chk -> chk = true ->
  bytes_ok p = true -> pcompat pat p = true ->
  ((length pat <= length p)%nat \/ endok (length p) = true) -> udp_id the_env p = None.
Proof.
  intros <- Hc Hok Hm Hl. rewrite udp_id_tbl_eq.
  exact (tbl_none_end_init cur_tbl cur_dead endok pat cur_smack_ok cur_pre cur_dead_closed Hc p Hok Hm Hl).
Qed.

Theorem stun_shadowed_udp_unidentified p :
  bytes_ok p = true -> stun_shadowed false p = true -> udp_id the_env p = None.
Proof.
  intros Hok Hsh. unfold stun_shadowed in Hsh. cbn [orb] in Hsh.
  rewrite !andb_true_iff in Hsh. destruct Hsh as [[Hm H2] Hne]. apply N.eqb_eq in H2.
  apply negb_true_iff, orb_false_iff in Hne. destruct Hne as [Hemp Hchg].
  unfold sig_magic in Hm. rewrite !andb_true_iff in Hm. destruct Hm as [[Hl H01] Hck].
  apply Nat.leb_le in Hl.
  destruct p as [|a0 [|a1 [|a2 [|b3 [|a4 [|a5 [|a6 [|a7 q]]]]]]]]; try (cbn [length] in Hl; lia).
  cbn [firstn] in H01. unfold slice in Hck. cbn [skipn firstn] in Hck.
  apply bytes_eqb_eq in H01, Hck. injection H01 as -> ->. injection Hck as -> -> -> ->.
  cbn [nth] in H2. subst a2.
  destruct (b3 =? 0) eqn:E0; [apply N.eqb_eq in E0; subst b3|].
  - (* 00 01 00 00: not 20 bytes long *)
    unfold sig_empty in Hemp. cbn [firstn bytes_eqb N.eqb Pos.eqb andb] in Hemp. rewrite andb_true_r in Hemp.
    apply (none_of _ (ne 20) _ _ eq_refl chk_sh_empty Hok).
    + unfold HDR. cbn [app pcompat cls_mem N.eqb Pos.eqb andb]. apply pcompat_any.
    + unfold ne. rewrite Hemp. right. reflexivity.
  - destruct (b3 =? 8) eqn:E8; [apply N.eqb_eq in E8; subst b3|].
    + (* 00 01 00 08 *)
      unfold sig_change in Hchg. cbn [firstn bytes_eqb N.eqb Pos.eqb andb] in Hchg. rewrite andb_true_r in Hchg.
      match type of Hchg with (?c && _) = false => destruct c eqn:El end.
      * (* 28 bytes: the attribute header differs somewhere *)
        cbn [andb] in Hchg. apply Nat.eqb_eq in El. cbn [length] in El.
        do 20 (destruct q as [|? q]; [cbn [length] in El; lia|]). destruct q; [|cbn [length] in El; lia].
        unfold slice in Hchg. cbn [skipn firstn bytes_eqb] in Hchg.
        pose proof chk_sh_cr as Hall. rewrite forallb_forall in Hall.
        repeat match type of Hchg with
        | (?x =? ?c) && _ = false => destruct (x =? c) eqn:?E; [apply N.eqb_eq in E; subst x; cbn [andb] in Hchg|clear Hchg]
        end; try discriminate Hchg.
        all: match goal with
             | E : (_ =? _) = false |- _ =>
               first [ apply (none_of _ _ _ _ eq_refl (Hall 0%nat ltac:(cbn; tauto)) Hok); [cbn [pat_sh_cr HDR CR app repeat map firstn nth pcompat cls_mem existsb N.eqb Pos.eqb andb orb]; rewrite ?E; reflexivity | left; cbn; lia]
                     | apply (none_of _ _ _ _ eq_refl (Hall 1%nat ltac:(cbn; tauto)) Hok); [cbn [pat_sh_cr HDR CR app repeat map firstn nth pcompat cls_mem existsb N.eqb Pos.eqb andb orb]; rewrite ?E; reflexivity | left; cbn; lia]
                     | apply (none_of _ _ _ _ eq_refl (Hall 2%nat ltac:(cbn; tauto)) Hok); [cbn [pat_sh_cr HDR CR app repeat map firstn nth pcompat cls_mem existsb N.eqb Pos.eqb andb orb]; rewrite ?E; reflexivity | left; cbn; lia]
                     | apply (none_of _ _ _ _ eq_refl (Hall 3%nat ltac:(cbn; tauto)) Hok); [cbn [pat_sh_cr HDR CR app repeat map firstn nth pcompat cls_mem existsb N.eqb Pos.eqb andb orb]; rewrite ?E; reflexivity | left; cbn; lia]
                     | apply (none_of _ _ _ _ eq_refl (Hall 4%nat ltac:(cbn; tauto)) Hok); [cbn [pat_sh_cr HDR CR app repeat map firstn nth pcompat cls_mem existsb N.eqb Pos.eqb andb orb]; rewrite ?E; reflexivity | left; cbn; lia]
                     | apply (none_of _ _ _ _ eq_refl (Hall 5%nat ltac:(cbn; tauto)) Hok); [cbn [pat_sh_cr HDR CR app repeat map firstn nth pcompat cls_mem existsb N.eqb Pos.eqb andb orb]; rewrite ?E; reflexivity | left; cbn; lia]
                     | apply (none_of _ _ _ _ eq_refl (Hall 6%nat ltac:(cbn; tauto)) Hok); [cbn [pat_sh_cr HDR CR app repeat map firstn nth pcompat cls_mem existsb N.eqb Pos.eqb andb orb]; rewrite ?E; reflexivity | left; cbn; lia] ]
             end.
      * apply (none_of _ (ne 28) _ _ eq_refl chk_sh_change Hok).
        -- unfold HDR. cbn [app pcompat cls_mem N.eqb Pos.eqb andb]. apply pcompat_any.
        -- unfold ne. rewrite El. right. reflexivity.
    + (* another length byte: dead after the header *)
      apply (none_of _ (fun _ => false) _ _ eq_refl chk_sh_other Hok).
      * unfold HDR. cbn [pcompat cls_mem existsb N.eqb Pos.eqb andb orb]. rewrite E0, E8. reflexivity.
      * left. cbn [length HDR]. lia.
Qed.

Corollary stun_shadowed_udp_exact p :
  bytes_ok p = true -> stun_published false p = true ->
  (stun_shadowed false p = true <-> udp_id the_env p <> Some PROTO_STUN).
Proof.
  intros Hok Hpub. split.
  - intros Hsh. rewrite (stun_shadowed_udp_unidentified p Hok Hsh). discriminate.
  - intros Hn. destruct (stun_shadowed false p) eqn:Hsh; [reflexivity|]. exfalso. apply Hn.
    apply (stun_published_identified false p Hok). rewrite Hpub, Hsh. reflexivity.
Qed.
