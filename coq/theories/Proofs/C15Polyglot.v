(* C15Polyglot.v -- why the UDP frame-level theorem of C15 keeps the hypothesis
   [dns_quiet_at]: WITHOUT it the statement is false of the model.  proto::repl over UDP
   falls back to the DNS responder for datagrams the matcher does not identify; a datagram
   can be at the same time
     * a well-formed STUN message that is not a request (type 0x0101 = Binding Success
       Response, length 0, anything may follow), for which the property demands "no STUN
       response", and
     * a DNS query (id 0x0101, flags 0x0000, one question A/IN, one answer RR),
   and the DNS reply to it (id 0x0101, flags 0x8400, counts 1/1/0/0 = the same bytes 4..12,
   then the echoed question = the same bytes 12..20) reads as a STUN Binding Success Response
   with the same transaction id, provided its length is 20 + 0x8400 and the bytes from offset
   20 on walk as attributes: the 16891-byte name below arranges both.
   This is a property of the SPECIFICATION (a byte string that is a valid message of two
   protocols), not a defect of the implementation; it needs a 16.9 kB datagram and a 33.8 kB
   reply.  Closed computation on the current tables. *)
From MS Require Import Stun Dns Proto L2 Spec.View Spec.RefDec Spec.RefStun Spec.AppView Spec.EnvOk Spec.C15 Instance
     Proofs.Lift Proofs.LiftTcp Proofs.C15Proto Proofs.C15Frame Proofs.FrameBuild.

Definition lab (n : nat) (c : bytes) : bytes := N.of_nat n :: c ++ repeat 97 (n - length c).
Definition poly_name : bytes :=
  lab 63 [97; 97; 97; 97; 97; 97; 97; 192; 0; 131; 252] ++ concat (repeat (lab 63 []) 262) ++ lab 57 [] ++ [0].
Definition poly_p : bytes :=
  [1; 1; 0; 0; 0; 1; 0; 1; 0; 0; 0; 0] ++ poly_name ++ [0; 1; 0; 1] ++ [0; 0; 1; 0; 1; 0; 0; 0; 0; 0; 0].
Definition poly_ctx : app_ctx := fx_ctx true false 40000 53.

Lemma poly_ok : bytes_ok poly_p = true.
Proof. vm_compute. reflexivity. Qed.

(* a well-formed STUN message, Binding Success Response: not a request *)
Lemma poly_is_stun_not_request :
  match dec_stun_req poly_p with
  | Some m => (sm_class m =? CLASS_SUCCESS) && (sm_method m =? METHOD_BINDING) && negb (is_binding_request m)
  | None => false
  end = true.
Proof. vm_compute. reflexivity. Qed.
Lemma poly_not_binding :
  match dec_stun_req poly_p with Some m => is_binding_request m | None => false end = false.
Proof. vm_compute. reflexivity. Qed.

(* not identified by the compiled matcher, not in the known class *)
Lemma poly_unidentified : udp_id the_env poly_p = None /\ c15_in_class false poly_p = false.
Proof. split; vm_compute; reflexivity. Qed.

(* what proto::repl answers is refused by the payload-level monitor (both forms) *)
Lemma poly_result :
  match proto_repl_udp the_env fx_clk (ctx_ci fx_cfg fx_cmac (c_mac fx_cfg) poly_ctx) poly_p with
  | Ok (_, o) => app_ok_C15_gen false poly_ctx poly_p o || app_ok_C15_gen true poly_ctx poly_p o
  | Panic _ => true
  end = false.
Proof. vm_compute. reflexivity. Qed.

(* the payload-level statement without the DNS hypothesis *)
Definition C15_udp_without_dns_stmt (E : env) : Prop :=
  forall clk cfg ms md ctx p ci' o,
    a_tcp ctx = false -> bytes_ok p = true -> c15_ctx_ok ctx -> stun_ident_at E false false p ->
    proto_repl_udp E clk (ctx_ci cfg ms md ctx) p = Ok (ci', o) ->
    app_ok_C15_gen false ctx p o = true.

Theorem C15_udp_without_dns_refuted : ~ C15_udp_without_dns_stmt the_env.
Proof.
  intros H. pose proof poly_result as R.
  destruct (proto_repl_udp the_env fx_clk (ctx_ci fx_cfg fx_cmac (c_mac fx_cfg) poly_ctx) poly_p)
    as [[ci' o]|s] eqn:Hpr; [|discriminate R].
  apply orb_false_iff in R. destruct R as [R _].
  rewrite (H fx_clk fx_cfg fx_cmac (c_mac fx_cfg) poly_ctx poly_p ci' o) in R; [discriminate R| | | | |exact Hpr].
  - reflexivity.
  - exact poly_ok.
  - unfold c15_ctx_ok. repeat split; vm_compute; reflexivity.
  - intros m Hm Hb _. exfalso. pose proof poly_not_binding as NB. rewrite Hm in NB. rewrite Hb in NB. discriminate NB.
Qed.
