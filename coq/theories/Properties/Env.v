(* Properties/Env.v -- the per-run obligation: the data dumped from the current
   implementation (compiled automata, reply constants) satisfies [env_ok].
   Re-decided by the kernel whenever gen/*.v changes. *)
From MS Require Import Spec.EnvOk Instance.

Theorem the_env_ok : env_ok the_env = true.
Proof. vm_compute. reflexivity. Qed.

Print Assumptions the_env_ok.
