(* Properties/C03.v -- replies go back to the asker, from the identity that was
   asked. This file only pins the statement; the proof is in Proofs/C03.v. *)
From MS Require Import L2 Spec.View Spec.RefDec Spec.C03 Spec.EnvOk Proofs.C03.

(* For every configuration, table and frame: what is emitted satisfies the C03
   monitor. A reply frame goes from the configured MAC to the MAC the request came
   from, with the EtherType of the request; an IP reply has the version and
   protocol of the request, is addressed to the request's source and comes from
   the request's destination (a neighbour advertisement: from the solicited
   target); a TCP / UDP reply has the request's ports exchanged, except that the
   STUN success response to a binding request carrying CHANGE-REQUEST with the
   change-port bit leaves from the next port (mod 2^16).
   [env_ok E] (decided by computation on the generated data, Properties/Env.v)
   is used for one fact: the constant replies (HTTP, SSH, Gh0st) do not begin
   with the bytes 01 01 of a STUN success response. *)
Theorem C03_mirror :
  forall E cfg clk tb f tb' r evs,
    cfg_ok cfg = true -> env_ok E = true -> bytes_ok f = true ->
    reply E cfg clk tb f = Ok (tb', r, evs) ->
    ok_C03 cfg f r = true.
Proof. exact mirror. Qed.

Print Assumptions C03_mirror.
