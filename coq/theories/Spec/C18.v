(* Spec/C18.v -- SSH and Gh0st: banner exchanges are answered exactly, malformed
   ones are not.

   "A client identification string 'SSH-<digits and dots>-<software>[ SP comment]
   CR LF' beginning with SSH-2.0 or SSH-1.99 is answered with exactly
   'SSH-2.0-1\r\n', and an unterminated or malformed identification is not
   answered. A payload starting with the Gh0st magic is answered with a Gh0st
   frame whose declared total length equals the frame length and whose zlib body
   inflates to exactly the declared uncompressed length."

   Everything here is written from that text (and RFC 4253 4.2 / RFC 1950-1951),
   not from the parser: a declarative grammar of the identification string, a
   boolean scanner for it, a structural check of a Gh0st frame built on the
   reference zlib decoder (Inflate.v), and the payload- and frame-level monitors.
   Definitions only. *)
From MS Require Export Bytes Inflate Spec.AppView.

(* ---- the literals of the property text ---- *)
Definition S_SSH_DASH : bytes := [83; 83; 72; 45].                       (* "SSH-" *)
Definition S_SSH_20 : bytes := [83; 83; 72; 45; 50; 46; 48].             (* "SSH-2.0" *)
Definition S_SSH_199 : bytes := [83; 83; 72; 45; 49; 46; 57; 57].        (* "SSH-1.99" *)
Definition S_SERVER_ID : bytes :=
  [83; 83; 72; 45; 50; 46; 48; 45; 49; 13; 10].                          (* "SSH-2.0-1\r\n" *)
Definition S_GHOST : bytes := [71; 104; 48; 115; 116].                   (* "Gh0st" *)
Definition CH_DASH : N := 45.
Definition CH_CR : N := 13.
Definition CH_LF : N := 10.

(* ---- the identification string, declaratively ----
   SSH-<v>-<rest> CR LF <anything>, where <v> consists of digits and dots and
   <rest> (software version, optional SP comment) is arbitrary: a CR that is not
   followed by LF is data, and SP only separates software from comment. *)
Definition ver_char (b : N) : bool := ((48 <=? b) && (b <=? 57)) || (b =? 46).

Definition ssh_ident (p : bytes) : Prop :=
  exists v rest t,
    p = S_SSH_DASH ++ v ++ [CH_DASH] ++ rest ++ [CH_CR; CH_LF] ++ t /\
    Forall (fun b => ver_char b = true) v.

(* the same with the terminator pinned to the FIRST CR LF after the version dash *)
Definition no_crlf (l : bytes) : Prop := forall a b, l <> a ++ [CH_CR; CH_LF] ++ b.

Definition ssh_ident_first (p : bytes) : Prop :=
  exists v rest t,
    p = S_SSH_DASH ++ v ++ [CH_DASH] ++ rest ++ [CH_CR; CH_LF] ++ t /\
    Forall (fun b => ver_char b = true) v /\ no_crlf rest.

(* ---- ... and as a boolean scanner ---- *)
Fixpoint has_crlf (l : bytes) : bool :=
  match l with
  | [] => false
  | b :: r =>
    match r with
    | c :: _ => ((b =? CH_CR) && (c =? CH_LF)) || has_crlf r
    | [] => false
    end
  end.

(* after "SSH-": version characters up to the first dash, then a CR LF somewhere *)
Fixpoint ssh_after_magic (l : bytes) : bool :=
  match l with
  | [] => false
  | b :: r =>
    if b =? CH_DASH then has_crlf r
    else if ver_char b then ssh_after_magic r
    else false
  end.

Definition ssh_ref (p : bytes) : bool :=
  is_prefix S_SSH_DASH p && ssh_after_magic (skipn 4 p).

(* ---- a well-formed Gh0st frame ----
   "Gh0st" | LE32 total frame length | LE32 uncompressed length | zlib stream;
   the zlib stream is exactly the rest of the frame, its Adler-32 is verified
   and it inflates to exactly the declared number of bytes. *)
Definition le32_at (i : nat) (l : bytes) : N :=
  u8_at i l + 256 * (u8_at (i + 1) l + 256 * (u8_at (i + 2) l + 256 * u8_at (i + 3) l)).

Definition ghost_wf (g : bytes) : bool :=
  is_prefix S_GHOST g && (13 <=? length g)%nat && bytes_ok g &&
  (le32_at 5 g =? lenN g) &&
  match zlib_inflate (skipn 13 g) with
  | Some d => le32_at 9 g =? lenN d
  | None => false
  end.

(* ---- payload-level monitor ----
   [p] the request payload (UDP datagram / first TCP data segment), [o] the
   application payload of the answer (None: no answer, or an answer without
   application data). *)
Definition app_ok_C18 (ctx : app_ctx) (p : bytes) (o : option bytes) : bool :=
  if is_prefix S_GHOST p then
    match o with Some g => ghost_wf g | None => false end
  else if is_prefix S_SSH_20 p || is_prefix S_SSH_199 p then
    if ssh_ref p then
      match o with Some r => bytes_eqb r S_SERVER_ID | None => false end
    else
      match o with None => true | Some _ => false end
  else true.

(* the same as a relation, for payloads that carry one of the three prefixes *)
Definition c18_prefixed (p : bytes) : bool :=
  is_prefix S_GHOST p || is_prefix S_SSH_20 p || is_prefix S_SSH_199 p.

(* what the application layer must hand back, from the property text alone *)
Definition c18_expected (p : bytes) : option bytes -> Prop :=
  fun o =>
    if is_prefix S_GHOST p then exists g, o = Some g /\ ghost_wf g = true
    else if ssh_ref p then o = Some S_SERVER_ID else o = None.

(* ---- frame-level monitors ---- *)
Definition ok_C18_udp : config -> bytes -> option bytes -> bool := ok_app_udp app_ok_C18.
Definition ok_C18_tcp : config -> ref_state -> bytes -> option bytes -> bool :=
  ok_app_tcp_first app_ok_C18.

(* ---- identification of the three literal prefixes by the compiled matcher ----
   (a per-run obligation on the dumped table, decided by computation: started in
   BASE_STATE the matcher reports [id] while still inside the literal [a], so
   whatever follows cannot change the decision) *)
Fixpoint stops_in (t : smack) (row : N) (a : bytes) : bool :=
  match a with
  | [] => false
  | b :: rest =>
    let row' := sm_next t row (sm_sym t (N.to_nat b)) in
    if sm_match_limit t <=? row' then true else stops_in t row' rest
  end.

Definition prefix_identified (t : smack) (a : bytes) (id : N) : bool :=
  stops_in t 0 a &&
  match search_next t BASE_STATE a with
  | (Some i, _, _) => i =? id
  | (None, _, _) => false
  end.

Definition c18_ident_ok (E : env) : bool :=
  prefix_identified (e_proto_tbl E) S_SSH_20 PROTO_SSH &&
  prefix_identified (e_proto_tbl E) S_SSH_199 PROTO_SSH &&
  prefix_identified (e_proto_tbl E) S_GHOST PROTO_GHOST.

(* ---- the property on the application layer of the model ----
   [answer] is what the responder hands back for payload [p]. *)
Definition C18_ssh_statement (answer : bytes -> option bytes) : Prop :=
  forall p, (is_prefix S_SSH_20 p || is_prefix S_SSH_199 p) = true ->
    (ssh_ident p -> answer p = Some S_SERVER_ID) /\
    (~ ssh_ident p -> answer p = None).

Definition C18_ghost_statement (answer : bytes -> option bytes) : Prop :=
  forall p, is_prefix S_GHOST p = true ->
    exists g, answer p = Some g /\ ghost_wf g = true.
