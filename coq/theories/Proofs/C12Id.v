(* Proofs/C12Id.v -- "no reply at all unless the message is also a valid request of another
   protocol": a reply-typed message of protocol X that the signature matcher hands to X's own
   responder (DNS: to the fallback) gets no answer; so whenever a reply-typed message is
   answered, it was identified as a request of a protocol other than the one that marks it
   as a reply.  Application layer (cores), datagrams and first segments, then whole frames. *)
From MS Require Import Proofs.Tactics Proofs.DecLemmas Proofs.Pipeline Proofs.Factor Proofs.ViewLemmas
     Proofs.C06 Proofs.TcpState Proofs.C09 Proofs.C07 Proofs.Lift Proofs.C19 Proofs.ReplyBytes Proofs.C18
     Proofs.C12 Proofs.C12Own Proofs.C12Frame Proofs.C18Frame
     L2 Smb Rpc Dns Stun Proto Spec.View Spec.RefDec Spec.TcpRef Spec.AppView Spec.C09 Spec.History
     Spec.C12 Spec.C12x Spec.C19 Spec.EnvOk.

(* the responder of the protocol that marks [p] as a reply is silent on it *)
Lemma own_responder_silent E clk x p c ps' :
  bytes_ok p = true -> reply_typed_for x p = true ->
  dispatch_core E clk x None p = Ok (c, ps') -> c = CSilent.
Proof.
  intros Hok Ht Hd. unfold reply_typed_for in Ht.
  repeat (apply orb_true_iff in Ht; destruct Ht as [Ht|Ht]);
    apply andb_true_iff in Ht; destruct Ht as [Hx Ht]; apply N.eqb_eq in Hx; subst x.
  - change (dispatch_core E clk PROTO_DNS None p) with (@Ok (core * option pstate) (CSilent, None)) in Hd.
    inversion Hd. reflexivity.
  - change (dispatch_core E clk PROTO_STUN None p) with (@Ok (core * option pstate) (stun_core p, None)) in Hd.
    inversion Hd. apply stun_nonrequests_unanswered, Ht.
  - change (dispatch_core E clk PROTO_RPC_UDP None p)
      with (@Ok (core * option pstate)
              ((if (r_state (rpc_parse (rpc_new R_XID) p) =? R_END) && (r_mtype (rpc_parse (rpc_new R_XID) p) =? 0)
                then CRpc (rpc_parse (rpc_new R_XID) p) false else CSilent), None)) in Hd.
    inversion Hd. pose proof (rpc_udp_replies_unanswered (V4 []) 0 p Hok Ht) as X. unfold rpc_repl_udp in X.
    destruct (_ && _); [discriminate X|reflexivity].
  - change (dispatch_core E clk PROTO_RPC_TCP None p)
      with (let s' := rpc_parse (rpc_new R_FRAG) p in
            if r_state s' =? R_END
            then @Ok (core * option pstate) ((if r_mtype s' =? 0 then CRpc s' true else CSilent), Some (PRpc (rpc_new R_FRAG)))
            else Ok (CSilent, Some (PRpc s'))) in Hd.
    cbv zeta in Hd.
    pose proof (rpc_tcp_replies_unanswered (rpc_new R_FRAG) (V4 []) 0 p eq_refl eq_refl Hok Ht) as X.
    unfold rpc_repl_tcp in X.
    destruct (r_state _ =? R_END); [|inversion Hd; reflexivity].
    destruct (r_mtype _ =? 0); [discriminate X|inversion Hd; reflexivity].
  - change (dispatch_core E clk PROTO_SMB1 None p)
      with (do r <- smb1_repl (e_smb_neg E) (e_smb_chal E) (clk_filetime clk) p;
            @Ok (core * option pstate) (of_opt r, None)) in Hd.
    destruct (smb1_repl _ _ _ p) as [o|q] eqn:Hs; cbn [bind] in Hd; [|discriminate].
    rewrite (smb1_replies_unanswered _ _ _ _ _ Ht Hs) in Hd. inversion Hd. reflexivity.
  - change (dispatch_core E clk PROTO_SMB2 None p)
      with (do r <- smb2_repl (e_smb_neg E) (e_smb_chal E) (clk_filetime clk) p;
            @Ok (core * option pstate) (of_opt r, None)) in Hd.
    destruct (smb2_repl _ _ _ p) as [o|q] eqn:Hs; cbn [bind] in Hd; [|discriminate].
    rewrite (smb2_replies_unanswered _ _ _ _ _ Ht Hs) in Hd. inversion Hd. reflexivity.
Qed.

Lemma render_silent ci : render CSilent ci = None.
Proof. reflexivity. Qed.

(* datagrams *)
Theorem udp_core_own_silent E clk p c :
  bytes_ok p = true -> udp_core E clk p = Ok c ->
  reply_typed_for (responder_of E false p) p = true -> c = CSilent.
Proof.
  intros Hok Hc Ht. unfold udp_core, responder_of in *. destruct (udp_id E p) as [i|].
  - destruct (dispatch_core E clk i None p) as [[c' ps']|q] eqn:Hd; cbn [bind fst] in Hc; [|discriminate].
    inversion Hc; subst c'. eapply own_responder_silent; eassumption.
  - inversion Hc; subst c. unfold reply_typed_for in Ht.
    change (PROTO_DNS =? PROTO_DNS) with true in Ht. change (PROTO_DNS =? PROTO_STUN) with false in Ht.
    change (PROTO_DNS =? PROTO_RPC_UDP) with false in Ht. change (PROTO_DNS =? PROTO_RPC_TCP) with false in Ht.
    change (PROTO_DNS =? PROTO_SMB1) with false in Ht. change (PROTO_DNS =? PROTO_SMB2) with false in Ht.
    cbn [andb orb] in Ht. rewrite !orb_false_r in Ht. apply dns_responses_unanswered, Ht.
Qed.

(* first data segment of a flow *)
Theorem tcp_first_core_own_silent E clk p c :
  bytes_ok p = true -> tcp_first_core E clk p = Ok c ->
  reply_typed_for (responder_of E true p) p = true -> c = CSilent.
Proof.
  intros Hok Hc Ht. unfold tcp_first_core, responder_of in *.
  destruct (tcp_first_id E p) as [i|]; cbn [id_of] in Hc.
  - destruct (dispatch_core E clk i None p) as [[c' ps']|q] eqn:Hd; cbn [bind fst] in Hc; [|discriminate].
    inversion Hc; subst c'. eapply own_responder_silent; eassumption.
  - discriminate Ht.
Qed.

(* the statement of part B and the identification-based monitor, on the application layer *)
Theorem udp_other_protocol E clk p c ci :
  bytes_ok p = true -> udp_core E clk p = Ok c -> C12_other_protocol_stmt E false p (render c ci).
Proof.
  intros Hok Hc x Ht Hans Hx. subst x. rewrite (udp_core_own_silent E clk p c Hok Hc Ht) in Hans.
  apply Hans. reflexivity.
Qed.

Theorem tcp_first_other_protocol E clk p c ci :
  bytes_ok p = true -> tcp_first_core E clk p = Ok c -> C12_other_protocol_stmt E true p (render c ci).
Proof.
  intros Hok Hc x Ht Hans Hx. subst x. rewrite (tcp_first_core_own_silent E clk p c Hok Hc Ht) in Hans.
  apply Hans. reflexivity.
Qed.

Lemma app_ok_C12id_core E ctx p c ci :
  (reply_typed_for (responder_of E (a_tcp ctx) p) p = true -> c = CSilent) ->
  app_ok_C12id E ctx p (render c ci) = true.
Proof.
  intros H. unfold app_ok_C12id. destruct (reply_typed_for _ p); [|reflexivity].
  rewrite (H eq_refl). reflexivity.
Qed.

(* ---------- whole frames ---------- *)
Theorem frame_udp_C12id E cfg clk tb f tb' r evs :
  cfg_ok cfg = true -> bytes_ok f = true ->
  reply E cfg clk tb f = Ok (tb', r, evs) ->
  ok_C12id_udp E cfg f r = true.
Proof.
  intros Hcfg Hf Hr. unfold ok_C12id_udp, ok_app_udp, udp_req.
  destruct (view_udp cfg f) as [v|] eqn:Hvu; [|reflexivity].
  destruct (udp_lift _ _ _ _ _ _ _ _ _ Hcfg Hf Hvu Hr) as (_ & ci' & out & Hpr & Hresp & _).
  rewrite Hresp.
  destruct (Lift.view_udp_view _ _ _ Hvu) as (Hv & _ & _).
  pose proof (udp_context_free E clk (skipn 8 (v_l4 v)) (udp_ci f v) (udp_ci_full f v)) as A.
  destruct (udp_core E clk (skipn 8 (v_l4 v))) as [c|q] eqn:Hc.
  - destruct A as (x & A & _). rewrite Hpr in A. inversion A; subst. clear A.
    apply app_ok_C12id_core. cbn [ctx_of a_tcp]. apply (udp_core_own_silent E clk (skipn 8 (v_l4 v)) c); [|exact Hc].
    apply bytes_ok_skipn. exact (view_l4_ok _ _ _ Hf Hv).
  - rewrite Hpr in A. discriminate.
Qed.

Theorem frame_tcp_first_state_C12id E cfg clk tb f tb' r evs v :
  env_ok E = true -> cfg_ok cfg = true -> bytes_ok f = true ->
  view_tcp cfg f = Some v ->
  is_data (tcp_flags (v_l4 v)) = true ->
  tbl_mem (flow_cookie cfg (flow_of v)) tb = false ->
  reply E cfg clk tb f = Ok (tb', r, evs) ->
  exists o, tcp_resp r = Some o /\ app_ok_C12id E (ctx_of true v) (tcp_payload (v_l4 v)) o = true.
Proof.
  intros HE Hcfg Hf Hvt Hd Hmem Hr.
  destruct (view_tcp_view _ _ _ Hvt) as [Hv Hp].
  destruct (frame_tcp_any _ _ _ _ _ _ _ _ _ Hcfg HE Hf Hvt Hd Hr) as [-> | (ci2 & tc' & d & Hpr & ->)].
  - exists None. split; [reflexivity|]. unfold app_ok_C12id. destruct (reply_typed_for _ _); reflexivity.
  - exists (Some d). split; [reflexivity|]. cbv zeta in Hpr.
    unfold flow_cookie, flow_of in Hmem. cbn [fl_src fl_dst fl_sport fl_dport] in Hmem.
    rewrite (tbl_mem_find _ _ Hmem) in Hpr.
    assert (Hok : bytes_ok (tcp_payload (v_l4 v)) = true)
      by (apply tcp_payload_bytes_ok; exact (view_l4_ok _ _ _ Hf Hv)).
    match type of Hpr with proto_repl_tcp _ _ ?ci _ ?p = _ =>
      pose proof (tcp_first_context_free E clk p ci (tcp_ci_full _ _ _ _ _)) as A end.
    destruct (tcp_first_core E clk (tcp_payload (v_l4 v))) as [c|q] eqn:Hc.
    + destruct A as (x & y & A & _). rewrite Hpr in A. inversion A as [[X1 X2 X3]]. rewrite X3.
      apply app_ok_C12id_core. cbn [ctx_of a_tcp]. apply (tcp_first_core_own_silent E clk (tcp_payload (v_l4 v)) c); assumption.
    + rewrite Hpr in A. discriminate.
Qed.

Theorem frame_tcp_first_history_C12id E cfg h clk tb f tb' r evs :
  env_ok E = true -> cfg_ok cfg = true ->
  Forall (fun x => bytes_ok x = true) (frames h) -> bytes_ok f = true ->
  run E cfg [] h = Ok tb ->
  (forall v, view_tcp cfg f = Some v -> no_collision cfg (flow_of v :: ref_run cfg (frames h))) ->
  reply E cfg clk tb f = Ok (tb', r, evs) ->
  ok_C12id_tcp E cfg (ref_run cfg (frames h)) f r = true.
Proof.
  intros HE Hcfg Hall Hf Hrun Hnc Hr. unfold ok_C12id_tcp, ok_app_tcp_first, tcp_first_req.
  destruct (view_tcp cfg f) as [v|] eqn:Hvt; [|reflexivity].
  destruct (is_data (tcp_flags (v_l4 v))) eqn:Hd; cbn [andb]; [|reflexivity].
  destruct (ref_mem (flow_of v) (ref_run cfg (frames h))) eqn:Hm; cbn [negb andb]; [reflexivity|].
  destruct (presents_cookie cfg v) eqn:Hpres; [|reflexivity].
  assert (Hmem : tbl_mem (flow_cookie cfg (flow_of v)) tb = false).
  { destruct (tbl_mem (flow_cookie cfg (flow_of v)) tb) eqn:Ht; [|reflexivity].
    apply tbl_mem_In in Ht. rewrite (table_keys E cfg h tb Hall Hrun) in Ht.
    unfold ref_keys in Ht. apply in_map_iff in Ht. destruct Ht as (x & Hx & Hin).
    assert (x = flow_of v) as ->.
    { apply (Hnc v eq_refl); [right; exact Hin | left; reflexivity | exact Hx]. }
    apply ref_mem_In in Hin. congruence. }
  destruct (frame_tcp_first_state_C12id E cfg clk tb f tb' r evs v HE Hcfg Hf Hvt Hd Hmem Hr)
    as (o & -> & Hmon).
  exact Hmon.
Qed.
