(* Properties/C16.v -- ONC-RPC / portmapper: replies correlated, framed, advertise the
   contacted endpoint. Statements only; proofs in Proofs/C16*.v; the specification
   (reference XDR codec, expected reply, monitors) is Spec/RefXdr.v + Spec/C16.v.
   Identification by the compiled matcher is a hypothesis ([udp_id] / [tcp_first_id]):
   which payloads are identified is C10's subject; the calls that are in scope but not
   identified form the known class [rpc_shadowed] (inhabited: C16_known_class_witness).
   IPv6 address text ([render_ipv6]) is shared with the model and validated by
   correspondence only (partial); the IPv4 text has an independent round trip. *)
From MS Require Import Rpc Proto Spec.RefXdr Spec.C16 Spec.AppView Spec.C11 Instance
  Proofs.C16Xdr Proofs.C16Text Proofs.C16Parse Proofs.C16Reply Proofs.C16Examples Proofs.C16Panics.

(* the reference codec is coherent: a serialised call reads back, and conversely *)
Theorem C16_ref_call_roundtrip :
  forall c tail, call_wf c = true -> dec_call (ser_call c ++ tail) = Some (c, tail).
Proof. exact dec_call_ser. Qed.
Theorem C16_ref_call_sound :
  forall p tail c, bytes_ok p = true -> dec_call p = Some (c, tail) -> p = ser_call c ++ tail /\ call_wf c = true.
Proof. exact dec_call_sound. Qed.

(* the IPv4 universal address reads back to the contacted address and port *)
Theorem C16_uaddr4_roundtrip :
  forall a b c d port, a < 256 -> b < 256 -> c < 256 -> d < 256 -> port < 65536 ->
    parse_uaddr4 (uaddr_text (V4 [a; b; c; d]) port) = Some ([a; b; c; d], port).
Proof. exact parse_uaddr4_render. Qed.

(* parser: a serialised message drives the byte FSM to End with the message's fields,
   for all credential / verifier lengths; not before offset 40 + |cred| *)
Theorem C16_parser_correct :
  forall mt c tail, mt < 4294967296 -> call_wf c = true ->
    let s := rpc_parse (rpc_new R_XID) (ser_msg mt c ++ tail) in
    r_state s = R_END /\ r_xid s = rc_xid c /\ r_prog s = rc_prog c /\
    r_progvers s = rc_vers c /\ r_proc s = rc_proc c /\ r_mtype s = mt.
Proof. exact rpc_parse_msg. Qed.
Theorem C16_parser_truncated :
  forall mt c tail n, mt < 4294967296 -> call_wf c = true -> (n < 40 + length (rc_cred c))%nat ->
    r_state (rpc_parse (rpc_new R_XID) (firstn n (ser_msg mt c ++ tail))) <> R_END.
Proof. exact rpc_parse_truncated. Qed.

(* the handlers: every well-formed call gets the expected reply, XDR-aligned; over TCP
   behind a last-fragment record mark whose length is the reply's *)
Theorem C16_handler_udp :
  forall ip port c tail, call_wf c = true -> ep_ok ip port ->
    exists r, rpc_repl_udp ip port (ser_call c ++ tail) = Some r /\
              dec_reply (result_kind c) r = Some (expected_reply_at ip port c) /\
              (length r mod 4 = 0)%nat.
Proof. exact rpc_udp_call. Qed.
Theorem C16_handler_tcp :
  forall ip port c m0 m1 m2 m3 tail, call_wf c = true -> ep_ok ip port ->
    exists r, rpc_repl_tcp (rpc_new R_FRAG) ip port ([m0; m1; m2; m3] ++ ser_call c ++ tail) =
                (rpc_new R_FRAG, Some (record_mark (lenN r) ++ r)) /\
              strip_mark (record_mark (lenN r) ++ r) = Some r /\
              dec_reply (result_kind c) r = Some (expected_reply_at ip port c) /\
              (length r mod 4 = 0)%nat.
Proof. exact rpc_tcp_call. Qed.

(* only calls are answered; truncated calls are not *)
Theorem C16_not_call_unanswered :
  forall ip port mt c tail, call_wf c = true -> mt < 4294967296 -> mt <> 0 ->
    rpc_repl_udp ip port (ser_msg mt c ++ tail) = None.
Proof. exact rpc_udp_not_call. Qed.
Theorem C16_truncated_unanswered :
  forall ip port c tail n, call_wf c = true -> (n < 40 + length (rc_cred c))%nat ->
    rpc_repl_udp ip port (firstn n (ser_call c ++ tail)) = None.
Proof. exact rpc_udp_truncated. Qed.

(* proto::repl: an identified datagram / first data segment satisfies the payload-level
   monitor of the property -- in its strict form (no exclusion of the known class) *)
Theorem C16_proto_udp_monitor :
  forall E clk cfg ms md ctx p,
    a_tcp ctx = false -> bytes_ok p = true -> ctx_ok ctx ->
    udp_id E p = Some PROTO_RPC_UDP ->
    exists o, proto_repl_udp E clk (ctx_ci cfg ms md ctx) p = Ok (ctx_ci cfg ms md ctx, o) /\
              app_ok_C16_strict ctx p o = true /\ app_ok_C16 ctx p o = true.
Proof. exact C16_proto_udp. Qed.
Theorem C16_proto_tcp_monitor :
  forall E clk cfg ms md ctx p,
    a_tcp ctx = true -> bytes_ok p = true -> ctx_ok ctx ->
    tcp_first_id E p = Some PROTO_RPC_TCP ->
    exists tc' o, proto_repl_tcp E clk (ctx_ci cfg ms md ctx) tcb_new p = Ok (ctx_ci cfg ms md ctx, tc', o) /\
                  app_ok_C16_strict ctx p o = true /\ app_ok_C16 ctx p o = true.
Proof. exact C16_proto_tcp. Qed.

(* ... and spelled out on structured calls *)
Theorem C16_proto_udp_structured :
  forall E clk cfg ms md ctx c tail,
    call_wf c = true -> ctx_ok ctx ->
    udp_id E (ser_call c ++ tail) = Some PROTO_RPC_UDP ->
    exists r, proto_repl_udp E clk (ctx_ci cfg ms md ctx) (ser_call c ++ tail) = Ok (ctx_ci cfg ms md ctx, Some r) /\
              dec_reply (result_kind c) r = Some (expected_reply ctx c) /\
              (length r mod 4 = 0)%nat.
Proof. exact C16_proto_udp_call. Qed.
Theorem C16_proto_tcp_structured :
  forall E clk cfg ms md ctx c tail,
    call_wf c = true -> ctx_ok ctx ->
    tcp_first_id E (record_mark (lenN (ser_call c)) ++ ser_call c ++ tail) = Some PROTO_RPC_TCP ->
    exists tc' r,
      proto_repl_tcp E clk (ctx_ci cfg ms md ctx) tcb_new (record_mark (lenN (ser_call c)) ++ ser_call c ++ tail)
        = Ok (ctx_ci cfg ms md ctx, tc', Some (record_mark (lenN r) ++ r)) /\
      t_pstate tc' = Some (PRpc (rpc_new R_FRAG)) /\
      strip_mark (record_mark (lenN r) ++ r) = Some r /\
      dec_reply (result_kind c) r = Some (expected_reply ctx c) /\
      (length r mod 4 = 0)%nat.
Proof. exact C16_proto_tcp_call. Qed.

(* C01 sites of rpc.rs: from a fresh parser no accumulator can overflow and read_string is
   never entered with a zero length, at any step of any input *)
Theorem C16_parser_steps_safe :
  forall st0 pre b, st0 = R_FRAG \/ st0 = R_XID -> bytes_ok (pre ++ [b]) = true ->
    step_safe (rpc_parse (rpc_new st0) pre) b = true.
Proof. exact rpc_steps_safe. Qed.

(* the version panic of build_repl_portmap is never taken (variant of the builder carrying it) *)
Theorem C16_build_never_panics :
  forall s ip port, rpc_build_res s ip port = Ok (rpc_build s ip port).
Proof. exact rpc_build_never_panics. Qed.

(* the bare panic!() of rpc::repl_tcp / http::repl (control block holding the other
   protocol's parser state) are unreachable on every flow ([tcp_identify]: the
   identification part of the TCP branch of proto::repl, yielding the control block the
   handler is started with) *)
Theorem C16_pstate_panic_unreachable :
  forall E tc data, tcb_reach E tc ->
    let tc1 := fst (tcp_identify E tc data) in
    (t_proto tc1 = PROTO_RPC_TCP -> exists r, rpc_pstate_sel tc1 = Ok r) /\
    (t_proto tc1 = PROTO_HTTP -> exists h, http_pstate_sel tc1 = Ok h).
Proof. exact rpc_pstate_panic_unreachable. Qed.

(* non-vacuity on the current tables, and the known class *)
Theorem C16_examples :
  udp_id the_env (ser_call x_getport ++ [9; 9]) = Some PROTO_RPC_UDP /\
  decoded x_getport (udp_out (x_ctx4 false) (ser_call x_getport ++ [9; 9])) =
    Some {| rp_xid := 2712847316; rp_verf_flavor := 0; rp_verf := []; rp_body := AccSuccess (ResPort 111) |} /\
  app_ok_C16_strict (x_ctx4 false) (ser_call x_getport ++ [9; 9]) (udp_out (x_ctx4 false) (ser_call x_getport ++ [9; 9])) = true.
Proof. exact ex_getport_v2. Qed.
Theorem C16_known_class_witness :
  scope_call false (ser_call x_shadow_udp) = Some x_shadow_udp /\
  rpc_shadowed false (ser_call x_shadow_udp) = true /\
  udp_id the_env (ser_call x_shadow_udp) = None /\
  udp_out (x_ctx4 false) (ser_call x_shadow_udp) = None /\
  app_ok_C16_strict (x_ctx4 false) (ser_call x_shadow_udp) None = false /\
  app_ok_C16 (x_ctx4 false) (ser_call x_shadow_udp) None = true /\
  scope_call true (ser_call_tcp x_shadow_tcp) = Some x_shadow_tcp /\
  rpc_shadowed true (ser_call_tcp x_shadow_tcp) = true /\
  tcp_first_id the_env (ser_call_tcp x_shadow_tcp) = None /\
  tcp_out (x_ctx4 true) (ser_call_tcp x_shadow_tcp) = None /\
  app_ok_C16_strict (x_ctx4 true) (ser_call_tcp x_shadow_tcp) None = false.
Proof. exact ex_shadowed. Qed.

Print Assumptions C16_ref_call_roundtrip.
Print Assumptions C16_ref_call_sound.
Print Assumptions C16_uaddr4_roundtrip.
Print Assumptions C16_parser_correct.
Print Assumptions C16_parser_truncated.
Print Assumptions C16_handler_udp.
Print Assumptions C16_handler_tcp.
Print Assumptions C16_not_call_unanswered.
Print Assumptions C16_truncated_unanswered.
Print Assumptions C16_proto_udp_monitor.
Print Assumptions C16_proto_tcp_monitor.
Print Assumptions C16_proto_udp_structured.
Print Assumptions C16_proto_tcp_structured.
Print Assumptions C16_parser_steps_safe.
Print Assumptions C16_build_never_panics.
Print Assumptions C16_pstate_panic_unreachable.
Print Assumptions C16_examples.
Print Assumptions C16_known_class_witness.
