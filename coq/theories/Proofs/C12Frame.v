(* Proofs/C12Frame.v -- the corrected C12 monitors (Spec/C12x.v) hold of the model: on the
   application layer (cores of Spec/C19.v), for every datagram, for every TCP data segment
   and for the first data segment of a flow; lift to whole frames through reply(). *)
From MS Require Import Proofs.Tactics Proofs.DecLemmas Proofs.Pipeline Proofs.Factor Proofs.ViewLemmas
     Proofs.C06 Proofs.TcpState Proofs.C09 Proofs.C07 Proofs.Lift Proofs.C19 Proofs.ReplyBytes Proofs.C18
     Proofs.C12 Proofs.C12Shape Proofs.C12Own Proofs.SmbSafe
     L2 Smb Rpc Dns Stun Proto Spec.View Spec.RefDec Spec.TcpRef Spec.AppView Spec.C09 Spec.History
     Spec.C12 Spec.C12x Spec.C19 Spec.C18 Spec.EnvOk.

(* ---------- the clauses, as implications ---------- *)
Lemma seg_intro ctx p r :
  (dns_response_typed p = true -> is_dns_reply r = false) ->
  (stun_nonrequest_typed p = true -> is_stun_reply r = false) ->
  (rpc_reply_typed_udp p = true -> is_rpc_reply_udp r = false) ->
  (smb1_reply_typed p = true -> is_smb1_reply r = false) ->
  (smb2_reply_typed p = true -> is_smb2_reply r = false) ->
  app_ok_C12seg ctx p (Some r) = true.
Proof.
  intros H1 H2 H3 H4 H5. unfold app_ok_C12seg.
  destruct (dns_response_typed p); [rewrite H1 by reflexivity|]; cbn [negb andb];
  (destruct (stun_nonrequest_typed p); [rewrite H2 by reflexivity|]; cbn [negb andb];
   [destruct (u8_at 0 p <? 64)|]; cbn [negb andb]);
  (destruct (rpc_reply_typed_udp p); [rewrite H3 by reflexivity|]; cbn [negb andb]);
  (destruct (smb1_reply_typed p); [rewrite H4 by reflexivity|]; cbn [negb andb]);
  (destruct (smb2_reply_typed p); [rewrite H5 by reflexivity|]; cbn [negb andb]); reflexivity.
Qed.

(* where a core comes from: a responder run on payload [p] *)
Inductive produced (E : env) (clk : clock) (p : bytes) : bool -> core -> Prop :=
| prod_dispatch id ps c ps' :
    dispatch_core E clk id ps p = Ok (c, ps') ->
    produced E clk p (match ps with None => true | Some _ => false end) c
| prod_dns : produced E clk p true (dns_core p).

Lemma stun_core_tid p tid chg : stun_core p = CStun tid chg -> length tid = 16%nat.
Proof.
  unfold stun_core. destruct (length p <? 20)%nat eqn:Hl; [discriminate|].
  destruct (64 <=? _); [discriminate|]. destruct (lenN p <? _); [discriminate|].
  destruct (stun_attrs _ _ _); [|discriminate].
  destruct (negb _); [discriminate|]. destruct (negb _); [discriminate|].
  intros H. inversion H. apply slice_length. lia.
Qed.

Lemma ci_ok_dst ci ip : ci_ok ci -> ci_ip_dst ci = Some ip -> (length (ip_octets ip) <= 16)%nat.
Proof. intros [_ H] E. rewrite E in H. exact (proj2 H). Qed.

(* ---------- the application layer ---------- *)
Lemma dispatch_core_C12 E clk id ps p c ps' ci r ctx :
  env_ok E = true -> bytes_ok p = true ->
  dispatch_core E clk id ps p = Ok (c, ps') ->
  render c ci = Some r ->
  app_ok_C12seg ctx p (Some r) = true /\
  (ps = None -> rpc_reply_typed_tcp p = true -> is_rpc_reply_tcp r = false).
Proof.
  intros HE Hok Hd Hr. unfold dispatch_core in Hd.
  destruct (env_ok_c18 E HE) as [Hssh Hgh].
  assert (Hconst : forall r0, no_class r0 -> render (CConst r0) ci = Some r ->
            app_ok_C12seg ctx p (Some r) = true /\
            (ps = None -> rpc_reply_typed_tcp p = true -> is_rpc_reply_tcp r = false)).
  { intros r0 (N1 & N2 & N3 & N4 & N5 & N6) X. cbn [render] in X. inversion X; subst r0.
    split; [apply seg_intro; intros _; assumption | intros _ _; assumption]. }
  destruct (id =? PROTO_HTTP).
  { destruct (match ps with None => Ok http_new | Some (PHttp h) => Ok h | Some (PRpc _) => Panic PANIC_HTTP_PSTATE end)
      as [h|q]; [|discriminate].
    destruct (http_repl _ _ _ _ h p) as [[h' o]|q] eqn:Hh; cbn [bind fst snd] in Hd; [|discriminate].
    inversion Hd; subst c ps'. clear Hd.
    destruct (http_repl_shape _ _ _ _ _ _ _ _ Hh) as [-> | ->]; cbn [of_opt] in Hr; [discriminate|].
    eapply Hconst; [|exact Hr]. apply http_no_class, HE. }
  destruct (id =? PROTO_STUN).
  { inversion Hd; subst c ps'. clear Hd.
    destruct (stun_core p) as [| |tid chg| |] eqn:Hs; try discriminate.
    - exfalso. unfold stun_core in Hs.
      repeat match type of Hs with
             | (if ?b then _ else _) = _ => destruct b
             | match ?x with _ => _ end = _ => destruct x
             end; discriminate.
    - pose proof (stun_core_tid _ _ _ Hs) as Ht. cbn [render] in Hr.
      destruct (ci_ip_src ci) as [src|]; [|discriminate]. destruct (ci_port_src ci) as [sp|]; [|discriminate].
      destruct (ci_port_dst ci); [|discriminate]. inversion Hr; subst r. clear Hr.
      destruct (stun_only tid src sp Ht) as (S1 & S3 & S4 & S5 & S6).
      split; [|intros _ _; exact S4].
      apply seg_intro; intros Hty; try assumption.
      rewrite (stun_nonrequests_unanswered _ Hty) in Hs. discriminate.
    - exfalso. unfold stun_core in Hs.
      repeat match type of Hs with
             | (if ?b then _ else _) = _ => destruct b
             | match ?x with _ => _ end = _ => destruct x
             end; discriminate.
    - exfalso. unfold stun_core in Hs.
      repeat match type of Hs with
             | (if ?b then _ else _) = _ => destruct b
             | match ?x with _ => _ end = _ => destruct x
             end; discriminate. }
  destruct (id =? PROTO_SSH).
  { inversion Hd; subst c ps'. clear Hd. unfold ssh_repl in Hr. destruct (_ =? SSH_EOB); [|discriminate].
    cbn [of_opt] in Hr. eapply Hconst; [|exact Hr]. rewrite Hssh. exact ssh_banner_no_class. }
  destruct (id =? PROTO_GHOST).
  { inversion Hd; subst c ps'. clear Hd. unfold ghost_repl in Hr. cbn [of_opt] in Hr.
    eapply Hconst; [|exact Hr]. apply ghost_no_class.
    unfold ghost_wf in Hgh. repeat (apply andb_true_iff in Hgh; destruct Hgh as [Hgh ?]). assumption. }
  destruct (id =? PROTO_RPC_TCP).
  { destruct ps as [[h|r0]|]; try discriminate.
    - (* later segment of an RPC flow *)
      destruct (r_state (rpc_parse r0 p) =? R_END); [destruct (r_mtype (rpc_parse r0 p) =? 0)|];
        inversion Hd; subst c ps'; try discriminate. clear Hd.
      cbn [render] in Hr. destruct (ci_ip_dst ci) as [ip|]; [|discriminate].
      destruct (ci_port_dst ci) as [port|]; [|discriminate]. inversion Hr; subst r.
      destruct (rpc_tcp_only (rpc_parse r0 p) ip port) as (S1 & S2 & S3 & S5 & S6).
      split; [apply seg_intro; intros _; assumption | intros X; discriminate X].
    - (* parser at a message boundary *)
      destruct (r_state (rpc_parse (rpc_new R_FRAG) p) =? R_END) eqn:He;
        [destruct (r_mtype (rpc_parse (rpc_new R_FRAG) p) =? 0) eqn:Hm|];
        inversion Hd; subst c ps'; try discriminate. clear Hd.
      cbn [render] in Hr. destruct (ci_ip_dst ci) as [ip|]; [|discriminate].
      destruct (ci_port_dst ci) as [port|]; [|discriminate]. inversion Hr; subst r.
      destruct (rpc_tcp_only (rpc_parse (rpc_new R_FRAG) p) ip port) as (S1 & S2 & S3 & S5 & S6).
      split; [apply seg_intro; intros _; assumption|].
      intros _ Hty. exfalso.
      pose proof (rpc_tcp_replies_unanswered (rpc_new R_FRAG) ip port p eq_refl eq_refl Hok Hty) as X.
      unfold rpc_repl_tcp in X. rewrite He, Hm in X. discriminate X. }
  destruct (id =? PROTO_RPC_UDP).
  { inversion Hd; subst c ps'. clear Hd.
    destruct ((r_state (rpc_parse (rpc_new R_XID) p) =? R_END) && (r_mtype (rpc_parse (rpc_new R_XID) p) =? 0)) eqn:Hc;
      [|discriminate].
    cbn [render] in Hr. destruct (ci_ip_dst ci) as [ip|]; [|discriminate].
    destruct (ci_port_dst ci) as [port|]; [|discriminate]. cbn [render_rpc] in Hr. inversion Hr; subst r.
    destruct (rpc_udp_only (rpc_parse (rpc_new R_XID) p) ip port) as (S1 & S2 & S4 & S5 & S6).
    split; [|intros _ _; exact S4].
    apply seg_intro; intros Hty; try assumption. exfalso.
    pose proof (rpc_udp_replies_unanswered ip port p Hok Hty) as X. unfold rpc_repl_udp in X.
    rewrite Hc in X. discriminate X. }
  destruct (id =? PROTO_SMB1).
  { destruct (smb1_repl _ _ _ p) as [o|q] eqn:Hs; cbn [bind] in Hd; [|discriminate].
    inversion Hd; subst c ps'. clear Hd. destruct o as [r0|]; [|discriminate]. cbn [of_opt render] in Hr.
    inversion Hr; subst r0.
    destruct (smb1_only _ _ _ _ _ Hs) as (S1 & S2 & S3 & S4 & S6).
    split; [|intros _ _; exact S4].
    apply seg_intro; intros Hty; try assumption.
    pose proof (smb1_replies_unanswered _ _ _ _ _ Hty Hs). discriminate. }
  destruct (id =? PROTO_SMB2).
  { destruct (smb2_repl _ _ _ p) as [o|q] eqn:Hs; cbn [bind] in Hd; [|discriminate].
    inversion Hd; subst c ps'. clear Hd. destruct o as [r0|]; [|discriminate]. cbn [of_opt render] in Hr.
    inversion Hr; subst r0.
    destruct (smb2_only _ _ _ _ _ Hs) as (S1 & S2 & S3 & S4 & S5).
    split; [|intros _ _; exact S4].
    apply seg_intro; intros Hty; try assumption.
    pose proof (smb2_replies_unanswered _ _ _ _ _ Hty Hs). discriminate. }
  inversion Hd; subst c ps'. cbn [render] in Hr. discriminate Hr.
Qed.

Lemma dns_core_C12 p ci r ctx :
  bytes_ok p = true -> lenN p <= 5000 -> ci_ok ci ->
  render (dns_core p) ci = Some r ->
  app_ok_C12seg ctx p (Some r) = true /\ is_rpc_reply_tcp r = false.
Proof.
  intros Hok Hlen Hci Hr. unfold dns_core in Hr.
  destruct (dns_parse p) as [m|] eqn:Hm; [|discriminate].
  destruct (32768 <=? d_flags m) eqn:Hqr; [discriminate|].
  destruct (forallb _ _) eqn:Hfa; [|discriminate]. cbn [render] in Hr.
  destruct (ci_ip_dst ci) as [ip|] eqn:Hip; [|discriminate]. inversion Hr; subst r. clear Hr.
  pose proof (dns_reply_length p m ip Hm (ci_ok_dst _ _ Hci Hip) Hlen) as Hl.
  destruct (dns_only m ip Hl) as (S2 & S3 & S4 & S5 & S6).
  split; [|exact S4].
  apply seg_intro; intros Hty; try assumption. exfalso.
  pose proof (dns_responses_unanswered _ Hty) as X. unfold dns_core in X. rewrite Hm, Hqr, Hfa in X.
  discriminate X.
Qed.

(* datagrams *)
Theorem udp_core_C12 E clk p c ci r ctx :
  env_ok E = true -> bytes_ok p = true -> lenN p <= 5000 -> ci_ok ci ->
  udp_core E clk p = Ok c -> render c ci = Some r ->
  app_ok_C12x ctx p (Some r) = true.
Proof.
  intros HE Hok Hlen Hci Hc Hr. unfold app_ok_C12x, udp_core in *.
  destruct (udp_id E p) as [i|].
  - destruct (dispatch_core E clk i None p) as [[c' ps']|q] eqn:Hd; cbn [bind fst] in Hc; [|discriminate].
    inversion Hc; subst c'. destruct (dispatch_core_C12 _ _ _ _ _ _ _ ci r ctx HE Hok Hd Hr) as [A B].
    rewrite A. cbn [andb]. destruct (rpc_reply_typed_tcp p) eqn:Ht; [|reflexivity].
    rewrite (B eq_refl eq_refl). reflexivity.
  - inversion Hc; subst c. destruct (dns_core_C12 p ci r ctx Hok Hlen Hci Hr) as [A B].
    rewrite A, B. destruct (rpc_reply_typed_tcp p); reflexivity.
Qed.

(* ---------- frames: UDP ---------- *)
Lemma udp_ci_ok cfg f v : bytes_ok f = true -> view cfg f = Some v -> ci_ok (udp_ci f v).
Proof. intros Hf Hv. unfold udp_ci. apply ci_ok_ports. eapply l3_ci_ok; eassumption. Qed.

Lemma skipn_len_le (n : nat) (l : bytes) : (length (skipn n l) <= length l)%nat.
Proof. rewrite skipn_length. lia. Qed.

Theorem frame_udp_C12 E cfg clk tb f tb' r evs :
  env_ok E = true -> cfg_ok cfg = true -> bytes_ok f = true -> (length f <= 4096)%nat ->
  reply E cfg clk tb f = Ok (tb', r, evs) ->
  ok_app_udp app_ok_C12x cfg f r = true.
Proof.
  intros HE Hcfg Hf Hlen Hr. unfold ok_app_udp, udp_req.
  destruct (view_udp cfg f) as [v|] eqn:Hvu; [|reflexivity].
  destruct (udp_lift _ _ _ _ _ _ _ _ _ Hcfg Hf Hvu Hr) as (_ & ci' & out & Hpr & Hresp & _).
  rewrite Hresp.
  destruct (Lift.view_udp_view _ _ _ Hvu) as (Hv & _ & _).
  pose proof (udp_context_free E clk (skipn 8 (v_l4 v)) (udp_ci f v) (udp_ci_full f v)) as A.
  destruct (udp_core E clk (skipn 8 (v_l4 v))) as [c|q] eqn:Hc.
  - destruct A as (x & A & _). rewrite Hpr in A. inversion A; subst. clear A.
    destruct (render c (udp_ci f v)) as [d|] eqn:Hd; [|reflexivity].
    eapply udp_core_C12; try eassumption.
    + apply bytes_ok_skipn. exact (view_l4_ok _ _ _ Hf Hv).
    + pose proof (ip_payload_len _ _ _ Hv). pose proof (skipn_len_le 8 (v_l4 v)). unfold lenN. lia.
    + exact (udp_ci_ok _ _ _ Hf Hv).
  - rewrite Hpr in A. discriminate.
Qed.

(* ---------- frames: TCP ---------- *)
Lemma tcp_ci_full f v sp dp ck : ci_full (ci_set_cookie (ci_set_ports (l3_ci f v) sp dp) ck) = true.
Proof. unfold l3_ci, ci_full. destruct (v_v4 v); reflexivity. Qed.

(* the handler is given [snd (tcp_identify E tc p)]: the segment, preceded by the bytes the
   flow has pending when this segment completes a signature *)
Lemma proto_repl_tcp_C12_joined E clk ci tc p ci' tc' d ctx :
  env_ok E = true -> bytes_ok (snd (tcp_identify E tc p)) = true -> ci_full ci = true ->
  proto_repl_tcp E clk ci tc p = Ok (ci', tc', Some d) ->
  app_ok_C12seg ctx (snd (tcp_identify E tc p)) (Some d) = true /\
  (t_pstate tc = None -> rpc_reply_typed_tcp (snd (tcp_identify E tc p)) = true -> is_rpc_reply_tcp d = false).
Proof.
  intros HE Hok Hfull. unfold proto_repl_tcp.
  assert (Hps : t_pstate (fst (tcp_identify E tc p)) = t_pstate tc).
  { unfold tcp_identify. destruct (t_proto tc =? PROTO_NONE); [|reflexivity].
    destruct (search_next _ _ _) as [[[i|] st] n]; reflexivity. }
  destruct (tcp_identify E tc p) as [tc1 p1]. cbn [fst snd] in *.
  pose proof (dispatch_core_sound E clk ci (t_proto tc1) (Some tc1) p1 Hfull) as D. cbn [pstate_of] in D.
  destruct (dispatch_core E clk (t_proto tc1) (t_pstate tc1) p1) as [[c ps']|q] eqn:Hd.
  - destruct D as (ci2 & t2 & -> & _ & _). cbn [bind]. intros H. inversion H; subst.
    match goal with X : render c ci = Some d |- _ => rename X into Hr end. rewrite ?Hr.
    destruct (dispatch_core_C12 _ _ _ _ _ _ _ ci d ctx HE Hok Hd Hr) as [A B].
    split; [exact A|]. intros Hn. apply B. rewrite Hps. exact Hn.
  - rewrite D. cbn [bind]. discriminate.
Qed.

(* a flow without pending bytes (identified, or at its first data segment): the segment alone *)
Lemma proto_repl_tcp_C12 E clk ci tc p ci' tc' d ctx :
  env_ok E = true -> bytes_ok p = true -> ci_full ci = true -> t_pending tc = [] ->
  proto_repl_tcp E clk ci tc p = Ok (ci', tc', Some d) ->
  app_ok_C12seg ctx p (Some d) = true /\
  (t_pstate tc = None -> rpc_reply_typed_tcp p = true -> is_rpc_reply_tcp d = false).
Proof.
  intros HE Hok Hfull Hpe H.
  pose proof (proto_repl_tcp_C12_joined E clk ci tc p ci' tc' d ctx HE) as J.
  rewrite (Pending.tcp_identify_data_empty E tc p Hpe) in J. exact (J Hok Hfull H).
Qed.

Lemma tcp_repl_data E cfg clk tb f v tb' ci' out evs :
  bytes_ok (v_l4 v) = true ->
  tcp_class (tcp_flags (v_l4 v)) = TData ->
  tcp_repl E cfg clk tb (l3_ci f v) (v_l4 v) = Ok (tb', ci', out, evs) ->
  out = None \/
  exists ci2 tc' o sp dp,
    let ck := cookie (c_key0 cfg) (c_key1 cfg) (v_src v) (v_dst v) (u16_at 0 (v_l4 v)) (u16_at 2 (v_l4 v)) in
    let ci1 := ci_set_cookie (ci_set_ports (l3_ci f v) (u16_at 0 (v_l4 v)) (u16_at 2 (v_l4 v))) ck in
    let tc := match tbl_find ck tb with Some t => t | None => tcb_new end in
    proto_repl_tcp E clk ci1 tc (tcp_payload (v_l4 v)) = Ok (ci2, tc', o) /\
    out = Some (tcp_header sp dp (u32_at 8 (v_l4 v))
                           (wrap32 (u32_at 4 (v_l4 v) + lenN (tcp_payload (v_l4 v))))
                           (match o with Some _ => ACK + PSH | None => ACK end)
                ++ match o with Some d => d | None => [] end).
Proof.
  intros Hok Hc. unfold tcp_repl. rewrite Hc. rewrite cookie_ci_l3. cbv zeta.
  set (ck := cookie (c_key0 cfg) (c_key1 cfg) (v_src v) (v_dst v) (u16_at 0 (v_l4 v)) (u16_at 2 (v_l4 v))).
  destruct (negb (tbl_mem ck tb) && negb (ck =? _)).
  { intros H. inversion H. left. reflexivity. }
  destruct (proto_repl_tcp _ _ _ _ _) as [[[ci2 tc'] o]|s] eqn:Hp; cbn [bind]; [|discriminate].
  destruct o as [d|];
    (destruct (ci_port_dst ci2) as [sp|]; [|discriminate];
     destruct (ci_port_src ci2) as [dp|]; [|discriminate]);
    intros H; inversion H; subst; right; eexists _, _, _, sp, dp; (split; [first [exact Hp | reflexivity] | reflexivity]).
Qed.

(* what the frame carries back, for any data segment *)
Lemma frame_tcp_any E cfg clk tb f tb' r evs v :
  cfg_ok cfg = true -> env_ok E = true -> bytes_ok f = true ->
  view_tcp cfg f = Some v -> is_data (tcp_flags (v_l4 v)) = true ->
  reply E cfg clk tb f = Ok (tb', r, evs) ->
  tcp_resp r = Some None \/
  exists ci2 tc' d,
    let ck := cookie (c_key0 cfg) (c_key1 cfg) (v_src v) (v_dst v) (u16_at 0 (v_l4 v)) (u16_at 2 (v_l4 v)) in
    let ci1 := ci_set_cookie (ci_set_ports (l3_ci f v) (u16_at 0 (v_l4 v)) (u16_at 2 (v_l4 v))) ck in
    let tc := match tbl_find ck tb with Some t => t | None => tcb_new end in
    proto_repl_tcp E clk ci1 tc (tcp_payload (v_l4 v)) = Ok (ci2, tc', Some d) /\
    tcp_resp r = Some (Some d).
Proof.
  intros Hcfg HE Hf Hvt Hd Hr.
  destruct (view_tcp_view _ _ _ Hvt) as [Hv Hp].
  pose proof (view_l4_ok _ _ _ Hf Hv) as Hok.
  pose proof (reply_tcp E cfg clk tb f v Hvt) as Hfac. rewrite Hr in Hfac. cbn [strip] in Hfac.
  pose proof (tcp_flags_lt _ Hok) as Hfl.
  apply (is_data_class _ Hfl) in Hd.
  destruct (tcp_repl E cfg clk tb (l3_ci f v) (v_l4 v)) as [[[[tb2 ci2] out] evs2]|s] eqn:Ht; [|discriminate].
  destruct (tcp_repl_data _ _ _ _ _ _ _ _ _ _ Hok Hd Ht) as [-> | (ci3 & tc' & o & sp & dp & Hpr & ->)].
  - apply ok_pair_inj in Hfac. destruct Hfac as [_ ->]. left. reflexivity.
  - apply ok_pair_inj in Hfac. destruct Hfac as [_ ->]. cbv zeta in Hpr.
    assert (Hfl' : (match o with Some _ => ACK + PSH | None => ACK end) < 512)
      by (destruct o; unfold ACK, PSH; lia).
    unfold tcp_resp.
    match goal with |- context [tcp_header ?a ?b ?c ?d ?e ++ ?pl] =>
      destruct (dec_wrap_tcp cfg f v 64 a b c d e pl Hcfg Hv Hp Hfl' ltac:(lia)) as (e' & i & Hdec & _)
    end.
    rewrite Hdec. cbn [dt_payload]. destruct o as [d|].
    + pose proof (proto_repl_tcp_nonempty _ _ _ _ _ _ _ _ HE Hpr) as Hne.
      right. exists ci3, tc', d. cbv zeta. split; [exact Hpr|].
      destruct d as [|b d]; [congruence|]. reflexivity.
    + left. reflexivity.
Qed.

Lemma tcp_payload_bytes_ok p : bytes_ok p = true -> bytes_ok (tcp_payload p) = true.
Proof.
  intros H. unfold tcp_payload. destruct (length p <=? _)%nat; [reflexivity|]. apply bytes_ok_skipn, H.
Qed.

(* the flow of a TCP frame has no bytes pending in the table: it is identified, or its first
   data segment is still to come *)
Definition flow_not_pending (cfg : config) (tb : table) (f : bytes) : Prop :=
  forall v tc, view_tcp cfg f = Some v ->
    tbl_find (flow_cookie cfg (flow_of v)) tb = Some tc -> t_pending tc = [].

(* every data segment of a flow that has no bytes pending (the handler of a flow is given the
   segment that completes a signature joined to the bytes the flow sent before: for that
   segment the statement is about the joined bytes, [proto_repl_tcp_C12_joined]) *)
Theorem frame_tcp_seg_C12 E cfg clk tb f tb' r evs :
  env_ok E = true -> cfg_ok cfg = true -> bytes_ok f = true ->
  flow_not_pending cfg tb f ->
  reply E cfg clk tb f = Ok (tb', r, evs) ->
  match tcp_req cfg f with
  | None => true
  | Some (ctx, p) => match tcp_resp r with Some o => app_ok_C12seg ctx p o | None => false end
  end = true.
Proof.
  intros HE Hcfg Hf Hnp Hr. unfold tcp_req.
  destruct (view_tcp cfg f) as [v|] eqn:Hvt; [|reflexivity].
  destruct (is_data (tcp_flags (v_l4 v))) eqn:Hd; [|reflexivity].
  destruct (view_tcp_view _ _ _ Hvt) as [Hv Hp].
  destruct (frame_tcp_any _ _ _ _ _ _ _ _ _ Hcfg HE Hf Hvt Hd Hr) as [-> | (ci2 & tc' & d & Hpr & ->)];
    [reflexivity|].
  cbv zeta in Hpr.
  refine (proj1 (proto_repl_tcp_C12 _ _ _ _ _ _ _ _ _ HE _ (tcp_ci_full _ _ _ _ _) _ Hpr)).
  - apply tcp_payload_bytes_ok. exact (view_l4_ok _ _ _ Hf Hv).
  - specialize (Hnp v). unfold flow_cookie, flow_of in Hnp. cbn [fl_src fl_dst fl_sport fl_dport] in Hnp.
    destruct (tbl_find _ tb) as [t|]; [exact (Hnp t Hvt eq_refl)|reflexivity].
Qed.

(* ---------- the frame-level monitor ---------- *)
Theorem C12x_frame E cfg clk tb f tb' r evs :
  env_ok E = true -> cfg_ok cfg = true -> bytes_ok f = true -> (length f <= 4096)%nat ->
  flow_not_pending cfg tb f ->
  reply E cfg clk tb f = Ok (tb', r, evs) ->
  ok_C12x cfg f r = true.
Proof.
  intros HE Hcfg Hf Hlen Hnp Hr. unfold ok_C12x.
  rewrite (frame_udp_C12 _ _ _ _ _ _ _ _ HE Hcfg Hf Hlen Hr).
  rewrite (frame_tcp_seg_C12 _ _ _ _ _ _ _ _ HE Hcfg Hf Hnp Hr).
  destruct (l2l4_reply_typed cfg f) eqn:Ht; [|reflexivity].
  destruct (l2l4_replies_unanswered _ _ _ _ _ _ _ _ Hf Ht Hr) as [-> _]. reflexivity.
Qed.

(* ---------- first data segment of a flow: the record-layout RPC clause as well ---------- *)
From MS Require Import Proofs.C18Frame.

Theorem frame_tcp_first_state_C12 E cfg clk tb f tb' r evs v :
  env_ok E = true -> cfg_ok cfg = true -> bytes_ok f = true ->
  view_tcp cfg f = Some v ->
  is_data (tcp_flags (v_l4 v)) = true ->
  tbl_mem (flow_cookie cfg (flow_of v)) tb = false ->
  reply E cfg clk tb f = Ok (tb', r, evs) ->
  exists o, tcp_resp r = Some o /\ app_ok_C12x (ctx_of true v) (tcp_payload (v_l4 v)) o = true.
Proof.
  intros HE Hcfg Hf Hvt Hd Hmem Hr.
  destruct (view_tcp_view _ _ _ Hvt) as [Hv Hp].
  destruct (frame_tcp_any _ _ _ _ _ _ _ _ _ Hcfg HE Hf Hvt Hd Hr) as [-> | (ci2 & tc' & d & Hpr & ->)].
  - exists None. split; reflexivity.
  - exists (Some d). split; [reflexivity|]. cbv zeta in Hpr.
    unfold flow_cookie, flow_of in Hmem. cbn [fl_src fl_dst fl_sport fl_dport] in Hmem.
    rewrite (tbl_mem_find _ _ Hmem) in Hpr.
    assert (Hok : bytes_ok (tcp_payload (v_l4 v)) = true)
      by (apply tcp_payload_bytes_ok; exact (view_l4_ok _ _ _ Hf Hv)).
    destruct (proto_repl_tcp_C12 _ _ _ _ _ _ _ _ (ctx_of true v) HE Hok (tcp_ci_full _ _ _ _ _) (eq_refl : t_pending tcb_new = []) Hpr) as [A B].
    unfold app_ok_C12x. rewrite A. cbn [andb].
    destruct (rpc_reply_typed_tcp _) eqn:Ht; [|reflexivity]. rewrite (B eq_refl eq_refl). reflexivity.
Qed.

(* history level, as for C16 / C18: "first accepted data segment of its flow" decided by the
   reference connection model keyed by the 4-tuple (no cookie collision: C08) *)
Theorem frame_tcp_first_history_C12 E cfg h clk tb f tb' r evs :
  env_ok E = true -> cfg_ok cfg = true ->
  Forall (fun x => bytes_ok x = true) (frames h) -> bytes_ok f = true ->
  run E cfg [] h = Ok tb ->
  (forall v, view_tcp cfg f = Some v -> no_collision cfg (flow_of v :: ref_run cfg (frames h))) ->
  reply E cfg clk tb f = Ok (tb', r, evs) ->
  ok_C12x_tcp cfg (ref_run cfg (frames h)) f r = true.
Proof.
  intros HE Hcfg Hall Hf Hrun Hnc Hr. unfold ok_C12x_tcp, ok_app_tcp_first, tcp_first_req.
  destruct (view_tcp cfg f) as [v|] eqn:Hvt; [|reflexivity].
  destruct (is_data (tcp_flags (v_l4 v))) eqn:Hd; cbn [andb]; [|reflexivity].
  destruct (ref_mem (flow_of v) (ref_run cfg (frames h))) eqn:Hm; cbn [negb andb]; [reflexivity|].
  destruct (presents_cookie cfg v) eqn:Hpres; [|reflexivity].
  assert (Hmem : tbl_mem (flow_cookie cfg (flow_of v)) tb = false).
  { destruct (tbl_mem (flow_cookie cfg (flow_of v)) tb) eqn:Ht; [|reflexivity].
    apply tbl_mem_In in Ht. rewrite (table_keys E cfg h tb Hall Hrun) in Ht.
    unfold ref_keys in Ht. apply in_map_iff in Ht. destruct Ht as (x & Hx & Hin).
    assert (x = flow_of v) as ->.
    { apply (Hnc v eq_refl); [right; exact Hin | left; reflexivity | exact Hx]. }
    apply ref_mem_In in Hin. congruence. }
  destruct (frame_tcp_first_state_C12 E cfg clk tb f tb' r evs v HE Hcfg Hf Hvt Hd Hmem Hr)
    as (o & -> & Hmon).
  exact Hmon.
Qed.
