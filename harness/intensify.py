"""Change-directed intensification. harness/baseline_src.json records a hash of every source file of /repo at the
commit the model was last validated against (`python3 harness/intensify.py --init` after every commit to /repo). When
a quick check finds that files anchored by its property differ from that baseline, it runs the property's THOROUGH
generators (capped by a frame budget) instead of the quick ones: a changed tree gets a deeper search exactly where it
changed, the unchanged tree costs nothing. This never affects a verdict by itself; it only enlarges the explored set."""
import os, sys, json, hashlib
from common import *

BASELINE = os.path.join(VERIF, "harness", "baseline_src.json")
FRAME_BUDGET = int(os.environ.get("VERIF_INTENSE_FRAMES", "60000"))


def scan(repo=None):
    repo = repo or REPO
    out = {}
    for root, dirs, fs in os.walk(os.path.join(repo, "src")):
        dirs.sort()
        for f in sorted(fs):
            if f.endswith(".rs"):
                p = os.path.join(root, f)
                out[os.path.relpath(p, repo)] = hashlib.sha256(open(p, "rb").read()).hexdigest()
    return out


def changed_files():
    try:
        base = json.load(open(BASELINE))
    except (OSError, ValueError):
        return []
    cur = scan()
    return sorted(k for k in set(base) | set(cur) if base.get(k) != cur.get(k))


_ANCHORS = None


def anchors(pid):
    global _ANCHORS
    if _ANCHORS is None:
        _ANCHORS = {}
        for l in open(os.path.join(VERIF, "properties.jsonl")):
            p = json.loads(l)
            _ANCHORS[p["id"]] = set(p.get("anchors", {}).get("files", []))
    return _ANCHORS.get(pid, set())


def relevant(pid, changed):
    """the changed files touch the property's anchors -- or nobody's (then every property looks)"""
    if not changed:
        return False
    a = anchors(pid)
    everybody = set().union(*[anchors(k) for k in (_ANCHORS or {})]) if _ANCHORS else set()
    return any(c in a for c in changed) or any(c not in everybody for c in changed)


def capped(scripts, budget=None):
    """a prefix of the script stream holding at most [budget] frames"""
    budget = FRAME_BUDGET if budget is None else budget
    n = 0
    for s in scripts:
        n += len(s.frames)
        yield s
        if n >= budget:
            return


if __name__ == "__main__":
    if "--init" in sys.argv:
        json.dump(scan(), open(BASELINE, "w"), indent=1, sort_keys=True)
        print("baseline written:", len(scan()), "files")
    else:
        print(changed_files())
