(* Proofs/C10Sound.v -- soundness of the product check of Spec/C10.v: for EVERY
   table [t] and every candidate set [V], if [check t K V] holds then, on every
   byte string (of any length) whose reference run does not pass a point of [K],
   the identification by the table is the reference identification.
   Method: [mem_v V] is an invariant of the joint run of the matcher (row by row)
   and of the reference automaton; the matcher run is [search_next]. *)
From Coq Require Import Lia.
From MS Require Import Smack Proofs.Tactics Proofs.SmackSeg Spec.RefSig Spec.C10.

(* ---------- small facts ---------- *)
Lemma lnat_eqb_eq a : forall b, lnat_eqb a b = true -> a = b.
Proof.
  induction a as [|x a IH]; intros [|y b] H; cbn [lnat_eqb] in H; try discriminate; [reflexivity|].
  apply andb_true_iff in H. destruct H as [H1 H2]. apply Nat.eqb_eq in H1. subst y.
  rewrite (IH _ H2). reflexivity.
Qed.
Lemma rs_eqb_eq (a b : rstate) : rs_eqb a b = true -> a = b.
Proof.
  destruct a as [n l], b as [m k]. unfold rs_eqb. cbn [fst snd]. intros H.
  apply andb_true_iff in H. destruct H as [H1 H2]. apply Nat.eqb_eq in H1. subst m.
  rewrite (lnat_eqb_eq _ _ H2). reflexivity.
Qed.
Lemma in_bytes256 b : b < 256 -> In b bytes256.
Proof.
  intros Hb. unfold bytes256. apply in_map_iff. exists (N.to_nat b).
  split; [apply N2Nat.id | apply in_seq; lia].
Qed.
Lemma oN_eqb_eq a b : oN_eqb a b = true -> a = b.
Proof.
  destruct a, b; cbn [oN_eqb]; intros H; try discriminate; [|reflexivity].
  apply N.eqb_eq in H. subst. reflexivity.
Qed.

Lemma d0_run_mono K s : forall st, d0_run K true st s = false -> d0_run K false st s = false.
Proof.
  induction s as [|b r IH]; intros st H; cbn [d0_run] in *; [reflexivity|].
  apply orb_false_iff in H. destruct H as [H1 H2]. rewrite H1. cbn [orb].
  destruct (rsig_step st b); [apply IH; exact H2 | reflexivity].
Qed.
Lemma D0_udp_tcp K s : D0_udp K s = false -> D0_tcp K s = false.
Proof. apply d0_run_mono. Qed.

(* ---------- the matcher run is search_next ---------- *)
Section Matcher.
  Variable t : smack.
  Hypothesis Hok : smack_ok t = true.
  Hypothesis Hsz : sm_rows t <= TWO24.

  Lemma m_run_search_next p : forall row, row < sm_rows t -> row < sm_match_limit t ->
    match m_run t row p with
    | MAcc i => fst (fst (search_next t row p)) = Some i
    | MCont r' => r' < sm_rows t /\ r' < sm_match_limit t /\
                  exists n, search_next t row p = (None, r', n)
    end.
  Proof.
    induction p as [|b r IH]; intros row Hrow Hlim; cbn [m_run].
    - split; [exact Hrow|]. split; [exact Hlim|]. exists O.
      rewrite search_next_row by lia. cbn [inner_match]. cbv zeta.
      rewrite (sm_count_lo t row Hok Hrow Hlim). reflexivity.
    - rewrite (search_next_cons t Hok Hsz row b r Hrow). cbv zeta.
      destruct (search_next_one t Hok Hsz row b Hrow) as (Hr & [(Hlo & H1) | (Hhi & i & Hi & H1)]).
      + unfold m_step.
        replace (sm_match_limit t <=? sm_next t row (sm_sym t (N.to_nat b))) with false
          by (symmetry; apply N.leb_gt; lia).
        specialize (IH _ Hr Hlo).
        destruct (m_run t (sm_next t row (sm_sym t (N.to_nat b))) r) as [r' | i].
        * destruct IH as (Hr' & Hl' & n & Hn). split; [exact Hr'|]. split; [exact Hl'|].
          exists (S n). rewrite Hn. reflexivity.
        * destruct (search_next t (sm_next t row (sm_sym t (N.to_nat b))) r) as [[id2 st2] n2].
          cbn [fst] in *. exact IH.
      + unfold m_step.
        replace (sm_match_limit t <=? sm_next t row (sm_sym t (N.to_nat b))) with true
          by (symmetry; apply N.leb_le; lia).
        rewrite H1, Hi. reflexivity.
  Qed.

  Lemma m_end_search_next_end row : row < sm_rows t ->
    fst (search_next_end t row) = m_end t row.
  Proof.
    intros Hrow. unfold search_next_end, m_end.
    assert (Hlt : row < TWO24) by lia.
    rewrite (N.mod_small row TWO24 Hlt), (N.div_small row TWO24 Hlt).
    change (0 =? 255) with false. change (0 =? 0) with true. cbn [negb]. cbv iota zeta.
    pose proof (sm_next_lt t row (sm_sym t CHAR_ANCHOR_END) Hok Hrow) as Hr.
    destruct (N.lt_ge_cases (sm_next t row (sm_sym t CHAR_ANCHOR_END)) (sm_match_limit t)) as [Hlo | Hhi].
    - rewrite (sm_count_lo t _ Hok Hr Hlo). change (0 =? 0) with true. cbv iota.
      replace (sm_match_limit t <=? _) with false by (symmetry; apply N.leb_gt; lia). reflexivity.
    - rewrite (sm_count_hi t _ Hok Hr Hhi). change (1 =? 0) with false. cbv iota.
      replace (sm_match_limit t <=? _) with true by (symmetry; apply N.leb_le; lia).
      destruct (sm_ids_cases t _ Hok Hr) as [_ Hids]. destruct (Hids Hhi) as (i & Hi). rewrite Hi.
      reflexivity.
  Qed.

  (* identification by the table, in terms of the row-by-row run *)
  Lemma tcp_id_m_run p : 0 < sm_rows t -> 0 < sm_match_limit t ->
    tcp_first_id_tbl t p = match m_run t BASE_STATE p with MAcc i => Some i | MCont _ => None end.
  Proof.
    intros H0 H1. unfold tcp_first_id_tbl.
    pose proof (m_run_search_next p BASE_STATE H0 H1) as H.
    destruct (m_run t BASE_STATE p) as [r' | i].
    - destruct H as (_ & _ & n & ->). reflexivity.
    - destruct (search_next t BASE_STATE p) as [[id st] n]. exact H.
  Qed.
  Lemma udp_id_m_run p : 0 < sm_rows t -> 0 < sm_match_limit t ->
    udp_id_tbl t p = match m_run t BASE_STATE p with MAcc i => Some i | MCont r => m_end t r end.
  Proof.
    intros H0 H1. unfold udp_id_tbl.
    pose proof (m_run_search_next p BASE_STATE H0 H1) as H.
    destruct (m_run t BASE_STATE p) as [r' | i].
    - destruct H as (Hr & _ & n & ->). apply m_end_search_next_end. exact Hr.
    - destruct (search_next t BASE_STATE p) as [[id st] n]. cbn [fst] in H. rewrite H. reflexivity.
  Qed.
End Matcher.

(* ---------- dead rows ---------- *)
Section Dead.
  Variables (t : smack) (Dd : list bool).
  Hypothesis Hd : dead_closed t Dd = true.

  Lemma dead_spec r : deadb Dd r = true ->
    (forall b, b < 256 -> exists r', m_step t r b = MCont r' /\ deadb Dd r' = true) /\ m_end t r = None.
  Proof.
    intros Hr. unfold dead_closed in Hd. rewrite forallb_forall in Hd.
    unfold deadb in Hr.
    destruct (Nat.lt_ge_cases (N.to_nat r) (length Dd)) as [Hlt | Hge].
    - specialize (Hd _ (combine_seq_In Dd false (N.to_nat r) Hlt)). cbn [fst snd] in Hd.
      rewrite Hr, N2Nat.id in Hd. cbn [negb orb] in Hd. apply andb_true_iff in Hd. destruct Hd as [H1 H2].
      split.
      + intros b Hb. rewrite forallb_forall in H1. specialize (H1 b (in_bytes256 b Hb)).
        destruct (m_step t r b) as [r'|]; [|discriminate]. exists r'. split; [reflexivity | exact H1].
      + apply oN_eqb_eq. exact H2.
    - rewrite nth_overflow in Hr by exact Hge. discriminate.
  Qed.

  Lemma dead_run p : forall r, deadb Dd r = true -> bytes_ok p = true ->
    exists r', m_run t r p = MCont r' /\ deadb Dd r' = true.
  Proof.
    induction p as [|b q IH]; intros r Hr Hb; cbn [m_run].
    - exists r. split; [reflexivity | exact Hr].
    - cbn [bytes_ok forallb] in Hb. apply andb_true_iff in Hb. destruct Hb as [Hb Hq].
      unfold byte_ok in Hb. apply N.ltb_lt in Hb.
      destruct (proj1 (dead_spec r Hr) b Hb) as (r' & -> & Hr'). apply IH; assumption.
  Qed.
End Dead.

(* ---------- the invariant ---------- *)
Section Product.
  Variables (t : smack) (K : known) (Dd : list bool) (V : vset).
  Hypothesis Hchk : check t K Dd V = true.

  Lemma check_parts : tbl_pre t = true /\ dead_closed t Dd = true /\ mem_v V BASE_STATE r_init = true /\
    forallb (fun il : nat * list rstate => forallb (check_state t K Dd V (N.of_nat (fst il))) (snd il))
            (combine (seq 0 (length V)) V) = true.
  Proof. unfold check in Hchk. rewrite !andb_true_iff in Hchk. tauto. Qed.

  Lemma mem_v_check row s : mem_v V row s = true -> check_state t K Dd V row s = true.
  Proof.
    intros Hm. unfold mem_v in Hm. apply existsb_exists in Hm. destruct Hm as (s' & Hin & He).
    apply rs_eqb_eq in He. subst s'.
    destruct check_parts as (_ & _ & _ & Hall). rewrite forallb_forall in Hall.
    destruct (Nat.lt_ge_cases (N.to_nat row) (length V)) as [Hlt | Hge].
    - specialize (Hall _ (combine_seq_In V [] (N.to_nat row) Hlt)). cbn [fst snd] in Hall.
      rewrite N2Nat.id in Hall. rewrite forallb_forall in Hall. exact (Hall _ Hin).
    - rewrite nth_overflow in Hin by exact Hge. destruct Hin.
  Qed.

  Lemma step_inv row s b : mem_v V row s = true -> b < 256 -> k_byte K s b = false ->
    match m_step t row b, rsig_step s b with
    | MAcc i, RAcc j => i = j
    | MCont row', RCont s' => mem_v V row' s' = true
    | _, _ => False
    end.
  Proof.
    intros Hm Hb Hk. pose proof (mem_v_check row s Hm) as Hc. unfold check_state in Hc.
    apply andb_true_iff in Hc. destruct Hc as [Hc _]. rewrite forallb_forall in Hc.
    specialize (Hc b (in_bytes256 b Hb)). unfold k_byte in Hk. rewrite Hk in Hc.
    destruct (m_step t row b), (rsig_step s b); try discriminate.
    - exact Hc.
    - apply N.eqb_eq. exact Hc.
  Qed.

  Lemma end_inv row s : mem_v V row s = true -> k_at_end K s = false -> m_end t row = rsig_end s.
  Proof.
    intros Hm Hk. pose proof (mem_v_check row s Hm) as Hc. unfold check_state in Hc.
    apply andb_true_iff in Hc. destruct Hc as [_ Hc]. unfold k_at_end in Hk. rewrite Hk in Hc.
    cbn [orb] in Hc. apply oN_eqb_eq. exact Hc.
  Qed.

  (* at a dead point the matcher enters a dead row *)
  Lemma step_dead row s b : mem_v V row s = true -> b < 256 -> k_byte K s b = true ->
    k_dead_at K s = true -> exists r', m_step t row b = MCont r' /\ deadb Dd r' = true.
  Proof.
    intros Hm Hb Hk Hdd. pose proof (mem_v_check row s Hm) as Hc. unfold check_state in Hc.
    apply andb_true_iff in Hc. destruct Hc as [Hc _]. rewrite forallb_forall in Hc.
    specialize (Hc b (in_bytes256 b Hb)). unfold k_byte in Hk. unfold k_dead_at in Hdd.
    rewrite Hk, Hdd in Hc. cbn [negb orb] in Hc.
    destruct (m_step t row b) as [r'|]; [|discriminate]. exists r'. split; [reflexivity | exact Hc].
  Qed.

  Lemma run_inv (udp : bool) p : forall row s, mem_v V row s = true -> bytes_ok p = true ->
    d0_run K udp s p = false ->
    match m_run t row p, rsig_run s p with
    | MAcc i, RAcc j => i = j
    | MCont row', RCont s' => mem_v V row' s' = true /\ (udp = true -> k_at_end K s' = false)
    | _, _ => False
    end.
  Proof.
    induction p as [|b r IH]; intros row s Hm Hb Hd; cbn [m_run rsig_run d0_run] in *.
    - split; [exact Hm|]. intros ->. exact Hd.
    - cbn [bytes_ok forallb] in Hb. apply andb_true_iff in Hb. destruct Hb as [Hb Hr].
      unfold byte_ok in Hb. apply N.ltb_lt in Hb.
      apply orb_false_iff in Hd. destruct Hd as [Hk Hd].
      pose proof (step_inv row s b Hm Hb Hk) as Hs.
      destruct (m_step t row b) as [row' | i], (rsig_step s b) as [s' | j]; try contradiction.
      + apply IH; assumption.
      + exact Hs.
  Qed.

  (* the first known point on the way is a dead point: the matcher ends in a dead row *)
  Lemma run_dead (udp : bool) p : forall row s s1 x, mem_v V row s = true -> bytes_ok p = true ->
    d0_first K udp s p = Some (s1, x) -> x < 256 -> k_dead_at K s1 = true ->
    exists r', m_run t row p = MCont r' /\ deadb Dd r' = true.
  Proof.
    induction p as [|b r IH]; intros row s s1 x Hm Hb Hf Hx Hdd; cbn [m_run d0_first] in *.
    - destruct (udp && k_at_end K s); [|discriminate]. injection Hf as <- <-. lia.
    - cbn [bytes_ok forallb] in Hb. apply andb_true_iff in Hb. destruct Hb as [Hb Hr].
      unfold byte_ok in Hb. apply N.ltb_lt in Hb.
      destruct (k_byte K s b) eqn:Hk.
      + injection Hf as <- <-.
        destruct (step_dead row s b Hm Hb Hk Hdd) as (r' & -> & Hr').
        destruct check_parts as (_ & Hdc & _).
        exact (dead_run t Dd Hdc r r' Hr' Hr).
      + pose proof (step_inv row s b Hm Hb Hk) as Hs.
        destruct (m_step t row b) as [row' | i], (rsig_step s b) as [s' | j]; try contradiction; try discriminate.
        exact (IH row' s' s1 x Hs Hr Hf Hx Hdd).
  Qed.
End Product.

Lemma d0_first_none K udp p : forall s, d0_first K udp s p = None -> d0_run K udp s p = false.
Proof.
  induction p as [|b r IH]; intros s H; cbn [d0_first d0_run] in *.
  - destruct (udp && k_at_end K s); [discriminate | reflexivity].
  - destruct (k_byte K s b); [discriminate|]. cbn [orb].
    destruct (rsig_step s b); [apply IH; exact H | reflexivity].
Qed.

(* ---------- soundness ---------- *)
Theorem check_sound (t : smack) (K : known) (Dd : list bool) (V : vset) :
  smack_ok t = true -> check t K Dd V = true ->
  forall s, bytes_ok s = true ->
    (D0_tcp K s = false -> tcp_first_id_tbl t s = ref_tcp s) /\
    (D0_udp K s = false -> udp_id_tbl t s = ref_udp s).
Proof.
  intros Hok Hchk s Hs.
  destruct (check_parts t K Dd V Hchk) as (Hpre & _ & Hinit & _).
  unfold tbl_pre in Hpre. rewrite !andb_true_iff in Hpre. destruct Hpre as [[Hsz H0] H1].
  apply N.leb_le in Hsz. apply N.ltb_lt in H0. apply N.ltb_lt in H1.
  split; intros Hd.
  - rewrite (tcp_id_m_run t Hok Hsz s H0 H1). unfold ref_tcp.
    pose proof (run_inv t K Dd V Hchk false s BASE_STATE r_init Hinit Hs Hd) as H.
    destruct (m_run t BASE_STATE s), (rsig_run r_init s); try contradiction; [reflexivity | congruence].
  - rewrite (udp_id_m_run t Hok Hsz s H0 H1). unfold ref_udp.
    pose proof (run_inv t K Dd V Hchk true s BASE_STATE r_init Hinit Hs Hd) as H.
    destruct (m_run t BASE_STATE s), (rsig_run r_init s); try contradiction; [|congruence].
    destruct H as [Hm Hk]. apply (end_inv t K Dd V Hchk); [exact Hm | apply Hk; reflexivity].
Qed.

(* as requested: generic over the table, with the exploration supplying V *)
Theorem product_sound (t : smack) (K : known) :
  smack_ok t = true -> product_ok t K = true ->
  forall s, bytes_ok s = true -> D0 K s = false ->
    udp_id_tbl t s = ref_udp s /\ tcp_first_id_tbl t s = ref_tcp s.
Proof.
  intros Hok Hp s Hs Hd. unfold product_ok in Hp.
  destruct (check_sound t K _ _ Hok Hp s Hs) as [Ht Hu].
  split; [apply Hu; exact Hd | apply Ht, D0_udp_tcp; exact Hd].
Qed.
Theorem product_sound_tcp (t : smack) (K : known) :
  smack_ok t = true -> product_ok t K = true ->
  forall s, bytes_ok s = true -> D0_tcp K s = false -> tcp_first_id_tbl t s = ref_tcp s.
Proof.
  intros Hok Hp s Hs Hd. unfold product_ok in Hp.
  exact (proj1 (check_sound t K _ _ Hok Hp s Hs) Hd).
Qed.

(* on a payload whose first known point is a dead point the table identifies nothing *)
Theorem check_dead_sound (t : smack) (K : known) (Dd : list bool) (V : vset) :
  smack_ok t = true -> check t K Dd V = true ->
  forall (udp : bool) s s1 x, bytes_ok s = true ->
    d0_first K udp r_init s = Some (s1, x) -> x < 256 -> k_dead_at K s1 = true ->
    tcp_first_id_tbl t s = None /\ udp_id_tbl t s = None.
Proof.
  intros Hok Hchk udp s s1 x Hs Hf Hx Hdd.
  destruct (check_parts t K Dd V Hchk) as (Hpre & Hdc & Hinit & _).
  unfold tbl_pre in Hpre. rewrite !andb_true_iff in Hpre. destruct Hpre as [[Hsz H0] H1].
  apply N.leb_le in Hsz. apply N.ltb_lt in H0. apply N.ltb_lt in H1.
  destruct (run_dead t K Dd V Hchk udp s BASE_STATE r_init s1 x Hinit Hs Hf Hx Hdd) as (r' & Hr & Hd').
  rewrite (tcp_id_m_run t Hok Hsz s H0 H1), (udp_id_m_run t Hok Hsz s H0 H1), Hr.
  split; [reflexivity | exact (proj2 (dead_spec t Dd Hdc r' Hd'))].
Qed.

(* hence: outside the refined class, the identification is the reference's *)
Theorem product_sound_refined (t : smack) (K : known) :
  smack_ok t = true -> product_ok t K = true ->
  forall s, bytes_ok s = true ->
    (D0x_udp K s = false -> udp_id_tbl t s = ref_udp s) /\
    (D0x_tcp K s = false -> tcp_first_id_tbl t s = ref_tcp s).
Proof.
  intros Hok Hp s Hs. unfold product_ok in Hp.
  split; intros Hd.
  - unfold D0x_udp in Hd. destruct (d0_first K true r_init s) as [[s1 x]|] eqn:Hf.
    + destruct ((x <? 256) && k_dead_at K s1) eqn:Hc; [|discriminate].
      apply andb_true_iff in Hc. destruct Hc as [Hx Hdd]. apply N.ltb_lt in Hx.
      destruct (check_dead_sound t K _ _ Hok Hp true s s1 x Hs Hf Hx Hdd) as [_ ->].
      destruct (ref_udp s); [discriminate | reflexivity].
    + apply d0_first_none in Hf. exact (proj2 (check_sound t K _ _ Hok Hp s Hs) Hf).
  - unfold D0x_tcp in Hd. destruct (d0_first K false r_init s) as [[s1 x]|] eqn:Hf.
    + destruct ((x <? 256) && k_dead_at K s1) eqn:Hc; [|discriminate].
      apply andb_true_iff in Hc. destruct Hc as [Hx Hdd]. apply N.ltb_lt in Hx.
      destruct (check_dead_sound t K _ _ Hok Hp false s s1 x Hs Hf Hx Hdd) as [-> _].
      destruct (ref_tcp s); [discriminate | reflexivity].
    + apply d0_first_none in Hf. exact (proj1 (check_sound t K _ _ Hok Hp s Hs) Hf).
Qed.

Theorem product_dead_sound (t : smack) (K : known) :
  smack_ok t = true -> product_ok t K = true ->
  forall (udp : bool) s s1 x, bytes_ok s = true ->
    d0_first K udp r_init s = Some (s1, x) -> x < 256 -> k_dead_at K s1 = true ->
    tcp_first_id_tbl t s = None /\ udp_id_tbl t s = None.
Proof. intros Hok Hp. unfold product_ok in Hp. exact (check_dead_sound t K _ _ Hok Hp). Qed.

(* ---------- the lax check ---------- *)
Lemma k_lookup_undead K s :
  k_lookup (undead K) s =
  option_map (fun k => {| k_end := k_end k; k_neg := k_neg k; k_bytes := k_bytes k; k_dead := false |})
             (k_lookup K s).
Proof.
  induction K as [|[s' k] K IH]; [reflexivity|]. cbn [undead map k_lookup fst snd].
  destruct (rs_eqb s s'); [reflexivity | exact IH].
Qed.
Lemma k_byte_undead K s b : k_byte (undead K) s b = k_byte K s b.
Proof. unfold k_byte. rewrite k_lookup_undead. destruct (k_lookup K s); reflexivity. Qed.
Lemma k_at_end_undead K s : k_at_end (undead K) s = k_at_end K s.
Proof. unfold k_at_end. rewrite k_lookup_undead. destruct (k_lookup K s); reflexivity. Qed.
Lemma d0_run_undead K udp p : forall s, d0_run (undead K) udp s p = d0_run K udp s p.
Proof.
  induction p as [|b r IH]; intros s; cbn [d0_run].
  - rewrite k_at_end_undead. reflexivity.
  - rewrite k_byte_undead. destruct (rsig_step s b); [rewrite IH|]; reflexivity.
Qed.

Theorem product_sound_lax (t : smack) (K : known) :
  smack_ok t = true -> product_ok_lax t K = true ->
  forall s, bytes_ok s = true -> D0 K s = false ->
    udp_id_tbl t s = ref_udp s /\ tcp_first_id_tbl t s = ref_tcp s.
Proof.
  intros Hok Hp s Hs Hd. apply (product_sound t (undead K) Hok Hp s Hs).
  unfold D0, D0_udp. rewrite d0_run_undead. exact Hd.
Qed.
