(* Rpc.v -- src/proto/rpc.rs: ONC-RPC call parser (byte at a time) and the
   portmapper replies. Only the observable part of the parser state is kept
   (credential / verifier / payload bytes are collected but never used). *)
From MS Require Export Bytes Types Text.

(* states *)
Definition R_FRAG : N := 0.
Definition R_XID : N := 1.
Definition R_MTYPE : N := 2.
Definition R_RPCVERS : N := 3.
Definition R_PROG : N := 4.
Definition R_PROGVERS : N := 5.
Definition R_PROC : N := 6.
Definition R_CFLAVOR : N := 7.
Definition R_CLEN : N := 8.
Definition R_CREDS : N := 9.
Definition R_VFLAVOR : N := 10.
Definition R_VLEN : N := 11.
Definition R_VERIF : N := 12.
Definition R_END : N := 13.

Record rpc_st := {
  r_state : N;
  r_cur_len : N;
  r_data_len : N;
  r_xid : N;
  r_prog : N;
  r_progvers : N;
  r_proc : N;
  r_mtype : N     (* message type: 0 = CALL; anything else is not answered *)
}.

Definition rpc_new (st : N) : rpc_st :=
  {| r_state := st; r_cur_len := 0; r_data_len := 0; r_xid := 0; r_prog := 0;
     r_progvers := 0; r_proc := 0; r_mtype := 0 |}.

Definition upd (s : rpc_st) (st cur dl : N) : rpc_st :=
  {| r_state := st; r_cur_len := cur; r_data_len := dl; r_xid := r_xid s; r_prog := r_prog s;
     r_progvers := r_progvers s; r_proc := r_proc s; r_mtype := r_mtype s |}.

(* read_u32: advance the 4-byte counter; returns (new state, new cur_len) *)
Definition rd (s : rpc_st) (next : N) : N * N :=
  if r_cur_len s + 1 =? 4 then (next, 0) else (r_state s, r_cur_len s + 1).

Definition acc (v b : N) : N := wrap32 (v * 256 + b).

Definition rpc_byte (s : rpc_st) (b : N) : rpc_st :=
  let st := r_state s in
  if st =? R_FRAG then let '(n, c) := rd s R_XID in upd s n c (r_data_len s)
  else if st =? R_XID then
    let '(n, c) := rd s R_MTYPE in
    {| r_state := n; r_cur_len := c; r_data_len := r_data_len s; r_xid := acc (r_xid s) b;
       r_prog := r_prog s; r_progvers := r_progvers s; r_proc := r_proc s; r_mtype := r_mtype s |}
  else if st =? R_MTYPE then
    let '(n, c) := rd s R_RPCVERS in
    {| r_state := n; r_cur_len := c; r_data_len := r_data_len s; r_xid := r_xid s; r_prog := r_prog s;
       r_progvers := r_progvers s; r_proc := r_proc s; r_mtype := acc (r_mtype s) b |}
  else if st =? R_RPCVERS then let '(n, c) := rd s R_PROG in upd s n c (r_data_len s)
  else if st =? R_PROG then
    let '(n, c) := rd s R_PROGVERS in
    {| r_state := n; r_cur_len := c; r_data_len := r_data_len s; r_xid := r_xid s;
       r_prog := acc (r_prog s) b; r_progvers := r_progvers s; r_proc := r_proc s; r_mtype := r_mtype s |}
  else if st =? R_PROGVERS then
    let '(n, c) := rd s R_PROC in
    {| r_state := n; r_cur_len := c; r_data_len := r_data_len s; r_xid := r_xid s;
       r_prog := r_prog s; r_progvers := acc (r_progvers s) b; r_proc := r_proc s; r_mtype := r_mtype s |}
  else if st =? R_PROC then
    let '(n, c) := rd s R_CFLAVOR in
    {| r_state := n; r_cur_len := c; r_data_len := r_data_len s; r_xid := r_xid s;
       r_prog := r_prog s; r_progvers := r_progvers s; r_proc := acc (r_proc s) b; r_mtype := r_mtype s |}
  else if st =? R_CFLAVOR then let '(n, c) := rd s R_CLEN in upd s n c (r_data_len s)
  else if st =? R_CLEN then
    let '(n, c) := rd s R_CREDS in
    let dl := acc (r_data_len s) b in
    if (n =? R_CREDS) && (dl =? 0) then upd s R_VFLAVOR c dl else upd s n c dl
  else if st =? R_CREDS then
    (* read_string: data_len -= 1 (entered with data_len >= 1) *)
    let dl := r_data_len s - 1 in
    if dl =? 0 then upd s R_VFLAVOR (r_cur_len s) dl else upd s st (r_cur_len s) dl
  else if st =? R_VFLAVOR then let '(n, c) := rd s R_VLEN in upd s n c (r_data_len s)
  else if st =? R_VLEN then
    let '(n, c) := rd s R_VERIF in
    let dl := acc (r_data_len s) b in
    (* `matches!(state, Verif) && cur_len == 0`: cur_len is always 0 here *)
    if (n =? R_VERIF) && (c =? 0) then upd s R_END c dl else upd s n c dl
  else if st =? R_VERIF then
    let dl := r_data_len s - 1 in
    if dl =? 0 then upd s R_END (r_cur_len s) dl else upd s st (r_cur_len s) dl
  else s.

Definition rpc_parse (s : rpc_st) (data : bytes) : rpc_st := fold_left rpc_byte data s.

Definition xdr_string (sv : bytes) : bytes :=
  let len := lenN sv in
  be32 len ++ sv ++ (if len mod 4 =? 0 then [] else zeros (N.to_nat (4 - len mod 4))).

Definition uaddr (ip : ipaddr) (port : N) : bytes :=
  render_ip ip ++ [DOT] ++ dec_digits (port / 256) ++ [DOT] ++ dec_digits (port mod 256).

Definition STR_TCP : bytes := [116; 99; 112].
Definition STR_TCP6 : bytes := [116; 99; 112; 54].
Definition STR_SUPERUSER : bytes := [115; 117; 112; 101; 114; 117; 115; 101; 114].

Definition rpc_dump_entry (s : rpc_st) (ip : ipaddr) (port : N) (vers : N) : bytes :=
  [0; 0; 0; 1] ++ be32 100000 ++ be32 vers ++
  (if r_progvers s =? 2 then be32 6 ++ be32 port
   else xdr_string (if ip_is_v4 ip then STR_TCP else STR_TCP6) ++
        xdr_string (uaddr ip port) ++ xdr_string STR_SUPERUSER).

Definition rpc_portmap (s : rpc_st) (ip : ipaddr) (port : N) : bytes :=
  if r_proc s =? 3 then
    [0; 0; 0; 0] ++ (if r_progvers s =? 2 then be32 port else xdr_string (uaddr ip port))
  else if r_proc s =? 4 then
    [0; 0; 0; 0] ++ rpc_dump_entry s ip port 2 ++ rpc_dump_entry s ip port 3 ++
    rpc_dump_entry s ip port 4 ++ [0; 0; 0; 0]
  else [0; 0; 0; 3].

Definition rpc_build (s : rpc_st) (ip : ipaddr) (port : N) : bytes :=
  be32 (r_xid s) ++ [0; 0; 0; 1; 0; 0; 0; 0; 0; 0; 0; 0; 0; 0; 0; 0] ++
  (if (r_progvers s <? 2) || (4 <? r_progvers s) then [0; 0; 0; 2; 0; 0; 0; 2; 0; 0; 0; 4]
   else if r_proc s =? 0 then [0; 0; 0; 0]
   else if r_prog s =? 100000 then rpc_portmap s ip port
   else [0; 0; 0; 1]).

(* a complete message is answered iff it is a CALL; over TCP the parser then starts afresh,
   so that what follows on the flow is parsed as a new message *)
Definition rpc_repl_tcp (s : rpc_st) (ip : ipaddr) (port : N) (data : bytes) : rpc_st * option bytes :=
  let s' := rpc_parse s data in
  if r_state s' =? R_END then
    if r_mtype s' =? 0 then
      let r := rpc_build s' ip port in
      let len := lenN r in
      (rpc_new R_FRAG,
       Some ([128 + (len / 16777216) mod 256; (len / 65536) mod 256; (len / 256) mod 256; len mod 256] ++ r))
    else (rpc_new R_FRAG, None)
  else (s', None).

Definition rpc_repl_udp (ip : ipaddr) (port : N) (data : bytes) : option bytes :=
  let s' := rpc_parse (rpc_new R_XID) data in
  if (r_state s' =? R_END) && (r_mtype s' =? 0) then Some (rpc_build s' ip port) else None.
