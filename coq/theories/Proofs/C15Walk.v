(* C15Walk.v -- the responder's attribute walker (Stun.v [stun_attrs]) against the reference
   walk of Spec/RefStun.v, on ARBITRARY bytes: the responder accepts exactly the regions whose
   reference walk ends [TlvDone] or in one of the tolerated malformations (stray bytes /
   a bare header in the last four bytes, missing final padding), and the change-port flag it
   computes is the reference one over the attributes read. *)
From MS Require Import Proofs.Tactics Stun Spec.RefStun Proofs.C15Ref.

(* the malformations of the attribute region that the implementation does not notice *)
Definition tlv_tolerated (s : tlv_status) : bool :=
  match s with
  | TlvDone | TlvStray | TlvHeaderOnly | TlvUnpadded => true
  | TlvOverrun | TlvBadValue => false
  end.

Definition answer_of (chg : bool) (w : list attr * tlv_status) : option bool :=
  if tlv_tolerated (snd w) then Some (chg || existsb attr_change_port (fst w)) else None.

Lemma stun_attrs_nil (fuel : nat) (chg : bool) : stun_attrs fuel [] chg = Some chg.
Proof. destruct fuel; reflexivity. Qed.

Lemma stun_attrs_S (fuel : nat) (v : bytes) (chg : bool) :
  stun_attrs (S fuel) v chg =
    if (length v <=? 4)%nat then Some chg
    else
      let ty := u16_at 0 v in
      let len := u16_at 2 v in
      if lenN v <? 4 + len then None
      else
        let next := skipn (4 + N.to_nat (pad4 len)) v in
        if ty =? 1 then
          if len <? 4 then None
          else
            let fam := u8_at 5 v in
            if fam =? 1 then (if len <? 8 then None else stun_attrs fuel next chg)
            else if fam =? 2 then (if len <? 20 then None else stun_attrs fuel next chg)
            else None
        else if ty =? 3 then
          if len <? 4 then None
          else stun_attrs fuel next (chg || testbit (u32_at 4 v) 2)
        else stun_attrs fuel next chg.
Proof. reflexivity. Qed.

Lemma pad4_pad4n (len : N) : N.to_nat (pad4 len) = pad4n (N.to_nat len).
Proof. unfold pad4, pad4n. lia. Qed.

Lemma land_2_mod4' (x : N) : N.land x 2 = N.land (x mod 4) 2.
Proof.
  change 2 with (N.land 3 2) at 1. rewrite N.land_assoc.
  change 3 with (N.ones 2). rewrite N.land_ones. reflexivity.
Qed.
Lemma testbit_low' (k b : N) : testbit (k * 256 + b) 2 = testbit b 2.
Proof.
  unfold testbit. rewrite (land_2_mod4' (k * 256 + b)), (land_2_mod4' b).
  replace ((k * 256 + b) mod 4) with (b mod 4) by lia. reflexivity.
Qed.
Lemma testbit_flags (v : bytes) : testbit (u32_at 4 v) 2 = testbit (u8_at 7 v) 2.
Proof.
  unfold u32_at, u16_at.
  replace ((u8_at 4 v * 256 + u8_at 5 v) * 65536 + (u8_at 6 v * 256 + u8_at 7 v))
    with (((u8_at 4 v * 256 + u8_at 5 v) * 256 + u8_at 6 v) * 256 + u8_at 7 v) by lia.
  apply testbit_low'.
Qed.

Theorem walkers_agree (fuel : nat) : forall (v : bytes) (chg : bool),
  (length v <= fuel)%nat -> stun_attrs fuel v chg = answer_of chg (walk_attrs fuel v).
Proof.
  induction fuel as [|fuel IH]; intros v chg Hf.
  { destruct v; [|cbn [length] in Hf; lia]. cbn. rewrite orb_false_r. reflexivity. }
  destruct v as [|x0 v0].
  { rewrite stun_attrs_nil, walk_nil. unfold answer_of. cbn. rewrite orb_false_r. reflexivity. }
  set (v := x0 :: v0) in *. assert (v <> []) as Hne by discriminate.
  rewrite stun_attrs_S, (walk_unfold fuel v Hne). cbv zeta.
  set (len := u16_at 2 v). set (l := N.to_nat len). set (body := skipn 4 v).
  set (t := u16_at 0 v). set (val := firstn l body).
  assert (length body = (length v - 4)%nat) as Hbody by apply skipn_length.
  rewrite pad4_pad4n. fold l.
  destruct (length v <=? 4)%nat eqn:H4.
  { (* at most four bytes left: the responder stops without looking at them *)
    destruct (length v <? 4)%nat eqn:H3.
    { unfold answer_of. cbn. rewrite orb_false_r. reflexivity. }
    assert ((length v =? 4)%nat = true) as E4 by lia. rewrite E4.
    assert (body = []) as Eb by (apply length_zero_iff_nil; lia).
    destruct (length body <? l)%nat eqn:Hov.
    { unfold answer_of. cbn. rewrite orb_false_r. reflexivity. }
    assert (l = 0%nat) as El by (rewrite Eb in Hov; cbn [length] in Hov; lia).
    assert (val = []) as Ev by (unfold val; rewrite El; reflexivity).
    rewrite Ev. destruct (attr_value_ok t []) eqn:Hvo; cbn [negb].
    2: { unfold answer_of. cbn. rewrite orb_false_r. reflexivity. }
    rewrite El. change (pad4n 0) with 0%nat. rewrite Eb. cbn [length Nat.ltb Nat.leb skipn].
    rewrite walk_nil. unfold answer_of. cbn [snd fst tlv_tolerated existsb].
    unfold attr_change_port. cbn [fst snd length]. change (4 <=? 0)%nat with false.
    rewrite andb_false_r. cbn [andb orb]. rewrite orb_false_r. reflexivity. }
  assert ((length v <? 4)%nat = false) as -> by lia.
  assert ((length v =? 4)%nat = false) as -> by lia.
  assert ((lenN v <? 4 + len) = (length body <? l)%nat) as ->.
  { unfold lenN, l. rewrite Hbody. lia. }
  destruct (length body <? l)%nat eqn:Hov.
  { reflexivity. }
  assert (length val = l) as Hval by (unfold val; apply firstn_length_le; lia).
  set (next := skipn (4 + pad4n l) v).
  pose proof (pad4n_bounds l) as [Hpb _].
  (* what happens after an attribute (t, val) that both sides accept *)
  assert (forall c,
    stun_attrs fuel next c =
    answer_of c (if (length body <? pad4n l)%nat then ([], TlvDone)
                 else walk_attrs fuel (skipn (pad4n l) body))) as Hnext.
  { intros c. destruct (length body <? pad4n l)%nat eqn:Hpad.
    - assert (next = []) as -> by (apply length_zero_iff_nil; unfold next; rewrite skipn_length; lia).
      rewrite stun_attrs_nil. unfold answer_of. cbn. rewrite orb_false_r. reflexivity.
    - assert (skipn (pad4n l) body = next) as ->.
      { unfold body, next. rewrite skipn_skipn'. reflexivity. }
      apply IH. unfold next. rewrite skipn_length. cbn [length] in Hf. lia. }
  assert (
    answer_of chg (if (length body <? pad4n l)%nat then ([(t, val)], TlvUnpadded)
                   else let '(rest, st) := walk_attrs fuel (skipn (pad4n l) body) in ((t, val) :: rest, st)) =
    stun_attrs fuel next (chg || attr_change_port (t, val))) as Hcont.
  { rewrite Hnext. destruct (length body <? pad4n l)%nat.
    - unfold answer_of. cbn [snd fst tlv_tolerated existsb]. rewrite orb_assoc. reflexivity.
    - destruct (walk_attrs fuel (skipn (pad4n l) body)) as [rest st]. unfold answer_of.
      cbn [snd fst existsb]. rewrite orb_assoc. reflexivity. }
  assert (nth 1 val 0 = u8_at 5 v /\ nth 3 val 0 = u8_at 7 v \/ (l < 4)%nat) as Hnth.
  { destruct (Nat.lt_ge_cases l 4) as [Hl4|Hl4]; [right; exact Hl4|left].
    unfold val, body, u8_at. rewrite !nth_firstn_lt' by lia. rewrite !nth_skipn_add'. split; reflexivity. }
  unfold attr_value_ok. fold t.
  destruct (t =? 1) eqn:T1.
  { (* MAPPED-ADDRESS *)
    change (t =? ATTR_MAPPED_ADDRESS) with (t =? 1). rewrite T1.
    assert (attr_change_port (t, val) = false) as Hacp.
    { unfold attr_change_port. cbn [fst]. apply N.eqb_eq in T1. rewrite T1. reflexivity. }
    rewrite Hacp, orb_false_r in Hcont.
    unfold mapped_value_ok. rewrite Hval. change FAMILY_IPV4 with 1. change FAMILY_IPV6 with 2.
    destruct (len <? 4) eqn:Hl4.
    { assert ((8 <=? l)%nat = false) as -> by (unfold l; lia).
      assert ((20 <=? l)%nat = false) as -> by (unfold l; lia).
      rewrite !andb_false_r. reflexivity. }
    destruct Hnth as [[Hfam _]|Hbad]; [|unfold l in Hbad; lia]. rewrite Hfam.
    assert ((len <? 8) = negb (8 <=? l)%nat) as -> by (unfold l; lia).
    assert ((len <? 20) = negb (20 <=? l)%nat) as -> by (unfold l; lia).
    destruct (u8_at 5 v =? 1) eqn:F1.
    { assert ((u8_at 5 v =? 2) = false) as -> by lia. rewrite andb_false_l, orb_false_r. cbn [andb].
      destruct (8 <=? l)%nat; cbn [negb]; [exact (eq_sym Hcont)|reflexivity]. }
    cbn [andb orb].
    destruct (u8_at 5 v =? 2); cbn [andb]; [|reflexivity].
    destruct (20 <=? l)%nat; cbn [negb]; [exact (eq_sym Hcont)|reflexivity]. }
  change (t =? ATTR_MAPPED_ADDRESS) with (t =? 1). rewrite T1.
  change (t =? ATTR_CHANGE_REQUEST) with (t =? 3).
  destruct (t =? 3) eqn:T3.
  { (* CHANGE-REQUEST *)
    unfold change_value_ok. rewrite Hval.
    destruct (len <? 4) eqn:Hl4.
    { assert ((4 <=? l)%nat = false) as -> by (unfold l; lia). reflexivity. }
    assert ((4 <=? l)%nat = true) as Hl4' by (unfold l; lia). rewrite Hl4'. cbn [negb].
    destruct Hnth as [[_ Hflag]|Hbad]; [|lia].
    assert (attr_change_port (t, val) = testbit (u32_at 4 v) 2) as Hacp.
    { unfold attr_change_port. cbn [fst snd]. change (t =? ATTR_CHANGE_REQUEST) with (t =? 3).
      rewrite T3, Hval, Hl4', Hflag, testbit_flags. reflexivity. }
    rewrite Hacp in Hcont. exact (eq_sym Hcont). }
  (* any other type: opaque value *)
  cbn [negb].
  assert (attr_change_port (t, val) = false) as Hacp.
  { unfold attr_change_port. cbn [fst]. change (t =? ATTR_CHANGE_REQUEST) with (t =? 3). rewrite T3. reflexivity. }
  rewrite Hacp, orb_false_r in Hcont. exact (eq_sym Hcont).
Qed.
