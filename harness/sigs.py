"""The published signature set of masscanned's protocol identification, written by hand from the
documentation and the property text (independent of the Coq reference Spec/RefSig.v and of the
compiled matcher). None in a pattern = any byte. Used by the C10 / C14 / C15 / C17 oracles."""

HTTP, STUN, SSH, GHOST, RPC_TCP, RPC_UDP, SMB1, SMB2 = 1, 2, 3, 4, 5, 6, 7, 8


def _ids_of_the_source():
    """the numbers src/proto/mod.rs gives the protocols (internal, free to change), as gen_srcconsts.py read them from the
    source text for this run; the published numbering above when the generated file is not there yet"""
    import os, re
    path = os.path.join(os.path.dirname(os.path.dirname(os.path.abspath(__file__))), "coq", "gen", "SrcConsts.v")
    try:
        txt = open(path).read()
    except OSError:
        return None
    ids = {m.group(1): int(m.group(2)) for m in re.finditer(r"proto_mod__PROTO_([A-Z0-9_]+) : N := (\d+)\.", txt)}
    names = ["HTTP", "STUN", "SSH", "GHOST", "RPC_TCP", "RPC_UDP", "SMB1", "SMB2"]
    return [ids[n] for n in names] if all(n in ids for n in names) else None


if _ids_of_the_source():
    HTTP, STUN, SSH, GHOST, RPC_TCP, RPC_UDP, SMB1, SMB2 = _ids_of_the_source()
NAMES = {None: "none", HTTP: "http", STUN: "stun", SSH: "ssh", GHOST: "ghost", RPC_TCP: "rpc-tcp", RPC_UDP: "rpc-udp",
         SMB1: "smb1", SMB2: "smb2"}
VERBS = [b"GET", b"PUT", b"POST", b"HEAD", b"DELETE", b"CONNECT", b"OPTIONS", b"TRACE", b"PATCH"]


def _pat(s):
    """'00 01 * * 21' -> [0, 1, None, None, 0x21]"""
    return [None if t == "*" else int(t, 16) for t in s.split()]


def _lit(b):
    return list(b)


# (pattern, id, end-anchored)
SIGNATURES = [(_lit(v + b" /"), HTTP, False) for v in VERBS] + [
    (_pat("00 01 * * 21 12 a4 42"), STUN, False),
    (_pat("00 01 00 00" + " *" * 16), STUN, True),
    (_pat("00 01 00 08" + " *" * 16 + " 00 03 00 04 00 00 00 *"), STUN, True),
    (_lit(b"SSH-2.0"), SSH, False),
    (_lit(b"SSH-1.99"), SSH, False),
    (_lit(b"Gh0st"), GHOST, False),
    (_pat("* * * * * * * * 00 00 00 00 00 00 00 * 00 01 86 * * * * * 00 00 00 *"), RPC_TCP, False),
    (_pat("* * * * 00 00 00 00 00 00 00 * 00 01 86 * * * * * 00 00 00 *"), RPC_UDP, False),
    (_pat("00 00 * * ff 53 4d 42"), SMB1, False),
    (_pat("00 00 * * fe 53 4d 42"), SMB2, False),
]


def _matches(pat, p):
    return len(p) >= len(pat) and all(x is None or x == b for x, b in zip(pat, p))


def ref_id(p, end=True):
    """The first signature completed while reading p left to right (shortest completed prefix; registration order on a
    tie); end-anchored signatures complete only when the payload ends exactly there (end=True: datagram)."""
    best = None
    for pat, pid, anchored in SIGNATURES:
        if anchored:
            continue
        if _matches(pat, p) and (best is None or len(pat) < best[0]):
            best = (len(pat), pid)
    if best is not None:
        return best[1]
    if end:
        for pat, pid, anchored in SIGNATURES:
            if anchored and len(p) == len(pat) and _matches(pat, p):
                return pid
    return None


def ref_udp(p):
    return ref_id(p, True)


def ref_tcp(p):
    return ref_id(p, False)


def live_prefix(p):
    """True if p is a proper prefix of some string completing a non-end-anchored signature (identification over TCP is
    still undecided after p)."""
    for pat, pid, anchored in SIGNATURES:
        if not anchored and len(p) < len(pat) and all(x is None or x == b for x, b in zip(pat, p)):
            return True
    return False
