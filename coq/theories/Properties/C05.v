(* Properties/C05.v -- ARP requests, ICMP/ICMPv6 echo requests and neighbour
   solicitations for a handled address are answered, correctly, and nothing else
   at these layers is. This file only pins the statement; the proof is in
   Proofs/C05.v. *)
From MS Require Import L2 Spec.View Spec.RefDec Spec.C05 Proofs.C05 Proofs.C05Cor.

(* For every configuration, table and frame: what is emitted satisfies the C05
   monitor. On a frame accepted at layer 2: an ARP request (operation 1) for a
   handled IPv4 address gets an ARP reply (operation 2, hardware type 1, sender =
   configured MAC / requested address, target = the requester), any other ARP
   packet gets silence; an ICMPv4 echo request (type 8, code 0) gets an echo reply
   with the same identifier, sequence number and data; an ICMPv6 echo request
   (128/0) to a handled address gets the echo reply 129/0 with the same body; a
   neighbour solicitation (135/0, at least 24 bytes) for a handled target gets the
   advertisement 136/0 with flags Solicited|Override, the solicited target and
   exactly one option (target link-layer address = configured MAC); every other
   ICMP / ICMPv6 packet gets silence. *)
Theorem C05_l2l3_services :
  forall E cfg clk tb f tb' r evs,
    cfg_ok cfg = true -> bytes_ok f = true ->
    reply E cfg clk tb f = Ok (tb', r, evs) ->
    ok_C05 cfg f r = true.
Proof. exact l2l3_services. Qed.

Print Assumptions C05_l2l3_services.

(* The negative clauses as plain implications (no monitor in the statement).
   Common premises: the frame is at least 14 octets long and addressed to a MAC
   the responder accepts. *)

(* An ARP packet whose operation is not 1 (request), or whose target protocol
   address is not handled, gets nothing. *)
Theorem C05_arp_other_silent :
  forall E cfg clk tb tb' f r evs,
    cfg_ok cfg = true -> bytes_ok f = true ->
    reply E cfg clk tb f = Ok (tb', r, evs) ->
    (length f <? 14)%nat = false -> ref_auth cfg (firstn 6 f) = true ->
    forall q, u16_at 12 f = 2054 -> dec_arp (skipn 14 f) = Some q ->
    (da_op q =? 1) && handled cfg (V4 (da_tpa q)) = false -> r = None.
Proof. exact arp_silence. Qed.
Print Assumptions C05_arp_other_silent.

(* An ARP packet too short to decode gets nothing. *)
Theorem C05_arp_short_silent :
  forall E cfg clk tb tb' f r evs,
    cfg_ok cfg = true -> bytes_ok f = true ->
    reply E cfg clk tb f = Ok (tb', r, evs) ->
    (length f <? 14)%nat = false -> ref_auth cfg (firstn 6 f) = true ->
    u16_at 12 f = 2054 -> dec_arp (skipn 14 f) = None -> r = None.
Proof. exact arp_short_silence. Qed.
Print Assumptions C05_arp_short_silent.

(* An ICMPv4 message other than (type 8, code 0) gets nothing. *)
Theorem C05_icmp4_other_silent :
  forall E cfg clk tb tb' f r evs,
    cfg_ok cfg = true -> bytes_ok f = true ->
    reply E cfg clk tb f = Ok (tb', r, evs) ->
    (length f <? 14)%nat = false -> ref_auth cfg (firstn 6 f) = true ->
    forall v, u16_at 12 f <> 2054 -> view cfg f = Some v -> v_v4 v = true -> v_proto v = 1 ->
    (4 <=? length (v_l4 v))%nat = true ->
    (u8_at 0 (v_l4 v) =? 8) && (u8_at 1 (v_l4 v) =? 0) = false -> r = None.
Proof. exact icmp4_other_silence. Qed.
Print Assumptions C05_icmp4_other_silent.

(* An ICMPv6 message with a non-zero code gets nothing, whatever its type. *)
Theorem C05_icmp6_code_silent :
  forall E cfg clk tb tb' f r evs,
    cfg_ok cfg = true -> bytes_ok f = true ->
    reply E cfg clk tb f = Ok (tb', r, evs) ->
    (length f <? 14)%nat = false -> ref_auth cfg (firstn 6 f) = true ->
    forall v, u16_at 12 f <> 2054 -> view cfg f = Some v -> v_v4 v = false -> v_proto v = 58 ->
    u8_at 1 (v_l4 v) <> 0 -> r = None.
Proof. exact icmp6_code_silence. Qed.
Print Assumptions C05_icmp6_code_silent.

(* An ICMPv6 message whose type is neither 128 (echo request) nor 135
   (neighbour solicitation) gets nothing. *)
Theorem C05_icmp6_other_type_silent :
  forall E cfg clk tb tb' f r evs,
    cfg_ok cfg = true -> bytes_ok f = true ->
    reply E cfg clk tb f = Ok (tb', r, evs) ->
    (length f <? 14)%nat = false -> ref_auth cfg (firstn 6 f) = true ->
    forall v, u16_at 12 f <> 2054 -> view cfg f = Some v -> v_v4 v = false -> v_proto v = 58 ->
    u8_at 0 (v_l4 v) <> 128 -> u8_at 0 (v_l4 v) <> 135 -> r = None.
Proof. exact icmp6_other_type_silence. Qed.
Print Assumptions C05_icmp6_other_type_silent.
