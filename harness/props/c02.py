"""C02 -- silence outside scope; replies only from configured identities."""
import struct
import net, gens
from runner import Script, Cfg

ID = "C02"
THEOREMS = ["C02_scope_and_identity", "C02_out_of_scope_is_inert", "C02_arp_reply_identity", "C02_ip_reply_identity",
            "C02_na_reply_identity"]
MONITORS = ["C02"]
RULE = ("destination-MAC grid around every authorised pattern (each single-bit flip), self-IP sets of size 0-3 of both "
        "families with member / non-member destinations, denied and non-denied sources, all 65536 EtherTypes and all "
        "256 next-protocol values (thorough: exhaustively; quick: all 256 protocols, EtherTypes on a grid + neighbours "
        "of the three supported ones), ICMPv6 echo / NS to listed and unlisted addresses; non-trivial = frame of at "
        "least 14 bytes")
TRUSTED = ["Coq 8.16.1 kernel + vm_compute", "extraction (ExtrOcamlBasic) + ocaml/model_run.ml", "harness/*.py",
           "Rust hook verif_driver.rs", "pnet accessor semantics as modelled"]
ASSUMPTIONS = []


def corpus():
    # witness of the ICMPv6 echo bypass (fixed): echo request to an unlisted address
    cfg = Cfg(self_ips=[gens.SELF4, gens.SELF6])
    yield Script(cfg, [gens.echo6(gens.PEER6, "ff02::1", mac_dst=bytes.fromhex("333300000001")),
                       gens.echo6(gens.PEER6, gens.OTHER6)], "corpus:icmpv6-echo-to-unlisted-address")


def mac_grid(cfg):
    base = [cfg.mac, b"\xff" * 6, bytes.fromhex("333300000001"), bytes.fromhex("01005e000001"), bytes.fromhex("3333ff000001")]
    for a in (cfg.self_ips or []):
        b = net.ip_bytes(a)
        if len(b) == 4:
            base.append(bytes([1, 0, 0x5e, b[1] & 0x7f, b[2], b[3]]))
            base.append(bytes([1, 0, 0x5e, b[1] | 0x80, b[2], b[3]]))
            base.append(bytes([1, 0, 0x5e, b[1] & 0x3f, b[2], b[3]]))
            base.append(bytes([1, 0, 0x5e, b[1], b[2], b[3]]))
        else:
            base.append(b"\x33\x33\xff" + b[13:])
    out = []
    for m in base:
        out.append(m)
        for bit in range(48):
            x = bytearray(m)
            x[bit // 8] ^= 1 << (bit % 8)
            out.append(bytes(x))
    return out


def generate(tier, rng):
    hi = [Cfg(self_ips=["10.64.1.2", "172.255.200.100", "2001:db8::ff:fe80:c0de"]),
          Cfg(self_ips=["10.192.255.254", "9.127.128.129"]), Cfg(self_ips=["224.129.130.131", "fe80::ffff:ffff:ffff:ff01"])]
    for cfg in gens.cfgs(key=(3, 4)) + [Cfg(self_ips=["10.0.0.1"]), Cfg(self_ips=["2001:db8::1"]), Cfg(self_ips=[])] + hi:
        # MAC grid with an ARP request, an echo and a SYN behind it
        fr = []
        own4 = next((a for a in (cfg.self_ips or []) if len(net.ip_bytes(a)) == 4), gens.SELF4)
        own6 = next((a for a in (cfg.self_ips or []) if len(net.ip_bytes(a)) == 16), gens.SELF6)
        for m in mac_grid(cfg):
            fr.append(gens.arp_req(own4, mac_dst=m))
            fr.append(gens.echo4(gens.PEER4, own4, mac_dst=m))
            fr.append(net.frame_tcp(gens.PEER6, own6, 1, 2, 3, 4, 2, mac_dst=m))
        yield Script(cfg, fr, "mac-grid")
        # addresses: member / non-member destinations, denied / allowed sources, every reply kind
        fr = []
        for src4, src6 in [(gens.PEER4, gens.PEER6), (gens.DENY4, gens.DENY6)]:
            for dst4, dst6 in [(gens.SELF4, gens.SELF6), (gens.OTHER4, gens.OTHER6), ("10.0.0.2", "ff02::1")]:
                fr += [gens.arp_req(dst4, spa=src4), gens.echo4(src4, dst4), gens.echo6(src6, dst6),
                       gens.ns6(src6, dst6), gens.ns6(src6, gens.SELF6, dst=dst6, mac_dst=net.MAC_SELF),
                       net.frame_tcp(src4, dst4, 5, 80, 1, 0, 2), net.frame_tcp(src6, dst6, 5, 80, 1, 0, 2),
                       net.frame_udp(src4, dst4, 5, 53, gens.dns_query()), net.frame_udp(src6, dst6, 5, 22, b"SSH-2.0-x\r\n")]
        # the IPv4-mapped IPv6 spelling of listed and denied IPv4 addresses is a DIFFERENT address
        for a4 in [a for a in (cfg.self_ips or [gens.SELF4]) if len(net.ip_bytes(a)) == 4][:2] + [gens.DENY4]:
            m6 = bytes(10) + b"\xff\xff" + net.ip_bytes(a4)
            for dstm, srcm in ((m6, net.ip_bytes(gens.PEER6)), (net.ip_bytes(own6), m6)):
                fr += [net.frame_tcp(srcm, dstm, 5, 80, 1, 0, 2), net.frame_udp(srcm, dstm, 5, 3478, gens.stun_req()),
                       gens.echo6(srcm, dstm)]
        # 802.1Q / 802.1ad tagged frames: the EtherType is not one of the three that are handled
        for tag_ety in (0x8100, 0x88a8, 0x9100):
            for inner in (gens.arp_req(own4), gens.echo4(gens.PEER4, own4), net.frame_tcp(gens.PEER4, own4, 5, 80, 1, 0, 2),
                          gens.echo6(gens.PEER6, own6)):
                fr.append(inner[:12] + struct.pack("!HH", tag_ety, 0x0064) + inner[12:])
        yield Script(cfg, fr, "address-scope")
        # every application responder (a handler may rewrite the client information the lower layers answer from)
        fr = []
        for i, (name, p, t, u) in enumerate(gens.app_seeds()):
            for v6 in (False, True):
                s_, d_ = gens.addr_pair(v6)
                if u:
                    fr.append(net.frame_udp(s_, d_, 6000 + i, 3478, p))
                if t:
                    fr += gens.handshake(cfg.key, s_, d_, 6000 + i, 80, [p])
        yield Script(cfg, fr, "application-replies")
        # protocols
        fr = []
        for proto in range(256):
            fr.append(net.eth(cfg.mac, net.MAC_PEER, 0x0800, net.ipv4(gens.PEER4, gens.SELF4, proto, net.icmp4(8, 0, b"abcdabcdabcdabcdabcd"))))
            fr.append(net.eth(cfg.mac, net.MAC_PEER, 0x86DD, net.ipv6(gens.PEER6, gens.SELF6, proto, net.icmp6(gens.PEER6, gens.SELF6, 128, 0, b"abcdabcdabcdabcdabcd"))))
        yield Script(cfg, fr, "next-protocols")
    yield Script(Cfg(self_ips=[gens.SELF4, gens.SELF6], deny=[gens.DENY4, gens.DENY6]), gens.hostile_requests(rng), "hostile-requests")
    cfg = Cfg()
    etys = range(65536) if tier == "thorough" else sorted(set(list(range(0, 65536, 97)) + [0x0800, 0x0806, 0x86dd, 0x0801, 0x0807, 0x86dc, 0x86de, 0x8100, 0x0805, 0x07ff]))
    body = net.ipv4(gens.PEER4, gens.SELF4, 1, net.icmp4(8, 0, b"abcdabcd")) + b"\0" * 20
    yield Script(cfg, [net.eth(cfg.mac, net.MAC_PEER, e, body) for e in etys], "ethertypes")


def nontrivial(script):
    return any(len(f) >= 14 for f in script.frames)


def project(script, i, o):
    """Reply present?  plus the addresses the reply speaks for."""
    if o.kind != "R":
        return (o.kind,)
    p = net.parse_frame(o.reply)
    if p is None:
        return ("R", "unparseable")
    if p.ety == 0x0806:
        return ("R", "arp", p.arp[14:18])
    if p.ipver is None:
        return ("R", "other")
    adv = p.l4[8:24] if (p.proto == 58 and len(p.l4) >= 24 and p.l4[0] == 136) else None
    return ("R", p.ipver, p.ip_src, adv)
