(* Properties/C02.v -- silence outside scope; replies only from configured
   identities. This file only pins statements; the proofs are in Proofs/C02.v. *)
From MS Require Import L2 Spec.View Spec.RefDec Spec.C02 Proofs.C02.

(* For every configuration, table and frame: what is emitted satisfies the C02
   monitor. A frame whose destination MAC is not one of the authorised addresses
   (configured MAC, broadcast, all-nodes, the multicast MACs of the self
   addresses), or whose IP source is on the deny list, or which carries something
   the stack does not speak (EtherType other than ARP/IPv4/IPv6, IP protocol other
   than ICMP/TCP/UDP resp. ICMPv6/TCP/UDP) gets no reply; and when a self-IP list
   is configured, the source address of every reply (ARP sender protocol address,
   IP source, advertised neighbour-discovery target) is on that list. *)
Theorem C02_scope_and_identity :
  forall E cfg clk tb f tb' r evs,
    cfg_ok cfg = true -> bytes_ok f = true ->
    reply E cfg clk tb f = Ok (tb', r, evs) ->
    ok_C02 cfg f r = true.
Proof. exact scope_and_identity. Qed.

(* Such frames also leave the connection table untouched. *)
Theorem C02_out_of_scope_is_inert :
  forall E cfg clk tb f tb' r evs,
    (14 <= length f)%nat ->
    ref_auth cfg (firstn 6 f) = false \/ denied_source cfg f = true \/ unsupported f = true ->
    reply E cfg clk tb f = Ok (tb', r, evs) ->
    tb' = tb /\ r = None.
Proof. exact out_of_scope_is_inert. Qed.

Print Assumptions C02_scope_and_identity.
Print Assumptions C02_out_of_scope_is_inert.
