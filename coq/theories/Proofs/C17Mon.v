(* C17Mon.v -- C17 at the level of the payload monitors and of proto::repl: the
   classification of Spec/C17.v is sound (a classified payload IS the encoding of the
   structured request, plus trailing bytes), the responder's output satisfies the verdict
   [req_ok] for every classified request, and an identified datagram / first segment
   satisfies the monitor. *)
From MS Require Import Proofs.Tactics Proofs.Pending Smb Proto Proofs.SmbSafe Proofs.SmbLen Proofs.SmbBytes Spec.RefSmb Spec.C17
  Spec.AppView Proofs.C17Lib Proofs.C17Fields Proofs.C17Smb1 Proofs.C17Smb2.
Open Scope N_scope.

Lemma is_prefix_app a : forall l, is_prefix a l = true -> exists t, l = a ++ t.
Proof.
  induction a as [|x a IH]; intros l H; [exists l; reflexivity|].
  destruct l as [|y l]; cbn [is_prefix] in H; [discriminate|].
  apply andb_true_iff in H. destruct H as [Hx H]. apply N.eqb_eq in Hx. subst y.
  destruct (IH l H) as [t ->]. exists t. reflexivity.
Qed.

Lemma rd_nbt_shape p len rest : rd_nbt p = Some (len, rest) -> exists t f a b, p = [t; f; a; b] ++ rest.
Proof.
  unfold rd_nbt. destruct p as [|t [|f [|a [|b r]]]]; try discriminate.
  destruct ((t =? 0) && (f <? 2)); [|discriminate]. intros H. injection H as _ <-. exists t, f, a, b. reflexivity.
Qed.

Definition rq_shape (rest : bytes) (rq : smb_req) : Prop :=
  match rq with
  | RqNeg1 h ds =>
    smb1_hdr_wf h = true /\ smb1_is_request h = true /\ sh1_command h = SMB_COM_NEGOTIATE /\
    neg1_req_wf ds = true /\ exists tail, rest = ser_smb1_hdr h ++ ser_neg1_req ds ++ tail
  | RqSetup1 h q =>
    smb1_hdr_wf h = true /\ smb1_is_request h = true /\ sh1_command h = SMB_COM_SESSION_SETUP_ANDX /\
    setup1_req_wf q = true /\ exists tail, rest = ser_smb1_hdr h ++ ser_setup1_req q ++ tail
  | RqOther1 h =>
    smb1_hdr_wf h = true /\
    (smb1_is_request h = false \/
     (sh1_command h <> SMB_COM_NEGOTIATE /\ sh1_command h <> SMB_COM_SESSION_SETUP_ANDX)) /\
    exists body, rest = ser_smb1_hdr h ++ body
  | RqNeg2 h q =>
    smb2_hdr_wf h = true /\ smb2_is_request h = true /\ sh2_command h = SMB2_NEGOTIATE /\
    neg2_req_wf q = true /\ exists tail, rest = ser_smb2_hdr h ++ ser_neg2_req q ++ tail
  | RqSetup2 h q =>
    smb2_hdr_wf h = true /\ smb2_is_request h = true /\ sh2_command h = SMB2_SESSION_SETUP /\
    setup2_req_wf q = true /\ exists tail, rest = ser_smb2_hdr h ++ ser_setup2_req q ++ tail
  | RqOther2 h =>
    smb2_hdr_wf h = true /\
    (smb2_is_request h = false \/
     (sh2_command h <> SMB2_NEGOTIATE /\ sh2_command h <> SMB2_SESSION_SETUP)) /\
    exists body, rest = ser_smb2_hdr h ++ body
  end.

Ltac prefix_tail H :=
  let t := fresh "tail" in apply is_prefix_app in H; destruct H as [t H]; rewrite <- ?app_assoc in H.

Lemma classify_sound p rq : classify p = Some rq ->
  exists t f a b rest, p = [t; f; a; b] ++ rest /\ rq_shape rest rq.
Proof.
  unfold classify. intros H.
  destruct (rd_nbt p) as [[len rest]|] eqn:En; [|discriminate].
  destruct (rd_nbt_shape _ _ _ En) as (t & f & a & b & ->).
  exists t, f, a, b, rest. split; [reflexivity|].
  destruct (negb (len <? 65536)); [discriminate|].
  destruct (rd_smb1_hdr rest) as [[h body]|] eqn:E1.
  - destruct (smb1_hdr_wf h && is_prefix (ser_smb1_hdr h) rest) eqn:Ew; [|discriminate]. cbn [negb] in H.
    apply andb_true_iff in Ew. destruct Ew as [Ew Ep].
    destruct (smb1_is_request h) eqn:Er; cbn [negb] in H.
    2:{ injection H as <-. cbn [rq_shape]. split; [exact Ew|]. split; [left; exact Er|].
        apply is_prefix_app in Ep. exact Ep. }
    destruct (sh1_command h =? SMB_COM_NEGOTIATE) eqn:Ec1.
    { apply N.eqb_eq in Ec1.
      destruct (rd_neg1_req body) as [[ds r0]|]; [|discriminate].
      destruct (neg1_req_wf ds && (lenN (ser_smb1_hdr h ++ ser_neg1_req ds) <=? len) &&
                is_prefix (ser_smb1_hdr h ++ ser_neg1_req ds) rest) eqn:Eq; [|discriminate].
      injection H as <-. apply andb_true_iff in Eq. destruct Eq as [Eq Ep2].
      apply andb_true_iff in Eq. destruct Eq as [Eq _].
      prefix_tail Ep2. cbn [rq_shape]. repeat split; try assumption. eauto. }
    destruct (sh1_command h =? SMB_COM_SESSION_SETUP_ANDX) eqn:Ec2.
    { apply N.eqb_eq in Ec2.
      destruct (rd_setup1_req body) as [[q r0]|]; [|discriminate].
      destruct (setup1_req_wf q && (lenN (ser_smb1_hdr h ++ ser_setup1_req q) <=? len) &&
                is_prefix (ser_smb1_hdr h ++ ser_setup1_req q) rest) eqn:Eq; [|discriminate].
      injection H as <-. apply andb_true_iff in Eq. destruct Eq as [Eq Ep2].
      apply andb_true_iff in Eq. destruct Eq as [Eq _].
      prefix_tail Ep2. cbn [rq_shape]. repeat split; try assumption. eauto. }
    injection H as <-. apply N.eqb_neq in Ec1, Ec2. cbn [rq_shape]. split; [exact Ew|].
    split; [right; split; assumption|]. apply is_prefix_app in Ep. exact Ep.
  - destruct (rd_smb2_hdr rest) as [[h body]|] eqn:E2; [|discriminate].
    destruct (smb2_hdr_wf h && is_prefix (ser_smb2_hdr h) rest) eqn:Ew; [|discriminate]. cbn [negb] in H.
    apply andb_true_iff in Ew. destruct Ew as [Ew Ep].
    destruct (smb2_is_request h) eqn:Er; cbn [negb] in H.
    2:{ injection H as <-. cbn [rq_shape]. split; [exact Ew|]. split; [left; exact Er|].
        apply is_prefix_app in Ep. exact Ep. }
    destruct (sh2_command h =? SMB2_NEGOTIATE) eqn:Ec1.
    { apply N.eqb_eq in Ec1.
      destruct (rd_neg2_req body) as [[q r0]|]; [|discriminate].
      destruct (neg2_req_wf q && (lenN (ser_smb2_hdr h ++ ser_neg2_req q) <=? len) &&
                is_prefix (ser_smb2_hdr h ++ ser_neg2_req q) rest) eqn:Eq; [|discriminate].
      injection H as <-. apply andb_true_iff in Eq. destruct Eq as [Eq Ep2].
      apply andb_true_iff in Eq. destruct Eq as [Eq _].
      prefix_tail Ep2. cbn [rq_shape]. repeat split; try assumption. eauto. }
    destruct (sh2_command h =? SMB2_SESSION_SETUP) eqn:Ec2.
    { apply N.eqb_eq in Ec2.
      destruct (rd_setup2_req body) as [[q r0]|]; [|discriminate].
      destruct (setup2_req_wf q && (lenN (ser_smb2_hdr h ++ ser_setup2_req q) <=? len) &&
                is_prefix (ser_smb2_hdr h ++ ser_setup2_req q) rest) eqn:Eq; [|discriminate].
      injection H as <-. apply andb_true_iff in Eq. destruct Eq as [Eq Ep2].
      apply andb_true_iff in Eq. destruct Eq as [Eq _].
      prefix_tail Ep2. cbn [rq_shape]. repeat split; try assumption. eauto. }
    injection H as <-. apply N.eqb_neq in Ec1, Ec2. cbn [rq_shape]. split; [exact Ew|].
    split; [right; split; assumption|]. apply is_prefix_app in Ep. exact Ep.
Qed.

Definition rq_smb1 (rq : smb_req) : bool :=
  match rq with RqNeg1 _ _ | RqSetup1 _ _ | RqOther1 _ => true | _ => false end.
Definition rq_smb2 (rq : smb_req) : bool := negb (rq_smb1 rq).

Theorem smb1_req_ok neg chal ft p rq :
  blob_ok neg chal = true -> classify p = Some rq -> rq_smb1 rq = true ->
  exists o, smb1_repl neg chal ft p = Ok o /\ req_ok rq o = true.
Proof.
  intros Hblob Hc Hk. destruct (classify_sound p rq Hc) as (t & f & a & b & rest & -> & Hs).
  destruct rq as [h ds | h q | h | h q | h q | h]; try discriminate; cbn [rq_shape] in Hs.
  - destruct Hs as (Hwf & Hreq & Hcmd & Hq & tail & ->).
    destruct ds as [|d ds].
    + exists None. split; [apply smb1_negotiate_no_dialect_silent; assumption | reflexivity].
    + destruct (smb1_negotiate_reply neg chal ft h d ds tail t f a b Hblob Hwf Hq Hreq Hcmd)
        as (r & body & rsp & Hr & _ & _ & _ & _ & _ & _ & _ & Hok).
      exists (Some r). split; [exact Hr | exact Hok].
  - destruct Hs as (Hwf & Hreq & Hcmd & Hq & tail & ->).
    destruct (smb1_setup_reply neg chal ft h q tail t f a b Hblob Hwf Hq Hreq Hcmd)
      as (r & body & rsp & Hr & _ & _ & _ & _ & _ & _ & _ & Hok).
    exists (Some r). split; [exact Hr | exact Hok].
  - destruct Hs as (Hwf & Hcase & body & ->).
    exists None. split; [apply smb1_not_request_silent; assumption | reflexivity].
Qed.

Theorem smb2_req_ok neg chal ft p rq :
  blob_ok neg chal = true -> classify p = Some rq -> rq_smb2 rq = true ->
  exists o, smb2_repl neg chal ft p = Ok o /\ req_ok rq o = true.
Proof.
  intros Hblob Hc Hk. destruct (classify_sound p rq Hc) as (t & f & a & b & rest & -> & Hs).
  destruct rq as [h ds | h q | h | h q | h q | h]; try discriminate; cbn [rq_shape] in Hs.
  - destruct Hs as (Hwf & Hreq & Hcmd & Hq & tail & ->). cbn [req_ok].
    destruct (select2 (nq2_dialects q)) as [d|] eqn:Es.
    + destruct (smb2_negotiate_reply neg chal ft h q d tail t f a b Hblob Hwf Hq Hreq Hcmd Es)
        as (r & body & rsp & Hr & _ & _ & _ & _ & _ & _ & _ & _ & Hok).
      exists (Some r). split; [exact Hr | exact Hok].
    + exists None. split; [apply smb2_no_common_dialect_silent; assumption | reflexivity].
  - destruct Hs as (Hwf & Hreq & Hcmd & Hq & tail & ->).
    destruct (smb2_setup_reply neg chal ft h q tail t f a b Hblob Hwf Hq Hreq Hcmd)
      as (r & body & rsp & Hr & _ & _ & _ & _ & _ & _ & _ & Hok).
    exists (Some r). split; [exact Hr | exact Hok].
  - destruct Hs as (Hwf & Hcase & body & ->).
    exists None. split; [apply smb2_not_request_silent; assumption | reflexivity].
Qed.

(* the magic byte decides the kind *)
Lemma classify_magic p rq : classify p = Some rq ->
  (nth 4 p 0 = 255 -> rq_smb1 rq = true) /\ (nth 4 p 0 = 254 -> rq_smb2 rq = true).
Proof.
  intros Hc. destruct (classify_sound p rq Hc) as (t & f & a & b & rest & -> & Hs).
  destruct rq as [h ds | h q | h | h q | h q | h]; cbn [rq_shape] in Hs;
    repeat match type of Hs with _ /\ _ => destruct Hs as [_ Hs] end; destruct Hs as [x ->];
    unfold ser_smb1_hdr, ser_smb2_hdr, SMB1_PROTOCOL, SMB2_PROTOCOL; cbn [app nth];
    split; intros H; try reflexivity; discriminate.
Qed.

(* from the verdict on the classified request to the monitor *)
Lemma monitor_of_req_ok ctx p o :
  (forall rq, classify p = Some rq -> req_ok rq o = true) -> app_ok_C17 ctx p o = true.
Proof.
  intros H. unfold app_ok_C17. destruct (classify p) as [rq|]; [apply H; reflexivity | reflexivity].
Qed.

(* ---------- proto::repl ---------- *)
Lemma dispatch_smb1 E clk ci t data :
  dispatch E clk ci PROTO_SMB1 t data
  = do r <- smb1_repl (e_smb_neg E) (e_smb_chal E) (clk_filetime clk) data; Ok (ci, t, r).
Proof. reflexivity. Qed.
Lemma dispatch_smb2 E clk ci t data :
  dispatch E clk ci PROTO_SMB2 t data
  = do r <- smb2_repl (e_smb_neg E) (e_smb_chal E) (clk_filetime clk) data; Ok (ci, t, r).
Proof. reflexivity. Qed.

Lemma proto_udp_smb E clk ci p id o
      (run : bytes -> res (option bytes)) :
  (forall t, dispatch E clk ci id t p = do r <- run p; Ok (ci, t, r)) ->
  udp_id E p = Some id -> run p = Ok o ->
  proto_repl_udp E clk ci p = Ok (ci, o).
Proof.
  intros Hd Hid Hr. unfold proto_repl_udp. unfold udp_id in Hid.
  destruct (search_next (e_proto_tbl E) BASE_STATE p) as [[i st] n].
  rewrite Hid. rewrite Hd, Hr. reflexivity.
Qed.

Lemma proto_tcp_smb E clk ci p id o
      (run : bytes -> res (option bytes)) :
  (forall t, dispatch E clk ci id t p = do r <- run p; Ok (ci, t, r)) ->
  tcp_first_id E p = Some id -> run p = Ok o ->
  exists st, proto_repl_tcp E clk ci tcb_new p
             = Ok (ci, {| t_smack := st; t_proto := id; t_pstate := None; t_pending := [] |}, o).
Proof.
  intros Hd Hid Hr. rewrite proto_repl_tcp_first. unfold tcp_first_id in Hid.
  destruct (search_next (e_proto_tbl E) BASE_STATE p) as [[i st] n]. subst i. cbv zeta.
  cbn [id_of t_proto]. exists st. rewrite Hd, Hr. reflexivity.
Qed.


Section ProtoMon.
Variables (E : env) (clk : clock) (ctx : app_ctx) (p : bytes).
Hypothesis Hblob : blob_ok (e_smb_neg E) (e_smb_chal E) = true.
Hypothesis Hok : bytes_ok p = true.

Lemma smb1_monitor_gen : nth 4 p 0 = 255 ->
  exists o, smb1_repl (e_smb_neg E) (e_smb_chal E) (clk_filetime clk) p = Ok o /\ app_ok_C17 ctx p o = true.
Proof.
  intros Hm. destruct (classify p) as [rq|] eqn:Ec.
  - destruct (classify_magic p rq Ec) as [Hk _].
    destruct (smb1_req_ok _ _ (clk_filetime clk) p rq Hblob Ec (Hk Hm)) as (o & Hr & H1).
    exists o. split; [exact Hr|]. apply monitor_of_req_ok. intros rq' Hrq'. rewrite Ec in Hrq'.
    injection Hrq' as <-. exact H1.
  - destruct (smb1_no_panic (e_smb_neg E) (e_smb_chal E) (clk_filetime clk) p Hok) as [o Hr].
    exists o. split; [exact Hr|]. apply monitor_of_req_ok. intros rq' Hrq'. congruence.
Qed.

Lemma smb2_monitor_gen : nth 4 p 0 = 254 ->
  exists o, smb2_repl (e_smb_neg E) (e_smb_chal E) (clk_filetime clk) p = Ok o /\ app_ok_C17 ctx p o = true.
Proof.
  intros Hm. destruct (classify p) as [rq|] eqn:Ec.
  - destruct (classify_magic p rq Ec) as [_ Hk].
    destruct (smb2_req_ok _ _ (clk_filetime clk) p rq Hblob Ec (Hk Hm)) as (o & Hr & H1).
    exists o. split; [exact Hr|]. apply monitor_of_req_ok. intros rq' Hrq'. rewrite Ec in Hrq'.
    injection Hrq' as <-. exact H1.
  - destruct (smb2_no_panic (e_smb_neg E) (e_smb_chal E) (clk_filetime clk) p Hok) as [o Hr].
    exists o. split; [exact Hr|]. apply monitor_of_req_ok. intros rq' Hrq'. congruence.
Qed.

Variables (cfg : config) (ms md : bytes).

Theorem C17_proto_udp_smb1 :
  udp_id E p = Some PROTO_SMB1 -> nth 4 p 0 = 255 ->
  exists o, proto_repl_udp E clk (ctx_ci cfg ms md ctx) p = Ok (ctx_ci cfg ms md ctx, o) /\
            app_ok_C17 ctx p o = true.
Proof.
  intros Hid Hm. destruct (smb1_monitor_gen Hm) as (o & Hr & H1). exists o. split; [|exact H1].
  apply (proto_udp_smb E clk _ p PROTO_SMB1 o
           (smb1_repl (e_smb_neg E) (e_smb_chal E) (clk_filetime clk))); [intros; apply dispatch_smb1 | exact Hid | exact Hr].
Qed.
Theorem C17_proto_udp_smb2 :
  udp_id E p = Some PROTO_SMB2 -> nth 4 p 0 = 254 ->
  exists o, proto_repl_udp E clk (ctx_ci cfg ms md ctx) p = Ok (ctx_ci cfg ms md ctx, o) /\
            app_ok_C17 ctx p o = true.
Proof.
  intros Hid Hm. destruct (smb2_monitor_gen Hm) as (o & Hr & H1). exists o. split; [|exact H1].
  apply (proto_udp_smb E clk _ p PROTO_SMB2 o
           (smb2_repl (e_smb_neg E) (e_smb_chal E) (clk_filetime clk))); [intros; apply dispatch_smb2 | exact Hid | exact Hr].
Qed.
Theorem C17_proto_tcp_smb1 :
  tcp_first_id E p = Some PROTO_SMB1 -> nth 4 p 0 = 255 ->
  exists tc' o, proto_repl_tcp E clk (ctx_ci cfg ms md ctx) tcb_new p = Ok (ctx_ci cfg ms md ctx, tc', o) /\
            app_ok_C17 ctx p o = true.
Proof.
  intros Hid Hm. destruct (smb1_monitor_gen Hm) as (o & Hr & H1).
  destruct (proto_tcp_smb E clk (ctx_ci cfg ms md ctx) p PROTO_SMB1 o
              (smb1_repl (e_smb_neg E) (e_smb_chal E) (clk_filetime clk))
              ltac:(intros; apply dispatch_smb1) Hid Hr) as [st Hp].
  eexists. exists o. split; [exact Hp | exact H1].
Qed.
Theorem C17_proto_tcp_smb2 :
  tcp_first_id E p = Some PROTO_SMB2 -> nth 4 p 0 = 254 ->
  exists tc' o, proto_repl_tcp E clk (ctx_ci cfg ms md ctx) tcb_new p = Ok (ctx_ci cfg ms md ctx, tc', o) /\
            app_ok_C17 ctx p o = true.
Proof.
  intros Hid Hm. destruct (smb2_monitor_gen Hm) as (o & Hr & H1).
  destruct (proto_tcp_smb E clk (ctx_ci cfg ms md ctx) p PROTO_SMB2 o
              (smb2_repl (e_smb_neg E) (e_smb_chal E) (clk_filetime clk))
              ltac:(intros; apply dispatch_smb2) Hid Hr) as [st Hp].
  eexists. exists o. split; [exact Hp | exact H1].
Qed.
End ProtoMon.

(* ---------- "Session-Setup requests are answered", for ALL blob lengths (0 included):
   refuted before the repair of the implementation (commit 5dca3e9), proved now ---------- *)
Definition res_view (r : res (option bytes)) : option (option bytes) :=
  match r with Ok o => Some o | Panic _ => None end.

Lemma ser_nbt_split m : exists t f a b, ser_nbt m = [t; f; a; b] ++ m.
Proof. unfold ser_nbt, nbt_hdr, be16. cbn [app]. do 4 eexists. reflexivity. Qed.

Theorem smb1_setup_all_blobs neg chal ft : blob_ok neg chal = true ->
  C17_smb1_setup_all_blobs_stmt (fun p => res_view (smb1_repl neg chal ft p)).
Proof.
  intros Hblob h q tail Hwf Hq Hreq Hcmd _.
  destruct (ser_nbt_split (ser_smb1_hdr h ++ ser_setup1_req q)) as (t & f & a & b & E).
  rewrite E. rewrite <- !app_assoc.
  destruct (smb1_setup_reply neg chal ft h q tail t f a b Hblob Hwf Hq Hreq Hcmd)
    as (r & body & rsp & Hr & _ & _ & _ & _ & _ & _ & _ & Hok).
  exists r. rewrite Hr. split; [reflexivity | exact Hok].
Qed.

Theorem smb2_setup_all_blobs neg chal ft : blob_ok neg chal = true ->
  C17_smb2_setup_all_blobs_stmt (fun p => res_view (smb2_repl neg chal ft p)).
Proof.
  intros Hblob h q tail Hwf Hq Hreq Hcmd _.
  destruct (ser_nbt_split (ser_smb2_hdr h ++ ser_setup2_req q)) as (t & f & a & b & E).
  rewrite E. rewrite <- !app_assoc.
  destruct (smb2_setup_reply neg chal ft h q tail t f a b Hblob Hwf Hq Hreq Hcmd)
    as (r & body & rsp & Hr & _ & _ & _ & _ & _ & _ & _ & Hok).
  exists r. rewrite Hr. split; [reflexivity | exact Hok].
Qed.
