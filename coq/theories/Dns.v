(* Dns.v -- src/proto/dns/*.rs. The implementation parses byte at a time with
   nested state machines; a datagram is always parsed in one go from a fresh
   state, so the model is the equivalent recursive-descent reading. *)
From MS Require Export Bytes Types.

(* a domain name (query.rs, rr.rs): a sequence of labels -- a length byte
   below 64 followed by that many bytes of any value, zero included -- up to the
   root label; [left] = bytes left in the current label. A byte >= 64 in length
   position is kept and the next byte is again read as a length. *)
Fixpoint take_qname (d : bytes) (acc : bytes) (left : N) : option (bytes * bytes) :=
  match d with
  | [] => None
  | b :: t =>
    if 0 <? left then take_qname t (b :: acc) (left - 1)
    else if b =? 0 then Some (rev (b :: acc), t)
    else take_qname t (b :: acc) (if b <? 64 then b else 0)
  end.

Record question := { q_name : bytes; q_type : N; q_class : N }.

Definition take_question (d : bytes) : option (question * bytes) :=
  match take_qname d [] 0 with
  | None => None
  | Some (name, r) =>
    match r with
    | t1 :: t2 :: c1 :: c2 :: rest =>
      Some ({| q_name := name; q_type := t1 * 256 + t2; q_class := c1 * 256 + c2 |}, rest)
    | _ => None
    end
  end.

Fixpoint take_questions (n : nat) (d : bytes) : option (list question * bytes) :=
  match n with
  | O => Some ([], d)
  | S n' =>
    match take_question d with
    | None => None
    | Some (q, r) =>
      match take_questions n' r with
      | None => None
      | Some (qs, r') => Some (q :: qs, r')
      end
    end
  end.

(* a resource record of the request is only skipped *)
Definition skip_rr (d : bytes) : option bytes :=
  match take_qname d [] 0 with
  | None => None
  | Some (_, r) =>
    (* type 2, class 2, ttl 4, rdlength 2 *)
    if (length r <? 10)%nat then None
    else
      let rdlen := u16_at 8 r in
      let r' := skipn 10 r in
      if lenN r' <? rdlen then None else Some (skipn (N.to_nat rdlen) r')
  end.

Fixpoint skip_rrs (n : nat) (d : bytes) : option bytes :=
  match n with
  | O => Some d
  | S n' => match skip_rr d with None => None | Some r => skip_rrs n' r end
  end.

Record dns_msg := { d_id : N; d_flags : N; d_qd : list question }.

(* Some m iff the top-level state machine reaches End *)
Definition dns_parse (d : bytes) : option dns_msg :=
  if (length d <? 12)%nat then None
  else
    let qd := u16_at 4 d in
    let an := u16_at 6 d in
    let ns := u16_at 8 d in
    let ar := u16_at 10 d in
    match take_questions (N.to_nat qd) (skipn 12 d) with
    | None => None
    | Some (qs, r) =>
      match skip_rrs (N.to_nat an) r with
      | None => None
      | Some _ =>
        if (ns =? 0) && (ar =? 0)
        then Some {| d_id := u16_at 0 d; d_flags := u16_at 2 d; d_qd := qs |}
        else None
      end
    end.

Definition ser_question (q : question) : bytes :=
  q_name q ++ be16 (q_type q) ++ be16 (q_class q).

Definition answer_rr (dst : ipaddr) (q : question) : bytes :=
  let rdata := match dst with V4 o => o | V6 _ => [] end in
  q_name q ++ [0; 1; 0; 1] ++ be32 43200 ++ be16 (lenN rdata) ++ rdata.

Definition dns_header_reply (m : dns_msg) : bytes :=
  let opcode := (d_flags m / 2048) mod 16 in
  let rd := (d_flags m / 256) mod 2 in
  let n := N.of_nat (length (d_qd m)) in
  be16 (d_id m) ++ [128 + opcode * 8 + 4 + rd; 0] ++ be16 n ++ be16 n ++ [0; 0; 0; 0].

Definition dns_repl (dst : option ipaddr) (d : bytes) : option bytes :=
  match dns_parse d, dst with
  | Some m, Some ip =>
    if 32768 <=? d_flags m then None          (* QR = 1: a response is never answered *)
    else if forallb (fun q => (q_type q =? 1) && (q_class q =? 1)) (d_qd m)
    then Some (dns_header_reply m ++ concat (map ser_question (d_qd m))
                                  ++ concat (map (answer_rr ip) (d_qd m)))
    else None
  | _, _ => None
  end.
