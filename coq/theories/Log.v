(* Log.v -- src/logger/{console,logfmt}.rs: how an event becomes one line of
   text. The two renderers are parameterised only by the timestamp text; the
   field renderers model Rust's Display / Debug implementations: MacAddr
   ("{:02x}" joined by ':'), IpAddr (Text.v), integers (decimal), pnet's
   EtherType / IpNextHeaderProtocol names (tables below, transcribed from
   pnet_packet-0.33.0 src/ethernet.rs and src/ip.rs; the harness parses the same
   tables from the pnet sources and every real log line is re-rendered by these
   functions and compared byte for byte). Model file: definitions only. *)
From MS Require Export Bytes Types Text.

Definition TAB : N := 9.
Definition NL : N := 10.
Definition SP : N := 32.
Definition EQS : N := 61.

(* ---- string constants (ASCII) ---- *)
Definition S_unknown : bytes := [117; 110; 107; 110; 111; 119; 110].
Definition S_arp : bytes := [97; 114; 112].
Definition S_eth : bytes := [101; 116; 104].
Definition S_ipv4 : bytes := [105; 112; 118; 52].
Definition S_ipv6 : bytes := [105; 112; 118; 54].
Definition S_icmpv4 : bytes := [105; 99; 109; 112; 118; 52].
Definition S_icmpv6 : bytes := [105; 99; 109; 112; 118; 54].
Definition S_tcp : bytes := [116; 99; 112].
Definition S_udp : bytes := [117; 100; 112].
Definition S_recv : bytes := [114; 101; 99; 118].
Definition S_send : bytes := [115; 101; 110; 100].
Definition S_drop : bytes := [100; 114; 111; 112].
Definition S_mac_src : bytes := [109; 97; 99; 95; 115; 114; 99].
Definition S_mac_dst : bytes := [109; 97; 99; 95; 100; 115; 116].
Definition S_ip_src : bytes := [105; 112; 95; 115; 114; 99].
Definition S_ip_dst : bytes := [105; 112; 95; 100; 115; 116].
Definition S_transport : bytes := [116; 114; 97; 110; 115; 112; 111; 114; 116].
Definition S_port_src : bytes := [112; 111; 114; 116; 95; 115; 114; 99].
Definition S_port_dst : bytes := [112; 111; 114; 116; 95; 100; 115; 116].
Definition S_eth_type : bytes := [101; 116; 104; 95; 116; 121; 112; 101].
Definition S_next_proto : bytes := [110; 101; 120; 116; 95; 112; 114; 111; 116; 111].
Definition S_icmp_type : bytes := [105; 99; 109; 112; 95; 116; 121; 112; 101].
Definition S_icmp_code : bytes := [105; 99; 109; 112; 95; 99; 111; 100; 101].
Definition S_icmpv6_type : bytes := [105; 99; 109; 112; 118; 54; 95; 116; 121; 112; 101].
Definition S_icmpv6_code : bytes := [105; 99; 109; 112; 118; 54; 95; 99; 111; 100; 101].
Definition S_flags : bytes := [102; 108; 97; 103; 115].
Definition S_seq : bytes := [115; 101; 113].
Definition S_ack : bytes := [97; 99; 107].
Definition S_op : bytes := [111; 112].
Definition S_IcmpType : bytes := [73; 99; 109; 112; 84; 121; 112; 101].
Definition S_IcmpCode : bytes := [73; 99; 109; 112; 67; 111; 100; 101].
Definition S_Icmpv6Type : bytes := [73; 99; 109; 112; 118; 54; 84; 121; 112; 101].
Definition S_Icmpv6Code : bytes := [73; 99; 109; 112; 118; 54; 67; 111; 100; 101].
Definition S_ArpOperation : bytes := [65; 114; 112; 79; 112; 101; 114; 97; 116; 105; 111; 110].
Definition S_ts : bytes := [116; 115; 61].                       (* "ts=" *)
Definition S_proto : bytes := [32; 112; 114; 111; 116; 111; 61].  (* " proto=" *)
Definition S_verb : bytes := [32; 118; 101; 114; 98; 61].         (* " verb=" *)

(* ---- pnet's Display tables ---- *)
Definition ethertype_names : list (N * bytes) := [
  (2048, [73; 112; 118; 52]) (* Ipv4 *);
  (2054, [65; 114; 112]) (* Arp *);
  (2114, [87; 97; 107; 101; 79; 110; 76; 97; 110]) (* WakeOnLan *);
  (8947, [84; 114; 105; 108; 108]) (* Trill *);
  (24579, [68; 69; 67; 110; 101; 116]) (* DECnet *);
  (32821, [82; 97; 114; 112]) (* Rarp *);
  (32923, [65; 112; 112; 108; 101; 84; 97; 108; 107]) (* AppleTalk *);
  (33011, [65; 97; 114; 112]) (* Aarp *);
  (33024, [86; 108; 97; 110]) (* Vlan *);
  (33079, [73; 112; 120]) (* Ipx *);
  (33284, [81; 110; 120]) (* Qnx *);
  (34525, [73; 112; 118; 54]) (* Ipv6 *);
  (34824, [70; 108; 111; 119; 67; 111; 110; 116; 114; 111; 108]) (* FlowControl *);
  (34841, [67; 111; 98; 114; 97; 78; 101; 116]) (* CobraNet *);
  (34887, [77; 112; 108; 115]) (* Mpls *);
  (34888, [77; 112; 108; 115; 77; 99; 97; 115; 116]) (* MplsMcast *);
  (34915, [80; 112; 112; 111; 101; 68; 105; 115; 99; 111; 118; 101; 114; 121]) (* PppoeDiscovery *);
  (34916, [80; 112; 112; 111; 101; 83; 101; 115; 115; 105; 111; 110]) (* PppoeSession *);
  (34984, [80; 66; 114; 105; 100; 103; 101]) (* PBridge *);
  (35020, [76; 108; 100; 112]) (* Lldp *);
  (35063, [80; 116; 112]) (* Ptp *);
  (35074, [67; 102; 109]) (* Cfm *);
  (37120, [81; 105; 110; 81]) (* QinQ *)
].

Definition ip_proto_names : list (N * bytes) := [
  (0, [72; 111; 112; 111; 112; 116]) (* Hopopt *);
  (1, [73; 99; 109; 112]) (* Icmp *);
  (2, [73; 103; 109; 112]) (* Igmp *);
  (3, [71; 103; 112]) (* Ggp *);
  (4, [73; 112; 118; 52]) (* Ipv4 *);
  (5, [83; 116]) (* St *);
  (6, [84; 99; 112]) (* Tcp *);
  (7, [67; 98; 116]) (* Cbt *);
  (8, [69; 103; 112]) (* Egp *);
  (9, [73; 103; 112]) (* Igp *);
  (10, [66; 98; 110; 82; 99; 99; 77; 111; 110]) (* BbnRccMon *);
  (11, [78; 118; 112; 73; 73]) (* NvpII *);
  (12, [80; 117; 112]) (* Pup *);
  (13, [65; 114; 103; 117; 115]) (* Argus *);
  (14, [69; 109; 99; 111; 110]) (* Emcon *);
  (15, [88; 110; 101; 116]) (* Xnet *);
  (16, [67; 104; 97; 111; 115]) (* Chaos *);
  (17, [85; 100; 112]) (* Udp *);
  (18, [77; 117; 120]) (* Mux *);
  (19, [68; 99; 110; 77; 101; 97; 115]) (* DcnMeas *);
  (20, [72; 109; 112]) (* Hmp *);
  (21, [80; 114; 109]) (* Prm *);
  (22, [88; 110; 115; 73; 100; 112]) (* XnsIdp *);
  (23, [84; 114; 117; 110; 107; 49]) (* Trunk1 *);
  (24, [84; 114; 117; 110; 107; 50]) (* Trunk2 *);
  (25, [76; 101; 97; 102; 49]) (* Leaf1 *);
  (26, [76; 101; 97; 102; 50]) (* Leaf2 *);
  (27, [82; 100; 112]) (* Rdp *);
  (28, [73; 114; 116; 112]) (* Irtp *);
  (29, [73; 115; 111; 84; 112; 52]) (* IsoTp4 *);
  (30, [78; 101; 116; 98; 108; 116]) (* Netblt *);
  (31, [77; 102; 101; 78; 115; 112]) (* MfeNsp *);
  (32, [77; 101; 114; 105; 116; 73; 110; 112]) (* MeritInp *);
  (33, [68; 99; 99; 112]) (* Dccp *);
  (34, [84; 104; 114; 101; 101; 80; 99]) (* ThreePc *);
  (35, [73; 100; 112; 114]) (* Idpr *);
  (36, [88; 116; 112]) (* Xtp *);
  (37, [68; 100; 112]) (* Ddp *);
  (38, [73; 100; 112; 114; 67; 109; 116; 112]) (* IdprCmtp *);
  (39, [84; 112; 80; 108; 117; 115; 80; 108; 117; 115]) (* TpPlusPlus *);
  (40, [73; 108]) (* Il *);
  (41, [73; 112; 118; 54]) (* Ipv6 *);
  (42, [83; 100; 114; 112]) (* Sdrp *);
  (43, [73; 112; 118; 54; 82; 111; 117; 116; 101]) (* Ipv6Route *);
  (44, [73; 112; 118; 54; 70; 114; 97; 103]) (* Ipv6Frag *);
  (45, [73; 100; 114; 112]) (* Idrp *);
  (46, [82; 115; 118; 112]) (* Rsvp *);
  (47, [71; 114; 101]) (* Gre *);
  (48, [68; 115; 114]) (* Dsr *);
  (49, [66; 110; 97]) (* Bna *);
  (50, [69; 115; 112]) (* Esp *);
  (51, [65; 104]) (* Ah *);
  (52, [73; 78; 108; 115; 112]) (* INlsp *);
  (53, [83; 119; 105; 112; 101]) (* Swipe *);
  (54, [78; 97; 114; 112]) (* Narp *);
  (55, [77; 111; 98; 105; 108; 101]) (* Mobile *);
  (56, [84; 108; 115; 112]) (* Tlsp *);
  (57, [83; 107; 105; 112]) (* Skip *);
  (58, [73; 99; 109; 112; 118; 54]) (* Icmpv6 *);
  (59, [73; 112; 118; 54; 78; 111; 78; 120; 116]) (* Ipv6NoNxt *);
  (60, [73; 112; 118; 54; 79; 112; 116; 115]) (* Ipv6Opts *);
  (61, [72; 111; 115; 116; 73; 110; 116; 101; 114; 110; 97; 108]) (* HostInternal *);
  (62, [67; 102; 116; 112]) (* Cftp *);
  (63, [76; 111; 99; 97; 108; 78; 101; 116; 119; 111; 114; 107]) (* LocalNetwork *);
  (64, [83; 97; 116; 69; 120; 112; 97; 107]) (* SatExpak *);
  (65, [75; 114; 121; 112; 116; 111; 108; 97; 110]) (* Kryptolan *);
  (66, [82; 118; 100]) (* Rvd *);
  (67, [73; 112; 112; 99]) (* Ippc *);
  (68, [68; 105; 115; 116; 114; 105; 98; 117; 116; 101; 100; 70; 115]) (* DistributedFs *);
  (69, [83; 97; 116; 77; 111; 110]) (* SatMon *);
  (70, [86; 105; 115; 97]) (* Visa *);
  (71, [73; 112; 99; 118]) (* Ipcv *);
  (72, [67; 112; 110; 120]) (* Cpnx *);
  (73, [67; 112; 104; 98]) (* Cphb *);
  (74, [87; 115; 110]) (* Wsn *);
  (75, [80; 118; 112]) (* Pvp *);
  (76, [66; 114; 83; 97; 116; 77; 111; 110]) (* BrSatMon *);
  (77, [83; 117; 110; 78; 100]) (* SunNd *);
  (78, [87; 98; 77; 111; 110]) (* WbMon *);
  (79, [87; 98; 69; 120; 112; 97; 107]) (* WbExpak *);
  (80, [73; 115; 111; 73; 112]) (* IsoIp *);
  (81, [86; 109; 116; 112]) (* Vmtp *);
  (82, [83; 101; 99; 117; 114; 101; 86; 109; 116; 112]) (* SecureVmtp *);
  (83, [86; 105; 110; 101; 115]) (* Vines *);
  (84, [84; 116; 112; 79; 114; 73; 112; 116; 109]) (* TtpOrIptm *);
  (85, [78; 115; 102; 110; 101; 116; 73; 103; 112]) (* NsfnetIgp *);
  (86, [68; 103; 112]) (* Dgp *);
  (87, [84; 99; 102]) (* Tcf *);
  (88, [69; 105; 103; 114; 112]) (* Eigrp *);
  (89, [79; 115; 112; 102; 105; 103; 80]) (* OspfigP *);
  (90, [83; 112; 114; 105; 116; 101; 82; 112; 99]) (* SpriteRpc *);
  (91, [76; 97; 114; 112]) (* Larp *);
  (92, [77; 116; 112]) (* Mtp *);
  (93, [65; 120; 50; 53]) (* Ax25 *);
  (94, [73; 112; 73; 112]) (* IpIp *);
  (95, [77; 105; 99; 112]) (* Micp *);
  (96, [83; 99; 99; 83; 112]) (* SccSp *);
  (97, [69; 116; 104; 101; 114; 105; 112]) (* Etherip *);
  (98, [69; 110; 99; 97; 112]) (* Encap *);
  (99, [80; 114; 105; 118; 69; 110; 99; 114; 121; 112; 116; 105; 111; 110]) (* PrivEncryption *);
  (100, [71; 109; 116; 112]) (* Gmtp *);
  (101, [73; 102; 109; 112]) (* Ifmp *);
  (102, [80; 110; 110; 105]) (* Pnni *);
  (103, [80; 105; 109]) (* Pim *);
  (104, [65; 114; 105; 115]) (* Aris *);
  (105, [83; 99; 112; 115]) (* Scps *);
  (106, [81; 110; 120]) (* Qnx *);
  (107, [65; 78]) (* AN *);
  (108, [73; 112; 67; 111; 109; 112]) (* IpComp *);
  (109, [83; 110; 112]) (* Snp *);
  (110, [67; 111; 109; 112; 97; 113; 80; 101; 101; 114]) (* CompaqPeer *);
  (111, [73; 112; 120; 73; 110; 73; 112]) (* IpxInIp *);
  (112, [86; 114; 114; 112]) (* Vrrp *);
  (113, [80; 103; 109]) (* Pgm *);
  (114, [90; 101; 114; 111; 72; 111; 112]) (* ZeroHop *);
  (115, [76; 50; 116; 112]) (* L2tp *);
  (116, [68; 100; 120]) (* Ddx *);
  (117, [73; 97; 116; 112]) (* Iatp *);
  (118, [83; 116; 112]) (* Stp *);
  (119, [83; 114; 112]) (* Srp *);
  (120, [85; 116; 105]) (* Uti *);
  (121, [83; 109; 112]) (* Smp *);
  (122, [83; 109]) (* Sm *);
  (123, [80; 116; 112]) (* Ptp *);
  (124, [73; 115; 105; 115; 79; 118; 101; 114; 73; 112; 118; 52]) (* IsisOverIpv4 *);
  (125, [70; 105; 114; 101]) (* Fire *);
  (126, [67; 114; 116; 112]) (* Crtp *);
  (127, [67; 114; 117; 100; 112]) (* Crudp *);
  (128, [83; 115; 99; 111; 112; 109; 99; 101]) (* Sscopmce *);
  (129, [73; 112; 108; 116]) (* Iplt *);
  (130, [83; 112; 115]) (* Sps *);
  (131, [80; 105; 112; 101]) (* Pipe *);
  (132, [83; 99; 116; 112]) (* Sctp *);
  (133, [70; 99]) (* Fc *);
  (134, [82; 115; 118; 112; 69; 50; 101; 73; 103; 110; 111; 114; 101]) (* RsvpE2eIgnore *);
  (135, [77; 111; 98; 105; 108; 105; 116; 121; 72; 101; 97; 100; 101; 114]) (* MobilityHeader *);
  (136, [85; 100; 112; 76; 105; 116; 101]) (* UdpLite *);
  (137, [77; 112; 108; 115; 73; 110; 73; 112]) (* MplsInIp *);
  (138, [77; 97; 110; 101; 116]) (* Manet *);
  (139, [72; 105; 112]) (* Hip *);
  (140, [83; 104; 105; 109; 54]) (* Shim6 *);
  (141, [87; 101; 115; 112]) (* Wesp *);
  (142, [82; 111; 104; 99]) (* Rohc *);
  (253, [84; 101; 115; 116; 49]) (* Test1 *);
  (254, [84; 101; 115; 116; 50]) (* Test2 *);
  (255, [82; 101; 115; 101; 114; 118; 101; 100]) (* Reserved *)
].

Fixpoint lookup_name (n : N) (t : list (N * bytes)) : option bytes :=
  match t with
  | [] => None
  | (k, s) :: r => if n =? k then Some s else lookup_name n r
  end.

Definition ethertype_name (n : N) : bytes :=
  match lookup_name n ethertype_names with Some s => s | None => S_unknown end.
Definition ip_proto_name (n : N) : bytes :=
  match lookup_name n ip_proto_names with Some s => s | None => S_unknown end.

(* Everything without a name prints as "unknown": one class, represented by a
   value outside the field's range. *)
Definition UNKNOWN_ETY : N := 65536.
Definition UNKNOWN_PROTO : N := 256.
Definition ety_class (n : N) : N :=
  match lookup_name n ethertype_names with Some _ => n | None => UNKNOWN_ETY end.
Definition proto_class (n : N) : N :=
  match lookup_name n ip_proto_names with Some _ => n | None => UNKNOWN_PROTO end.

(* ---- field renderers ---- *)
Definition hex2 (b : N) : bytes := [hex_digit (b / 16); hex_digit (b mod 16)].
Definition render_mac (m : bytes) : bytes := join COLON (map hex2 m).

Definition layer_name (l : layer) : bytes :=
  match l with
  | LArp => S_arp | LEth => S_eth | LIpv4 => S_ipv4 | LIpv6 => S_ipv6
  | LIcmpv4 => S_icmpv4 | LIcmpv6 => S_icmpv6 | LTcp => S_tcp | LUdp => S_udp
  end.
Definition verb_name (v : verb) : bytes :=
  match v with Recv => S_recv | Send => S_send | Drop => S_drop end.

(* Debug of pnet's newtypes: Name(value) *)
Definition debug_wrap (name : bytes) (n : N) : bytes := name ++ [40] ++ dec_digits n ++ [41].

(* SystemTime: "{}.{}" of as_secs() and subsec_millis() (no zero padding) *)
Definition render_ts (secs millis : N) : bytes := dec_digits secs ++ [DOT] ++ dec_digits millis.

(* the (key, text) pairs of the client-information columns; None = column empty / key omitted *)
Definition ci_fields (c : cinfo) : list (bytes * option bytes) :=
  [ (S_mac_src, option_map render_mac (ci_mac_src c));
    (S_mac_dst, option_map render_mac (ci_mac_dst c));
    (S_ip_src, option_map render_ip (ci_ip_src c));
    (S_ip_dst, option_map render_ip (ci_ip_dst c));
    (S_transport, option_map ip_proto_name (ci_transport c));
    (S_port_src, option_map dec_digits (ci_port_src c));
    (S_port_dst, option_map dec_digits (ci_port_dst c)) ].

(* the trailing (key, text) pairs of each layer *)
Definition extra_fields (l : layer) (x : list N) : list (bytes * bytes) :=
  match l, x with
  | LEth, [t] => [(S_eth_type, ethertype_name t)]
  | LIpv4, [p] => [(S_next_proto, ip_proto_name p)]
  | LIpv6, [p] => [(S_next_proto, ip_proto_name p)]
  | LIcmpv4, [t; c] => [(S_icmp_type, debug_wrap S_IcmpType t); (S_icmp_code, debug_wrap S_IcmpCode c)]
  | LIcmpv6, [t; c] => [(S_icmpv6_type, debug_wrap S_Icmpv6Type t); (S_icmpv6_code, debug_wrap S_Icmpv6Code c)]
  | LTcp, [f; s; a] => [(S_flags, dec_digits f); (S_seq, dec_digits s); (S_ack, dec_digits a)]
  | LArp, [o] => [(S_op, debug_wrap S_ArpOperation o)]
  | _, _ => []
  end.

Definition opt_text (o : option bytes) : bytes := match o with Some s => s | None => [] end.

(* ---- ConsoleLogger ---- *)
Definition console_body (e : event) : bytes :=
  match ev_layer e with
  | LArp =>
    (* hw \t hw \t ip \t ip \t op *)
    join TAB (map (fun kv => opt_text (snd kv)) (firstn 4 (ci_fields (ev_ci e))) ++
              map snd (extra_fields LArp (ev_extra e)))
  | l =>
    (* client_info(): seven columns, each followed by a TAB; then the layer's columns *)
    concat (map (fun kv => opt_text (snd kv) ++ [TAB]) (ci_fields (ev_ci e))) ++
    join TAB (map snd (extra_fields l (ev_extra e)))
  end.

Definition render_console (ts : bytes) (e : event) : bytes :=
  ts ++ [TAB] ++ layer_name (ev_layer e) ++ [TAB] ++ verb_name (ev_verb e) ++ [TAB] ++
  console_body e ++ [NL].

(* ---- LogfmtLogger ---- *)
Definition kv_text (k v : bytes) : bytes := [SP] ++ k ++ [EQS] ++ v.

Definition logfmt_body (e : event) : bytes :=
  match ev_layer e with
  | LArp =>
    let c := ev_ci e in
    let ms := opt_text (option_map render_mac (ci_mac_src c)) in
    let md := opt_text (option_map render_mac (ci_mac_dst c)) in
    let ips := opt_text (option_map render_ip (ci_ip_src c)) in
    let ipd := opt_text (option_map render_ip (ci_ip_dst c)) in
    (match ev_verb e with
     | Send =>
       (* arp_send labels the same four columns from the reply's point of view *)
       kv_text S_mac_dst ms ++ kv_text S_mac_src md ++ kv_text S_ip_dst ips ++ kv_text S_ip_src ipd
     | _ => kv_text S_mac_src ms ++ kv_text S_mac_dst md ++ kv_text S_ip_src ips ++ kv_text S_ip_dst ipd
     end) ++
    concat (map (fun kv => kv_text (fst kv) (snd kv)) (extra_fields LArp (ev_extra e)))
  | l =>
    concat (map (fun kv => match snd kv with Some v => kv_text (fst kv) v | None => [] end)
                (ci_fields (ev_ci e))) ++
    concat (map (fun kv => kv_text (fst kv) (snd kv)) (extra_fields l (ev_extra e)))
  end.

Definition render_logfmt (ts : bytes) (e : event) : bytes :=
  S_ts ++ ts ++ S_proto ++ layer_name (ev_layer e) ++ S_verb ++ verb_name (ev_verb e) ++ [SP] ++
  logfmt_body e ++ [NL].
