(* Stun.v -- src/proto/stun.rs: binding request -> binding success response. *)
From MS Require Export Bytes Types.

Definition pad4 (n : N) : N := ((n + 3) / 4) * 4.

(* walk the attribute list; None = malformed (the request is ignored),
   Some b = well-formed, b = some CHANGE-REQUEST asks for another port *)
Fixpoint stun_attrs (fuel : nat) (v : bytes) (chg : bool) : option bool :=
  match fuel with
  | O => Some chg
  | S fuel' =>
    if (length v <=? 4)%nat then Some chg      (* while i + 4 < data.len() *)
    else
      let ty := u16_at 0 v in
      let len := u16_at 2 v in
      if lenN v <? 4 + len then None
      else
        (* RFC 5389: the next attribute starts at the next multiple of 4 *)
        let next := skipn (4 + N.to_nat (pad4 len)) v in
        if ty =? 1 then
          if len <? 4 then None
          else
            let fam := u8_at 5 v in
            if fam =? 1 then (if len <? 8 then None else stun_attrs fuel' next chg)
            else if fam =? 2 then (if len <? 20 then None else stun_attrs fuel' next chg)
            else None
        else if ty =? 3 then
          if len <? 4 then None
          else stun_attrs fuel' next (chg || testbit (u32_at 4 v) 2)
        else stun_attrs fuel' next chg
  end.

Definition stun_response (id : bytes) (src : ipaddr) (sport : N) : bytes :=
  let alen := if ip_is_v4 src then 8 else 20 in
  [1; 1] ++ be16 (4 + alen) ++ id ++
  [0; 1] ++ be16 alen ++ [0; if ip_is_v4 src then 1 else 2] ++ be16 sport ++ ip_octets src.

(* returns the (possibly port-shifted) client information and the payload *)
Definition stun_repl (ci : cinfo) (data : bytes) : cinfo * option bytes :=
  if (length data <? 20)%nat then (ci, None)
  else
    let d0 := u8_at 0 data in
    let d1 := u8_at 1 data in
    let class := (N.land d0 1) * 2 + (N.land d1 16) / 16 in
    let method := (N.land d0 62) * 128 + N.land d1 239 in
    let len := u16_at 2 data in
    (* RFC 5389: the two most significant bits of a STUN message are zero *)
    if 64 <=? d0 then (ci, None)
    else if lenN data <? 20 + len then (ci, None)
    else
      match stun_attrs (length data) (slice 20 (N.to_nat len) data) false with
      | None => (ci, None)
      | Some chg =>
        if negb (class =? 0) then (ci, None)
        else if negb (method =? 1) then (ci, None)
        else
          match ci_ip_src ci, ci_port_src ci, ci_port_dst ci with
          | Some src, Some sport, Some dport =>
            let ci' := if chg then ci_set_port_dst ci (wrap16 (dport + 1)) else ci in
            (ci', Some (stun_response (slice 4 16 data) src sport))
          | _, _, _ => (ci, None)
          end
      end.
