(* Proofs/C18Instance.v -- C18 on the data of the current implementation: the
   compiled matcher identifies the three literal prefixes (decided by
   computation on gen/Tables.v), and non-vacuity examples run through
   proto::repl of the model with the current tables and constants. *)
From MS Require Import Proofs.Tactics Proto Spec.AppView Spec.C18 Spec.EnvOk Instance Proofs.C18.

Theorem the_env_ident_ok : c18_ident_ok the_env = true.
Proof. vm_compute. reflexivity. Qed.

Definition x_clk : clock := {| clk_date := []; clk_filetime := 0 |}.
Definition x_ci : cinfo :=
  {| ci_mac_src := None; ci_mac_dst := None; ci_ip_src := None; ci_ip_dst := None;
     ci_transport := None; ci_port_src := None; ci_port_dst := None; ci_cookie := None |}.
Definition x_udp (p : bytes) : option bytes :=
  match proto_repl_udp the_env x_clk x_ci p with Ok (_, o) => o | Panic _ => None end.
Definition x_tcp (p : bytes) : option bytes :=
  match proto_repl_tcp the_env x_clk x_ci tcb_new p with Ok (_, _, o) => o | Panic _ => None end.

(* b'SSH-2.0-OpenSSH_8.9 comment here\r\n' *)
Definition x_accepted : bytes :=
  [83; 83; 72; 45; 50; 46; 48; 45; 79; 112; 101; 110; 83; 83; 72; 95; 56; 46; 57; 32; 99; 111; 109; 109; 101; 110; 116; 32; 104; 101; 114; 101; 13; 10].
Example ex_accepted :
  ssh_ref x_accepted = true /\ x_udp x_accepted = Some S_SERVER_ID /\ x_tcp x_accepted = Some S_SERVER_ID.
Proof. vm_compute. repeat split. Qed.

(* b'SSH-1.99-x\r\n' *)
Definition x_accepted_199 : bytes :=
  [83; 83; 72; 45; 49; 46; 57; 57; 45; 120; 13; 10].
Example ex_accepted_199 :
  ssh_ref x_accepted_199 = true /\ x_udp x_accepted_199 = Some S_SERVER_ID /\ x_tcp x_accepted_199 = Some S_SERVER_ID.
Proof. vm_compute. repeat split. Qed.

(* b'SSH-2.0.1.5..-x\r\ntrailing' *)
Definition x_accepted_long_version : bytes :=
  [83; 83; 72; 45; 50; 46; 48; 46; 49; 46; 53; 46; 46; 45; 120; 13; 10; 116; 114; 97; 105; 108; 105; 110; 103].
Example ex_accepted_long_version :
  ssh_ref x_accepted_long_version = true /\ x_udp x_accepted_long_version = Some S_SERVER_ID /\ x_tcp x_accepted_long_version = Some S_SERVER_ID.
Proof. vm_compute. repeat split. Qed.

(* b'SSH-2.0-a\rb \r\rc\r\n' *)
Definition x_lone_cr : bytes :=
  [83; 83; 72; 45; 50; 46; 48; 45; 97; 13; 98; 32; 13; 13; 99; 13; 10].
Example ex_lone_cr :
  ssh_ref x_lone_cr = true /\ x_udp x_lone_cr = Some S_SERVER_ID /\ x_tcp x_lone_cr = Some S_SERVER_ID.
Proof. vm_compute. repeat split. Qed.

(* b'SSH-2.0-\r\r\r\r\r\r\r\r\r\r\r\r\r\r\r\r\r\r\r\r\r\r\r\r\r\r\r\r\r\r\r\r\r\r\r\r\r\r\r\r\n' *)
Definition x_cr_run_worst_fuel : bytes :=
  [83; 83; 72; 45; 50; 46; 48; 45; 13; 13; 13; 13; 13; 13; 13; 13; 13; 13; 13; 13; 13; 13; 13; 13; 13; 13; 13; 13; 13; 13; 13; 13; 13; 13; 13; 13; 13; 13; 13; 13; 13; 13; 13; 13; 13; 13; 13; 13; 10].
Example ex_cr_run_worst_fuel :
  ssh_ref x_cr_run_worst_fuel = true /\ x_udp x_cr_run_worst_fuel = Some S_SERVER_ID /\ x_tcp x_cr_run_worst_fuel = Some S_SERVER_ID.
Proof. vm_compute. repeat split. Qed.

(* b'SSH-2.0-OpenSSH_8.9\n' *)
Definition x_lf_only : bytes :=
  [83; 83; 72; 45; 50; 46; 48; 45; 79; 112; 101; 110; 83; 83; 72; 95; 56; 46; 57; 10].
Example ex_lf_only :
  ssh_ref x_lf_only = false /\ x_udp x_lf_only = None /\ x_tcp x_lf_only = None.
Proof. vm_compute. repeat split. Qed.

(* b'SSH-2.0-OpenSSH_8.9\r' *)
Definition x_cr_only : bytes :=
  [83; 83; 72; 45; 50; 46; 48; 45; 79; 112; 101; 110; 83; 83; 72; 95; 56; 46; 57; 13].
Example ex_cr_only :
  ssh_ref x_cr_only = false /\ x_udp x_cr_only = None /\ x_tcp x_cr_only = None.
Proof. vm_compute. repeat split. Qed.

(* b'SSH-2.0-OpenSSH_8.9' *)
Definition x_unterminated : bytes :=
  [83; 83; 72; 45; 50; 46; 48; 45; 79; 112; 101; 110; 83; 83; 72; 95; 56; 46; 57].
Example ex_unterminated :
  ssh_ref x_unterminated = false /\ x_udp x_unterminated = None /\ x_tcp x_unterminated = None.
Proof. vm_compute. repeat split. Qed.

(* b'SSH-2.0x-a\r\n' *)
Definition x_bad_version : bytes :=
  [83; 83; 72; 45; 50; 46; 48; 120; 45; 97; 13; 10].
Example ex_bad_version :
  ssh_ref x_bad_version = false /\ x_udp x_bad_version = None /\ x_tcp x_bad_version = None.
Proof. vm_compute. repeat split. Qed.

(* b'SSH-2.0\r\n' *)
Definition x_crlf_in_version : bytes :=
  [83; 83; 72; 45; 50; 46; 48; 13; 10].
Example ex_crlf_in_version :
  ssh_ref x_crlf_in_version = false /\ x_udp x_crlf_in_version = None /\ x_tcp x_crlf_in_version = None.
Proof. vm_compute. repeat split. Qed.

(* b'Gh0st\x00\x01\x02 anything' *)
Definition x_ghost : bytes :=
  [71; 104; 48; 115; 116; 0; 1; 2; 32; 97; 110; 121; 116; 104; 105; 110; 103].
Example ex_ghost :
  x_udp x_ghost = Some (e_ghost the_env) /\ x_tcp x_ghost = Some (e_ghost the_env) /\
  ghost_wf (e_ghost the_env) = true /\
  zlib_inflate (skipn 13 (e_ghost the_env)) = Some [0].
Proof. vm_compute. repeat split. Qed.

(* a frame whose declared lengths lie is rejected by ghost_wf *)
Example ex_ghost_bad_total :
  ghost_wf [71; 104; 48; 115; 116; 23; 0; 0; 0; 1; 0; 0; 0; 120; 156; 99; 0; 0; 0; 1; 0; 1] = false.
Proof. vm_compute. reflexivity. Qed.
Example ex_ghost_bad_ulen :
  ghost_wf [71; 104; 48; 115; 116; 22; 0; 0; 0; 2; 0; 0; 0; 120; 156; 99; 0; 0; 0; 1; 0; 1] = false.
Proof. vm_compute. reflexivity. Qed.
Example ex_ghost_bad_adler :
  ghost_wf [71; 104; 48; 115; 116; 22; 0; 0; 0; 1; 0; 0; 0; 120; 156; 99; 0; 0; 0; 1; 0; 2] = false.
Proof. vm_compute. reflexivity. Qed.

(* ---- the statements for the current implementation's data, no hypotheses left ---- *)
Lemma the_env_ok_c18 : env_ok the_env = true.
Proof. vm_compute. reflexivity. Qed.

Theorem current_udp clk ci ctx p ci' o :
  proto_repl_udp the_env clk ci p = Ok (ci', o) -> app_ok_C18 ctx p o = true.
Proof. exact (app_monitor_udp the_env clk ci ctx p ci' o the_env_ok_c18 the_env_ident_ok). Qed.

Theorem current_tcp_first clk ci ctx p ci' tc' o :
  proto_repl_tcp the_env clk ci tcb_new p = Ok (ci', tc', o) -> app_ok_C18 ctx p o = true.
Proof. exact (app_monitor_tcp_first the_env clk ci ctx p ci' tc' o the_env_ok_c18 the_env_ident_ok). Qed.

Theorem current_statements clk ci :
  C18_ssh_statement (fun p => match proto_repl_udp the_env clk ci p with Ok (_, o) => o | Panic _ => None end) /\
  C18_ghost_statement (fun p => match proto_repl_udp the_env clk ci p with Ok (_, o) => o | Panic _ => None end) /\
  C18_ssh_statement (fun p => match proto_repl_tcp the_env clk ci tcb_new p with Ok (_, _, o) => o | Panic _ => None end) /\
  C18_ghost_statement (fun p => match proto_repl_tcp the_env clk ci tcb_new p with Ok (_, _, o) => o | Panic _ => None end).
Proof.
  split; [exact (ssh_statement_udp the_env clk ci the_env_ok_c18 the_env_ident_ok)|].
  split; [exact (ghost_statement_udp the_env clk ci the_env_ok_c18 the_env_ident_ok)|].
  split; [exact (ssh_statement_tcp the_env clk ci the_env_ok_c18 the_env_ident_ok)|].
  exact (ghost_statement_tcp the_env clk ci the_env_ok_c18 the_env_ident_ok).
Qed.
