(* Proofs/C13Examples.v -- non-vacuity: the model itself, run on the tables and
   constants of the current implementation (Instance.v), on concrete requests.
   Rebuilt whenever gen/*.v changes. *)
From MS Require Import Http Proto Spec.RefHttp Spec.HttpTbl Spec.C11http Spec.C13 Instance Proofs.C13.

Definition ex_clk : clock :=
  {| clk_date := [84; 104; 117; 44; 32; 48; 49; 32; 79; 99; 116; 32; 50; 48; 50; 54];   (* "Thu, 01 Oct 2026" *)
     clk_filetime := 0 |}.

Definition answered (p : bytes) : option bool :=
  match http_repl (e_http_tbl the_env) (e_http_pre the_env) (e_http_post the_env) (clk_date ex_clk) http_new p with
  | Ok (_, Some r) => Some (bytes_eqb r (http_resp the_env ex_clk) && http_resp_wf r)
  | Ok (_, None) => Some false
  | Panic _ => None
  end.

(* a GET with two headers; a bare-LF request followed by a body: answered, well-formed *)
Example model_answers_get2 : answered ex_get2 = Some true.
Proof. vm_compute. reflexivity. Qed.
Example model_answers_lf : answered (ex_lf ++ [98; 111; 100; 121]) = Some true.
Proof. vm_compute. reflexivity. Qed.
(* CR/LF inside the target, "HTTP/.", "HTTP/1.": silence *)
Example model_rejects_lf_target : answered ex_lf_target = Some false.
Proof. vm_compute. reflexivity. Qed.
Example model_rejects_nover : answered ex_nover = Some false /\ answered ex_nominor = Some false.
Proof. split; vm_compute; reflexivity. Qed.
(* the responder alone is more lenient than the strict grammar (all of L1-L6 at once) *)
Example model_answers_lenient : answered ex_lenient = Some true.
Proof. vm_compute. reflexivity. Qed.
(* ... but a lower-case method is never dispatched to it *)
Example lowercase_not_identified :
  udp_id the_env [103; 101; 116; 32; 47; 32; 72; 84; 84; 80; 47; 49; 46; 49; 13; 10; 13; 10] = None.
Proof. vm_compute. reflexivity. Qed.

(* Why C11 is stated up to http_sim and not as an equality of states: "X:" parsed as
   one segment leaves the parser in VERB (the matcher reports the ":" pattern, which
   is not a verb), parsed as "X" then ":" it is in FAIL.  Both are dead. *)
Example whole_vs_bytewise_state :
  match http_parse (e_http_tbl the_env) http_new [88; 58], http_fold (e_http_tbl the_env) http_new [88; 58] with
  | Ok s1, Ok s2 =>
    (h_state s1 =? HTTP_VERB) && (h_state s2 =? HTTP_FAIL) &&
    http_dead (e_http_tbl the_env) s1 && http_dead (e_http_tbl the_env) s2
  | _, _ => false
  end = true.
Proof. vm_compute. reflexivity. Qed.
