(* Proofs/ClockIndepSmb.v -- the SMB responders under two FILETIME values: same verdict, and
   the replies are either equal or a negotiate response that differs in its time field(s)
   only, at the offsets of the wire format.  No assumption on the input bytes. *)
From MS Require Import Proofs.Tactics Smb Proofs.SmbSafe Proofs.SmbLen.
Open Scope N_scope.

Lemma ok_inj' {A} (a b : A) : Ok a = Ok b -> a = b.
Proof. congruence. Qed.

(* an invariant kept by every successful step is kept by the fold *)
Lemma fold_res_keep {S} (step : S -> N -> res S) (Q : S -> Prop) :
  (forall s b s', Q s -> step s b = Ok s' -> Q s') ->
  forall data s s', Q s -> fold_res step data s = Ok s' -> Q s'.
Proof.
  intros Hstep data. induction data as [|b t IH]; intros s s' HQ H.
  - rewrite fold_res_nil in H. apply ok_inj' in H. subst. exact HQ.
  - rewrite fold_res_cons in H. destruct (step s b) as [s1|p] eqn:E1; cbn [bind] in H; [|discriminate].
    exact (IH s1 s' (Hstep _ _ _ HQ E1) H).
Qed.

(* split an execution of a [*_byte] function into its branches *)
Ltac split_step H :=
  repeat first
    [ discriminate H
    | match type of H with
      | context [if ?c then _ else _] => destruct c
      | context [bind ?x _] => let r := fresh "r" in destruct x as [r|?]; cbn [bind] in H
      | context [let '(_, _) := ?x in _] => destruct x
      | context [match ?x with Some _ => _ | None => _ end] => destruct x
      end ].

(* ====================================================================== *)
(* SMB2: the echoed client GUID keeps its 16 bytes                         *)
(* ====================================================================== *)
Lemma neg2_byte_guid s b s' :
  neg2_byte s b = Ok s' -> length (n2_client_guid s) = 16%nat -> length (n2_client_guid s') = 16%nat.
Proof.
  intros H L. unfold neg2_byte in H. split_step H; apply ok_inj' in H; subst s';
    cbn [set_n2_d set_n2_tmp set_n2_structure_size set_n2_dialect_count set_n2_security_mode
         set_n2_capabilities set_n2_client_guid set_n2_dialects set_n2_read n2_client_guid];
    rewrite ?set_nth_length; exact L.
Qed.

(* once a payload parser exists the header parser is past its last field (so the command it
   echoes is the one that selected the payload type) *)
Definition q2 (s : hdr2) : Prop :=
  match h2_pay s with
  | Some p =>
    12 <= d_st (h2_d s) /\
    match p with
    | P2Neg n => h2_command s = 0 /\ length (n2_client_guid n) = 16%nat
    | P2Setup _ => True
    end
  | None => True
  end.

Lemma q2_new : q2 hdr2_new.
Proof. exact I. Qed.

Ltac h2_cbn :=
  cbn [set_h2_d set_h2_structure_size set_h2_credit_charge set_h2_status set_h2_command
       set_h2_credits_requested set_h2_flags set_h2_next_command set_h2_message_id set_h2_async_id
       set_h2_session_id set_h2_pay
       h2_d h2_structure_size h2_credit_charge h2_status h2_command h2_credits_requested h2_flags
       h2_next_command h2_message_id h2_async_id h2_session_id h2_pay d_i d_st fst snd] in *.

Lemma hdr2_payload_byte_q2 s b s' :
  12 <= d_st (h2_d s) -> q2 s -> hdr2_payload_byte s b = Ok s' -> q2 s'.
Proof.
  intros Hst Q H. unfold hdr2_payload_byte in H. unfold q2 in *.
  destruct s as [d ss cc stt cmd cr fl nc mid aid sid pay]. h2_cbn.
  destruct pay as [p|].
  - destruct Q as [_ Q].
    destruct (pay2_byte p b) as [p'|] eqn:Ep; cbn [bind] in H; [|discriminate].
    apply ok_inj' in H. subst s'. h2_cbn. split; [exact Hst|].
    destruct p as [n|u]; cbn [pay2_byte] in Ep.
    + destruct (neg2_byte n b) as [n'|] eqn:En; cbn [bind] in Ep; [|discriminate].
      apply ok_inj' in Ep. subst p'. destruct Q as [Hc Hg]. split; [exact Hc|].
      exact (neg2_byte_guid _ _ _ En Hg).
    + destruct (setup2_byte u b); cbn [bind] in Ep; [|discriminate].
      apply ok_inj' in Ep. subst p'. exact I.
  - destruct (N.land fl 1 =? 1). { apply ok_inj' in H. subst s'. exact I. }
    destruct (cmd =? 0) eqn:Ec.
    { cbn [pay2_byte] in H.
      destruct (neg2_byte neg2_new b) as [n'|] eqn:En; cbn [bind] in H; [|discriminate].
      apply ok_inj' in H. subst s'. h2_cbn. apply N.eqb_eq in Ec. split; [exact Hst|]. split; [exact Ec|].
      apply (neg2_byte_guid _ _ _ En). reflexivity. }
    destruct (cmd =? 1).
    { cbn [pay2_byte] in H. destruct (setup2_byte setup2_new b); cbn [bind] in H; [|discriminate].
      apply ok_inj' in H. subst s'. h2_cbn. split; [exact Hst | exact I]. }
    apply ok_inj' in H. subst s'. exact I.
Qed.

Lemma hdr2_byte_q2 s b s' : q2 s -> hdr2_byte s b = Ok s' -> q2 s'.
Proof.
  intros Q H.
  destruct (12 <=? d_st (h2_d s)) eqn:Hst.
  - apply N.leb_le in Hst. apply (hdr2_payload_byte_q2 s b s' Hst Q).
    unfold hdr2_byte in H. unfold H2_START, H2_STRUCTURESIZE, H2_CREDITSCHARGE, H2_STATUS, H2_COMMAND,
      H2_CREDITSREQUESTED, H2_FLAGS, H2_NEXTCOMMAND, H2_MESSAGEID, H2_ASYNCID, H2_SESSIONID,
      H2_SECURITYSIGNATURE in H.
    repeat match type of H with
    | context [if ?a =? ?k then _ else _] =>
      let E := fresh "E" in destruct (a =? k) eqn:E; [apply N.eqb_eq in E; lia|clear E]
    end.
    exact H.
  - apply N.leb_gt in Hst.
    assert (Hn : h2_pay s = None).
    { unfold q2 in Q. destruct (h2_pay s); [destruct Q; lia | reflexivity]. }
    assert (Hn' : h2_pay s' = None).
    { unfold hdr2_byte in H.
      unfold H2_START, H2_STRUCTURESIZE, H2_CREDITSCHARGE, H2_STATUS, H2_COMMAND,
        H2_CREDITSREQUESTED, H2_FLAGS, H2_NEXTCOMMAND, H2_MESSAGEID, H2_ASYNCID, H2_SESSIONID,
        H2_SECURITYSIGNATURE in H.
      repeat match type of H with
      | context [if ?a =? ?k then _ else _] =>
        let E := fresh "E" in destruct (a =? k) eqn:E;
          [split_step H; apply ok_inj' in H; subst s'; h2_cbn; exact Hn | apply N.eqb_neq in E]
      end.
      lia. }
    unfold q2. rewrite Hn'. exact I.
Qed.

(* ====================================================================== *)
(* SMB1                                                                    *)
(* ====================================================================== *)
Definition q1 (s : hdr1) : Prop :=
  match h1_pay s with
  | Some p => 12 <= d_st (h1_d s) /\ match p with P1Neg _ => h1_command s = 114 | P1Setup _ => True end
  | None => True
  end.

Lemma q1_new : q1 hdr1_new.
Proof. exact I. Qed.

Ltac h1_cbn :=
  cbn [set_h1_d set_h1_command set_h1_status set_h1_flags set_h1_flags2 set_h1_pid_high set_h1_tid
       set_h1_pid_low set_h1_uid set_h1_mid set_h1_pay
       h1_d h1_command h1_status h1_flags h1_flags2 h1_pid_high h1_tid h1_pid_low h1_uid h1_mid h1_pay
       d_i d_st fst snd] in *.

Lemma hdr1_payload_byte_q1 s b s' :
  12 <= d_st (h1_d s) -> q1 s -> hdr1_payload_byte s b = Ok s' -> q1 s'.
Proof.
  intros Hst Q H. unfold hdr1_payload_byte in H. unfold q1 in *.
  destruct s as [d cmd stt fl fl2 ph tid pl uid mid pay]. h1_cbn.
  destruct pay as [p|].
  - destruct Q as [_ Q].
    destruct (pay1_byte p b) as [p'|] eqn:Ep; cbn [bind] in H; [|discriminate].
    apply ok_inj' in H. subst s'. h1_cbn. split; [exact Hst|].
    destruct p as [n|u]; cbn [pay1_byte] in Ep.
    + destruct (neg1_byte n b); cbn [bind] in Ep; [|discriminate]. apply ok_inj' in Ep. subst p'. exact Q.
    + destruct (setup1_byte u b); cbn [bind] in Ep; [|discriminate]. apply ok_inj' in Ep. subst p'. exact I.
  - destruct (N.land fl 128 =? 128). { apply ok_inj' in H. subst s'. exact I. }
    destruct (cmd =? 114) eqn:Ec.
    { cbn [pay1_byte] in H. destruct (neg1_byte neg1_new b); cbn [bind] in H; [|discriminate].
      apply ok_inj' in H. subst s'. h1_cbn. apply N.eqb_eq in Ec. split; [exact Hst | exact Ec]. }
    destruct (cmd =? 115).
    { cbn [pay1_byte] in H. destruct (setup1_byte setup1_new b); cbn [bind] in H; [|discriminate].
      apply ok_inj' in H. subst s'. h1_cbn. split; [exact Hst | exact I]. }
    apply ok_inj' in H. subst s'. exact I.
Qed.

Lemma hdr1_byte_q1 s b s' : q1 s -> hdr1_byte s b = Ok s' -> q1 s'.
Proof.
  intros Q H.
  destruct (12 <=? d_st (h1_d s)) eqn:Hst.
  - apply N.leb_le in Hst. apply (hdr1_payload_byte_q1 s b s' Hst Q).
    unfold hdr1_byte in H. unfold H1_START, H1_COMMAND, H1_STATUS, H1_FLAGS, H1_FLAGS2, H1_PIDHIGH,
      H1_SECURITYSIGNATURE, H1_RESERVED, H1_TID, H1_PIDLOW, H1_UID, H1_MID in H.
    repeat match type of H with
    | context [if ?a =? ?k then _ else _] =>
      let E := fresh "E" in destruct (a =? k) eqn:E; [apply N.eqb_eq in E; lia|clear E]
    end.
    exact H.
  - apply N.leb_gt in Hst.
    assert (Hn : h1_pay s = None).
    { unfold q1 in Q. destruct (h1_pay s); [destruct Q; lia | reflexivity]. }
    assert (Hn' : h1_pay s' = None).
    { unfold hdr1_byte in H.
      unfold H1_START, H1_COMMAND, H1_STATUS, H1_FLAGS, H1_FLAGS2, H1_PIDHIGH,
        H1_SECURITYSIGNATURE, H1_RESERVED, H1_TID, H1_PIDLOW, H1_UID, H1_MID in H.
      repeat match type of H with
      | context [if ?a =? ?k then _ else _] =>
        let E := fresh "E" in destruct (a =? k) eqn:E;
          [split_step H; apply ok_inj' in H; subst s'; h1_cbn; exact Hn | apply N.eqb_neq in E]
      end.
      lia. }
    unfold q1. rewrite Hn'. exact I.
Qed.

(* ====================================================================== *)
(* the replies under two FILETIME values                                   *)
(* ====================================================================== *)
(* first bytes of an SMB1 negotiate response / an SMB2 negotiate response as the responder
   writes them: magic, command, status 0, reply flag *)
Definition K1 : bytes := [255; 83; 77; 66; 114; 0; 0; 0; 0; 152].
Definition K2 : bytes := [254; 83; 77; 66; 64; 0; 0; 0; 0; 0; 0; 0; 0; 0; 1; 0; 1; 0; 0; 0].

Lemma hdr1_repl_clk neg chal ft ft' s :
  q1 s ->
  hdr1_repl neg chal ft s = hdr1_repl neg chal ft' s \/
  exists A B, length A = 56%nat /\ firstn 10 A = K1 /\
    hdr1_repl neg chal ft s = Some (A ++ le64 ft ++ B) /\
    hdr1_repl neg chal ft' s = Some (A ++ le64 ft' ++ B).
Proof.
  intros Q. unfold q1 in Q. unfold hdr1_repl.
  destruct (h1_pay s) as [[n|u]|]; [|left; reflexivity|left; reflexivity].
  destruct Q as [_ Hc]. cbn [pay1_repl]. unfold neg1_repl.
  destruct (negb (d_st (n1_d n) =? N1_END)); [left; reflexivity|].
  right. rewrite Hc.
  exists (SMB1_MAGIC ++ [114] ++ le32 0 ++ [152] ++ le16 51207 ++ le16 (h1_pid_high s) ++ zeros 8 ++ zeros 2 ++
          le16 (h1_tid s) ++ le16 (h1_pid_low s) ++ le16 (h1_uid s) ++ le16 (h1_mid s) ++
          [17] ++ le16 (neg1_dialect_index (n1_dialects n)) ++ [3] ++ le16 50 ++ le16 50 ++
          le32 65536 ++ le32 65536 ++ le32 0 ++ le32 2147607548).
  exists (le16 60 ++ [0] ++ le16 (wrap16 (lenN neg + 16)) ++ zeros 16 ++ neg).
  split; [reflexivity|]. split; [reflexivity|].
  split; repeat rewrite <- app_assoc; reflexivity.
Qed.

Lemma hdr2_repl_clk neg chal ft ft' s :
  q2 s ->
  hdr2_repl neg chal ft s = hdr2_repl neg chal ft' s \/
  exists A B, length A = 104%nat /\ firstn 20 A = K2 /\
    hdr2_repl neg chal ft s = Some (A ++ le64 ft ++ le64 ft ++ B) /\
    hdr2_repl neg chal ft' s = Some (A ++ le64 ft' ++ le64 ft' ++ B).
Proof.
  intros Q. unfold q2 in Q. unfold hdr2_repl.
  destruct (h2_pay s) as [[n|u]|]; [|left; reflexivity|left; reflexivity].
  destruct Q as [_ [Hc Hg]]. cbn [pay2_repl]. unfold neg2_repl.
  destruct (negb (d_st (n2_d n) =? N2_END)); [left; reflexivity|].
  destruct (neg2_pick (n2_dialects n)) as [dialect|]; [|left; reflexivity].
  right. rewrite Hc.
  exists (SMB2_MAGIC ++ le16 64 ++ le16 0 ++ le32 0 ++ le16 0 ++ le16 1 ++ le32 1 ++ le32 0 ++
          le64 (h2_message_id s) ++ le64 (h2_async_id s) ++ le64 (h2_session_id s) ++ zeros 16 ++
          le16 65 ++ le16 1 ++ le16 dialect ++ le16 1 ++ n2_client_guid n ++
          le32 1 ++ le32 65536 ++ le32 65536 ++ le32 65536).
  exists (le16 128 ++ le16 (wrap16 (lenN neg)) ++ le32 0 ++ neg).
  split; [rewrite !app_length, Hg; reflexivity|]. split; [reflexivity|].
  split; repeat rewrite <- app_assoc; reflexivity.
Qed.

(* ---- NetBIOS session layer, generic in the payload parser ---- *)
Section Nbt.
Variable T : Type.
Variable t_new : T.
Variable t_byte : T -> N -> res T.
Variable Q : T -> Prop.
Hypothesis Qnew : Q t_new.
Hypothesis Qstep : forall p b p', Q p -> t_byte p b = Ok p' -> Q p'.

Lemma nbt_fold_q data s :
  fold_res (nbt_byte T t_new t_byte) data (nbt_new T) = Ok s ->
  match nb_pay T s with Some p => Q p | None => True end.
Proof.
  apply (fold_res_keep (nbt_byte T t_new t_byte)
           (fun s => match nb_pay T s with Some p => Q p | None => True end)); [|exact I].
  clear s. intros s b s' Hq H. unfold nbt_byte in H.
  destruct (d_st (nb_d T s) =? NB_TYPE). { apply ok_inj' in H. subst s'. exact Hq. }
  destruct (d_st (nb_d T s) =? NB_RESERVED). { apply ok_inj' in H. subst s'. exact Hq. }
  destruct (d_st (nb_d T s) =? NB_LENGTH).
  { destruct (read_u16 _ _ _ _). apply ok_inj' in H. subst s'. exact Hq. }
  destruct (t_byte _ b) as [p'|] eqn:Ep; cbn [bind] in H; [|discriminate].
  apply ok_inj' in H. subst s'. cbn [set_nb_pay nb_pay].
  refine (Qstep _ _ _ _ Ep).
  destruct (nb_pay T s); [exact Hq | exact Qnew].
Qed.
End Nbt.

(* the NetBIOS framing only looks at the length of what it wraps *)
Lemma nbt_run_clk T t_new t_byte (Q : T -> Prop) (r r' : T -> option bytes) (k : nat) (K : bytes)
      (ft ft' : bytes) data :
  Q t_new -> (forall p b p', Q p -> t_byte p b = Ok p' -> Q p') ->
  length ft = length ft' ->
  (forall p, Q p -> r p = r' p \/
     exists A B, length A = k /\ firstn (length K) A = K /\ r p = Some (A ++ ft ++ B) /\ r' p = Some (A ++ ft' ++ B)) ->
  nbt_run T t_new t_byte r data = nbt_run T t_new t_byte r' data \/
  exists A B, length A = (4 + k)%nat /\ firstn (4 + length K) A = firstn 4 A ++ K /\ u8_at 0 A = 0 /\
    nbt_run T t_new t_byte r data = Ok (Some (A ++ ft ++ B)) /\
    nbt_run T t_new t_byte r' data = Ok (Some (A ++ ft' ++ B)).
Proof.
  intros Qnew Qstep Hl Hr. unfold nbt_run.
  destruct (fold_res (nbt_byte T t_new t_byte) data (nbt_new T)) as [s|e] eqn:Ef; cbn [bind]; [|left; reflexivity].
  pose proof (nbt_fold_q T t_new t_byte Q Qnew Qstep data s Ef) as Hq.
  unfold nbt_repl. destruct (nb_pay T s) as [p|]; [|left; reflexivity].
  destruct (Hr p Hq) as [-> | (A & B & HA & HK & -> & ->)]; [left; reflexivity|].
  assert (HL : lenN (A ++ ft ++ B) = lenN (A ++ ft' ++ B)).
  { unfold lenN. rewrite !app_length, Hl. reflexivity. }
  rewrite <- HL. cbv zeta.
  destruct (256 <=? _); [left; reflexivity|].
  right.
  set (hi := N.land (N.shiftr (N.land (lenN (A ++ ft ++ B)) 131071 mod W32) 16) 255).
  set (lo := N.land (N.land (lenN (A ++ ft ++ B)) 131071) 65535).
  exists ([0; hi] ++ be16 lo ++ A), B.
  split; [rewrite !app_length, HA; reflexivity|].
  split; [cbn [app be16 firstn Nat.add]; rewrite HK; reflexivity|].
  split; [reflexivity|].
  split; repeat rewrite <- app_assoc; reflexivity.
Qed.

Lemma pay1_hdr1_q p b p' : q1 p -> hdr1_byte p b = Ok p' -> q1 p'.
Proof. apply hdr1_byte_q1. Qed.

Theorem smb1_repl_clk neg chal ft ft' data :
  smb1_repl neg chal ft data = smb1_repl neg chal ft' data \/
  exists A B, length A = 60%nat /\ firstn 14 A = firstn 4 A ++ K1 /\ u8_at 0 A = 0 /\
    smb1_repl neg chal ft data = Ok (Some (A ++ le64 ft ++ B)) /\
    smb1_repl neg chal ft' data = Ok (Some (A ++ le64 ft' ++ B)).
Proof.
  unfold smb1_repl.
  apply (nbt_run_clk hdr1 hdr1_new hdr1_byte q1 _ _ 56 K1 (le64 ft) (le64 ft') data q1_new hdr1_byte_q1);
    [reflexivity|].
  intros p Hq. exact (hdr1_repl_clk neg chal ft ft' p Hq).
Qed.

Theorem smb2_repl_clk neg chal ft ft' data :
  smb2_repl neg chal ft data = smb2_repl neg chal ft' data \/
  exists A B, length A = 108%nat /\ firstn 24 A = firstn 4 A ++ K2 /\ u8_at 0 A = 0 /\
    smb2_repl neg chal ft data = Ok (Some (A ++ (le64 ft ++ le64 ft) ++ B)) /\
    smb2_repl neg chal ft' data = Ok (Some (A ++ (le64 ft' ++ le64 ft') ++ B)).
Proof.
  unfold smb2_repl.
  apply (nbt_run_clk hdr2 hdr2_new hdr2_byte q2 _ _ 104 K2 (le64 ft ++ le64 ft) (le64 ft' ++ le64 ft') data
           q2_new hdr2_byte_q2); [reflexivity|].
  intros p Hq. destruct (hdr2_repl_clk neg chal ft ft' p Hq) as [H | (A & B & HA & HK & H1 & H2)]; [left; exact H|].
  right. exists A, B. rewrite H1, H2. repeat split; try assumption; rewrite <- app_assoc; reflexivity.
Qed.
