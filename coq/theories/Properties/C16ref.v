(* Properties/C16ref.v -- C16 with monitors that do not use the model's address printer
   (Spec/C16ref.v): the universal addresses of GETADDR / DUMP replies are READ with the
   independent readers of Spec/RefIp6Text.v ([uaddr_ok]: the received string parses to
   exactly the contacted address and port), everything else is compared exactly.
   The old monitors (Spec/C16.v, comparing with [uaddr_text] = [render_ip]) imply the new
   ones on every well-formed context, hence on every frame; the proto-level theorems of
   Properties/C16.v and the frame-level theorems of Properties/Current.v carry over.
   Statements only; proofs in Proofs/C16Ref.v. *)
From MS Require Import Rpc Proto L2 Spec.View Spec.TcpRef Spec.AppView Spec.History
  Spec.RefXdr Spec.C16 Spec.RefIp6Text Spec.C16ref Instance
  Proofs.TcpState Proofs.C07 Proofs.LiftTcp Proofs.C16Reply Proofs.C16Examples Proofs.C16Ip6Examples
  Proofs.FrameBuild Proofs.C16Frame Proofs.C16Ref.

(* the old payload-level monitor implies the new one on well-formed contexts
   ([ctx_wf]: the contacted address has 4 / 16 octets, the port is below 65536) *)
Theorem C16_ref_implied :
  forall strict ctx p o, ctx_wf ctx = true ->
    app_ok_C16_gen strict ctx p o = true -> app_ok_C16_ref_gen strict ctx p o = true.
Proof. exact app_ok_C16_ref_implied. Qed.
(* every frame gives a well-formed context *)
Theorem C16_ref_frame_ctx_wf : forall tcp ctx, frame_ctx_ok tcp ctx -> ctx_wf ctx = true.
Proof. exact frame_ctx_wf. Qed.
(* [ctx_ok] (the hypothesis of Properties/C16.v) alone would not do *)
Theorem C16_ref_needs_wf :
  exists ctx p o, ctx_ok ctx /\ ctx_wf ctx = false /\
    app_ok_C16_gen true ctx p o = true /\ app_ok_C16_ref_gen true ctx p o = false.
Proof. exact ex_ref_needs_wf. Qed.

(* the frame-level monitors: old implies new, on every frame *)
Theorem C16_ref_udp_implied :
  forall cfg f r, bytes_ok f = true -> ok_C16_udp cfg f r = true -> ok_C16_udp_ref cfg f r = true.
Proof. exact ok_C16_udp_ref_implied. Qed.
Theorem C16_ref_udp_strict_implied :
  forall cfg f r, bytes_ok f = true -> ok_C16_udp_strict cfg f r = true -> ok_C16_udp_ref_strict cfg f r = true.
Proof. exact ok_C16_udp_ref_strict_implied. Qed.
Theorem C16_ref_tcp_implied :
  forall cfg st f r, bytes_ok f = true -> ok_C16_tcp cfg st f r = true -> ok_C16_tcp_ref cfg st f r = true.
Proof. exact ok_C16_tcp_ref_implied. Qed.
Theorem C16_ref_tcp_strict_implied :
  forall cfg st f r, bytes_ok f = true -> ok_C16_tcp_strict cfg st f r = true -> ok_C16_tcp_ref_strict cfg st f r = true.
Proof. exact ok_C16_tcp_ref_strict_implied. Qed.

(* what the new monitor accepts for GETADDR / DUMP of rpcbind v3 / v4: the shape the property
   prescribes, with addresses that read back to the contacted endpoint *)
Theorem C16_ref_getaddr_sound :
  forall ip port c b, body_ok_ref ip port c b = true ->
    (rc_vers c =? 3) || (rc_vers c =? 4) = true -> rc_prog c = PMAP_PROG -> rc_proc c = 3 ->
    exists s, b = AccSuccess (ResUaddr s) /\ uaddr_ok ip port s = true.
Proof. exact body_ok_ref_getaddr. Qed.
Theorem C16_ref_dump_sound :
  forall ip port c b, body_ok_ref ip port c b = true ->
    (rc_vers c =? 3) || (rc_vers c =? 4) = true -> rc_prog c = PMAP_PROG -> rc_proc c = 4 ->
    exists a2 a3 a4,
      b = AccSuccess (ResDump3 [(PMAP_PROG, 2, netid_of ip, a2, OWNER); (PMAP_PROG, 3, netid_of ip, a3, OWNER);
                                (PMAP_PROG, 4, netid_of ip, a4, OWNER)]) /\
      uaddr_ok ip port a2 = true /\ uaddr_ok ip port a3 = true /\ uaddr_ok ip port a4 = true.
Proof. exact body_ok_ref_dump. Qed.

(* proto::repl: C16_proto_udp_monitor / C16_proto_tcp_monitor (Properties/C16.v) for the new monitors *)
Theorem C16_proto_udp_monitor_ref :
  forall E clk cfg ms md ctx p,
    a_tcp ctx = false -> bytes_ok p = true -> ctx_wf ctx = true ->
    udp_id E p = Some PROTO_RPC_UDP ->
    exists o, proto_repl_udp E clk (ctx_ci cfg ms md ctx) p = Ok (ctx_ci cfg ms md ctx, o) /\
              app_ok_C16_ref_strict ctx p o = true /\ app_ok_C16_ref ctx p o = true.
Proof. exact C16_proto_udp_ref. Qed.
Theorem C16_proto_tcp_monitor_ref :
  forall E clk cfg ms md ctx p,
    a_tcp ctx = true -> bytes_ok p = true -> ctx_wf ctx = true ->
    tcp_first_id E p = Some PROTO_RPC_TCP ->
    exists tc' o, proto_repl_tcp E clk (ctx_ci cfg ms md ctx) tcb_new p = Ok (ctx_ci cfg ms md ctx, tc', o) /\
                  app_ok_C16_ref_strict ctx p o = true /\ app_ok_C16_ref ctx p o = true.
Proof. exact C16_proto_tcp_ref. Qed.

(* frames, current implementation, no identification hypothesis: C16_current_frame_udp /
   _tcp_first / _tcp_first_state (Properties/Current.v) for the new monitors *)
Theorem C16_current_frame_udp_ref :
  forall cfg clk tb f tb' r evs,
    cfg_ok cfg = true -> bytes_ok f = true ->
    reply the_env cfg clk tb f = Ok (tb', r, evs) ->
    ok_C16_udp_ref cfg f r = true.
Proof. exact frame_udp_C16_ref_current. Qed.

Theorem C16_current_frame_tcp_first_ref :
  forall cfg h clk tb f tb' r evs,
    cfg_ok cfg = true ->
    Forall (fun x => bytes_ok x = true) (frames h) -> bytes_ok f = true ->
    run the_env cfg [] h = Ok tb ->
    (forall v, view_tcp cfg f = Some v -> no_collision cfg (flow_of v :: ref_run cfg (frames h))) ->
    reply the_env cfg clk tb f = Ok (tb', r, evs) ->
    ok_C16_tcp_ref cfg (ref_run cfg (frames h)) f r = true.
Proof. exact frame_tcp_C16_ref_current. Qed.

Theorem C16_current_frame_tcp_first_state_ref :
  forall cfg clk tb f tb' r evs v,
    cfg_ok cfg = true -> bytes_ok f = true ->
    view_tcp cfg f = Some v ->
    is_data (tcp_flags (v_l4 v)) = true ->
    tbl_mem (flow_cookie cfg (flow_of v)) tb = false ->
    presents_cookie cfg v = true ->
    reply the_env cfg clk tb f = Ok (tb', r, evs) ->
    exists o, tcp_resp r = Some o /\ app_ok_C16_ref (ctx_of true v) (tcp_payload (v_l4 v)) o = true.
Proof. exact frame_tcp_C16_ref_current_state. Qed.

(* closed evaluations: other correct spellings accepted ("0:0:0:0:0:0:0:1.0.111",
   "2001:DB8::1.255.255") where the old monitor rejects them; wrong address / port / XID /
   verifier / netid / number or order of entries / owner rejected; address-free parts exact;
   the model's output and frames of the current tables accepted; the known class unchanged *)
Theorem C16_ref_examples_getaddr :
  app_ok_C16_ref_strict (r_ctx61 false) (ser_call x_getaddr) (Some (r_reply r_xid (AccSuccess (ResUaddr x_ua_1_111_long)))) = true /\
  app_ok_C16_strict (r_ctx61 false) (ser_call x_getaddr) (Some (r_reply r_xid (AccSuccess (ResUaddr x_ua_1_111_long)))) = false /\
  app_ok_C16_ref_strict (x_ctx6 true) (ser_call_tcp x_getaddr)
    (Some (r_marked (r_reply r_xid (AccSuccess (ResUaddr r_ua_upper))))) = true /\
  app_ok_C16_ref_strict (r_ctx61 false) (ser_call x_getaddr) (Some (r_reply r_xid (AccSuccess (ResUaddr x_ua_2_111)))) = false /\
  app_ok_C16_ref_strict (r_ctx61 false) (ser_call x_getaddr) (Some (r_reply r_xid (AccSuccess (ResUaddr x_ua_1_2049)))) = false.
Proof. exact ex_ref_getaddr_short. Qed.
Theorem C16_ref_examples_dump :
  app_ok_C16_ref_strict (r_ctx61 false) (ser_call x_dump)
    (Some (r_reply r_xid (r_dump r_tcp6 x_ua_1_111 x_ua_1_111_long x_ua_1_111))) = true /\
  app_ok_C16_ref_strict (x_ctx4 false) (ser_call x_dump) (Some (r_reply r_xid (r_dump r_tcp6 r_ua4 r_ua4 r_ua4))) = false /\
  app_ok_C16_ref_strict (x_ctx4 false) (ser_call x_dump) (Some (r_reply r_xid (r_dump r_tcp r_ua4 r_ua4_other r_ua4))) = false /\
  app_ok_C16_ref_strict (x_ctx4 false) (ser_call x_dump)
    (Some (r_reply r_xid (AccSuccess (ResDump3 [(100000, 2, r_tcp, r_ua4, OWNER); (100000, 3, r_tcp, r_ua4, OWNER)])))) = false.
Proof. exact ex_ref_dump_short. Qed.
Theorem C16_ref_examples_model :
  ctx_wf (x_ctx4 false) = true /\ ctx_wf (x_ctx6 true) = true /\ ctx_wf (r_ctx61 false) = true /\
  udp_id the_env (ser_call x_dump) = Some PROTO_RPC_UDP /\
  app_ok_C16_ref_strict (x_ctx4 false) (ser_call x_dump) (udp_out (x_ctx4 false) (ser_call x_dump)) = true /\
  app_ok_C16_ref_strict (r_ctx61 false) (ser_call x_dump) (udp_out (r_ctx61 false) (ser_call x_dump)) = true /\
  tcp_first_id the_env (ser_call_tcp x_getaddr) = Some PROTO_RPC_TCP /\
  app_ok_C16_ref_strict (x_ctx6 true) (ser_call_tcp x_getaddr) (tcp_out (x_ctx6 true) (ser_call_tcp x_getaddr)) = true /\
  app_ok_C16_ref_strict (x_ctx4 false) (ser_call x_shadow_udp) None = false /\
  app_ok_C16_ref (x_ctx4 false) (ser_call x_shadow_udp) None = true /\
  app_ok_C16_ref_strict (x_ctx4 true) (ser_call_tcp x_shadow_tcp) None = false /\
  app_ok_C16_ref (x_ctx4 true) (ser_call_tcp x_shadow_tcp) None = true.
Proof. exact ex_ref_model. Qed.
Theorem C16_ref_examples_frames :
  cfg_ok fx_cfg = true /\ bytes_ok c16_udp_frame = true /\ bytes_ok c16_tcp_frame = true /\
  ok_C16_udp_ref_strict fx_cfg c16_udp_frame c16_udp_reply = true /\
  ok_C16_udp_ref fx_cfg c16_udp_frame c16_udp_reply = true /\
  ok_C16_udp_ref fx_cfg c16_udp_frame None = false /\
  ok_C16_tcp_ref_strict fx_cfg [] c16_tcp_frame c16_tcp_reply = true /\
  ok_C16_tcp_ref fx_cfg [] c16_tcp_frame c16_tcp_reply = true /\
  ok_C16_tcp_ref fx_cfg [] c16_tcp_frame None = false.
Proof. exact ex_ref_frames. Qed.

Print Assumptions C16_ref_implied.
Print Assumptions C16_ref_frame_ctx_wf.
Print Assumptions C16_ref_needs_wf.
Print Assumptions C16_ref_udp_implied.
Print Assumptions C16_ref_udp_strict_implied.
Print Assumptions C16_ref_tcp_implied.
Print Assumptions C16_ref_tcp_strict_implied.
Print Assumptions C16_ref_getaddr_sound.
Print Assumptions C16_ref_dump_sound.
Print Assumptions C16_proto_udp_monitor_ref.
Print Assumptions C16_proto_tcp_monitor_ref.
Print Assumptions C16_current_frame_udp_ref.
Print Assumptions C16_current_frame_tcp_first_ref.
Print Assumptions C16_current_frame_tcp_first_state_ref.
Print Assumptions C16_ref_examples_getaddr.
Print Assumptions C16_ref_examples_dump.
Print Assumptions C16_ref_examples_model.
Print Assumptions C16_ref_examples_frames.
