"""C10 -- protocol identification is decided by leading bytes against the signature set."""
import os, subprocess, struct
import net, gens, runner, build, sigs
from common import *
from runner import Script, Cfg

ID = "C10"
THEOREMS = ["C10_product_sound", "C10_product_sound_lax", "C10_product_sound_tcp", "C10_check_sound", "C10_product_sound_refined",
            "C10_dead_points", "C10_current_product_ok", "C10_current_product_ok_lax", "C10_current", "C10_current_tcp",
            "C10_current_refined", "C10_segmentation", "C10_segmentation_any", "C10_segmentation_tcb",
            "C10_segmentation_current", "C10_segmentation_pending", "C10_segmentation_tcb_new", "C10_identified_early", "C10_unidentified_forever", "C10_segmentation_nonvacuous", "C10_dispatch_udp", "C10_dispatch_tcp_none",
            "C10_dispatch_tcp_some", "C10_id_independent_of_ctx", "C10_dispatch_responders", "C10_no_signature_udp",
            "C10_no_signature_tcp", "C10_signature_udp", "C10_signature_tcp", "C10_known_covers", "C10_known_needed",
            "C10_known_witnesses", "C10_examples", "C10_ref_is_direct_reading", "C10_ref_tie_free", "SrcTie.src_protocol_ids", "SrcTie.src_smack_constants", "SrcTie.src_signatures_are_published", "Env.the_env_ok"]
MONITORS = []
RULE = ("(1) matcher level, through the hook that calls the real PROTO_SMACK.search_next / search_next_end: one access "
        "string per reachable state of the product (compiled matcher x reference signature automaton; 297 states, "
        "computed by the extracted model from the table dumped on this run), each extended by every byte value "
        "(quick: the bytes occurring in some signature plus a grid; thorough: all 256) and by END, in datagram and in "
        "stream mode; random segmentations with the state carried across segments. Compared with the extracted model "
        "(id, state, offset) and judged against an independent Python reading of the published signature list "
        "(harness/sigs.py), outside the known class (extracted predicate c10_class_payload). (2) frame level, through "
        "reply(): every access string as UDP datagram and as first TCP segment (and followed by a second segment), "
        "complete valid requests of every protocol on several ports, both transports and IP versions, every cut of "
        "the signature prefix over TCP; the responder that answered is classified from the reply bytes and must be the "
        "one the published list prescribes; unidentified payloads must not be answered by a signature-dispatched "
        "responder. non-trivial = script whose payloads include a completed signature")
TRUSTED = ["Coq 8.16.1 kernel + vm_compute", "extraction (ExtrOcamlBasic) + ocaml/model_run.ml", "harness/*.py incl. sigs.py",
           "Rust hooks verif_driver.rs, proto::verif_proto_search, Smack::verif_dump (the table the data path uses)",
           "data translator harness/gen_tables.py"]
ASSUMPTIONS = ["known class wildcard_shadowing (K0, 92 points of the reference automaton, Spec/C10Known.v): payloads whose "
               "reference run passes such a point are excluded from the equality theorem and from the oracle",
               "which complete requests a responder answers is the subject of C13/C15/C16/C17/C18; C10 contributes the "
               "dispatch equations"]

KEY = (0x10, 0x01)
ENVV = dict(os.environ, MASSCANNED_VERIF="1")


# ---------------- model side: product states, reference, class ----------------
def model_lines(text):
    return runner._run_proc([MODEL_RUN, build.ENVFILE, ""], text).split("\n")


_STATES = None


def product_states():
    global _STATES
    if _STATES is None:
        _STATES = []
        for l in model_lines("C10STATES\n"):
            w = l.split()
            if w and w[0] == "S":
                _STATES.append((b"" if w[1] == "-" else bytes.fromhex(w[1]), int(w[2])))
    return _STATES


def table_disagreements():
    """strings outside the known class on which the dumped table and the Coq reference differ (empty on the unchanged tree)"""
    out, oks = [], None
    for l in model_lines("C10DIS\n"):
        w = l.split()
        if w and w[0] == "D":
            sym = [int(x) for x in w[1].split(",")]
            out.append((bytes(x for x in sym if x < 256), sym[-1] == 256, w[2], w[3]))
        elif w and w[0] == "OKS":
            oks = (w[1] == "1", w[2] == "1")
    return out, oks


def model_ref(payloads):
    """-> list of (ref_udp, ref_tcp, class_udp, class_tcp) from the extracted reference"""
    res = []
    for l in model_lines("".join("C10 %s\n" % p.hex() for p in payloads)):
        w = l.split()
        if w and w[0] == "X":
            res.append((None if w[1] == "none" else int(w[1]), None if w[2] == "none" else int(w[2]), w[3] == "1", w[4] == "1"))
    assert len(res) == len(payloads)
    return res


def run_matcher(queries, impl, driver=None):
    """queries: list of (state, end, payload) -> list of (id or None, state, offset)"""
    if not queries:
        return []
    text = "".join("M %d %d %s\n" % (st, 1 if e else 0, p.hex()) for st, e, p in queries)
    if impl:
        out = subprocess.run([driver or DRIVER_DEV], input=text, stdout=subprocess.PIPE, stderr=subprocess.DEVNULL, text=True,
                             env=ENVV).stdout
        rows = [l.split()[1:] for l in out.split("\n") if l.startswith("@@M")]
    else:
        rows = [l.split()[1:] for l in model_lines(text) if l.startswith("M ")]
    assert len(rows) == len(queries), (len(rows), len(queries))
    return [(None if r[0] == "none" else int(r[0]), int(r[1]), int(r[2])) for r in rows]


class MatcherProc:
    """persistent driver process for dependent matcher queries (state carried across segments)"""

    def __init__(self, driver):
        self.p = subprocess.Popen([driver], stdin=subprocess.PIPE, stdout=subprocess.PIPE, stderr=subprocess.DEVNULL, text=True, env=ENVV)

    def ask(self, st, end, data):
        self.p.stdin.write("M %d %d %s\n" % (st, 1 if end else 0, data.hex()))
        self.p.stdin.flush()
        while True:
            l = self.p.stdout.readline()
            if not l:
                raise RuntimeError("driver died")
            if l.startswith("@@M"):
                w = l.split()
                return (None if w[1] == "none" else int(w[1]), int(w[2]), int(w[3]))

    def close(self):
        self.p.stdin.close()
        self.p.wait()


# ---------------- responders, classified from reply bytes ----------------
def responder_of(app, tcp):
    if app.startswith(b"HTTP/1.1 401"):
        return sigs.HTTP
    if app.startswith(b"SSH-2.0-"):
        return sigs.SSH
    if app.startswith(b"Gh0st"):
        return sigs.GHOST
    if len(app) >= 20 and app[:2] == b"\x01\x01":
        return sigs.STUN
    if len(app) >= 8 and app[4:8] == b"\xffSMB":
        return sigs.SMB1
    if len(app) >= 8 and app[4:8] == b"\xfeSMB":
        return sigs.SMB2
    if len(app) >= 28 and app[0] & 0x80 and app[8:12] == b"\0\0\0\1":
        return sigs.RPC_TCP
    if len(app) >= 24 and app[4:8] == b"\0\0\0\1" and app[8:12] == b"\0\0\0\0":
        return sigs.RPC_UDP
    if not tcp and len(app) >= 12 and app[2] & 0x80:
        return "dns"
    return "unknown"


SMB1_NEG = bytes.fromhex("00000054ff534d4272000000001843c80000000000000000000000000000feff0000000000310002") + \
    b"NT LANMAN 1.0\x00\x02NT LM 0.12\x00\x02SMB 2.002\x00\x02SMB 2.???\x00"
SMB2_NEG = bytes.fromhex("00000068fe534d42400000000000000000001f0000000000000000000700000000000000000000000000"
                         "000000000000000000000000000000000000000000000000000024000200010000007f000000"
                         "a0a1a2a3a4a5a6a7a8a9aaabacadaeaf780000000300000002021002")


def valid_requests():
    """(name, payload, protocol, over tcp?, over udp?) -- complete valid requests (answered when identified)"""
    out = []
    for v in sigs.VERBS:
        out.append(("http-" + v.decode(), gens.http_req(verb=v), sigs.HTTP, True, True))
    out += [("ssh2", b"SSH-2.0-OpenSSH_8.9\r\n", sigs.SSH, True, True), ("ssh199", b"SSH-1.99-x y\r\n", sigs.SSH, True, True),
            ("ghost", b"Gh0st\x16\0\0\0\1\0\0\0x", sigs.GHOST, True, True),
            ("stun-empty", gens.stun_req(tid=bytes(range(0x30, 0x40))), sigs.STUN, False, True),
            ("stun-change", gens.stun_req(tid=bytes(range(0x30, 0x40)), attrs=gens.stun_attr(3, b"\0\0\0\2")), sigs.STUN, False, True),
            ("stun-magic-long", gens.stun_req(attrs=gens.stun_attr(0x8022, b"x" * 252), magic=True), sigs.STUN, True, True),
            ("rpc-udp", gens.rpc_call(xid=0xa1b2c3d4), sigs.RPC_UDP, False, True),
            ("rpc-tcp", gens.rpc_call(xid=0xa1b2c3d4, tcp=True), sigs.RPC_TCP, True, False),
            ("smb1", SMB1_NEG, sigs.SMB1, True, True), ("smb2", SMB2_NEG, sigs.SMB2, True, True)]
    return out


SIG_BYTES = sorted({b for pat, _, _ in sigs.SIGNATURES for b in pat if b is not None} | {0, 1, 0x2a, 0x7f, 0x80, 0xfe, 0xff, 0x20, 0x2f})


# ---------------- scripts ----------------
# matcher-level scripts carry payloads instead of frames; tag "M|udp", "M|tcp" (one-shot) or "M|seg" (segments of one stream)
def corpus():
    # the known class: one committed witness per family (table and reference differ)
    ws = [bytes.fromhex("4700000100000000000000020001 86a0000000020000000300000000000000000000000000000000".replace(" ", "")),
          bytes.fromhex("0001000c2112a442aabbccddeeffffeeddccbbaa802200056162636465000000"),
          bytes.fromhex("123456780000000000000002000186a000000002000000")]
    yield Script(Cfg(key=KEY), ws, "M|udp|corpus:wildcard_shadowing")
    yield Script(Cfg(key=KEY), [bytes.fromhex("8000003800123456000000000000000200 0186a00000000200000003".replace(" ", "")) + bytes(36),
                                bytes.fromhex("000100002112a4420102030405060708090a0b0c")], "M|tcp|corpus:wildcard_shadowing")
    b = []
    for w in ws[:2]:
        b.append(net.frame_udp(gens.PEER4, gens.SELF4, 4000, 111, w))
    yield Script(Cfg(key=KEY), b, "F|corpus:wildcard_shadowing")


def generate(tier, rng):
    thorough = tier == "thorough"
    cfg = Cfg(key=KEY)
    states = product_states()
    # (1) matcher level: access string x byte, access string + END
    exts = list(range(256)) if thorough else sorted(set(SIG_BYTES + [rng.randrange(256) for _ in range(8)]))
    pl = []
    for acc, row in states:
        pl.append(acc)
        for x in exts:
            pl.append(acc + bytes([x]))
    for i in range(0, len(pl), 4000):
        yield Script(cfg, pl[i:i + 4000], "M|udp|product-sweep")
        yield Script(cfg, pl[i:i + 4000], "M|tcp|product-sweep")
    # segmentations of streams that extend access strings
    k = 0
    for acc, row in states:
        if len(acc) < 2:
            continue
        s = acc + bytes([0x2f, 0x00, 0x41])
        for _ in range(3 if thorough else 1):
            n = rng.randint(1, min(4, len(s) - 1))
            cuts = sorted(rng.sample(range(1, len(s)), n))
            segs = [s[a:b] for a, b in zip([0] + cuts, cuts + [len(s)])]
            yield Script(cfg, segs, "M|seg|%d" % k)
            k += 1
    # (2) frame level: access strings as datagram / first segment / first + second segment
    fu, ft, sport = [], [], 10000
    for acc, row in states:
        if not acc:
            continue
        sport += 1
        v6 = sport % 2 == 0
        s, d = gens.addr_pair(v6)
        fu.append(net.frame_udp(s, d, sport, rng.choice([53, 80, 111, 445, 3478, 65535]), acc))
        fu.append(net.frame_udp(s, d, sport, rng.choice([53, 3478]), acc + b"\x00\x01 / more\r\n\r\n"))
        fu.append(net.frame_udp(s, d, sport, 53, acc + bytes(rng.randrange(256) for _ in range(rng.randrange(1, 40)))))
        ft += gens.handshake(KEY, s, d, sport, rng.choice([22, 80, 111, 445, 3478]), [acc, b"\x00\x01 / more\r\n\r\n"])
    for i in range(0, len(fu), 150):
        yield Script(cfg, fu[i:i + 150], "F|access-udp")
    for i in range(0, len(ft), 150):
        yield Script(cfg, ft[i:i + 150], "F|access-tcp")
    # complete valid requests on several ports, both transports / IP versions; cuts of the signature prefix
    fr = []
    for name, p, proto, t, u in valid_requests():
        for v6 in (False, True):
            s, d = gens.addr_pair(v6)
            for dport in (rng.choice([1, 53, 80, 111]), rng.choice([445, 3478, 8080, 65535])):
                sport += 1
                if u:
                    fr.append(net.frame_udp(s, d, sport, dport, p))
                if t:
                    fr += gens.handshake(KEY, s, d, sport, dport, [p])
    yield Script(cfg, fr, "F|valid-requests")
    fr = []
    for name, p, proto, t, u in valid_requests():
        if not t:
            continue
        siglen = min(len(pat) for pat, pid, anc in sigs.SIGNATURES if pid == proto and not anc)
        cuts = [[c] for c in range(1, min(siglen + 2, len(p)))]
        if thorough:
            cuts += [[a, b] for a in range(1, siglen + 1) for b in range(a + 1, siglen + 2)]
        else:
            cuts += [sorted(rng.sample(range(1, siglen + 2), 2)) for _ in range(3)]
        for c in cuts:
            pts = [0] + c + [len(p)]
            sport += 1
            fr += gens.handshake(KEY, gens.PEER4, gens.SELF4, sport, 80, [p[pts[i]:pts[i + 1]] for i in range(len(pts) - 1)] + [p])
    yield Script(cfg, fr, "F|signature-cuts")
    # near misses: one byte of the signature prefix changed, for every position
    fr = []
    for name, p, proto, t, u in valid_requests():
        siglen = max(len(pat) for pat, pid, anc in sigs.SIGNATURES if pid == proto)
        for pos in range(min(siglen, len(p))):
            for x in ((p[pos] ^ 0x20), (p[pos] + 1) & 0xff, 0x2a, 0x00):
                if x == p[pos]:
                    continue
                q = p[:pos] + bytes([x]) + p[pos + 1:]
                sport += 1
                if u:
                    fr.append(net.frame_udp(gens.PEER4, gens.SELF4, sport, 80, q))
                elif t:
                    fr += gens.handshake(KEY, gens.PEER4, gens.SELF4, sport, 80, [q])
    for i in range(0, len(fr), 200):
        yield Script(cfg, fr[i:i + 200], "F|near-misses")


def search(rng):
    """After a broken proof obligation: the strings on which the dumped table leaves the reference outside the known class."""
    dis, oks = table_disagreements()
    ud = [p for p, end, m, r in dis if end] + [p for p, end, m, r in dis if not end]
    if ud:
        yield Script(Cfg(key=KEY), ud[:2000], "M|udp|table-disagreements")
        yield Script(Cfg(key=KEY), [p for p, end, m, r in dis if not end][:2000], "M|tcp|table-disagreements")


def nontrivial(script):
    if script.tag.startswith("M|"):
        return any(sigs.ref_udp(p) is not None for p in script.frames)
    return True


def project(script, i, o):
    return None


def app_of(o):
    if o.kind != "R":
        return (o.kind,)
    p = net.parse_frame(o.reply)
    if p is None or p.proto not in (6, 17):
        return ("R", "other")
    return ("R", p.proto, runner.mask_app(p.app))


def evaluate_custom(scripts, drivers):
    issues = []
    stats = {"frames": 0, "replies": 0, "silence": 0, "panics": 0, "monitor_evals": 0, "matcher_queries": 0,
             "segmentations": 0, "product_states": len(product_states()), "in_known_class": 0, "identified": {}}
    msc = [s for s in scripts if s.tag.startswith("M|")]
    fsc = [s for s in scripts if not s.tag.startswith("M|")]
    for dname, driver in drivers:
        # ---- matcher level ----
        mp = MatcherProc(driver) if any(s.tag.split("|")[1] == "seg" for s in msc) else None
        for s in msc:
            mode = s.tag.split("|")[1]
            if mode == "seg":
                whole = b"".join(s.frames)
                st, off, got = 0, 0, None
                for g in s.frames:
                    i, st, o = mp.ask(st, False, g)
                    if i is not None:
                        got = (i, off + o)
                        break
                    off += len(g)
                wi, wst, wo = mp.ask(0, False, whole)
                stats["segmentations"] += 1
                stats["monitor_evals"] += 1
                exp = None if wi is None else (wi, wo)
                if got != exp:
                    issues.append({"kind": "monitor", "script": s, "frame": len(s.frames) - 1, "driver": dname,
                                   "monitor": "C10-segmentation", "impl": repr(got), "model": repr(exp)})
                continue
            end = mode == "udp"
            q = [(0, end, p) for p in s.frames]
            ri, rm = run_matcher(q, True, driver), run_matcher(q, False)
            refs = model_ref(s.frames)
            stats["matcher_queries"] += len(q)
            for k, p in enumerate(s.frames):
                stats["monitor_evals"] += 1
                if ri[k] != rm[k]:
                    issues.append({"kind": "correspondence", "script": Script(s.cfg, [p], s.tag), "frame": 0, "driver": dname,
                                   "impl": repr(ri[k]), "model": repr(rm[k])})
                pyref = sigs.ref_udp(p) if end else sigs.ref_tcp(p)
                cref = refs[k][0] if end else refs[k][1]
                if pyref != cref:
                    issues.append({"kind": "correspondence", "script": Script(s.cfg, [p], s.tag), "frame": 0, "driver": dname,
                                   "impl": "python reference %r" % (pyref,), "model": "Coq reference %r" % (cref,)})
                cls = refs[k][2] if end else refs[k][3]
                if ri[k][0] is not None:
                    stats["identified"][sigs.NAMES[ri[k][0]]] = stats["identified"].get(sigs.NAMES[ri[k][0]], 0) + 1
                if cls:
                    stats["in_known_class"] += 1
                if ri[k][0] != pyref:
                    issues.append({"kind": "monitor", "script": Script(s.cfg, [p], s.tag), "frame": 0, "driver": dname,
                                   "monitor": "C10-identification", "class": "wildcard_shadowing" if cls else None,
                                   "impl": "identified as %s" % sigs.NAMES.get(ri[k][0]),
                                   "model": "published signatures: %s" % sigs.NAMES.get(pyref)})
        if mp:
            mp.close()
        # ---- frame level ----
        if not fsc:
            continue
        io = runner.run_impl(fsc, driver)
        mo = runner.run_model(fsc, io, ovf=(dname == "dev"))
        for si, s in enumerate(fsc):
            first_seen = set()
            pls = []
            for f in s.frames:
                pf = net.parse_frame(f)
                pls.append(bytes(pf.app) if pf is not None and pf.app is not None and pf.proto in (6, 17) else b"")
            refs = model_ref(pls)
            for fi, f in enumerate(s.frames):
                a, b = io[si][fi], mo[si][fi]
                stats["frames"] += 1
                stats["replies" if a.kind == "R" else "silence" if a.kind == "N" else "panics"] += 1
                if app_of(a) != app_of(b):
                    issues.append({"kind": "correspondence", "script": s, "frame": fi, "driver": dname,
                                   "impl": repr(app_of(a))[:200], "model": repr(app_of(b))[:200]})
                # oracle: only datagrams and FIRST data segments of a flow are judged (later segments: C11)
                pf = net.parse_frame(f)
                if pf is None or pf.app is None or pf.proto not in (6, 17):
                    continue
                tcp = pf.proto == 6
                if tcp:
                    if not (pf.flags & 0x18 == 0x18):
                        continue
                    flow = (pf.ip_src, pf.ip_dst, pf.sport, pf.dport)
                    if flow in first_seen:
                        continue
                    first_seen.add(flow)
                p = bytes(pf.app)
                ref = sigs.ref_tcp(p) if tcp else sigs.ref_udp(p)
                cu, ct, ku, kt = refs[fi]
                cls = kt if tcp else ku
                stats["monitor_evals"] += 1
                ra = app_of(a)
                resp = responder_of(ra[2], tcp) if (ra[0] == "R" and len(ra) == 3 and ra[2]) else None
                bad = None
                if resp is not None and resp not in ("dns", "unknown"):
                    if ref is None:
                        bad = "answered by the %s responder although no signature is completed" % sigs.NAMES[resp]
                    elif resp != ref:
                        bad = "answered by the %s responder, the published signatures say %s" % (sigs.NAMES[resp], sigs.NAMES[ref])
                elif resp == "dns" and ref is not None:
                    bad = "answered by the DNS fallback although the %s signature is completed" % sigs.NAMES[ref]
                if bad is None and s.tag == "F|valid-requests" and ref is not None and resp != ref:
                    bad = "complete valid %s request not answered by its responder (got %s)" % (sigs.NAMES[ref], resp)
                if bad:
                    issues.append({"kind": "monitor", "script": s, "frame": fi, "driver": dname, "monitor": "C10-dispatch",
                                   "class": "wildcard_shadowing" if cls else None, "impl": bad, "model": b.short()[:120]})
    return issues, stats


def known_class(issue):
    return issue.get("class")


def neighbourhood(script, rng):
    yield script
