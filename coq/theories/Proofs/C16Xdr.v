(* C16Xdr.v -- the reference XDR codec (Spec/RefXdr.v) is coherent: readers invert
   writers (and conversely on byte strings), boolean equalities are reflexive. *)
From MS Require Import Proofs.Tactics Spec.RefXdr.

Lemma rd_u32_be32 (x : N) (t : bytes) : x < 4294967296 -> rd_u32 (be32 x ++ t) = Some (x, t).
Proof.
  intros Hx. unfold be32, rd_u32. list_cbn. f_equal. f_equal. lia.
Qed.

Lemma rd_u32_xdr (x : N) (t : bytes) : x < 4294967296 -> rd_u32 (xdr_u32 x ++ t) = Some (x, t).
Proof. apply rd_u32_be32. Qed.

Lemma rd_u32_lit (n : N) (t : bytes) : rd_u32 (0 :: 0 :: 0 :: n :: t) = Some (n, t).
Proof. reflexivity. Qed.

Lemma rd_u32_sound (l t : bytes) (x : N) :
  bytes_ok l = true -> rd_u32 l = Some (x, t) -> l = be32 x ++ t /\ x < 4294967296.
Proof.
  intros Hok H. destruct l as [|a [|b [|c [|d l]]]]; cbn [rd_u32] in H; try discriminate.
  injection H as Hx Ht. subst t.
  cbn [bytes_ok forallb] in Hok. unfold byte_ok in Hok.
  rewrite !andb_true_iff in Hok. destruct Hok as (Ha & Hb & Hc & Hd & _).
  split.
  - unfold be32. list_cbn. repeat f_equal; lia.
  - lia.
Qed.

Lemma rd_u32_short (l : bytes) : (length l < 4)%nat -> rd_u32 l = None.
Proof. destruct l as [|a [|b [|c [|d l]]]]; cbn [length]; intros H; try reflexivity; lia. Qed.

(* ---- padding ---- *)
Lemma xpad_lt (n : nat) : (xpad n < 4)%nat.
Proof. unfold xpad. apply Nat.mod_upper_bound. discriminate. Qed.

Lemma xpad_align (n : nat) : ((n + xpad n) mod 4 = 0)%nat.
Proof. unfold xpad. lia. Qed.

Lemma all_zero_zeros (n : nat) : all_zero (zeros n) = true.
Proof. induction n as [|n IH]; [reflexivity | exact IH]. Qed.

Lemma all_zero_eq (l : bytes) : all_zero l = true -> l = zeros (length l).
Proof.
  induction l as [|x l IH]; [reflexivity|]. cbn [all_zero forallb length]. rewrite andb_true_iff.
  intros [Hx Hl]. apply N.eqb_eq in Hx. subst x. unfold zeros. cbn [repeat]. f_equal. apply IH, Hl.
Qed.

Lemma zeros_length (n : nat) : length (zeros n) = n.
Proof. apply repeat_length. Qed.

Lemma rd_opaque_xdr (b t : bytes) :
  lenN b < 4294967296 -> rd_opaque (xdr_opaque b ++ t) = Some (b, t).
Proof.
  intros Hb. unfold xdr_opaque, rd_opaque. rewrite <- !app_assoc. rewrite rd_u32_xdr by exact Hb.
  destruct (lenN (b ++ zeros (xpad (length b)) ++ t) <? lenN b) eqn:Hlt.
  - unfold lenN in Hlt. rewrite app_length in Hlt. lia.
  - replace (N.to_nat (lenN b)) with (length b) by (unfold lenN; lia).
    rewrite skipn_app, skipn_all, Nat.sub_diag. cbn [app skipn].
    destruct (length (zeros (xpad (length b)) ++ t) <? xpad (length b))%nat eqn:Hp.
    + rewrite app_length, zeros_length in Hp. lia.
    + rewrite firstn_app, zeros_length, Nat.sub_diag, firstn_O, app_nil_r.
      rewrite firstn_all2 by (rewrite zeros_length; lia).
      rewrite all_zero_zeros. rewrite firstn_app, Nat.sub_diag, firstn_O, app_nil_r, firstn_all.
      rewrite skipn_app, zeros_length, Nat.sub_diag.
      rewrite skipn_all2 by (rewrite zeros_length; lia). reflexivity.
Qed.

Lemma rd_opaque_sound (l t b : bytes) :
  bytes_ok l = true -> rd_opaque l = Some (b, t) -> l = xdr_opaque b ++ t /\ lenN b < 4294967296.
Proof.
  intros Hok H. unfold rd_opaque in H.
  destruct (rd_u32 l) as [[n t0]|] eqn:Hu; [|discriminate].
  destruct (rd_u32_sound l t0 n Hok Hu) as [Hl Hn].
  destruct (lenN t0 <? n) eqn:Hlt; [discriminate|].
  set (k := N.to_nat n) in *.
  destruct (length (skipn k t0) <? xpad k)%nat eqn:Hp; [discriminate|].
  destruct (all_zero (firstn (xpad k) (skipn k t0))) eqn:Hz; [|discriminate].
  injection H as Hb Ht.
  assert (Hk : (k <= length t0)%nat) by (unfold lenN in Hlt; lia).
  assert (Hlb : length b = k) by (subst b; rewrite firstn_length; lia).
  split.
  - rewrite Hl. unfold xdr_opaque, xdr_u32. rewrite <- !app_assoc.
    replace (lenN b) with n by (unfold lenN; lia). f_equal.
    rewrite Hlb. subst b t.
    apply all_zero_eq in Hz. rewrite firstn_length in Hz.
    replace (Nat.min (xpad k) (length (skipn k t0))) with (xpad k) in Hz by lia.
    rewrite <- Hz. rewrite firstn_skipn. rewrite firstn_skipn. reflexivity.
  - unfold lenN. lia.
Qed.

(* ---- calls ---- *)
Lemma call_wf_iff (c : rpc_call) :
  call_wf c = true <->
  rc_xid c < 4294967296 /\ rc_rpcvers c < 4294967296 /\ rc_prog c < 4294967296 /\
  rc_vers c < 4294967296 /\ rc_proc c < 4294967296 /\ rc_cred_flavor c < 4294967296 /\
  rc_verf_flavor c < 4294967296 /\ lenN (rc_cred c) < 4294967296 /\ lenN (rc_verf c) < 4294967296.
Proof. unfold call_wf. rewrite !andb_true_iff, !N.ltb_lt. tauto. Qed.

Lemma dec_call_ser (c : rpc_call) (tail : bytes) :
  call_wf c = true -> dec_call (ser_call c ++ tail) = Some (c, tail).
Proof.
  intros Hwf. apply call_wf_iff in Hwf.
  destruct Hwf as (H1 & H2 & H3 & H4 & H5 & H6 & H7 & H8 & H9).
  unfold ser_call, ser_msg, dec_call. rewrite <- !app_assoc.
  rewrite rd_u32_xdr by exact H1.
  rewrite rd_u32_xdr by (unfold MSG_CALL; lia). cbn [negb N.eqb MSG_CALL].
  change (negb (0 =? 0)) with false. cbv iota.
  rewrite rd_u32_xdr by exact H2. rewrite rd_u32_xdr by exact H3.
  rewrite rd_u32_xdr by exact H4. rewrite rd_u32_xdr by exact H5.
  rewrite rd_u32_xdr by exact H6. rewrite rd_opaque_xdr by exact H8.
  rewrite rd_u32_xdr by exact H7. rewrite rd_opaque_xdr by exact H9.
  destruct c; reflexivity.
Qed.

Lemma dec_call_sound (p tail : bytes) (c : rpc_call) :
  bytes_ok p = true -> dec_call p = Some (c, tail) -> p = ser_call c ++ tail /\ call_wf c = true.
Proof.
  intros Hok H. unfold dec_call in H.
  destruct (rd_u32 p) as [[x p1]|] eqn:E1; [|discriminate].
  destruct (rd_u32_sound _ _ _ Hok E1) as [-> B1].
  rewrite bytes_ok_app, andb_true_iff in Hok. destruct Hok as [_ Hok].
  destruct (rd_u32 p1) as [[mt p2]|] eqn:E2; [|discriminate].
  destruct (rd_u32_sound _ _ _ Hok E2) as [-> B2].
  rewrite bytes_ok_app, andb_true_iff in Hok. destruct Hok as [_ Hok].
  destruct (mt =? MSG_CALL) eqn:Emt; cbn [negb] in H; [|discriminate]. apply N.eqb_eq in Emt. subst mt.
  destruct (rd_u32 p2) as [[rv p3]|] eqn:E3; [|discriminate].
  destruct (rd_u32_sound _ _ _ Hok E3) as [-> B3].
  rewrite bytes_ok_app, andb_true_iff in Hok. destruct Hok as [_ Hok].
  destruct (rd_u32 p3) as [[pg p4]|] eqn:E4; [|discriminate].
  destruct (rd_u32_sound _ _ _ Hok E4) as [-> B4].
  rewrite bytes_ok_app, andb_true_iff in Hok. destruct Hok as [_ Hok].
  destruct (rd_u32 p4) as [[vs p5]|] eqn:E5; [|discriminate].
  destruct (rd_u32_sound _ _ _ Hok E5) as [-> B5].
  rewrite bytes_ok_app, andb_true_iff in Hok. destruct Hok as [_ Hok].
  destruct (rd_u32 p5) as [[pc p6]|] eqn:E6; [|discriminate].
  destruct (rd_u32_sound _ _ _ Hok E6) as [-> B6].
  rewrite bytes_ok_app, andb_true_iff in Hok. destruct Hok as [_ Hok].
  destruct (rd_u32 p6) as [[cf p7]|] eqn:E7; [|discriminate].
  destruct (rd_u32_sound _ _ _ Hok E7) as [-> B7].
  rewrite bytes_ok_app, andb_true_iff in Hok. destruct Hok as [_ Hok].
  destruct (rd_opaque p7) as [[cb p8]|] eqn:E8; [|discriminate].
  destruct (rd_opaque_sound _ _ _ Hok E8) as [-> B8].
  rewrite bytes_ok_app, andb_true_iff in Hok. destruct Hok as [_ Hok].
  destruct (rd_u32 p8) as [[vf p9]|] eqn:E9; [|discriminate].
  destruct (rd_u32_sound _ _ _ Hok E9) as [-> B9].
  rewrite bytes_ok_app, andb_true_iff in Hok. destruct Hok as [_ Hok].
  destruct (rd_opaque p9) as [[vb p10]|] eqn:E10; [|discriminate].
  destruct (rd_opaque_sound _ _ _ Hok E10) as [-> B10].
  injection H as <- <-. split.
  - unfold ser_call, ser_msg, xdr_u32. cbn [rc_xid rc_rpcvers rc_prog rc_vers rc_proc rc_cred_flavor rc_cred rc_verf_flavor rc_verf].
    rewrite <- !app_assoc. reflexivity.
  - apply call_wf_iff. cbn [rc_xid rc_rpcvers rc_prog rc_vers rc_proc rc_cred_flavor rc_cred rc_verf_flavor rc_verf].
    tauto.
Qed.

(* ---- record mark ---- *)
Lemma strip_mark_record (l : bytes) :
  lenN l < 2147483648 -> strip_mark (record_mark (lenN l) ++ l) = Some l.
Proof.
  intros H. unfold strip_mark, rd_mark, record_mark, LAST_FRAG.
  rewrite rd_u32_be32 by lia.
  replace (2147483648 <=? 2147483648 + lenN l) with true by lia.
  replace ((2147483648 + lenN l) mod 2147483648) with (lenN l) by lia.
  rewrite N.eqb_refl. reflexivity.
Qed.

Lemma strip_mark_sound (p l : bytes) :
  bytes_ok p = true -> strip_mark p = Some l -> p = record_mark (lenN l) ++ l /\ lenN l < 2147483648.
Proof.
  intros Hok H. unfold strip_mark, rd_mark in H.
  destruct (rd_u32 p) as [[w t]|] eqn:E; [|discriminate].
  destruct (rd_u32_sound _ _ _ Hok E) as [-> Hw].
  unfold LAST_FRAG in H. destruct (2147483648 <=? w) eqn:Hl; [|discriminate].
  destruct (w mod 2147483648 =? lenN t) eqn:Hn; [|discriminate].
  injection H as <-. unfold record_mark, LAST_FRAG. split; [f_equal; f_equal; lia | lia].
Qed.

(* ---- boolean equalities ---- *)
Lemma bytes_eqb_refl (a : bytes) : bytes_eqb a a = true.
Proof. apply bytes_eqb_eq. reflexivity. Qed.

Lemma list_eqb_refl {A} (eqb : A -> A -> bool) (l : list A) :
  (forall x, eqb x x = true) -> list_eqb eqb l l = true.
Proof. intros H. induction l as [|x l IH]; [reflexivity|]. cbn [list_eqb]. rewrite H, IH. reflexivity. Qed.

Lemma list_eqb_eq {A} (eqb : A -> A -> bool) (l m : list A) :
  (forall x y, eqb x y = true -> x = y) -> list_eqb eqb l m = true -> l = m.
Proof.
  intros H. revert m. induction l as [|x l IH]; intros [|y m]; cbn [list_eqb]; try congruence.
  rewrite andb_true_iff. intros [Hx Hl]. f_equal; [apply H, Hx | apply IH, Hl].
Qed.

Lemma mapping_eqb_refl (x : mapping) : mapping_eqb x x = true.
Proof. destruct x as [[[a b] c] d]. unfold mapping_eqb. rewrite !N.eqb_refl. reflexivity. Qed.
Lemma rpcb_eqb_refl (x : rpcb) : rpcb_eqb x x = true.
Proof. destruct x as [[[[a b] c] d] e]. unfold rpcb_eqb. rewrite !N.eqb_refl, !bytes_eqb_refl. reflexivity. Qed.

Lemma mapping_eqb_eq (x y : mapping) : mapping_eqb x y = true -> x = y.
Proof.
  destruct x as [[[a b] c] d], y as [[[a' b'] c'] d']. unfold mapping_eqb.
  rewrite !andb_true_iff, !N.eqb_eq. intros [[[-> ->] ->] ->]. reflexivity.
Qed.
Lemma rpcb_eqb_eq (x y : rpcb) : rpcb_eqb x y = true -> x = y.
Proof.
  destruct x as [[[[a b] c] d] e], y as [[[[a' b'] c'] d'] e']. unfold rpcb_eqb.
  rewrite !andb_true_iff, !N.eqb_eq, !bytes_eqb_eq. intros [[[[-> ->] ->] ->] ->]. reflexivity.
Qed.

Lemma result_eqb_refl (r : pm_result) : result_eqb r r = true.
Proof.
  destruct r; cbn [result_eqb]; auto using N.eqb_refl, bytes_eqb_refl.
  - apply list_eqb_refl, mapping_eqb_refl.
  - apply list_eqb_refl, rpcb_eqb_refl.
Qed.

Lemma result_eqb_eq (r s : pm_result) : result_eqb r s = true -> r = s.
Proof.
  destruct r, s; cbn [result_eqb]; try discriminate; intros H; try reflexivity; f_equal.
  - apply N.eqb_eq, H.
  - apply bytes_eqb_eq, H.
  - apply (list_eqb_eq _ _ _ mapping_eqb_eq H).
  - apply (list_eqb_eq _ _ _ rpcb_eqb_eq H).
Qed.

Lemma body_eqb_refl (b : accept_body) : body_eqb b b = true.
Proof. destruct b; cbn [body_eqb]; auto using result_eqb_refl. rewrite !N.eqb_refl. reflexivity. Qed.

Lemma body_eqb_eq (a b : accept_body) : body_eqb a b = true -> a = b.
Proof.
  destruct a, b; cbn [body_eqb]; try discriminate; intros H; try reflexivity.
  - f_equal. apply result_eqb_eq, H.
  - rewrite andb_true_iff, !N.eqb_eq in H. destruct H as [-> ->]. reflexivity.
Qed.

Lemma reply_eqb_refl (r : rpc_reply) : reply_eqb r r = true.
Proof. unfold reply_eqb. rewrite !N.eqb_refl, bytes_eqb_refl, body_eqb_refl. reflexivity. Qed.

Lemma reply_eqb_eq (a b : rpc_reply) : reply_eqb a b = true <-> a = b.
Proof.
  split; [|intros ->; apply reply_eqb_refl].
  destruct a as [x1 f1 v1 b1], b as [x2 f2 v2 b2].
  unfold reply_eqb. cbn [rp_xid rp_verf_flavor rp_verf rp_body].
  rewrite !andb_true_iff, !N.eqb_eq, bytes_eqb_eq.
  intros [[[-> ->] ->] H]. apply body_eqb_eq in H. subst. reflexivity.
Qed.
