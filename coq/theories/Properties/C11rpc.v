(* Properties/C11rpc.v -- C11, ONC-RPC half, on serialised calls: on a flow whose stream
   is identified as RPC, for EVERY cutting of the stream
   (record mark ++ call ++ anything) into segments, the segments before the one that
   contains stream byte 44 + |credentials| get no payload, that segment gets the reply,
   and the reply is a function of the call and the contacted endpoint only
   ([first_reply], which decodes to the reply C16 expects). Afterwards the parser is
   fresh: the remaining segments are handled as a new stream. The cuts may fall inside the
   protocol signature: the former hypothesis on the first segment (known class
   short_first_segment) is gone, [proto_tbl_ok E] being the per-table obligation of
   Properties/C11.v (C11_current_table).
   Statements only; proofs in Proofs/C11Rpc.v on top of Proofs/C11.v. *)
From MS Require Import Rpc Proto Spec.RefXdr Spec.C16 Spec.AppView Spec.C11
  Instance Proofs.C11 Proofs.C11Witness Proofs.C16Parse Proofs.C16Reply Proofs.C11Rpc Proofs.C16Examples Proofs.C11Examples.

Theorem C11_rpc_parse_fold :
  forall s a b, rpc_parse (rpc_parse s a) b = rpc_parse s (a ++ b).
Proof. exact C16Parse.rpc_parse_app. Qed.

Theorem C11_rpc_first_call :
  forall E clk ci ip port c m0 m1 m2 m3 tail pre s post,
    proto_tbl_ok E = true ->
    call_wf c = true -> (length (ip_octets ip) <= 16)%nat ->
    ci_ip_dst ci = Some ip -> ci_port_dst ci = Some port ->
    concat (pre ++ s :: post) = [m0; m1; m2; m3] ++ ser_call c ++ tail ->
    bytes_ok ([m0; m1; m2; m3] ++ ser_call c ++ tail) = true ->
    tcp_first_id E ([m0; m1; m2; m3] ++ ser_call c ++ tail) = Some PROTO_RPC_TCP ->
    (length (concat pre) < 44 + length (rc_cred c))%nat ->
    (44 + length (rc_cred c) <= length (concat pre) + length s)%nat ->
    tcp_stream E clk ci tcb_new (pre ++ s :: post) =
      Ok (repeat None (length pre) ++ Some (first_reply ip port c) :: rpc_outs ip port (rpc_new R_FRAG) post).
Proof. exact rpc_first_call_segmentation. Qed.

Theorem C11_rpc_first_reply_decodes :
  forall ip port c, call_wf c = true -> ep_ok ip port ->
    exists r, first_reply ip port c = record_mark (lenN r) ++ r /\
              strip_mark (first_reply ip port c) = Some r /\
              dec_reply (result_kind c) r = Some (expected_reply_at ip port c) /\
              (length r mod 4 = 0)%nat.
Proof. exact first_reply_decodes. Qed.

(* after a complete message the per-flow parser starts afresh (fix ab1cb4b): a second
   call in a later segment is answered on its own ... *)
Theorem C11_rpc_reset_after_message :
  forall s0 ip port data, r_state (rpc_parse s0 data) = R_END ->
    fst (rpc_repl_tcp s0 ip port data) = rpc_new R_FRAG.
Proof. exact rpc_tcp_resets. Qed.
Theorem C11_rpc_two_calls :
  forall E clk ci ip port c1 c2 t1 t2,
    call_wf c1 = true -> call_wf c2 = true -> (length (ip_octets ip) <= 16)%nat ->
    ci_ip_dst ci = Some ip -> ci_port_dst ci = Some port ->
    tcp_first_id E (ser_call_tcp c1 ++ t1) = Some PROTO_RPC_TCP ->
    tcp_stream E clk ci tcb_new [ser_call_tcp c1 ++ t1; ser_call_tcp c2 ++ t2] =
      Ok [Some (first_reply ip port c1); Some (first_reply ip port c2)].
Proof. exact rpc_two_calls_two_segments. Qed.

(* non-vacuity on the current tables: a GETPORT call cut inside the RPC/TCP signature, and
   one byte per segment, get the reply the whole stream gets *)
Theorem C11_rpc_cut_inside_signature :
  bytes_ok x11_stream = true /\ call_wf x_getport = true /\
  tcp_first_id the_env x11_stream = Some PROTO_RPC_TCP /\
  tcp_first_id the_env (firstn 6 x11_stream) = None /\
  concat [firstn 6 x11_stream; skipn 6 x11_stream] = x11_stream /\
  payloads (tcp_stream the_env w11_clk w11_ci tcb_new [firstn 6 x11_stream; skipn 6 x11_stream]) =
  payloads (tcp_stream the_env w11_clk w11_ci tcb_new [x11_stream]) /\
  payloads (tcp_stream the_env w11_clk w11_ci tcb_new (singletons x11_stream)) =
  [first_reply (V4 [10; 0; 0; 1]) 8080 x_getport].
Proof. exact rpc_cut_inside_signature. Qed.

Print Assumptions C11_rpc_parse_fold.
Print Assumptions C11_rpc_cut_inside_signature.
Print Assumptions C11_rpc_first_call.
Print Assumptions C11_rpc_first_reply_decodes.
Print Assumptions C11_rpc_reset_after_message.
Print Assumptions C11_rpc_two_calls.
