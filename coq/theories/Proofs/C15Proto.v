(* C15Proto.v -- C15 at the level of proto::repl (identification as a hypothesis) and of
   whole frames over UDP: a datagram / first data segment identified as STUN satisfies the
   payload-level monitors of Spec/C15.v in their strict form, the client information handed
   back differs at most in the destination port, which is the expected source port of the
   reply; over UDP the emitted frame satisfies the frame-level monitors, ports included. *)
From MS Require Import Proofs.Tactics Proofs.Pending Stun Proto L2 Spec.View Spec.RefDec Spec.RefStun Spec.AppView Spec.C15
     Proofs.DecLemmas Proofs.Pipeline Proofs.ViewLemmas Proofs.Factor Proofs.DecLemmas2 Proofs.Lift
     Proofs.C15Ref Proofs.C15Walk Proofs.C15Model Proofs.C15Handler.

(* what the theorems need of the application context: what every frame provides *)
Definition c15_ctx_ok (ctx : app_ctx) : Prop :=
  ip_ok (ctx_src_ip ctx) = true /\ a_sport ctx < 65536 /\ a_dport ctx < 65536.

Lemma bytes_eqb_refl (a : bytes) : bytes_eqb a a = true.
Proof. apply bytes_eqb_eq. reflexivity. Qed.

Lemma ctx_family_ip (ctx : app_ctx) :
  ip_family (ctx_src_ip ctx) = ctx_family ctx /\ ip_octets (ctx_src_ip ctx) = a_src ctx.
Proof. unfold ip_family, ctx_family, ctx_src_ip. destruct (a_v4 ctx); split; reflexivity. Qed.

Lemma resp_ok_model (ctx : app_ctx) (tid : bytes) :
  length tid = 16%nat -> bytes_ok tid = true -> c15_ctx_ok ctx ->
  resp_ok ctx tid (stun_response tid (ctx_src_ip ctx) (a_sport ctx)) = true.
Proof.
  intros Hl Hb (Hip & Hs & _). unfold resp_ok.
  rewrite (stun_response_decodes tid _ _ Hl Hb Hip). unfold expected_response.
  cbn [sm_class sm_method sm_tid sm_attrs].
  rewrite (dec_mapped_enc _ _ Hip Hs). destruct (ctx_family_ip ctx) as [-> ->].
  rewrite !bytes_eqb_refl, !N.eqb_refl. reflexivity.
Qed.

Lemma is_response_model (tid : bytes) (src : ipaddr) (sport : N) :
  length tid = 16%nat -> bytes_ok tid = true -> ip_ok src = true ->
  is_stun_response_to tid (stun_response tid src sport) = true.
Proof.
  intros Hl Hb Hip. unfold is_stun_response_to.
  rewrite (stun_response_decodes tid _ _ Hl Hb Hip). cbn [expected_response sm_class sm_tid].
  rewrite bytes_eqb_refl. reflexivity.
Qed.

Lemma stun_repl_none (ci : cinfo) (p : bytes) : snd (stun_repl ci p) = None -> fst (stun_repl ci p) = ci.
Proof.
  unfold stun_repl.
  destruct (length p <? 20)%nat; [reflexivity|]. destruct (64 <=? _); [reflexivity|].
  destruct (lenN p <? _); [reflexivity|]. destruct (stun_attrs _ _ _); [|reflexivity].
  destruct (negb _); [reflexivity|]. destruct (negb _); [reflexivity|].
  destruct (ci_ip_src ci); [|reflexivity]. destruct (ci_port_src ci); [|reflexivity].
  destruct (ci_port_dst ci); [|reflexivity]. cbn. discriminate.
Qed.

Lemma tid_of_request (p : bytes) (m : stun_msg) : bytes_ok p = true -> dec_stun_req p = Some m ->
  length (sm_tid m) = 16%nat /\ bytes_ok (sm_tid m) = true.
Proof.
  intros Hok Hdec. destruct (dec_req_inv p m Hdec) as (_ & _ & _ & -> & _ & Hl).
  split; [apply slice_length; lia|apply bytes_ok_slice, Hok].
Qed.

(* the responder against the payload-level monitor, for any client information that carries
   the context's source address and ports *)
Theorem app_ok_stun (strict : bool) (ctx : app_ctx) (ci : cinfo) (p : bytes) :
  bytes_ok p = true -> c15_ctx_ok ctx ->
  ci_ip_src ci = Some (ctx_src_ip ctx) -> ci_port_src ci = Some (a_sport ctx) ->
  ci_port_dst ci = Some (a_dport ctx) ->
  app_ok_C15_gen strict ctx p (snd (stun_repl ci p)) = true /\
  ci_same_except_dport ci (fst (stun_repl ci p)) /\
  (forall m, dec_stun_req p = Some m ->
     ci_port_dst (fst (stun_repl ci p)) =
       Some (if is_binding_request m then expected_reply_sport ctx m else a_dport ctx) /\
     (is_binding_request m = true ->
        snd (stun_repl ci p) = Some (stun_response (sm_tid m) (ctx_src_ip ctx) (a_sport ctx)))) /\
  (snd (stun_repl ci p) = None -> fst (stun_repl ci p) = ci).
Proof.
  intros Hok Hctx Hsrc Hsp Hdp.
  pose proof (u8_at_lt 0 p Hok) as H0. pose proof (u8_at_lt 1 p Hok) as H1.
  split; [|split; [|split; [|apply stun_repl_none]]].
  - unfold app_ok_C15_gen. destruct (dec_stun_req p) as [m|] eqn:Hdec; [|reflexivity].
    destruct (tid_of_request p m Hok Hdec) as [Htl Htb].
    destruct (is_binding_request m) eqn:Hb.
    + rewrite (stun_repl_request ci p m _ _ _ H0 H1 Hdec Hb Hsrc Hsp Hdp). cbn [snd].
      rewrite (resp_ok_model ctx _ Htl Htb Hctx).
      destruct (stun_published _ p && _); [reflexivity|].
      destruct (is_stun_response_to _ _); reflexivity.
    + rewrite (stun_repl_other ci p m H0 H1 Hdec Hb). reflexivity.
  - destruct (ci_port_dst ci) as [dport|] eqn:Hd; [|discriminate].
    pose proof (answered_iff ci p _ _ _ Hok Hsrc Hsp Hd) as Ha.
    destruct (diag_answered p).
    + destruct Ha as [ci' Ha].
      (* the only change the responder makes is [ci_set_port_dst] *)
      rewrite (stun_repl_by_diag ci p H0 H1) in Ha |- *.
      destruct (stun_diag_of p) as [| | |st]; try apply ci_same_refl.
      destruct (_ && _ && _); [|apply ci_same_refl].
      unfold model_answer. rewrite Hsrc, Hsp, Hd. cbn [fst].
      destruct (existsb _ _); [apply ci_set_port_dst_same|apply ci_same_refl].
    + rewrite Ha. apply ci_same_refl.
  - intros m Hdec. destruct (is_binding_request m) eqn:Hb.
    + rewrite (stun_repl_request ci p m _ _ _ H0 H1 Hdec Hb Hsrc Hsp Hdp). cbn [fst snd].
      split; [|intros _; reflexivity]. unfold expected_reply_sport.
      destruct (change_port_requested m); [reflexivity|exact Hdp].
    + rewrite (stun_repl_other ci p m H0 H1 Hdec Hb). cbn [fst]. split; [exact Hdp|discriminate].
Qed.

(* ---------- proto::repl ---------- *)
Lemma dispatch_stun (E : env) (clk : clock) (ci : cinfo) (t : option tcb) (p : bytes) :
  dispatch E clk ci PROTO_STUN t p = Ok (fst (stun_repl ci p), t, snd (stun_repl ci p)).
Proof.
  unfold dispatch. change (PROTO_STUN =? PROTO_HTTP) with false. change (PROTO_STUN =? PROTO_STUN) with true.
  cbv iota. destruct (stun_repl ci p); reflexivity.
Qed.

Theorem proto_udp_stun (E : env) (clk : clock) (ci : cinfo) (p : bytes) :
  udp_id E p = Some PROTO_STUN -> proto_repl_udp E clk ci p = Ok (stun_repl ci p).
Proof.
  intros Hid. unfold proto_repl_udp. unfold udp_id in Hid.
  destruct (search_next (e_proto_tbl E) BASE_STATE p) as [[id st] n].
  rewrite Hid, dispatch_stun. cbn [bind]. destruct (stun_repl ci p); reflexivity.
Qed.

Theorem proto_tcp_first_stun (E : env) (clk : clock) (ci : cinfo) (p : bytes) :
  tcp_first_id E p = Some PROTO_STUN ->
  exists st,
    proto_repl_tcp E clk ci tcb_new p =
      Ok (fst (stun_repl ci p), {| t_smack := st; t_proto := PROTO_STUN; t_pstate := None; t_pending := [] |},
          snd (stun_repl ci p)).
Proof.
  intros Hid. rewrite proto_repl_tcp_first. unfold tcp_first_id in Hid.
  destruct (search_next (e_proto_tbl E) BASE_STATE p) as [[id st] n]. subst id. cbv zeta.
  cbn [id_of t_proto]. exists st. rewrite dispatch_stun. reflexivity.
Qed.

Lemma ctx_ci_fields (cfg : config) (ms md : bytes) (ctx : app_ctx) :
  ci_ip_src (ctx_ci cfg ms md ctx) = Some (ctx_src_ip ctx) /\
  ci_port_src (ctx_ci cfg ms md ctx) = Some (a_sport ctx) /\
  ci_port_dst (ctx_ci cfg ms md ctx) = Some (a_dport ctx).
Proof. repeat split; reflexivity. Qed.

Theorem C15_proto_udp (E : env) (clk : clock) (cfg : config) (ms md : bytes) (ctx : app_ctx) (p : bytes) :
  a_tcp ctx = false -> bytes_ok p = true -> c15_ctx_ok ctx ->
  udp_id E p = Some PROTO_STUN ->
  exists ci' o,
    proto_repl_udp E clk (ctx_ci cfg ms md ctx) p = Ok (ci', o) /\
    app_ok_C15_strict ctx p o = true /\ app_ok_C15 ctx p o = true /\
    ci_same_except_dport (ctx_ci cfg ms md ctx) ci' /\
    (forall m, dec_stun_req p = Some m ->
       ci_port_dst ci' = Some (if is_binding_request m then expected_reply_sport ctx m else a_dport ctx)) /\
    (o = None -> ci' = ctx_ci cfg ms md ctx).
Proof.
  intros _ Hok Hctx Hid. destruct (ctx_ci_fields cfg ms md ctx) as (F1 & F2 & F3).
  exists (fst (stun_repl (ctx_ci cfg ms md ctx) p)), (snd (stun_repl (ctx_ci cfg ms md ctx) p)).
  destruct (app_ok_stun true ctx _ p Hok Hctx F1 F2 F3) as (A1 & A2 & A3 & A4).
  destruct (app_ok_stun false ctx _ p Hok Hctx F1 F2 F3) as (B1 & _).
  split; [rewrite (proto_udp_stun E clk _ p Hid); destruct (stun_repl _ p); reflexivity|].
  split; [exact A1|]. split; [exact B1|]. split; [exact A2|]. split; [|exact A4].
  intros m Hm. apply (A3 m Hm).
Qed.

Theorem C15_proto_tcp (E : env) (clk : clock) (cfg : config) (ms md : bytes) (ctx : app_ctx) (p : bytes) :
  a_tcp ctx = true -> bytes_ok p = true -> c15_ctx_ok ctx ->
  tcp_first_id E p = Some PROTO_STUN ->
  exists ci' tc' o,
    proto_repl_tcp E clk (ctx_ci cfg ms md ctx) tcb_new p = Ok (ci', tc', o) /\
    app_ok_C15_strict ctx p o = true /\ app_ok_C15 ctx p o = true /\
    ci_same_except_dport (ctx_ci cfg ms md ctx) ci' /\
    (forall m, dec_stun_req p = Some m ->
       ci_port_dst ci' = Some (if is_binding_request m then expected_reply_sport ctx m else a_dport ctx)) /\
    (o = None -> ci' = ctx_ci cfg ms md ctx).
Proof.
  intros _ Hok Hctx Hid. destruct (ctx_ci_fields cfg ms md ctx) as (F1 & F2 & F3).
  destruct (proto_tcp_first_stun E clk (ctx_ci cfg ms md ctx) p Hid) as [st Hr].
  eexists _, _, _. split; [exact Hr|].
  destruct (app_ok_stun true ctx _ p Hok Hctx F1 F2 F3) as (A1 & A2 & A3 & A4).
  destruct (app_ok_stun false ctx _ p Hok Hctx F1 F2 F3) as (B1 & _).
  split; [exact A1|]. split; [exact B1|]. split; [exact A2|]. split; [|exact A4].
  intros m Hm. apply (A3 m Hm).
Qed.

(* ---------- whole frames over UDP ---------- *)
Lemma view_src_ok cfg f v : bytes_ok f = true -> view cfg f = Some v ->
  ip_ok (if v_v4 v then V4 (v_src v) else V6 (v_src v)) = true.
Proof.
  intros Hf Hv. pose proof (view_sizes _ _ _ Hv) as [_ Hs].
  assert (bytes_ok (v_src v) = true) as Hb.
  { destruct (view_inv _ _ _ Hv) as (_ & _ & [H4 | H6]).
    - destruct H4 as (_ & _ & _ & -> & _). apply bytes_ok_slice, bytes_ok_skipn, Hf.
    - destruct H6 as (_ & _ & _ & -> & _). apply bytes_ok_slice, bytes_ok_skipn, Hf. }
  destruct (v_v4 v); destruct Hs as [Hs _]; unfold ip_ok; rewrite Hs, Hb; reflexivity.
Qed.

Lemma udp_resp_some (rf : bytes) (out : option bytes) : udp_resp (Some rf) = Some out -> exists d, out = Some d.
Proof.
  unfold udp_resp. destruct (dec_frame_udp rf) as [[[e i] u]|]; [|discriminate].
  intros H. inversion H. eexists. reflexivity.
Qed.

Theorem C15_frame_udp (E : env) (cfg : config) (clk : clock) (tb : table) (f : bytes)
        (tb' : table) (r : option bytes) (evs : list event) (ctx : app_ctx) (p : bytes) :
  cfg_ok cfg = true -> bytes_ok f = true ->
  reply E cfg clk tb f = Ok (tb', r, evs) ->
  udp_req cfg f = Some (ctx, p) -> udp_id E p = Some PROTO_STUN ->
  ok_C15_udp_strict cfg f r = true /\ ok_C15_udp cfg f r = true /\
  (* spelled out: the emitted frame's UDP ports when a binding request is answered *)
  (forall m, dec_stun_req p = Some m -> is_binding_request m = true ->
     exists rf e i u, r = Some rf /\ dec_frame_udp rf = Some (e, i, u) /\
       du_payload u = stun_response (sm_tid m) (ctx_src_ip ctx) (a_sport ctx) /\
       du_sport u = (if change_port_requested m then (a_dport ctx + 1) mod 65536 else a_dport ctx) /\
       du_dport u = a_sport ctx).
Proof.
  intros Hcfg Hf Hr Hreq Hid.
  pose proof Hreq as Hreq0. unfold udp_req in Hreq.
  destruct (view_udp cfg f) as [v|] eqn:Hvu; [|discriminate].
  assert (ctx = ctx_of false v /\ p = skipn 8 (v_l4 v)) as [Ectx Ep] by (inversion Hreq; split; reflexivity).
  clear Hreq.
  destruct (view_udp_view _ _ _ Hvu) as (Hv & Hproto & Hl4).
  assert (bytes_ok (v_l4 v) = true) as Hl4ok.
  { destruct (view_inv _ _ _ Hv) as (_ & _ & [H4 | H6]).
    - destruct H4 as (_ & _ & _ & _ & _ & _ & -> & _). unfold ipv4_payload.
      destruct (_ <=? _)%nat; [reflexivity|]. apply bytes_ok_firstn, bytes_ok_skipn, bytes_ok_skipn, Hf.
    - destruct H6 as (_ & _ & _ & _ & _ & _ & -> & _). unfold ipv6_payload.
      destruct (_ <=? _)%nat; [reflexivity|]. apply bytes_ok_firstn, bytes_ok_skipn, bytes_ok_skipn, Hf. }
  assert (bytes_ok p = true) as Hp by (rewrite Ep; apply bytes_ok_skipn, Hl4ok).
  assert (c15_ctx_ok ctx) as Hctx.
  { rewrite Ectx. unfold c15_ctx_ok, ctx_of, ctx_src_ip. cbn [a_v4 a_src a_sport a_dport].
    split; [apply (view_src_ok cfg f v Hf Hv)|]. split; apply u16_at_lt, Hl4ok. }
  destruct (udp_lift _ _ _ _ _ _ _ _ _ Hcfg Hf Hvu Hr) as (_ & ci' & out & Hpr & Hresp & Hframe).
  rewrite <- Ep in Hpr. rewrite (proto_udp_stun E clk _ p Hid) in Hpr.
  assert (ci_ip_src (udp_ci f v) = Some (ctx_src_ip ctx)) as F1 by (rewrite Ectx; reflexivity).
  assert (ci_port_src (udp_ci f v) = Some (a_sport ctx)) as F2 by (rewrite Ectx; reflexivity).
  assert (ci_port_dst (udp_ci f v) = Some (a_dport ctx)) as F3 by (rewrite Ectx; reflexivity).
  destruct (app_ok_stun true ctx _ p Hp Hctx F1 F2 F3) as (A1 & _ & A3 & _).
  destruct (app_ok_stun false ctx _ p Hp Hctx F1 F2 F3) as (B1 & _).
  assert (ci' = fst (stun_repl (udp_ci f v) p) /\ out = snd (stun_repl (udp_ci f v) p)) as [Eci Eout].
  { destruct (stun_repl (udp_ci f v) p). inversion Hpr. split; reflexivity. }
  rewrite <- Eout in A1, B1, A3. rewrite <- Eci in A3.
  destruct Hctx as (Hip & Hsp & Hdp).
  (* the ports of the emitted frame *)
  assert (ok_C15_ports_udp cfg f r = true) as Hports.
  { unfold ok_C15_ports_udp. rewrite Hreq0. destruct r as [rf|]; [|reflexivity].
    destruct (udp_resp_some rf out Hresp) as [d ->].
    destruct (Hframe d eq_refl) as (rf' & e & i & u & Erf & Hdec & Hpl & Hsrc & Hdst).
    inversion Erf; subst rf'. rewrite Hdec. unfold c15_ports_ok.
    destruct (dec_stun_req p) as [m|] eqn:Hm; [|reflexivity].
    destruct (is_binding_request m) eqn:Hb; cbn [andb]; [|reflexivity].
    destruct (is_stun_response_to (sm_tid m) (du_payload u)); [|reflexivity].
    destruct (A3 m eq_refl) as [Hpd _]. rewrite Hb in Hpd. rewrite Hpd in Hsrc.
    assert (ci_port_src ci' = Some (a_sport ctx)) as Hps.
    { rewrite Eci. destruct (app_ok_stun true ctx _ p Hp (conj Hip (conj Hsp Hdp)) F1 F2 F3) as (_ & S & _).
      destruct S as (_ & _ & _ & _ & _ & S6 & _). rewrite S6. exact F2. }
    rewrite Hps in Hdst. cbn [option_map] in Hsrc, Hdst. inversion Hsrc. inversion Hdst.
    unfold expected_reply_sport in *. apply andb_true_iff. split; apply N.eqb_eq.
    - destruct (change_port_requested m); lia.
    - lia. }
  split; [|split].
  - unfold ok_C15_udp_strict, ok_app_udp. rewrite Hreq0, Hresp. fold app_ok_C15_strict in A1.
    rewrite A1, Hports. reflexivity.
  - unfold ok_C15_udp, ok_app_udp. rewrite Hreq0, Hresp. fold app_ok_C15 in B1.
    rewrite B1, Hports. reflexivity.
  - intros m Hm Hb. destruct (A3 m Hm) as [Hpd Hout]. specialize (Hout Hb). rewrite Hb in Hpd.
    destruct (Hframe _ Hout) as (rf & e & i & u & Erf & Hdec & Hpl & Hsrc & Hdst).
    exists rf, e, i, u. split; [exact Erf|]. split; [exact Hdec|]. split; [exact Hpl|].
    assert (ci_port_src ci' = Some (a_sport ctx)) as Hps.
    { rewrite Eci. destruct (app_ok_stun true ctx _ p Hp (conj Hip (conj Hsp Hdp)) F1 F2 F3) as (_ & S & _).
      destruct S as (_ & _ & _ & _ & _ & S6 & _). rewrite S6. exact F2. }
    rewrite Hpd in Hsrc. rewrite Hps in Hdst. cbn [option_map] in Hsrc, Hdst.
    inversion Hsrc. inversion Hdst. unfold expected_reply_sport in *.
    split; [destruct (change_port_requested m); lia|lia].
Qed.
