(* Spec/Later.v -- LATER data segments of a TCP flow that is bound to the STUN, SSH or
   Gh0st responder.

   proto::repl identifies the protocol of a TCP flow once, from the first bytes of the
   flow; from then on every data segment of the flow goes to the responder the flow is
   bound to, whatever the segment's first bytes are.  C15 and C18 therefore also speak
   about such segments, and there the protocol matcher plays no role:

   C15  "A STUN Binding Request (class request, method Binding) gets a Binding Success
         Response with the same transaction id and exactly one MAPPED-ADDRESS = (source
         IP, source port) of the request; other classes and methods get no STUN
         response"; a CHANGE-REQUEST with the change-port flag makes the reply leave from
         destination port + 1 mod 65536.
   C18  "A client identification string 'SSH-<digits and dots>-<software>[ SP comment]
         CR LF' beginning with SSH-2.0 or SSH-1.99 is answered with exactly
         'SSH-2.0-1\r\n', and an unterminated or malformed identification is not
         answered. A payload starting with the Gh0st magic is answered with a Gh0st
         frame whose declared total length equals the frame length and whose zlib body
         inflates to exactly the declared uncompressed length."

   The judgements are the ones of Spec/C15.v (reference decoder [dec_stun_req] of
   Spec/RefStun.v, [resp_ok], [is_stun_response_to], [c15_ports_ok]) and of Spec/C18.v
   (reference grammar [ssh_ref], [ghost_wf]) applied to the payload of the segment ON ITS
   OWN; nothing here consults the matcher ([stun_published] / [stun_shadowed] speak about
   identification only and do not occur), nothing is shared with the responder models.
   Definitions only. *)
From MS Require Export Bytes Types Spec.RefStun Spec.AppView Spec.C15 Spec.C18.

(* ---- a payload-level judgement as a monitor on a data segment and the frame emitted
   for it.  The harness applies these monitors only to frames that it knows to be later
   segments of a flow bound to the responder in question. ---- *)
Definition ok_app_tcp_later (P : app_ctx -> bytes -> option bytes -> bool)
           (cfg : config) (f : bytes) (r : option bytes) : bool :=
  match tcp_req cfg f with
  | None => true
  | Some (ctx, p) => match tcp_resp r with Some o => P ctx p o | None => false end
  end.

(* ---- STUN ----
   * not a well-formed STUN message: the property says nothing;
   * a well-formed binding request (with or without magic cookie, any length, any
     attributes): answered, with the expected response;
   * any other class / method: no STUN response. *)
Definition app_ok_C15_later (ctx : app_ctx) (p : bytes) (o : option bytes) : bool :=
  match dec_stun_req p with
  | None => true
  | Some m =>
    if is_binding_request m then
      match o with Some r => resp_ok ctx (sm_tid m) r | None => false end
    else
      match o with Some r => negb (is_stun_response_to (sm_tid m) r) | None => true end
  end.

(* the transport ports of the emitted segment: [c15_ports_ok] of Spec/C15.v *)
Definition ok_C15_ports_tcp_later (cfg : config) (f : bytes) (r : option bytes) : bool :=
  match tcp_req cfg f, r with
  | Some (ctx, p), Some rf =>
    match dec_frame_tcp rf with
    | Some (_, _, t) => c15_ports_ok ctx p (dt_payload t) (dt_sport t) (dt_dport t)
    | None => true                  (* not a TCP reply: refused by [ok_app_tcp_later] *)
    end
  | _, _ => true
  end.

Definition ok_C15_tcp_later (cfg : config) (f : bytes) (r : option bytes) : bool :=
  ok_app_tcp_later app_ok_C15_later cfg f r && ok_C15_ports_tcp_later cfg f r.

(* ---- SSH: a segment that begins with SSH-2.0 or SSH-1.99 is judged by the reference
   grammar on its own bytes (the responder keeps no state from one segment to the next):
   the server identification when it is a complete identification string, nothing
   otherwise.  Other segments: the property says nothing. ---- *)
Definition app_ok_C18_later_ssh (ctx : app_ctx) (p : bytes) (o : option bytes) : bool :=
  if is_prefix S_SSH_20 p || is_prefix S_SSH_199 p then
    if ssh_ref p then
      match o with Some r => bytes_eqb r S_SERVER_ID | None => false end
    else
      match o with None => true | Some _ => false end
  else true.

(* ---- Gh0st: a segment that begins with the magic is answered with a well-formed
   frame.  Other segments: the property says nothing. ---- *)
Definition app_ok_C18_later_ghost (ctx : app_ctx) (p : bytes) (o : option bytes) : bool :=
  if is_prefix S_GHOST p then
    match o with Some g => ghost_wf g | None => false end
  else true.

Definition ok_C18_tcp_later_ssh : config -> bytes -> option bytes -> bool :=
  ok_app_tcp_later app_ok_C18_later_ssh.
Definition ok_C18_tcp_later_ghost : config -> bytes -> option bytes -> bool :=
  ok_app_tcp_later app_ok_C18_later_ghost.

(* ---- the application layer on the later segments of a flow, one after the other:
   [later_stream repl tc segs] threads the control block through [repl] (=
   [proto_repl_tcp E] with the clock reading and client information of each segment)
   and collects, per segment, the client information handed back and the payload ---- *)
Fixpoint later_stream (repl : clock -> cinfo -> tcb -> bytes -> res (cinfo * tcb * option bytes))
         (tc : tcb) (segs : list (clock * cinfo * bytes)) : res (tcb * list (cinfo * option bytes)) :=
  match segs with
  | [] => Ok (tc, [])
  | (clk, ci, s) :: rest =>
    match repl clk ci tc s with
    | Panic e => Panic e
    | Ok (ci', tc', out) =>
      match later_stream repl tc' rest with
      | Panic e => Panic e
      | Ok (tc'', outs) => Ok (tc'', (ci', out) :: outs)
      end
    end
  end.

(* ---- frames: [f] is a data segment (PSH and ACK set, in scope) of the flow whose SYN
   cookie -- the key of the connection table -- is [ck] ---- *)
Definition later_frame (cfg : config) (ck : N) (f : bytes) : Prop :=
  bytes_ok f = true /\
  exists v, view_tcp cfg f = Some v /\ is_data (tcp_flags (v_l4 v)) = true /\
            flow_cookie cfg (flow_of v) = ck.
