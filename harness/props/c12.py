"""C12 -- only requests are answered: protocol-marked replies never elicit a reply."""
import struct
import net, gens, runner
from common import *
from runner import Script, Cfg

ID = "C12"
THEOREMS = ["C12_l2l4_replies_unanswered", "C12_dns_responses_unanswered", "C12_dns_response_not_dns",
            "C12_stun_nonrequests_unanswered", "C12_own_dns_reply_typed", "C12_own_stun_reply_typed",
            "C12_own_rpc_reply_typed",
            "C12frame.C12x_frame", "C12frame.C12x_tcp_first_state", "C12frame.C12x_tcp_first_history", "C12frame.C12_spec_monitor_refuted", "C12frame.C12_rpc_udp_replies_unanswered", "C12frame.C12_rpc_tcp_replies_unanswered", "C12frame.C12_rpc_stream_noncall_unanswered", "C12frame.C12_smb1_replies_unanswered", "C12frame.C12_smb2_replies_unanswered", "C12frame.C12id_udp_other_protocol", "C12frame.C12id_tcp_first_other_protocol", "C12frame.C12id_frame_udp", "C12frame.C12id_frame_tcp_first_history", "C12frame.C12_chain_no_repeat_partial", "C12frame.C12_silent_examples", "C12frame.C12_answered_by_another_protocol", "C12frame.C12_chain_of_length_two", "C12chain.C12_chain_bound_current", "C12chain.C12_chain_bound_dns_current", "C12chain.C12_chain_bound_stun_current", "C12chain.C12_chain_bound_rpc_current", "C12chain.C12_chain_bound_not_ssh_ghost", "C12chain.C12_reply_typed_never_http_ssh_ghost", "C12chain.C12_chain_second_hop", "C12chain.C12_chain_third_hop_silent", "C12chain.C12_dns_response_unanswered", "C12chain.C12_rpc_record_reply_unanswered_udp", "C12chain.C12_http_template_unanswered", "C12chain.C12_stun_response_to_fallback", "C12chain.C12_rpc_reply_to_fallback", "C12chain.C12_smb1_reply_unanswered_udp", "C12chain.C12_smb2_reply_unanswered_udp", "C12chain.C12_chain_frames", "C12chain.C12_chain_frames_monitor", "C12chain.C12_chain_payload_monitor", "C12chain.C12_chain_stmt_needs_octets", "C12chain.C12_chain_junk_context_observed", "C12chain.C12_chain_nonvacuous", "C12chain.C12_tcp_first_smb1_reply_silent", "C12chain.C12_tcp_first_smb2_reply", "C12chain.C12_tcp_first_rpc_reply", "C12chain.C12_tcp_other_protocol_observed", "C12chain.C12_shape_verdicts_sound", "Env.the_env_ok"]
MONITORS = ["C12", "C12tcp", "C12idudp", "C12idtcp"]
RULE = ("reply-typed messages of every protocol: ARP ops != 1, ICMP/ICMPv6 echo replies and neighbour advertisements, TCP "
        "SYN|ACK / RST flag words, DNS messages with QR=1 (all flag words on a grid, 0..4 questions/answers), STUN "
        "indications / success / error responses / other methods with and without magic cookie, ONC-RPC replies (UDP and "
        "record-marked), SMB1/SMB2 messages with the reply flag; plus THE RESPONDER'S OWN REPLIES to every seed request, "
        "re-addressed to it (bounce: MACs, addresses and ports swapped, same payload). Each is sent; the extracted monitor "
        "ok_C12 judges the implementation's reply (no reply of the same protocol); the reflection chain reply(m), "
        "reply(bounce(reply(m))), ... is followed on the implementation for up to 4 hops and must contain at most 2 "
        "replies; model and implementation are compared on every hop. non-trivial = reply-typed message")
TRUSTED = ["Coq 8.16.1 kernel + vm_compute", "extraction (ExtrOcamlBasic) + ocaml/model_run.ml", "harness/*.py (bounce, generators)",
           "Rust hook verif_driver.rs", "pnet accessor semantics as modelled"]
ASSUMPTIONS = ["the reflection-chain clause (at most two replies in total) is proved for UDP on the current tables "
               "(C12chain.C12_chain_bound_current, C12_chain_frames) and additionally monitored on the implementation for "
               "the generated reply-typed messages and for the responder's own replies",
               "SMB reply flag / RPC reply message type: proved by C17 / C10 (identification), monitored here"]

CFG = Cfg(key=(31, 32))


def corpus():
    # the fixed finding: a DNS response bounced back used to be answered for ever
    q = gens.dns_query()
    resp = q[:2] + b"\x85\x00" + q[4:6] + b"\x00\x01" + q[8:] + b"\xc0\x0c\x00\x01\x00\x01\x00\x00\x00\x10\x00\x04\x0a\x00\x00\x01"
    yield Script(CFG, [net.frame_udp(gens.PEER4, gens.SELF4, 53, 5353, q[:2] + b"\x84\x00" + q[4:]),
                       net.frame_udp(gens.PEER4, gens.SELF4, 53, 5353, resp)], "corpus:dns-response")
    # the three byte strings on which the first monitor (Spec/C12.v: ok_C12) over-demanded (C12_spec_monitor_refuted):
    # an RPC reply datagram that is also a STUN request with CHANGE-REQUEST; a version-1 portmapper call whose word at
    # offset 8 is 1; a continuation segment with word 1 at offset 8 that completes a call. All are answered, legitimately.
    w1 = bytes.fromhex("0001000800000001000000000000000000000004000300040000 0000".replace(" ", ""))
    w2 = bytes.fromhex("deadbeef0000000000000001000186a00000000200000003") + bytes(16)
    yield Script(CFG, [net.frame_udp(gens.PEER4, gens.SELF4, 40000, 3478, w1), net.frame_udp(gens.PEER4, gens.SELF4, 40001, 111, w2)]
                 + gens.handshake(CFG.key, gens.PEER4, gens.SELF4, 40002, 111, [w2])
                 + gens.handshake(CFG.key, gens.PEER4, gens.SELF4, 40003, 111,
                                  [bytes.fromhex("80000028deadbeef0000000000000002000186a00000000200000003"),
                                   bytes.fromhex("00000000000000000000000100000000")]), "corpus:monitor-overdemand")
    # the two families of reflection chains of length exactly two (C12_chain_nonvacuous): an RPC-reply-typed datagram
    # that is a STUN binding request (STUN response, then a bare DNS header from the fallback, then silence), and a
    # STUN-typed datagram that is an RPC/UDP call (RPC reply, bare DNS header, silence)
    a = bytes.fromhex("000100080000000100000000026162000001000100030004" + "00000000")
    b = bytes.fromhex("0110000000000000000000020001 86a00000000200000000".replace(" ", "")) + bytes(16)
    yield Script(CFG, [net.frame_udp(gens.PEER4, gens.SELF4, 40010, 3478, a), net.frame_udp(gens.PEER4, gens.SELF4, 40011, 111, b)],
                 "corpus:chains-of-two")


def reply_typed_frames(rng, tier):
    fr = []
    # layers 2-4
    for op in (0, 2, 3, 4, 8, 9, 0xffff):
        fr.append(gens.arp_req(gens.SELF4, op=op))
    for ty in (0, 3, 5, 11, 13, 14):
        fr.append(gens.echo4(gens.PEER4, gens.SELF4, ty=ty))
    for ty in (129, 136, 1, 3, 133, 134, 137):
        fr.append(gens.echo6(gens.PEER6, gens.SELF6, ty=ty))
    for fl in (0x12, 0x04, 0x14, 0x0c, 0x24, 0x06, 0x112, 0x52, 0x92):
        for v6 in (False, True):
            s, d = gens.addr_pair(v6)
            fr.append(net.frame_tcp(s, d, 80, 4000, 5, 6, fl, b"HTTP/1.1 200 OK\r\n\r\n" if fl & 8 else b""))
    # DNS responses
    flags = [0x8000, 0x8180, 0x8400, 0x8583, 0xffff, 0x8001] + [0x8000 | rng.getrandbits(15) for _ in range(6 if tier == "quick" else 60)]
    for fl in flags:
        for nq, na in ((0, 0), (1, 0), (1, 1), (2, 2), (0, 1)):
            names = tuple(b"h%d.example" % i for i in range(nq))
            m = gens.dns_query(qid=rng.getrandbits(16), flags=fl, names=names, an=na)
            for i in range(na):
                m += b"\x01a\x00\x00\x01\x00\x01\x00\x00\x00\x10\x00\x04\x7f\x00\x00\x01"
            fr.append(net.frame_udp(gens.PEER4, gens.SELF4, 53, rng.randrange(65536), m))
    # STUN non-requests
    for mtype in (0x0011, 0x0101, 0x0111, 0x0002, 0x0102, 0x0003, 0x0112):
        for magic in (False, True):
            for attrs in (b"", gens.stun_attr(1, b"\0\1\x12\x34\x0a\0\0\x09"), gens.stun_attr(3, b"\0\0\0\2"),
                          gens.stun_attr(0x8022, b"x" * 252) + gens.stun_attr(3, b"\0\0\0\2")):
                p = gens.stun_req(attrs=attrs, magic=magic, mtype=mtype)
                fr.append(net.frame_udp(gens.PEER4, gens.SELF4, 3478, 40000, p))
                fr.append(net.frame_udp(gens.PEER6, gens.SELF6, 3478, 40000, p))
    # ONC-RPC replies
    for xid in (0x12345678, 0x00000001, 0x47455420, 0x80000018):
        body = struct.pack("!IIIII", xid, 1, 0, 0, 0) + struct.pack("!I", 0)
        fr.append(net.frame_udp(gens.PEER4, gens.SELF4, 111, 40000, body))
        fr.append(net.frame_udp(gens.PEER4, gens.SELF4, 111, 40000, gens.rpc_call(xid=xid, mtype=1)))
        fr.append(net.frame_udp(gens.PEER4, gens.SELF4, 111, 40000, struct.pack("!I", 0x80000000 | len(body)) + body))
    # SMB with the reply flag
    import props.c01 as c01
    s1 = bytearray(c01.SMB1_NEG); s1[13] |= 0x80
    s2 = bytearray(c01.SMB2_NEG); s2[20] |= 0x01
    fr.append(net.frame_udp(gens.PEER4, gens.SELF4, 445, 40000, bytes(s1)))
    fr.append(net.frame_udp(gens.PEER4, gens.SELF4, 445, 40000, bytes(s2)))
    # ... every SMB1 flags byte with the reply bit, SMB2 flag words with it; negotiate and session setup; over TCP too
    import props.c17 as c17
    k = 0
    for fl in (range(0x80, 0x100) if tier == "thorough" else list(range(0x80, 0x100, 8)) + [0x98, 0x81, 0xff, 0x88, 0x90]):
        for cmd, body in ((0x72, c17.smb1_neg_body([c17.D_NTLM])), (0x73, c17.smb1_setup_body(b"\x60\x06blob12"))):
            p1 = c17.nbt(c17.smb1_hdr(cmd, flags=fl) + body)
            k += 1
            if k % 2:
                fr.append(net.frame_udp(gens.PEER4, gens.SELF4, 445, 40000 + k, p1))
            else:
                fr += gens.handshake(CFG.key, gens.PEER4, gens.SELF4, 41000 + k, 445, [p1])
    for fl in (1, 3, 9, 0x11, 0x80000001, 0xffffffff):
        for cmd, body in ((0, c17.smb2_neg_body([0x0202, 0x0311])), (1, c17.smb2_setup_body(b"\x60\x06blob12"))):
            k += 1
            fr += gens.handshake(CFG.key, gens.PEER6, gens.SELF6, 41000 + k, 445, [c17.nbt(c17.smb2_hdr(cmd, flags=fl) + body)])
    return fr


def reply_typed_tcp_with_data(rng):
    """SYN|ACK and RST segments that carry a payload and acknowledge the flow's cookie, on fresh flows and on flows that
    hold state (FIN|ACK is not in the property's list: it is answered by FIN|ACK, an exchange that never ends)"""
    fr, sport = [], 42000
    half1, half2 = b"GET /index.html HT", b"TP/1.1\r\nHost: a\r\n\r\n"
    for v6 in (False, True):
        s, d = gens.addr_pair(v6)
        for fl in (0x12, 0x04, 0x14, 0x52, 0x92, 0x112):
            for payload in (gens.http_req(), b"x", b"SSH-2.0-x\r\n"):
                for established in (False, True):
                    sport += 1
                    ck = net.cookie(CFG.key, s, d, sport, 80)
                    if established:
                        fr += gens.handshake(CFG.key, s, d, sport, 80, [half1])
                    else:
                        fr.append(net.frame_tcp(s, d, sport, 80, 1000, 0, 0x02))
                    fr.append(net.frame_tcp(s, d, sport, 80, 1001 + (len(half1) if established else 0), (ck + 1) & 0xFFFFFFFF, fl, payload))
                    if established:
                        fr.append(net.frame_tcp(s, d, sport, 80, 1001 + len(half1), (ck + 1) & 0xFFFFFFFF, 0x18, half2))
    return fr


def bounce(frame_out):
    """Re-address an emitted frame to the responder: swap MACs, addresses and ports, keep the payload."""
    p = net.parse_frame(frame_out)
    if p is None:
        return None
    if p.ety == 0x0806:
        a = p.arp
        return net.eth(p.mac_src, p.mac_dst, 0x0806, a[:8] + a[8:18] + a[18:28] + a[28:])   # same ARP body back
    if p.ipver is None or p.l4 is None:
        return None
    src, dst = p.ip_src, p.ip_dst          # the bounced frame goes from the old destination ... wait: reflect
    # the reply went responder(src) -> peer(dst); the bounce goes peer -> responder with the same payload
    if p.proto == 17 and p.app is not None:
        l4 = net.udp(dst, src, p.dport, p.sport, p.app)
    elif p.proto == 6 and p.app is not None:
        l4 = net.tcp(dst, src, p.dport, p.sport, p.ack, p.seq, p.flags, p.app)
    elif p.proto == 1:
        l4 = net.icmp4(p.icmp_type, p.icmp_code, p.app or b"")
    elif p.proto == 58:
        l4 = net.icmp6(dst, src, p.icmp_type, p.icmp_code, p.app or b"")
    else:
        return None
    if p.ipver == 4:
        return net.eth(p.mac_src, p.mac_dst, 0x0800, net.ipv4(dst, src, p.proto, l4))
    return net.eth(p.mac_src, p.mac_dst, 0x86DD, net.ipv6(dst, src, p.proto, l4))


def listed_reply(frame_out):
    """Is this emitted frame a reply-typed message of one of the protocols C12 lists (ARP, ICMP, TCP flags, DNS,
    STUN, SMB, ONC-RPC)?  Gh0st / SSH / HTTP replies are not protocol-marked replies in C12's sense: an SSH banner
    or a Gh0st frame is also a valid request, so two responders bounce them for ever (recorded as an observation)."""
    p = net.parse_frame(frame_out)
    if p is None:
        return False
    if p.ety == 0x0806 or p.proto in (1, 58):
        return True
    a = p.app
    if p.proto == 6 and not a:
        # TCP marks SYN|ACK and RST as replies; a FIN|ACK is answered by a FIN|ACK statelessly, so two
        # responders bounce FIN|ACKs for ever (outside C12's list; recorded as an observation)
        return p.flags == 0x12 or bool(p.flags & 0x04)
    if not a:
        return False
    if a[:5] == b"Gh0st" or a[:4] == b"SSH-" or a[:5] == b"HTTP/":
        return False
    return True


def seed_requests(rng):
    fr = gens.all_layers_frames(rng)
    for v6 in (False, True):
        s, d = gens.addr_pair(v6)
        for name, p, t, u in gens.app_seeds():
            if t:
                fr += gens.handshake(CFG.key, s, d, rng.randrange(1024, 65536), 80, [p])
    return fr


def established_flow_scripts(rng):
    """Reply-typed messages arriving as LATER segments of a flow that a valid request has already pinned to a
    protocol (the per-flow parser then has state: a reply must not be read as a fresh request)."""
    out = []
    rpc_replies = []
    for xid in (0x12345678, 0x00112233):
        for results in (b"", b"\0" * 16, b"\0\0\0\x6f" + b"\0" * 28):
            body = struct.pack("!IIIIII", xid, 1, 0, 0, 0, 0) + results
            body = body + b"\0" * max(0, 44 - len(body))      # long enough to parse to the end of a call layout
            rpc_replies.append(struct.pack("!I", 0x80000000 | len(body)) + body)
    call = gens.rpc_call(xid=0x81020304, vers=2, proc=0, tcp=True)
    http_resp = b"HTTP/1.1 401 Unauthorized\nServer: x\n\n<html></html>\n"
    import props.c01 as c01
    s1 = bytearray(c01.SMB1_NEG); s1[13] |= 0x80
    for v6 in (False, True):
        s, d = gens.addr_pair(v6)
        for i, rep in enumerate(rpc_replies):
            out.append(Script(CFG, gens.handshake(CFG.key, s, d, 41000 + i, 111, [call, rep, rep]), "established:rpc"))
            out.append(Script(CFG, gens.handshake(CFG.key, s, d, 41100 + i, 111, [call + rep]), "established:rpc-same-segment"))
        # calls whose record mark does not have the last-fragment bit (as a later message of a flow bound to RPC, and as
        # the first one with a mark byte that is not the first byte of another signature), then reply-typed messages
        raw = call[4:]
        nolast = struct.pack("!I", len(raw)) + raw
        odd = struct.pack("!I", 0x40000000 | len(raw)) + raw
        for j, segs in enumerate(([call, nolast, rpc_replies[0], rpc_replies[1]], [odd, rpc_replies[0], rpc_replies[2]],
                                  [call, odd, nolast, rpc_replies[3], rpc_replies[0]])):
            out.append(Script(CFG, gens.handshake(CFG.key, s, d, 41150 + j, 111, segs), "established:rpc-no-last-fragment-bit"))
        out.append(Script(CFG, gens.handshake(CFG.key, s, d, 41200, 80, [gens.http_req(), http_resp, http_resp]), "established:http"))
        out.append(Script(CFG, gens.handshake(CFG.key, s, d, 41300, 3478, [gens.stun_req(), gens.stun_req(mtype=0x0101), gens.stun_req(mtype=0x0111)]), "established:stun"))
        # a flow really bound to the STUN responder (over TCP only a magic-cookie request of >= 256 attribute bytes is
        # identified), then every non-request class and a few non-Binding methods, with and without the cookie
        bind = gens.stun_req(magic=True, attrs=gens.stun_attr(0x8022, b"S" * 252))
        for j, types in enumerate(((0x0101, 0x0111, 0x0011), (0x0002, 0x0201, 0x0112), (0x0401, 0x3e01, 0x0113), (0x0011, 0x0801, 0x2001))):
            later = [gens.stun_req(mtype=t, magic=(k + j) % 2 == 0, attrs=b"" if k else gens.stun_attr(3, b"\0\0\0\2")) for k, t in enumerate(types)]
            out.append(Script(CFG, gens.handshake(CFG.key, s, d, 41310 + j, 3478, [bind] + later), "established:stun-bound"))
        out.append(Script(CFG, gens.handshake(CFG.key, s, d, 41400, 445, [c01.SMB1_NEG, bytes(s1)]), "established:smb"))
    return out


def generate(tier, rng):
    for sc in established_flow_scripts(rng):
        yield sc
    yield Script(CFG, reply_typed_frames(rng, tier), "reply-typed")
    yield Script(CFG, seed_requests(rng), "seed-requests (their replies are bounced)")
    yield Script(CFG, reply_typed_tcp_with_data(rng), "reply-typed-tcp-with-data")


def nontrivial(script):
    return True


def project(script, i, o):
    if o.reply is None:
        return (o.kind, None)
    return (o.kind,) + tuple(runner.mask_app(x) if isinstance(x, (bytes, bytearray)) else x
                             for x in net.norm_frame(o.reply))


def evaluate_custom(scripts, drivers):
    issues = []
    stats = {"frames": 0, "replies": 0, "silence": 0, "panics": 0, "monitor_evals": 0, "chains": 0,
             "chain_lengths": {}, "bounced_own_replies": 0}
    for dname, driver in drivers:
        level = list(scripts)
        # hop 0: the given frames; hop k: bounce of the replies of hop k-1 (each chain is its own script, fresh table per hop
        # is NOT wanted for TCP, so chains are followed frame by frame inside one growing script)
        chains = []      # (origin script, origin frame index, [frames so far], replies count)
        io = runner.run_impl(level, driver)
        mo = runner.run_model(level, io, monitors=MONITORS, ovf=(dname == "dev"))
        for si, s in enumerate(level):
            for fi in range(len(s.frames)):
                a, b = io[si][fi], mo[si][fi]
                stats["frames"] += 1
                stats["replies" if a.kind == "R" else "silence" if a.kind == "N" else "panics"] += 1
                for name, v in b.monitors.items():
                    stats["monitor_evals"] += 1
                    if not v:
                        issues.append({"kind": "monitor", "script": Script(s.cfg, s.frames[:fi + 1], s.tag), "frame": fi,
                                       "driver": dname, "monitor": name, "impl": a.short(), "model": b.short()})
                if project(s, fi, a) != project(s, fi, b):
                    issues.append({"kind": "correspondence", "script": Script(s.cfg, s.frames[:fi + 1], s.tag), "frame": fi,
                                   "driver": dname, "impl": a.short()[:300], "model": b.short()[:300]})
                if a.kind == "R" and (not s.tag.startswith("seed") or listed_reply(a.reply)):
                    chains.append((s, fi, [a.reply], 1))
        # follow the chains: each hop is run as script = origin prefix + bounced frames (same table history)
        for hop in range(1, 5):
            nxt_scripts, owners = [], []
            for (s, fi, replies, n) in chains:
                fr = s.frames[:fi + 1]
                for r in replies:
                    bf = bounce(r)
                    if bf is None:
                        fr = None
                        break
                    fr = fr + [bf]
                if fr is None:
                    continue
                nxt_scripts.append(Script(s.cfg, fr, s.tag + " +bounce%d" % hop))
                owners.append((s, fi, replies, n))
            if not nxt_scripts:
                break
            io2 = runner.run_impl(nxt_scripts, driver)
            mo2 = runner.run_model(nxt_scripts, io2, monitors=MONITORS, ovf=(dname == "dev"))
            new_chains = []
            for k, sc in enumerate(nxt_scripts):
                a, b = io2[k][-1], mo2[k][-1]
                stats["frames"] += 1
                if hop == 1:
                    stats["bounced_own_replies"] += 1
                for name, v in b.monitors.items():
                    stats["monitor_evals"] += 1
                    if not v:
                        issues.append({"kind": "monitor", "script": sc, "frame": len(sc.frames) - 1, "driver": dname,
                                       "monitor": name, "impl": a.short(), "model": b.short()})
                if project(sc, len(sc.frames) - 1, a) != project(sc, len(sc.frames) - 1, b):
                    issues.append({"kind": "correspondence", "script": sc, "frame": len(sc.frames) - 1, "driver": dname,
                                   "impl": a.short()[:300], "model": b.short()[:300]})
                s, fi, replies, n = owners[k]
                if a.kind == "R":
                    # the origin frame of a "seed-requests" chain is a request, so its own reply does not count:
                    # the chain of the property starts at the reply-typed message = the first bounced reply
                    new_chains.append((s, fi, replies + [a.reply], n + 1))
                else:
                    ln = n - (1 if s.tag.startswith("seed") else 0)
                    stats["chain_lengths"][str(ln)] = stats["chain_lengths"].get(str(ln), 0) + 1
                    stats["chains"] += 1
            chains = new_chains
        for (s, fi, replies, n) in chains:
            ln = n - (1 if s.tag.startswith("seed") else 0)
            stats["chains"] += 1
            stats["chain_lengths"][str(ln)] = stats["chain_lengths"].get(str(ln), 0) + 1
        # verdict on chain lengths: more than 2 replies in total after a reply-typed message
        for (s, fi, replies, n) in chains:
            ln = n - (1 if s.tag.startswith("seed") else 0)
            if ln > 2:
                fr = s.frames[:fi + 1] + [bounce(r) for r in replies[:-1]]
                issues.append({"kind": "monitor", "script": Script(s.cfg, fr, s.tag + " chain"), "frame": len(fr) - 1,
                               "driver": dname, "monitor": "C12-chain", "impl": "chain of %d replies and still going" % ln,
                               "model": "at most 2 replies"})
    return issues, stats
