(* Proofs/GlueExamples.v -- non-vacuity of the theorems of Properties/Current.v on the data
   of the current implementation: whole Ethernet frames (Proofs/FrameBuild.v) run through
   [reply]; the payloads on which the discharge of the identification hypotheses rests;
   the payloads on which C15's class and C10's class differ.  Closed computations. *)
From MS Require Import Stun Rpc Smb Proto L2 Spec.View Spec.RefDec Spec.TcpRef Spec.RefStun Spec.RefXdr Spec.AppView
     Spec.History Spec.RefSig Spec.C10 Spec.C10Known Spec.C15 Spec.C16 Spec.C17 Instance
     Proofs.FrameBuild Proofs.C10Current Proofs.C15Examples Proofs.C15Frame Proofs.C15FrameExamples
     Proofs.C16Examples Proofs.C16Frame Proofs.C17Examples
     Proofs.GluePat Proofs.GlueC16 Proofs.GlueC15 Proofs.GlueC17.

Definition gx_reply (f : bytes) : option bytes :=
  match reply the_env fx_cfg fx_clk [] f with Ok (_, r, _) => r | Panic _ => None end.
Definition gx_is_ok (f : bytes) : bool :=
  match reply the_env fx_cfg fx_clk [] f with Ok _ => true | Panic _ => false end.

(* ---- C16: demanded payloads exist, match the patterns, are outside D0 and identified ---- *)
Example ex_glue_C16 :
  (c16_demands false false c16_udp_payload = true /\ pmatch false pat_rpc_udp c16_udp_payload = true /\
   D0 K0 c16_udp_payload = false /\ ref_udp c16_udp_payload = Some ID_RPC_UDP /\
   udp_id the_env c16_udp_payload = Some PROTO_RPC_UDP /\
   gx_is_ok c16_udp_frame = true /\ ok_C16_udp fx_cfg c16_udp_frame (gx_reply c16_udp_frame) = true /\
   ok_C16_udp fx_cfg c16_udp_frame None = false) /\
  (c16_demands false true c16_tcp_payload = true /\ pmatch false pat_rpc_tcp c16_tcp_payload = true /\
   D0_tcp K0 c16_tcp_payload = false /\ ref_tcp c16_tcp_payload = Some ID_RPC_TCP /\
   tcp_first_id the_env c16_tcp_payload = Some PROTO_RPC_TCP /\
   gx_is_ok c16_tcp_frame = true /\ ok_C16_tcp fx_cfg [] c16_tcp_frame (gx_reply c16_tcp_frame) = true /\
   ok_C16_tcp fx_cfg [] c16_tcp_frame None = false).
Proof. vm_compute. repeat split; reflexivity. Qed.

(* ---- C15 ---- *)
(* UDP/IPv6, the 288-byte magic-cookie request (length field 0x010c): discharged by C10 *)
Definition gx_stun_udp_frame : bytes := fx_udp false 40000 3478 (ser_stun x_big).
(* UDP/IPv4, 20-byte request with the magic cookie, and the 28-byte CHANGE-REQUEST request that
   is also the head of an ONC-RPC/TCP call: inside C10's class, outside [stun_shadowed],
   identified as STUN by the matcher (by the published list: STUN, resp. RPC_TCP) *)
Definition gx_stun_cookie20_frame : bytes := fx_udp true 40000 3478 W_stun_cookie20.
Definition gx_stun_tie_frame : bytes := fx_udp true 40000 3478 W_tie.

Example ex_glue_C15_udp :
  (stun_published false (ser_stun x_big) = true /\ stun_shadowed false (ser_stun x_big) = false /\
   pmatch false pat_stun_magic (ser_stun x_big) = true /\ D0 K0 (ser_stun x_big) = false /\
   ref_udp (ser_stun x_big) = Some ID_STUN /\ udp_id the_env (ser_stun x_big) = Some PROTO_STUN /\
   (length gx_stun_udp_frame <=? 4096)%nat = true /\ gx_is_ok gx_stun_udp_frame = true /\
   ok_C15_udp fx_cfg gx_stun_udp_frame (gx_reply gx_stun_udp_frame) = true /\
   ok_C15_udp fx_cfg gx_stun_udp_frame None = false) /\
  (gx_is_ok c15_udp_frame = true /\ (length c15_udp_frame <=? 4096)%nat = true /\
   ok_C15_udp fx_cfg c15_udp_frame (gx_reply c15_udp_frame) = true /\ ok_C15_udp fx_cfg c15_udp_frame None = false).
Proof. vm_compute. repeat split; reflexivity. Qed.

Definition is_binding_req (p : bytes) : bool :=
  match dec_stun_req p with Some m => is_binding_request m | None => false end.

(* the payloads on which C10's class and C15's class differ *)
Example ex_glue_C15_class_mismatch :
  (is_binding_req W_stun_cookie20 = true /\ sig_empty W_stun_cookie20 = true /\
   stun_published false W_stun_cookie20 = true /\ stun_shadowed false W_stun_cookie20 = false /\
   c10_class_payload false W_stun_cookie20 = true /\
   ref_udp W_stun_cookie20 = Some ID_STUN /\ udp_id the_env W_stun_cookie20 = Some PROTO_STUN /\
   pmatch true pat_stun_empty W_stun_cookie20 = true /\
   ok_C15_udp fx_cfg gx_stun_cookie20_frame (gx_reply gx_stun_cookie20_frame) = true /\
   ok_C15_udp_strict fx_cfg gx_stun_cookie20_frame (gx_reply gx_stun_cookie20_frame) = true /\
   ok_C15_udp fx_cfg gx_stun_cookie20_frame None = false) /\
  (is_binding_req W_tie = true /\ sig_change W_tie = true /\
   stun_published false W_tie = true /\ stun_shadowed false W_tie = false /\
   c10_class_payload false W_tie = true /\
   ref_udp W_tie = Some ID_RPC_TCP /\ udp_id the_env W_tie = Some PROTO_STUN /\
   pmatch true pat_stun_change W_tie = true /\
   ok_C15_udp fx_cfg gx_stun_tie_frame (gx_reply gx_stun_tie_frame) = true /\
   ok_C15_udp_strict fx_cfg gx_stun_tie_frame (gx_reply gx_stun_tie_frame) = true /\
   ok_C15_udp fx_cfg gx_stun_tie_frame None = false).
Proof. vm_compute. repeat split; reflexivity. Qed.

Example ex_glue_C15_tcp :
  stun_published true (ser_stun x_big) = true /\ stun_shadowed true (ser_stun x_big) = false /\
  D0_tcp K0 (ser_stun x_big) = false /\ ref_tcp (ser_stun x_big) = Some ID_STUN /\
  gx_is_ok c15_tcp_frame = true /\
  ok_C15_tcp fx_cfg [] c15_tcp_frame (gx_reply c15_tcp_frame) = true /\ ok_C15_tcp fx_cfg [] c15_tcp_frame None = false.
Proof. vm_compute. repeat split; reflexivity. Qed.

(* ---- C17: SMB1 negotiate in a UDP/IPv4 datagram; SMB2 session setup in the first data
   segment of a TCP/IPv6 flow (after the SYN) ---- *)
Definition gx_smb_udp_frame : bytes := fx_udp true 40000 445 x_smb1_req_negotiate.
Definition gx_smb_tcp_frame : bytes := fx_data false 50000 445 7000 x_smb2_req_session_setup.
Definition gx_smb_tcp_hist : list (clock * bytes) := fx_hist false 50000 445 6999.

Definition classified (p : bytes) : bool := match classify p with Some _ => true | None => false end.

Example ex_glue_C17 :
  (udp_req fx_cfg gx_smb_udp_frame = Some (fx_ctx true false 40000 445, x_smb1_req_negotiate) /\
   classified x_smb1_req_negotiate = true /\ pmatch false (pat_smb 255) x_smb1_req_negotiate = true /\
   D0 K0 x_smb1_req_negotiate = false /\ ref_udp x_smb1_req_negotiate = Some ID_SMB1 /\
   gx_is_ok gx_smb_udp_frame = true /\
   (match gx_reply gx_smb_udp_frame with Some _ => true | None => false end) = true /\
   ok_C17_udp fx_cfg gx_smb_udp_frame (gx_reply gx_smb_udp_frame) = true /\
   ok_C17_udp fx_cfg gx_smb_udp_frame None = false) /\
  (run the_env fx_cfg [] gx_smb_tcp_hist = Ok [] /\ ref_run fx_cfg (frames gx_smb_tcp_hist) = [] /\
   tcp_first_req fx_cfg [] gx_smb_tcp_frame = Some (fx_ctx false true 50000 445, x_smb2_req_session_setup) /\
   classified x_smb2_req_session_setup = true /\ pmatch false (pat_smb 254) x_smb2_req_session_setup = true /\
   D0_tcp K0 x_smb2_req_session_setup = false /\ ref_tcp x_smb2_req_session_setup = Some ID_SMB2 /\
   gx_is_ok gx_smb_tcp_frame = true /\
   ok_C17_tcp fx_cfg [] gx_smb_tcp_frame (gx_reply gx_smb_tcp_frame) = true /\
   ok_C17_tcp fx_cfg [] gx_smb_tcp_frame None = false).
Proof. vm_compute. repeat split; reflexivity. Qed.
