(* Instance.v -- the environment of the current implementation: the generated
   tables and constants packaged as the [env] the model is run and proved with.
   Rebuilt whenever gen/*.v changes. *)
From MS Require Export Proto.
From MSgen Require Tables Consts.

Definition the_env : env := {|
  e_proto_tbl := Tables.proto_tbl;
  e_http_tbl := Tables.http_tbl;
  e_http_pre := Consts.http_pre;
  e_http_post := Consts.http_post;
  e_ssh_banner := Consts.ssh_banner;
  e_ghost := Consts.ghost;
  e_smb_neg := Consts.smb_neg;
  e_smb_chal := Consts.smb_chal
|}.
