(* Proofs/C12Refute.v -- concrete frames on the tables of the current implementation
   ([the_env]), run through reply() by kernel computation:
   (1) the frame-level monitor ok_C12 of Spec/C12.v is FALSE of the model (three witnesses:
       classifier too coarse / wrong layout on the wrong transport / continuation segment),
       while the corrected monitor ok_C12x accepts the same exchanges;
   (2) non-vacuity: reply-typed messages of each protocol that get no answer, and reply-typed
       messages that ARE answered because they are valid requests of another protocol. *)
From MS Require Import Rpc Proto L2 Cookie Proofs.Pipeline Spec.View Spec.AppView Spec.C12 Spec.C12x Spec.EnvOk
     Instance Properties.Env.

Definition x_clk : clock := {| clk_date := []; clk_filetime := 0 |}.
Definition x_cfg : config :=
  {| c_mac := [192; 255; 238; 192; 255; 238]; c_self := None; c_deny := None; c_key0 := 0; c_key1 := 0;
     c_level := 5; c_ovf := true |}.
(* Ethernet / IPv4 / UDP 10.0.0.9:40000 -> 10.0.0.1:dport *)
Definition x_udp (dport : N) (p : bytes) : bytes :=
  let udp := be16 40000 ++ be16 dport ++ be16 (8 + lenN p) ++ [0; 0] ++ p in
  eth_frame (c_mac x_cfg) [1; 2; 3; 4; 5; 6] 2048 (ipv4_header (20 + lenN udp) 17 [10; 0; 0; 9] [10; 0; 0; 1] ++ udp).
(* Ethernet / IPv4 / TCP PSH|ACK presenting the cookie *)
Definition x_tcp (dport seq : N) (p : bytes) : bytes :=
  let ck := cookie 0 0 [10; 0; 0; 9] [10; 0; 0; 1] 40000 dport in
  let tcp := tcp_header 40000 dport seq (ck + 1) 24 ++ p in
  eth_frame (c_mac x_cfg) [1; 2; 3; 4; 5; 6] 2048 (ipv4_header (20 + lenN tcp) 6 [10; 0; 0; 9] [10; 0; 0; 1] ++ tcp).

(* (table after, emitted frame, Spec/C12.v monitor, corrected monitor) *)
Definition x_run (tb : table) (f : bytes) : option (table * option bytes * bool * bool) :=
  match reply the_env x_cfg x_clk tb f with
  | Ok (tb', r, _) => Some (tb', r, ok_C12 x_cfg f r, ok_C12x x_cfg f r)
  | Panic _ => None
  end.
Definition x_verdicts (tb : table) (f : bytes) : option (bool * bool * bool) :=
  match x_run tb f with
  | Some (_, r, a, b) => Some (match r with Some _ => true | None => false end, a, b)
  | None => None
  end.
Definition x_payload_udp (f : bytes) : option bytes :=
  match x_run [] f with
  | Some (_, r, _, _) => match udp_resp r with Some o => o | None => None end
  | None => None
  end.

(* ---- witness 1: a well-formed ONC-RPC reply datagram (xid 0x00010008, REPLY, MSG_ACCEPTED,
   verifier AUTH_NONE of 4 bytes, SUCCESS) is also a classic STUN binding request with a
   CHANGE-REQUEST attribute; the STUN binding success response it elicits carries the
   transaction id 00000001 00000000 ... and is classified as an RPC reply by is_rpc_reply *)
Definition w1 : bytes :=
  [0; 1; 0; 8; 0; 0; 0; 1; 0; 0; 0; 0; 0; 0; 0; 0; 0; 0; 0; 4; 0; 3; 0; 4; 0; 0; 0; 0].
(* ---- witness 2: a portmapper CALL with RPC version 1 in datagram layout has the word 1 at
   offset 8, where the record layout has its message type: ok_C12 applies the record-layout
   predicate to a datagram (and the datagram one to a segment) ---- *)
Definition w2 : bytes :=
  [222; 173; 190; 239; 0; 0; 0; 0; 0; 0; 0; 1; 0; 1; 134; 160; 0; 0; 0; 2; 0; 0; 0; 3;
   0; 0; 0; 0; 0; 0; 0; 0; 0; 0; 0; 0; 0; 0; 0; 0].
(* ---- witness 3: an RPC CALL over TCP cut after the procedure number; the second segment
   (credentials and verifier, verifier flavour 1) has the word 1 at offset 8 ---- *)
Definition w3a : bytes :=
  [128; 0; 0; 40; 222; 173; 190; 239; 0; 0; 0; 0; 0; 0; 0; 2; 0; 1; 134; 160; 0; 0; 0; 2; 0; 0; 0; 3].
Definition w3b : bytes := [0; 0; 0; 0; 0; 0; 0; 0; 0; 0; 0; 1; 0; 0; 0; 0].

Lemma w1_run :
  rpc_reply_typed_udp w1 = true /\ udp_id the_env w1 = Some PROTO_STUN /\
  x_verdicts [] (x_udp 3478 w1) = Some (true, false, true) /\
  x_payload_udp (x_udp 3478 w1) =
    Some [1; 1; 0; 12; 0; 0; 0; 1; 0; 0; 0; 0; 0; 0; 0; 0; 0; 0; 0; 4; 0; 1; 0; 8; 0; 1; 156; 64; 10; 0; 0; 9].
Proof. vm_compute. repeat split; reflexivity. Qed.

Lemma w2_run :
  rpc_reply_typed_tcp w2 = true /\ rpc_reply_typed_udp w2 = false /\
  udp_id the_env w2 = Some PROTO_RPC_UDP /\ tcp_first_id the_env w2 = Some PROTO_RPC_UDP /\
  x_verdicts [] (x_udp 111 w2) = Some (true, false, true) /\
  x_verdicts [] (x_tcp 111 1000 w2) = Some (true, false, true).
Proof. vm_compute. repeat split; reflexivity. Qed.

Lemma w3_run :
  rpc_reply_typed_tcp w3b = true /\
  match x_run [] (x_tcp 111 1000 w3a) with
  | Some (tb, _, a, b) => (a, b, x_verdicts tb (x_tcp 111 1028 w3b)) = (true, true, Some (true, false, true))
  | None => False
  end.
Proof. vm_compute. repeat split; reflexivity. Qed.

(* the statement "ok_C12 holds of everything reply() emits" is refuted *)
Theorem C12_spec_monitor_refuted :
  exists E cfg clk tb f tb' r evs,
    env_ok E = true /\ cfg_ok cfg = true /\ bytes_ok f = true /\ (length f <= 4096)%nat /\
    reply E cfg clk tb f = Ok (tb', r, evs) /\ ok_C12 cfg f r = false /\ ok_C12x cfg f r = true.
Proof.
  destruct (reply the_env x_cfg x_clk [] (x_udp 3478 w1)) as [[[tb' r] evs]|q] eqn:Hr.
  - exists the_env, x_cfg, x_clk, [], (x_udp 3478 w1), tb', r, evs.
    split; [exact the_env_ok|]. split; [vm_compute; reflexivity|]. split; [vm_compute; reflexivity|].
    split; [apply Nat.leb_le; vm_compute; reflexivity|]. split; [exact Hr|].
    pose proof (proj1 (proj2 (proj2 w1_run))) as V. unfold x_verdicts, x_run in V. rewrite Hr in V.
    destruct (ok_C12 x_cfg (x_udp 3478 w1) r), (ok_C12x x_cfg (x_udp 3478 w1) r); destruct r; inversion V.
    split; reflexivity.
  - exfalso. pose proof (proj1 (proj2 (proj2 w1_run))) as V. unfold x_verdicts, x_run in V. rewrite Hr in V.
    discriminate V.
Qed.

(* ---------------- non-vacuity ---------------- *)
(* a DNS response (QR = 1) to "ab. IN A" *)
Definition n_dns : bytes :=
  [18; 52; 132; 0; 0; 1; 0; 1; 0; 0; 0; 0; 2; 97; 98; 0; 0; 1; 0; 1; 2; 97; 98; 0; 0; 1; 0; 1; 0; 0; 168; 192; 0; 4; 10; 0; 0; 1].
(* a STUN binding success response (with the magic cookie) *)
Definition n_stun : bytes :=
  [1; 1; 0; 12; 33; 18; 164; 66; 1; 2; 3; 4; 5; 6; 7; 8; 9; 10; 11; 12; 0; 1; 0; 8; 0; 1; 156; 64; 10; 0; 0; 9].
(* an RPC reply datagram (the responder's own answer to GETPORT) *)
Definition n_rpc : bytes :=
  [161; 178; 195; 212; 0; 0; 0; 1; 0; 0; 0; 0; 0; 0; 0; 0; 0; 0; 0; 0; 0; 0; 0; 0; 0; 0; 0; 111].
(* the same, record-marked, as the first data segment of a flow *)
Definition n_rpc_tcp : bytes := [128; 0; 0; 28] ++ n_rpc.
(* SMB1 Negotiate with the reply flag (Flags = 0x98), SMB2 Negotiate with SERVER_TO_REDIR *)
Definition n_smb1 : bytes :=
  [0; 0; 0; 47; 255; 83; 77; 66; 114; 0; 0; 0; 0; 152; 1; 200; 0; 0; 0; 0; 0; 0; 0; 0; 0; 0; 0; 0; 0; 0; 0; 0; 0; 0; 0; 0;
   0; 12; 0; 2; 78; 84; 32; 76; 77; 32; 48; 46; 49; 50; 0].
Definition n_smb2 : bytes :=
  [0; 0; 0; 102; 254; 83; 77; 66; 64; 0; 0; 0; 0; 0; 0; 0; 0; 0; 0; 0; 1; 0; 0; 0] ++ zeros 44 ++
  [36; 0; 1; 0; 1; 0; 0; 0; 0; 0; 0; 0] ++ zeros 24 ++ [2; 2].

Lemma silent_examples :
  (dns_response_typed n_dns = true /\ x_verdicts [] (x_udp 53 n_dns) = Some (false, true, true)) /\
  (stun_nonrequest_typed n_stun = true /\ x_verdicts [] (x_udp 3478 n_stun) = Some (false, true, true)) /\
  (rpc_reply_typed_udp n_rpc = true /\ x_verdicts [] (x_udp 111 n_rpc) = Some (false, true, true)) /\
  (rpc_reply_typed_tcp n_rpc_tcp = true /\ tcp_resp (match x_run [] (x_tcp 111 1000 n_rpc_tcp) with Some (_, r, _, _) => r | None => None end) = Some None) /\
  (smb1_reply_typed n_smb1 = true /\ tcp_first_id the_env n_smb1 = Some PROTO_SMB1 /\
   tcp_resp (match x_run [] (x_tcp 445 1000 n_smb1) with Some (_, r, _, _) => r | None => None end) = Some None) /\
  (smb2_reply_typed n_smb2 = true /\ tcp_first_id the_env n_smb2 = Some PROTO_SMB2 /\
   tcp_resp (match x_run [] (x_tcp 445 1000 n_smb2) with Some (_, r, _, _) => r | None => None end) = Some None).
Proof. vm_compute. repeat split; reflexivity. Qed.

(* the same two SMB messages without the reply flag are answered (so the silence above is
   due to the flag) *)
Definition n_smb1_req : bytes := firstn 13 n_smb1 ++ [24] ++ skipn 14 n_smb1.
Definition n_smb2_req : bytes := firstn 20 n_smb2 ++ [0] ++ skipn 21 n_smb2.
Lemma smb_requests_answered :
  smb1_reply_typed n_smb1_req = false /\ smb2_reply_typed n_smb2_req = false /\
  match tcp_resp (match x_run [] (x_tcp 445 1000 n_smb1_req) with Some (_, r, _, _) => r | None => None end) with
  | Some (Some r) => is_smb1_reply r | _ => false end = true /\
  match tcp_resp (match x_run [] (x_tcp 445 1000 n_smb2_req) with Some (_, r, _, _) => r | None => None end) with
  | Some (Some r) => is_smb2_reply r | _ => false end = true.
Proof. vm_compute. repeat split; reflexivity. Qed.

(* reply-typed messages that ARE answered, by another protocol's responder:
   - a message with the DNS QR bit set that is a portmapper CALL (xid 0x1234c800): RPC reply;
   - a STUN binding success response (class bits 0x0101) that is a DNS query for "ab": DNS answer;
   - witness 1: an RPC reply datagram that is a STUN binding request: STUN response *)
Definition o_dns_rpc : bytes :=
  [18; 52; 200; 0; 0; 0; 0; 0; 0; 0; 0; 2; 0; 1; 134; 160; 0; 0; 0; 2; 0; 0; 0; 3;
   0; 0; 0; 0; 0; 0; 0; 0; 0; 0; 0; 0; 0; 0; 0; 0].
Definition o_stun_dns : bytes := [1; 1; 1; 0; 0; 1; 0; 0; 0; 0; 0; 0; 2; 97; 98; 0; 0; 1; 0; 1].
Lemma answered_by_another_protocol :
  (dns_response_typed o_dns_rpc = true /\ responder_of the_env false o_dns_rpc = PROTO_RPC_UDP /\
   match x_payload_udp (x_udp 111 o_dns_rpc) with
   | Some r => negb (is_dns_reply r) && is_rpc_reply_udp r | None => false end = true) /\
  (stun_nonrequest_typed o_stun_dns = true /\ responder_of the_env false o_stun_dns = PROTO_DNS /\
   match x_payload_udp (x_udp 53 o_stun_dns) with
   | Some r => negb (is_stun_reply r) && is_dns_reply r | None => false end = true) /\
  (rpc_reply_typed_udp w1 = true /\ responder_of the_env false w1 = PROTO_STUN /\
   match x_payload_udp (x_udp 3478 w1) with
   | Some r => negb (is_rpc_reply_udp r) && is_stun_reply r | None => false end = true).
Proof. vm_compute. repeat split; reflexivity. Qed.
