(* Proofs/C20.v -- the model's event list satisfies the C20 monitor, for every
   frame: by the case tree of Proofs/Factor.v, this time keeping the events. *)
From MS Require Import Proofs.Tactics Proofs.DecLemmas Proofs.Pipeline Proofs.Factor Proofs.FactorEv Proofs.ViewLemmas
     L2 Log Spec.RefDec Spec.View Spec.C02 Spec.C20.

(* ================= A. structure of the monitor ================= *)
Lemma split_last_snoc {A} (m : list A) (t : A) : split_last (m ++ [t]) = Some (m, t).
Proof. unfold split_last. rewrite rev_app_distr. cbn [rev app]. rewrite rev_involutive. reflexivity. Qed.

Lemma split_last_cons_snoc {A} (a : A) (m : list A) (t : A) : split_last (a :: m ++ [t]) = Some (a :: m, t).
Proof. rewrite app_comm_cons. apply split_last_snoc. Qed.

Lemma layer_eqb_refl l : layer_eqb l l = true.
Proof. destruct l; reflexivity. Qed.
Lemma verb_eqb_refl v : verb_eqb v v = true.
Proof. destruct v; reflexivity. Qed.

(* what the layers inside layer l contribute *)
Definition agree (V : verb) (evs : list event) : bool :=
  forallb (fun e => negb (is_terminal (ev_verb e)) || verb_eqb (ev_verb e) V) evs.

Definition inner_ok (cfg : config) (f : bytes) (r : option bytes) (ls : list layer) (evs : list event) (V : verb) : Prop :=
  balanced ls evs = true /\ agree V evs = true /\ fields_ok cfg f r evs = true.

Lemma inner_nil cfg f r V : inner_ok cfg f r [] [] V.
Proof. repeat split. Qed.

Lemma inner_wrap cfg f r l ls mid V c0 x0 c1 x1 :
  inner_ok cfg f r ls mid V -> is_terminal V = true ->
  event_ok cfg f r (mk_ev l Recv c0 x0) = true ->
  event_ok cfg f r (mk_ev l V c1 x1) = true ->
  inner_ok cfg f r (l :: ls) (mk_ev l Recv c0 x0 :: mid ++ [mk_ev l V c1 x1]) V.
Proof.
  intros (Hb & Ha & Hf) HV H0 H1. repeat split.
  - cbn [balanced]. rewrite split_last_snoc. cbn [mk_ev ev_layer ev_verb].
    rewrite layer_eqb_refl, HV, Hb. reflexivity.
  - unfold agree in *. cbn [forallb]. rewrite forallb_app, Ha. cbn [forallb mk_ev ev_verb is_terminal negb orb].
    rewrite verb_eqb_refl, orb_true_r. reflexivity.
  - unfold fields_ok in *. cbn [forallb]. rewrite forallb_app, Hf, H0. cbn [forallb]. rewrite H1. reflexivity.
Qed.

(* the two events of a transport layer *)
Lemma inner_pair cfg f r l V c0 x0 c1 x1 :
  is_terminal V = true ->
  event_ok cfg f r (mk_ev l Recv c0 x0) = true ->
  event_ok cfg f r (mk_ev l V c1 x1) = true ->
  inner_ok cfg f r [l] [mk_ev l Recv c0 x0; mk_ev l V c1 x1] V.
Proof.
  intros HV H0 H1.
  exact (inner_wrap cfg f r l [] [] V c0 x0 c1 x1 (inner_nil cfg f r V) HV H0 H1).
Qed.

Definition is_some {A} (o : option A) : bool := match o with Some _ => true | None => false end.

Lemma ok_assemble cfg f r ls mid V c0 x0 c1 x1 :
  layers_reached cfg f = LEth :: ls ->
  inner_ok cfg f r ls mid V -> is_terminal V = true -> is_send V = is_some r ->
  event_ok cfg f r (mk_ev LEth Recv c0 x0) = true ->
  event_ok cfg f r (mk_ev LEth V c1 x1) = true ->
  ok_C20 cfg f r (mk_ev LEth Recv c0 x0 :: mid ++ [mk_ev LEth V c1 x1]) = true.
Proof.
  intros HL Hin HV HS H0 H1.
  destruct (inner_wrap cfg f r LEth ls mid V c0 x0 c1 x1 Hin HV H0 H1) as (Hb & Ha & Hf).
  unfold ok_C20. rewrite HL, Hb, Hf.
  assert (eth_terminal (mk_ev LEth Recv c0 x0 :: mid ++ [mk_ev LEth V c1 x1]) = Some V) as Het.
  { unfold eth_terminal. rewrite split_last_cons_snoc. reflexivity. }
  unfold eth_terminal_is_send, terminals_agree. rewrite Het, HV, HS.
  fold (agree V (mk_ev LEth Recv c0 x0 :: mid ++ [mk_ev LEth V c1 x1])). rewrite Ha.
  destruct r; reflexivity.
Qed.

(* ================= B. comparison of printed fields ================= *)
Lemma bytes_eqb_refl (a : bytes) : bytes_eqb a a = true.
Proof. apply bytes_eqb_eq. reflexivity. Qed.
Lemma ip_eqb_refl (a : ipaddr) : ip_eqb a a = true.
Proof. destruct a; apply bytes_eqb_refl. Qed.
Lemma list_eqb_refl (a : list N) : list_eqb a a = true.
Proof. induction a as [|x a IH]; cbn [list_eqb]; [reflexivity|]. rewrite N.eqb_refl, IH. reflexivity. Qed.

(* two client records print alike: everything but the cookie is equal *)
Definition same_print (a b : cinfo) : Prop :=
  ci_mac_src a = ci_mac_src b /\ ci_mac_dst a = ci_mac_dst b /\
  ci_ip_src a = ci_ip_src b /\ ci_ip_dst a = ci_ip_dst b /\
  ci_transport a = ci_transport b /\ ci_port_src a = ci_port_src b /\ ci_port_dst a = ci_port_dst b.

Lemma same_print_refl a : same_print a a.
Proof. repeat split. Qed.
Lemma same_print_trans a b c : same_print a b -> same_print b c -> same_print a c.
Proof.
  intros (A1 & A2 & A3 & A4 & A5 & A6 & A7) (B1 & B2 & B3 & B4 & B5 & B6 & B7).
  repeat split; congruence.
Qed.

Lemma opt_eqb_refl {A} (eq : A -> A -> bool) (o : option A) :
  (forall x, eq x x = true) -> opt_eqb eq o o = true.
Proof. intros H. destruct o; cbn; auto. Qed.

Lemma ci_print_eqb_same a b : same_print a b -> ci_print_eqb a b = true.
Proof.
  intros (A1 & A2 & A3 & A4 & A5 & A6 & A7). unfold ci_print_eqb.
  rewrite A1, A2, A3, A4, A5, A6, A7.
  rewrite !(opt_eqb_refl bytes_eqb) by apply bytes_eqb_refl.
  rewrite !(opt_eqb_refl ip_eqb) by apply ip_eqb_refl.
  rewrite !(opt_eqb_refl N.eqb) by apply N.eqb_refl.
  rewrite opt_eqb_refl by (intros; apply N.eqb_refl).
  reflexivity.
Qed.

Lemma extra_print_eqb_refl l x : extra_print_eqb l x x = true.
Proof. destruct l; cbn [extra_print_eqb]; apply list_eqb_refl. Qed.

Lemma event_ok_intro cfg f r l v c x c' x' :
  expect_ci cfg f r l v = Some c' -> expect_extra cfg f r l v = Some x' ->
  same_print c c' -> x = x' ->
  event_ok cfg f r (mk_ev l v c x) = true.
Proof.
  intros Hc Hx Hs ->. unfold event_ok. cbn [mk_ev ev_layer ev_verb ev_ci ev_extra].
  rewrite Hc, Hx, (ci_print_eqb_same _ _ Hs), extra_print_eqb_refl. reflexivity.
Qed.

(* ================= C. the authorised destination MACs ================= *)
Lemma land_127 x : N.land x 127 = x mod 128.
Proof. change 127 with (N.ones 7). rewrite N.land_ones. reflexivity. Qed.

Lemma ref_auth_auth cfg m : ref_auth cfg m = auth_mac cfg m.
Proof.
  unfold ref_auth, auth_mac, MAC_BROADCAST, MAC_ALLNODES.
  assert (forall l, existsb (fun a => match a with
                                | V4 o => bytes_eqb m (ref_mcast4 o)
                                | V6 o => bytes_eqb m (ref_mcast6 o) end) l =
                    existsb (fun a => bytes_eqb m (mcast_mac a)) l) as HX.
  { intros l. induction l as [|a l IH]; cbn [existsb]; [reflexivity|]. rewrite IH. f_equal.
    destruct a as [o|o]; unfold mcast_mac, ref_mcast4, ref_mcast6; [|reflexivity].
    rewrite land_127. reflexivity. }
  destruct (c_self cfg) as [l|]; [rewrite HX|];
    destruct (bytes_eqb m (c_mac cfg)), (bytes_eqb m [255; 255; 255; 255; 255; 255]),
      (bytes_eqb m [51; 51; 0; 0; 0; 1]); reflexivity.
Qed.

(* ================= D. what the application layer does to the client record ================= *)
(* it is left alone, or (STUN change-port, always together with an answer) the
   local port is shifted by one *)
Definition ci_step (ci ci' : cinfo) (out : option bytes) : Prop :=
  ci' = ci \/
  exists d pl, out = Some pl /\ ci_port_dst ci = Some d /\ ci' = ci_set_port_dst ci (wrap16 (d + 1)).

Lemma stun_repl_ci ci data ci' o : stun_repl ci data = (ci', o) -> ci_step ci ci' o.
Proof.
  unfold stun_repl.
  destruct (length data <? 20)%nat; [intros H; inversion H; left; reflexivity|].
  destruct (64 <=? u8_at 0 data); [intros H; inversion H; left; reflexivity|].
  destruct (lenN data <? 20 + u16_at 2 data); [intros H; inversion H; left; reflexivity|].
  destruct (stun_attrs _ _ _) as [chg|]; [|intros H; inversion H; left; reflexivity].
  destruct (negb _); [intros H; inversion H; left; reflexivity|].
  destruct (negb _); [intros H; inversion H; left; reflexivity|].
  destruct (ci_ip_src ci) as [src|]; [|intros H; inversion H; left; reflexivity].
  destruct (ci_port_src ci) as [sp|]; [|intros H; inversion H; left; reflexivity].
  destruct (ci_port_dst ci) as [dp|] eqn:Hd; [|intros H; inversion H; left; reflexivity].
  destruct chg; intros H; inversion H; subst; [|left; reflexivity].
  right. eexists _, _. split; [reflexivity|]. split; [exact Hd|reflexivity].
Qed.

Lemma dispatch_ci E clk ci id t data ci' t' out :
  dispatch E clk ci id t data = Ok (ci', t', out) -> ci_step ci ci' out.
Proof.
  unfold dispatch.
  destruct (id =? PROTO_HTTP).
  { destruct t as [tc|].
    - destruct (t_pstate tc) as [[h|r]|]; try discriminate;
        (destruct (http_repl _ _ _ _ _ _) as [[h' o]|s]; cbn [bind]; [|discriminate];
         intros H; inversion H; left; reflexivity).
    - destruct (http_repl _ _ _ _ _ _) as [[h' o]|s]; cbn [bind]; [|discriminate].
      intros H; inversion H; left; reflexivity. }
  destruct (id =? PROTO_STUN).
  { destruct (stun_repl ci data) as [ci2 o] eqn:Hst. intros H; inversion H; subst.
    eapply stun_repl_ci; eassumption. }
  destruct (id =? PROTO_SSH); [intros H; inversion H; left; reflexivity|].
  destruct (id =? PROTO_GHOST); [intros H; inversion H; left; reflexivity|].
  destruct (id =? PROTO_RPC_TCP).
  { destruct (ci_ip_dst ci); [|intros H; inversion H; left; reflexivity].
    destruct (ci_port_dst ci); [|intros H; inversion H; left; reflexivity].
    destruct t as [tc|].
    - destruct (t_pstate tc) as [[h|r]|]; try discriminate;
        (destruct (rpc_repl_tcp _ _ _ _) as [r' o]; intros H; inversion H; left; reflexivity).
    - intros H; inversion H; left; reflexivity. }
  destruct (id =? PROTO_RPC_UDP).
  { destruct (ci_ip_dst ci); [|intros H; inversion H; left; reflexivity].
    destruct (ci_port_dst ci); intros H; inversion H; left; reflexivity. }
  destruct (id =? PROTO_SMB1).
  { destruct (smb1_repl _ _ _ _) as [o|s]; cbn [bind]; [|discriminate].
    intros H; inversion H; left; reflexivity. }
  destruct (id =? PROTO_SMB2).
  { destruct (smb2_repl _ _ _ _) as [o|s]; cbn [bind]; [|discriminate].
    intros H; inversion H; left; reflexivity. }
  intros H; inversion H; left; reflexivity.
Qed.

Lemma proto_repl_tcp_ci E clk ci tc data ci' tc' out :
  proto_repl_tcp E clk ci tc data = Ok (ci', tc', out) -> ci_step ci ci' out.
Proof.
  unfold proto_repl_tcp.
  destruct (tcp_identify E tc data) as [tc1 data1].
  destruct (dispatch E clk ci (t_proto tc1) (Some tc1) data1) as [[[c2 t2] o]|s] eqn:Hd; cbn [bind]; [|discriminate].
  intros H. inversion H; subst. eapply dispatch_ci; eassumption.
Qed.

Lemma proto_repl_udp_ci E clk ci data ci' out :
  proto_repl_udp E clk ci data = Ok (ci', out) -> ci_step ci ci' out.
Proof.
  unfold proto_repl_udp.
  destruct (search_next _ _ _) as [[id st] off].
  destruct (match id with Some i => Some i | None => fst (search_next_end (e_proto_tbl E) st) end) as [i|].
  - destruct (dispatch E clk ci i None data) as [[[c2 t2] o]|s] eqn:Hd; cbn [bind]; [|discriminate].
    intros H. inversion H; subst. eapply dispatch_ci; eassumption.
  - destruct (dns_repl _ _); intros H; inversion H; left; reflexivity.
Qed.

(* ================= E. the event pairs of the transport layers ================= *)
Ltac ci_cbn :=
  cbn [ci_mac_src ci_mac_dst ci_ip_src ci_ip_dst ci_transport ci_port_src ci_port_dst ci_cookie
       ci_set_mac ci_set_ip ci_set_transport ci_set_ports ci_set_port_dst ci_set_cookie ci_empty mk_ci].

Lemma cookie_ci_lt k0 k1 ci ck : cookie_ci k0 k1 ci = Some ck -> ck < 4294967296.
Proof.
  unfold cookie_ci, cookie.
  destruct (ci_port_src ci); [|discriminate]. destruct (ci_port_dst ci); [|discriminate].
  destruct (ci_ip_src ci) as [[s|s]|]; try discriminate;
    destruct (ci_ip_dst ci) as [[d|d]|]; try discriminate;
    intros H; inversion H; apply N.mod_lt; discriminate.
Qed.

Lemma wrap32_lt x : wrap32 x < 4294967296.
Proof. unfold wrap32. apply N.mod_lt. discriminate. Qed.
Lemma wrap16_lt x : wrap16 x < 65536.
Proof. unfold wrap16. apply N.mod_lt. discriminate. Qed.

(* the client record after the application layer, seen from the ports set by the transport layer *)
Lemma ci_step_ports ci0 sp dp k ci2 out :
  dp < 65536 ->
  ci_step (ci_set_cookie (ci_set_ports ci0 sp dp) k) ci2 out ->
  exists lp, ci_port_dst ci2 = Some lp /\ ci_port_src ci2 = Some sp /\ lp < 65536 /\
             same_print ci2 (ci_set_port_dst (ci_set_ports ci0 sp dp) lp).
Proof.
  intros Hdp [-> | (d & pl & _ & Hd & ->)].
  - exists dp. ci_cbn. repeat split. exact Hdp.
  - exists (wrap16 (d + 1)). ci_cbn. repeat split. apply wrap16_lt.
Qed.

Lemma ci_step_ports' ci0 sp dp ci2 out :
  dp < 65536 ->
  ci_step (ci_set_ports ci0 sp dp) ci2 out ->
  exists lp, ci_port_dst ci2 = Some lp /\ ci_port_src ci2 = Some sp /\ lp < 65536 /\
             same_print ci2 (ci_set_port_dst (ci_set_ports ci0 sp dp) lp) /\
             (out = None -> lp = dp).
Proof.
  intros Hdp [-> | (d & pl & Ho & Hd & ->)].
  - exists dp. ci_cbn. repeat split. exact Hdp.
  - exists (wrap16 (d + 1)). ci_cbn. repeat split; [apply wrap16_lt|]. intros C. rewrite C in Ho. discriminate.
Qed.

Lemma tcp_repl_shape E cfg clk tb ci0 p tb' ci' out evs :
  bytes_ok p = true ->
  tcp_repl E cfg clk tb ci0 p = Ok (tb', ci', out, evs) ->
  let ci := ci_set_ports ci0 (u16_at 0 p) (u16_at 2 p) in
  let x := [tcp_flags p; u32_at 4 p; u32_at 8 p] in
  match out with
  | None => evs = [mk_ev LTcp Recv ci x; mk_ev LTcp Drop ci' x] /\ same_print ci' ci
  | Some r4 =>
    exists lp fl sq ak pl,
      r4 = tcp_header lp (u16_at 0 p) sq ak fl ++ pl /\
      evs = [mk_ev LTcp Recv ci x; mk_ev LTcp Send ci' [fl; sq; ak]] /\
      same_print ci' (ci_set_port_dst ci lp) /\
      lp < 65536 /\ fl < 512 /\ sq < 4294967296 /\ ak < 4294967296
  end.
Proof.
  intros Hp. cbv zeta.
  pose proof (u16_at_lt 2 p Hp) as Hdp. pose proof (u32_at_lt 8 p Hp) as Hack.
  unfold tcp_repl.
  destruct (tcp_class (tcp_flags p)).
  - (* data *)
    destruct (cookie_ci _ _ _) as [ck|] eqn:Hck; [|discriminate].
    destruct (negb (tbl_mem ck tb) && negb (ck =? _)).
    { intros H. inversion H; subst. split; [reflexivity|]. ci_cbn. repeat split. }
    destruct (proto_repl_tcp _ _ _ _ _) as [[[ci2 tc'] o]|s] eqn:Hpr; cbn [bind]; [|discriminate].
    apply proto_repl_tcp_ci in Hpr.
    destruct (ci_step_ports _ _ _ _ _ _ Hdp Hpr) as (lp & Hd & Hs & Hlp & Hsame).
    destruct o as [d|]; rewrite Hd, Hs; intros H; inversion H; subst;
      eexists lp, _, _, _, _; (split; [reflexivity|]); (split; [reflexivity|]);
      (split; [exact Hsame|]); (split; [exact Hlp|]);
      (split; [unfold ACK, PSH; lia|]); (split; [exact Hack|apply wrap32_lt]).
  - intros H. inversion H; subst. split; [reflexivity|apply same_print_refl].
  - intros H. inversion H; subst. split; [reflexivity|apply same_print_refl].
  - (* FIN|ACK *)
    ci_cbn. intros H. inversion H; subst.
    eexists (u16_at 2 p), _, _, _, _. split; [reflexivity|]. split; [reflexivity|].
    split; [ci_cbn; repeat split|]. split; [exact Hdp|].
    split; [unfold FIN, ACK; lia|]. split; [exact Hack|apply wrap32_lt].
  - (* SYN *)
    destruct (cookie_ci _ _ _) as [ck|] eqn:Hck; [|discriminate].
    ci_cbn. intros H. inversion H; subst.
    eexists (u16_at 2 p), _, _, _, _. split; [reflexivity|]. split; [reflexivity|].
    split; [ci_cbn; repeat split|]. split; [exact Hdp|].
    split; [unfold SYN, ACK; lia|]. split; [eapply cookie_ci_lt; eassumption|apply wrap32_lt].
  - intros H. inversion H; subst. split; [reflexivity|apply same_print_refl].
Qed.

Lemma udp_repl_shape E cfg clk ci0 p ci' out evs :
  bytes_ok p = true ->
  udp_repl E cfg clk ci0 p = Ok (ci', out, evs) ->
  let ci := ci_set_ports ci0 (u16_at 0 p) (u16_at 2 p) in
  match out with
  | None => evs = [mk_ev LUdp Recv ci []; mk_ev LUdp Drop ci' []] /\ same_print ci' ci
  | Some r4 =>
    exists lp d,
      r4 = be16 lp ++ be16 (u16_at 0 p) ++ be16 (8 + lenN d) ++ [0; 0] ++ d /\
      evs = [mk_ev LUdp Recv ci []; mk_ev LUdp Send ci' []] /\
      same_print ci' (ci_set_port_dst ci lp) /\ lp < 65536
  end.
Proof.
  intros Hp. cbv zeta. pose proof (u16_at_lt 2 p Hp) as Hdp.
  unfold udp_repl.
  destruct (proto_repl_udp _ _ _ _) as [[ci1 o]|s] eqn:Hpr; cbn [bind]; [|discriminate].
  apply proto_repl_udp_ci in Hpr.
  destruct (ci_step_ports' _ _ _ _ _ Hdp Hpr) as (lp & Hd & Hs & Hlp & Hsame & Hnone).
  destruct o as [d|].
  - rewrite Hd, Hs. intros H. inversion H; subst.
    eexists lp, _. split; [reflexivity|]. split; [reflexivity|]. split; [exact Hsame|exact Hlp].
  - intros H. inversion H; subst. split; [reflexivity|].
    rewrite (Hnone eq_refl) in Hsame. eapply same_print_trans; [exact Hsame|].
    ci_cbn. repeat split.
Qed.

(* ================= F. facts that follow from the stack's view of the frame ================= *)
Definition ipof (v : l4view) (b : bytes) : ipaddr := if v_v4 v then V4 b else V6 b.
Definition l3_of (v : l4view) : layer := if v_v4 v then LIpv4 else LIpv6.

Definition c3 (f : bytes) (v : l4view) : cinfo :=
  mk_ci (Some (firstn 6 (skipn 6 f))) (Some (firstn 6 f)) (Some (ipof v (v_src v))) (Some (ipof v (v_dst v)))
        None None None.
Definition c3t (f : bytes) (v : l4view) : cinfo :=
  mk_ci (Some (firstn 6 (skipn 6 f))) (Some (firstn 6 f)) (Some (ipof v (v_src v))) (Some (ipof v (v_dst v)))
        (Some (v_proto v)) None None.
Definition c4 (f : bytes) (v : l4view) (lp : N) : cinfo :=
  mk_ci (Some (firstn 6 (skipn 6 f))) (Some (firstn 6 f)) (Some (ipof v (v_src v))) (Some (ipof v (v_dst v)))
        (Some (v_proto v)) (Some (u16_at 0 (v_l4 v))) (Some lp).

Lemma view_ips cfg f v : view cfg f = Some v -> frame_ips f = Some (ipof v (v_src v), ipof v (v_dst v)).
Proof.
  intros Hv. destruct (view_inv _ _ _ Hv) as (_ & _ & [H4 | H6]).
  - destruct H4 as (Hety & _ & Hv4 & Hsrc & Hdst & _).
    unfold frame_ips, ipof. rewrite Hety, Hv4, Hsrc, Hdst. reflexivity.
  - destruct H6 as (Hety & _ & Hv4 & Hsrc & Hdst & _).
    unfold frame_ips, ipof. rewrite Hety, Hv4, Hsrc, Hdst. reflexivity.
Qed.

Lemma know_l3_view cfg f v : view cfg f = Some v -> know_l3 f = Some (c3 f v).
Proof. intros Hv. unfold know_l3. rewrite (view_ips _ _ _ Hv). reflexivity. Qed.

Lemma know_l3t_view cfg f v : view cfg f = Some v -> know_l3t cfg f = Some (c3t f v).
Proof. intros Hv. unfold know_l3t. rewrite (know_l3_view _ _ _ Hv), Hv. reflexivity. Qed.

Lemma know_l4_view cfg f v lp : view cfg f = Some v -> know_l4 cfg f (Some lp) = Some (c4 f v lp).
Proof. intros Hv. unfold know_l4. rewrite (know_l3t_view _ _ _ Hv), Hv. reflexivity. Qed.

Lemma l3_ci_print f v : same_print (l3_ci f v) (c3t f v).
Proof. unfold l3_ci, base_ci, c3t, ipof, slice. destruct (v_v4 v); ci_cbn; cbn [skipn]; repeat split. Qed.

Lemma l3_ci_ports_print f v lp :
  same_print (ci_set_port_dst (ci_set_ports (l3_ci f v) (u16_at 0 (v_l4 v)) (u16_at 2 (v_l4 v))) lp) (c4 f v lp).
Proof. unfold l3_ci, base_ci, c4, ipof, slice. destruct (v_v4 v); ci_cbn; cbn [skipn]; repeat split. Qed.

Lemma l3_ci_ports_print' f v :
  same_print (ci_set_ports (l3_ci f v) (u16_at 0 (v_l4 v)) (u16_at 2 (v_l4 v))) (c4 f v (u16_at 2 (v_l4 v))).
Proof. unfold l3_ci, base_ci, c4, ipof, slice. destruct (v_v4 v); ci_cbn; cbn [skipn]; repeat split. Qed.

Lemma layers_view cfg f v :
  view cfg f = Some v -> layers_reached cfg f = LEth :: l3_of v :: l4_layer v.
Proof.
  intros Hv. destruct (view_inv _ _ _ Hv) as (Hlen & Hauth & [H4 | H6]).
  - destruct H4 as (Hety & Hl3 & Hv4 & _).
    unfold layers_reached, l3_layers, l3_of. rewrite Hlen, ref_auth_auth.
    change (firstn 6 f) with (slice 0 6 f). rewrite Hauth, Hety, Hv, Hv4. cbn [negb].
    change (2048 =? 2054) with false. change (2048 =? 2048) with true. cbv iota.
    replace (20 <=? length (skipn 14 f))%nat with true by lia. reflexivity.
  - destruct H6 as (Hety & Hl3 & Hv4 & _).
    unfold layers_reached, l3_layers, l3_of. rewrite Hlen, ref_auth_auth.
    change (firstn 6 f) with (slice 0 6 f). rewrite Hauth, Hety, Hv, Hv4. cbn [negb].
    change (34525 =? 2054) with false. change (34525 =? 2048) with false. change (34525 =? 34525) with true.
    cbv iota. replace (40 <=? length (skipn 14 f))%nat with true by lia. reflexivity.
Qed.

Lemma view_bytes cfg f v :
  bytes_ok f = true -> view cfg f = Some v -> v_proto v < 256 /\ bytes_ok (v_l4 v) = true.
Proof.
  intros Hf Hv. pose proof (bytes_ok_skipn 14 f Hf) as Hp.
  destruct (view_inv _ _ _ Hv) as (_ & _ & [H4 | H6]).
  - destruct H4 as (_ & _ & _ & _ & _ & -> & -> & _). split; [apply u8_at_lt; exact Hp|].
    unfold ipv4_payload. destruct (_ <=? _)%nat; [reflexivity|].
    apply bytes_ok_firstn, bytes_ok_skipn, Hp.
  - destruct H6 as (_ & _ & _ & _ & _ & -> & -> & _). split; [apply u8_at_lt; exact Hp|].
    unfold ipv6_payload. destruct (_ <=? _)%nat; [reflexivity|].
    apply bytes_ok_firstn, bytes_ok_skipn, Hp.
Qed.

(* decoding a frame built by the stack around a transport packet *)
Lemma dec_wrap cfg f v rsrc hlim l4 :
  cfg_ok cfg = true -> view cfg f = Some v -> v_proto v < 256 ->
  length rsrc = (if v_v4 v then 4 else 16)%nat -> hlim < 256 ->
  exists e i,
    dec_eth (wrap_ip cfg f v rsrc hlim l4) = Some e /\ dec_ip e = Some i /\
    de_type e = (if v_v4 v then 2048 else 34525) /\
    di_v4 i = v_v4 v /\ di_proto i = v_proto v /\ di_payload i = l4.
Proof.
  intros Hcfg Hv Hp Hr Hh.
  destruct (view_sizes _ _ _ Hv) as (Hm & Hsz).
  pose proof (cfg_ok_mac _ Hcfg) as Hmac.
  unfold wrap_ip.
  destruct (v_v4 v).
  - destruct Hsz as [Hs Hd].
    rewrite dec_eth_frame by (assumption || lia).
    eexists _, _. split; [reflexivity|].
    unfold dec_ip. cbn [de_type de_payload]. change (2048 =? 2048) with true. cbv iota.
    rewrite dec_ipv4_packet by (assumption || lia).
    split; [reflexivity|]. cbn. repeat split; reflexivity.
  - destruct Hsz as [Hs Hd].
    rewrite dec_eth_frame by (assumption || lia).
    eexists _, _. split; [reflexivity|].
    unfold dec_ip. cbn [de_type de_payload]. change (34525 =? 2048) with false.
    change (34525 =? 34525) with true. cbv iota.
    rewrite dec_ipv6_packet by (assumption || lia).
    split; [reflexivity|]. cbn. repeat split; reflexivity.
Qed.

(* ================= G. the events of the Ethernet and IP layers ================= *)
Lemma base_ci_print f : same_print (base_ci f) (know_l2 f).
Proof. unfold base_ci, know_l2, slice. ci_cbn. cbn [skipn]. repeat split. Qed.

Lemma ev_eth_recv_ok cfg f r : event_ok cfg f r (ev_eth f Recv (base_ci f)) = true.
Proof. eapply event_ok_intro; [reflexivity|reflexivity|apply base_ci_print|reflexivity]. Qed.

Lemma ev_eth_drop_ok cfg f ci c :
  know_final cfg f None = Some c -> same_print ci c -> event_ok cfg f None (ev_eth f Drop ci) = true.
Proof. intros Hk Hs. eapply event_ok_intro; [exact Hk|reflexivity|exact Hs|reflexivity]. Qed.

Lemma ev_eth_send_ok cfg f rf ci c e :
  know_final cfg f (Some rf) = Some c -> same_print ci c ->
  dec_eth rf = Some e -> de_type e = u16_at 12 f ->
  event_ok cfg f (Some rf) (ev_eth f Send ci) = true.
Proof.
  intros Hk Hs He Ht. eapply event_ok_intro; [exact Hk| |exact Hs|reflexivity].
  cbn [expect_extra]. rewrite He, Ht. reflexivity.
Qed.

Lemma ev_ip_recv_ok cfg f r c :
  know_l3 f = Some c -> same_print (ip_ci f) c -> event_ok cfg f r (ev_ip f Recv (ip_ci f)) = true.
Proof.
  intros Hk Hs. eapply event_ok_intro; [| |exact Hs|reflexivity];
    unfold ip_layer, ip_proto; destruct (u16_at 12 f =? 2048); cbn [expect_ci expect_extra]; (exact Hk || reflexivity).
Qed.

Lemma ev_ip_drop_ok cfg f ci c :
  know_final cfg f None = Some c -> same_print ci c -> event_ok cfg f None (ev_ip f Drop ci) = true.
Proof.
  intros Hk Hs. eapply event_ok_intro; [| |exact Hs|reflexivity];
    unfold ip_layer, ip_proto; destruct (u16_at 12 f =? 2048); cbn [expect_ci expect_extra]; (exact Hk || reflexivity).
Qed.

Lemma ev_ip_send_ok cfg f rf ci c e i :
  know_final cfg f (Some rf) = Some c -> same_print ci c ->
  dec_eth rf = Some e -> dec_ip e = Some i -> di_proto i = ip_proto f ->
  event_ok cfg f (Some rf) (ev_ip f Send ci) = true.
Proof.
  intros Hk Hs He Hi Hp. eapply event_ok_intro; [| |exact Hs|reflexivity];
    unfold ip_layer; destruct (u16_at 12 f =? 2048); cbn [expect_ci expect_extra]; try exact Hk;
    unfold dec_frame_ip; rewrite He, Hi, Hp; reflexivity.
Qed.

(* ================= H. frames that stop at the Ethernet or IP layer ================= *)
Lemma know_final_eth cfg f r ls :
  layers_reached cfg f = ls -> (last_layer ls = LEth \/ last_layer ls = LArp) ->
  know_final cfg f r = Some (know_l2 f).
Proof. intros HL [H|H]; unfold know_final; rewrite HL, H; reflexivity. Qed.

Lemma eth_only_ok cfg f :
  layers_reached cfg f = [LEth] ->
  ok_C20 cfg f None [ev_eth f Recv (base_ci f); ev_eth f Drop (base_ci f)] = true.
Proof.
  intros HL.
  apply (ok_assemble cfg f None [] [] Drop (base_ci f) [u16_at 12 f] (base_ci f) [u16_at 12 f] HL
                     (inner_nil cfg f None Drop) eq_refl eq_refl (ev_eth_recv_ok cfg f None)).
  eapply ev_eth_drop_ok; [eapply know_final_eth; [exact HL|left; reflexivity]|apply base_ci_print].
Qed.

(* ================= J. the transport layers ================= *)
Lemma know_final_l3 cfg f v r :
  view cfg f = Some v -> l4_layer v = [] -> know_final cfg f r = Some (c3t f v).
Proof.
  intros Hv H0. unfold know_final. rewrite (layers_view _ _ _ Hv), H0. unfold last_layer, l3_of.
  cbn [last]. destruct (v_v4 v); rewrite Hv; apply (know_l3t_view _ _ _ Hv).
Qed.

Lemma know_final_icmp cfg f v r l :
  view cfg f = Some v -> l4_layer v = [l] -> (l = LIcmpv4 \/ l = LIcmpv6) -> know_final cfg f r = Some (c3t f v).
Proof.
  intros Hv H0 Hl. unfold know_final. rewrite (layers_view _ _ _ Hv), H0. unfold last_layer.
  cbn [last]. destruct Hl as [-> | ->]; apply (know_l3t_view _ _ _ Hv).
Qed.

Lemma know_final_ports cfg f v r l :
  view cfg f = Some v -> l4_layer v = [l] -> (l = LTcp \/ l = LUdp) ->
  know_final cfg f r = know_l4 cfg f (final_dport cfg f r).
Proof.
  intros Hv H0 Hl. unfold know_final. rewrite (layers_view _ _ _ Hv), H0. unfold last_layer.
  cbn [last]. destruct Hl as [-> | ->]; reflexivity.
Qed.

Lemma l4_layer_tcp v : v_proto v = 6 -> (length (v_l4 v) <? 20)%nat = false -> l4_layer v = [LTcp].
Proof.
  intros Hp Hl. unfold l4_layer. rewrite Hp.
  change (6 =? 1) with false. change (6 =? 58) with false. change (6 =? 6) with true.
  replace (20 <=? length (v_l4 v))%nat with true by lia. destruct (v_v4 v); reflexivity.
Qed.
Lemma l4_layer_udp v : v_proto v = 17 -> (length (v_l4 v) <? 8)%nat = false -> l4_layer v = [LUdp].
Proof.
  intros Hp Hl. unfold l4_layer. rewrite Hp.
  change (17 =? 1) with false. change (17 =? 58) with false. change (17 =? 6) with false. change (17 =? 17) with true.
  replace (8 <=? length (v_l4 v))%nat with true by lia. destruct (v_v4 v); reflexivity.
Qed.

Lemma tcp_path E cfg clk tb f v tb' ci' out evs :
  cfg_ok cfg = true -> bytes_ok f = true -> view cfg f = Some v ->
  v_proto v = 6 -> (length (v_l4 v) <? 20)%nat = false ->
  tcp_repl E cfg clk tb (l3_ci f v) (v_l4 v) = Ok (tb', ci', out, evs) ->
  let o := match out with Some r4 => Some (v_dst v, 64, seal_tcp v r4) | None => None end in
  inner_ok cfg f (wrap_of cfg f v o) [LTcp] evs (verb_of o) /\
  exists c, know_final cfg f (wrap_of cfg f v o) = Some c /\ same_print ci' c.
Proof.
  intros Hcfg Hf Hv Hp Hl Htcp. cbv zeta.
  destruct (view_bytes _ _ _ Hf Hv) as [_ Hok].
  pose proof (tcp_repl_shape _ _ _ _ _ _ _ _ _ _ Hok Htcp) as Hsh. cbv zeta in Hsh.
  pose proof (l4_layer_tcp v Hp Hl) as HL4.
  assert (forall r, know_final cfg f r = know_l4 cfg f (final_dport cfg f r)) as HKF
      by (intros r; eapply know_final_ports; [exact Hv|exact HL4|left; reflexivity]).
  assert (expect_ci cfg f (wrap_of cfg f v match out with Some r4 => Some (v_dst v, 64, seal_tcp v r4) | None => None end)
                    LTcp Recv = Some (c4 f v (u16_at 2 (v_l4 v)))) as HRecvCi.
  { cbn [expect_ci]. unfold frame_dport. rewrite Hv. apply (know_l4_view _ _ _ _ Hv). }
  assert (forall r V, V <> Send -> expect_extra cfg f r LTcp V =
                      Some [tcp_flags (v_l4 v); u32_at 4 (v_l4 v); u32_at 8 (v_l4 v)]) as HX.
  { intros r V HV. destruct V; [|congruence|]; cbn [expect_extra]; rewrite Hv; reflexivity. }
  destruct out as [r4|].
  - destruct Hsh as (lp & fl & sq & ak & pl & -> & -> & Hsame & Hlp & Hfl & Hsq & Hak).
    cbn [verb_of wrap_of] in *.
    destruct (dec_wrap_tcp cfg f v 64 lp (u16_at 0 (v_l4 v)) sq ak fl pl Hcfg Hv Hp Hfl ltac:(lia))
      as (e & i & Hdec & _).
    rewrite (N.mod_small lp), (N.mod_small sq), (N.mod_small ak) in Hdec by assumption.
    assert (final_dport cfg f (Some (wrap_ip cfg f v (v_dst v) 64
              (seal_tcp v (tcp_header lp (u16_at 0 (v_l4 v)) sq ak fl ++ pl)))) = Some lp) as HFD.
    { unfold final_dport, reply_sport. rewrite Hdec. reflexivity. }
    assert (same_print ci' (c4 f v lp)) as HS
        by (eapply same_print_trans; [exact Hsame|apply l3_ci_ports_print]).
    split.
    + apply inner_pair; [reflexivity| |].
      * eapply event_ok_intro; [exact HRecvCi|apply HX; discriminate|apply l3_ci_ports_print'|reflexivity].
      * eapply event_ok_intro; [| |exact HS|reflexivity].
        -- cbn [expect_ci]. rewrite HKF, HFD. apply (know_l4_view _ _ _ _ Hv).
        -- cbn [expect_extra]. rewrite Hdec. reflexivity.
    + exists (c4 f v lp). split; [|exact HS]. rewrite HKF, HFD. apply (know_l4_view _ _ _ _ Hv).
  - destruct Hsh as (-> & Hsame). cbn [verb_of wrap_of] in *.
    assert (final_dport cfg f None = Some (u16_at 2 (v_l4 v))) as HFD
        by (unfold final_dport, frame_dport; rewrite Hv; reflexivity).
    assert (same_print ci' (c4 f v (u16_at 2 (v_l4 v)))) as HS
        by (eapply same_print_trans; [exact Hsame|apply l3_ci_ports_print']).
    split.
    + apply inner_pair; [reflexivity| |].
      * eapply event_ok_intro; [exact HRecvCi|apply HX; discriminate|apply l3_ci_ports_print'|reflexivity].
      * eapply event_ok_intro; [|apply HX; discriminate|exact HS|reflexivity].
        cbn [expect_ci]. rewrite HKF, HFD. apply (know_l4_view _ _ _ _ Hv).
    + exists (c4 f v (u16_at 2 (v_l4 v))). split; [|exact HS]. rewrite HKF, HFD. apply (know_l4_view _ _ _ _ Hv).
Qed.

Lemma dec_frame_ip_wrap cfg f v rsrc hlim l4 e i :
  dec_eth (wrap_ip cfg f v rsrc hlim l4) = Some e -> dec_ip e = Some i ->
  dec_frame_ip (wrap_ip cfg f v rsrc hlim l4) = Some (e, i).
Proof. intros He Hi. unfold dec_frame_ip. rewrite He, Hi. reflexivity. Qed.

Lemma udp_path E cfg clk f v ci' out evs :
  cfg_ok cfg = true -> bytes_ok f = true -> view cfg f = Some v ->
  v_proto v = 17 -> (length (v_l4 v) <? 8)%nat = false ->
  udp_repl E cfg clk (l3_ci f v) (v_l4 v) = Ok (ci', out, evs) ->
  let o := match out with Some r4 => Some (v_dst v, 64, seal_udp v r4) | None => None end in
  inner_ok cfg f (wrap_of cfg f v o) [LUdp] evs (verb_of o) /\
  exists c, know_final cfg f (wrap_of cfg f v o) = Some c /\ same_print ci' c.
Proof.
  intros Hcfg Hf Hv Hp Hl Hudp. cbv zeta.
  destruct (view_bytes _ _ _ Hf Hv) as [Hplt Hok].
  pose proof (udp_repl_shape _ _ _ _ _ _ _ _ Hok Hudp) as Hsh. cbv zeta in Hsh.
  pose proof (l4_layer_udp v Hp Hl) as HL4.
  assert (forall r, know_final cfg f r = know_l4 cfg f (final_dport cfg f r)) as HKF
      by (intros r; eapply know_final_ports; [exact Hv|exact HL4|right; reflexivity]).
  assert (expect_ci cfg f (wrap_of cfg f v match out with Some r4 => Some (v_dst v, 64, seal_udp v r4) | None => None end)
                    LUdp Recv = Some (c4 f v (u16_at 2 (v_l4 v)))) as HRecvCi.
  { cbn [expect_ci]. unfold frame_dport. rewrite Hv. apply (know_l4_view _ _ _ _ Hv). }
  destruct out as [r4|].
  - destruct Hsh as (lp & d & -> & -> & Hsame & Hlp).
    cbn [verb_of wrap_of] in *.
    assert (length (v_dst v) = (if v_v4 v then 4 else 16)%nat) as Hdl
        by (destruct (view_sizes _ _ _ Hv) as (_ & Hsz); destruct (v_v4 v); apply Hsz).
    destruct (dec_wrap cfg f v (v_dst v) 64 (seal_udp v (be16 lp ++ be16 (u16_at 0 (v_l4 v)) ++ be16 (8 + lenN d) ++ [0; 0] ++ d))
                       Hcfg Hv Hplt Hdl ltac:(lia)) as (e & i & He & Hi & _ & _ & Hpi & Hpay).
    assert (dec_frame_udp (wrap_ip cfg f v (v_dst v) 64
              (seal_udp v (be16 lp ++ be16 (u16_at 0 (v_l4 v)) ++ be16 (8 + lenN d) ++ [0; 0] ++ d))) =
            Some (e, i, {| du_sport := lp; du_dport := u16_at 0 (v_l4 v) mod 65536;
                           du_len := (8 + lenN d) mod 65536;
                           du_cksum := (if v_v4 v then checksum_pseudo (v_dst v) (v_src v) 17
                                           (be16 lp ++ be16 (u16_at 0 (v_l4 v)) ++ be16 (8 + lenN d) ++ [0; 0] ++ d)
                                        else udp6_cksum (checksum_pseudo (v_dst v) (v_src v) 17
                                           (be16 lp ++ be16 (u16_at 0 (v_l4 v)) ++ be16 (8 + lenN d) ++ [0; 0] ++ d))) mod 65536;
                           du_payload := d |})) as Hdec.
    { unfold dec_frame_udp. rewrite (dec_frame_ip_wrap _ _ _ _ _ _ _ _ He Hi), Hpi, Hp, Hpay.
      change (17 =? 17) with true. cbv iota. unfold seal_udp. rewrite dec_udp_datagram.
      rewrite (N.mod_small lp) by exact Hlp. reflexivity. }
    assert (final_dport cfg f (Some (wrap_ip cfg f v (v_dst v) 64
              (seal_udp v (be16 lp ++ be16 (u16_at 0 (v_l4 v)) ++ be16 (8 + lenN d) ++ [0; 0] ++ d)))) = Some lp) as HFD.
    { unfold final_dport, reply_sport.
      assert (dec_frame_tcp (wrap_ip cfg f v (v_dst v) 64
              (seal_udp v (be16 lp ++ be16 (u16_at 0 (v_l4 v)) ++ be16 (8 + lenN d) ++ [0; 0] ++ d))) = None) as ->.
      { unfold dec_frame_tcp. rewrite (dec_frame_ip_wrap _ _ _ _ _ _ _ _ He Hi), Hpi, Hp. reflexivity. }
      rewrite Hdec. reflexivity. }
    assert (same_print ci' (c4 f v lp)) as HS
        by (eapply same_print_trans; [exact Hsame|apply l3_ci_ports_print]).
    split.
    + apply inner_pair; [reflexivity| |].
      * eapply event_ok_intro; [exact HRecvCi|reflexivity|apply l3_ci_ports_print'|reflexivity].
      * eapply event_ok_intro; [| |exact HS|reflexivity].
        -- cbn [expect_ci]. rewrite HKF, HFD. apply (know_l4_view _ _ _ _ Hv).
        -- cbn [expect_extra]. rewrite Hdec. reflexivity.
    + exists (c4 f v lp). split; [|exact HS]. rewrite HKF, HFD. apply (know_l4_view _ _ _ _ Hv).
  - destruct Hsh as (-> & Hsame). cbn [verb_of wrap_of] in *.
    assert (final_dport cfg f None = Some (u16_at 2 (v_l4 v))) as HFD
        by (unfold final_dport, frame_dport; rewrite Hv; reflexivity).
    assert (same_print ci' (c4 f v (u16_at 2 (v_l4 v)))) as HS
        by (eapply same_print_trans; [exact Hsame|apply l3_ci_ports_print']).
    split.
    + apply inner_pair; [reflexivity| |].
      * eapply event_ok_intro; [exact HRecvCi|reflexivity|apply l3_ci_ports_print'|reflexivity].
      * eapply event_ok_intro; [|reflexivity|exact HS|reflexivity].
        cbn [expect_ci]. rewrite HKF, HFD. apply (know_l4_view _ _ _ _ Hv).
    + exists (c4 f v (u16_at 2 (v_l4 v))). split; [|exact HS]. rewrite HKF, HFD. apply (know_l4_view _ _ _ _ Hv).
Qed.

(* ---- ICMP ---- *)
Lemma dec_icmp_sealed a b x y t c :
  exists k, dec_icmp (set_cksum 2 (a :: b :: x :: y :: t) c) = Some k /\ dc_type k = a /\ dc_code k = b.
Proof.
  unfold dec_icmp, set_cksum, be16. list_cbn. eexists. split; [reflexivity|]. split; reflexivity.
Qed.

Lemma icmpv4_shape ci p out evs :
  icmpv4_repl ci p = (out, evs) ->
  let x := [u8_at 0 p; u8_at 1 p] in
  match out with
  | None => evs = [mk_ev LIcmpv4 Recv ci x; mk_ev LIcmpv4 Drop ci x]
  | Some r => exists ty t, r = ty :: 0 :: 0 :: 0 :: t /\ evs = [mk_ev LIcmpv4 Recv ci x; mk_ev LIcmpv4 Send ci [ty; 0]]
  end.
Proof.
  unfold icmpv4_repl. destruct (_ && _); intros H; inversion H; subst; cbv zeta; [|reflexivity].
  eexists _, _. split; reflexivity.
Qed.

Lemma icmpv6_shape cfg ci p out tgt evs :
  icmpv6_repl cfg ci p = (out, tgt, evs) ->
  let x := [u8_at 0 p; u8_at 1 p] in
  match out with
  | None => evs = [mk_ev LIcmpv6 Recv ci x; mk_ev LIcmpv6 Drop ci x]
  | Some r => exists ty t, r = ty :: 0 :: 0 :: 0 :: t /\ evs = [mk_ev LIcmpv6 Recv ci x; mk_ev LIcmpv6 Send ci [ty; 0]] /\
                           match tgt with Some tg => length tg = 16%nat | None => True end
  end.
Proof.
  unfold icmpv6_repl. cbv zeta.
  destruct (negb (u8_at 1 p =? 0)); [intros H; inversion H; reflexivity|].
  destruct (u8_at 0 p =? 135).
  { destruct (length p <? 24)%nat eqn:Hl; [intros H; inversion H; reflexivity|].
    destruct (match c_self cfg with Some l => negb (ip_in (V6 (slice 8 16 p)) l) | None => false end);
      intros H; inversion H; subst; [reflexivity|].
    eexists _, _. split; [reflexivity|]. split; [reflexivity|]. apply slice_length. lia. }
  destruct (u8_at 0 p =? 128); [|intros H; inversion H; reflexivity].
  destruct (match c_self cfg with Some l => _ | None => false end);
    intros H; inversion H; subst; [reflexivity|].
  eexists _, _. split; [reflexivity|]. split; [reflexivity|exact I].
Qed.

Lemma icmp_path cfg f v l out evs rsrc hlim c :
  cfg_ok cfg = true -> bytes_ok f = true -> view cfg f = Some v -> l4_layer v = [l] ->
  ((l = LIcmpv4 /\ v_v4 v = true /\ v_proto v = 1) \/ (l = LIcmpv6 /\ v_v4 v = false /\ v_proto v = 58)) ->
  (let x := [u8_at 0 (v_l4 v); u8_at 1 (v_l4 v)] in
   match out with
   | None => evs = [mk_ev l Recv (l3_ci f v) x; mk_ev l Drop (l3_ci f v) x]
   | Some r => exists ty t, r = ty :: 0 :: 0 :: 0 :: t /\
                            evs = [mk_ev l Recv (l3_ci f v) x; mk_ev l Send (l3_ci f v) [ty; 0]]
   end) ->
  length rsrc = (if v_v4 v then 4 else 16)%nat -> hlim < 256 ->
  let o := match out with Some r => Some (rsrc, hlim, set_cksum 2 r (c r)) | None => None end in
  inner_ok cfg f (wrap_of cfg f v o) [l] evs (verb_of o).
Proof.
  intros Hcfg Hf Hv HL4 Hl Hsh Hrs Hh. cbv zeta in *.
  destruct (view_bytes _ _ _ Hf Hv) as [Hplt _].
  assert (forall r V, expect_ci cfg f r l V = Some (c3t f v)) as HCI.
  { intros r V. destruct Hl as [(-> & _) | (-> & _)]; cbn [expect_ci]; apply (know_l3t_view _ _ _ Hv). }
  assert (forall r V, V <> Send -> expect_extra cfg f r l V = Some [u8_at 0 (v_l4 v); u8_at 1 (v_l4 v)]) as HX.
  { intros r V HV. destruct Hl as [(-> & _) | (-> & _)]; (destruct V; [|congruence|]); cbn [expect_extra]; rewrite Hv; reflexivity. }
  destruct out as [r|].
  - destruct Hsh as (ty & t & -> & ->). cbn [verb_of wrap_of].
    destruct (dec_wrap cfg f v rsrc hlim (set_cksum 2 (ty :: 0 :: 0 :: 0 :: t) (c (ty :: 0 :: 0 :: 0 :: t)))
                       Hcfg Hv Hplt Hrs Hh) as (e & i & He & Hi & _ & Hv4i & Hpi & Hpay).
    destruct (dec_icmp_sealed ty 0 0 0 t (c (ty :: 0 :: 0 :: 0 :: t))) as (k & Hk & Hkt & Hkc).
    apply inner_pair; [reflexivity| |].
    + eapply event_ok_intro; [apply HCI|apply HX; discriminate|apply l3_ci_print|reflexivity].
    + eapply event_ok_intro; [apply HCI| |apply l3_ci_print|reflexivity].
      assert (dec_frame_icmp (wrap_ip cfg f v rsrc hlim
                (set_cksum 2 (ty :: 0 :: 0 :: 0 :: t) (c (ty :: 0 :: 0 :: 0 :: t)))) = Some (e, i, k)) as Hdec.
      { unfold dec_frame_icmp. rewrite (dec_frame_ip_wrap _ _ _ _ _ _ _ _ He Hi), Hv4i, Hpi, Hpay, Hk.
        destruct Hl as [(_ & -> & ->) | (_ & -> & ->)]; reflexivity. }
      destruct Hl as [(-> & _) | (-> & _)]; cbn [expect_extra]; rewrite Hdec, Hkt, Hkc; reflexivity.
  - rewrite Hsh. cbn [verb_of wrap_of].
    apply inner_pair; [reflexivity| |];
      (eapply event_ok_intro; [apply HCI|apply HX; discriminate|apply l3_ci_print|reflexivity]).
Qed.

(* ---- everything inside an accepted IP packet ---- *)
Lemma l4_run_ok E cfg clk tb f v tb' ci' o evs4 :
  cfg_ok cfg = true -> bytes_ok f = true -> view cfg f = Some v ->
  l4_run E cfg clk tb f v = Ok (tb', ci', o, evs4) ->
  inner_ok cfg f (wrap_of cfg f v o) (l4_layer v) evs4 (verb_of o) /\
  (exists c, know_final cfg f (wrap_of cfg f v o) = Some c /\ same_print ci' c) /\
  match o with
  | Some (rsrc, hlim, _) => length rsrc = (if v_v4 v then 4 else 16)%nat /\ hlim < 256
  | None => True
  end.
Proof.
  intros Hcfg Hf Hv.
  assert (length (v_dst v) = (if v_v4 v then 4 else 16)%nat) as Hdl
      by (destruct (view_sizes _ _ _ Hv) as (_ & Hsz); destruct (v_v4 v); apply Hsz).
  (* the outcome when no transport layer is reached *)
  assert (forall r, l4_layer v = [] ->
            inner_ok cfg f r (l4_layer v) [] Drop /\
            (exists c, know_final cfg f r = Some c /\ same_print (l3_ci f v) c) /\ True) as Hnone.
  { intros r H0. rewrite H0. split; [apply inner_nil|]. split; [|exact I].
    exists (c3t f v). split; [eapply know_final_l3; eassumption|apply l3_ci_print]. }
  unfold l4_run.
  destruct (v_v4 v) eqn:Hv4.
  - destruct (v_proto v =? 1) eqn:P1.
    { destruct (length (v_l4 v) <? 4)%nat eqn:Hl.
      - intros H; inversion H; subst. apply Hnone. unfold l4_layer. rewrite Hv4, P1.
        replace (4 <=? length (v_l4 v))%nat with false by lia. reflexivity.
      - assert (l4_layer v = [LIcmpv4]) as HL4.
        { unfold l4_layer. rewrite Hv4, P1. replace (4 <=? length (v_l4 v))%nat with true by lia. reflexivity. }
        apply N.eqb_eq in P1.
        destruct (icmpv4_repl _ _) as [out evs] eqn:Hi. apply icmpv4_shape in Hi.
        assert (inner_ok cfg f (wrap_of cfg f v match out with Some r => Some (v_dst v, 64, set_cksum 2 r (checksum r)) | None => None end)
                         [LIcmpv4] evs (verb_of match out with Some r => Some (v_dst v, 64, set_cksum 2 r (checksum r)) | None => None end)) as Hin.
        { apply (icmp_path cfg f v LIcmpv4 out evs (v_dst v) 64 checksum Hcfg Hf Hv HL4);
            [left; repeat split; assumption| |rewrite Hv4; exact Hdl|lia].
          cbv zeta. destruct out; exact Hi. }
        rewrite HL4.
        destruct out as [r|]; intros H; inversion H; subst; (split; [exact Hin|]);
          (split; [exists (c3t f v); split; [eapply know_final_icmp; [exact Hv|exact HL4|left; reflexivity]|apply l3_ci_print]|]);
          [split; [exact Hdl|lia]|exact I]. }
    destruct (v_proto v =? 6) eqn:P6.
    { destruct (length (v_l4 v) <? 20)%nat eqn:Hl.
      - intros H; inversion H; subst. apply Hnone. unfold l4_layer. rewrite Hv4, P1, P6.
        replace (20 <=? length (v_l4 v))%nat with false by lia. reflexivity.
      - apply N.eqb_eq in P6.
        destruct (tcp_repl _ _ _ _ _ _) as [[[[tb2 ci2] out] evs]|s] eqn:Ht; [|discriminate].
        destruct (tcp_path _ _ _ _ _ _ _ _ _ _ Hcfg Hf Hv P6 Hl Ht) as (Hin & Hk). cbv zeta in Hin, Hk.
        rewrite (l4_layer_tcp v P6 Hl).
        destruct out as [r|]; intros H; inversion H; subst; (split; [exact Hin|]); (split; [exact Hk|]);
          [split; [exact Hdl|lia]|exact I]. }
    destruct (v_proto v =? 17) eqn:P17.
    { destruct (length (v_l4 v) <? 8)%nat eqn:Hl.
      - intros H; inversion H; subst. apply Hnone. unfold l4_layer. rewrite Hv4, P1, P6, P17.
        replace (8 <=? length (v_l4 v))%nat with false by lia. reflexivity.
      - apply N.eqb_eq in P17.
        destruct (udp_repl _ _ _ _ _) as [[[ci2 out] evs]|s] eqn:Hu; [|discriminate].
        destruct (udp_path _ _ _ _ _ _ _ _ Hcfg Hf Hv P17 Hl Hu) as (Hin & Hk). cbv zeta in Hin, Hk.
        rewrite (l4_layer_udp v P17 Hl).
        destruct out as [r|]; [destruct (65535 <? lenN r); [discriminate|]|];
          intros H; inversion H; subst; (split; [exact Hin|]); (split; [exact Hk|]);
          [split; [exact Hdl|lia]|exact I]. }
    intros H; inversion H; subst. apply Hnone. unfold l4_layer. rewrite Hv4, P1, P6, P17. reflexivity.
  - destruct (v_proto v =? 58) eqn:P1.
    { destruct (length (v_l4 v) <? 4)%nat eqn:Hl.
      - intros H; inversion H; subst. apply Hnone. unfold l4_layer. rewrite Hv4, P1.
        replace (4 <=? length (v_l4 v))%nat with false by lia. reflexivity.
      - assert (l4_layer v = [LIcmpv6]) as HL4.
        { unfold l4_layer. rewrite Hv4, P1. replace (4 <=? length (v_l4 v))%nat with true by lia. reflexivity. }
        apply N.eqb_eq in P1.
        destruct (icmpv6_repl _ _ _) as [[out tgt] evs] eqn:Hi. apply icmpv6_shape in Hi. cbv zeta in Hi.
        rewrite HL4.
        destruct out as [r|].
        + destruct Hi as (ty & t & Hr & Hevs & Htg).
          set (rsrc := match tgt with Some t0 => t0 | None => v_dst v end).
          assert (length rsrc = 16%nat) as Hrs by (unfold rsrc; destruct tgt; [exact Htg|exact Hdl]).
          assert (forall b : bool, (if b then 255 else 64) < 256) as Hh by (intros []; lia).
          intros H; inversion H; subst tb' ci' o evs4.
          split.
          { apply (icmp_path cfg f v LIcmpv6 (Some r) evs rsrc _ (checksum_pseudo (v_src v) rsrc 58) Hcfg Hf Hv HL4);
              [right; repeat split; assumption| |rewrite Hv4; exact Hrs|apply Hh].
            cbv zeta. eexists _, _. split; eassumption. }
          split; [exists (c3t f v); split; [eapply know_final_icmp; [exact Hv|exact HL4|right; reflexivity]|apply l3_ci_print]|].
          split; [exact Hrs|apply Hh].
        + intros H; inversion H; subst tb' ci' o evs4.
          split.
          { apply (icmp_path cfg f v LIcmpv6 None evs (v_dst v) 64 (fun _ => 0) Hcfg Hf Hv HL4);
              [right; repeat split; assumption|exact Hi|rewrite Hv4; exact Hdl|lia]. }
          split; [exists (c3t f v); split; [eapply know_final_icmp; [exact Hv|exact HL4|right; reflexivity]|apply l3_ci_print]|exact I]. }
    destruct (v_proto v =? 6) eqn:P6.
    { destruct (length (v_l4 v) <? 20)%nat eqn:Hl.
      - intros H; inversion H; subst. apply Hnone. unfold l4_layer. rewrite Hv4, P1, P6.
        replace (20 <=? length (v_l4 v))%nat with false by lia. reflexivity.
      - apply N.eqb_eq in P6.
        destruct (tcp_repl _ _ _ _ _ _) as [[[[tb2 ci2] out] evs]|s] eqn:Ht; [|discriminate].
        destruct (tcp_path _ _ _ _ _ _ _ _ _ _ Hcfg Hf Hv P6 Hl Ht) as (Hin & Hk). cbv zeta in Hin, Hk.
        rewrite (l4_layer_tcp v P6 Hl).
        destruct out as [r|]; intros H; inversion H; subst; (split; [exact Hin|]); (split; [exact Hk|]);
          [split; [exact Hdl|lia]|exact I]. }
    destruct (v_proto v =? 17) eqn:P17.
    { destruct (length (v_l4 v) <? 8)%nat eqn:Hl.
      - intros H; inversion H; subst. apply Hnone. unfold l4_layer. rewrite Hv4, P1, P6, P17.
        replace (8 <=? length (v_l4 v))%nat with false by lia. reflexivity.
      - apply N.eqb_eq in P17.
        destruct (udp_repl _ _ _ _ _) as [[[ci2 out] evs]|s] eqn:Hu; [|discriminate].
        destruct (udp_path _ _ _ _ _ _ _ _ Hcfg Hf Hv P17 Hl Hu) as (Hin & Hk). cbv zeta in Hin, Hk.
        rewrite (l4_layer_udp v P17 Hl).
        destruct out as [r|]; intros H; inversion H; subst; (split; [exact Hin|]); (split; [exact Hk|]);
          [split; [exact Hdl|lia]|exact I]. }
    intros H; inversion H; subst. apply Hnone. unfold l4_layer. rewrite Hv4, P1, P6, P17. reflexivity.
Qed.

(* ================= I. ARP ================= *)
Lemma dec_arp_reply (h mac tpa sha spa rest : bytes) :
  length h = 4%nat -> length mac = 6%nat -> length tpa = 4%nat -> length sha = 6%nat -> length spa = 4%nat ->
  exists a, dec_arp ([0; 1] ++ h ++ [0; 2] ++ mac ++ tpa ++ sha ++ spa ++ rest) = Some a /\
            da_op a = 2 /\ da_sha a = mac /\ da_spa a = tpa /\ da_tha a = sha /\ da_tpa a = spa.
Proof.
  intros H1 H2 H3 H4 H5. explode_lists.
  unfold dec_arp, u16_at, u8_at. list_cbn. eexists. split; [reflexivity|]. cbn. repeat split; reflexivity.
Qed.

Lemma arp_ok cfg f o evs :
  cfg_ok cfg = true -> (length f <? 14)%nat = false -> auth_mac cfg (slice 0 6 f) = true ->
  u16_at 12 f = 2054 -> (length (skipn 14 f) <? 28)%nat = false ->
  arp_repl cfg (skipn 14 f) = (o, evs) ->
  ok_C20 cfg f (match o with Some r => Some (eth_frame (slice 6 6 f) (c_mac cfg) 2054 r) | None => None end)
         (ev_eth f Recv (base_ci f) :: evs ++ [ev_eth f (verb_of o) (base_ci f)]) = true.
Proof.
  intros Hcfg Hlen Hauth Hety Hl Harp.
  pose proof (cfg_ok_mac _ Hcfg) as Hmac.
  assert (layers_reached cfg f = [LEth; LArp]) as HL.
  { unfold layers_reached. rewrite Hlen, ref_auth_auth. change (firstn 6 f) with (slice 0 6 f).
    rewrite Hauth, Hety. cbn [negb]. change (2054 =? 2054) with true. cbv iota.
    replace (28 <=? length (skipn 14 f))%nat with true by lia. reflexivity. }
  assert (forall r, know_final cfg f r = Some (know_l2 f)) as HK
      by (intros r; eapply know_final_eth; [exact HL|right; reflexivity]).
  set (p := skipn 14 f) in *.
  assert (forall r V, V <> Send -> expect_ci cfg f r LArp V =
            Some (arp_cols (firstn 6 (skipn 8 p)) (firstn 6 (skipn 18 p)) (firstn 4 (skipn 14 p)) (firstn 4 (skipn 24 p)))) as HCI.
  { intros r V HV. destruct V; [|congruence|]; reflexivity. }
  assert (forall r V, V <> Send -> expect_extra cfg f r LArp V = Some [u16_at 6 p]) as HX.
  { intros r V HV. destruct V; [|congruence|]; reflexivity. }
  assert (same_print (arp_ci (slice 8 6 p) (slice 18 6 p) (slice 14 4 p) (slice 24 4 p))
                     (arp_cols (firstn 6 (skipn 8 p)) (firstn 6 (skipn 18 p)) (firstn 4 (skipn 14 p)) (firstn 4 (skipn 24 p)))) as HSP
      by (unfold arp_ci, arp_cols, slice; ci_cbn; repeat split).
  assert (event_ok cfg f (match o with Some r => Some (eth_frame (slice 6 6 f) (c_mac cfg) 2054 r) | None => None end)
            (mk_ev LArp Recv (arp_ci (slice 8 6 p) (slice 18 6 p) (slice 14 4 p) (slice 24 4 p)) [u16_at 6 p]) = true) as Hrecv.
  { eapply event_ok_intro; [apply HCI; discriminate|apply HX; discriminate|exact HSP|reflexivity]. }
  assert (o = None -> evs = [mk_ev LArp Recv (arp_ci (slice 8 6 p) (slice 18 6 p) (slice 14 4 p) (slice 24 4 p)) [u16_at 6 p];
                             mk_ev LArp Drop (arp_ci (slice 8 6 p) (slice 18 6 p) (slice 14 4 p) (slice 24 4 p)) [u16_at 6 p]]) as Hdrop.
  { intros ->. revert Harp. unfold arp_repl. fold p.
    destruct (u16_at 6 p =? 1); [destruct (match c_self cfg with Some l => _ | None => false end)|];
      intros H; inversion H; reflexivity. }
  destruct o as [r4|].
  - (* answered *)
    assert (r4 = [0; 1] ++ slice 2 4 p ++ [0; 2] ++ c_mac cfg ++ slice 24 4 p ++ slice 8 6 p ++ slice 14 4 p ++ skipn 28 p /\
            evs = [mk_ev LArp Recv (arp_ci (slice 8 6 p) (slice 18 6 p) (slice 14 4 p) (slice 24 4 p)) [u16_at 6 p];
                   mk_ev LArp Send (arp_ci (slice 8 6 p) (c_mac cfg) (slice 14 4 p) (slice 24 4 p)) [2]]) as [-> ->].
    { revert Harp. unfold arp_repl. fold p.
      destruct (u16_at 6 p =? 1); [destruct (match c_self cfg with Some l => _ | None => false end)|];
        intros H; inversion H; split; reflexivity. }
    assert (length (slice 6 6 f) = 6%nat) as Hm6 by (apply slice_length; lia).
    destruct (dec_arp_reply (slice 2 4 p) (c_mac cfg) (slice 24 4 p) (slice 8 6 p) (slice 14 4 p) (skipn 28 p))
      as (a & Ha & Hop & Hsha & Hspa & Htha & Htpa);
      try (apply slice_length; lia); try exact Hmac.
    set (body := [0; 1] ++ slice 2 4 p ++ [0; 2] ++ c_mac cfg ++ slice 24 4 p ++ slice 8 6 p ++ slice 14 4 p ++ skipn 28 p) in *.
    assert (dec_eth (eth_frame (slice 6 6 f) (c_mac cfg) 2054 body) =
            Some {| de_dst := slice 6 6 f; de_src := c_mac cfg; de_type := 2054; de_payload := body |}) as He
        by (apply dec_eth_frame; [exact Hm6|exact Hmac|lia]).
    assert (dec_frame_arp (eth_frame (slice 6 6 f) (c_mac cfg) 2054 body) =
            Some ({| de_dst := slice 6 6 f; de_src := c_mac cfg; de_type := 2054; de_payload := body |}, a)) as Hdec.
    { unfold dec_frame_arp. rewrite He. cbn [de_type de_payload]. change (2054 =? 2054) with true. cbv iota.
      rewrite Ha. reflexivity. }
    cbn [verb_of].
    apply (ok_assemble cfg f _ [LArp] _ Send (base_ci f) [u16_at 12 f] (base_ci f) [u16_at 12 f] HL);
      [|reflexivity|reflexivity|apply ev_eth_recv_ok|].
    + apply inner_pair; [reflexivity|exact Hrecv|].
      eapply event_ok_intro; [| | |reflexivity].
      * cbn [expect_ci]. rewrite Hdec. fold p. rewrite Htha, Hsha, Htpa, Hspa.
        unfold slice at 1 2 3. rewrite !bytes_eqb_refl. reflexivity.
      * cbn [expect_extra]. rewrite Hdec, Hop. reflexivity.
      * unfold arp_ci, arp_cols, slice. ci_cbn. repeat split.
    + eapply ev_eth_send_ok; [apply HK|apply base_ci_print|exact He|cbn [de_type]; symmetry; exact Hety].
  - rewrite (Hdrop eq_refl). cbn [verb_of].
    apply (ok_assemble cfg f None [LArp] _ Drop (base_ci f) [u16_at 12 f] (base_ci f) [u16_at 12 f] HL);
      [|reflexivity|reflexivity|apply ev_eth_recv_ok|].
    + apply inner_pair; [reflexivity|exact Hrecv|].
      eapply event_ok_intro; [apply HCI; discriminate|apply HX; discriminate|exact HSP|reflexivity].
    + eapply ev_eth_drop_ok; [apply HK|apply base_ci_print].
Qed.

(* ================= K. the whole frame ================= *)
Lemma view_eth cfg f v :
  view cfg f = Some v ->
  ip_layer f = l3_of v /\ ip_proto f = v_proto v /\ u16_at 12 f = (if v_v4 v then 2048 else 34525) /\
  same_print (ip_ci f) (c3 f v).
Proof.
  intros Hv. destruct (view_inv _ _ _ Hv) as (_ & _ & [H4 | H6]).
  - destruct H4 as (Hety & _ & Hv4 & Hsrc & Hdst & Hp & _).
    unfold ip_layer, ip_proto, ip_ci, l3_of, c3, ipof, base_ci, slice in *. rewrite Hety, Hv4, Hsrc, Hdst, Hp.
    change (2048 =? 2048) with true. cbv iota. ci_cbn. cbn [skipn]. repeat split.
  - destruct H6 as (Hety & _ & Hv4 & Hsrc & Hdst & Hp & _).
    unfold ip_layer, ip_proto, ip_ci, l3_of, c3, ipof, base_ci, slice in *. rewrite Hety, Hv4, Hsrc, Hdst, Hp.
    change (34525 =? 2048) with false. cbv iota. ci_cbn. cbn [skipn]. repeat split.
Qed.

Lemma know_l3_sized f :
  ip_sized f = true -> exists c, know_l3 f = Some c /\ same_print (ip_ci f) c.
Proof.
  unfold ip_sized, know_l3, frame_ips, ip_ci, base_ci, slice.
  destruct (u16_at 12 f =? 2048).
  - intros _. eexists. split; [reflexivity|]. ci_cbn. cbn [skipn]. repeat split.
  - destruct (u16_at 12 f =? 34525); [|discriminate].
    intros _. eexists. split; [reflexivity|]. ci_cbn. cbn [skipn]. repeat split.
Qed.

Lemma layers_noview cfg f :
  (length f <? 14)%nat = false -> auth_mac cfg (slice 0 6 f) = true -> (u16_at 12 f =? 2054) = false ->
  view cfg f = None ->
  layers_reached cfg f = if ip_sized f then [LEth; ip_layer f] else [LEth].
Proof.
  intros Hlen Hauth Ea Hv.
  unfold layers_reached, l3_layers, ip_sized, ip_layer. rewrite Hlen, ref_auth_auth.
  change (firstn 6 f) with (slice 0 6 f). rewrite Hauth, Ea, Hv. cbn [negb].
  destruct (u16_at 12 f =? 2048) eqn:E4.
  - assert ((u16_at 12 f =? 34525) = false) as -> by (apply N.eqb_eq in E4; rewrite E4; reflexivity).
    destruct (length (skipn 14 f) <? 20)%nat eqn:Hl; cbn [negb andb orb].
    + replace (20 <=? length (skipn 14 f))%nat with false by lia. reflexivity.
    + replace (20 <=? length (skipn 14 f))%nat with true by lia. reflexivity.
  - destruct (u16_at 12 f =? 34525); cbn [andb orb]; [|reflexivity].
    destruct (length (skipn 14 f) <? 40)%nat eqn:Hl; cbn [negb].
    + replace (40 <=? length (skipn 14 f))%nat with false by lia. reflexivity.
    + replace (40 <=? length (skipn 14 f))%nat with true by lia. reflexivity.
Qed.

Theorem reply_events_ok E cfg clk tb f tb' r evs :
  cfg_ok cfg = true -> bytes_ok f = true ->
  reply E cfg clk tb f = Ok (tb', r, evs) -> ok_C20 cfg f r evs = true.
Proof.
  intros Hcfg Hf. rewrite reply_ev_factor. unfold reply_ev_spec.
  destruct (length f <? 14)%nat eqn:Hlen.
  { intros H; inversion H; subst. unfold ok_C20, layers_reached. rewrite Hlen. reflexivity. }
  destruct (auth_mac cfg (slice 0 6 f)) eqn:Hauth; cbn [negb].
  2:{ intros H; inversion H; subst. apply eth_only_ok.
      unfold layers_reached. rewrite Hlen, ref_auth_auth. change (firstn 6 f) with (slice 0 6 f).
      rewrite Hauth. reflexivity. }
  destruct (u16_at 12 f =? 2054) eqn:Ea.
  { destruct (length (skipn 14 f) <? 28)%nat eqn:Hl.
    - intros H; inversion H; subst. apply eth_only_ok.
      unfold layers_reached. rewrite Hlen, ref_auth_auth. change (firstn 6 f) with (slice 0 6 f).
      rewrite Hauth, Ea. cbn [negb]. replace (28 <=? length (skipn 14 f))%nat with false by lia. reflexivity.
    - destruct (arp_repl cfg (skipn 14 f)) as [o aevs] eqn:Harp.
      intros H; inversion H; subst. apply N.eqb_eq in Ea.
      apply arp_ok; assumption. }
  destruct (view cfg f) as [v|] eqn:Hv.
  - destruct (l4_run E cfg clk tb f v) as [[[[tb2 ci2] o] evs4]|s] eqn:Hrun; [|discriminate].
    intros H; inversion H; subst tb' r evs. clear H.
    destruct (l4_run_ok _ _ _ _ _ _ _ _ _ _ Hcfg Hf Hv Hrun) as (Hin & (c & Hk & Hs) & Hsz).
    destruct (view_eth _ _ _ Hv) as (HLy & HPr & Hety & Hip).
    destruct (view_bytes _ _ _ Hf Hv) as [Hplt _].
    unfold ev_eth.
    change (ok_C20 cfg f (wrap_of cfg f v o)
              (mk_ev LEth Recv (base_ci f) [u16_at 12 f] ::
               (ev_ip f Recv (ip_ci f) :: evs4 ++ [ev_ip f (verb_of o) ci2]) ++
               [mk_ev LEth (verb_of o) ci2 [u16_at 12 f]]) = true).
    apply (ok_assemble cfg f _ (l3_of v :: l4_layer v) (ev_ip f Recv (ip_ci f) :: evs4 ++ [ev_ip f (verb_of o) ci2])
                       (verb_of o) (base_ci f) [u16_at 12 f] ci2 [u16_at 12 f] (layers_view _ _ _ Hv)).
    + (* the IP layer around the transport events *)
      unfold ev_ip. rewrite HLy.
      apply inner_wrap; [exact Hin|destruct o; reflexivity| |].
      * rewrite <- HLy. apply ev_ip_recv_ok with (c := c3 f v); [apply (know_l3_view _ _ _ Hv)|exact Hip].
      * rewrite <- HLy. fold (ev_ip f (verb_of o) ci2).
        destruct o as [[[rsrc hlim] l4]|]; cbn [verb_of wrap_of] in *.
        -- destruct Hsz as [Hrs Hh].
           destruct (dec_wrap cfg f v rsrc hlim l4 Hcfg Hv Hplt Hrs Hh) as (e & i & He & Hi & _ & _ & Hpi & _).
           eapply ev_ip_send_ok; [exact Hk|exact Hs|exact He|exact Hi|rewrite Hpi, HPr; reflexivity].
        -- eapply ev_ip_drop_ok; [exact Hk|exact Hs].
    + destruct o; reflexivity.
    + destruct o as [[[rsrc hlim] l4]|]; reflexivity.
    + apply ev_eth_recv_ok.
    + fold (ev_eth f (verb_of o) ci2).
      destruct o as [[[rsrc hlim] l4]|]; cbn [verb_of wrap_of] in *.
      * destruct Hsz as [Hrs Hh].
        destruct (dec_wrap cfg f v rsrc hlim l4 Hcfg Hv Hplt Hrs Hh) as (e & i & He & _ & Hte & _).
        eapply ev_eth_send_ok; [exact Hk|exact Hs|exact He|rewrite Hte, Hety; reflexivity].
      * eapply ev_eth_drop_ok; [exact Hk|exact Hs].
  - pose proof (layers_noview _ _ Hlen Hauth Ea Hv) as HL.
    destruct (ip_sized f) eqn:Hsz.
    + intros H; inversion H; subst tb' r evs. clear H.
      destruct (know_l3_sized f Hsz) as (c & Hk3 & Hs3).
      assert (know_final cfg f None = Some c) as Hk.
      { unfold know_final. rewrite HL. unfold last_layer, ip_layer. cbn [last].
        destruct (u16_at 12 f =? 2048); rewrite Hv; exact Hk3. }
      unfold ev_eth.
      apply (ok_assemble cfg f None [ip_layer f] [ev_ip f Recv (ip_ci f); ev_ip f Drop (ip_ci f)] Drop
                         (base_ci f) [u16_at 12 f] (ip_ci f) [u16_at 12 f] HL);
        [|reflexivity|reflexivity|apply ev_eth_recv_ok|eapply ev_eth_drop_ok; [exact Hk|exact Hs3]].
      unfold ev_ip. apply inner_pair; [reflexivity| |].
      * apply ev_ip_recv_ok with (c := c); assumption.
      * eapply ev_ip_drop_ok; [exact Hk|exact Hs3].
    + intros H; inversion H; subst. apply eth_only_ok. exact HL.
Qed.
