(* Properties/C09.v -- unvalidated traffic allocates no connection state. *)
From MS Require Import L2 Spec.View Spec.TcpRef Spec.C09 Spec.History Proofs.C09.

(* after any history, the keys of the connection table are exactly the cookies of the
   flows that sent a PSH|ACK segment acknowledging cookie+1 *)
Theorem C09_table_keys :
  forall E cfg h tb,
    Forall (fun f => bytes_ok f = true) (frames h) ->
    run E cfg [] h = Ok tb ->
    forall k, In k (keys tb) <-> In k (ref_keys cfg (ref_run cfg (frames h))).
Proof. exact table_keys. Qed.

Theorem C09_table_nodup :
  forall E cfg h tb,
    Forall (fun f => bytes_ok f = true) (frames h) ->
    run E cfg [] h = Ok tb -> NoDup (keys tb).
Proof. exact table_nodup. Qed.

Theorem C09_size :
  forall E cfg h tb,
    Forall (fun f => bytes_ok f = true) (frames h) ->
    run E cfg [] h = Ok tb ->
    length tb = expected_size cfg (frames h).
Proof. exact size. Qed.

Theorem C09_non_validating_frame_leaves_table :
  forall E cfg clk tb f tb' r evs,
    bytes_ok f = true ->
    reply E cfg clk tb f = Ok (tb', r, evs) ->
    (validates cfg f = None -> keys tb' = keys tb) /\
    ((match view_tcp cfg f with
      | Some v => is_data (tcp_flags (v_l4 v)) &&
                  (tbl_mem (flow_cookie cfg (flow_of v)) tb || presents_cookie cfg v)
      | None => false
      end) = false -> tb' = tb).
Proof. exact non_validating. Qed.

Print Assumptions C09_table_keys.
Print Assumptions C09_table_nodup.
Print Assumptions C09_size.
Print Assumptions C09_non_validating_frame_leaves_table.
