(* L4.v -- src/layer_4/{tcp,udp,icmpv4,icmpv6}.rs. Each function receives the
   bytes of the transport packet (the IP payload as pnet slices it) and returns
   the reply packet with a zero checksum field (layer 3 fills it in). *)
From MS Require Export Bytes Res Types Cookie Proto.

(* ---------- TCP ---------- *)
Definition FIN : N := 1.
Definition SYN : N := 2.
Definition RST : N := 4.
Definition PSH : N := 8.
Definition ACK : N := 16.
Definition URG : N := 32.
Definition ECE : N := 64.
Definition CWR : N := 128.
Definition NS : N := 256.

Definition tcp_flags (p : bytes) : N := (u8_at 12 p mod 2) * 256 + u8_at 13 p.
Definition tcp_payload (p : bytes) : bytes :=
  let doff := u8_at 12 p / 16 in
  let start := (20 + (if N.ltb 5 doff then N.to_nat doff * 4 - 20 else 0))%nat in
  if (length p <=? start)%nat then [] else skipn start p.

Definition tcp_header (sport dport seq ack flags : N) : bytes :=
  be16 sport ++ be16 dport ++ be32 seq ++ be32 ack ++
  [80 + (flags / 256) mod 2; flags mod 256] ++ be16 65535 ++ [0; 0; 0; 0].

Inductive tcp_action := TData | TDropAck | TDropRst | TFinAck | TSynAck | TDropOther.

(* the `match tcp_req.get_flags()` cascade, on the 9-bit flag word *)
Definition tcp_class (fl : N) : tcp_action :=
  if N.land fl (PSH + ACK) =? PSH + ACK then TData
  else if fl =? ACK then TDropAck
  else if fl =? RST then TDropRst
  else if fl =? FIN + ACK then TFinAck
  else if (N.land fl SYN =? SYN)
       && (N.land fl (NS + ACK + RST + FIN) =? 0)
       && ((N.land fl CWR =? 0) || (N.land fl ECE =? 0)) then TSynAck
  else TDropOther.

Definition PANIC_TCP_COOKIE : N := 201.

Definition tcp_repl (E : env) (cfg : config) (clk : clock) (tb : table) (ci0 : cinfo) (p : bytes)
  : res (table * cinfo * option bytes * list event) :=
  let sport := u16_at 0 p in
  let dport := u16_at 2 p in
  let seq := u32_at 4 p in
  let ack := u32_at 8 p in
  let fl := tcp_flags p in
  let ci := ci_set_ports ci0 sport dport in
  let x := [fl; seq; ack] in
  let recv := mk_ev LTcp Recv ci x in
  let drop c := Ok (tb, c, None, [recv; mk_ev LTcp Drop c x]) in
  let send c tb' flags' seq' ack' pl :=
    match ci_port_dst c, ci_port_src c with
    | Some sp, Some dp =>
      Ok (tb', c, Some (tcp_header sp dp seq' ack' flags' ++ pl),
          [recv; mk_ev LTcp Send c [flags'; seq'; ack']])
    | _, _ => Panic PANIC_TCP_COOKIE
    end in
  match tcp_class fl with
  | TData =>
    let ackno := if 0 <? ack then ack - 1 else 4294967295 in
    match cookie_ci (c_key0 cfg) (c_key1 cfg) ci with
    | None => Panic PANIC_TCP_COOKIE    (* client_info.cookie.unwrap() *)
    | Some ck =>
      let ci1 := ci_set_cookie ci ck in
      if negb (tbl_mem ck tb) && negb (ck =? ackno) then drop ci1
      else
        let tc := match tbl_find ck tb with Some t => t | None => tcb_new end in
        let payload := tcp_payload p in
        do r <- proto_repl_tcp E clk ci1 tc payload;
        let '(ci2, tc', out) := r in
        let tb' := tbl_set ck tc' tb in
        let ack' := wrap32 (seq + lenN payload) in
        match out with
        | Some d => send ci2 tb' (ACK + PSH) ack ack' d
        | None => send ci2 tb' ACK ack ack' []
        end
    end
  | TDropAck | TDropRst | TDropOther => drop ci
  | TFinAck => send ci tb (FIN + ACK) ack (wrap32 (seq + 1)) []
  | TSynAck =>
    match cookie_ci (c_key0 cfg) (c_key1 cfg) ci with
    | None => Panic PANIC_TCP_COOKIE
    | Some ck => send ci tb (SYN + ACK) ck (wrap32 (seq + 1)) []
    end
  end.

(* ---------- UDP ---------- *)
Definition udp_repl (E : env) (cfg : config) (clk : clock) (ci0 : cinfo) (p : bytes)
  : res (cinfo * option bytes * list event) :=
  let sport := u16_at 0 p in
  let dport := u16_at 2 p in
  let ci := ci_set_ports ci0 sport dport in
  let recv := mk_ev LUdp Recv ci [] in
  do r <- proto_repl_udp E clk ci (skipn 8 p);
  let '(ci1, out) := r in
  match out with
  | None => Ok (ci1, None, [recv; mk_ev LUdp Drop ci1 []])
  | Some d =>
    match ci_port_dst ci1, ci_port_src ci1 with
    | Some sp, Some dp =>
      Ok (ci1, Some (be16 sp ++ be16 dp ++ be16 (8 + lenN d) ++ [0; 0] ++ d),
          [recv; mk_ev LUdp Send ci1 []])
    | _, _ => Panic PANIC_TCP_COOKIE
    end
  end.

(* ---------- ICMPv4 ---------- *)
Definition icmpv4_repl (ci : cinfo) (p : bytes) : option bytes * list event :=
  let ty := u8_at 0 p in
  let code := u8_at 1 p in
  let recv := mk_ev LIcmpv4 Recv ci [ty; code] in
  if (ty =? 8) && (code =? 0) then
    (Some ([0; 0; 0; 0] ++ skipn 4 p), [recv; mk_ev LIcmpv4 Send ci [0; 0]])
  else (None, [recv; mk_ev LIcmpv4 Drop ci [ty; code]]).

(* ---------- ICMPv6 ---------- *)
(* returns the reply and, for neighbour solicitations, the solicited target
   (which becomes the source address of the advertisement) *)
Definition icmpv6_repl (cfg : config) (ci : cinfo) (p : bytes)
  : option bytes * option bytes * list event :=
  let ty := u8_at 0 p in
  let code := u8_at 1 p in
  let recv := mk_ev LIcmpv6 Recv ci [ty; code] in
  let drop := (None, None, [recv; mk_ev LIcmpv6 Drop ci [ty; code]]) in
  if negb (code =? 0) then drop
  else if ty =? 135 then
    if (length p <? 24)%nat then drop
    else
      let target := slice 8 16 p in
      if match c_self cfg with Some l => negb (ip_in (V6 target) l) | None => false end then drop
      else
        (Some ([136; 0; 0; 0; 96; 0; 0; 0] ++ target ++ [2; 1] ++ c_mac cfg), Some target,
         [recv; mk_ev LIcmpv6 Send ci [136; 0]])
  else if ty =? 128 then
    if match c_self cfg, ci_ip_dst ci with
       | Some l, Some d => negb (ip_in d l)
       | _, _ => false
       end then drop
    else (Some ([129; 0; 0; 0] ++ skipn 4 p), None, [recv; mk_ev LIcmpv6 Send ci [129; 0]])
  else drop.
