(* RefXdr.v -- reference XDR codec for ONC-RPC (RFC 4506 data representation,
   RFC 5531 call / reply messages, RFC 1833 portmapper / rpcbind results).
   Written from the RFCs, NOT from src/proto/rpc.rs: a structured call record
   with its serialisation, a strict reader for calls, and a strict reader for
   accepted replies and for the portmapper results. Every reader checks 4-byte
   alignment, zero padding of opaque data, XDR booleans (0 / 1 only) and that the
   whole message is consumed. Shares only Bytes.v with the model.
   Definitions only (extracted; [nat] is used for lengths / fuel only). *)
From MS Require Export Bytes.

(* ---- XDR primitives (RFC 4506 sections 4.2, 4.10, 4.11) ---- *)
(* number of pad bytes after [n] bytes of opaque data *)
Definition xpad (n : nat) : nat := ((4 - n mod 4) mod 4)%nat.

Definition xdr_u32 (x : N) : bytes := be32 x.
Definition xdr_opaque (b : bytes) : bytes := xdr_u32 (lenN b) ++ b ++ zeros (xpad (length b)).

Definition rd_u32 (l : bytes) : option (N * bytes) :=
  match l with
  | a :: b :: c :: d :: t => Some (a * 16777216 + b * 65536 + c * 256 + d, t)
  | _ => None
  end.

Definition all_zero (l : bytes) : bool := forallb (fun x => x =? 0) l.

(* variable-length opaque<> / string<>: length, data, zero padding to a multiple of 4 *)
Definition rd_opaque (l : bytes) : option (bytes * bytes) :=
  match rd_u32 l with
  | None => None
  | Some (n, t) =>
    if lenN t <? n then None
    else
      let k := N.to_nat n in
      let t1 := skipn k t in
      let p := xpad k in
      if (length t1 <? p)%nat then None
      else if all_zero (firstn p t1) then Some (firstn k t, skipn p t1) else None
  end.

(* ---- call messages (RFC 5531 section 9: call_body) ---- *)
Record rpc_call := {
  rc_xid : N;
  rc_rpcvers : N;
  rc_prog : N;
  rc_vers : N;
  rc_proc : N;
  rc_cred_flavor : N;
  rc_cred : bytes;
  rc_verf_flavor : N;
  rc_verf : bytes
}.

Definition MSG_CALL : N := 0.
Definition MSG_REPLY : N := 1.

(* a message with the layout of a call and an arbitrary message-type word *)
Definition ser_msg (mt : N) (c : rpc_call) : bytes :=
  xdr_u32 (rc_xid c) ++ xdr_u32 mt ++ xdr_u32 (rc_rpcvers c) ++ xdr_u32 (rc_prog c) ++
  xdr_u32 (rc_vers c) ++ xdr_u32 (rc_proc c) ++
  xdr_u32 (rc_cred_flavor c) ++ xdr_opaque (rc_cred c) ++
  xdr_u32 (rc_verf_flavor c) ++ xdr_opaque (rc_verf c).
Definition ser_call (c : rpc_call) : bytes := ser_msg MSG_CALL c.

(* record marking over TCP (RFC 5531 section 11): last-fragment bit + 31-bit length *)
Definition LAST_FRAG : N := 2147483648.
Definition record_mark (len : N) : bytes := be32 (LAST_FRAG + len).
Definition ser_call_tcp (c : rpc_call) : bytes := record_mark (lenN (ser_call c)) ++ ser_call c.

(* (last fragment?, fragment length, rest) *)
Definition rd_mark (l : bytes) : option (bool * N * bytes) :=
  match rd_u32 l with
  | Some (w, t) => Some (LAST_FRAG <=? w, w mod LAST_FRAG, t)
  | None => None
  end.

(* one complete record in one fragment: the bytes of the record *)
Definition strip_mark (l : bytes) : option bytes :=
  match rd_mark l with
  | Some (true, n, t) => if n =? lenN t then Some t else None
  | _ => None
  end.

Definition call_wf (c : rpc_call) : bool :=
  (rc_xid c <? 4294967296) && (rc_rpcvers c <? 4294967296) && (rc_prog c <? 4294967296) &&
  (rc_vers c <? 4294967296) && (rc_proc c <? 4294967296) && (rc_cred_flavor c <? 4294967296) &&
  (rc_verf_flavor c <? 4294967296) && (lenN (rc_cred c) <? 4294967296) && (lenN (rc_verf c) <? 4294967296).

(* strict reader for a call at the head of [p]; returns the bytes that follow it *)
Definition dec_call (p : bytes) : option (rpc_call * bytes) :=
  match rd_u32 p with None => None | Some (x, p) =>
  match rd_u32 p with None => None | Some (mt, p) =>
  if negb (mt =? MSG_CALL) then None else
  match rd_u32 p with None => None | Some (rv, p) =>
  match rd_u32 p with None => None | Some (pg, p) =>
  match rd_u32 p with None => None | Some (vs, p) =>
  match rd_u32 p with None => None | Some (pc, p) =>
  match rd_u32 p with None => None | Some (cf, p) =>
  match rd_opaque p with None => None | Some (cb, p) =>
  match rd_u32 p with None => None | Some (vf, p) =>
  match rd_opaque p with None => None | Some (vb, p) =>
    Some ({| rc_xid := x; rc_rpcvers := rv; rc_prog := pg; rc_vers := vs; rc_proc := pc; rc_cred_flavor := cf;
             rc_cred := cb; rc_verf_flavor := vf; rc_verf := vb |}, p)
  end end end end end end end end end end.

(* ---- portmapper / rpcbind results (RFC 1833) ---- *)
(* version 2: struct mapping { prog; vers; prot; port }
   versions 3, 4: struct rpcb { r_prog; r_vers; string r_netid<>; string r_addr<>; string r_owner<> } *)
Definition mapping := (N * N * N * N)%type.
Definition rpcb := (N * N * bytes * bytes * bytes)%type.

Inductive pm_result :=
| ResVoid                           (* NULL procedure: void *)
| ResPort (port : N)                (* PMAPPROC_GETPORT (v2): unsigned int *)
| ResUaddr (s : bytes)              (* RPCBPROC_GETADDR (v3, v4): string (universal address) *)
| ResDump2 (l : list mapping)       (* PMAPPROC_DUMP (v2): pmaplist *)
| ResDump3 (l : list rpcb).         (* RPCBPROC_DUMP (v3, v4): rpcblist *)

(* which result type the client expects, decided by the call it made *)
Inductive res_kind := KVoid | KPort | KUaddr | KDump2 | KDump3.

Definition PMAP_PROG : N := 100000.

Definition result_kind (c : rpc_call) : res_kind :=
  if (rc_prog c =? PMAP_PROG) && (rc_proc c =? 3) then (if rc_vers c =? 2 then KPort else KUaddr)
  else if (rc_prog c =? PMAP_PROG) && (rc_proc c =? 4) then (if rc_vers c =? 2 then KDump2 else KDump3)
  else KVoid.

(* optional-data linked lists: bool "value follows" (1) + element, ended by 0 *)
Fixpoint rd_pmaplist (fuel : nat) (l : bytes) : option (list mapping * bytes) :=
  match fuel with
  | O => None
  | S fuel' =>
    match rd_u32 l with
    | None => None
    | Some (more, t) =>
      if more =? 0 then Some ([], t)
      else if more =? 1 then
        match rd_u32 t with None => None | Some (pg, t) =>
        match rd_u32 t with None => None | Some (vs, t) =>
        match rd_u32 t with None => None | Some (pr, t) =>
        match rd_u32 t with None => None | Some (po, t) =>
        match rd_pmaplist fuel' t with
        | Some (es, t) => Some ((pg, vs, pr, po) :: es, t)
        | None => None
        end end end end end
      else None
    end
  end.

Fixpoint rd_rpcblist (fuel : nat) (l : bytes) : option (list rpcb * bytes) :=
  match fuel with
  | O => None
  | S fuel' =>
    match rd_u32 l with
    | None => None
    | Some (more, t) =>
      if more =? 0 then Some ([], t)
      else if more =? 1 then
        match rd_u32 t with None => None | Some (pg, t) =>
        match rd_u32 t with None => None | Some (vs, t) =>
        match rd_opaque t with None => None | Some (ni, t) =>
        match rd_opaque t with None => None | Some (ad, t) =>
        match rd_opaque t with None => None | Some (ow, t) =>
        match rd_rpcblist fuel' t with
        | Some (es, t) => Some ((pg, vs, ni, ad, ow) :: es, t)
        | None => None
        end end end end end end
      else None
    end
  end.

(* results must fill the rest of the reply exactly *)
Definition dec_results (k : res_kind) (l : bytes) : option pm_result :=
  match k with
  | KVoid => match l with [] => Some ResVoid | _ => None end
  | KPort => match rd_u32 l with Some (p, []) => Some (ResPort p) | _ => None end
  | KUaddr => match rd_opaque l with Some (s, []) => Some (ResUaddr s) | _ => None end
  | KDump2 => match rd_pmaplist (S (length l)) l with Some (es, []) => Some (ResDump2 es) | _ => None end
  | KDump3 => match rd_rpcblist (S (length l)) l with Some (es, []) => Some (ResDump3 es) | _ => None end
  end.

(* ---- reply messages (RFC 5531 section 9: accepted_reply) ---- *)
Inductive accept_body :=
| AccSuccess (r : pm_result)          (* SUCCESS = 0 *)
| AccProgUnavail                      (* PROG_UNAVAIL = 1 *)
| AccProgMismatch (low high : N)      (* PROG_MISMATCH = 2 *)
| AccProcUnavail                      (* PROC_UNAVAIL = 3 *)
| AccGarbageArgs                      (* GARBAGE_ARGS = 4 *)
| AccSystemErr.                       (* SYSTEM_ERR = 5 *)

Record rpc_reply := {
  rp_xid : N;
  rp_verf_flavor : N;
  rp_verf : bytes;
  rp_body : accept_body
}.

Definition only_if_empty (l : bytes) (b : accept_body) : option accept_body :=
  match l with [] => Some b | _ => None end.

(* an accepted reply (msg_type REPLY, reply_stat MSG_ACCEPTED); denied replies and
   anything malformed, misaligned or with trailing bytes do not decode *)
Definition dec_reply (k : res_kind) (r : bytes) : option rpc_reply :=
  if negb (length r mod 4 =? 0)%nat then None else
  match rd_u32 r with None => None | Some (x, r) =>
  match rd_u32 r with None => None | Some (mt, r) =>
  if negb (mt =? MSG_REPLY) then None else
  match rd_u32 r with None => None | Some (rs, r) =>
  if negb (rs =? 0) then None else
  match rd_u32 r with None => None | Some (vf, r) =>
  match rd_opaque r with None => None | Some (vb, r) =>
  match rd_u32 r with None => None | Some (st, r) =>
  match
    (if st =? 0 then match dec_results k r with Some res => Some (AccSuccess res) | None => None end
     else if st =? 1 then only_if_empty r AccProgUnavail
     else if st =? 2 then
       match rd_u32 r with None => None | Some (lo, r) =>
       match rd_u32 r with None => None | Some (hi, r) => only_if_empty r (AccProgMismatch lo hi)
       end end
     else if st =? 3 then only_if_empty r AccProcUnavail
     else if st =? 4 then only_if_empty r AccGarbageArgs
     else if st =? 5 then only_if_empty r AccSystemErr
     else None)
  with
  | Some b => Some {| rp_xid := x; rp_verf_flavor := vf; rp_verf := vb; rp_body := b |}
  | None => None
  end end end end end end end.

(* ---- boolean equality (for the monitors) ---- *)
Fixpoint list_eqb {A} (eqb : A -> A -> bool) (a b : list A) : bool :=
  match a, b with
  | [], [] => true
  | x :: a', y :: b' => eqb x y && list_eqb eqb a' b'
  | _, _ => false
  end.

Definition mapping_eqb (a b : mapping) : bool :=
  let '(a1, a2, a3, a4) := a in let '(b1, b2, b3, b4) := b in
  (a1 =? b1) && (a2 =? b2) && (a3 =? b3) && (a4 =? b4).
Definition rpcb_eqb (a b : rpcb) : bool :=
  let '(a1, a2, a3, a4, a5) := a in let '(b1, b2, b3, b4, b5) := b in
  (a1 =? b1) && (a2 =? b2) && bytes_eqb a3 b3 && bytes_eqb a4 b4 && bytes_eqb a5 b5.

Definition result_eqb (a b : pm_result) : bool :=
  match a, b with
  | ResVoid, ResVoid => true
  | ResPort p, ResPort q => p =? q
  | ResUaddr s, ResUaddr t => bytes_eqb s t
  | ResDump2 l, ResDump2 m => list_eqb mapping_eqb l m
  | ResDump3 l, ResDump3 m => list_eqb rpcb_eqb l m
  | _, _ => false
  end.

Definition body_eqb (a b : accept_body) : bool :=
  match a, b with
  | AccSuccess r, AccSuccess s => result_eqb r s
  | AccProgUnavail, AccProgUnavail => true
  | AccProgMismatch l h, AccProgMismatch l' h' => (l =? l') && (h =? h')
  | AccProcUnavail, AccProcUnavail => true
  | AccGarbageArgs, AccGarbageArgs => true
  | AccSystemErr, AccSystemErr => true
  | _, _ => false
  end.

Definition reply_eqb (a b : rpc_reply) : bool :=
  (rp_xid a =? rp_xid b) && (rp_verf_flavor a =? rp_verf_flavor b) &&
  bytes_eqb (rp_verf a) (rp_verf b) && body_eqb (rp_body a) (rp_body b).
