(* Spec/C11u.v -- C11, the UNIFORM reading of an HTTP flow and the cut-invariance vocabulary.
   Definitions only.

   [http_stream_ref] is the HTTP counterpart of [rpc_stream_ref] (Proofs/C11.v): what every
   segment of a flow gets, as a function of the byte stream and of the segment boundaries
   alone, read off the PER-BYTE parser ([http_fold] of Spec/C11http.v from [http_new]) run over
   the bytes received since the last answered request:
     - no payload (a bare ACK) while the bytes so far do not contain the completing byte,
     - the 401 response in the segment that contains it,
     - after which the flow starts afresh: the bytes of that segment that follow the
       completing byte are NOT looked at (the implementation drops them: http::repl resets
       the parser after http_parse has run over the whole segment in state CONTENT), and the
       next segment is the first one of a new request.
   [http_complete_at tbl s] is the offset, in the stream [s], of the byte that completes the
   first request (a function of [s] only); [seg_index segs k] the segment that holds offset k.

   [sig_bound_ok t id L] is a per-table check (decided by computation on the dumped matcher,
   in the style of [ident_bound_ok]): a stream whose first [L] bytes complete no signature is
   never identified as [id].  With id = HTTP and L = HTTP_QUIET = 11 it says that an HTTP flow
   is identified within its first 11 bytes -- fewer bytes than any request the parser answers
   (at least 11: method, SP, SP, "HTTP/", ".", LF, LF), so that "not identified yet" on the
   implementation side coincides with "the parser has not answered" on the reference side. *)
From MS Require Export Bytes Types Proto Spec.AppView Spec.PendingBound Spec.C11 Spec.C11http.

Definition http_401 (E : env) (clk : clock) : bytes :=
  e_http_pre E ++ clk_date clk ++ e_http_post E.

(* the per-byte parser has answered within [s] *)
Definition http_answered (tbl : smack) (s : bytes) : bool :=
  match http_fold tbl http_new s with Ok h => http_answers h | Panic _ => false end.

Fixpoint http_stream_ref_at (E : env) (clk : clock) (acc : bytes) (segs : list bytes) : list (option bytes) :=
  match segs with
  | [] => []
  | s :: rest =>
    if http_answered (e_http_tbl E) (acc ++ s)
    then Some (http_401 E clk) :: http_stream_ref_at E clk [] rest
    else None :: http_stream_ref_at E clk (acc ++ s) rest
  end.
Definition http_stream_ref (E : env) (clk : clock) (segs : list bytes) : list (option bytes) :=
  http_stream_ref_at E clk [] segs.

(* offset of the completing byte of the first request of a stream *)
Fixpoint http_scan (tbl : smack) (h : http_st) (s : bytes) (k : nat) : option nat :=
  match s with
  | [] => None
  | b :: r =>
    match http_step tbl h b with
    | Ok h' => if http_answers h' then Some k else http_scan tbl h' r (S k)
    | Panic _ => None
    end
  end.
Definition http_complete_at (tbl : smack) (s : bytes) : option nat := http_scan tbl http_new s 0.

(* ONC-RPC: offset of the byte that completes the first message *)
Fixpoint rpc_scan (r : rpc_st) (s : bytes) (k : nat) : option nat :=
  match s with
  | [] => None
  | b :: t => let r' := rpc_byte r b in if r_state r' =? R_END then Some k else rpc_scan r' t (S k)
  end.
Definition rpc_complete_at (s : bytes) : option nat := rpc_scan (rpc_new R_FRAG) s 0.

(* the segment that holds stream offset k *)
Fixpoint seg_index (segs : list bytes) (k : nat) : nat :=
  match segs with
  | [] => 0%nat
  | d :: r => if (k <? length d)%nat then 0%nat else S (seg_index r (k - length d))
  end.

(* segment j carries [o]; every segment before it gets a bare ACK *)
Definition first_reply_at (outs : list (option bytes)) (j : nat) (o : option bytes) : Prop :=
  (j < length outs)%nat /\ firstn j outs = quiet j /\ nth j outs None = o.

(* ---- per-table check: no identification as [id] after [L] bytes without a signature ---- *)
Definition late_close_step (t : smack) (cols : list N) (C : list N) : list N :=
  add_rows C (next_layer t cols C).
Fixpoint late_close (fuel : nat) (t : smack) (cols : list N) (C : list N) : list N :=
  match fuel with
  | O => C
  | S f => let C' := late_close_step t cols C in
           if (length C' =? length C)%nat then C else late_close f t cols C'
  end.
(* from the rows of C every byte leads back into C, or to a match that is not [id] *)
Definition no_late_id_c (t : smack) (cols : list N) (id : N) (C : list N) : bool :=
  forallb (fun r => forallb (fun c => let r' := sm_next t r c in
                                      if r' <? sm_match_limit t then PendingBound.memN r' C
                                      else negb (hd 0 (sm_ids t r') =? id)) cols) C.
Definition sig_bound_ok (t : smack) (id : N) (L : nat) : bool :=
  let cols := byte_cols t in
  let l := layer_c t cols L in
  let C := late_close (N.to_nat (sm_rows t)) t cols l in
  forallb (fun r => PendingBound.memN r C) l && no_late_id_c t cols id C.

Definition HTTP_QUIET : nat := 11.
Definition http_uniform_ok (E : env) : bool := sig_bound_ok (e_proto_tbl E) PROTO_HTTP HTTP_QUIET.

(* ---- the statements (proved in Proofs/C11u*.v, pinned in Properties/C11uniform.v) ---- *)
Definition C11_http_stream_uniform_stmt : Prop :=
  forall E clk ci segs,
    proto_tbl_ok E = true -> http_uniform_ok E = true ->
    smack_ok (e_http_tbl E) = true -> http_tbl_ok (e_http_tbl E) = true ->
    bytes_ok (concat segs) = true -> tcp_first_id E (concat segs) = Some PROTO_HTTP ->
    tcp_stream E clk ci tcb_new segs = Ok (http_stream_ref E clk segs).

(* the stronger reading of the property text -- "reply content and timing do not depend on
   where the cuts fall" for the WHOLE flow: the payloads sent on a flow are a function of
   the stream.  FALSE of the implementation for pipelined requests (refuted by a witness in
   Proofs/C11uExamples.v): the bytes that follow the completing byte in the same segment are
   dropped, so a second request is answered or not depending on the cuts. *)
Definition out_payloads (l : list (option bytes)) : list bytes :=
  flat_map (fun x => match x with Some d => [d] | None => [] end) l.
Definition C11_http_whole_flow_stmt (E : env) : Prop :=
  forall clk ci segs1 segs2 o1 o2,
    concat segs1 = concat segs2 -> bytes_ok (concat segs1) = true ->
    tcp_first_id E (concat segs1) = Some PROTO_HTTP ->
    tcp_stream E clk ci tcb_new segs1 = Ok o1 -> tcp_stream E clk ci tcb_new segs2 = Ok o2 ->
    out_payloads o1 = out_payloads o2.

(* ---- executable monitors over ONE flow: the payloads of its data segments, in order, and
   the application payload of the frame emitted for each ([None] = bare ACK).  The Date value
   of a 401 is not checked (wall clock): a 401 is the template around any date. ---- *)
Fixpoint is_prefix (p d : bytes) : bool :=
  match p, d with
  | [], _ => true
  | x :: p', y :: d' => (x =? y) && is_prefix p' d'
  | _ :: _, [] => false
  end.
Definition is_401 (E : env) (d : bytes) : bool :=
  is_prefix (e_http_pre E) d && is_prefix (rev (e_http_post E)) (rev d) &&
  (length (e_http_pre E) + length (e_http_post E) <=? length d)%nat.
Fixpoint outs_match (E : env) (exp outs : list (option bytes)) : bool :=
  match exp, outs with
  | [], [] => true
  | None :: e', None :: o' => outs_match E e' o'
  | Some _ :: e', Some d :: o' => is_401 E d && outs_match E e' o'
  | _, _ => false
  end.
Definition clk0 : clock := {| clk_date := []; clk_filetime := 0 |}.

(* the implementation's reading (proved of the model: Properties/C11uniform.v) *)
Definition ok_C11_http_flow (E : env) (segs : list bytes) (outs : list (option bytes)) : bool :=
  match tcp_first_id E (concat segs) with
  | Some i => if i =? PROTO_HTTP then outs_match E (http_stream_ref E clk0 segs) outs else true
  | None => true
  end.

(* the property as worded, for the whole flow: as many 401s as the stream holds complete
   requests, the parser starting afresh right after each completing byte -- a function of the
   stream only.  NOT met by the implementation on flows of the class below. *)
Fixpoint http_requests (tbl : smack) (h : http_st) (s : bytes) : nat :=
  match s with
  | [] => 0%nat
  | b :: r =>
    match http_step tbl h b with
    | Ok h' => if http_answers h' then S (http_requests tbl http_new r) else http_requests tbl h' r
    | Panic _ => 0%nat
    end
  end.
Definition count_payloads (outs : list (option bytes)) : nat := length (out_payloads outs).
Definition ok_C11_http_flow_strict (E : env) (segs : list bytes) (outs : list (option bytes)) : bool :=
  match tcp_first_id E (concat segs) with
  | Some i => if i =? PROTO_HTTP
              then (count_payloads outs =? http_requests (e_http_tbl E) http_new (concat segs))%nat
              else true
  | None => true
  end.
(* the known class: some segment carries bytes after the byte that completes a request (they
   are dropped) *)
Definition completes_at_end (tbl : smack) (p : bytes) : bool :=
  match http_complete_at tbl p with Some k => (S k =? length p)%nat | None => false end.
Fixpoint c11_trailing_at (tbl : smack) (acc : bytes) (segs : list bytes) : bool :=
  match segs with
  | [] => false
  | s :: rest =>
    if http_answered tbl (acc ++ s)
    then negb (completes_at_end tbl (acc ++ s)) || c11_trailing_at tbl [] rest
    else c11_trailing_at tbl (acc ++ s) rest
  end.
Definition c11_trailing_class (E : env) (segs : list bytes) : bool := c11_trailing_at (e_http_tbl E) [] segs.
