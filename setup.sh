#!/bin/sh
# Build the framework from files on disk only (offline): hooked drivers (dev + release),
# generated Coq data, the whole Coq development, the extracted model runner.
cd "$(dirname "$0")" || exit 2
export CARGO_NET_OFFLINE=true
python3 harness/build.py --release
