(* TcpRef.v -- the reference connection model used by C07, C08, C09: a set of
   validated flows keyed by the address/port 4-tuple, and the history-level
   definitions ("which frames validate a flow") written from the property texts. *)
From MS Require Export Bytes Types Cookie L4 Spec.View.

Record flow := { fl_v4 : bool; fl_src : bytes; fl_dst : bytes; fl_sport : N; fl_dport : N }.

Definition flow_eqb (a b : flow) : bool :=
  Bool.eqb (fl_v4 a) (fl_v4 b) && bytes_eqb (fl_src a) (fl_src b) && bytes_eqb (fl_dst a) (fl_dst b) &&
  (fl_sport a =? fl_sport b) && (fl_dport a =? fl_dport b).

Definition flow_of (v : l4view) : flow :=
  {| fl_v4 := v_v4 v; fl_src := v_src v; fl_dst := v_dst v;
     fl_sport := u16_at 0 (v_l4 v); fl_dport := u16_at 2 (v_l4 v) |}.

Definition flow_cookie (cfg : config) (fl : flow) : N :=
  cookie (c_key0 cfg) (c_key1 cfg) (fl_src fl) (fl_dst fl) (fl_sport fl) (fl_dport fl).

Definition is_data (fl : N) : bool := testbit fl 8 && testbit fl 16.   (* PSH and ACK *)

(* a data segment whose acknowledgement number is its flow's cookie + 1 *)
Definition presents_cookie (cfg : config) (v : l4view) : bool :=
  u32_at 8 (v_l4 v) =? wrap32 (flow_cookie cfg (flow_of v) + 1).

(* the flow a frame validates, if it is such a data segment *)
Definition validates (cfg : config) (f : bytes) : option flow :=
  match view_tcp cfg f with
  | Some v =>
    if is_data (tcp_flags (v_l4 v)) && presents_cookie cfg v then Some (flow_of v) else None
  | None => None
  end.

(* reference state: the validated flows *)
Definition ref_state := list flow.
Definition ref_mem (fl : flow) (st : ref_state) : bool := existsb (flow_eqb fl) st.

Definition ref_step (cfg : config) (st : ref_state) (f : bytes) : ref_state :=
  match validates cfg f with
  | Some fl => if ref_mem fl st then st else fl :: st
  | None => st
  end.

Definition ref_run (cfg : config) (h : list bytes) : ref_state := fold_left (ref_step cfg) h [].

(* cookies of the validated flows: what the implementation's table is keyed by *)
Definition ref_keys (cfg : config) (st : ref_state) : list N := map (flow_cookie cfg) st.
