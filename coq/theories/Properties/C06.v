(* Properties/C06.v -- SYN policy mimics Linux; SYN-ACK acks seq+1 with a deterministic cookie.
   This file only pins statements; the proofs are in Proofs/C06.v. *)
From MS Require Import L2 Spec.View Spec.RefDec Spec.C06 Proofs.C06.

(* For every configuration, table (= whatever happened before) and frame: what is
   emitted satisfies the C06 monitor: a SYN-bearing segment that reaches TCP gets
   exactly SYN|ACK, ack = seq+1 mod 2^32, empty payload and seq = cookie(key, src,
   dst, sport, dport) iff its flags pass the Linux rule; otherwise never a SYN|ACK. *)
Theorem C06_syn_policy :
  forall E cfg clk tb f tb' r evs,
    cfg_ok cfg = true -> bytes_ok f = true ->
    reply E cfg clk tb f = Ok (tb', r, evs) ->
    ok_C06 cfg f r = true.
Proof. exact syn_policy. Qed.

Theorem C06_syn_leaves_table :
  forall E cfg clk tb f v tb' r evs,
    bytes_ok f = true ->
    view_tcp cfg f = Some v ->
    has_syn (tcp_flags (v_l4 v)) = true -> linux_ok (tcp_flags (v_l4 v)) = true ->
    reply E cfg clk tb f = Ok (tb', r, evs) ->
    tb' = tb.
Proof. exact syn_leaves_table. Qed.

Theorem C06_flag_table :
  forall fl, fl < 512 -> has_syn fl = true ->
    (linux_ok fl = true <-> tcp_class fl = TSynAck).
Proof. exact flag_table. Qed.

Theorem C06_cookie_encoding_injective :
  forall s d s' d' sp dp sp' dp',
    length s = length s' -> length d = length d' ->
    sp < 65536 -> dp < 65536 -> sp' < 65536 -> dp' < 65536 ->
    cookie_msg s d sp dp = cookie_msg s' d' sp' dp' ->
    s = s' /\ d = d' /\ sp = sp' /\ dp = dp'.
Proof. exact cookie_encoding_injective. Qed.

Print Assumptions C06_syn_policy.
Print Assumptions C06_syn_leaves_table.
Print Assumptions C06_flag_table.
Print Assumptions C06_cookie_encoding_injective.
