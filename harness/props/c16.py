"""C16 -- ONC-RPC / portmapper: replies correlated, framed, advertise the contacted endpoint
(plus the harness side of the ONC-RPC half of C11: several calls on one flow)."""
import struct, ipaddress
import net, gens, runner, build
from common import *
from runner import Script, Cfg

ID = "C16"
THEOREMS = ["C16_ref_call_roundtrip", "C16_ref_call_sound", "C16_uaddr4_roundtrip",
            "C16_parser_correct", "C16_parser_truncated", "C16_handler_udp", "C16_handler_tcp",
            "C16_not_call_unanswered", "C16_truncated_unanswered",
            "C16_proto_udp_monitor", "C16_proto_tcp_monitor", "C16_proto_udp_structured", "C16_proto_tcp_structured",
            "C16_parser_steps_safe", "C16_build_never_panics", "C16_pstate_panic_unreachable", "C16_examples", "C16_known_class_witness",
            "C11rpc.C11_rpc_parse_fold", "C11rpc.C11_rpc_first_call", "C11rpc.C11_rpc_first_reply_decodes",
            "C11rpc.C11_rpc_reset_after_message", "C11rpc.C11_rpc_two_calls", "C16frame.C16_frame_udp_at", "C16frame.C16_frame_udp", "C16frame.C16_frame_tcp_first_state_at", "C16frame.C16_frame_tcp_first_history_at", "C16frame.C16_frame_tcp_first", "C16frame.C16_frame_udp_identified", "C16frame.C16_frame_tcp_identified", "C16frame.C16_ident_from_C10", "C16frame.C16_frame_examples", "Current.Glue_ref_chk_sound", "Current.Glue_tbl_chk_sound", "Current.C16_class_covers_C10_class", "Current.C16_current_ident", "Current.C16_class_unidentified", "Current.C16_class_exact", "Current.C16_current_frame_udp", "Current.C16_current_frame_tcp_first", "Current.C16_current_frame_tcp_first_state", "Current.C16_current_examples", "C16ip6.C16_ip6_text_roundtrip", "C16ip6.C16_render_ipv6_injective", "C16ip6.C16_uaddr6_roundtrip", "C16ip6.C16_uaddr_ok_expected", "C16ip6.C16_uaddr_ok_sound", "C16ip6.C16_uaddr_ok_wf", "C16ip6.C16_ip6_reader_wf", "C16ip6.C16_ip6_any_compression", "C16ip6.C16_ip6_stmts", "C16ip6.C16_ip6_examples_dsts", "C16ip6.C16_ip6_examples_rejected", "C16ip6.C16_ip6_examples_alt", "C16ip6.C16_ip6_examples_patterns", "C16ip6.C16_ip6_examples_uaddr_ok", "C16ref.C16_ref_implied", "C16ref.C16_ref_frame_ctx_wf", "C16ref.C16_ref_needs_wf", "C16ref.C16_ref_udp_implied", "C16ref.C16_ref_udp_strict_implied", "C16ref.C16_ref_tcp_implied", "C16ref.C16_ref_tcp_strict_implied", "C16ref.C16_ref_getaddr_sound", "C16ref.C16_ref_dump_sound", "C16ref.C16_proto_udp_monitor_ref", "C16ref.C16_proto_tcp_monitor_ref", "C16ref.C16_current_frame_udp_ref", "C16ref.C16_current_frame_tcp_first_ref", "C16ref.C16_current_frame_tcp_first_state_ref", "C16ref.C16_ref_examples_getaddr", "C16ref.C16_ref_examples_dump", "C16ref.C16_ref_examples_model", "C16ref.C16_ref_examples_frames", "Env.the_env_ok"]
MONITORS = ["C16udp", "C16tcp", "C16udp_strict", "C16tcp_strict", "C16udp_ref", "C16tcp_ref", "C16udp_ref_strict", "C16tcp_ref_strict"]
STRICT = ("C16udp_strict", "C16tcp_strict", "C16udp_ref_strict", "C16tcp_ref_strict")
RULE = ("ONC-RPC calls built by an independent Python encoder: xids with every first byte 0..255 (inside and outside the "
        "shadow set), all 256 programs 99840..100095, versions {0..6, 104316, random}, all procedures 0..255 for the "
        "portmapper and a grid elsewhere, credential lengths 0..64 XDR-padded and unpadded, verifier lengths 0..16, RPC "
        "version bytes, message types, every truncation of a call; as UDP datagrams and as first data segment of a TCP "
        "flow (real SYN / PSH-ACK exchange), IPv4 and IPv6, ports {0,255,256,65535,111,random}, destination addresses "
        "exercising the IPv6 text rules (::, ::1, IPv4-mapped, trailing / leading / equal-length zero runs, single zero "
        "group, no zero group); several calls on one flow (two segments, one segment, call + garbage). Compared with the "
        "model: kind of outcome and application payload of the reply. Judged on the implementation's output by the "
        "extracted monitors ok_C16_udp / ok_C16_tcp (reference XDR reader, expected reply) and by an independent Python "
        "XDR reader that parses universal addresses with the ipaddress module. non-trivial = script carries at least one "
        "payload that is an in-scope call")
TRUSTED = ["Coq 8.16.1 kernel + vm_compute", "extraction (ExtrOcamlBasic) + ocaml/model_run.ml", "harness/*.py",
           "Rust hook verif_driver.rs", "pnet accessor semantics as modelled", "Python ipaddress (parsing of address text)"]
ASSUMPTIONS = ["identification by the compiled matcher is a hypothesis of the theorems; in-scope calls that are not identified "
               "form the known class rpc_shadowed (decided by the extracted predicate c16_class_frame)",
               "IPv6 address text: model and specification share render_ipv6, which is tied to an INDEPENDENT RFC 4291 reader "
               "by a proved round trip for all addresses (C16ip6.C16_ip6_text_roundtrip, C16_uaddr6_roundtrip), and checked "
               "on the implementation's replies by the Python ipaddress module"]

KEY = (0x1616, 0x6161)
SHADOW = [0x47, 0x50, 0x48, 0x44, 0x43, 0x4f, 0x54, 0x53, 0x00]
V4_DSTS = ["10.0.0.1", "0.0.0.0", "255.255.255.254", "192.168.100.200", "1.2.3.4"]
V6_DSTS = ["2001:db8::1", "::", "::1", "::ffff:1.2.3.4", "::ffff:0.0.0.1", "2001:db8::", "1:0:0:2:0:0:3:4", "1:2:3:4:5:6:7:8",
           "1:0:2:3:4:5:6:7", "0:0:1::", "::1.2.3.4", "fe80::1:0:0:1", "1::", "a:b:c:d:e:f:0:0", "0:1:0:1:0:1:0:1",
           "ffff:ffff:ffff:ffff:ffff:ffff:ffff:ffff", "::2:3:4:5:6:7:8", "1:2:3:4:5:6:7::", "0:0:0:0:0:ffff:ffff:ffff"]
PORTS = [111, 0, 255, 256, 65535, 2049]


# ---------------- independent encoder / decoder (Python) ----------------
def xdr_opaque(b, pad=True):
    return struct.pack("!I", len(b)) + b + (b"\0" * ((4 - len(b) % 4) % 4) if pad else b"")


def call(xid=0xa1b2c3d4, rpcvers=2, prog=100000, vers=2, proc=3, cred=b"", verf=b"", cflavor=1, vflavor=0,
         mtype=0, pad=True, tcp=False, body=b"", mark=None):
    m = struct.pack("!IIIIII", xid, mtype, rpcvers, prog, vers, proc)
    m += struct.pack("!I", cflavor) + xdr_opaque(cred, pad) + struct.pack("!I", vflavor) + xdr_opaque(verf, pad) + body
    if tcp:
        m = struct.pack("!I", (0x80000000 | len(m)) if mark is None else mark) + m
    return m


class Rd:
    def __init__(self, b):
        self.b, self.i = b, 0

    def u32(self):
        if self.i + 4 > len(self.b):
            raise ValueError("short")
        v = struct.unpack_from("!I", self.b, self.i)[0]
        self.i += 4
        return v

    def opaque(self):
        n = self.u32()
        if self.i + n > len(self.b):
            raise ValueError("short opaque")
        v = self.b[self.i:self.i + n]
        self.i += n
        p = (4 - n % 4) % 4
        if self.b[self.i:self.i + p] != b"\0" * p:
            raise ValueError("bad padding")
        self.i += p
        return v

    def done(self):
        if self.i != len(self.b):
            raise ValueError("trailing bytes")


def parse_reply(r, kind):
    """-> (xid, body) with body one of ('mismatch', lo, hi) ('void',) ('port', n) ('uaddr', s) ('dump2', [...])
    ('dump3', [...]) ('unavail', stat)"""
    if len(r) % 4:
        raise ValueError("not aligned")
    d = Rd(r)
    xid = d.u32()
    if d.u32() != 1 or d.u32() != 0:
        raise ValueError("not an accepted reply")
    if d.u32() != 0 or d.opaque() != b"":
        raise ValueError("verifier not null")
    st = d.u32()
    if st == 2:
        body = ("mismatch", d.u32(), d.u32())
    elif st != 0:
        body = ("unavail", st)
    elif kind == "void":
        body = ("void",)
    elif kind == "port":
        body = ("port", d.u32())
    elif kind == "uaddr":
        body = ("uaddr", d.opaque())
    else:
        es = []
        while True:
            more = d.u32()
            if more == 0:
                break
            if more != 1:
                raise ValueError("bad boolean")
            if kind == "dump2":
                es.append((d.u32(), d.u32(), d.u32(), d.u32()))
            else:
                es.append((d.u32(), d.u32(), d.opaque(), d.opaque(), d.opaque()))
        body = (kind, es)
    d.done()
    return xid, body


def parse_uaddr(s):
    """universal address -> (ip_address, port), parsed with Python's ipaddress module"""
    host, hi, lo = s.decode("ascii").rsplit(".", 2)
    if not (hi.isdigit() and lo.isdigit()) or (len(hi) > 1 and hi[0] == "0") or (len(lo) > 1 and lo[0] == "0"):
        raise ValueError("bad port part")
    if int(hi) > 255 or int(lo) > 255:
        raise ValueError("bad port part")
    return ipaddress.ip_address(host), int(hi) * 256 + int(lo)


def expected_body(c, dst, dport):
    """what the property text prescribes (independent of the Coq specification)"""
    if c["vers"] < 2 or c["vers"] > 4:
        return "void", ("mismatch", 2, 4)
    if c["proc"] == 0:
        return "void", ("void",)
    if c["prog"] != 100000:
        return "void", ("unavail", 1)
    if c["proc"] == 3:
        return ("port", ("port", dport)) if c["vers"] == 2 else ("uaddr", ("uaddr", (dst, dport)))
    if c["proc"] == 4:
        return ("dump2", ("dump2", dport)) if c["vers"] == 2 else ("dump3", ("dump3", (dst, dport)))
    return "void", ("unavail", 3)


def check_reply(c, dst, dport, tcp, app):
    """-> None if the implementation's application payload is the expected reply, else a message"""
    try:
        if tcp:
            if len(app) < 4:
                return "no record mark"
            w = struct.unpack("!I", app[:4])[0]
            if not (w & 0x80000000):
                return "last-fragment bit clear"
            if (w & 0x7fffffff) != len(app) - 4:
                return "record mark length %d, reply length %d" % (w & 0x7fffffff, len(app) - 4)
            app = app[4:]
        kind, exp = expected_body(c, dst, dport)
        xid, body = parse_reply(app, kind)
        if xid != c["xid"]:
            return "xid %08x, expected %08x" % (xid, c["xid"])
        ip = ipaddress.ip_address(net.ip_bytes(dst))
        netid = b"tcp" if ip.version == 4 else b"tcp6"
        if exp[0] == "uaddr":
            if body[0] != "uaddr" or parse_uaddr(body[1]) != (ip, dport):
                return "universal address %r, expected %s port %d" % (body, ip, dport)
        elif exp[0] == "dump2":
            if body != ("dump2", [(100000, v, 6, dport) for v in (2, 3, 4)]):
                return "dump (v2) %r" % (body,)
        elif exp[0] == "dump3":
            if body[0] != "dump3" or len(body[1]) != 3:
                return "dump %r" % (body,)
            for v, e in zip((2, 3, 4), body[1]):
                if e[0] != 100000 or e[1] != v or e[2] != netid or parse_uaddr(e[3]) != (ip, dport) or e[4] != b"superuser":
                    return "dump entry %r" % (e,)
        elif body != exp:
            return "body %r, expected %r" % (body, exp)
        return None
    except (ValueError, UnicodeDecodeError) as e:
        return "reply does not decode: %s" % e


def in_scope(c):
    return c["mtype"] == 0 and c["rpcvers"] < 256 and 99840 <= c["prog"] <= 100095 and c["proc"] < 256 and c["wellformed"]


def shadowed(c, tcp):
    b0 = c["xid"] >> 24
    return (b0 == 0) if tcp else (b0 in SHADOW)


# per-frame expectations of the Python oracle: frame bytes -> (call dict, dst, dport, tcp)
ORACLE = {}


def mk_call(**kw):
    c = dict(xid=0xa1b2c3d4, rpcvers=2, prog=100000, vers=2, proc=3, cred=b"", verf=b"", mtype=0, pad=True, body=b"", mark=None)
    c.update(kw)
    c["wellformed"] = (c["pad"] or (len(c["cred"]) % 4 == 0 and len(c["verf"]) % 4 == 0)) and c["mark"] is None
    return c


def payload_of(c, tcp):
    return call(xid=c["xid"], rpcvers=c["rpcvers"], prog=c["prog"], vers=c["vers"], proc=c["proc"], cred=c["cred"],
                verf=c["verf"], mtype=c["mtype"], pad=c["pad"], tcp=tcp, body=c["body"], mark=c["mark"])


class Batch:
    """Collects UDP frames into few scripts and TCP flows (distinct source ports) into few scripts."""

    def __init__(self, tag, cfg=None):
        self.tag, self.cfg = tag, cfg or Cfg(key=KEY)
        self.udp, self.tcp, self.sport = [], [], 1024

    def add(self, c, tcp, v6=False, dst=None, dport=111, src=None):
        s, d = gens.addr_pair(v6, src, dst)
        self.sport += 1
        p = payload_of(c, tcp)
        if tcp:
            fr = gens.handshake(self.cfg.key, s, d, self.sport, dport, [p])
            self.tcp.append(fr)
            f = fr[-1]
        else:
            f = net.frame_udp(s, d, self.sport, dport, p)
            self.udp.append(f)
        ORACLE[f] = (c, d, dport, tcp)
        return f

    def scripts(self, per=120):
        for i in range(0, len(self.udp), per):
            yield Script(self.cfg, self.udp[i:i + per], self.tag + ":udp")
        for i in range(0, len(self.tcp), per // 2):
            yield Script(self.cfg, [f for fl in self.tcp[i:i + per // 2] for f in fl], self.tag + ":tcp")


def shadow_witnesses():
    """corpus: in-scope calls of the known class (not identified by the compiled matcher: no RPC reply)"""
    b = Batch("corpus:rpc_shadowed")
    for x in SHADOW:
        b.add(mk_call(xid=(x << 24) | 0x000001), False)
        b.add(mk_call(xid=(x << 24) | 0x123456, vers=4, proc=4), False, v6=True)
    b.add(mk_call(xid=0x00112233), True)
    b.add(mk_call(xid=0x00000000, vers=3, proc=3), True, v6=True)
    return list(b.scripts())


def corpus():
    yield from shadow_witnesses()
    # fixed finding 0bac594: PROC_UNAVAIL was sent as 5 (SYSTEM_ERR)
    b = Batch("corpus:proc_unavail")
    b.add(mk_call(xid=0x12345678, vers=2, proc=7), False)
    b.add(mk_call(xid=0x12345678, vers=3, proc=9), True, v6=True)
    yield from b.scripts()


def generate(tier, rng):
    thorough = tier == "thorough"
    rx = lambda: rng.choice([0xa1b2c3d4, rng.getrandbits(32) | 0x01000000, 0xffffffff, 0x7f000000 | rng.getrandbits(24)])

    # A. all 256 programs of the range
    b = Batch("programs")
    for prog in range(99840, 100096):
        b.add(mk_call(xid=rx(), prog=prog, vers=rng.choice([2, 3, 4]), proc=rng.choice([1, 3, 4, 200])), False, v6=prog % 2 == 1)
        b.add(mk_call(xid=rx(), prog=prog, vers=rng.choice([0, 1, 5, 104316]), proc=rng.randrange(256)), prog % 4 == 0)
        b.add(mk_call(xid=rx(), prog=prog, vers=rng.choice([2, 3, 4]), proc=0), prog % 8 == 1)
    for prog in (99839, 100096, 0, 0xffffffff, 100000 + 65536):          # outside the range: not identified
        b.add(mk_call(prog=prog), False)
        b.add(mk_call(prog=prog), True)
    yield from b.scripts()

    # B. versions x procedures
    b = Batch("versions")
    for vers in [0, 1, 2, 3, 4, 5, 6, 104316, 0xffffffff, rng.getrandbits(32)]:
        for proc in [0, 1, 2, 3, 4, 5, 255]:
            for prog in (100000, 100003):
                b.add(mk_call(xid=rx(), prog=prog, vers=vers, proc=proc), False, v6=rng.random() < 0.5)
                if thorough or rng.random() < 0.4:
                    b.add(mk_call(xid=rx(), prog=prog, vers=vers, proc=proc), True, v6=rng.random() < 0.5)
    yield from b.scripts()

    # C. all procedures of the portmapper
    b = Batch("procedures")
    for proc in range(256):
        for vers in (2, 3, 4):
            b.add(mk_call(xid=rx(), vers=vers, proc=proc), False, v6=(proc + vers) % 2 == 0)
        if thorough or proc % 8 == 0 or proc < 8:
            b.add(mk_call(xid=rx(), vers=rng.choice([2, 3, 4]), proc=proc), True, v6=proc % 2 == 0)
    for proc in (256, 0x103, 0x01000003, 0xffffffff):                    # not identified
        b.add(mk_call(proc=proc), False)
    yield from b.scripts()

    # D. credentials and verifiers: all lengths, XDR-padded and raw
    b = Batch("opaque-lengths")
    for n in range(65):
        cred = bytes(rng.randrange(256) for _ in range(n))
        b.add(mk_call(xid=rx(), cred=cred, vers=rng.choice([2, 3, 4]), proc=rng.choice([3, 4])), False)
        b.add(mk_call(xid=rx(), cred=cred, pad=False, proc=3), False)
        if thorough or n % 3 == 0 or n < 9:
            b.add(mk_call(xid=rx(), cred=cred, vers=rng.choice([2, 3, 4]), proc=rng.choice([3, 4])), True, v6=True)
            b.add(mk_call(xid=rx(), cred=cred, pad=False), True)
    for n in range(17):
        verf = bytes(rng.randrange(256) for _ in range(n))
        for m in (0, 3, 8):
            cred = bytes(rng.randrange(256) for _ in range(m))
            b.add(mk_call(xid=rx(), cred=cred, verf=verf, vers=3, proc=3), False, v6=True)
            b.add(mk_call(xid=rx(), cred=cred, verf=verf, vers=2, proc=4), True)
        b.add(mk_call(xid=rx(), verf=verf, pad=False), False)
    # well-formed AUTH_SYS credentials (flavor 1: stamp, machine name, uid, gid, gids) whose machine name is long and
    # has bytes outside ASCII around the lengths where a log line might cut it: a call is answered whatever the
    # credentials say
    k = 0
    for n in (15, 16, 17, 30, 31, 32, 33, 62, 63, 64, 65, 127, 128, 254, 255):
        for tail in (b"\xe9", b"\xc3\xa9", b"\xe2\x82\xac", b"\xf0\x9f\x98\x80"):
            for cut in range(0, 4):
                k += 1
                name = b"h" * (n - cut) + tail + b"zz"
                cred = struct.pack("!I", 0x5eed) + xdr_opaque(name, True) + struct.pack("!III", 1000, 1000, 0)
                b.add(mk_call(xid=rx(), cred=cred, vers=(2, 3, 4)[k % 3], proc=(3, 4)[k % 2]), k % 4 == 0, v6=k % 5 == 0)
    # length words that lie
    for lie in (0x7fffffff, 0xffffffff, 0x01000000, 65):
        p = struct.pack("!IIIIII", 0xa1b2c3d4, 0, 2, 100000, 2, 3) + struct.pack("!II", 1, lie) + b"abcdefgh" * 4
        f = net.frame_udp(gens.PEER4, gens.SELF4, 999, 111, p)
        b.udp.append(f)
    yield from b.scripts()

    # E. xids: every first byte, both transports; record marks
    b = Batch("xids")
    for x in range(256):
        b.add(mk_call(xid=(x << 24) | rng.getrandbits(24), vers=rng.choice([2, 3, 4]), proc=rng.choice([0, 3, 4, 9])), False)
        if thorough or x % 4 == 0 or x in SHADOW or x < 4:
            b.add(mk_call(xid=(x << 24) | rng.getrandbits(24), vers=rng.choice([2, 3, 4]), proc=rng.choice([0, 3, 4, 9])), True)
    for x in (0x00000000, 0x000000ff, 0x0000ff00, 0x00ff0000, 0x01000000, 0xff000000):
        b.add(mk_call(xid=x), False)
        b.add(mk_call(xid=x), True)
    # record marks that are not "one last fragment of the call's length" (out of the monitor's scope)
    for mark in (0x00000028, 0x80000000, 0x80000027, 0xffffffff, 0x47000028, 0x00000000):
        b.add(mk_call(xid=rx(), mark=mark), True)
    yield from b.scripts()

    # F. contacted endpoint: addresses (IPv6 text rules) x ports x procedures
    b = Batch("endpoints")
    for dst in V4_DSTS + V6_DSTS:
        v6 = ":" in dst
        for dport in PORTS + [rng.randrange(65536)]:
            for vers, proc in ((2, 3), (3, 3), (4, 4), (2, 4)):
                if thorough or rng.random() < 0.6:
                    b.add(mk_call(xid=rx(), vers=vers, proc=proc), False, v6=v6, dst=dst, dport=dport)
                if thorough or rng.random() < 0.25:
                    b.add(mk_call(xid=rx(), vers=vers, proc=proc), True, v6=v6, dst=dst, dport=dport)
    for _ in range(40 if not thorough else 400):
        segs = [rng.choice([0, 0, 0, 1, 0xffff, rng.getrandbits(16)]) for _ in range(8)]
        dst = ":".join("%x" % s for s in segs)
        b.add(mk_call(xid=rx(), vers=4, proc=rng.choice([3, 4])), rng.random() < 0.3, v6=True, dst=dst,
              dport=rng.randrange(65536))
    yield from b.scripts()

    # G. RPC version byte, message types, truncations, trailing bytes
    b = Batch("header-fields")
    for rv in list(range(0, 256, 17)) + [1, 2, 3, 255, 256, 0x0100, 0x02000000]:
        b.add(mk_call(xid=rx(), rpcvers=rv), False)
        b.add(mk_call(xid=rx(), rpcvers=rv, vers=3), True)
    for mt in (1, 2, 255, 256, 0x01000000):
        b.add(mk_call(xid=rx(), mtype=mt), False)
        b.add(mk_call(xid=rx(), mtype=mt), True)
    full = call(xid=0xa1b2c3d4, cred=b"abcde", verf=b"xy", vers=3, proc=3)
    for n in range(len(full)):
        b.udp.append(net.frame_udp(gens.PEER4, gens.SELF4, 2000 + n, 111, full[:n]))
    for n in (1, 2, 3, 4, 5, 100):
        b.add(mk_call(xid=rx(), body=b"Z" * n, vers=4, proc=3), False)
        b.add(mk_call(xid=rx(), body=b"Z" * n, vers=4, proc=3), True)
    yield from b.scripts()

    # H. several messages on one flow (reset after a complete message, fix ab1cb4b)
    c1, c2 = call(xid=0x81000001, vers=2, proc=3, tcp=True), call(xid=0x81000002, vers=4, proc=4, cred=b"abc", tcp=True)
    reply_msg = call(xid=0x81000003, mtype=1, tcp=True)
    nl = lambda m, top=0: struct.pack("!I", (top << 24) | (len(m) - 4)) + m[4:]      # record mark without the last-fragment bit
    flows = [[c1, c2], [c1 + c2], [c1, b"garbage that is not a call at all........"], [c1, c2[:20], c2[20:]],
             [c1[:30], c1[30:], c2], [c1, reply_msg, c2], [c1 + b"xx", c2], [c1, b"", c2],
             [c1, nl(c2), b"more bytes", c1, reply_msg], [nl(c1, 0x40), b"x", c2, reply_msg], [c1, nl(c2), nl(c1), c2]]
    fr = []
    for i, segs in enumerate(flows):
        fr += gens.handshake(KEY, gens.PEER4, gens.SELF4, 5000 + i, 111, segs)
        fr += gens.handshake(KEY, gens.PEER6, gens.SELF6, 5000 + i, 65535, segs)
    yield Script(Cfg(key=KEY), fr, "multi-message-flows")

    # J. every wildcard position of the two signatures x byte values (identification interacts with C10)
    b = Batch("wildcard-sweep")
    base = call(xid=0xa1b2c3d4, vers=3, proc=3)
    for pos in (0, 1, 2, 3, 11, 15, 16, 17, 18, 19, 23):
        for v in range(256):
            q = bytearray(base)
            q[pos] = v
            c = mk_call(xid=struct.unpack("!I", q[0:4])[0], rpcvers=struct.unpack("!I", q[8:12])[0],
                        prog=struct.unpack("!I", q[12:16])[0], vers=struct.unpack("!I", q[16:20])[0],
                        proc=struct.unpack("!I", q[20:24])[0])
            b.add(c, False)
    vals = range(256) if thorough else sorted(set(list(range(0, 256, 8)) + SHADOW + [1, 2, 0x7f, 0x80, 0xfe, 0xff]))
    for pos in (4, 5, 6, 7, 15, 19, 20, 21, 22, 23, 27):             # offsets in the TCP payload (after the mark)
        for v in vals:
            q = bytearray(base)
            q[pos - 4] = v
            c = mk_call(xid=struct.unpack("!I", q[0:4])[0], rpcvers=struct.unpack("!I", q[8:12])[0],
                        prog=struct.unpack("!I", q[12:16])[0], vers=struct.unpack("!I", q[16:20])[0],
                        proc=struct.unpack("!I", q[20:24])[0])
            b.add(c, True, v6=v % 2 == 0)
    for pos in (0, 1, 2, 3):                                          # record-mark bytes (mostly out of scope)
        for v in vals:
            m = bytearray(struct.pack("!I", 0x80000000 | len(base)))
            m[pos] = v
            b.add(mk_call(mark=struct.unpack("!I", m)[0], vers=3), True)
    yield from b.scripts()

    # I. configurations: self-IP list present, logging on (warn! arguments are evaluated)
    for cfg in (Cfg(self_ips=[gens.SELF4, gens.SELF6], key=KEY), Cfg(key=KEY, logger="console", level=1),
                Cfg(key=KEY, logger="logfmt", level=4)):
        b = Batch("configs", cfg)
        for vers, proc in ((2, 3), (3, 3), (4, 4), (2, 4), (104316, 0), (3, 0), (3, 77)):
            for prog in (100000, 100021):
                b.add(mk_call(xid=rx(), prog=prog, vers=vers, proc=proc), False, v6=rng.random() < 0.5)
                b.add(mk_call(xid=rx(), prog=prog, vers=vers, proc=proc), True, v6=rng.random() < 0.5)
        yield from b.scripts()


def nontrivial(script):
    return any(f in ORACLE and in_scope(ORACLE[f][0]) for f in script.frames)


def app_payload(o):
    if o.kind != "R":
        return (o.kind,)
    p = net.parse_frame(o.reply)
    if p is None or p.proto not in (6, 17):
        return ("R", "other")
    return ("R", p.proto, bytes(p.app))


def project(script, i, o):
    """What C16 determines: the application payload of the reply."""
    return app_payload(o)


def history_monitor(script, outs):
    """Independent Python oracle on the implementation's output."""
    msgs = []
    for i, (f, o) in enumerate(zip(script.frames, outs)):
        if f not in ORACLE:
            continue
        c, dst, dport, tcp = ORACLE[f]
        if not in_scope(c):
            continue
        a = app_payload(o)
        answered = a[0] == "R" and len(a) == 3 and len(a[2]) > 0
        if shadowed(c, tcp):
            continue                      # known class: judged by the strict extracted monitor only
        if not answered:
            msgs.append((i, "in-scope call not answered: %s" % (a,)))
            continue
        m = check_reply(c, dst, dport, tcp, a[2])
        if m:
            msgs.append((i, "python oracle: " + m))
    return msgs


_CLS = {}


def frame_in_class(cfg, frame):
    key = (cfg.model_line(), frame)
    if key not in _CLS:
        out = runner._run_proc([MODEL_RUN, build.ENVFILE, ""], cfg.model_line() + "\nCLS16 " + frame.hex() + "\n")
        _CLS[key] = any(l.strip() == "K 1" for l in out.split("\n"))
    return _CLS[key]


def known_class(issue):
    """A failure of a strict monitor on a frame that the extracted class predicate puts into rpc_shadowed."""
    if issue.get("kind") == "monitor" and issue.get("monitor") in STRICT:
        s = issue["script"]
        if frame_in_class(s.cfg, s.frames[issue["frame"]]):
            return "rpc_shadowed"
    return None


def neighbourhood(script, rng):
    yield script
