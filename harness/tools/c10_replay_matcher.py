from c10_product import *
import subprocess, random
DRV='/verif/.cache/target/release/masscanned'
vis,dis,cuts=explore(set(),False)
qs=[]
for st,acc in vis.items():
    for b in range(256):
        qs.append((acc+(b,),0))
    qs.append((acc,1))
inp="".join("M 0 %d %s\n"%(e,bytes(s).hex()) for s,e in qs)
import os
ENV=dict(os.environ,MASSCANNED_VERIF="1")
out=subprocess.run([DRV],input=inp,stdout=subprocess.PIPE,stderr=subprocess.DEVNULL,text=True,env=ENV).stdout
res=[l for l in out.split("\n") if l.startswith("@@M")]
assert len(res)==len(qs),(len(res),len(qs))
def m_run(s):
    row=0
    for i,b in enumerate(s):
        r=m_step(row,b)
        if r[0]=='A': return r[1],trans[row][c2s[b]],i+1
        row=r[1]
    return None,row,len(s)
bad=0
for (s,e),l in zip(qs,res):
    _,i,st,off=l.split()
    mid,row,n=m_run(s)
    if mid is None and e:
        mid=m_end(row)
        if mid is not None:
            row=trans[row][c2s[257]]
    exp_id = "none" if mid is None else str(mid)
    if i!=exp_id or (int(st)&0xFFFFFF)!=row or int(off)!=n:
        bad+=1
        if bad<10: print("MISMATCH",bytes(s).hex(),e,l,exp_id,row,n)
print("queries",len(qs),"mismatches",bad)
# segmentation: random cuts
random.seed(1)
segq=[]
strings=[acc for acc in vis.values() if len(acc)>=2]
bad=0
proc=subprocess.Popen([DRV],stdin=subprocess.PIPE,stdout=subprocess.PIPE,stderr=subprocess.DEVNULL,text=True,env=ENV)
def ask(st,data):
    proc.stdin.write("M %d 0 %s\n"%(st,bytes(data).hex())); proc.stdin.flush()
    while True:
        l=proc.stdout.readline()
        if l.startswith("@@M"): 
            _,i,st2,off=l.split(); return i,int(st2),int(off)
n=0
for s in strings:
    s=s+(0x2f,)*3
    for _ in range(3):
        k=random.randint(1,min(4,len(s)-1))
        cuts=sorted(random.sample(range(1,len(s)),k))
        segs=[s[a:b] for a,b in zip([0]+cuts,cuts+[len(s)])]
        whole=ask(0,s)
        st=0;off=0;got=None
        for g in segs:
            i,st,o=ask(st,g)
            if i!="none": got=(i,st,off+o);break
            off+=len(g)
        if got is None: got=("none",st,off)
        n+=1
        if got!=whole:
            bad+=1
            if bad<5: print("SEG MISMATCH",bytes(s).hex(),cuts,whole,got)
print("segmentation trials",n,"mismatches",bad)
