(* Properties/C08.v -- flows do not interfere. *)
From MS Require Import L2 Spec.View Spec.TcpRef Spec.C08 Spec.History Instance Proofs.C08 Proofs.C08Witness.

(* For a TCP frame f: its outcome after history h equals its outcome after h restricted to
   the data segments of f's own flow -- provided no data segment of another flow in h shares
   f's SYN cookie (without that hypothesis the statement is false: C08_refuted_on_collision). *)
Theorem C08_interference_free :
  forall E cfg h clk f v tb1,
    Forall (fun g => bytes_ok g = true) (frames h) ->
    view_tcp cfg f = Some v ->
    collision_free cfg (flow_of v) h = true ->
    run E cfg [] h = Ok tb1 ->
    exists tb2, run E cfg [] (restrict cfg (flow_of v) h) = Ok tb2 /\
                outcome E cfg clk tb1 f = outcome E cfg clk tb2 f.
Proof. exact interference_free_bool. Qed.

(* For every other frame (ARP, ICMP, UDP, anything that is not a TCP segment in scope) the
   outcome does not depend on the table, hence not on any earlier traffic. *)
Theorem C08_non_tcp_history_irrelevant :
  forall E cfg clk f tb1 tb2,
    view_tcp cfg f = None ->
    outcome E cfg clk tb1 f = outcome E cfg clk tb2 f.
Proof. exact non_tcp_history_irrelevant. Qed.

(* Known finding: inside the collision class the property fails (concrete witness, current data). *)
Theorem C08_refuted_on_collision :
  exists cfg h clk f v tb1 tb2,
    view_tcp cfg f = Some v /\
    collision_free cfg (flow_of v) h = false /\
    run the_env cfg [] h = Ok tb1 /\
    run the_env cfg [] (restrict cfg (flow_of v) h) = Ok tb2 /\
    outcome the_env cfg clk tb1 f <> outcome the_env cfg clk tb2 f.
Proof. exact refuted_on_collision. Qed.

Print Assumptions C08_interference_free.
Print Assumptions C08_non_tcp_history_irrelevant.
Print Assumptions C08_refuted_on_collision.
