(* Smb.v -- src/proto/smb.rs (placeholder until the SMB responder is modelled:
   the model answers nothing; C17 is not claimed while this stands). *)
From MS Require Export Bytes Types.

Definition smb1_repl (blob : bytes) (filetime : N) (data : bytes) : option bytes := None.
Definition smb2_repl (blob : bytes) (filetime : N) (data : bytes) : option bytes := None.
