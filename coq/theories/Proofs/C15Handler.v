(* C15Handler.v -- the theorems of C15 about the responder itself: well-formed binding
   requests (any transaction id, any attribute list) are answered with the expected message
   and the reply port moves exactly on change-port; other classes / methods are ignored;
   which malformed payloads are ignored, and which are NOT (with witnesses). *)
From MS Require Import Proofs.Tactics Stun Spec.View Spec.RefStun Spec.AppView Spec.C15
     Proofs.C15Ref Proofs.C15Walk Proofs.C15Model.

Lemma is_binding_fields (m : stun_msg) :
  is_binding_request m = (sm_class m =? 0) && (sm_method m =? 1).
Proof. reflexivity. Qed.

Lemma ci_set_port_dst_same (ci : cinfo) (x : N) : ci_same_except_dport ci (ci_set_port_dst ci x).
Proof. unfold ci_same_except_dport. cbn. repeat split; reflexivity. Qed.
Lemma ci_same_refl (ci : cinfo) : ci_same_except_dport ci ci.
Proof. unfold ci_same_except_dport. repeat split; reflexivity. Qed.

(* ---------- raw payloads that the reference reader accepts ---------- *)
Theorem stun_repl_request (ci : cinfo) (p : bytes) (m : stun_msg) (src : ipaddr) (sport dport : N) :
  u8_at 0 p < 256 -> u8_at 1 p < 256 ->
  dec_stun_req p = Some m -> is_binding_request m = true ->
  ci_ip_src ci = Some src -> ci_port_src ci = Some sport -> ci_port_dst ci = Some dport ->
  stun_repl ci p =
    (if change_port_requested m then ci_set_port_dst ci ((dport + 1) mod 65536) else ci,
     Some (stun_response (sm_tid m) src sport)).
Proof.
  intros H0 H1 Hdec Hbind Hsrc Hsp Hdp.
  destruct (dec_req_inv p m Hdec) as (Hdiag & Hcls & Hmeth & Htid & Hattrs & _).
  rewrite (stun_repl_by_diag ci p H0 H1), Hdiag. cbn [tlv_tolerated andb].
  rewrite is_binding_fields, Hcls, Hmeth in Hbind. rewrite Hbind.
  unfold model_answer. rewrite Hsrc, Hsp, Hdp, <- Hattrs, <- Htid. reflexivity.
Qed.

Theorem stun_repl_other (ci : cinfo) (p : bytes) (m : stun_msg) :
  u8_at 0 p < 256 -> u8_at 1 p < 256 ->
  dec_stun_req p = Some m -> is_binding_request m = false -> stun_repl ci p = (ci, None).
Proof.
  intros H0 H1 Hdec Hbind.
  destruct (dec_req_inv p m Hdec) as (Hdiag & Hcls & Hmeth & _).
  rewrite (stun_repl_by_diag ci p H0 H1), Hdiag. cbn [tlv_tolerated andb].
  rewrite is_binding_fields, Hcls, Hmeth in Hbind. rewrite Hbind. reflexivity.
Qed.

(* ---------- structured requests ---------- *)
Lemma ser_stun_head (m : stun_msg) (tail : bytes) :
  u8_at 0 (ser_stun m ++ tail) < 256 /\ u8_at 1 (ser_stun m ++ tail) < 256.
Proof. unfold ser_stun, be16, u8_at. cbn [app nth]. split; lia. Qed.

Theorem handler_request (ci : cinfo) (m : stun_msg) (tail : bytes) (src : ipaddr) (sport dport : N) :
  stun_wf m = true -> is_binding_request m = true ->
  ci_ip_src ci = Some src -> ci_port_src ci = Some sport -> ci_port_dst ci = Some dport ->
  ip_ok src = true -> sport < 65536 ->
  exists ci' r,
    stun_repl ci (ser_stun m ++ tail) = (ci', Some r) /\
    dec_stun_resp r = Some (expected_response (sm_tid m) src sport) /\
    dec_mapped (enc_mapped (ip_family src) sport (ip_octets src)) = Some (ip_family src, sport, ip_octets src) /\
    u16_at 2 r + 20 = lenN r /\
    ci_port_dst ci' = Some (if change_port_requested m then (dport + 1) mod 65536 else dport) /\
    ci_same_except_dport ci ci'.
Proof.
  intros Hwf Hbind Hsrc Hsp Hdp Hip Hs.
  destruct (stun_wf_fields m Hwf) as (_ & _ & Htl & Htb & _ & _).
  destruct (ser_stun_head m tail) as [H0 H1].
  pose proof (stun_repl_request ci _ m src sport dport H0 H1 (dec_stun_req_ser m tail Hwf) Hbind Hsrc Hsp Hdp) as Hr.
  eexists _, _. split; [exact Hr|].
  split; [apply stun_response_decodes; assumption|].
  split; [apply dec_mapped_enc; assumption|].
  split; [apply stun_response_length_field; assumption|].
  destruct (change_port_requested m).
  - split; [reflexivity|apply ci_set_port_dst_same].
  - split; [exact Hdp|apply ci_same_refl].
Qed.

Theorem other_class_method_silent (ci : cinfo) (m : stun_msg) (tail : bytes) :
  stun_wf m = true -> is_binding_request m = false ->
  stun_repl ci (ser_stun m ++ tail) = (ci, None).
Proof.
  intros Hwf Hbind. destruct (ser_stun_head m tail) as [H0 H1].
  exact (stun_repl_other ci _ m H0 H1 (dec_stun_req_ser m tail Hwf) Hbind).
Qed.

(* ---------- malformed payloads ---------- *)
(* the malformations the responder detects ... *)
Definition diag_detected (d : stun_diag) : bool :=
  match d with
  | DShort | DTopBits | DLength | DAttrs TlvOverrun | DAttrs TlvBadValue => true
  | DAttrs _ => false
  end.
(* ... and exactly when it answers *)
Definition diag_answered (p : bytes) : bool :=
  match stun_diag_of p with
  | DAttrs st => tlv_tolerated st && (type_class (u16_at 0 p) =? 0) && (type_method (u16_at 0 p) =? 1)
  | _ => false
  end.

Theorem malformed_detected_silent (ci : cinfo) (p : bytes) :
  bytes_ok p = true -> diag_detected (stun_diag_of p) = true -> stun_repl ci p = (ci, None).
Proof.
  intros Hok Hd. rewrite (stun_repl_by_diag ci p (u8_at_lt 0 p Hok) (u8_at_lt 1 p Hok)).
  destruct (stun_diag_of p) as [| | |st]; try reflexivity.
  destruct st; try discriminate; reflexivity.
Qed.

Theorem answered_iff (ci : cinfo) (p : bytes) (src : ipaddr) (sport dport : N) :
  bytes_ok p = true ->
  ci_ip_src ci = Some src -> ci_port_src ci = Some sport -> ci_port_dst ci = Some dport ->
  (if diag_answered p
   then exists ci', stun_repl ci p = (ci', Some (stun_response (slice 4 16 p) src sport))
   else stun_repl ci p = (ci, None)).
Proof.
  intros Hok Hsrc Hsp Hdp.
  rewrite (stun_repl_by_diag ci p (u8_at_lt 0 p Hok) (u8_at_lt 1 p Hok)). unfold diag_answered.
  destruct (stun_diag_of p) as [| | |st]; try reflexivity.
  destruct (tlv_tolerated st && _ && _); [|reflexivity].
  unfold model_answer. rewrite Hsrc, Hsp, Hdp. eexists. reflexivity.
Qed.

(* the reference reader fails exactly on the diagnoses other than [DAttrs TlvDone] *)
Lemma dec_req_none_iff (p : bytes) : dec_stun_req p = None <-> stun_diag_of p <> DAttrs TlvDone.
Proof.
  rewrite dec_req_by_diag. destruct (stun_diag_of p) as [| | |st]; try (split; [discriminate|reflexivity]).
  destruct st; split; try discriminate; try reflexivity; intros H; exfalso; apply H; reflexivity.
Qed.

(* what is proved of "malformed payloads are ignored": every malformation except the three
   tolerated ones *)
Theorem malformed_silent_partial (ci : cinfo) (p : bytes) :
  bytes_ok p = true -> dec_stun_req p = None ->
  stun_diag_of p <> DAttrs TlvStray -> stun_diag_of p <> DAttrs TlvHeaderOnly ->
  stun_diag_of p <> DAttrs TlvUnpadded ->
  stun_repl ci p = (ci, None).
Proof.
  intros Hok Hdec N1 N2 N3. apply malformed_detected_silent; [exact Hok|].
  apply dec_req_none_iff in Hdec.
  destruct (stun_diag_of p) as [| | |st]; try reflexivity. destruct st; try reflexivity; congruence.
Qed.

(* truncation: every proper prefix of a serialised message is ignored *)
Lemma firstn_short_diag (m : stun_msg) (n : nat) :
  stun_wf m = true -> (n < length (ser_stun m))%nat ->
  diag_detected (stun_diag_of (firstn n (ser_stun m))) = true.
Proof.
  intros Hwf Hn. destruct (stun_wf_fields m Hwf) as (Hc & Hm & Htid & _ & _ & Hlen).
  destruct (stun_type_roundtrip _ _ Hc Hm) as (_ & _ & Hty).
  unfold stun_diag_of.
  assert (length (firstn n (ser_stun m)) = n) as Hl by (rewrite firstn_length; lia).
  rewrite Hl. destruct (n <? 20)%nat eqn:H20; [reflexivity|].
  assert (length (ser_stun m) = (20 + length (ser_attrs (sm_attrs m)))%nat) as Hsl.
  { unfold ser_stun. rewrite !app_length. unfold be16. cbn [length]. lia. }
  assert (forall i, (i < 4)%nat -> nth i (firstn n (ser_stun m)) 0 = nth i (ser_stun m) 0) as Hnth.
  { intros i Hi. apply nth_firstn_lt'. lia. }
  assert (u16_at 0 (firstn n (ser_stun m)) = u16_at 0 (ser_stun m)) as ->.
  { unfold u16_at, u8_at. rewrite !Hnth by lia. reflexivity. }
  assert (u16_at 2 (firstn n (ser_stun m)) = u16_at 2 (ser_stun m)) as ->.
  { unfold u16_at, u8_at. rewrite !Hnth by lia. reflexivity. }
  assert (u16_at 0 (ser_stun m) = stun_type (sm_class m) (sm_method m)) as ->.
  { unfold ser_stun. apply u16_be16_0. lia. }
  assert (u16_at 2 (ser_stun m) = lenN (ser_attrs (sm_attrs m))) as ->.
  { unfold ser_stun. unfold be16 at 1. cbn [app]. apply u16_be16_2. exact Hlen. }
  assert ((16384 <=? stun_type (sm_class m) (sm_method m)) = false) as -> by lia.
  rewrite to_nat_lenN.
  assert ((n <? 20 + length (ser_attrs (sm_attrs m)))%nat = true) as -> by lia.
  reflexivity.
Qed.

Theorem truncated_silent (ci : cinfo) (m : stun_msg) (n : nat) :
  stun_wf m = true -> bytes_ok (ser_stun m) = true -> (n < length (ser_stun m))%nat ->
  stun_repl ci (firstn n (ser_stun m)) = (ci, None).
Proof.
  intros Hwf Hok Hn. apply malformed_detected_silent; [apply bytes_ok_firstn, Hok|].
  apply firstn_short_diag; assumption.
Qed.
