"""C14 -- DNS: IN/A queries get a faithful, parseable answer with the queried address."""
import struct
import net, gens, runner, sigs
from common import *
from runner import Script, Cfg

ID = "C14"
THEOREMS = ["C14_ref_roundtrip", "C14_ref_sound", "C14_ref_truncated", "C14_parser_correct", "C14_parser_correct_msg",
            "C14_parser_simulation", "C14_answer", "C14_answer_bytes", "C14_answer_flags", "C14_not_in_a_silent",
            "C14_not_in_a_silent_msg", "C14_truncated_silent", "C14_truncated_silent_msg", "C14_truncated_silent_any",
            "C14_response_silent", "C14_proto_udp_monitor", "C14_proto_udp_monitor_any", "C14_proto_udp_structured",
            "C14_proto_udp_not_in_a_silent", "C14_proto_udp_truncated_silent", "C14_frame_udp", "C14_examples",
            "C14_examples_negative", "C14_monitor_sensitive", "C14_examples_frames", "Current.C14_ref_monitor_is_table_monitor", "Current.C14_current_frame_udp_ref", "Current.C14_current_frame_udp_ref_strict", "Current.C14_ref_examples", "Env.the_env_ok"]
MONITORS = ["C14udp", "C14udp_ref"]
RULE = ("DNS messages built by an independent Python encoder and sent as UDP datagrams: ids with every high byte 0..255 "
        "and the values that begin like another protocol's signature; flag words (all opcodes x RD x every other bit); "
        "0..40 questions (thorough: up to 300); label layouts (lengths 1..63, arbitrary bytes incl. 0x00, '.', 0xC0; "
        "names up to the 255-octet limit and one beyond; the root name); destination addresses incl. 0.0.0.0 and "
        "255.255.255.255; questions that are not IN/A at every position (types 0,2,5,12,15,16,28,255,256,65535, "
        "classes 0,2,3,4,254,255); every truncation of sample queries; QR=1; records in the AN/NS/AR sections, EDNS OPT; "
        "trailing bytes; compression pointers; the same over IPv6; polyglots that complete a signature. Compared with "
        "the model (application payload of the reply); judged on the implementation's output by the extracted monitor "
        "ok_C14_udp and by an independent Python DNS reader / signature reference (harness/sigs.py). non-trivial = the "
        "script carries a query of the positive clause")
TRUSTED = ["Coq 8.16.1 kernel + vm_compute", "extraction (ExtrOcamlBasic) + ocaml/model_run.ml", "harness/*.py",
           "Rust hook verif_driver.rs", "pnet accessor semantics as modelled"]
ASSUMPTIONS = ["'not itself completing another protocol's signature' is evaluated twice: by ok_C14_udp on the compiled signature "
               "table of the implementation (udp_id) and by ok_C14_udp_ref on the published signature list (ref_udp), where "
               "datagrams of C10's refined known class are excluded (none of them is an in-scope DNS query that the "
               "published list leaves unidentified, except the 23/27-byte RPC prefixes of the K0_end family); the Python "
               "oracle uses the published list as well"]

KEY = (0x14, 0x41)


# ---------------- independent encoder / strict decoder ----------------
def name_bytes(labels):
    return b"".join(bytes([len(l)]) + l for l in labels) + b"\0"


def query(qid=0x1337, flags=0x0100, questions=((( b"www", b"example", b"com"), 1, 1),), an=0, ns=0, ar=0, tail=b"", qd=None):
    m = struct.pack("!HHHHHH", qid, flags, len(questions) if qd is None else qd, an, ns, ar)
    for labels, t, c in questions:
        m += (labels if isinstance(labels, bytes) else name_bytes(labels)) + struct.pack("!HH", t, c)
    return m + tail


class Short(Exception):
    pass


def rd_name(b, i):
    """-> (raw name bytes, next index); only plain labels (length octet < 64)"""
    j, total = i, 0
    while True:
        if j >= len(b):
            raise Short()
        n = b[j]
        if n == 0:
            j += 1
            break
        if n >= 64:
            raise ValueError("label type / pointer")
        if j + 1 + n > len(b):
            raise Short()
        j += 1 + n
    if j - i > 255:
        raise ValueError("name too long")
    return b[i:j], j


def parse_dns(b):
    """strict complete reader -> dict; raises Short / ValueError"""
    if len(b) < 12:
        raise Short()
    qid, flags, qd, an, ns, ar = struct.unpack("!HHHHHH", b[:12])
    i = 12
    qs, rrs = [], []
    for _ in range(qd):
        n, i = rd_name(b, i)
        if i + 4 > len(b):
            raise Short()
        t, c = struct.unpack("!HH", b[i:i + 4])
        i += 4
        qs.append((n, t, c))
    for _ in range(an + ns + ar):
        n, i = rd_name(b, i)
        if i + 10 > len(b):
            raise Short()
        t, c, ttl, rdl = struct.unpack("!HHIH", b[i:i + 10])
        i += 10
        if i + rdl > len(b):
            raise Short()
        rrs.append((n, t, c, ttl, b[i:i + rdl]))
        i += rdl
    if i != len(b):
        raise ValueError("trailing bytes")
    return dict(id=qid, flags=flags, qd=qs, an=rrs[:an], ns=rrs[an:an + ns], ar=rrs[an + ns:], qsec=b[12:12 + sum(len(n) + 4 for n, _, _ in qs)])


def classify(p):
    """what the property says about payload p sent over UDP/IPv4: 'answer' | 'silent' | None (says nothing)"""
    if sigs.ref_udp(p) is not None:
        return None
    try:
        m = parse_dns(p)
    except Short:
        return "silent"                      # a truncated message
    except ValueError:
        return None
    if any(t != 1 or c != 1 for _, t, c in m["qd"]):
        return "silent"                      # a question that is not IN/A
    if m["flags"] & 0x8000 or m["an"] or m["ns"] or m["ar"]:
        return None
    return "answer"


def check_answer(p, dst, app):
    """None if app is the response the property prescribes for query p sent to dst"""
    q = parse_dns(p)
    try:
        a = parse_dns(app)
    except Short:
        return "response is truncated"
    except ValueError as e:
        return "response does not parse completely: %s" % e
    if a["id"] != q["id"]:
        return "id %04x, expected %04x" % (a["id"], q["id"])
    if not a["flags"] & 0x8000:
        return "QR clear"
    if (a["flags"] >> 11) & 15 != (q["flags"] >> 11) & 15:
        return "opcode differs"
    if (a["flags"] >> 8) & 1 != (q["flags"] >> 8) & 1:
        return "RD differs"
    if a["qsec"] != q["qsec"] or app[12:12 + len(q["qsec"])] != p[12:]:
        return "question section not echoed byte for byte"
    if len(a["an"]) != len(q["qd"]) or a["ns"] or a["ar"]:
        return "record counts: %d answers for %d questions, ns %d ar %d" % (len(a["an"]), len(q["qd"]), len(a["ns"]), len(a["ar"]))
    for (qn, _, _), (rn, t, c, ttl, rdata) in zip(q["qd"], a["an"]):
        if rn != qn or t != 1 or c != 1 or rdata != net.ip_bytes(dst):
            return "answer record %r for question %r (expected A %s)" % ((rn, t, c, rdata), qn, dst)
    return None


ORACLE = {}      # frame -> (payload, dst, v6)


class Batch:
    def __init__(self, tag, cfg=None):
        self.tag, self.cfg, self.frames, self.sport = tag, cfg or Cfg(key=KEY), [], 2000

    def add(self, p, dst=None, v6=False, dport=53):
        s, d = gens.addr_pair(v6, None, dst)
        self.sport = (self.sport + 1) % 65536
        f = net.frame_udp(s, d, self.sport, dport, p)
        ORACLE[f] = (p, d, v6)
        self.frames.append(f)
        return f

    def add_cks(self, p, cks, dst=None, v6=False):
        """the same datagram with a chosen UDP checksum field (None: the correct one, sent as 0xffff when it computes
        to zero)"""
        s, d = gens.addr_pair(v6, None, dst)
        sb, db = net.ip_bytes(s), net.ip_bytes(d)
        self.sport = (self.sport + 1) % 65536
        u = net.udp(sb, db, self.sport, 53, p, cks=cks)
        if cks is None and u[6:8] == b"\0\0":
            u = u[:6] + b"\xff\xff" + u[8:]
        f = net.eth(net.MAC_SELF, net.MAC_PEER, 0x0800, net.ipv4(sb, db, 17, u)) if len(sb) == 4 else \
            net.eth(net.MAC_SELF, net.MAC_PEER, 0x86DD, net.ipv6(sb, db, 17, u))
        ORACLE[f] = (p, d, v6)
        self.frames.append(f)
        return f

    def scripts(self, per=150):
        for i in range(0, len(self.frames), per):
            yield Script(self.cfg, self.frames[i:i + per], self.tag)


def corpus():
    b = Batch("corpus:nul-in-label")
    # fixed finding 621c947: a zero byte inside a label ended the name
    b.add(query(questions=(((b"a\0b", b"com"), 1, 1),)))
    b.add(query(questions=(((b"\0",), 1, 1), ((b"\0\0\0", b"x"), 1, 1))))
    # fixed finding 81463dc: responses were answered
    b.add(query(flags=0x8180))
    yield from b.scripts()


def rnd_label(rng, n=None):
    n = n if n is not None else rng.choice([1, 1, 2, 3, 5, 8, 20, 62, 63])
    alphabet = b"abcxyz09-_" + bytes([0, 0, 46, 0xc0, 0xff, 63, 64])
    return bytes(rng.choice(alphabet) for _ in range(n))


def rnd_name(rng):
    k = rng.choice([0, 1, 1, 2, 3, 3, 4, 6])
    return tuple(rnd_label(rng) for _ in range(k))


def generate(tier, rng):
    thorough = tier == "thorough"
    # A. ids: every high byte, and values beginning like a signature
    b = Batch("ids")
    for hi in range(256):
        b.add(query(qid=(hi << 8) | rng.randrange(256), questions=((rnd_name(rng), 1, 1),)))
    for qid in (0x0000, 0x0001, 0xffff, 0x4745, 0x5353, 0x4768, 0x5055, 0x0100):
        b.add(query(qid=qid))
        b.add(query(qid=qid, flags=0x0000))
    yield from b.scripts()
    # B. flag words
    b = Batch("flags")
    for opcode in range(16):
        for rd in (0, 1):
            for other in (0, 0x0400, 0x0200, 0x0080, 0x0040, 0x0020, 0x0010, 0x000f, 0x06ff):
                b.add(query(qid=0x2000 | opcode, flags=(opcode << 11) | (rd << 8) | other, questions=((rnd_name(rng), 1, 1),)))
    for fl in ([rng.getrandbits(15) for _ in range(60)] + [0x8000, 0x8180, 0xffff, 0x8000 | rng.getrandbits(15)]):
        b.add(query(qid=0x2100, flags=fl))
    yield from b.scripts()
    # C. question counts and label layouts
    b = Batch("questions")
    for n in list(range(0, 41)) + ([64, 100, 200, 300] if thorough else [64]):
        b.add(query(qid=0x3000 + n, questions=tuple((rnd_name(rng), 1, 1) for _ in range(n))))
    for ln in range(1, 64):
        b.add(query(qid=0x3100 + ln, questions=(((rnd_label(rng, ln),), 1, 1),)))
        b.add(query(qid=0x3200 + ln, questions=(((b"\0" * ln, b"x"), 1, 1),)))
    # names at the 255-octet limit: 253, 254, 255 (legal), 256 (one beyond)
    for total in (253, 254, 255, 256, 300):
        labels, left = [], total - 1
        while left > 0:
            n = min(63, left - 1)
            if n <= 0:
                break
            labels.append(rnd_label(rng, n))
            left -= n + 1
        b.add(query(qid=0x3300, questions=((tuple(labels), 1, 1),)))
    for _ in range(200 if not thorough else 3000):
        k = rng.choice([1, 1, 2, 3, 5])
        b.add(query(qid=rng.getrandbits(16) | 0x0100, flags=rng.choice([0, 0x0100, 0x0110, 0x2900]),
                    questions=tuple((rnd_name(rng), 1, 1) for _ in range(k))), dst=rng.choice(DSTS))
    yield from b.scripts()
    # D. questions that are not IN/A, at every position
    b = Batch("not-in-a")
    for t in (0, 2, 5, 12, 15, 16, 28, 33, 255, 256, 257, 65535):
        b.add(query(qid=0x4000 + (t & 0xff), questions=(((b"a", b"b"), t, 1),)))
    for c in (0, 2, 3, 4, 254, 255, 256, 257, 65535):
        b.add(query(qid=0x4100 + (c & 0xff), questions=(((b"a", b"b"), 1, c),)))
    for n in (2, 3, 5):
        for pos in range(n):
            qs = [((b"q%d" % i, b"example"), 1, 1) for i in range(n)]
            qs[pos] = (qs[pos][0], rng.choice([28, 16, 255]), rng.choice([1, 1, 3]))
            if qs[pos][1:] == (1, 1):
                qs[pos] = (qs[pos][0], 28, 1)
            b.add(query(qid=0x4200 + pos, questions=tuple(qs)))
    yield from b.scripts()
    # E. truncations
    b = Batch("truncated")
    samples = [query(), query(questions=(((b"a",), 1, 1), ((b"bb", b"c"), 1, 1), ((), 1, 1))),
               query(questions=(((b"x\0y", b"\0"), 1, 1),)), query(qid=0x9999, flags=0, questions=())]
    for m in samples:
        for n in range(len(m)):
            b.add(m[:n])
    for qd in (1, 2, 255, 65535):
        b.add(query(qd=qd, questions=()))                              # header announces questions that are absent
        b.add(query(qd=qd + 1 if qd < 65535 else qd, questions=(((b"a",), 1, 1),)))
    yield from b.scripts()
    # F. outside the positive clause: records in other sections, EDNS, trailing bytes, pointers, responses
    b = Batch("outside")
    rr = name_bytes((b"a",)) + struct.pack("!HHIH", 1, 1, 5, 4) + b"\1\2\3\4"
    opt = b"\0" + struct.pack("!HHIH", 41, 4096, 0, 0)
    for an, ns, ar, tail in ((1, 0, 0, rr), (0, 1, 0, rr), (0, 0, 1, rr), (0, 0, 1, opt), (2, 0, 0, rr + rr), (1, 0, 0, rr[:-1]),
                             (1, 0, 0, b""), (0, 0, 0, b"x"), (0, 0, 0, b"\0" * 40)):
        b.add(query(an=an, ns=ns, ar=ar, tail=tail))
    for nm in (b"\xc0\x0c", b"\xc0\x00", b"\x03www\xc0\x0c", b"\x40abc\0", b"\x80\0", b"\xff" + b"a" * 10 + b"\0"):
        b.add(query(questions=((nm, 1, 1),)))
    for fl in (0x8000, 0x8180, 0x8580, 0xffff):
        b.add(query(flags=fl))
        b.add(query(flags=fl, questions=()))
    yield from b.scripts()
    # G. destination addresses and ports; IPv6 transport (outside the property: RDATA is empty)
    b = Batch("destinations")
    for dst in DSTS:
        for dport in (53, 0, 80, 5353, 65535):
            b.add(query(qid=rng.getrandbits(16) | 0x0100, questions=((rnd_name(rng), 1, 1),)), dst=dst, dport=dport)
    for _ in range(20):
        b.add(query(qid=rng.getrandbits(16) | 0x0100, questions=((rnd_name(rng), 1, 1),)), v6=True)
    same = query(qid=0x5151, questions=(((b"cache", b"example"), 1, 1),))
    for dst in DSTS + DSTS[::-1] + [DSTS[0], DSTS[0], DSTS[3]]:      # an identical datagram, another contacted address
        b.add(same, dst=dst)
    yield from b.scripts()
    # H. polyglots: messages that are also (prefixes of) another protocol's signature
    b = Batch("polyglots")
    b.add(query(qid=1, flags=0, questions=(((b"ab",), 1, 1),)))                       # 20 bytes: STUN empty layout
    b.add(query(qid=1, flags=0, questions=(((b"abc",), 1, 1),)))                      # 21 bytes: not a signature
    b.add(query(qid=1, flags=8, questions=(((b"ab",), 1, 1),)))
    b.add(query(qid=0, flags=0x0100, questions=(((b"\xffSMB",), 1, 1),)))
    b.add(query(qid=0x4745, flags=0x5420, questions=tuple(((), 1, 1) for _ in range(40))))
    b.add(query(qid=0x5353, flags=0x482d, questions=()))
    for qid in (0x4700, 0x5000, 0x4800, 0x4400, 0x4300, 0x4f00, 0x5400, 0x5300, 0x0000):   # first bytes of signatures
        b.add(query(qid=qid | 0x41, questions=(((b"abcdefgh", b"ijklmnop"), 1, 1),)))
    yield from b.scripts()
    # I. other configurations
    for cfg in (Cfg(key=KEY, level=3), Cfg(key=KEY, logger="logfmt", level=4), Cfg(key=KEY, level=1)):
        b = Batch("log-levels", cfg)
        for qs in ((((), 1, 1),), (((b"www", b"example", b"com"), 1, 1), ((), 1, 1)), (((b"\xff" * 63,), 1, 1),), (), (((b"\0",), 1, 1),),
                   (((b"a",), 28, 1),)):
            b.add(query(qid=0x7100, questions=qs))
        b.add(query(flags=0x8180))
        b.add(query()[:20])
        yield from b.scripts()
    for cfg in (Cfg(self_ips=[gens.SELF4, gens.SELF6], key=KEY), Cfg(key=KEY, logger="console", level=4)):
        b = Batch("configs", cfg)
        for k in (0, 1, 3):
            b.add(query(qid=0x7000 + k, questions=tuple((rnd_name(rng), 1, 1) for _ in range(k))))
        b.add(query(questions=(((b"a",), 28, 1),)))
        yield from b.scripts()
    # J. UDP checksum fields: the correct one at its zero boundary (transmitted as 0xffff), absent (0), and wrong --
    #    the property answers every IN/A query, whatever the transport checksum says
    b = Batch("udp-checksum-fields")
    for v6 in (False, True):
        for qs in ((((b"www", b"example", b"com"), 1, 1),), (((b"a",), 1, 1), ((b"b",), 1, 1))):
            for dst in ([None, "192.168.100.200"] if not v6 else [None]):
                b.add_cks(query(qid=zero_sum_id(b, qs, dst, v6), questions=qs), None, dst, v6)
                b.add_cks(query(qid=0x6a01, questions=qs), 0, dst, v6)
                b.add_cks(query(qid=0x6a02, questions=qs), 0x1234, dst, v6)
                b.add_cks(query(qid=0x6a03, questions=qs), 0xFFFF, dst, v6)
    yield from b.scripts()
    # K. several handled IPv4 addresses: the answer names the address the query was sent to, not any other of them
    for ips in (MANY_SELF + [gens.SELF6], MANY_SELF[::-1], MANY_SELF[2:4]):
        b = Batch("several-self-addresses", Cfg(self_ips=ips, key=KEY))
        for dst in MANY_SELF + ["10.0.0.77"]:
            b.add(query(qid=rng.getrandbits(16) | 0x0100, questions=((rnd_name(rng), 1, 1), ((b"x",), 1, 1))), dst=dst)
        yield from b.scripts()


def zero_sum_id(batch, questions, dst=None, v6=False):
    """the id for which the correct UDP checksum of the query batch.add_cks will build next computes to zero (sent as
    0xffff): one id in 65536 for given addresses, ports and name"""
    s, d = gens.addr_pair(v6, None, dst)
    sb, db = net.ip_bytes(s), net.ip_bytes(d)
    u = net.udp(sb, db, (batch.sport + 1) % 65536, 53, query(qid=0, questions=questions))
    c = struct.unpack("!H", u[6:8])[0]          # checksum with id 0 = ~S; with id x it is ~(S + x): zero when S + x = 0xffff
    return c if c else 0xFFFF


DSTS = ["10.0.0.1", "0.0.0.0", "255.255.255.255", "192.168.100.200", "1.2.3.4", "127.0.0.1", "224.0.0.251"]
MANY_SELF = ["10.0.0.1", "10.0.0.2", "10.0.0.3", "192.0.2.7", "203.0.113.250", "172.16.0.1"]


def nontrivial(script):
    return any(f in ORACLE and not ORACLE[f][2] and classify(ORACLE[f][0]) == "answer" for f in script.frames)


def app_payload(o):
    if o.kind != "R":
        return (o.kind,)
    p = net.parse_frame(o.reply)
    if p is None or p.proto not in (6, 17):
        return ("R", "other")
    return ("R", p.proto, bytes(p.app))


def project(script, i, o):
    """What C14 determines of a DNS answer: everything except the TTLs and the header bits AA / TC / RA / Z / RCODE,
    which the property leaves free (they are zeroed before comparing); other payloads are compared whole."""
    a = app_payload(o)
    if a[0] != "R" or len(a) != 3 or a[1] != 17:
        return a
    try:
        m = parse_dns(a[2])
    except (Short, ValueError):
        return a
    if not m["flags"] & 0x8000:
        return a
    rrs = tuple((n, t, c, rd) for n, t, c, ttl, rd in m["an"] + m["ns"] + m["ar"])
    return ("R", 17, "dns", m["id"], m["flags"] & 0xf900, tuple(m["qd"]), len(m["an"]), len(m["ns"]), len(m["ar"]), rrs)


def history_monitor(script, outs):
    """Independent Python oracle on the implementation's output."""
    msgs = []
    for i, (f, o) in enumerate(zip(script.frames, outs)):
        if f not in ORACLE:
            continue
        p, dst, v6 = ORACLE[f]
        if v6:
            continue
        if script.cfg.self_ips is not None and net.ip_bytes(dst) not in [net.ip_bytes(a) for a in script.cfg.self_ips]:
            continue            # not addressed to the honeypot (C02): this property has nothing to say
        k = classify(p)
        a = app_payload(o)
        if k == "answer":
            if a[0] != "R" or len(a) != 3 or a[1] != 17:
                msgs.append((i, "python oracle: IN/A query not answered: %r" % (a[:2],)))
                continue
            m = check_answer(p, dst, a[2])
            if m:
                msgs.append((i, "python oracle: " + m))
        elif k == "silent":
            if a[0] == "R":
                msgs.append((i, "python oracle: a truncated / not-IN/A message was answered"))
    return msgs


def neighbourhood(script, rng):
    yield script
