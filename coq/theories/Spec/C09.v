(* Spec/C09.v -- unvalidated traffic allocates no connection state. *)
From MS Require Export Spec.TcpRef Proto.
From Coq Require Import List.

Definition keys (tb : table) : list N := map fst tb.

Fixpoint dedup (l : list N) : list N :=
  match l with
  | [] => []
  | x :: t => if existsb (N.eqb x) t then dedup t else x :: dedup t
  end.

(* expected table size after a history: the number of distinct cookies of the
   validated flows (= the number of validated flows unless two collide, C08) *)
Definition expected_size (cfg : config) (h : list bytes) : nat :=
  length (dedup (ref_keys cfg (ref_run cfg h))).

Definition ok_C09 (cfg : config) (h : list bytes) (tsize : N) : bool :=
  tsize =? N.of_nat (expected_size cfg h).
