(* Proofs/C11.v -- segmentation independence at the level of the TCP application layer. *)
From MS Require Import Proofs.Tactics Proofs.Pending Proto Spec.AppView Spec.C11.

(* ---------- ONC-RPC over TCP ---------- *)
Lemma rpc_parse_app s a b : rpc_parse (rpc_parse s a) b = rpc_parse s (a ++ b).
Proof. unfold rpc_parse. rewrite fold_left_app. reflexivity. Qed.

(* a flow identified as RPC is the fold of rpc_repl_tcp over its segments *)
Fixpoint rpc_outs (ip : ipaddr) (port : N) (r : rpc_st) (segs : list bytes) : list (option bytes) :=
  match segs with
  | [] => []
  | s :: rest => let '(r', o) := rpc_repl_tcp r ip port s in o :: rpc_outs ip port r' rest
  end.

Lemma rpc_flow E clk ci ip port :
  ci_ip_dst ci = Some ip -> ci_port_dst ci = Some port ->
  forall segs st r pe,
    tcp_stream E clk ci {| t_smack := st; t_proto := PROTO_RPC_TCP; t_pstate := Some (PRpc r); t_pending := pe |} segs
    = Ok (rpc_outs ip port r segs).
Proof.
  intros Hip Hport. induction segs as [|s rest IH]; intros st r pe; [reflexivity|].
  cbn [tcp_stream rpc_outs].
  unfold proto_repl_tcp at 1. rewrite tcp_identify_sticky by (cbn [t_proto]; discriminate).
  unfold dispatch. cbn [t_proto].
  change (PROTO_RPC_TCP =? PROTO_HTTP) with false. change (PROTO_RPC_TCP =? PROTO_STUN) with false.
  change (PROTO_RPC_TCP =? PROTO_SSH) with false. change (PROTO_RPC_TCP =? PROTO_GHOST) with false.
  change (PROTO_RPC_TCP =? PROTO_RPC_TCP) with true. cbv iota.
  rewrite Hip, Hport. cbn [t_pstate t_smack t_pending].
  destruct (rpc_repl_tcp r ip port s) as [r' o]. cbn [bind].
  rewrite IH. cbn [bind]. reflexivity.
Qed.

Theorem rpc_stream E clk ci ip port s rest :
  ci_ip_dst ci = Some ip -> ci_port_dst ci = Some port ->
  tcp_first_id E s = Some PROTO_RPC_TCP ->
  tcp_stream E clk ci tcb_new (s :: rest) = Ok (rpc_outs ip port (rpc_new R_FRAG) (s :: rest)).
Proof.
  intros Hip Hport Hid. cbn [tcp_stream rpc_outs].
  rewrite proto_repl_tcp_first.
  unfold tcp_first_id in Hid.
  destruct (search_next (e_proto_tbl E) BASE_STATE s) as [[id st] n]. subst id. cbv zeta. cbn [id_of t_proto t_pstate].
  unfold dispatch.
  change (PROTO_RPC_TCP =? PROTO_HTTP) with false. change (PROTO_RPC_TCP =? PROTO_STUN) with false.
  change (PROTO_RPC_TCP =? PROTO_SSH) with false. change (PROTO_RPC_TCP =? PROTO_GHOST) with false.
  change (PROTO_RPC_TCP =? PROTO_RPC_TCP) with true. cbv iota.
  rewrite Hip, Hport. cbn [t_pstate t_smack t_proto t_pending].
  destruct (rpc_repl_tcp (rpc_new R_FRAG) ip port s) as [r' out]. cbn [bind].
  rewrite (rpc_flow E clk ci ip port Hip Hport). cbn [bind]. reflexivity.
Qed.

(* the reference: what each segment gets is a function of the stream prefix ending with it,
   up to and including the segment that completes the first message; after that the flow
   starts afresh *)
Fixpoint rpc_stream_ref (ip : ipaddr) (port : N) (acc : bytes) (segs : list bytes) : list (option bytes) :=
  match segs with
  | [] => []
  | s :: rest =>
    rpc_expected ip port (acc ++ s) ::
    (if r_state (rpc_parse (rpc_new R_FRAG) (acc ++ s)) =? R_END
     then rpc_outs ip port (rpc_new R_FRAG) rest
     else rpc_stream_ref ip port (acc ++ s) rest)
  end.

Theorem rpc_outs_stream ip port : forall segs acc,
  rpc_outs ip port (rpc_parse (rpc_new R_FRAG) acc) segs = rpc_stream_ref ip port acc segs.
Proof.
  induction segs as [|s rest IH]; intros acc; [reflexivity|].
  cbn [rpc_outs rpc_stream_ref]. unfold rpc_expected, rpc_repl_tcp. rewrite rpc_parse_app.
  destruct (r_state (rpc_parse (rpc_new R_FRAG) (acc ++ s)) =? R_END).
  - destruct (r_mtype _ =? 0); reflexivity.
  - cbn [snd]. rewrite IH. reflexivity.
Qed.

Corollary rpc_stream_segmentation E clk ci ip port s rest :
  ci_ip_dst ci = Some ip -> ci_port_dst ci = Some port ->
  tcp_first_id E s = Some PROTO_RPC_TCP ->
  tcp_stream E clk ci tcb_new (s :: rest) = Ok (rpc_stream_ref ip port [] (s :: rest)).
Proof.
  intros Hip Hport Hid. rewrite (rpc_stream E clk ci ip port s rest Hip Hport Hid).
  f_equal. apply (rpc_outs_stream ip port (s :: rest) []).
Qed.

(* ---------- the identifying segment: any segmentation of the leading bytes ---------- *)
From MS Require Import Smack Spec.C10 Proofs.SmackSeg Proofs.C10Sound Proofs.C10Seg Proofs.PendingBound.

Lemma bind_assoc_cons {A} (X : res (list A)) (pre : list A) (x : A) :
  (do outs <- (do o <- X; Ok (pre ++ o)); Ok (x :: outs)) = (do o <- X; Ok ((x :: pre) ++ o)).
Proof. destruct X; reflexivity. Qed.

Section Join.
  Variables (E : env) (clk : clock) (ci : cinfo).
  Let t := e_proto_tbl E.
  Hypothesis Hok : smack_ok t = true.
  Hypothesis Hsz : sm_rows t <= TWO24.
  Hypothesis H0 : 0 < sm_rows t.
  Hypothesis H1 : 0 < sm_match_limit t.

  (* while the stream completes no signature: bare ACKs, and the control block carries the
     matcher state of the one-shot search and the bytes kept *)
  Lemma tcp_stream_unidentified more : forall pre tc st' n,
    t_proto tc = PROTO_NONE -> plain t (t_smack tc) ->
    search_next t (t_smack tc) (concat pre) = (None, st', n) ->
    tcp_stream E clk ci tc (pre ++ more) =
    do outs <- tcp_stream E clk ci {| t_smack := st'; t_proto := PROTO_NONE; t_pstate := t_pstate tc;
                                       t_pending := pending_after (t_pending tc) pre |} more;
    Ok (quiet (length pre) ++ outs).
  Proof.
    unfold quiet.
    induction pre as [|a r IH]; intros tc st' n Hp Hpl H; cbn [concat app length repeat pending_after] in *.
    - destruct Hpl as [Hr Hl]. rewrite search_next_row in H by lia. cbn [inner_match] in H. cbv zeta in H.
      rewrite (sm_count_lo t _ Hok Hr Hl) in H. change (0 =? 0) with true in H. cbv iota in H.
      injection H as <- _. destruct tc as [s p ps pe]. cbn [t_smack t_proto t_pstate t_pending] in *. subst p.
      destruct (tcp_stream _ _ _ _ more); reflexivity.
    - rewrite (search_next_split t Hok Hsz _ a (concat r) Hpl) in H.
      destruct (search_next t (t_smack tc) a) as [[[i|] st1] n1] eqn:Ha; [discriminate|].
      fold t in Ha. cbn [tcp_stream].
      rewrite (proto_repl_tcp_unidentified E clk ci tc a st1 n1 Hp Ha). cbn [bind].
      destruct (search_none_plain t Hok Hsz _ a st1 n1 Hpl Ha) as [Hpl1 _].
      destruct (search_next t st1 (concat r)) as [[id2 st2] n2] eqn:Hr.
      injection H as -> -> _.
      rewrite (IH {| t_smack := st1; t_proto := PROTO_NONE; t_pstate := t_pstate tc;
                     t_pending := pending_step (t_pending tc) a |} st' n2 eq_refl Hpl1 Hr).
      cbn [t_pstate t_pending]. apply bind_assoc_cons.
  Qed.

  (* the segment that completes a signature starts the handler on the whole stream so far:
     from there on the flow is the flow in which these bytes came in one segment *)
  Theorem stream_join pre d rest i :
    lenN (concat pre) <= PENDING_MAX ->
    tcp_first_id E (concat pre) = None -> tcp_first_id E (concat pre ++ d) = Some i ->
    tcp_stream E clk ci tcb_new (pre ++ d :: rest) =
    do outs <- tcp_stream E clk ci tcb_new ((concat pre ++ d) :: rest);
    Ok (quiet (length pre) ++ outs).
  Proof.
    intros Hlen Hn Hs. unfold tcp_first_id in Hn, Hs. fold t in Hn, Hs.
    assert (Hpl : plain t BASE_STATE) by (split; assumption).
    destruct (search_next t BASE_STATE (concat pre)) as [[id1 st1] n1] eqn:Hs1. subst id1.
    rewrite (tcp_stream_unidentified (d :: rest) pre tcb_new st1 n1 eq_refl Hpl Hs1).
    cbn [tcb_new t_pstate t_pending]. rewrite pending_after_small by (cbn; exact Hlen). cbn [app].
    rewrite (search_next_split t Hok Hsz BASE_STATE (concat pre) d Hpl), Hs1 in Hs.
    destruct (search_none_plain t Hok Hsz _ _ _ _ Hpl Hs1) as [Hpl1 _].
    destruct (search_next t st1 d) as [[id2 st2] n2] eqn:Hd. subst id2.
    assert (Hsa : search_next t BASE_STATE (concat pre ++ d) = (Some i, st2, (length (concat pre) + n2)%nat)).
    { rewrite (search_next_split t Hok Hsz BASE_STATE (concat pre) d Hpl), Hs1, Hd. reflexivity. }
    cbn [tcp_stream].
    rewrite (proto_repl_tcp_identified E clk ci
               {| t_smack := st1; t_proto := PROTO_NONE; t_pstate := None; t_pending := concat pre |}
               d i st2 n2 eq_refl Hd).
    rewrite (proto_repl_tcp_identified E clk ci tcb_new (concat pre ++ d) i st2 _ eq_refl Hsa).
    cbn [tcb_new t_pstate t_pending app]. cbv zeta.
    destruct (dispatch E clk ci i _ (concat pre ++ d)) as [[[c2 t2] o]|s]; cbn [bind]; [|reflexivity].
    destruct (tcp_stream E clk ci _ rest); reflexivity.
  Qed.

  (* a stream that is identified is identified in one of its segments *)
  Lemma ident_decompose i : forall segs acc,
    tcp_first_id E acc = None -> tcp_first_id E (acc ++ concat segs) = Some i ->
    exists pre d rest, segs = pre ++ d :: rest /\
      tcp_first_id E (acc ++ concat pre) = None /\ tcp_first_id E (acc ++ concat pre ++ d) = Some i.
  Proof.
    assert (Hpl : plain t BASE_STATE) by (split; assumption).
    induction segs as [|a r IH]; intros acc Hn Hs; cbn [concat] in Hs.
    - rewrite app_nil_r, Hn in Hs. discriminate.
    - destruct (tcp_first_id E (acc ++ a)) as [j|] eqn:Ha.
      + exists [], a, r. cbn [app concat]. rewrite app_nil_r. split; [reflexivity|]. split; [exact Hn|]. rewrite Ha.
        rewrite app_assoc in Hs. unfold tcp_first_id in Ha, Hs. fold t in Ha, Hs.
        rewrite (search_next_split t Hok Hsz BASE_STATE (acc ++ a) (concat r) Hpl) in Hs.
        destruct (search_next t BASE_STATE (acc ++ a)) as [[id1 st1] n1]. subst id1. cbv beta iota in Hs. exact Hs.
      + rewrite app_assoc in Hs. destruct (IH (acc ++ a) Ha Hs) as (pre & d & rest & -> & Hn' & Hs').
        exists (a :: pre), d, rest. cbn [app concat]. rewrite <- !app_assoc in *. auto.
  Qed.
End Join.

(* ---------- HTTP over TCP ---------- *)
From MS Require Import Spec.EnvOk Spec.C11http Proofs.HttpFold Proofs.HttpParse.

(* a flow identified as HTTP is the fold of http_repl over its segments *)
Fixpoint http_outs (E : env) (clk : clock) (h : http_st) (segs : list bytes) : res (list (option bytes)) :=
  match segs with
  | [] => Ok []
  | d :: rest =>
    do x <- http_repl (e_http_tbl E) (e_http_pre E) (e_http_post E) (clk_date clk) h d;
    do l <- http_outs E clk (fst x) rest;
    Ok (snd x :: l)
  end.

Lemma http_flow E clk ci : forall segs st h pe,
  tcp_stream E clk ci {| t_smack := st; t_proto := PROTO_HTTP; t_pstate := Some (PHttp h); t_pending := pe |} segs
  = http_outs E clk h segs.
Proof.
  induction segs as [|d rest IH]; intros st h pe; [reflexivity|].
  cbn [tcp_stream http_outs].
  unfold proto_repl_tcp at 1. rewrite tcp_identify_sticky by (cbn [t_proto]; discriminate).
  unfold dispatch. cbn [t_proto]. change (PROTO_HTTP =? PROTO_HTTP) with true. cbv iota.
  cbn [t_pstate t_smack t_pending].
  destruct (http_repl _ _ _ _ h d) as [[h' o]|s]; cbn [bind fst snd]; [|reflexivity].
  rewrite IH. destruct (http_outs E clk h' rest); reflexivity.
Qed.

Theorem http_stream E clk ci d rest :
  tcp_first_id E d = Some PROTO_HTTP ->
  tcp_stream E clk ci tcb_new (d :: rest) = http_outs E clk http_new (d :: rest).
Proof.
  intros Hid. cbn [tcp_stream http_outs].
  rewrite proto_repl_tcp_first.
  unfold tcp_first_id in Hid.
  destruct (search_next (e_proto_tbl E) BASE_STATE d) as [[id st] n]. subst id. cbv zeta. cbn [id_of t_proto t_pstate].
  unfold dispatch. change (PROTO_HTTP =? PROTO_HTTP) with true. cbv iota.
  cbn [t_pstate t_smack t_proto t_pending].
  destruct (http_repl _ _ _ _ http_new d) as [[h' o]|s]; cbn [bind fst snd]; [|reflexivity].
  rewrite (http_flow E clk ci). destruct (http_outs E clk h' rest); reflexivity.
Qed.

Definition http_resp_of (E : env) (clk : clock) : bytes :=
  http_response (e_http_pre E) (e_http_post E) (clk_date clk).

Section HttpStream.
  Variable E : env.
  Variable clk : clock.
  Hypothesis Hok : smack_ok (e_http_tbl E) = true.
  Hypothesis Htbl : http_tbl_ok (e_http_tbl E) = true.
  Let tbl := e_http_tbl E.

  Lemma bytes_ok_concat_cons (d : bytes) (rest : list bytes) :
    bytes_ok (concat (d :: rest)) = true -> bytes_ok d = true /\ bytes_ok (concat rest) = true.
  Proof. cbn [concat]. rewrite bytes_ok_app. intros H. apply andb_true_iff in H. exact H. Qed.

  (* the responder never gets stuck on a flow (no panic), whatever the segments *)
  Lemma http_outs_total : forall segs h,
    http_st_ok tbl h -> bytes_ok (concat segs) = true ->
    exists outs, http_outs E clk h segs = Ok outs /\ length outs = length segs.
  Proof.
    induction segs as [|d rest IH]; intros h Hst Hb; [exists []; split; reflexivity|].
    destruct (bytes_ok_concat_cons _ _ Hb) as [Hd Hr].
    destruct (parse_sim_fold tbl Hok Htbl d h Hst Hd) as (s1 & s2 & P & _ & _ & Hs1 & _).
    cbn [http_outs]. unfold http_repl. fold tbl. rewrite P. cbn [bind].
    destruct (h_state s1 =? HTTP_CONTENT); cbn [bind fst snd].
    - destruct (IH http_new (new_st_ok tbl Htbl) Hr) as (outs & -> & Hl). cbn [bind].
      eexists. split; [reflexivity|]. cbn [length]. rewrite Hl. reflexivity.
    - destruct (IH s1 Hs1 Hr) as (outs & -> & Hl). cbn [bind].
      eexists. split; [reflexivity|]. cbn [length]. rewrite Hl. reflexivity.
  Qed.

  Lemma feed_answers_length : forall segs s l, http_feed_answers tbl s segs = Ok l -> length l = length segs.
  Proof.
    induction segs as [|x r IHr]; intros s l F; cbn [http_feed_answers] in F.
    - inversion F. reflexivity.
    - destruct (http_parse tbl s x) as [s'|e]; cbn [bind] in F; [|discriminate].
      destruct (http_feed_answers tbl s' r) as [l'|e] eqn:G; cbn [bind] in F; [|discriminate].
      inversion F. cbn [length]. rewrite (IHr _ _ G). reflexivity.
  Qed.

  (* up to and including the first answered segment, the flow follows the parser alone *)
  Lemma http_outs_feed : forall segs h l,
    http_st_ok tbl h -> bytes_ok (concat segs) = true ->
    http_feed_answers tbl h segs = Ok l ->
    exists outs, http_outs E clk h segs = Ok outs /\ length outs = length l /\
      forall j, (forall i, (i < j)%nat -> nth i l false = false) ->
                nth j outs None = (if nth j l false then Some (http_resp_of E clk) else None).
  Proof.
    induction segs as [|d rest IH]; intros h l Hst Hb Hf.
    - cbn in Hf. inversion Hf; subst. exists []. repeat split; try reflexivity.
      intros j _. destruct j; reflexivity.
    - destruct (bytes_ok_concat_cons _ _ Hb) as [Hd Hr].
      cbn [http_feed_answers] in Hf.
      destruct (http_parse tbl h d) as [s1|e] eqn:P; cbn [bind] in Hf; [|discriminate].
      destruct (http_feed_answers tbl s1 rest) as [l'|e] eqn:F; cbn [bind] in Hf; [|discriminate].
      inversion Hf; subst l. clear Hf.
      destruct (parse_sim_fold tbl Hok Htbl d h Hst Hd) as (s1' & s2 & P' & _ & _ & Hs1 & _).
      rewrite P in P'. inversion P'; subst s1'. clear P'.
      cbn [http_outs]. unfold http_repl. fold tbl. rewrite P. cbn [bind]. unfold http_answers.
      destruct (h_state s1 =? HTTP_CONTENT) eqn:A; cbn [bind fst snd].
      + destruct (http_outs_total rest http_new (new_st_ok tbl Htbl) Hr) as (outs & -> & Hl). cbn [bind].
        eexists. split; [reflexivity|]. split.
        { cbn [length]. rewrite Hl, (feed_answers_length _ _ _ F). reflexivity. }
        intros j Hj. destruct j as [|j]; [reflexivity|].
        exfalso. specialize (Hj 0%nat ltac:(lia)). cbn in Hj. discriminate.
      + destruct (IH s1 l' Hs1 Hr F) as (outs & -> & Hl & Hn). cbn [bind].
        eexists. split; [reflexivity|]. split; [cbn [length]; rewrite Hl; reflexivity|].
        intros j Hj. destruct j as [|j]; [reflexivity|]. cbn [nth].
        apply Hn. intros i Hi. apply (Hj (S i)). lia.
  Qed.

  (* the stream-level statement: which segment carries the (first) reply, and that everything
     before it gets a bare ACK, is a function of the stream prefixes at the segment boundaries *)
  Theorem http_stream_segmentation segs :
    bytes_ok (concat segs) = true ->
    exists l outs,
      Forall2 (fun upto a => http_answers_at tbl http_new upto = Ok a) (prefixes_at [] segs) l /\
      http_outs E clk http_new segs = Ok outs /\ length outs = length l /\
      forall j, (forall i, (i < j)%nat -> nth i l false = false) ->
                nth j outs None = (if nth j l false then Some (http_resp_of E clk) else None).
  Proof.
    intros Hb.
    destruct (feed_answers tbl Hok Htbl segs http_new (new_st_ok tbl Htbl) Hb) as (l & Hf & Hall).
    destruct (http_outs_feed segs http_new l (new_st_ok tbl Htbl) Hb Hf) as (outs & Ho & Hl & Hn).
    exists l, outs. repeat split; assumption.
  Qed.
End HttpStream.

(* ================= any segmentation: the first segment need not hold the signature ================= *)
Lemma proto_tbl_ok_parts E : proto_tbl_ok E = true ->
  smack_ok (e_proto_tbl E) = true /\ sm_rows (e_proto_tbl E) <= TWO24 /\ 0 < sm_rows (e_proto_tbl E) /\
  0 < sm_match_limit (e_proto_tbl E) /\ ident_bound_ok (e_proto_tbl E) SIG_SPAN = true.
Proof.
  unfold proto_tbl_ok. cbv zeta. rewrite !andb_true_iff, N.leb_le, !N.ltb_lt. tauto.
Qed.

Lemma concat_join (pre : list bytes) (d : bytes) (rest : list bytes) :
  concat (pre ++ d :: rest) = concat ((concat pre ++ d) :: rest).
Proof. rewrite concat_app. cbn [concat]. rewrite app_assoc. reflexivity. Qed.

(* an identified stream is identified in one of its segments, within its first SIG_SPAN
   bytes: everything received before is still in the prefix buffer *)
Lemma ident_split E segs i : proto_tbl_ok E = true -> bytes_ok (concat segs) = true ->
  tcp_first_id E (concat segs) = Some i ->
  exists pre d rest, segs = pre ++ d :: rest /\
    tcp_first_id E (concat pre) = None /\ tcp_first_id E (concat pre ++ d) = Some i /\
    (length (concat pre) < SIG_SPAN)%nat.
Proof.
  intros Ht Hb Hs. destruct (proto_tbl_ok_parts E Ht) as (Hok & Hsz & H0 & H1 & Hbd).
  assert (Hnil : tcp_first_id E [] = None).
  { change (tcp_first_id E []) with (tcp_first_id_tbl (e_proto_tbl E) []).
    rewrite (tcp_id_m_run _ Hok Hsz [] H0 H1). reflexivity. }
  destruct (ident_decompose E Hok Hsz H0 H1 i segs [] Hnil Hs) as (pre & d & rest & -> & Hn & Hsd).
  cbn [app] in Hn, Hsd. exists pre, d, rest. repeat split; try assumption.
  apply (ident_within (e_proto_tbl E) SIG_SPAN Hok Hsz H0 H1 Hbd (concat pre) d i); try assumption.
  rewrite concat_app in Hb. cbn [concat] in Hb. rewrite app_assoc, bytes_ok_app in Hb.
  apply andb_true_iff in Hb. exact (proj1 Hb).
Qed.

Lemma span_pending (p : bytes) : (length p < SIG_SPAN)%nat -> lenN p <= PENDING_MAX.
Proof. unfold SIG_SPAN, PENDING_MAX, lenN. lia. Qed.

(* ---------- ONC-RPC ---------- *)
(* no message is complete within its first 36 bytes (fixed-size fields up to the credentials) *)
Lemma rpc_quiet_short p : (length p < 36)%nat -> r_state (rpc_parse (rpc_new R_FRAG) p) <> R_END.
Proof.
  do 36 (destruct p as [|? p]; [intros _; vm_compute; discriminate|]).
  cbn [length]. lia.
Qed.

Lemma rpc_stream_ref_skip ip port d rest : forall pre acc,
  (length (acc ++ concat pre) < 36)%nat ->
  rpc_stream_ref ip port acc (pre ++ d :: rest) =
  quiet (length pre) ++ rpc_stream_ref ip port (acc ++ concat pre) (d :: rest).
Proof.
  unfold quiet. induction pre as [|x pre IH]; intros acc Hl; cbn [concat app length repeat] in *.
  - rewrite app_nil_r. reflexivity.
  - cbn [rpc_stream_ref].
    assert (Hq : r_state (rpc_parse (rpc_new R_FRAG) (acc ++ x)) <> R_END).
    { apply rpc_quiet_short. rewrite !app_length in *. lia. }
    unfold rpc_expected, rpc_repl_tcp.
    destruct (r_state (rpc_parse (rpc_new R_FRAG) (acc ++ x)) =? R_END) eqn:Eq; [apply N.eqb_eq in Eq; contradiction|].
    cbn [snd]. rewrite (IH (acc ++ x)) by (rewrite <- app_assoc; exact Hl). rewrite <- app_assoc. reflexivity.
Qed.

(* every segment, up to and including the one that completes the first message, is answered
   with rpc_expected(stream prefix ending with it), whatever the cuts -- also inside the
   protocol signature *)
Theorem rpc_stream_any E clk ci ip port segs :
  proto_tbl_ok E = true ->
  ci_ip_dst ci = Some ip -> ci_port_dst ci = Some port ->
  bytes_ok (concat segs) = true -> tcp_first_id E (concat segs) = Some PROTO_RPC_TCP ->
  tcp_stream E clk ci tcb_new segs = Ok (rpc_stream_ref ip port [] segs).
Proof.
  intros Ht Hip Hport Hb Hs. destruct (proto_tbl_ok_parts E Ht) as (Hok & Hsz & H0 & H1 & Hbd).
  destruct (ident_split E segs _ Ht Hb Hs) as (pre & d & rest & -> & Hn & Hsd & Hlen).
  rewrite (stream_join E clk ci Hok Hsz H0 H1 pre d rest _ (span_pending _ Hlen) Hn Hsd).
  match goal with |- context [tcp_stream ?a ?b ?c ?e ?f] =>
    replace (tcp_stream a b c e f) with (Ok (rpc_stream_ref ip port [] ((concat pre ++ d) :: rest)))
      by (symmetry; exact (rpc_stream_segmentation E clk ci ip port _ rest Hip Hport Hsd)) end.
  cbn [bind].
  rewrite (rpc_stream_ref_skip ip port d rest pre []) by (cbn [app]; unfold SIG_SPAN in Hlen; lia).
  reflexivity.
Qed.

(* ---------- HTTP ---------- *)
Theorem http_stream_any E clk ci segs :
  proto_tbl_ok E = true ->
  bytes_ok (concat segs) = true -> tcp_first_id E (concat segs) = Some PROTO_HTTP ->
  exists pre d rest, segs = pre ++ d :: rest /\
    tcp_first_id E (concat pre) = None /\ tcp_first_id E (concat pre ++ d) = Some PROTO_HTTP /\
    (length (concat pre) < SIG_SPAN)%nat /\
    tcp_stream E clk ci tcb_new segs =
    do outs <- http_outs E clk http_new ((concat pre ++ d) :: rest); Ok (quiet (length pre) ++ outs).
Proof.
  intros Ht Hb Hs. destruct (proto_tbl_ok_parts E Ht) as (Hok & Hsz & H0 & H1 & Hbd).
  destruct (ident_split E segs _ Ht Hb Hs) as (pre & d & rest & -> & Hn & Hsd & Hlen).
  exists pre, d, rest. repeat split; try assumption.
  rewrite (stream_join E clk ci Hok Hsz H0 H1 pre d rest _ (span_pending _ Hlen) Hn Hsd).
  match goal with |- context [tcp_stream ?a ?b ?c ?e ?f] =>
    replace (tcp_stream a b c e f) with (http_outs E clk http_new ((concat pre ++ d) :: rest))
      by (symmetry; exact (http_stream E clk ci _ rest Hsd)) end.
  reflexivity.
Qed.

Lemma prefixes_at_join acc d rest : prefixes_at [] ((acc ++ d) :: rest) = prefixes_at acc (d :: rest).
Proof. reflexivity. Qed.

(* the stream-level statement for any list of segments: the segments before the one in which
   the signature is completed (within the first SIG_SPAN bytes) get a bare ACK; from that
   segment on, which segment carries the 401 is decided by ONE whole-buffer parse of the
   stream prefix at each segment boundary -- a function of the stream and of the boundaries *)
Theorem http_stream_segmentation_any E clk ci segs :
  proto_tbl_ok E = true -> smack_ok (e_http_tbl E) = true -> http_tbl_ok (e_http_tbl E) = true ->
  bytes_ok (concat segs) = true -> tcp_first_id E (concat segs) = Some PROTO_HTTP ->
  exists pre d rest l outs, segs = pre ++ d :: rest /\
    tcp_first_id E (concat pre) = None /\ tcp_first_id E (concat pre ++ d) = Some PROTO_HTTP /\
    (length (concat pre) < SIG_SPAN)%nat /\
    Forall2 (fun upto a => http_answers_at (e_http_tbl E) http_new upto = Ok a)
            (prefixes_at (concat pre) (d :: rest)) l /\
    tcp_stream E clk ci tcb_new segs = Ok (quiet (length pre) ++ outs) /\ length outs = length l /\
    forall j, (forall i, (i < j)%nat -> nth i l false = false) ->
              nth j outs None = (if nth j l false then Some (http_resp_of E clk) else None).
Proof.
  intros Ht Hhok Hhtbl Hb Hs.
  destruct (http_stream_any E clk ci segs Ht Hb Hs) as (pre & d & rest & -> & Hn & Hsd & Hlen & Hst).
  rewrite concat_join in Hb.
  destruct (http_stream_segmentation E clk Hhok Hhtbl ((concat pre ++ d) :: rest) Hb)
    as (l & outs & Hall & Ho & Hl & Hj).
  exists pre, d, rest, l, outs. rewrite prefixes_at_join in Hall.
  repeat split; try assumption. rewrite Hst, Ho. reflexivity.
Qed.
