"""C06 -- SYN policy mimics Linux; SYN-ACK acks seq+1 with a deterministic cookie."""
import net, gens
from runner import Script, Cfg

ID = "C06"
THEOREMS = ["C06_syn_policy", "C06_syn_leaves_table", "C06_flag_table", "C06_cookie_encoding_injective",
            "C06_syn_gets_synack", "C06_bad_syn_no_synack"]
MONITORS = ["C06"]
NEEDS_RELEASE = False
RULE = ("every one of the 512 TCP flag words with SYN semantics decided by the frame, over IPv4 and IPv6, "
        "sequence numbers {0,1,2^31,2^32-1,random}, fresh table and table holding the probed flow, with and "
        "without payload; a script is non-trivial when it contains at least one SYN-bearing segment; distinct = "
        "distinct (configuration, frame list)")
TRUSTED = ["Coq 8.16.1 kernel + vm_compute", "extraction (ExtrOcamlBasic) + ocaml/model_run.ml",
           "harness/*.py (generators, projection, comparison)", "Rust driver hook src/verif_driver.rs",
           "pnet accessor semantics as modelled in L3.v/L4.v", "SipHash-2-4 model validated against reference vectors"]
ASSUMPTIONS = ["cookie sensitivity to input changes is a statistical property of SipHash and is not proved; "
               "proved: the cookie is SipHash-2-4 of an injective encoding of exactly (src, dst, sport, dport) under the key"]

V4 = ("10.0.0.9", "10.0.0.1")
V6 = ("2001:db8::9", "2001:db8::1")


def syn_frames(addr, sport, dport, seqs, payload=b"", flagset=range(512)):
    return [net.frame_tcp(addr[0], addr[1], sport, dport, seq, 0x1234, fl, payload)
            for fl in flagset for seq in seqs]


def corpus():
    return []


def generate(tier, rng):
    keys = [(0, 0), (0x0123456789abcdef, 0xfedcba9876543210)]
    seq_sets = [[0], [0xFFFFFFFF], [1, 0x80000000]]
    if tier == "thorough":
        seq_sets.append([rng.getrandbits(32) for _ in range(4)])
    for addr in (V4, V6, ("::ffff:10.0.0.9", "::ffff:10.0.0.1"), ("::ffff:10.0.0.9", "2001:db8::1")):
        for key in keys:
            cfg = Cfg(key=key)
            for seqs in seq_sets:
                sport, dport = rng.choice([0, 1, 80, 65535, rng.randrange(65536)]), rng.choice([0, 22, 80, 65535, rng.randrange(65536)])
                # fresh table
                yield Script(cfg, syn_frames(addr, sport, dport, seqs), "fresh")
                # table already holds this very flow (validated by a correct PSH|ACK)
                ck = net.cookie(key, addr[0], addr[1], sport, dport)
                pre = [net.frame_tcp(addr[0], addr[1], sport, dport, 5, 0, 0x02),
                       net.frame_tcp(addr[0], addr[1], sport, dport, 6, (ck + 1) & 0xFFFFFFFF, 0x18, b"xx")]
                yield Script(cfg, pre + syn_frames(addr, sport, dport, seqs, payload=b"GET / HTTP/1.0\r\n\r\n"), "validated+payload")
    # retransmission / single-input changes (cookie determinism measured by the harness as well)
    cfg = Cfg(key=(7, 9))
    fr = []
    for i in range(200 if tier == "quick" else 2000):
        a = rng.choice([V4, V6])
        fr.append(net.frame_tcp(a[0], a[1], rng.randrange(65536), rng.randrange(65536), rng.getrandbits(32), 0, 0x02))
    yield Script(cfg, fr + fr[:20], "random-tuples+retransmit")
    yield Script(Cfg(key=(5, 6)), gens.hostile_requests(rng), "hostile-requests")


def is_syn(frame):
    p = net.parse_frame(frame)
    return p is not None and p.proto == 6 and p.l4 is not None and len(p.l4) >= 20 and (p.flags & 2)


def nontrivial(script):
    return any(is_syn(f) for f in script.frames)


def project(script, i, o):
    """What C06 determines: for SYN-bearing segments, the reply's flags/seq/ack/payload length."""
    if not is_syn(script.frames[i]):
        return None
    if o.kind != "R":
        return (o.kind,)
    p = net.parse_frame(o.reply)
    if p is None or p.proto != 6:
        return ("R", "not-tcp")
    return ("R", p.flags, p.seq, p.ack, len(p.app))


def neighbourhood(script, rng):
    yield script
