(* Proofs/SmackSeg.v -- generic facts about the table-driven matcher
   (Smack.v): structural consequences of [smack_ok], and the behaviour of
   [inner_match] / [search_next] on a concatenation [a ++ b] (segmentation of
   the input).  Self-contained: depends on Smack.v and Tactics.v only. *)
From Coq Require Import Lia.
From MS Require Import Smack Proofs.Tactics.

(* ---------- structural consequences of smack_ok ---------- *)

Lemma smack_ok_parts (t : smack) : smack_ok t = true ->
  N.of_nat (length (sm_trans t)) = sm_rows t /\
  N.of_nat (length (sm_match t)) = sm_rows t /\
  forallb (row_ok t) (sm_trans t) = true /\
  forallb (fun p : nat * list N => let '(i, ids) := p in
                    if N.of_nat i <? sm_match_limit t then (length ids =? 0)%nat
                    else (length ids =? 1)%nat)
          (combine (seq 0 (length (sm_match t))) (sm_match t)) = true.
Proof.
  unfold smack_ok. rewrite !andb_true_iff, !N.eqb_eq. tauto.
Qed.

Lemma sm_next_lt (t : smack) (row col : N) :
  smack_ok t = true -> row < sm_rows t -> sm_next t row col < sm_rows t.
Proof.
  intros Hok Hrow. destruct (smack_ok_parts t Hok) as (Hlen & _ & Hrows & _).
  unfold sm_next.
  assert (Hin : In (nth (N.to_nat row) (sm_trans t) []) (sm_trans t)) by (apply nth_In; lia).
  rewrite forallb_forall in Hrows. specialize (Hrows _ Hin). unfold row_ok in Hrows.
  set (r := nth (N.to_nat row) (sm_trans t) []) in *.
  destruct (Nat.lt_ge_cases (N.to_nat col) (length r)) as [Hc | Hc].
  - rewrite forallb_forall in Hrows. specialize (Hrows _ (nth_In r 0 Hc)). lia.
  - rewrite nth_overflow by exact Hc. lia.
Qed.

Lemma combine_seq_In {A} (l : list A) (d : A) (i : nat) :
  (i < length l)%nat -> In (i, nth i l d) (combine (seq 0 (length l)) l).
Proof.
  intros Hi.
  assert (Hlen : length (combine (seq 0 (length l)) l) = length l)
    by (rewrite combine_length, seq_length; lia).
  assert (H : nth i (combine (seq 0 (length l)) l) (O, d) = (i, nth i l d)).
  { rewrite combine_nth by (rewrite seq_length; reflexivity). rewrite seq_nth by exact Hi. reflexivity. }
  rewrite <- H. apply nth_In. lia.
Qed.

(* rows below the match limit carry no id; rows at or above carry exactly one *)
Lemma sm_ids_cases (t : smack) (row : N) :
  smack_ok t = true -> row < sm_rows t ->
  (row < sm_match_limit t -> sm_ids t row = []) /\
  (sm_match_limit t <= row -> exists id, sm_ids t row = [id]).
Proof.
  intros Hok Hrow. destruct (smack_ok_parts t Hok) as (_ & Hlen & _ & Hm).
  rewrite forallb_forall in Hm.
  assert (Hi : (N.to_nat row < length (sm_match t))%nat) by lia.
  specialize (Hm _ (combine_seq_In (sm_match t) [] (N.to_nat row) Hi)). cbn beta iota in Hm.
  rewrite N2Nat.id in Hm. unfold sm_ids. set (ids := nth (N.to_nat row) (sm_match t) []) in *.
  split; intros Hlim.
  - destruct (row <? sm_match_limit t) eqn:Hb; [|lia].
    destruct ids; [reflexivity | discriminate].
  - destruct (row <? sm_match_limit t) eqn:Hb; [lia|].
    destruct ids as [|x [|y ids]]; try discriminate. eauto.
Qed.

Lemma sm_count_lo (t : smack) (row : N) :
  smack_ok t = true -> row < sm_rows t -> row < sm_match_limit t -> sm_count t row = 0.
Proof.
  intros Hok Hr Hl. unfold sm_count. destruct (sm_ids_cases t row Hok Hr) as [H _].
  rewrite (H Hl). reflexivity.
Qed.
Lemma sm_count_hi (t : smack) (row : N) :
  smack_ok t = true -> row < sm_rows t -> sm_match_limit t <= row -> sm_count t row = 1.
Proof.
  intros Hok Hr Hl. unfold sm_count. destruct (sm_ids_cases t row Hok Hr) as [_ H].
  destruct (H Hl) as (id & ->). reflexivity.
Qed.

(* ---------- inner_match ---------- *)

Lemma inner_match_bound (t : smack) (px : bytes) : forall row c n r,
  inner_match t row px c = (n, r) -> (c <= n <= c + length px)%nat.
Proof.
  induction px as [|b px IH]; intros row c n r H; cbn [inner_match length] in *.
  - inversion H; subst. lia.
  - destruct (sm_match_limit t <=? _) eqn:Hl.
    + inversion H; subst. lia.
    + apply IH in H. lia.
Qed.

Lemma inner_match_row (t : smack) (px : bytes) : forall row c n r,
  smack_ok t = true -> row < sm_rows t ->
  inner_match t row px c = (n, r) -> r < sm_rows t.
Proof.
  induction px as [|b px IH]; intros row c n r Hok Hrow H; cbn [inner_match] in *.
  - inversion H; subst. exact Hrow.
  - pose proof (sm_next_lt t row (sm_sym t (N.to_nat b)) Hok Hrow) as Hn.
    destruct (sm_match_limit t <=? _) eqn:Hl.
    + inversion H; subst. exact Hn.
    + eapply IH; eauto.
Qed.

(* stopped early: the row is a match row; ran through: it is not (for non-empty input) *)
Lemma inner_match_stop (t : smack) (px : bytes) : forall row c n r,
  inner_match t row px c = (n, r) -> (n < c + length px)%nat -> sm_match_limit t <= r.
Proof.
  induction px as [|b px IH]; intros row c n r H Hn; cbn [inner_match length] in *.
  - inversion H; subst. lia.
  - destruct (sm_match_limit t <=? _) eqn:Hl.
    + inversion H; subst. lia.
    + eapply IH; eauto. lia.
Qed.
Lemma inner_match_through (t : smack) (px : bytes) : forall row c n r,
  inner_match t row px c = (n, r) -> n = (c + length px)%nat -> px <> [] -> r < sm_match_limit t.
Proof.
  induction px as [|b px IH]; intros row c n r H Hn Hne; cbn [inner_match length] in *.
  - congruence.
  - destruct (sm_match_limit t <=? _) eqn:Hl.
    + inversion H; subst. lia.
    + destruct px as [|b' px].
      * cbn [inner_match] in H. inversion H; subst. lia.
      * eapply IH; eauto. cbn [length] in *. lia. discriminate.
Qed.

(* segmentation: running over [a ++ b] = running over [a], and, if no match row
   was reached inside [a], continuing over [b] from the row reached *)
Lemma inner_match_app (t : smack) (a b : bytes) : forall row c,
  inner_match t row (a ++ b) c =
  let '(n, r) := inner_match t row a c in
  if (n <? c + length a)%nat then (n, r) else inner_match t r b n.
Proof.
  induction a as [|x a IH]; intros row c; cbn [app inner_match length].
  - replace (c <? c + 0)%nat with false by (symmetry; apply Nat.ltb_ge; lia). reflexivity.
  - destruct (sm_match_limit t <=? _) eqn:Hl.
    + replace (c <? c + S (length a))%nat with true by (symmetry; apply Nat.ltb_lt; lia). reflexivity.
    + rewrite IH. replace (S c + length a)%nat with (c + S (length a))%nat by lia. reflexivity.
Qed.

Lemma inner_match_acc (t : smack) (px : bytes) : forall row c,
  inner_match t row px c =
  let '(n, r) := inner_match t row px 0 in ((c + n)%nat, r).
Proof.
  induction px as [|b px IH]; intros row c; cbn [inner_match].
  - rewrite Nat.add_0_r. reflexivity.
  - destruct (sm_match_limit t <=? _) eqn:Hl.
    + rewrite Nat.add_0_r. reflexivity.
    + rewrite (IH _ (S c)), (IH _ 1%nat). destruct (inner_match t _ px 0) as [n r].
      f_equal. lia.
Qed.

(* ---------- search_next ---------- *)

(* on a state that is a plain row (no pending match count) *)
Lemma search_next_row (t : smack) (st : N) (px : bytes) :
  st < TWO24 ->
  search_next t st px =
  let '(ii, row') := inner_match t st px 0 in
  let mc := sm_count t row' in
  if mc =? 0 then (None, row', ii)
  else (Some (nth (N.to_nat (mc - 1)) (sm_ids t row') 0), row' + (mc - 1) * TWO24, S ii).
Proof.
  intros Hst. unfold search_next.
  rewrite (N.mod_small st TWO24 Hst), (N.div_small st TWO24 Hst).
  change (0 =? 0) with true. cbv iota.
  destruct (inner_match t st px 0) as [ii row']. cbv zeta.
  destruct (sm_count t row' =? 0) eqn:Hc.
  - reflexivity.
  - rewrite Hc. reflexivity.
Qed.

Section WithTable.
  Variable t : smack.
  Hypothesis Hok : smack_ok t = true.
  Hypothesis Hsz : sm_rows t <= TWO24.

  (* the possible outcomes of search_next from a plain row *)
  Lemma search_next_cases (st : N) (px : bytes) :
    st < sm_rows t ->
    forall id st' n, search_next t st px = (id, st', n) ->
    st' < sm_rows t /\
    ((id = None /\ n = length px /\ inner_match t st px 0 = (n, st') /\ sm_count t st' = 0) \/
     (exists i ii, id = Some i /\ n = S ii /\ inner_match t st px 0 = (ii, st') /\
                   sm_match_limit t <= st' /\ sm_ids t st' = [i])).
  Proof.
    intros Hst id st' n H. rewrite search_next_row in H by lia.
    destruct (inner_match t st px 0) as [ii row'] eqn:Him.
    pose proof (inner_match_row t px st 0%nat ii row' Hok Hst Him) as Hrow'.
    pose proof (inner_match_bound t px st 0%nat ii row' Him) as Hb.
    cbv zeta in H.
    destruct (N.lt_ge_cases row' (sm_match_limit t)) as [Hlo | Hhi].
    - rewrite (sm_count_lo t row' Hok Hrow' Hlo) in *. change (0 =? 0) with true in H. cbv iota in H.
      injection H as <- <- <-. split; [exact Hrow'|]. left. repeat split; try reflexivity.
      + destruct (Nat.eq_dec ii (length px)) as [e|ne]; [exact e|].
        assert (Hlt : (ii < 0 + length px)%nat) by lia.
        pose proof (inner_match_stop t px st 0%nat ii row' Him Hlt). lia.
      + apply sm_count_lo; assumption.
    - destruct (sm_ids_cases t row' Hok Hrow') as [_ Hids]. destruct (Hids Hhi) as (i & Hi).
      rewrite (sm_count_hi t row' Hok Hrow' Hhi) in H. change (1 =? 0) with false in H. cbv iota in H.
      rewrite Hi in H. change (N.to_nat (1 - 1)) with O in H. cbn [nth] in H.
      change ((1 - 1) * TWO24) with 0 in H. rewrite N.add_0_r in H.
      injection H as <- <- <-. split; [exact Hrow'|]. right. exists i, ii. repeat split; auto.
  Qed.

  (* no match completes inside [a]: the search over [a ++ b] is the search over
     [b] resumed from the state reached after [a] *)
  Lemma search_next_app_none (st : N) (a b : bytes) (st' : N) (n : nat) :
    st < sm_rows t ->
    search_next t st a = (None, st', n) ->
    n = length a /\ st' < sm_rows t /\
    search_next t st (a ++ b) =
    let '(id2, st2, n2) := search_next t st' b in (id2, st2, (length a + n2)%nat).
  Proof.
    intros Hst H. destruct (search_next_cases st a Hst _ _ _ H) as (Hst' & [(_ & Hn & Him & Hc) | (i & ii & Hid & _)]);
      [|discriminate].
    split; [exact Hn|]. split; [exact Hst'|].
    rewrite (search_next_row t st (a ++ b)) by lia.
    rewrite (search_next_row t st' b) by lia.
    rewrite inner_match_app, Him. subst n.
    replace (length a <? 0 + length a)%nat with false by (symmetry; apply Nat.ltb_ge; lia).
    rewrite (inner_match_acc t b st' (length a)).
    destruct (inner_match t st' b 0) as [n2 r2]. cbv zeta.
    destruct (sm_count t r2 =? 0); [reflexivity|]. rewrite Nat.add_succ_r. reflexivity.
  Qed.

  (* a match completes inside [a]: what follows [a] is irrelevant *)
  Lemma search_next_app_some (st : N) (a b : bytes) (i st' : N) (n : nat) :
    st < sm_rows t ->
    search_next t st a = (Some i, st', n) -> (n <= length a)%nat ->
    search_next t st (a ++ b) = (Some i, st', n).
  Proof.
    intros Hst H Hn. destruct (search_next_cases st a Hst _ _ _ H) as (Hst' & [(Hid & _) | (i' & ii & Hid & Hn' & Him & Hlim & Hids)]);
      [discriminate|].
    rewrite <- H. rewrite (search_next_row t st (a ++ b)), (search_next_row t st a) by lia.
    rewrite inner_match_app, Him.
    replace (ii <? 0 + length a)%nat with true by (symmetry; apply Nat.ltb_lt; lia). reflexivity.
  Qed.

  (* one byte *)
  Lemma search_next_one (st b : N) :
    st < sm_rows t ->
    let row' := sm_next t st (sm_sym t (N.to_nat b)) in
    row' < sm_rows t /\
    ((row' < sm_match_limit t /\ search_next t st [b] = (None, row', 1%nat)) \/
     (sm_match_limit t <= row' /\ exists i, sm_ids t row' = [i] /\ search_next t st [b] = (Some i, row', 1%nat))).
  Proof.
    intros Hst row'. pose proof (sm_next_lt t st (sm_sym t (N.to_nat b)) Hok Hst) as Hr. fold row' in Hr.
    split; [exact Hr|]. rewrite search_next_row by lia. cbn [inner_match]. fold row'.
    destruct (N.lt_ge_cases row' (sm_match_limit t)) as [Hlo | Hhi].
    - left. split; [exact Hlo|].
      replace (sm_match_limit t <=? row') with false by (symmetry; apply N.leb_gt; lia).
      cbv zeta. rewrite (sm_count_lo t row' Hok Hr Hlo). reflexivity.
    - right. split; [exact Hhi|].
      replace (sm_match_limit t <=? row') with true by (symmetry; apply N.leb_le; lia).
      destruct (sm_ids_cases t row' Hok Hr) as [_ Hids]. destruct (Hids Hhi) as (i & Hi).
      exists i. split; [exact Hi|]. cbv zeta. rewrite (sm_count_hi t row' Hok Hr Hhi).
      change (1 =? 0) with false. cbv iota. rewrite Hi.
      change (N.to_nat (1 - 1)) with O. cbn [nth]. change ((1 - 1) * TWO24) with 0. rewrite N.add_0_r.
      reflexivity.
  Qed.

  (* search over [b :: r] in terms of the first transition *)
  Lemma search_next_cons (st b : N) (r : bytes) :
    st < sm_rows t ->
    let row' := sm_next t st (sm_sym t (N.to_nat b)) in
    search_next t st (b :: r) =
    if sm_match_limit t <=? row' then search_next t st [b]
    else let '(id2, st2, n2) := search_next t row' r in (id2, st2, S n2).
  Proof.
    intros Hst row'. pose proof (search_next_one st b Hst) as H0. cbv zeta in H0. fold row' in H0.
    destruct H0 as (Hr & [(Hlo & H1) | (Hhi & i & Hi & H1)]).
    - replace (sm_match_limit t <=? row') with false by (symmetry; apply N.leb_gt; lia).
      destruct (search_next_app_none st [b] r row' 1%nat Hst H1) as (_ & _ & Happ).
      cbn [app length] in Happ. rewrite Happ. destruct (search_next t row' r) as [[id2 st2] n2]. reflexivity.
    - replace (sm_match_limit t <=? row') with true by (symmetry; apply N.leb_le; lia).
      rewrite H1. apply (search_next_app_some st [b] r i row' 1%nat Hst H1). cbn. lia.
  Qed.
End WithTable.
