"""C15 -- STUN: binding requests get a success response reflecting the observed address."""
import struct
import net, gens, runner, sigs
from common import *
from runner import Script, Cfg

ID = "C15"
THEOREMS = ["Later.Later_bound_dispatch", "Later.Later_stun_repl", "Later.Later_stun_stream", "Later.Later_stun_proto",
            "Later.Later_stun_frame", "Later.Later_stun_flow", "Later.Later_stun_example_flow", "Later.Later_stun_example_monitor_refuses",
            "C15_ref_type_roundtrip", "C15_ref_type_fields", "C15_ref_roundtrip", "C15_ref_resp_roundtrip", "C15_ref_sound",
            "C15_handler_request", "C15_handler_request_raw", "C15_response_decodes", "C15_other_class_method_silent",
            "C15_malformed_silent_refuted", "C15_malformed_silent_partial", "C15_truncated_silent", "C15_answered_iff",
            "C15_dispatch_total", "C15_proto_udp_monitor", "C15_proto_tcp_monitor", "C15_frame_udp_monitor",
            "C15_examples", "C15_frame_example", "C15_known_class_witness", "C15_known_class_exact_on_sample",
            "C15_malformed_answered_witnesses", "C15frame.C15_other_handlers_no_stun_response", "C15frame.C15_frame_tcp_gen_is", "C15frame.C15_frame_tcp_first_history_at", "C15frame.C15_frame_tcp_first_state_at", "C15frame.C15_frame_tcp_first", "C15frame.C15_frame_tcp_identified", "C15frame.C15_frame_udp_gen_is", "C15frame.C15_frame_udp_at", "C15frame.C15_udp_without_dns_hypothesis_refuted", "C15frame.C15_frame_tcp_example", "C15frame.C15_frame_tcp_known_class_example", "C15frame.C15_frame_udp_example", "SrcTie.src_stun_constants", "Current.C15_current_published_identified", "Current.C15_magic_outside_C10_class", "Current.C15_end_anchored_identified", "Current.C15_class_mismatch_witnesses", "Current.C15_class_tcp_unidentified", "Current.C15_class_tcp_exact", "Current.C15_class_udp_unidentified", "Current.C15_class_udp_exact", "Current.C15_current_ident", "Current.C15_dns_quiet_short", "Current.C15_current_frame_tcp_first", "Current.C15_current_frame_tcp_first_state", "Current.C15_current_frame_udp", "Current.C15_current_examples", "Env.the_env_ok"]
MONITORS = ["C15udp", "C15tcp", "C15udp_strict", "C15tcp_strict", "C15later"]
STRICT = ("C15udp_strict", "C15tcp_strict")
RULE = ("STUN messages built by an independent Python encoder: all four classes x methods {Binding, 0, 2, 3, 0x800, 0xfff, "
        "random}, random 128-bit transaction ids (with and without the magic cookie), attribute lists of 0..6 TLVs "
        "(known and unknown types, value lengths 0..300 incl. every length mod 4, RFC 5389 padding with arbitrary bytes), "
        "CHANGE-REQUEST flag words (all 8 combinations of the low three bits, several per message), MAPPED-ADDRESS in "
        "requests, malformed lists (stray bytes, header without value, overrun, missing padding, short fixed-layout "
        "values), length-field lies, truncations; as UDP datagrams and as first data segment of a TCP flow, IPv4 and IPv6, "
        "source ports {0, 1, 3478, 65534, 65535, random}, destination ports incl. 65535 (wrap of the change-port shift). "
        "Long requests (length >= 256) reach the responder with a magic cookie today; short ones only through the two "
        "end-anchored layouts (known class stun_shadowed). Compared with the model: application payload and transport "
        "ports of the reply. Judged on the implementation's output by the extracted monitors and by an independent "
        "Python STUN reader. non-trivial = script carries a binding request covered by the published signatures")
TRUSTED = ["Coq 8.16.1 kernel + vm_compute", "extraction (ExtrOcamlBasic) + ocaml/model_run.ml", "harness/*.py",
           "Rust hook verif_driver.rs", "pnet accessor semantics as modelled"]
ASSUMPTIONS = ["identification by the compiled matcher is a hypothesis of the proto-level theorems; published binding requests "
               "that are not identified form the known class stun_shadowed (decided by the extracted predicate c15_class_frame)",
               "TCP: proved at proto::repl level (no frame-level TCP lift); the frame-level TCP monitor is evaluated on the "
               "implementation only"]

KEY = (0x15, 0x51)
MAGIC = bytes.fromhex("2112a442")


# ---------------- independent encoder / decoder ----------------
def stype(cls, method):
    return ((method & 0xf80) << 2) | ((cls & 2) << 7) | ((method & 0x70) << 1) | ((cls & 1) << 4) | (method & 0xf)


def attr(ty, val, pad=True, padbyte=0):
    a = struct.pack("!HH", ty, len(val)) + val
    if pad:
        a += bytes([padbyte]) * ((4 - len(val) % 4) % 4)
    return a


def msg(cls=0, method=1, tid=None, attrs=b"", magic=False, length=None, tail=b""):
    tid = tid if tid is not None else bytes(range(0x10, 0x20))
    if magic:
        tid = MAGIC + tid[4:]
    return struct.pack("!HH", stype(cls, method), len(attrs) if length is None else length) + tid + attrs + tail


def parse(p):
    """-> dict(cls, method, tid, attrs=[(ty, val)], body_len) for a well-formed message (attributes tile the declared
    length, values padded to 4; bytes after 20 + length ignored); None otherwise"""
    if len(p) < 20 or p[0] & 0xc0:
        return None
    ty, ln = struct.unpack("!HH", p[:4])
    if 20 + ln > len(p):
        return None
    cls = ((ty >> 7) & 2) | ((ty >> 4) & 1)
    method = ((ty >> 2) & 0xf80) | ((ty >> 1) & 0x70) | (ty & 0xf)
    body, attrs, i = p[20:20 + ln], [], 0
    while i < len(body):
        if i + 4 > len(body):
            return None
        t, l = struct.unpack("!HH", body[i:i + 4])
        if i + 4 + l > len(body):
            return None
        v = body[i + 4:i + 4 + l]
        if t == 1 and not (l >= 4 and ((v[1] == 1 and l >= 8) or (v[1] == 2 and l >= 20))):
            return None
        if t == 3 and l < 4:
            return None
        attrs.append((t, v))
        i += 4 + l + (4 - l % 4) % 4
        if i > len(body):
            return None
    return dict(cls=cls, method=method, tid=p[4:20], attrs=attrs, ln=ln)


def change_port(m):
    return any(t == 3 and v[3] & 2 for t, v in m["attrs"])


def check_response(m, app, src, sport, v6):
    if len(app) < 20:
        return "response shorter than a STUN header"
    ty, ln = struct.unpack("!HH", app[:4])
    if ty != 0x0101:
        return "message type %04x, expected 0101" % ty
    if ln != len(app) - 20:
        return "length field %d, %d bytes follow" % (ln, len(app) - 20)
    if app[4:20] != m["tid"]:
        return "transaction id not echoed"
    want = struct.pack("!HHBBH", 1, 20 if v6 else 8, 0, 2 if v6 else 1, sport) + net.ip_bytes(src)
    if app[20:] != want:
        return "attributes %s, expected one MAPPED-ADDRESS %s" % (app[20:].hex(), want.hex())
    return None


ORACLE = {}      # request frame -> (payload, src, dst, sport, dport, tcp, v6)
LATER = {}       # later data segment of a flow bound to the STUN responder -> (payload, src, dst, sport, dport, v6)


class Batch:
    def __init__(self, tag, cfg=None):
        self.tag, self.cfg = tag, cfg or Cfg(key=KEY)
        self.udp, self.tcp, self.sport = [], [], 3000

    def add(self, p, tcp=False, v6=False, sport=None, dport=3478, src=None):
        s, d = gens.addr_pair(v6, src)
        if sport is None:
            self.sport += 1
            sport = self.sport
        if tcp:
            fr = gens.handshake(self.cfg.key, s, d, sport, dport, [p])
            self.tcp.append(fr)
            f = fr[-1]
        else:
            f = net.frame_udp(s, d, sport, dport, p)
            self.udp.append(f)
        ORACLE[f] = (p, s, d, sport, dport, tcp, v6)
        return f

    def add_bound(self, later, v6=False, dport=3478):
        """one TCP flow: a long magic-cookie Binding Request (identified, answered: the flow is bound to the STUN
        responder), then the messages of [later], one per segment; each of them reaches the responder whatever its
        first bytes are, so it is judged as a STUN message on its own"""
        s, d = gens.addr_pair(v6)
        self.sport += 1
        first = msg(magic=True, attrs=LONG, tid=bytes([self.sport & 0xff]) * 16)
        fr = gens.handshake(self.cfg.key, s, d, self.sport, dport, [first] + list(later))
        self.tcp.append(fr)
        ORACLE[fr[1]] = (first, s, d, self.sport, dport, True, v6)
        for f, p in zip(fr[2:], later):
            LATER[f] = (p, s, d, self.sport, dport, v6)

    def scripts(self, per=120):
        for i in range(0, len(self.udp), per):
            yield Script(self.cfg, self.udp[i:i + per], self.tag + ":udp")
        for i in range(0, len(self.tcp), per // 2):
            yield Script(self.cfg, [f for fl in self.tcp[i:i + per // 2] for f in fl], self.tag + ":tcp")


LONG = attr(0x8022, b"S" * 252)          # pushes the length field to >= 256: identified through the magic-cookie signature


def shadow_witnesses():
    b = Batch("corpus:stun_shadowed")
    tid = bytes.fromhex("aabbccddeeffffeeddccbbaa")
    b.add(msg(magic=True, tid=MAGIC + tid, attrs=attr(0x8022, b"abcde")))            # 32 bytes, short, with an attribute
    b.add(msg(magic=True, tid=MAGIC + tid, attrs=attr(3, b"\0\0\0\2") + attr(0x8022, b"ab")), v6=True)
    b.add(msg(magic=True, tid=MAGIC + tid), tcp=True)                                 # empty request over TCP
    b.add(msg(magic=True, tid=MAGIC + tid, attrs=attr(3, b"\0\0\0\2")), tcp=True, v6=True)
    return list(b.scripts())


def corpus():
    yield from shadow_witnesses()
    b = Batch("corpus:fixed")
    # 5c1d1a4: other methods / non-zero leading bits answered as Binding on an identified flow
    b.add(msg(method=2, magic=True, attrs=LONG))
    b.add(msg(cls=0, method=0x801, magic=True, attrs=LONG))
    # 656596d: k CHANGE-REQUEST attributes shifted the port by k
    b.add(msg(magic=True, attrs=LONG + attr(3, b"\0\0\0\2") * 3), dport=65534)
    # eaff8f8: padding after odd-length attributes
    b.add(msg(magic=True, attrs=LONG + attr(0x8022, b"abc") + attr(3, b"\0\0\0\2")))
    # 79978bd: malformed attributes panicked
    b.add(msg(magic=True, attrs=LONG + b"\x00\x01\x00\x08\x00\x03"))
    yield from b.scripts()


def rnd_tid(rng):
    return bytes(rng.randrange(256) for _ in range(16))


def rnd_attrs(rng, k=None):
    out = b""
    for _ in range(rng.randrange(0, 5) if k is None else k):
        kind = rng.randrange(6)
        if kind == 0:
            out += attr(3, struct.pack("!I", rng.choice([0, 2, 4, 6, 1, 7, 0xfffffffd, 0xffffffff, 0x80000002])))
        elif kind == 1:
            out += attr(1, bytes([0, 1]) + struct.pack("!H", rng.randrange(65536)) + bytes(4))
        elif kind == 2:
            out += attr(1, bytes([0, 2]) + struct.pack("!H", rng.randrange(65536)) + bytes(16))
        else:
            n = rng.choice([0, 1, 2, 3, 4, 5, 7, 8, 9, 16, 33, 100])
            out += attr(rng.choice([0x0006, 0x0008, 0x0020, 0x8022, 0x8028, 0x0000, 0xffff, 0x0002]),
                        bytes(rng.randrange(256) for _ in range(n)), padbyte=rng.choice([0, 0, 0xff, 0x20]))
    return out


def generate(tier, rng):
    thorough = tier == "thorough"
    n = 400 if thorough else 60
    # A. the two end-anchored layouts (requests without attributes / with one CHANGE-REQUEST), UDP
    b = Batch("layouts")
    for _ in range(n):
        b.add(msg(tid=rnd_tid(rng)), v6=rng.random() < 0.5, sport=rng.choice([0, 1, 3478, 65534, 65535, rng.randrange(65536)]),
              dport=rng.choice([3478, 0, 65535, 65534, rng.randrange(65536)]))
    for flags in range(8):
        for hi in (0, 0x80, 0xff):
            p = msg(tid=rnd_tid(rng), attrs=struct.pack("!HH", 3, 4) + bytes([0, 0, 0]) + bytes([flags | (hi & 0xf8)]))
            b.add(p, v6=flags % 2 == 1, dport=rng.choice([3478, 65535, 0]))
    b.add(msg(magic=True))
    b.add(msg(magic=True, attrs=attr(3, b"\0\0\0\2")), dport=65535)
    for tid in (bytes(16), bytes(8) + b"\x02ab\0\0\1\0\1", b"\0\1" + bytes(14), b"\xff" * 16, b"GET / HTTP/1.1\r\n", b"SSH-2.0-x\r\n\0\0\0\0\0",
                b"\0\0\0\1" + bytes(12), bytes(4) + b"\0\0\0\2\0\1\x86\xa0" + bytes(4)):
        b.add(msg(tid=tid), v6=len(b.udp) % 2 == 1)
        b.add(msg(tid=tid, attrs=attr(3, b"\0\0\0\2")))
    # source addresses whose textual / canonical form differs from their 16 octets
    for src in ("::ffff:198.51.100.7", "::ffff:0.0.0.1", "::1.2.3.4", "::", "::1", "64:ff9b::c000:221", "fe80::1", "2002:c633:6407::1"):
        b.add(msg(tid=rnd_tid(rng)), v6=True, src=src)
        b.add(msg(tid=rnd_tid(rng), attrs=attr(3, b"\0\0\0\2")), v6=True, src=src, dport=65535)
        b.add(msg(tid=rnd_tid(rng), magic=True, attrs=LONG), v6=True, src=src, tcp=True)
    for src in ("0.0.0.0", "255.255.255.255", "127.0.0.1", "224.0.0.1"):
        b.add(msg(tid=rnd_tid(rng)), src=src)
    yield from b.scripts()
    # B. long magic-cookie requests (identified): attribute lists of all shapes, both transports
    b = Batch("long-requests")
    for _ in range(n):
        a = LONG + rnd_attrs(rng)
        b.add(msg(tid=rnd_tid(rng), magic=True, attrs=a), tcp=rng.random() < 0.4, v6=rng.random() < 0.5,
              sport=rng.choice([None, None, 0, 65535]), dport=rng.choice([3478, 65535, 80]))
    for l in range(0, 40):                     # every value length mod 4, before another attribute
        a = LONG + attr(0x8022, b"v" * l, padbyte=0xee) + attr(3, b"\0\0\0\2")
        b.add(msg(tid=rnd_tid(rng), magic=True, attrs=a), tcp=l % 3 == 0, v6=l % 2 == 0)
    yield from b.scripts()
    # C. classes and methods
    b = Batch("class-method")
    for cls in range(4):
        for method in (1, 0, 2, 3, 0x10, 0x80, 0x800, 0xfff, rng.randrange(0x1000)):
            b.add(msg(cls=cls, method=method, magic=True, attrs=LONG, tid=rnd_tid(rng)), tcp=(cls + method) % 2 == 0)
            if cls != 0 or method != 1:
                b.add(msg(cls=cls, method=method, tid=rnd_tid(rng)))           # 20 bytes: not a published layout
    for top in (0x40, 0x80, 0xc0):
        p = bytearray(msg(magic=True, attrs=LONG))
        p[0] |= top
        b.add(bytes(p))
    yield from b.scripts()
    # D. malformed attribute lists, length lies, truncations (identified long requests)
    b = Batch("malformed")
    tails = [b"\xaa\xbb\xcc", b"\x00\x03\x00\x04", b"\x80\x22\x00\x01A", b"\x00\x03\x00\x04\x00\x00\x00\x02\xaa\xbb\xcc",
             b"\x00\x01\x00\x08\x00\x03", b"\x00\x01\x00\x04\x00\x07\x12\x34", b"\x00\x01\x00\x08\x00\x07" + bytes(6),
             b"\x00\x03\x00\x00", b"\x00\x03\x00\x02\x00\x02", b"\x00\x09\xff\xff\x00", b"\x00\x03\x00\x00" + attr(0x8022, b"ab"),
             b"\x80\x22\x00\x05abcde", b"\x80\x22\x00\x05abcde\0\0", b"\x00\x01\x00\x14\x00\x02" + bytes(10)]
    for t in tails:
        b.add(msg(magic=True, attrs=LONG + t, tid=rnd_tid(rng)))
        b.add(msg(magic=True, attrs=LONG + t, tid=rnd_tid(rng)), tcp=True, v6=True)
    full = msg(magic=True, attrs=LONG + attr(3, b"\0\0\0\2") + attr(0x8022, b"xyz"))
    for k in list(range(0, 30)) + list(range(len(full) - 20, len(full))):
        b.add(full[:k])
    for ln in (0, 1, 255, 256, 257, len(full) - 21, len(full) - 19, 0xffff):
        b.add(full[:2] + struct.pack("!H", ln) + full[4:])
    b.add(full + b"trailing bytes")
    yield from b.scripts()
    # E. short requests with a magic cookie (known class) and without, all lengths
    b = Batch("short")
    for k in range(0, 7):
        a = rnd_attrs(rng, k)
        if len(a) < 236:
            b.add(msg(magic=True, attrs=a, tid=rnd_tid(rng)), tcp=k % 2 == 0)
            b.add(msg(magic=False, attrs=a, tid=rnd_tid(rng)))
    yield from b.scripts()
    # G. flows bound to the STUN responder: every message type bit, class and method on later segments
    b = Batch("bound-flow-later-segments")
    types = sorted(set([1 << k for k in range(14)] + [(1 << k) | 1 for k in range(14)] + [0x0001, 0x0011, 0x0101, 0x0111, 0x0002, 0x0003,
                        0x3e01, 0x3eef, 0x3fff, 0x0110, 0x0100, 0x0010] + [rng.randrange(0x4000) for _ in range(60 if thorough else 20)]))
    k = 0
    for i in range(0, len(types), 3):
        later = []
        for ty in types[i:i + 3]:
            k += 1
            m = bytearray(msg(tid=rnd_tid(rng), magic=k % 2 == 0, attrs=(b"", attr(3, b"\0\0\0\2"), LONG)[k % 3]))
            m[0:2] = struct.pack("!H", ty)
            later.append(bytes(m))
        later.append(msg(tid=rnd_tid(rng), attrs=attr(0x8022, b"x" * (k % 7)) + attr(3, b"\0\0\0\2")))
        b.add_bound(later, v6=k % 2 == 1, dport=(3478, 65535)[k % 2])
    yield from b.scripts()
    # F. configurations
    for cfg in (Cfg(self_ips=[gens.SELF4, gens.SELF6], key=KEY), Cfg(key=KEY, logger="logfmt", level=2)):
        b = Batch("configs", cfg)
        b.add(msg(tid=rnd_tid(rng)))
        b.add(msg(tid=rnd_tid(rng), attrs=attr(3, b"\0\0\0\6")), v6=True)
        b.add(msg(magic=True, attrs=LONG + attr(3, b"\0\0\0\2")), tcp=True)
        yield from b.scripts()


def published(p, tcp):
    return (sigs.ref_tcp(p) if tcp else sigs.ref_udp(p)) == sigs.STUN


def shadowed(p, tcp):
    return len(p) >= 8 and p[:2] == b"\0\1" and p[4:8] == MAGIC and p[2] == 0 and \
        (tcp or not ((len(p) == 20 and p[3] == 0) or (len(p) == 28 and p[3] == 8 and p[20:27] == b"\0\3\0\4\0\0\0")))


def nontrivial(script):
    for f in script.frames:
        if f in ORACLE:
            p, s, d, sp, dp, tcp, v6 = ORACLE[f]
            m = parse(p)
            if m and m["cls"] == 0 and m["method"] == 1 and published(p, tcp):
                return True
    return False


def app_payload(o):
    if o.kind != "R":
        return (o.kind,)
    p = net.parse_frame(o.reply)
    if p is None or p.proto not in (6, 17):
        return ("R", "other")
    return ("R", p.proto, bytes(p.app), p.sport, p.dport)


def project(script, i, o):
    """application payload and transport ports of the reply"""
    return app_payload(o)


def history_monitor(script, outs):
    msgs = []
    for i, (f, o) in enumerate(zip(script.frames, outs)):
        if f not in ORACLE and f not in LATER:
            continue
        later = f in LATER
        if later:
            p, s, d, sp, dp, v6 = LATER[f]
            tcp = True
        else:
            p, s, d, sp, dp, tcp, v6 = ORACLE[f]
        m = parse(p)
        if m is None:
            continue
        a = app_payload(o)
        answered = a[0] == "R" and len(a) == 5 and len(a[2]) > 0
        if m["cls"] == 0 and m["method"] == 1:
            if not later and not published(p, tcp):
                continue
            if not later and shadowed(p, tcp):
                continue                  # known class: judged by the strict extracted monitor only
            if not answered:
                msgs.append((i, "python oracle: binding request not answered"))
                continue
            e = check_response(m, a[2], s, sp, v6)
            if e:
                msgs.append((i, "python oracle: " + e))
            want = (dp + 1) % 65536 if change_port(m) else dp
            if a[3] != want or a[4] != sp:
                msgs.append((i, "python oracle: reply ports %d -> %d, expected %d -> %d" % (a[3], a[4], want, sp)))
        elif answered and len(a[2]) >= 20 and a[2][4:20] == m["tid"] and a[2][0] == 1 and (a[2][1] & 0xef) == 0x01:
            msgs.append((i, "python oracle: class %d method %#x got a STUN response" % (m["cls"], m["method"])))
    return msgs


NOSHRINK_MONITORS = ("C15later",)


def monitor_applies(name, script, i):
    """the later-segment monitor (Spec/Later.v: ok_C15_tcp_later, proved of the model in Properties/Later.v) judges only
    the frames the generator built as later segments of a flow bound to the STUN responder"""
    return name != "C15later" or script.frames[i] in LATER


def known_class(issue):
    if issue.get("kind") == "monitor" and issue.get("monitor") in STRICT:
        s = issue["script"]
        if runner.frame_classes("c15", s.cfg, [s.frames[issue["frame"]]])[0]:
            return "stun_shadowed"
    return None


def neighbourhood(script, rng):
    yield script
