(* Spec/HttpTbl.v -- boolean facts about the compiled matchers (data dumped from
   the implementation) that the HTTP theorems (C13, C11) rely on.  Decided by
   kernel computation on every run as clauses of [env_ok].  Definitions only.

   [http_tbl_ok t] (the verb matcher HTTP_SMACK): a product walk of the table
   against the trie of the nine method names (case-insensitively, over all 256
   byte values in every reachable trie node) shows
     - after a proper prefix of a method name the matcher is in a row below the
       match limit that is not the UNANCHORED row;
     - the last byte of a method name leads to a match row carrying exactly the
       id Verb (0);
     - every other byte leads into a set D of rows that is closed under all byte
       transitions, contains the UNANCHORED row and no row carrying the Verb id:
       from D no method can ever be matched again ("dead" rows).
   [proto_http_ok t id]: each of the nine signatures "VERB /" is identified as
   HTTP by the protocol matcher exactly at its last byte. *)
From MS Require Export Smack Spec.RefHttp.

Definition all_bytes : list N := map N.of_nat (seq 0 256).
Definition memN (x : N) (l : list N) : bool := existsb (N.eqb x) l.
Definition all_rows (t : smack) : list N := map N.of_nat (seq 0 (N.to_nat (sm_rows t))).
Definition sm_stepb (t : smack) (row b : N) : N := sm_next t row (sm_sym t (N.to_nat b)).
Definition VERB_ID : N := 0.
Definition verb_row (t : smack) (r : N) : bool := existsb (N.eqb VERB_ID) (sm_ids t r).

(* candidate dead set: the rows from which no row carrying the Verb id can be
   reached (complement of a backward closure).  How D is computed is irrelevant
   for soundness: [dead_ok] re-checks the closure property. *)
Definition dedupN (l : list N) : list N :=
  fold_right (fun x acc => if memN x acc then acc else x :: acc) [] l.
Definition succ_tbl (t : smack) : list (N * list N) :=
  map (fun r => (r, dedupN (map (sm_stepb t r) all_bytes))) (all_rows t).
Definition live_grow (S : list (N * list N)) (L : list N) : list N :=
  map fst (filter (fun p => memN (fst p) L || existsb (fun x => memN x L) (snd p)) S).
Fixpoint iter_n {A} (n : nat) (f : A -> A) (x : A) : A :=
  match n with O => x | S k => iter_n k f (f x) end.
Definition live_rows (t : smack) : list N :=
  iter_n (N.to_nat (sm_rows t)) (live_grow (succ_tbl t)) (filter (verb_row t) (all_rows t)).
Definition dead_rows (t : smack) : list N :=
  let L := live_rows t in filter (fun r => negb (memN r L)) (all_rows t).

Definition dead_ok (t : smack) (D : list N) : bool :=
  forallb (fun r => (r <? sm_rows t) && negb (verb_row t r) &&
                    forallb (fun b => memN (sm_stepb t r b) D) all_bytes) D.

Definition ids_is_verb (ids : list N) : bool :=
  match ids with [i] => i =? VERB_ID | _ => false end.

Fixpoint verb_walk (fuel : nat) (t : smack) (D : list N) (row : N) (cands : list bytes) : bool :=
  match fuel with
  | O => false
  | S f =>
    forallb (fun b =>
      let row' := sm_stepb t row b in
      let c' := deriv cands (upper b) in
      if existsb null c' then
        (sm_match_limit t <=? row') && (row' <? sm_rows t) && ids_is_verb (sm_ids t row')
      else if null c' then memN row' D
      else (row' <? sm_match_limit t) && negb (row' =? UNANCHORED_STATE) && verb_walk f t D row' c')
      all_bytes
  end.

Definition http_tbl_ok (t : smack) : bool :=
  let D := dead_rows t in
  (sm_rows t <=? TWO24) && (BASE_STATE <? sm_match_limit t) && (sm_match_limit t <=? sm_rows t) &&
  memN UNANCHORED_STATE D && dead_ok t D &&
  negb (existsb null HTTP_VERBS) &&
  verb_walk 8 t D BASE_STATE HTTP_VERBS.

Definition proto_http_ok (t : smack) (http_id : N) : bool :=
  (sm_rows t <=? TWO24) && (BASE_STATE <? sm_rows t) &&
  forallb (fun sg => match search_next t BASE_STATE sg with
                     | (Some i, _, n) => (i =? http_id) && (n =? length sg)%nat
                     | _ => false
                     end) HTTP_SIGS.
