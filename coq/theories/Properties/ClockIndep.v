(* Properties/ClockIndep.v -- time independence of the responder.  Statements only; proofs in
   Proofs/ClockIndep*.v; the specification (side conditions on clocks, masks written from the
   wire formats, history runner) is Spec/ClockIndep.v.

   The model's only wall-clock inputs are [clk_date] (HTTP Date value) and [clk_filetime] (SMB
   negotiate responses).  For every environment, configuration, table and frame:
     (1) verdict (Ok / Panic and the panic site), new table, events and "a frame is emitted" do
         not depend on the clock, provided the two clocks are compatible: Date values of one
         length, or both fit a UDP datagram ([clock_ok]).  The condition is needed
         ([ClockIndep_state_unconditional_refuted]): the 401 page is also sent over UDP, and the
         IPv4 UDP path panics (site 301) when the page does not fit in 65535 bytes;
     (2) with Date values of one length and free of CR / LF, the two emitted frames have the
         same length and are EQUAL once the TCP/UDP checksum, the Date value and the SMB
         negotiate time fields are zeroed ([mask_frame]);
     (2') with Date values of different lengths (the implementation writes "2 Oct" but "10 Oct":
         30 / 31 bytes) the frames are equal once normalised ([norm_frame]: Date value cut out;
         IP length fields, IPv4 header checksum, UDP length, transport checksum zeroed);
     (3) the same along histories of any length, one clock per frame. *)
From MS Require Import Proto L2 Instance Spec.ClockIndep Proofs.FrameBuild Proofs.C17Examples
     Proofs.ClockIndep Proofs.ClockIndepNorm Proofs.ClockIndepExamples.

(* ---- (1) state and silence ---- *)
Theorem ClockIndep_state :
  forall E cfg clk clk' tb f,
    clocks_compat E clk clk' = true ->
    match reply E cfg clk tb f, reply E cfg clk' tb f with
    | Ok (tb1, r1, ev1), Ok (tb2, r2, ev2) => tb1 = tb2 /\ ev1 = ev2 /\ has_frame r1 = has_frame r2
    | Panic s1, Panic s2 => s1 = s2
    | _, _ => False
    end.
Proof. exact reply_clock_state. Qed.
Print Assumptions ClockIndep_state.

Theorem ClockIndep_state_ok :
  forall E cfg clk clk' tb f,
    clock_ok E clk = true -> clock_ok E clk' = true ->
    same_outcome (reply E cfg clk tb f) (reply E cfg clk' tb f).
Proof. exact reply_clock_state_ok. Qed.
Print Assumptions ClockIndep_state_ok.

Theorem ClockIndep_state_same_length :
  forall E cfg clk clk' tb f,
    length (clk_date clk) = length (clk_date clk') ->
    same_outcome (reply E cfg clk tb f) (reply E cfg clk' tb f).
Proof. exact reply_clock_state_len. Qed.
Print Assumptions ClockIndep_state_same_length.

(* without the side condition the statement is false of the current implementation's data *)
Theorem ClockIndep_state_unconditional_refuted :
  exists cfg clk clk' f tb r evs s,
    reply the_env cfg clk [] f = Ok (tb, Some r, evs) /\ reply the_env cfg clk' [] f = Panic s.
Proof. exact clock_panic_witness. Qed.
Print Assumptions ClockIndep_state_unconditional_refuted.

(* ---- (2) the emitted frames differ in clock fields only ---- *)
Theorem ClockIndep_frame :
  forall E cfg clk clk' tb f tb1 r1 ev1 tb2 r2 ev2,
    length (c_mac cfg) = 6%nat -> http_tpl_ok E = true ->
    date_clean clk = true -> date_clean clk' = true ->
    length (clk_date clk) = length (clk_date clk') ->
    reply E cfg clk tb f = Ok (tb1, r1, ev1) -> reply E cfg clk' tb f = Ok (tb2, r2, ev2) ->
    match r1, r2 with
    | Some a, Some b => length a = length b /\ mask_frame a = mask_frame b
    | None, None => True
    | _, _ => False
    end.
Proof. exact reply_clock_frame. Qed.
Print Assumptions ClockIndep_frame.

(* ... and when the Date values differ in length (the implementation writes the day of the month
   without padding): equal once the Date value is cut out and the length fields, the IPv4 header
   checksum and the transport checksum are zeroed *)
Theorem ClockIndep_frame_norm :
  forall E cfg clk clk' tb f tb1 r1 ev1 tb2 r2 ev2,
    length (c_mac cfg) = 6%nat -> http_tpl_ok E = true ->
    date_clean clk = true -> date_clean clk' = true ->
    clocks_compat E clk clk' = true ->
    reply E cfg clk tb f = Ok (tb1, r1, ev1) -> reply E cfg clk' tb f = Ok (tb2, r2, ev2) ->
    match r1, r2 with
    | Some a, Some b => norm_frame a = norm_frame b
    | None, None => True
    | _, _ => False
    end.
Proof. exact reply_clock_frame_norm. Qed.
Print Assumptions ClockIndep_frame_norm.

(* the masks overwrite, they do not cut *)
Theorem ClockIndep_mask_length : forall f, length (mask_frame f) = length f.
Proof. exact mask_frame_length. Qed.
Print Assumptions ClockIndep_mask_length.

(* the template of the current implementation meets the hypothesis of (2) *)
Theorem ClockIndep_current_template : http_tpl_ok the_env = true.
Proof. exact current_http_tpl_ok. Qed.
Print Assumptions ClockIndep_current_template.

(* ---- (1)+(2) at the application layer: no side condition for the state part ---- *)
Theorem ClockIndep_app_tcp :
  forall E clk clk' ci tc data,
    match proto_repl_tcp E clk ci tc data, proto_repl_tcp E clk' ci tc data with
    | Ok (c1, t1, o1), Ok (c2, t2, o2) =>
      c1 = c2 /\ t1 = t2 /\ has_frame o1 = has_frame o2 /\
      (http_tpl_ok E = true -> date_clean clk = true -> date_clean clk' = true ->
       length (clk_date clk) = length (clk_date clk') -> same_payload_masked o1 o2)
    | Panic s1, Panic s2 => s1 = s2
    | _, _ => False
    end.
Proof. exact proto_repl_tcp_clock. Qed.
Print Assumptions ClockIndep_app_tcp.

Theorem ClockIndep_app_udp :
  forall E clk clk' ci data,
    match proto_repl_udp E clk ci data, proto_repl_udp E clk' ci data with
    | Ok (c1, o1), Ok (c2, o2) =>
      c1 = c2 /\ has_frame o1 = has_frame o2 /\
      (http_tpl_ok E = true -> date_clean clk = true -> date_clean clk' = true ->
       length (clk_date clk) = length (clk_date clk') -> same_payload_masked o1 o2)
    | Panic s1, Panic s2 => s1 = s2
    | _, _ => False
    end.
Proof. exact proto_repl_udp_clock. Qed.
Print Assumptions ClockIndep_app_udp.

(* ---- (3) histories ---- *)
Theorem ClockIndep_history :
  forall E cfg fs clks clks' tb,
    Forall2 (fun c c' => clocks_compat E c c' = true) clks clks' ->
    fst (run E cfg clks fs tb) = fst (run E cfg clks' fs tb) /\
    Forall2 outcome_shape (snd (run E cfg clks fs tb)) (snd (run E cfg clks' fs tb)).
Proof. exact run_clock_history. Qed.
Print Assumptions ClockIndep_history.

Theorem ClockIndep_history_ok :
  forall E cfg fs clks clks' tb,
    length clks = length clks' ->
    Forall (fun c => clock_ok E c = true) clks -> Forall (fun c => clock_ok E c = true) clks' ->
    fst (run E cfg clks fs tb) = fst (run E cfg clks' fs tb) /\
    Forall2 outcome_shape (snd (run E cfg clks fs tb)) (snd (run E cfg clks' fs tb)).
Proof. exact run_clock_history_ok. Qed.
Print Assumptions ClockIndep_history_ok.

Theorem ClockIndep_history_masked :
  forall E cfg fs clks clks' tb,
    length (c_mac cfg) = 6%nat -> http_tpl_ok E = true ->
    Forall2 (fun c c' => clocks_compat E c c' = true /\ date_clean c = true /\ date_clean c' = true /\
                         length (clk_date c) = length (clk_date c')) clks clks' ->
    fst (run E cfg clks fs tb) = fst (run E cfg clks' fs tb) /\
    Forall2 outcome_masked (snd (run E cfg clks fs tb)) (snd (run E cfg clks' fs tb)).
Proof. exact run_clock_history_masked. Qed.
Print Assumptions ClockIndep_history_masked.

(* ---- non-vacuity on the current implementation's data ---- *)
(* two real clocks a day apart meet every hypothesis *)
Theorem ClockIndep_clocks_nonvacuous :
  clock_ok the_env x_clk1 = true /\ clock_ok the_env x_clk2 = true /\
  date_clean x_clk1 = true /\ date_clean x_clk2 = true /\
  length (clk_date x_clk1) = length (clk_date x_clk2) /\ length (c_mac fx_cfg) = 6%nat /\
  clocks_compat the_env x_clk1 x_clk2 = true.
Proof. exact x_clocks_ok. Qed.
Print Assumptions ClockIndep_clocks_nonvacuous.

(* SYN + "GET / HTTP/1.0\n\n" acknowledging the SYN cookie, answered under the two clocks: same
   table, same SYN-ACK, same events; the two 401 frames differ, have one length, agree outside
   the TCP checksum (offset 50 / 70) and the 29 bytes of the Date value (right after the template prefix), carry
   the respective Date values there, and are equal once masked *)
Theorem ClockIndep_example_http_tcp4 :
  x_check true 80 x_get 50 (54 + length (e_http_pre the_env)) 29 (clk_date x_clk1) (clk_date x_clk2) = true.
Proof. exact ex_http_tcp4. Qed.
Print Assumptions ClockIndep_example_http_tcp4.
Theorem ClockIndep_example_http_tcp6 :
  x_check false 80 x_get 70 (74 + length (e_http_pre the_env)) 29 (clk_date x_clk1) (clk_date x_clk2) = true.
Proof. exact ex_http_tcp6. Qed.
Print Assumptions ClockIndep_example_http_tcp6.

(* the same for the captured SMB2 / SMB1 negotiate requests: 16 bytes at payload offset 108,
   8 bytes at payload offset 60 *)
Theorem ClockIndep_example_smb2 :
  x_check true 445 x_smb2_req_negotiate 50 (54 + 108) 16
          (le64 (clk_filetime x_clk1) ++ le64 (clk_filetime x_clk1))
          (le64 (clk_filetime x_clk2) ++ le64 (clk_filetime x_clk2)) = true.
Proof. exact ex_smb2_tcp4. Qed.
Print Assumptions ClockIndep_example_smb2.
Theorem ClockIndep_example_smb1 :
  x_check true 445 x_smb1_req_negotiate 50 (54 + 60) 8
          (le64 (clk_filetime x_clk1)) (le64 (clk_filetime x_clk2)) = true.
Proof. exact ex_smb1_tcp4. Qed.
Print Assumptions ClockIndep_example_smb1.

(* Date values of 30 and 31 bytes (the 2nd and the 10th of a month as the implementation writes
   them), HTTP over TCP and UDP, IPv4 and IPv6: frames one byte apart in length, equal once
   normalised, not equal once masked *)
Theorem ClockIndep_example_norm :
  date_clean x_clk3 = true /\ date_clean x_clk4 = true /\ clocks_compat the_env x_clk3 x_clk4 = true /\
  x_check_norm true true = true /\ x_check_norm false true = true /\
  x_check_norm true false = true /\ x_check_norm false false = true.
Proof. exact ex_norm. Qed.
Print Assumptions ClockIndep_example_norm.
