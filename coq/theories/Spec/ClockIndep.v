(* Spec/ClockIndep.v -- time independence of the responder.

   The model has exactly two wall-clock inputs (Proto.v, [clock]): the value of the HTTP
   [Date:] header and the FILETIME of the SMB negotiate responses.  The claim is that elapsed
   time influences nothing but those fields of the emitted bytes:

     1. whether [reply] panics (and where), the new connection table, the events and
        whether a frame is emitted do not depend on the clock;
     2. two frames emitted for the same input under two clocks (with Date values of the same
        length) have the same length and are equal once the clock fields are masked;
     3. the same along a history of frames, each answered under its own clock.

   This file: the side conditions on clocks, the masks (written from the wire formats: Ethernet
   II, RFC 791 / 8200 / 793 / 768, RFC 7230 header lines, MS-SMB / MS-SMB2 negotiate
   responses -- not from the responders), the history runner, and the statements.
   Definitions only. *)
From MS Require Export Bytes Res Types Proto L2.

(* ====================================================================== *)
(* side conditions on clocks                                               *)
(* ====================================================================== *)
(* The only place where the clock can decide between answering and panicking: the 401 page
   is also sent over UDP, and the IPv4 UDP path converts the datagram length to u16 with
   `try_into().unwrap()` (PANIC_UDP_LEN).  A clock is fine when the page rendered with its
   Date value fits in a datagram.  (A real Date value has 29 bytes.) *)
Definition clock_ok (E : env) (clk : clock) : bool :=
  8 + (lenN (e_http_pre E) + lenN (clk_date clk) + lenN (e_http_post E)) <=? 65535.

(* the weakest condition on a PAIR of clocks under which (1) holds: Date values of the same
   length (nothing can tell them apart), or both fine *)
Definition clocks_compat (E : env) (clk clk' : clock) : bool :=
  (length (clk_date clk) =? length (clk_date clk'))%nat || (clock_ok E clk && clock_ok E clk').

(* a Date value cannot contain a line end (else it is not one header value on the wire) *)
Definition date_clean (clk : clock) : bool :=
  forallb (fun b => negb (b =? 13) && negb (b =? 10)) (clk_date clk).

(* ====================================================================== *)
(* the masks                                                               *)
(* ====================================================================== *)
(* bytes [off, off+n) replaced by zeros (clipped to the buffer: the length is kept) *)
Definition zero_at (off n : nat) (p : bytes) : bytes :=
  firstn off p ++ map (fun _ => 0) (firstn n (skipn off p)) ++ skipn (off + n) p.

(* ---- HTTP: the value of every Date header line of the header block ----
   A header block is a sequence of lines ended by LF (CR before it optional); the block ends
   at the first empty line.  A header line is  name ":" value ; names are case-insensitive. *)
Inductive hstate :=
| HName (k : nat)   (* at the start of a line, k characters of "date:" matched so far *)
| HOther            (* inside a line that is not a Date header (or the status line) *)
| HValue            (* inside the value of a Date header *)
| HBody.            (* after the empty line *)

Definition lower (b : N) : N := if (65 <=? b) && (b <=? 90) then b + 32 else b.
Definition DATE_COLON : bytes := [100; 97; 116; 101; 58].   (* "date:" *)

(* one byte: the new state and the byte written *)
Definition hstep (st : hstate) (b : N) : hstate * N :=
  match st with
  | HBody => (HBody, b)
  | HValue =>
    if b =? 10 then (HName 0, b)
    else if b =? 13 then (HValue, b)
    else (HValue, 0)                                   (* a byte of the value *)
  | HOther => if b =? 10 then (HName 0, b) else (HOther, b)
  | HName k =>
    if b =? 10 then ((match k with O => HBody | S _ => HName 0 end), b)
    else if (b =? 13) && (match k with O => true | S _ => false end) then (HName 0, b)
    else if lower b =? nth k DATE_COLON 256
         then ((if (k =? 4)%nat then HValue else HName (S k)), b)
         else (HOther, b)
  end.

Fixpoint hrun (st : hstate) (p : bytes) : hstate * bytes :=
  match p with
  | [] => (st, [])
  | b :: t =>
    let '(st1, c) := hstep st b in
    let '(st2, out) := hrun st1 t in (st2, c :: out)
  end.

Definition mask_http (p : bytes) : bytes := snd (hrun (HName 0) p).

Definition HTTP_MAGIC : bytes := [72; 84; 84; 80; 47].      (* "HTTP/" *)

(* ---- SMB over a NetBIOS session (4 bytes of framing, then the SMB message) ---- *)
(* SMB1 (MS-CIFS 2.2.3.1 / 2.2.4.52.2): "\xffSMB", Command at 4 = 0x72 NEGOTIATE, Flags at 9 with
   the reply bit 0x80; the response parameters start at 32: WordCount(1) DialectIndex(2)
   SecurityMode(1) MaxMpxCount(2) MaxNumberVcs(2) MaxBufferSize(4) MaxRawSize(4) SessionKey(4)
   Capabilities(4) SystemTime(8): SystemTime is at 32 + 24 = 56, i.e. 60 with the framing. *)
Definition is_smb1_neg_resp (p : bytes) : bool :=
  bytes_eqb (slice 4 4 p) [255; 83; 77; 66] && (u8_at 8 p =? 114) &&
  (N.land (u8_at 13 p) 128 =? 128).

(* SMB2 (MS-SMB2 2.2.1 / 2.2.4): "\xfeSMB", Command (le16) at 12 = 0 NEGOTIATE, Flags (le32) at 16
   with SERVER_TO_REDIR 0x1; the response body starts at 64: StructureSize(2) SecurityMode(2)
   DialectRevision(2) NegotiateContextCount(2) ServerGuid(16) Capabilities(4) MaxTransactSize(4)
   MaxReadSize(4) MaxWriteSize(4) SystemTime(8) ServerStartTime(8): the two times are at
   64 + 40 = 104, i.e. 108 with the framing. *)
Definition is_smb2_neg_resp (p : bytes) : bool :=
  bytes_eqb (slice 4 4 p) [254; 83; 77; 66] && (u8_at 16 p =? 0) && (u8_at 17 p =? 0) &&
  (N.land (u8_at 20 p) 1 =? 1).

(* the application payload with its clock fields masked *)
Definition mask_payload (p : bytes) : bytes :=
  if is_prefix HTTP_MAGIC p then mask_http p
  else if is_smb1_neg_resp p then zero_at 60 8 p
  else if is_smb2_neg_resp p then zero_at 108 16 p
  else p.

(* ---- transport and below ---- *)
(* [off] = offset of the transport header in the frame.  TCP (RFC 793): data offset in the
   high nibble of byte 12, checksum at 16; UDP (RFC 768): checksum at 6, payload at 8.  The
   checksum covers the payload, hence it is a clock field too. *)
Definition mask_l4 (proto : N) (off : nat) (f : bytes) : bytes :=
  if proto =? 6 then
    let hl := (N.to_nat (u8_at (off + 12) f / 16) * 4)%nat in
    zero_at (off + 16) 2 (firstn (off + hl) f) ++ mask_payload (skipn (off + hl) f)
  else if proto =? 17 then
    zero_at (off + 6) 2 (firstn (off + 8) f) ++ mask_payload (skipn (off + 8) f)
  else f.

(* Ethernet II: EtherType at 12.  IPv4: header length in the low nibble of the first byte,
   protocol at 9.  IPv6: next header at 6, fixed header of 40 bytes (the responder never
   emits extension headers; a frame that has one is left as it is). *)
Definition mask_frame (f : bytes) : bytes :=
  let ety := u16_at 12 f in
  if ety =? 2048 then mask_l4 (u8_at 23 f) (14 + N.to_nat (u8_at 14 f mod 16) * 4) f
  else if ety =? 34525 then mask_l4 (u8_at 20 f) 54 f
  else f.

(* what the masks need to know about the 401 template of the implementation: it is an HTTP
   response, and the Date value is inserted where a Date header value starts *)
Definition hstate_eqb (a b : hstate) : bool :=
  match a, b with
  | HName j, HName k => (j =? k)%nat
  | HOther, HOther | HValue, HValue | HBody, HBody => true
  | _, _ => false
  end.
Definition http_tpl_ok (E : env) : bool :=
  is_prefix HTTP_MAGIC (e_http_pre E) && hstate_eqb (fst (hrun (HName 0) (e_http_pre E))) HValue.

(* ====================================================================== *)
(* (1), (2): one frame under two clocks                                    *)
(* ====================================================================== *)
Definition has_frame {A} (o : option A) : bool := match o with Some _ => true | None => false end.

(* same verdict (same panic site), same table, same events, a frame in both or in neither *)
Definition same_outcome (x y : res (table * option bytes * list event)) : Prop :=
  match x, y with
  | Ok (tb1, r1, ev1), Ok (tb2, r2, ev2) => tb1 = tb2 /\ ev1 = ev2 /\ has_frame r1 = has_frame r2
  | Panic s1, Panic s2 => s1 = s2
  | _, _ => False
  end.

(* two emitted frames that differ in clock fields only *)
Definition same_frame_masked (r r' : option bytes) : Prop :=
  match r, r' with
  | Some a, Some b => length a = length b /\ mask_frame a = mask_frame b
  | None, None => True
  | _, _ => False
  end.

Definition clock_state_stmt : Prop :=
  forall E cfg clk clk' tb f,
    clocks_compat E clk clk' = true ->
    same_outcome (reply E cfg clk tb f) (reply E cfg clk' tb f).

Definition clock_frame_stmt : Prop :=
  forall E cfg clk clk' tb f tb1 r1 ev1 tb2 r2 ev2,
    length (c_mac cfg) = 6%nat -> http_tpl_ok E = true ->
    date_clean clk = true -> date_clean clk' = true ->
    length (clk_date clk) = length (clk_date clk') ->
    reply E cfg clk tb f = Ok (tb1, r1, ev1) -> reply E cfg clk' tb f = Ok (tb2, r2, ev2) ->
    same_frame_masked r1 r2.

(* the same at the application layer (no side condition for the state part: the UDP length
   conversion is below it) *)
Definition same_payload_masked (o o' : option bytes) : Prop :=
  match o, o' with
  | Some a, Some b => length a = length b /\ mask_payload a = mask_payload b
  | None, None => True
  | _, _ => False
  end.

Definition clock_app_tcp_stmt : Prop :=
  forall E clk clk' ci tc data,
    match proto_repl_tcp E clk ci tc data, proto_repl_tcp E clk' ci tc data with
    | Ok (c1, t1, o1), Ok (c2, t2, o2) =>
      c1 = c2 /\ t1 = t2 /\ has_frame o1 = has_frame o2 /\
      (http_tpl_ok E = true -> date_clean clk = true -> date_clean clk' = true ->
       length (clk_date clk) = length (clk_date clk') -> same_payload_masked o1 o2)
    | Panic s1, Panic s2 => s1 = s2
    | _, _ => False
    end.

Definition clock_app_udp_stmt : Prop :=
  forall E clk clk' ci data,
    match proto_repl_udp E clk ci data, proto_repl_udp E clk' ci data with
    | Ok (c1, o1), Ok (c2, o2) =>
      c1 = c2 /\ has_frame o1 = has_frame o2 /\
      (http_tpl_ok E = true -> date_clean clk = true -> date_clean clk' = true ->
       length (clk_date clk) = length (clk_date clk') -> same_payload_masked o1 o2)
    | Panic s1, Panic s2 => s1 = s2
    | _, _ => False
    end.

(* ====================================================================== *)
(* (2'): Date values of different lengths                                  *)
(* ====================================================================== *)
(* The Date value need not have a fixed length (RFC 5322 day-of-month is 1*2DIGIT; the
   implementation's formatter writes "2 Oct" but "10 Oct").  Then the frames differ in length;
   what remains equal is the frame with the Date value CUT OUT, and the length-dependent
   fields zeroed as well: IPv4 total length and header checksum, IPv6 payload length, UDP
   length, besides the TCP/UDP checksum and the SMB time fields. *)
Definition is_value_byte (st : hstate) (b : N) : bool :=
  match st with HValue => negb (b =? 10) && negb (b =? 13) | _ => false end.

Fixpoint hcut (st : hstate) (p : bytes) : bytes :=
  match p with
  | [] => []
  | b :: t =>
    let st1 := fst (hstep st b) in
    if is_value_byte st b then hcut st1 t else b :: hcut st1 t
  end.

Definition cut_payload (p : bytes) : bytes :=
  if is_prefix HTTP_MAGIC p then hcut (HName 0) p
  else if is_smb1_neg_resp p then zero_at 60 8 p
  else if is_smb2_neg_resp p then zero_at 108 16 p
  else p.

Definition norm_l4 (proto : N) (off : nat) (f : bytes) : bytes :=
  if proto =? 6 then
    let hl := (N.to_nat (u8_at (off + 12) f / 16) * 4)%nat in
    zero_at (off + 16) 2 (firstn (off + hl) f) ++ cut_payload (skipn (off + hl) f)
  else if proto =? 17 then
    zero_at (off + 4) 4 (firstn (off + 8) f) ++ cut_payload (skipn (off + 8) f)   (* length, checksum *)
  else f.

Definition norm_frame (f : bytes) : bytes :=
  let ety := u16_at 12 f in
  if ety =? 2048 then
    norm_l4 (u8_at 23 f) (14 + N.to_nat (u8_at 14 f mod 16) * 4)
            (zero_at 16 2 (zero_at 24 2 f))                       (* total length, header checksum *)
  else if ety =? 34525 then norm_l4 (u8_at 20 f) 54 (zero_at 18 2 f)   (* payload length *)
  else f.

Definition clock_frame_norm_stmt : Prop :=
  forall E cfg clk clk' tb f tb1 r1 ev1 tb2 r2 ev2,
    length (c_mac cfg) = 6%nat -> http_tpl_ok E = true ->
    date_clean clk = true -> date_clean clk' = true ->
    clocks_compat E clk clk' = true ->
    reply E cfg clk tb f = Ok (tb1, r1, ev1) -> reply E cfg clk' tb f = Ok (tb2, r2, ev2) ->
    match r1, r2 with
    | Some a, Some b => norm_frame a = norm_frame b
    | None, None => True
    | _, _ => False
    end.

(* ====================================================================== *)
(* (3): histories                                                          *)
(* ====================================================================== *)
Inductive outcome :=
| OFrame (r : option bytes) (evs : list event)
| OPanic (site : N).

(* frames answered in turn, each under its own clock; stops at a panic (the process is dead)
   or when either list is exhausted *)
Fixpoint run (E : env) (cfg : config) (clks : list clock) (fs : list bytes) (tb : table) {struct fs}
  : table * list outcome :=
  match fs, clks with
  | f :: fs', clk :: clks' =>
    match reply E cfg clk tb f with
    | Ok (tb', r, evs) => let '(tbf, os) := run E cfg clks' fs' tb' in (tbf, OFrame r evs :: os)
    | Panic s => (tb, [OPanic s])
    end
  | _, _ => (tb, [])
  end.

Definition outcome_shape (a b : outcome) : Prop :=
  match a, b with
  | OFrame r1 e1, OFrame r2 e2 => has_frame r1 = has_frame r2 /\ e1 = e2
  | OPanic s1, OPanic s2 => s1 = s2
  | _, _ => False
  end.

Definition outcome_masked (a b : outcome) : Prop :=
  match a, b with
  | OFrame r1 e1, OFrame r2 e2 => same_frame_masked r1 r2 /\ e1 = e2
  | OPanic s1, OPanic s2 => s1 = s2
  | _, _ => False
  end.

Definition clock_history_stmt : Prop :=
  forall E cfg fs clks clks' tb,
    Forall2 (fun c c' => clocks_compat E c c' = true) clks clks' ->
    fst (run E cfg clks fs tb) = fst (run E cfg clks' fs tb) /\
    Forall2 outcome_shape (snd (run E cfg clks fs tb)) (snd (run E cfg clks' fs tb)).

Definition clock_history_masked_stmt : Prop :=
  forall E cfg fs clks clks' tb,
    length (c_mac cfg) = 6%nat -> http_tpl_ok E = true ->
    Forall2 (fun c c' => clocks_compat E c c' = true /\ date_clean c = true /\ date_clean c' = true /\
                         length (clk_date c) = length (clk_date c')) clks clks' ->
    fst (run E cfg clks fs tb) = fst (run E cfg clks' fs tb) /\
    Forall2 outcome_masked (snd (run E cfg clks fs tb)) (snd (run E cfg clks' fs tb)).

(* the side condition of (1) cannot be dropped: some frame is answered under one clock and
   kills the process under another *)
Definition clock_panic_stmt (E : env) : Prop :=
  exists cfg clk clk' f tb r evs s,
    reply E cfg clk [] f = Ok (tb, Some r, evs) /\ reply E cfg clk' [] f = Panic s.
