(* Properties/C16frame.v -- C16 (ONC-RPC / portmapper) as a theorem about received and
   emitted Ethernet frames: the frame-level monitors of Spec/C16.v hold of everything
   reply() emits.  Identification by the compiled matcher is NOT assumed per frame; what
   remains is the explicit hypothesis [rpc_ident_ok E strict tcp]:

       forall p, bytes_ok p = true ->
         (p is a call in scope [and, strict = false, outside the known class rpc_shadowed])
         -> the compiled matcher identifies p as ONC-RPC

   i.e. property C10 for the two RPC signatures.  [C16_ident_from_C10] shows how C10's
   product check (C10_current : forall s, D0 s = false -> udp_id the_env s = ref_udp s)
   discharges it.  Proofs: Proofs/LiftTcp.v (generic lift), Proofs/C16Frame.v. *)
From MS Require Import Rpc Proto L2 Spec.View Spec.RefDec Spec.TcpRef Spec.RefXdr Spec.AppView Spec.History
  Spec.C16 Instance
  Proofs.TcpState Proofs.C07 Proofs.LiftTcp Proofs.C16Examples Proofs.FrameBuild Proofs.C16Frame.

(* ---- every frame, UDP ---- *)
(* pointwise form: the hypothesis is about the payload of THIS frame only; [strict] selects
   the monitor (true: as worded; false: known class excluded) *)
Theorem C16_frame_udp_at :
  forall E cfg clk tb f tb' r evs strict,
    cfg_ok cfg = true -> bytes_ok f = true ->
    (forall ctx p, udp_req cfg f = Some (ctx, p) -> rpc_ident_at E strict false p) ->
    reply E cfg clk tb f = Ok (tb', r, evs) ->
    ok_app_udp (app_ok_C16_gen strict) cfg f r = true.
Proof. exact frame_udp_C16_gen. Qed.

Theorem C16_frame_udp :
  forall E cfg clk tb f tb' r evs,
    cfg_ok cfg = true -> bytes_ok f = true -> rpc_ident_ok E false false ->
    reply E cfg clk tb f = Ok (tb', r, evs) ->
    ok_C16_udp cfg f r = true.
Proof. exact frame_udp_C16. Qed.

(* ---- every frame, TCP: the first accepted data segment of a flow ---- *)
Theorem C16_frame_tcp_first_state_at :
  forall E cfg clk tb f tb' r evs v strict,
    cfg_ok cfg = true -> bytes_ok f = true ->
    view_tcp cfg f = Some v ->
    is_data (tcp_flags (v_l4 v)) = true ->
    tbl_mem (flow_cookie cfg (flow_of v)) tb = false ->
    presents_cookie cfg v = true ->
    rpc_ident_at E strict true (tcp_payload (v_l4 v)) ->
    reply E cfg clk tb f = Ok (tb', r, evs) ->
    exists o, tcp_resp r = Some o /\ app_ok_C16_gen strict (ctx_of true v) (tcp_payload (v_l4 v)) o = true.
Proof. exact frame_tcp_C16_gen_state. Qed.

Theorem C16_frame_tcp_first_history_at :
  forall E cfg h clk tb f tb' r evs strict,
    cfg_ok cfg = true ->
    Forall (fun x => bytes_ok x = true) (frames h) -> bytes_ok f = true ->
    run E cfg [] h = Ok tb ->
    (forall v, view_tcp cfg f = Some v -> no_collision cfg (flow_of v :: ref_run cfg (frames h))) ->
    (forall ctx p, tcp_first_req cfg (ref_run cfg (frames h)) f = Some (ctx, p) -> rpc_ident_at E strict true p) ->
    reply E cfg clk tb f = Ok (tb', r, evs) ->
    ok_app_tcp_first (app_ok_C16_gen strict) cfg (ref_run cfg (frames h)) f r = true.
Proof. exact frame_tcp_C16_gen_history. Qed.

Theorem C16_frame_tcp_first :
  forall E cfg h clk tb f tb' r evs,
    cfg_ok cfg = true -> rpc_ident_ok E false true ->
    Forall (fun x => bytes_ok x = true) (frames h) -> bytes_ok f = true ->
    run E cfg [] h = Ok tb ->
    (forall v, view_tcp cfg f = Some v -> no_collision cfg (flow_of v :: ref_run cfg (frames h))) ->
    reply E cfg clk tb f = Ok (tb', r, evs) ->
    ok_C16_tcp cfg (ref_run cfg (frames h)) f r = true.
Proof. exact frame_tcp_C16. Qed.

(* ---- frames whose payload is identified as ONC-RPC: strict and non-strict monitors,
   nothing assumed of the matcher ---- *)
Theorem C16_frame_udp_identified :
  forall E cfg clk tb f tb' r evs ctx p,
    cfg_ok cfg = true -> bytes_ok f = true ->
    udp_req cfg f = Some (ctx, p) -> udp_id E p = Some PROTO_RPC_UDP ->
    reply E cfg clk tb f = Ok (tb', r, evs) ->
    ok_C16_udp_strict cfg f r = true /\ ok_C16_udp cfg f r = true.
Proof. exact frame_udp_C16_identified. Qed.

Theorem C16_frame_tcp_identified :
  forall E cfg h clk tb f tb' r evs ctx p,
    cfg_ok cfg = true ->
    Forall (fun x => bytes_ok x = true) (frames h) -> bytes_ok f = true ->
    run E cfg [] h = Ok tb ->
    (forall v, view_tcp cfg f = Some v -> no_collision cfg (flow_of v :: ref_run cfg (frames h))) ->
    tcp_first_req cfg (ref_run cfg (frames h)) f = Some (ctx, p) -> tcp_first_id E p = Some PROTO_RPC_TCP ->
    reply E cfg clk tb f = Ok (tb', r, evs) ->
    ok_C16_tcp_strict cfg (ref_run cfg (frames h)) f r = true /\
    ok_C16_tcp cfg (ref_run cfg (frames h)) f r = true.
Proof. exact frame_tcp_C16_identified. Qed.

(* ---- discharging the hypothesis from C10 ---- *)
(* given C10's statement for the current tables (the compiled matcher agrees with the
   reference identification [ref] outside the known-disagreement language [D0]), the
   hypothesis follows from two facts about the REFERENCE signature set alone *)
Theorem C16_ident_from_C10 :
  forall E strict tcp (ref : bytes -> option N) (D0 : bytes -> bool),
    (forall p, D0 p = false -> c16_id E tcp p = ref p) ->
    (forall p, bytes_ok p = true -> c16_demands strict tcp p = true ->
               D0 p = false /\ ref p = Some (c16_proto tcp)) ->
    rpc_ident_ok E strict tcp.
Proof. exact rpc_ident_ok_of_ref. Qed.

(* ---- non-vacuity on the current data ---- *)
Theorem C16_frame_examples :
  (cfg_ok fx_cfg = true /\ bytes_ok c16_udp_frame = true /\
   udp_req fx_cfg c16_udp_frame = Some (fx_ctx true false 40000 111, c16_udp_payload) /\
   scope_call false c16_udp_payload = Some x_getport /\ rpc_shadowed false c16_udp_payload = false /\
   c16_demands true false c16_udp_payload = true /\
   udp_id the_env c16_udp_payload = Some PROTO_RPC_UDP /\
   (exists tb' evs, reply the_env fx_cfg fx_clk [] c16_udp_frame = Ok (tb', c16_udp_reply, evs)) /\
   reply_decoded false x_getport (udp_resp c16_udp_reply) =
     Some {| rp_xid := 2712847316; rp_verf_flavor := 0; rp_verf := []; rp_body := AccSuccess (ResPort 111) |} /\
   ok_C16_udp_strict fx_cfg c16_udp_frame c16_udp_reply = true /\
   ok_C16_udp fx_cfg c16_udp_frame c16_udp_reply = true) /\
  (bytes_ok c16_tcp_frame = true /\
   Forall (fun x => bytes_ok x = true) (frames c16_tcp_hist) /\
   run the_env fx_cfg [] c16_tcp_hist = Ok [] /\ ref_run fx_cfg (frames c16_tcp_hist) = [] /\
   tcp_first_req fx_cfg [] c16_tcp_frame = Some (fx_ctx false true 50000 111, c16_tcp_payload) /\
   scope_call true c16_tcp_payload = Some x_getaddr /\ rpc_shadowed true c16_tcp_payload = false /\
   c16_demands true true c16_tcp_payload = true /\
   tcp_first_id the_env c16_tcp_payload = Some PROTO_RPC_TCP /\
   (exists tb' evs, reply the_env fx_cfg fx_clk [] c16_tcp_frame = Ok (tb', c16_tcp_reply, evs)) /\
   reply_decoded true x_getaddr (tcp_resp c16_tcp_reply) =
     Some (expected_reply (fx_ctx false true 50000 111) x_getaddr) /\
   ok_C16_tcp_strict fx_cfg [] c16_tcp_frame c16_tcp_reply = true /\
   ok_C16_tcp fx_cfg [] c16_tcp_frame c16_tcp_reply = true).
Proof. exact (conj ex_C16_udp_frame ex_C16_tcp_frame). Qed.

Print Assumptions C16_frame_udp_at.
Print Assumptions C16_frame_udp.
Print Assumptions C16_frame_tcp_first_state_at.
Print Assumptions C16_frame_tcp_first_history_at.
Print Assumptions C16_frame_tcp_first.
Print Assumptions C16_frame_udp_identified.
Print Assumptions C16_frame_tcp_identified.
Print Assumptions C16_ident_from_C10.
Print Assumptions C16_frame_examples.
