(* C11Witness.v -- known finding: when the first segment ends inside the protocol
   signature, the request is lost. "GE" | "T / HTTP/1.0\n\n" is never answered
   although the same stream in one segment is. Computed on the current tables. *)
From MS Require Import Proto Spec.AppView Spec.C11 Instance.

Definition w11_clk : clock := {| clk_date := [68]; clk_filetime := 0 |}.
Definition w11_ci : cinfo :=
  {| ci_mac_src := None; ci_mac_dst := None; ci_ip_src := Some (V4 [10; 0; 0; 9]); ci_ip_dst := Some (V4 [10; 0; 0; 1]);
     ci_transport := Some 6; ci_port_src := Some 40123; ci_port_dst := Some 8080; ci_cookie := Some 1 |}.
(* "GET / HTTP/1.0\n\n" *)
Definition w11_stream : bytes := [71; 69; 84; 32; 47; 32; 72; 84; 84; 80; 47; 49; 46; 48; 10; 10].

Definition answered (o : res (list (option bytes))) : bool :=
  match o with Ok l => existsb (fun x => match x with Some _ => true | None => false end) l | Panic _ => false end.

Theorem refuted_short_first_segment :
  answered (tcp_stream the_env w11_clk w11_ci tcb_new [w11_stream]) = true /\
  answered (tcp_stream the_env w11_clk w11_ci tcb_new [firstn 2 w11_stream; skipn 2 w11_stream]) = false /\
  concat [firstn 2 w11_stream; skipn 2 w11_stream] = w11_stream.
Proof. vm_compute. repeat split; reflexivity. Qed.
