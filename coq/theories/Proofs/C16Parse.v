(* C16Parse.v -- the byte-at-a-time call parser of Rpc.v on serialised calls:
   it ends in R_END with the call's xid / program / version / procedure for all
   credential and verifier lengths (padded or not), exactly at stream offset
   40 + |cred| (44 + |cred| behind a record mark) and not before; R_END is
   absorbing; no accumulator can overflow and [read_string] is never entered
   with a zero length (C01 sites of rpc.rs). *)
From MS Require Import Proofs.Tactics Rpc Spec.RefXdr Proofs.C16Xdr.

(* ---- generic facts: fold, absorbing end state ---- *)
Lemma rpc_parse_app (s : rpc_st) (a b : bytes) : rpc_parse (rpc_parse s a) b = rpc_parse s (a ++ b).
Proof. unfold rpc_parse. symmetry. apply fold_left_app. Qed.

Lemma rpc_byte_end (s : rpc_st) (b : N) : r_state s = R_END -> rpc_byte s b = s.
Proof. intros H. unfold rpc_byte. rewrite H. reflexivity. Qed.

Lemma rpc_parse_end (s : rpc_st) (l : bytes) : r_state s = R_END -> rpc_parse s l = s.
Proof.
  intros H. induction l as [|b l IH]; [reflexivity|].
  unfold rpc_parse in *. cbn [fold_left]. rewrite (rpc_byte_end s b H). exact IH.
Qed.

(* ---- the fixed header: eight words ---- *)
Definition mkst (st cur dl x p v pr mt : N) : rpc_st :=
  {| r_state := st; r_cur_len := cur; r_data_len := dl; r_xid := x; r_prog := p; r_progvers := v;
     r_proc := pr; r_mtype := mt |}.
Definition word (a b c d : N) : N := acc (acc (acc (acc 0 a) b) c) d.

Lemma word_be32 (x : N) :
  x < 4294967296 -> word ((x / 16777216) mod 256) ((x / 65536) mod 256) ((x / 256) mod 256) (x mod 256) = x.
Proof. intros H. unfold word, acc, wrap32. lia. Qed.

Lemma parse_hdr (x0 x1 x2 x3 m0 m1 m2 m3 r0 r1 r2 r3 p0 p1 p2 p3 v0 v1 v2 v3 c0 c1 c2 c3
                 f0 f1 f2 f3 l0 l1 l2 l3 : N) (rest : bytes) :
  rpc_parse (rpc_new R_XID)
    (x0 :: x1 :: x2 :: x3 :: m0 :: m1 :: m2 :: m3 :: r0 :: r1 :: r2 :: r3 :: p0 :: p1 :: p2 :: p3 ::
     v0 :: v1 :: v2 :: v3 :: c0 :: c1 :: c2 :: c3 :: f0 :: f1 :: f2 :: f3 :: l0 :: l1 :: l2 :: l3 :: rest) =
  rpc_parse (if word l0 l1 l2 l3 =? 0
             then mkst R_VFLAVOR 0 (word l0 l1 l2 l3) (word x0 x1 x2 x3) (word p0 p1 p2 p3)
                       (word v0 v1 v2 v3) (word c0 c1 c2 c3) (word m0 m1 m2 m3)
             else mkst R_CREDS 0 (word l0 l1 l2 l3) (word x0 x1 x2 x3) (word p0 p1 p2 p3)
                       (word v0 v1 v2 v3) (word c0 c1 c2 c3) (word m0 m1 m2 m3)) rest.
Proof. reflexivity. Qed.

Lemma parse_frag (a b c d : N) (rest : bytes) :
  rpc_parse (rpc_new R_FRAG) (a :: b :: c :: d :: rest) = rpc_parse (rpc_new R_XID) rest.
Proof. reflexivity. Qed.

(* state after the header of a call, as a function of the call *)
Definition after_hdr (mt : N) (c : rpc_call) : rpc_st :=
  mkst (if lenN (rc_cred c) =? 0 then R_VFLAVOR else R_CREDS) 0 (lenN (rc_cred c))
       (rc_xid c) (rc_prog c) (rc_vers c) (rc_proc c) mt.

Definition call_hdr (mt : N) (c : rpc_call) : bytes :=
  xdr_u32 (rc_xid c) ++ xdr_u32 mt ++ xdr_u32 (rc_rpcvers c) ++ xdr_u32 (rc_prog c) ++
  xdr_u32 (rc_vers c) ++ xdr_u32 (rc_proc c) ++ xdr_u32 (rc_cred_flavor c) ++ xdr_u32 (lenN (rc_cred c)).
Definition call_rest (c : rpc_call) : bytes :=
  rc_cred c ++ zeros (xpad (length (rc_cred c))) ++ xdr_u32 (rc_verf_flavor c) ++ xdr_opaque (rc_verf c).

Lemma ser_msg_split (mt : N) (c : rpc_call) : ser_msg mt c = call_hdr mt c ++ call_rest c.
Proof. unfold ser_msg, call_hdr, call_rest, xdr_opaque. rewrite <- !app_assoc. reflexivity. Qed.

Lemma call_hdr_length (mt : N) (c : rpc_call) : length (call_hdr mt c) = 32%nat.
Proof. reflexivity. Qed.

Lemma parse_call_hdr (mt : N) (c : rpc_call) (rest : bytes) :
  mt < 4294967296 -> call_wf c = true ->
  rpc_parse (rpc_new R_XID) (call_hdr mt c ++ rest) = rpc_parse (after_hdr mt c) rest.
Proof.
  intros Hmt Hwf. apply call_wf_iff in Hwf. destruct Hwf as (H1 & H2 & H3 & H4 & H5 & H6 & H7 & H8 & H9).
  unfold call_hdr, xdr_u32, be32. cbn [app]. rewrite parse_hdr.
  rewrite !word_be32 by assumption. unfold after_hdr.
  destruct (lenN (rc_cred c) =? 0); reflexivity.
Qed.

(* ---- credentials: exactly data_len bytes, no padding is skipped ---- *)
Lemma parse_creds (l rest : bytes) : forall s,
  r_state s = R_CREDS -> r_data_len s = lenN l -> l <> [] ->
  rpc_parse s (l ++ rest) = rpc_parse (upd s R_VFLAVOR (r_cur_len s) 0) rest.
Proof.
  induction l as [|b l IH]; intros s Hst Hdl Hne; [congruence|].
  cbn [app]. unfold rpc_parse. cbn [fold_left]. fold (rpc_parse (rpc_byte s b) (l ++ rest)).
  assert (Hstep : rpc_byte s b = upd s (if lenN l =? 0 then R_VFLAVOR else R_CREDS) (r_cur_len s) (lenN l)).
  { unfold rpc_byte. rewrite Hst, Hdl. cbv beta zeta.
    change (R_CREDS =? R_FRAG) with false. change (R_CREDS =? R_XID) with false.
    change (R_CREDS =? R_MTYPE) with false. change (R_CREDS =? R_RPCVERS) with false.
    change (R_CREDS =? R_PROG) with false. change (R_CREDS =? R_PROGVERS) with false.
    change (R_CREDS =? R_PROC) with false. change (R_CREDS =? R_CFLAVOR) with false.
    change (R_CREDS =? R_CLEN) with false. change (R_CREDS =? R_CREDS) with true. cbv iota.
    replace (lenN (b :: l) - 1) with (lenN l) by (unfold lenN; cbn [length]; lia).
    destruct (lenN l =? 0); reflexivity. }
  rewrite Hstep. destruct l as [|b' l'].
  - cbn [app]. reflexivity.
  - replace (lenN (b' :: l') =? 0) with false by (unfold lenN; cbn [length]; lia).
    rewrite IH; [reflexivity | reflexivity | reflexivity | discriminate].
Qed.

(* ---- verifier flavor + verifier length: 8 bytes, then R_END whatever the length says ---- *)
Lemma parse_vf8 (st : rpc_st) (a0 a1 a2 a3 a4 a5 a6 a7 : N) :
  r_state st = R_VFLAVOR -> r_cur_len st = 0 ->
  exists dl, rpc_parse st [a0; a1; a2; a3; a4; a5; a6; a7] = upd st R_END 0 dl.
Proof.
  destruct st as [s cur dl x p v pr sc]. cbn [r_state r_cur_len]. intros -> ->.
  exists (acc (acc (acc (acc dl a4) a5) a6) a7). reflexivity.
Qed.

Lemma parse_vf7 (st : rpc_st) (l : bytes) :
  r_state st = R_VFLAVOR -> r_cur_len st = 0 -> (length l < 8)%nat ->
  r_state (rpc_parse st l) <> R_END.
Proof.
  destruct st as [s cur dl x p v pr sc]. cbn [r_state r_cur_len]. intros -> -> Hl.
  destruct l as [|a0 [|a1 [|a2 [|a3 [|a4 [|a5 [|a6 [|a7 l]]]]]]]]; cbn [length] in Hl; try lia;
    vm_compute; discriminate.
Qed.

Lemma parse_from_vflavor (st : rpc_st) (l : bytes) :
  r_state st = R_VFLAVOR -> r_cur_len st = 0 -> (8 <= length l)%nat ->
  exists dl, rpc_parse st l = upd st R_END 0 dl.
Proof.
  intros Hs Hc Hl.
  destruct l as [|a0 [|a1 [|a2 [|a3 [|a4 [|a5 [|a6 [|a7 l]]]]]]]]; cbn [length] in Hl; try lia.
  change (a0 :: a1 :: a2 :: a3 :: a4 :: a5 :: a6 :: a7 :: l) with ([a0; a1; a2; a3; a4; a5; a6; a7] ++ l).
  rewrite <- rpc_parse_app. destruct (parse_vf8 st a0 a1 a2 a3 a4 a5 a6 a7 Hs Hc) as [dl ->].
  exists dl. apply rpc_parse_end. reflexivity.
Qed.

(* ---- from the state after the header ---- *)
Definition end_like (mt : N) (c : rpc_call) (s : rpc_st) : Prop :=
  r_state s = R_END /\ r_xid s = rc_xid c /\ r_prog s = rc_prog c /\
  r_progvers s = rc_vers c /\ r_proc s = rc_proc c /\ r_mtype s = mt.

Lemma call_rest_tail_len (c : rpc_call) (tail : bytes) :
  (8 <= length (zeros (xpad (length (rc_cred c))) ++ xdr_u32 (rc_verf_flavor c) ++ xdr_opaque (rc_verf c) ++ tail))%nat.
Proof. rewrite !app_length. unfold xdr_opaque. rewrite !app_length. cbn [xdr_u32 be32 length]. lia. Qed.

(* the credentials and any 8 further bytes *)
Lemma parse_after_hdr_gen (mt : N) (c : rpc_call) (q : bytes) :
  (8 <= length q)%nat -> end_like mt c (rpc_parse (after_hdr mt c) (rc_cred c ++ q)).
Proof.
  intros Hq. destruct (rc_cred c) as [|b l] eqn:Hcred.
  - cbn [app]. unfold after_hdr. rewrite Hcred. change (lenN [] =? 0) with true. cbv iota.
    destruct (parse_from_vflavor (mkst R_VFLAVOR 0 (lenN []) (rc_xid c) (rc_prog c) (rc_vers c) (rc_proc c) mt)
                q eq_refl eq_refl Hq) as [dl ->].
    unfold end_like. cbn. tauto.
  - unfold after_hdr. rewrite Hcred.
    replace (lenN (b :: l) =? 0) with false by (unfold lenN; cbn [length]; lia).
    rewrite parse_creds; [| reflexivity | reflexivity | discriminate].
    destruct (parse_from_vflavor
                (upd (mkst R_CREDS 0 (lenN (b :: l)) (rc_xid c) (rc_prog c) (rc_vers c) (rc_proc c) mt) R_VFLAVOR
                     (r_cur_len (mkst R_CREDS 0 (lenN (b :: l)) (rc_xid c) (rc_prog c) (rc_vers c) (rc_proc c) mt)) 0)
                q eq_refl eq_refl Hq) as [dl ->].
    unfold end_like. cbn. tauto.
Qed.

Lemma parse_after_hdr (mt : N) (c : rpc_call) (tail : bytes) :
  end_like mt c (rpc_parse (after_hdr mt c) (call_rest c ++ tail)).
Proof.
  unfold call_rest. rewrite <- !app_assoc. apply parse_after_hdr_gen, call_rest_tail_len.
Qed.

(* ---- parser correctness on serialised messages ---- *)
Theorem rpc_parse_msg (mt : N) (c : rpc_call) (tail : bytes) :
  mt < 4294967296 -> call_wf c = true ->
  end_like mt c (rpc_parse (rpc_new R_XID) (ser_msg mt c ++ tail)).
Proof.
  intros Hmt Hwf. rewrite ser_msg_split, <- app_assoc, parse_call_hdr by assumption.
  apply parse_after_hdr.
Qed.

Theorem rpc_parse_call (c : rpc_call) (tail : bytes) :
  call_wf c = true -> end_like 0 c (rpc_parse (rpc_new R_XID) (ser_call c ++ tail)).
Proof. intros Hwf. apply (rpc_parse_msg 0 c tail); [reflexivity | exact Hwf]. Qed.

Theorem rpc_parse_msg_tcp (mt : N) (c : rpc_call) (m0 m1 m2 m3 : N) (tail : bytes) :
  mt < 4294967296 -> call_wf c = true ->
  end_like mt c (rpc_parse (rpc_new R_FRAG) ([m0; m1; m2; m3] ++ ser_msg mt c ++ tail)).
Proof. intros Hmt Hwf. cbn [app]. rewrite parse_frag. apply rpc_parse_msg; assumption. Qed.

(* ---- a lower bound on the number of bytes still needed to reach R_END ---- *)
Definition need (s : rpc_st) : N :=
  let st := r_state s in
  if st <=? R_CLEN then 4 * (R_CLEN - st) + (4 - r_cur_len s) + 8
  else if st =? R_CREDS then r_data_len s + (8 - r_cur_len s)
  else if st =? R_VFLAVOR then 8 - r_cur_len s
  else if st =? R_VLEN then 4 - r_cur_len s
  else if st =? R_VERIF then 1
  else 0.

Lemma need_end (s : rpc_st) : 0 < need s -> r_state s <> R_END.
Proof. intros H E. unfold need in H. rewrite E in H. vm_compute in H. discriminate. Qed.

Ltac projs := cbn [r_state r_cur_len r_data_len r_xid r_prog r_progvers r_proc r_mtype andb orb] in *.
Ltac split_ifs :=
  repeat (cbv beta iota zeta; projs;
          match goal with
          | |- context [if ?c then _ else _] => destruct c eqn:?; projs; try lia
          end).

Lemma need_step (s : rpc_st) (b : N) : need s <= need (rpc_byte s b) + 1.
Proof.
  destruct s as [st cur dl x p v pr sc].
  unfold rpc_byte, rd.
  unfold R_FRAG, R_XID, R_MTYPE, R_RPCVERS, R_PROG, R_PROGVERS, R_PROC, R_CFLAVOR, R_CLEN, R_CREDS,
    R_VFLAVOR, R_VLEN, R_VERIF, R_END.
  split_ifs;
  unfold need, upd, R_CLEN, R_CREDS, R_VFLAVOR, R_VLEN, R_VERIF, R_END; split_ifs.
Qed.

Lemma need_parse (l : bytes) : forall s, need s <= need (rpc_parse s l) + N.of_nat (length l).
Proof.
  induction l as [|b l IH]; intros s; [cbn [length rpc_parse fold_left]; unfold rpc_parse; cbn [fold_left]; lia|].
  unfold rpc_parse. cbn [fold_left length]. fold (rpc_parse (rpc_byte s b) l).
  pose proof (need_step s b). pose proof (IH (rpc_byte s b)). lia.
Qed.

Lemma need_after_hdr (mt : N) (c : rpc_call) : need (after_hdr mt c) = lenN (rc_cred c) + 8.
Proof.
  unfold after_hdr. destruct (lenN (rc_cred c) =? 0) eqn:E.
  - apply N.eqb_eq in E. rewrite E. reflexivity.
  - reflexivity.
Qed.

(* where the reply is triggered: the stream offset (number of bytes consumed) *)
Definition complete_at (c : rpc_call) : nat := (40 + length (rc_cred c))%nat.

(* truncation: no strict prefix of the first [complete_at c] bytes reaches R_END *)
Theorem rpc_parse_truncated (mt : N) (c : rpc_call) (tail : bytes) (n : nat) :
  mt < 4294967296 -> call_wf c = true -> (n < complete_at c)%nat ->
  r_state (rpc_parse (rpc_new R_XID) (firstn n (ser_msg mt c ++ tail))) <> R_END.
Proof.
  intros Hmt Hwf Hn. unfold complete_at in Hn. apply need_end.
  rewrite ser_msg_split, <- app_assoc.
  destruct (Nat.le_gt_cases n 32) as [Hle | Hgt].
  - pose proof (need_parse (firstn n (call_hdr mt c ++ call_rest c ++ tail)) (rpc_new R_XID)) as H.
    change (need (rpc_new R_XID)) with 40 in H. rewrite firstn_length in H. lia.
  - rewrite firstn_app, call_hdr_length.
    rewrite firstn_all2 by (rewrite call_hdr_length; lia).
    rewrite parse_call_hdr by assumption.
    pose proof (need_parse (firstn (n - 32) (call_rest c ++ tail)) (after_hdr mt c)) as H.
    rewrite need_after_hdr, firstn_length in H. unfold lenN in H. lia.
Qed.

(* ... and at [complete_at c] bytes it is reached *)
Theorem rpc_parse_complete (mt : N) (c : rpc_call) (tail : bytes) (n : nat) :
  mt < 4294967296 -> call_wf c = true -> (complete_at c <= n)%nat ->
  end_like mt c (rpc_parse (rpc_new R_XID) (firstn n (ser_msg mt c ++ tail))).
Proof.
  intros Hmt Hwf Hn. unfold complete_at in Hn.
  rewrite ser_msg_split, <- app_assoc.
  rewrite firstn_app, call_hdr_length.
  rewrite firstn_all2 by (rewrite call_hdr_length; lia).
  rewrite parse_call_hdr by assumption.
  unfold call_rest. rewrite <- !app_assoc.
  pose proof (call_rest_tail_len c tail) as Hlen.
  set (rest := zeros _ ++ _) in *.
  rewrite firstn_app. rewrite firstn_all2 by lia.
  apply parse_after_hdr_gen. rewrite firstn_length. lia.
Qed.

(* ---- C01 sites of rpc.rs: accumulators and read_string ---- *)
(* what a debug build checks at one step: `value * 256 + byte` on u32 and
   `data_len -= 1` *)
Definition step_safe (s : rpc_st) (b : N) : bool :=
  let st := r_state s in
  (if st =? R_XID then r_xid s * 256 + b <? 4294967296 else true) &&
  (if st =? R_MTYPE then r_mtype s * 256 + b <? 4294967296 else true) &&
  (if st =? R_PROG then r_prog s * 256 + b <? 4294967296 else true) &&
  (if st =? R_PROGVERS then r_progvers s * 256 + b <? 4294967296 else true) &&
  (if st =? R_PROC then r_proc s * 256 + b <? 4294967296 else true) &&
  (if (st =? R_CLEN) || (st =? R_VLEN) then r_data_len s * 256 + b <? 4294967296 else true) &&
  (if (st =? R_CREDS) || (st =? R_VERIF) then 1 <=? r_data_len s else true).

Definition p256 (n : N) : N := if n =? 0 then 1 else if n =? 1 then 256 else if n =? 2 then 65536 else 16777216.

(* reachable states: counters below 4, each accumulator below 256^cur_len while
   it is being read and zero before, read_string only with a positive length,
   the Verif state never *)
Definition rpc_inv (s : rpc_st) : Prop :=
  let st := r_state s in
  r_cur_len s <= 3 /\ st <= R_END /\ st <> R_VERIF /\
  (st < R_XID -> r_xid s = 0) /\ (st = R_XID -> r_xid s < p256 (r_cur_len s)) /\
  (st < R_MTYPE -> r_mtype s = 0) /\ (st = R_MTYPE -> r_mtype s < p256 (r_cur_len s)) /\
  (st < R_PROG -> r_prog s = 0) /\ (st = R_PROG -> r_prog s < p256 (r_cur_len s)) /\
  (st < R_PROGVERS -> r_progvers s = 0) /\ (st = R_PROGVERS -> r_progvers s < p256 (r_cur_len s)) /\
  (st < R_PROC -> r_proc s = 0) /\ (st = R_PROC -> r_proc s < p256 (r_cur_len s)) /\
  (st < R_CLEN -> r_data_len s = 0) /\ (st = R_CLEN -> r_data_len s < p256 (r_cur_len s)) /\
  (st = R_CREDS -> 1 <= r_data_len s /\ r_cur_len s = 0) /\
  (st = R_VFLAVOR -> r_data_len s = 0) /\ (st = R_VLEN -> r_data_len s < p256 (r_cur_len s)).

Lemma rpc_inv_new_xid : rpc_inv (rpc_new R_XID).
Proof.
  unfold rpc_inv, rpc_new. projs. change (p256 0) with 1.
  unfold R_FRAG, R_XID, R_MTYPE, R_RPCVERS, R_PROG, R_PROGVERS, R_PROC, R_CFLAVOR, R_CLEN, R_CREDS,
    R_VFLAVOR, R_VLEN, R_VERIF, R_END. lia.
Qed.
Lemma rpc_inv_new_frag : rpc_inv (rpc_new R_FRAG).
Proof.
  unfold rpc_inv, rpc_new. projs. change (p256 0) with 1.
  unfold R_FRAG, R_XID, R_MTYPE, R_RPCVERS, R_PROG, R_PROGVERS, R_PROC, R_CFLAVOR, R_CLEN, R_CREDS,
    R_VFLAVOR, R_VLEN, R_VERIF, R_END. lia.
Qed.

(* one step from a reachable state: nothing a debug build checks can fail, the
   state stays reachable, and the control state never moves backwards *)
Ltac simp_imps :=
  repeat match goal with
         | H : _ /\ _ |- _ => destruct H
         | H : (_ = _) -> _ |- _ => first [specialize (H eq_refl) | clear H]
         | H : (_ < _) -> _ |- _ => first [specialize (H eq_refl) | clear H]
         end.

Ltac eval_tests :=
  repeat (progress (repeat match goal with
          | |- context [?a =? ?b] =>
            let v := eval vm_compute in (a =? b) in
            match v with
            | true => change (a =? b) with true
            | false => change (a =? b) with false
            end
          end; cbv beta iota zeta; projs)).

Lemma rpc_inv_step (s : rpc_st) (b : N) :
  b < 256 -> rpc_inv s ->
  step_safe s b = true /\ rpc_inv (rpc_byte s b) /\ r_state s <= r_state (rpc_byte s b).
Proof.
  intros Hb Hinv. destruct s as [st cur dl x p v pr mt].
  unfold rpc_inv in Hinv. projs.
  destruct Hinv as (Hc3 & Hle & Hnv & Hrest).
  assert (Hcur : cur = 0 \/ cur = 1 \/ cur = 2 \/ cur = 3) by (clear - Hc3; lia).
  unfold R_FRAG, R_XID, R_MTYPE, R_RPCVERS, R_PROG, R_PROGVERS, R_PROC, R_CFLAVOR, R_CLEN, R_CREDS,
    R_VFLAVOR, R_VLEN, R_VERIF, R_END in *.
  assert (Hst : st = 0 \/ st = 1 \/ st = 2 \/ st = 3 \/ st = 4 \/ st = 5 \/ st = 6 \/ st = 7 \/ st = 8 \/
                st = 9 \/ st = 10 \/ st = 11 \/ st = 13) by (clear - Hle Hnv; lia).
  clear Hle Hnv Hc3.
  destruct Hst as [-> | [-> | [-> | [-> | [-> | [-> | [-> | [-> | [-> | [-> | [-> | [-> | ->]]]]]]]]]]]];
    simp_imps;
    destruct Hcur as [-> | [-> | [-> | ->]]];
    change (p256 0) with 1 in *; change (p256 1) with 256 in *; change (p256 2) with 65536 in *;
    change (p256 3) with 16777216 in *;
    unfold step_safe, rpc_inv, rpc_byte, rd, acc, wrap32; projs;
    unfold R_FRAG, R_XID, R_MTYPE, R_RPCVERS, R_PROG, R_PROGVERS, R_PROC, R_CFLAVOR, R_CLEN, R_CREDS,
      R_VFLAVOR, R_VLEN, R_VERIF, R_END;
    eval_tests;
    repeat match goal with |- context [if ?c then _ else _] => destruct c eqn:? end;
    unfold upd; projs;
    change (0 + 1) with 1; change (1 + 1) with 2; change (2 + 1) with 3;
    change (p256 0) with 1; change (p256 1) with 256; change (p256 2) with 65536;
    change (p256 3) with 16777216;
    (split; [lia | split; [repeat split; intros; lia | lia]]).
Qed.

(* lifted to whole inputs *)
Lemma rpc_inv_parse (l : bytes) : forall s,
  bytes_ok l = true -> rpc_inv s -> rpc_inv (rpc_parse s l) /\ r_state s <= r_state (rpc_parse s l).
Proof.
  induction l as [|b l IH]; intros s Hok Hinv.
  - unfold rpc_parse. cbn [fold_left]. split; [exact Hinv | lia].
  - cbn [bytes_ok forallb] in Hok. rewrite andb_true_iff in Hok. destruct Hok as [Hb Hl].
    unfold byte_ok in Hb. apply N.ltb_lt in Hb.
    destruct (rpc_inv_step s b Hb Hinv) as (_ & Hinv' & Hmono).
    destruct (IH (rpc_byte s b) Hl Hinv') as [Hi Hm].
    unfold rpc_parse in *. cbn [fold_left]. split; [exact Hi | lia].
Qed.

(* every step of every run from a fresh state is safe *)
Theorem rpc_steps_safe (st0 : N) (pre : bytes) (b : N) :
  st0 = R_FRAG \/ st0 = R_XID -> bytes_ok (pre ++ [b]) = true ->
  step_safe (rpc_parse (rpc_new st0) pre) b = true.
Proof.
  intros Hst Hok. rewrite bytes_ok_app, andb_true_iff in Hok. destruct Hok as [Hpre Hb].
  cbn [bytes_ok forallb] in Hb. rewrite andb_true_r in Hb. unfold byte_ok in Hb. apply N.ltb_lt in Hb.
  assert (Hinv : rpc_inv (rpc_new st0)) by (destruct Hst as [-> | ->]; [apply rpc_inv_new_frag | apply rpc_inv_new_xid]).
  destruct (rpc_inv_parse pre (rpc_new st0) Hpre Hinv) as [Hi _].
  destruct (rpc_inv_step _ b Hb Hi) as (Hsafe & _). exact Hsafe.
Qed.
