(* C11Witness.v -- the per-run obligation of the stream statements on the current tables, and
   replays.  Former finding (class short_first_segment): when the first segment ended inside
   the protocol signature the request was lost: "GE" | "T / HTTP/1.0\n\n" was never answered
   although the same stream in one segment was.  proto::repl now keeps the bytes of a flow
   until its protocol is identified (at most PENDING_MAX) and starts the handler on the whole
   stream so far: the same cuts are answered.  Computed on the current tables. *)
From MS Require Import Proto Spec.AppView Spec.C11 Instance.

Lemma current_proto_tbl_ok : proto_tbl_ok the_env = true.
Proof. vm_compute. reflexivity. Qed.

Definition w11_clk : clock := {| clk_date := [68]; clk_filetime := 0 |}.
Definition w11_ci : cinfo :=
  {| ci_mac_src := None; ci_mac_dst := None; ci_ip_src := Some (V4 [10; 0; 0; 9]); ci_ip_dst := Some (V4 [10; 0; 0; 1]);
     ci_transport := Some 6; ci_port_src := Some 40123; ci_port_dst := Some 8080; ci_cookie := Some 1 |}.
(* "GET / HTTP/1.0\n\n" *)
Definition w11_stream : bytes := [71; 69; 84; 32; 47; 32; 72; 84; 84; 80; 47; 49; 46; 48; 10; 10].

Definition answered (o : res (list (option bytes))) : bool :=
  match o with Ok l => existsb (fun x => match x with Some _ => true | None => false end) l | Panic _ => false end.

(* one byte per segment *)
Definition singletons (s : bytes) : list bytes := map (fun b => [b]) s.

Definition payloads (o : res (list (option bytes))) : list bytes :=
  match o with Ok l => flat_map (fun x => match x with Some d => [d] | None => [] end) l | Panic _ => [] end.

(* the stream in one segment, cut inside the signature, and one byte per segment: answered
   alike, with the same single payload, by the segment that completes the request *)
Theorem short_first_segment_answered :
  answered (tcp_stream the_env w11_clk w11_ci tcb_new [w11_stream]) = true /\
  answered (tcp_stream the_env w11_clk w11_ci tcb_new [firstn 2 w11_stream; skipn 2 w11_stream]) = true /\
  concat [firstn 2 w11_stream; skipn 2 w11_stream] = w11_stream /\
  payloads (tcp_stream the_env w11_clk w11_ci tcb_new [firstn 2 w11_stream; skipn 2 w11_stream]) =
  payloads (tcp_stream the_env w11_clk w11_ci tcb_new [w11_stream]) /\
  payloads (tcp_stream the_env w11_clk w11_ci tcb_new (singletons w11_stream)) =
  payloads (tcp_stream the_env w11_clk w11_ci tcb_new [w11_stream]) /\
  length (payloads (tcp_stream the_env w11_clk w11_ci tcb_new [w11_stream])) = 1%nat /\
  (exists outs, tcp_stream the_env w11_clk w11_ci tcb_new (singletons w11_stream) = Ok outs /\
                firstn 15 outs = repeat None 15 /\ nth 15 outs None <> None).
Proof. vm_compute. repeat split; try reflexivity. eexists. repeat split; discriminate. Qed.

(* the hypotheses of the stream theorems hold of this stream *)
Theorem w11_identified :
  bytes_ok w11_stream = true /\ tcp_first_id the_env w11_stream = Some PROTO_HTTP /\
  tcp_first_id the_env (firstn 2 w11_stream) = None.
Proof. vm_compute. repeat split; reflexivity. Qed.
