"""C05 -- ARP, neighbour discovery and echo are answered correctly, and only those."""
import struct
import net, gens
from runner import Script, Cfg

ID = "C05"
THEOREMS = ["C05_l2l3_services", "C05_arp_other_silent", "C05_arp_short_silent", "C05_icmp4_other_silent",
            "C05_icmp6_code_silent", "C05_icmp6_other_type_silent"]
MONITORS = ["C05"]
RULE = ("all 65536 ARP operations (thorough; quick: 0..300 and a grid), all 65536 ICMPv4 and ICMPv6 type/code pairs "
        "(thorough; quick: all 256 types with code 0 and 1, all codes for types 8/128/135), payload lengths 0..1472, NS "
        "option layouts and truncations, handled / unhandled targets; compared on the reply bytes after the L3 header; "
        "non-trivial = ARP / ICMP / ICMPv6 frame")
TRUSTED = ["Coq 8.16.1 kernel + vm_compute", "extraction (ExtrOcamlBasic) + ocaml/model_run.ml", "harness/*.py",
           "Rust hook verif_driver.rs", "pnet accessor semantics as modelled"]
ASSUMPTIONS = ["ARP requests with protocol type / address lengths other than IPv4-over-Ethernet are outside the positive "
               "clause (the code mirrors those fields)"]


def corpus():
    return []


def generate(tier, rng):
    thorough = tier == "thorough"
    for cfg in [Cfg(), Cfg(self_ips=[gens.SELF4, gens.SELF6])]:
        ops = range(65536) if thorough else sorted(set(list(range(0, 301)) + list(range(0, 65536, 251)) + [65535, 256, 512]))
        fr = [gens.arp_req(gens.SELF4, op=op) for op in ops]
        fr += [gens.arp_req(gens.OTHER4), gens.arp_req(gens.SELF4, trailer=b"\0" * 18), gens.arp_req(gens.SELF4, ptype=0x86dd),
               gens.arp_req(gens.SELF4, hlen=8, plen=16), gens.arp_req(gens.SELF4, htype=6),
               gens.arp_req(gens.SELF4, mac_dst=cfg.mac)]
        yield Script(cfg, fr, "arp-ops")
        pairs = [(t, c) for t in range(256) for c in ((range(256)) if (thorough or t in (8, 128, 135, 0, 129, 136)) else (0, 1))]
        fr = []
        for t, c in pairs:
            fr.append(gens.echo4(gens.PEER4, gens.SELF4, ty=t, code=c, data=b"0123456789"))
            body = b"\0\0\0\0" + net.ip_bytes(gens.SELF6) + b"\x01\x01" + net.MAC_PEER if t == 135 else struct.pack("!HH", 7, 9) + b"0123456789"
            fr.append(net.eth(cfg.mac, net.MAC_PEER, 0x86DD,
                              net.ipv6(gens.PEER6, gens.SELF6, 58, net.icmp6(gens.PEER6, gens.SELF6, t, c, body))))
        yield Script(cfg, fr, "icmp-type-code")
        fr = []
        for n in (list(range(0, 64)) + [127, 128, 129, 1000, 1471, 1472]) if not thorough else range(0, 1473):
            data = bytes((i * 13 + n) & 0xFF for i in range(n))
            fr.append(gens.echo4(gens.PEER4, gens.SELF4, data=data))
            fr.append(gens.echo6(gens.PEER6, gens.SELF6, data=data))
        # NS: truncations, option layouts, targets
        for trunc in range(0, 33):
            fr.append(gens.ns6(gens.PEER6, gens.SELF6, trunc=trunc))
        for opts in [b"", b"\x01\x01" + net.MAC_PEER, b"\x01\x00" + net.MAC_PEER, b"\x01\x20" + b"\0" * 6, b"\x01\xff" + b"\0" * 6,
                     b"\x0e\x01" + b"\0" * 6 + b"\x01\x01" + net.MAC_PEER, b"\x01"]:
            fr.append(gens.ns6(gens.PEER6, gens.SELF6, opts=opts))
        fr.append(gens.ns6(gens.PEER6, gens.OTHER6))
        fr.append(gens.ns6(gens.PEER6, gens.SELF6, dst=gens.SELF6, mac_dst=cfg.mac))
        # a solicitation for a handled target carried to a unicast address that is not handled (only the target decides)
        for d in (gens.OTHER6, "fe80::1", "2001:db8::77", gens.PEER6):
            fr.append(gens.ns6(gens.PEER6, gens.SELF6, dst=d, mac_dst=cfg.mac))
            fr.append(gens.ns6(gens.PEER6, gens.OTHER6, dst=d, mac_dst=cfg.mac))
        fr.append(gens.echo6(gens.PEER6, gens.OTHER6))
        fr.append(gens.echo6(gens.PEER6, "ff02::1", mac_dst=bytes.fromhex("333300000001")))
        yield Script(cfg, fr, "echo-sizes+ns-layouts")

    yield Script(Cfg(), gens.hostile_requests(rng), "hostile-requests")
    yield Script(Cfg(self_ips=[gens.SELF4, gens.SELF6]), gens.hostile_requests(rng), "hostile-requests:self-ips")

def nontrivial(script):
    return True


def project(script, i, o):
    if o.kind != "R":
        return (o.kind,)
    p = net.parse_frame(o.reply)
    if p is None:
        return ("R", "unparseable")
    if p.ety == 0x0806:
        return ("R", "arp", p.arp)
    if p.proto not in (1, 58):
        return ("R", p.ipver, p.proto)          # not an ARP / ICMP reply: other properties' subject
    return ("R", p.ipver, p.proto, p.l4[:2] + (net.icmp6_rest(p.l4) if p.proto == 58 else p.l4[4:]) if p.l4 is not None else None)
