(* Proofs/HttpLemmas.v -- basic facts about the HTTP parser model (Http.v):
   per-state equations of [http_byte], the post-verb phase as a plain fold,
   fuel irrelevance of [http_loop], and the three one-byte unfoldings of the
   VERB phase in terms of the first table transition. *)
From Coq Require Import Lia.
From MS Require Import Http Spec.HttpTbl Spec.C11http Proofs.Tactics Proofs.SmackSeg.

(* ---------- small generic facts ---------- *)
Lemma all_bytes_In (b : N) : b < 256 -> In b all_bytes.
Proof.
  intros H. unfold all_bytes. apply in_map_iff. exists (N.to_nat b). split; [lia|].
  apply in_seq. lia.
Qed.
Lemma memN_In (x : N) (l : list N) : memN x l = true <-> In x l.
Proof.
  unfold memN. rewrite existsb_exists. split.
  - intros (y & Hy & He). apply N.eqb_eq in He. subst. exact Hy.
  - intros H. exists x. split; [exact H | apply N.eqb_refl].
Qed.
Lemma bytes_ok_cons (b : N) (r : bytes) : bytes_ok (b :: r) = true -> b < 256 /\ bytes_ok r = true.
Proof. unfold bytes_ok. cbn [forallb]. rewrite andb_true_iff. unfold byte_ok. intros [H1 H2]. split; [lia | exact H2]. Qed.

(* ---------- states ---------- *)
Definition post_verb (s : http_st) : Prop := h_state s <> HTTP_START /\ h_state s <> HTTP_VERB.

Definition run (s : http_st) (data : bytes) : http_st := fold_left http_byte data s.

Lemma run_cons s b r : run s (b :: r) = run (http_byte s b) r.
Proof. reflexivity. Qed.
Lemma run_app s a b : run s (a ++ b) = run (run s a) b.
Proof. unfold run. apply fold_left_app. Qed.

Lemma http_byte_fail s b : h_state s = HTTP_FAIL -> http_byte s b = s.
Proof. intros H. unfold http_byte. rewrite H. reflexivity. Qed.
Lemma http_byte_content s b : h_state s = HTTP_CONTENT -> http_byte s b = s.
Proof. intros H. unfold http_byte. rewrite H. reflexivity. Qed.

Lemma run_fail s d : h_state s = HTTP_FAIL -> run s d = s.
Proof. induction d as [|b d IH]; intros H; [reflexivity|]. rewrite run_cons, http_byte_fail by exact H. auto. Qed.
Lemma run_content s d : h_state s = HTTP_CONTENT -> run s d = s.
Proof. induction d as [|b d IH]; intros H; [reflexivity|]. rewrite run_cons, http_byte_content by exact H. auto. Qed.

Lemma http_byte_post s b : post_verb s -> post_verb (http_byte s b).
Proof.
  intros [H0 H1]. unfold post_verb, http_byte in *.
  unfold HTTP_START, HTTP_VERB, HTTP_SPACE, HTTP_URI, HTTP_H, HTTP_SLASH, HTTP_VMAJ, HTTP_VMIN,
    HTTP_FIELD_START, HTTP_FIELD_NAME, HTTP_FIELD_VALUE, HTTP_CONTENT, HTTP_FAIL in *.
  repeat match goal with
         | |- context [if ?c then _ else _] => destruct c eqn:?
         end; cbn [h_state set_state set_state_bis]; lia.
Qed.

(* ---------- fuel irrelevance ---------- *)
Definition need (s : http_st) (d : bytes) : nat :=
  (length d + (if (h_state s =? HTTP_START)%N then 1 else 0))%nat.

Lemma verb_step_eq tbl s d id sm n :
  search_next tbl (h_smack s) d = (id, sm, n) ->
  http_verb_step tbl s d =
  (let s1 := {| h_state := h_state s; h_bis := h_bis s; h_smack := sm;
                h_verb := h_verb s ++ firstn n d; h_uri := h_uri s |} in
   match id with
   | Some i => if i =? 0 then set_state s1 HTTP_SPACE else s1
   | None => if sm =? UNANCHORED_STATE then set_state s1 HTTP_FAIL else s1
   end, n).
Proof.
  intros H. unfold http_verb_step. rewrite H. cbv zeta.
  destruct id as [[|p]|]; try reflexivity. destruct (sm =? UNANCHORED_STATE); reflexivity.
Qed.

Lemma verb_step_state tbl s d s' n :
  http_verb_step tbl s d = (s', n) -> h_state s = HTTP_VERB -> h_state s' <> HTTP_START.
Proof.
  intros H Hs. destruct (search_next tbl (h_smack s) d) as [[id sm] k] eqn:Hsn.
  rewrite (verb_step_eq _ _ _ _ _ _ Hsn) in H. cbv zeta in H. injection H as <- <-.
  destruct id as [i|]; [destruct (i =? 0) | destruct (sm =? UNANCHORED_STATE)];
    cbn [h_state set_state]; rewrite ?Hs; discriminate.
Qed.

Lemma http_loop_fuel tbl : forall f1 f2 s d,
  (need s d < f1)%nat -> (need s d < f2)%nat -> http_loop tbl f1 s d = http_loop tbl f2 s d.
Proof.
  induction f1 as [|f1 IH]; intros f2 s d H1 H2; [lia|]. destruct f2 as [|f2]; [lia|].
  destruct d as [|b r]; [reflexivity|]. cbn [http_loop]. unfold need in *. cbn [length] in *.
  destruct (h_state s =? HTTP_START) eqn:E0; rewrite ?E0 in *.
  - apply IH; unfold need; cbn [h_state set_state length]; change (HTTP_VERB =? HTTP_START) with false; cbv iota; lia.
  - destruct (h_state s =? HTTP_VERB) eqn:E1.
    + destruct (http_verb_step tbl s (b :: r)) as [s' n] eqn:Hv. destruct n as [|k]; [reflexivity|].
      apply N.eqb_eq in E1. pose proof (verb_step_state _ _ _ _ _ Hv E1) as Hn.
      assert (Hl : (length (skipn (S k) (b :: r)) <= length r)%nat)
        by (cbn [skipn]; rewrite skipn_length; lia).
      replace (h_state s' =? HTTP_START) with false in * by (symmetry; apply N.eqb_neq; exact Hn).
      apply IH; unfold need; replace (h_state s' =? HTTP_START) with false by (symmetry; apply N.eqb_neq; exact Hn); cbv iota; lia.
    + destruct (h_state s =? HTTP_FAIL); [reflexivity|].
      assert (Hp : post_verb s) by (split; apply N.eqb_neq; assumption).
      destruct (http_byte_post s b Hp) as [Hn _].
      apply IH; unfold need; replace (h_state (http_byte s b) =? HTTP_START) with false
        by (symmetry; apply N.eqb_neq; exact Hn); cbv iota; lia.
Qed.

Lemma http_loop_S tbl f s b r :
  http_loop tbl (S f) s (b :: r) =
  if h_state s =? HTTP_START then http_loop tbl f (set_state s HTTP_VERB) (b :: r)
  else if h_state s =? HTTP_VERB then
    let '(s', n) := http_verb_step tbl s (b :: r) in
    match n with
    | O => Panic PANIC_HTTP_VERB_ADVANCE
    | S _ => http_loop tbl f s' (skipn n (b :: r))
    end
  else if h_state s =? HTTP_FAIL then Ok s
  else http_loop tbl f (http_byte s b) r.
Proof. reflexivity. Qed.

Lemma http_parse_nil tbl s : http_parse tbl s [] = Ok s.
Proof. reflexivity. Qed.

(* a continuation of the loop with enough fuel is a parse of the rest *)
Lemma http_loop_parse tbl f s d :
  h_state s <> HTTP_START -> (length d < f)%nat -> http_loop tbl f s d = http_parse tbl s d.
Proof.
  intros Hn Hf. unfold http_parse. apply http_loop_fuel; unfold need;
    replace (h_state s =? HTTP_START) with false by (symmetry; apply N.eqb_neq; exact Hn); cbv iota; lia.
Qed.

Lemma http_parse_start tbl s d :
  h_state s = HTTP_START -> d <> [] -> http_parse tbl s d = http_parse tbl (set_state s HTTP_VERB) d.
Proof.
  intros H Hd. destruct d as [|b r]; [congruence|]. unfold http_parse at 1. cbn [length].
  rewrite http_loop_S. rewrite H. change (HTTP_START =? HTTP_START) with true. cbv iota.
  apply http_loop_parse; cbn [h_state set_state length]; [discriminate | lia].
Qed.

Lemma http_parse_post tbl : forall d s, post_verb s -> http_parse tbl s d = Ok (run s d).
Proof.
  induction d as [|b r IH]; intros s Hp; [reflexivity|].
  destruct Hp as [H0 H1]. unfold http_parse. cbn [length]. rewrite http_loop_S.
  replace (h_state s =? HTTP_START) with false by (symmetry; apply N.eqb_neq; exact H0).
  replace (h_state s =? HTTP_VERB) with false by (symmetry; apply N.eqb_neq; exact H1).
  destruct (h_state s =? HTTP_FAIL) eqn:Ef.
  - apply N.eqb_eq in Ef. rewrite run_fail by exact Ef. reflexivity.
  - rewrite run_cons. change (http_loop tbl (S (S (length r))) (http_byte s b) r) with (http_parse tbl (http_byte s b) r).
    apply (IH (http_byte s b)). apply http_byte_post. split; assumption.
Qed.

(* ---------- the VERB phase, one transition at a time ---------- *)
Definition verb_adv (s : http_st) (b row' : N) : http_st :=
  {| h_state := HTTP_VERB; h_bis := h_bis s; h_smack := row';
     h_verb := h_verb s ++ [b]; h_uri := h_uri s |}.

Section Verb.
  Variable tbl : smack.
  Hypothesis Hok : smack_ok tbl = true.
  Hypothesis Hsz : sm_rows tbl <= TWO24.

  Lemma http_loop_verb f s b r :
    h_state s = HTTP_VERB ->
    http_loop tbl (S f) s (b :: r) =
    (let '(s', n) := http_verb_step tbl s (b :: r) in
     match n with
     | O => Panic PANIC_HTTP_VERB_ADVANCE
     | S _ => http_loop tbl f s' (skipn n (b :: r))
     end).
  Proof. intros H. rewrite http_loop_S. rewrite H. reflexivity. Qed.

  (* V1: a pattern completes at [b] *)
  Lemma http_parse_verb_match s b r i :
    h_state s = HTTP_VERB -> http_st_ok tbl s ->
    sm_match_limit tbl <= sm_stepb tbl (h_smack s) b ->
    sm_ids tbl (sm_stepb tbl (h_smack s) b) = [i] ->
    http_parse tbl s (b :: r) =
    http_parse tbl (if i =? 0 then set_state (verb_adv s b (sm_stepb tbl (h_smack s) b)) HTTP_SPACE
                    else verb_adv s b (sm_stepb tbl (h_smack s) b)) r.
  Proof.
    intros Hs Hst Hlim Hids. unfold http_st_ok in Hst. unfold http_parse at 1. cbn [length].
    rewrite http_loop_verb by exact Hs.
    pose proof (search_next_cons tbl Hok Hsz (h_smack s) b r Hst) as Hc. cbv zeta in Hc.
    destruct (search_next_one tbl Hok Hsz (h_smack s) b Hst) as (Hr & [(Hlo & _) | (_ & i' & Hi' & H1)]);
      [unfold sm_stepb in Hlim; lia|].
    unfold sm_stepb in *. rewrite Hids in Hi'. injection Hi' as <-.
    replace (sm_match_limit tbl <=? _) with true in Hc by (symmetry; apply N.leb_le; exact Hlim).
    rewrite H1 in Hc. rewrite (verb_step_eq _ _ _ _ _ _ Hc). cbv zeta. cbn [firstn skipn].
    rewrite Hs.
    replace (if i =? 0 then set_state _ HTTP_SPACE else _)
      with (if i =? 0 then set_state (verb_adv s b (sm_next tbl (h_smack s) (sm_sym tbl (N.to_nat b)))) HTTP_SPACE
            else verb_adv s b (sm_next tbl (h_smack s) (sm_sym tbl (N.to_nat b))))
      by (destruct (i =? 0); reflexivity).
    apply http_loop_parse; [|lia].
    destruct (i =? 0); cbn [h_state set_state verb_adv]; discriminate.
  Qed.

  (* V2: no pattern completes at [b], end of the segment *)
  Lemma http_parse_verb_last s b :
    h_state s = HTTP_VERB -> http_st_ok tbl s ->
    sm_stepb tbl (h_smack s) b < sm_match_limit tbl ->
    http_parse tbl s [b] =
    Ok (if sm_stepb tbl (h_smack s) b =? UNANCHORED_STATE
        then set_state (verb_adv s b (sm_stepb tbl (h_smack s) b)) HTTP_FAIL
        else verb_adv s b (sm_stepb tbl (h_smack s) b)).
  Proof.
    intros Hs Hst Hlim. unfold http_st_ok in Hst. unfold http_parse. cbn [length].
    rewrite http_loop_verb by exact Hs.
    destruct (search_next_one tbl Hok Hsz (h_smack s) b Hst) as (Hr & [(_ & H1) | (Hhi & _)]);
      [|unfold sm_stepb in Hlim; lia].
    unfold sm_stepb in *. rewrite (verb_step_eq _ _ _ _ _ _ H1). cbv zeta. cbn [firstn skipn http_loop].
    rewrite Hs. destruct (_ =? UNANCHORED_STATE); reflexivity.
  Qed.

  (* V3: no pattern completes at [b], more input follows *)
  Lemma http_parse_verb_more s b r :
    h_state s = HTTP_VERB -> http_st_ok tbl s -> r <> [] ->
    sm_stepb tbl (h_smack s) b < sm_match_limit tbl ->
    http_parse tbl s (b :: r) = http_parse tbl (verb_adv s b (sm_stepb tbl (h_smack s) b)) r.
  Proof.
    intros Hs Hst Hne Hlim. unfold http_st_ok in Hst.
    destruct (search_next_one tbl Hok Hsz (h_smack s) b Hst) as (Hr & _).
    pose proof (search_next_cons tbl Hok Hsz (h_smack s) b r Hst) as Hc. cbv zeta in Hc.
    unfold sm_stepb in *. set (row' := sm_next tbl (h_smack s) (sm_sym tbl (N.to_nat b))) in *.
    replace (sm_match_limit tbl <=? row') with false in Hc by (symmetry; apply N.leb_gt; exact Hlim).
    destruct (search_next tbl row' r) as [[id2 st2] n2] eqn:H2.
    destruct (search_next_cases tbl Hok Hsz row' r Hr _ _ _ H2) as (Hst2 & Hcase).
    assert (Hn2 : exists k, n2 = S k).
    { destruct Hcase as [(_ & Hn & _) | (i & ii & _ & Hn & _)].
      - destruct r; [congruence|]. cbn [length] in Hn. eauto.
      - eauto. }
    destruct Hn2 as (k & ->).
    (* left: one step over b :: r *)
    unfold http_parse at 1. cbn [length]. rewrite http_loop_verb by exact Hs.
    rewrite (verb_step_eq _ _ _ _ _ _ Hc). cbv zeta.
    (* right: one step over r *)
    destruct r as [|c r']; [congruence|].
    unfold http_parse. cbn [length]. rewrite http_loop_verb by reflexivity.
    assert (H2' : search_next tbl (h_smack (verb_adv s b row')) (c :: r') = (id2, st2, S k)) by exact H2.
    rewrite (verb_step_eq _ _ _ _ _ _ H2'). cbv zeta.
    cbn [h_state h_bis h_verb h_uri verb_adv]. rewrite Hs.
    replace (h_verb s ++ firstn (S (S k)) (b :: c :: r')) with ((h_verb s ++ [b]) ++ firstn (S k) (c :: r'))
      by (rewrite <- app_assoc; reflexivity).
    change (skipn (S (S k)) (b :: c :: r')) with (skipn (S k) (c :: r')).
    set (s1 := {| h_state := HTTP_VERB; h_bis := h_bis s; h_smack := st2;
                  h_verb := (h_verb s ++ [b]) ++ firstn (S k) (c :: r'); h_uri := h_uri s |}).
    set (s' := match id2 with
               | Some i => if i =? 0 then set_state s1 HTTP_SPACE else s1
               | None => if st2 =? UNANCHORED_STATE then set_state s1 HTTP_FAIL else s1
               end).
    assert (Hs' : h_state s' <> HTTP_START).
    { subst s'. destruct id2 as [i|]; [destruct (i =? 0) | destruct (st2 =? UNANCHORED_STATE)];
        cbn [h_state set_state s1]; discriminate. }
    assert (Hl : (length (skipn (S k) (c :: r')) <= length r')%nat)
      by (cbn [skipn]; rewrite skipn_length; lia).
    apply http_loop_fuel; unfold need;
      replace (h_state s' =? HTTP_START) with false by (symmetry; apply N.eqb_neq; exact Hs');
      cbn [length]; cbv iota; lia.
  Qed.
End Verb.
