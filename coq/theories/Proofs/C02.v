(* Proofs/C02.v -- silence outside scope; replies only from configured
   identities (monitor ok_C02 of Spec/C02.v), proved against reply_spec. *)
From MS Require Import Proofs.Tactics Proofs.DecLemmas Proofs.Pipeline Proofs.Factor Proofs.ViewLemmas
     Proofs.C06 Proofs.Auth Proofs.DecLemmas2 Proofs.C05
     L2 Spec.View Spec.RefDec Spec.C02.

(* ---------- part 1: frames out of scope are inert ---------- *)
Lemma denied_no_view cfg f :
  denied_source cfg f = true -> (u16_at 12 f =? 2054) = false /\ view cfg f = None.
Proof.
  unfold denied_source. destruct (c_deny cfg) as [l|] eqn:Hd; [|discriminate].
  intros H. apply orb_true_iff in H. destruct H as [H|H].
  - apply andb_true_iff in H. destruct H as [H Hin].
    apply andb_true_iff in H. destruct H as [He Hl].
    apply N.eqb_eq in He. rewrite He. split; [reflexivity|].
    unfold view. destruct (length f <? 14)%nat; [reflexivity|].
    destruct (auth_mac cfg (slice 0 6 f)); cbn [negb]; [|reflexivity].
    rewrite He. change (2048 =? 2048) with true. cbv iota.
    assert ((length (skipn 14 f) <? 20)%nat = false) as -> by lia.
    unfold in_scope_ip. rewrite Hd.
    change (slice 12 4 (skipn 14 f)) with (firstn 4 (skipn 12 (skipn 14 f))).
    rewrite Hin. cbn [negb]. rewrite andb_false_r. reflexivity.
  - apply andb_true_iff in H. destruct H as [H Hin].
    apply andb_true_iff in H. destruct H as [He Hl].
    apply N.eqb_eq in He. rewrite He. split; [reflexivity|].
    unfold view. destruct (length f <? 14)%nat; [reflexivity|].
    destruct (auth_mac cfg (slice 0 6 f)); cbn [negb]; [|reflexivity].
    rewrite He. change (34525 =? 2048) with false. change (34525 =? 34525) with true. cbv iota.
    assert ((length (skipn 14 f) <? 40)%nat = false) as -> by lia.
    unfold in_scope_ip. rewrite Hd.
    change (slice 8 16 (skipn 14 f)) with (firstn 16 (skipn 8 (skipn 14 f))).
    rewrite Hin. cbn [negb]. rewrite andb_false_r. reflexivity.
Qed.

Lemma unsupported_inert E cfg clk tb f :
  unsupported f = true ->
  (u16_at 12 f =? 2054) = false /\
  match view cfg f with Some v => l3_reply E cfg clk tb f v | None => Ok (tb, None) end = Ok (tb, None).
Proof.
  unfold unsupported.
  destruct (u16_at 12 f =? 2054) eqn:Ea; [discriminate|].
  intros H. split; [reflexivity|].
  destruct (view cfg f) as [v|] eqn:Hv; [|reflexivity].
  destruct (view_inv _ _ _ Hv) as (_ & _ & [H4 | H6]).
  - destruct H4 as (He & _ & Hv4 & _ & _ & Hp & _).
    rewrite He in H. change (2048 =? 2048) with true in H. cbv iota in H.
    apply andb_true_iff in H. destruct H as [_ H]. apply negb_true_iff in H.
    apply orb_false_iff in H. destruct H as [H H17].
    apply orb_false_iff in H. destruct H as [H1 H6].
    unfold l3_reply. rewrite Hv4, Hp, H1, H6, H17. reflexivity.
  - destruct H6 as (He & _ & Hv4 & _ & _ & Hp & _).
    rewrite He in H. change (34525 =? 2048) with false in H.
    change (34525 =? 34525) with true in H. cbv iota in H.
    apply andb_true_iff in H. destruct H as [_ H]. apply negb_true_iff in H.
    apply orb_false_iff in H. destruct H as [H H17].
    apply orb_false_iff in H. destruct H as [H58 H6].
    unfold l3_reply. rewrite Hv4, Hp, H58, H6, H17. reflexivity.
Qed.

Lemma inert_spec E cfg clk tb f :
  ref_auth cfg (firstn 6 f) = false \/ denied_source cfg f = true \/ unsupported f = true ->
  reply_spec E cfg clk tb f = Ok (tb, None).
Proof.
  intros H. unfold reply_spec.
  destruct (length f <? 14)%nat; [reflexivity|].
  destruct (auth_mac cfg (slice 0 6 f)) eqn:Hauth; cbn [negb]; [|reflexivity].
  destruct H as [H|[H|H]].
  - rewrite ref_auth_frame in H. congruence.
  - destruct (denied_no_view _ _ H) as [-> ->]. reflexivity.
  - destruct (unsupported_inert E cfg clk tb f H) as [-> ->]. reflexivity.
Qed.

(* frames that are out of scope change nothing and get no answer (the length
   hypothesis of the property text is not needed: shorter frames are inert too) *)
Theorem out_of_scope_is_inert E cfg clk tb f tb' r evs :
  (14 <= length f)%nat ->
  ref_auth cfg (firstn 6 f) = false \/ denied_source cfg f = true \/ unsupported f = true ->
  reply E cfg clk tb f = Ok (tb', r, evs) ->
  tb' = tb /\ r = None.
Proof.
  intros _ H Hr. apply reply_factor_ok in Hr. rewrite (inert_spec E cfg clk tb f H) in Hr.
  apply ok_pair_inj in Hr. destruct Hr as [<- <-]. split; reflexivity.
Qed.

(* ---------- part 2: the identities a reply speaks for ---------- *)
Lemma view_dst_self cfg f v l :
  view cfg f = Some v -> c_self cfg = Some l ->
  (v_v4 v = true \/ (v_proto v =? 58) = false) ->
  ip_in (if v_v4 v then V4 (v_dst v) else V6 (v_dst v)) l = true.
Proof.
  intros Hv Hs Hk. destruct (view_inv _ _ _ Hv) as (_ & _ & [H4 | H6]).
  - destruct H4 as (_ & _ & -> & _ & _ & _ & _ & Hsc).
    unfold in_scope_ip in Hsc. rewrite Hs in Hsc. apply andb_true_iff in Hsc.
    destruct Hsc as [Hsc _]. rewrite orb_false_r in Hsc. exact Hsc.
  - destruct H6 as (_ & _ & Hv4 & _ & _ & _ & _ & Hsc).
    destruct Hk as [Hk|Hk]; [congruence|].
    rewrite Hv4. unfold in_scope_ip in Hsc. rewrite Hs, Hk in Hsc. apply andb_true_iff in Hsc.
    destruct Hsc as [Hsc _]. rewrite orb_false_r in Hsc. exact Hsc.
Qed.

Lemma view_dst_len cfg f v :
  view cfg f = Some v -> length (v_dst v) = (if v_v4 v then 4 else 16)%nat.
Proof. intros Hv. destruct (view_sizes _ _ _ Hv) as (_ & Hsz). destruct (v_v4 v); apply Hsz. Qed.

Lemma identities_wrap cfg f v rsrc hlim l4 l :
  cfg_ok cfg = true -> view cfg f = Some v -> v_proto v < 256 -> hlim < 256 ->
  length rsrc = (if v_v4 v then 4 else 16)%nat ->
  c_self cfg = Some l ->
  ip_in (if v_v4 v then V4 rsrc else V6 rsrc) l = true ->
  (if negb (v_v4 v) && (v_proto v =? 58) && (u8_at 0 l4 =? 136)
   then ip_in (V6 (firstn 16 (skipn 8 l4))) l else true) = true ->
  identities_ok cfg (wrap_ip cfg f v rsrc hlim l4) = true.
Proof.
  intros Hcfg Hv Hp Hh Hr Hs Hin Hna.
  destruct (dec_wrap_ip cfg f v rsrc hlim l4 Hcfg Hv Hp Hh Hr)
    as (e & i & He & Hi & _ & _ & Hty & Hv4 & Hsrc & _ & Hpr & Hpl).
  unfold identities_ok. rewrite Hs, He.
  assert ((de_type e =? 2054) = false) as -> by (rewrite Hty; destruct (v_v4 v); reflexivity).
  rewrite Hi, Hv4, Hsrc, Hpr, Hpl, Hin, Hna. reflexivity.
Qed.

Lemma some_inj {A : Type} (a b : A) : Some a = Some b -> a = b.
Proof. intros H. inversion H. reflexivity. Qed.

Lemma identities_arp cfg f l x evs :
  cfg_ok cfg = true -> (length f <? 14)%nat = false -> (length (skipn 14 f) <? 28)%nat = false ->
  c_self cfg = Some l -> arp_repl cfg (skipn 14 f) = (Some x, evs) ->
  identities_ok cfg (eth_frame (slice 6 6 f) (c_mac cfg) 2054 x) = true.
Proof.
  intros Hcfg Hlen Hl Hs. set (p := skipn 14 f) in *.
  apply ltb_false_le in Hl. apply ltb_false_le in Hlen.
  unfold arp_repl. rewrite Hs.
  destruct (u16_at 6 p =? 1); [|discriminate].
  destruct (ip_in (V4 (slice 24 4 p)) l) eqn:Hin; cbn [negb]; [|discriminate].
  intros H. apply (f_equal fst) in H. cbn [fst] in H. apply some_inj in H. subst x.
  assert (length (slice 6 6 f) = 6%nat) as Hsm by (apply slice_length; lia).
  pose proof (cfg_ok_mac _ Hcfg) as Hmac.
  assert (length (slice 2 4 p) = 4%nat) as L1 by (apply slice_length; lia).
  assert (length (slice 24 4 p) = 4%nat) as L2 by (apply slice_length; lia).
  assert (length (slice 8 6 p) = 6%nat) as L3 by (apply slice_length; lia).
  assert (length (slice 14 4 p) = 4%nat) as L4 by (apply slice_length; lia).
  unfold identities_ok. rewrite Hs.
  rewrite dec_eth_frame by (assumption || lia).
  cbn [de_type de_payload]. change (2054 =? 2054) with true. cbv iota.
  rewrite dec_arp_reply by assumption. cbn [da_spa]. exact Hin.
Qed.

(* the neighbour advertisement carries its target at offset 8 *)
Lemma na_target (tg mac : bytes) (c : N) :
  length tg = 16%nat ->
  firstn 16 (skipn 8 (set_cksum 2 ([136; 0; 0; 0; 96; 0; 0; 0] ++ tg ++ [2; 1] ++ mac) c)) = tg.
Proof. intros H. explode_lists. unfold set_cksum, be16. list_cbn. reflexivity. Qed.

Ltac take_reply H :=
  apply ok_pair_inj in H; destruct H as [_ H]; apply some_inj in H; subst.

Lemma identities_l3 E cfg clk tb f v tb' rf l :
  cfg_ok cfg = true -> bytes_ok f = true -> view cfg f = Some v -> c_self cfg = Some l ->
  l3_reply E cfg clk tb f v = Ok (tb', Some rf) -> identities_ok cfg rf = true.
Proof.
  intros Hcfg Hf Hv Hs.
  pose proof (view_proto_lt _ _ _ Hf Hv) as Hp.
  pose proof (view_dst_len _ _ _ Hv) as Hdl.
  (* every reply whose source is the destination of a non-ICMPv6 request *)
  assert (forall l4, (v_v4 v = true \/ (v_proto v =? 58) = false) ->
            identities_ok cfg (wrap_ip cfg f v (v_dst v) 64 l4) = true) as Hplain.
  { intros l4 Hk. apply (identities_wrap cfg f v (v_dst v) 64 l4 l Hcfg Hv Hp ltac:(lia) Hdl Hs).
    - exact (view_dst_self _ _ _ _ Hv Hs Hk).
    - destruct Hk as [->| ->]; [reflexivity|]. rewrite andb_false_r. reflexivity. }
  unfold l3_reply.
  destruct (v_v4 v) eqn:Hv4.
  - (* IPv4 *)
    destruct (v_proto v =? 1).
    { destruct (length (v_l4 v) <? 4)%nat; [discriminate|].
      destruct (icmpv4_repl _ _) as [[x|] ev]; [|discriminate].
      intros H. take_reply H. apply Hplain. left; reflexivity. }
    destruct (v_proto v =? 6).
    { destruct (length (v_l4 v) <? 20)%nat; [discriminate|].
      destruct (tcp_repl _ _ _ _ _ _) as [[[[tb2 ci2] [seg|]] evs2]|s]; try discriminate.
      intros H. take_reply H. apply Hplain. left; reflexivity. }
    destruct (v_proto v =? 17); [|discriminate].
    destruct (length (v_l4 v) <? 8)%nat; [discriminate|].
    destruct (udp_repl _ _ _ _ _) as [[[ci2 [seg|]] evs2]|s]; try discriminate.
    destruct (65535 <? lenN seg); [discriminate|].
    intros H. take_reply H. apply Hplain. left; reflexivity.
  - (* IPv6 *)
    destruct (v_proto v =? 58) eqn:P58.
    { destruct (length (v_l4 v) <? 4)%nat eqn:Hl4; [discriminate|].
      apply ltb_false_le in Hl4.
      unfold icmpv6_repl. rewrite Hs, (l3_ci_dst6 f v Hv4).
      destruct (u8_at 1 (v_l4 v) =? 0); cbn [negb]; [|discriminate].
      destruct (u8_at 0 (v_l4 v) =? 135).
      - destruct (length (v_l4 v) <? 24)%nat eqn:Hl24; [discriminate|].
        apply ltb_false_le in Hl24.
        assert (length (slice 8 16 (v_l4 v)) = 16%nat) as Ht by (apply slice_length; lia).
        set (tg := slice 8 16 (v_l4 v)) in *.
        destruct (ip_in (V6 tg) l) eqn:Hin; cbn [negb]; [|discriminate].
        intros H. take_reply H.
        apply (identities_wrap cfg f v tg _ _ l Hcfg Hv Hp);
          [destruct (_ =? 136); lia | rewrite Hv4; exact Ht | exact Hs | rewrite Hv4; exact Hin |].
        unfold seal_icmp6. rewrite na_target by exact Ht. rewrite Hin.
        destruct (_ && _); reflexivity.
      - destruct (u8_at 0 (v_l4 v) =? 128); [|discriminate].
        destruct (ip_in (V6 (v_dst v)) l) eqn:Hin; cbn [negb]; [|discriminate].
        intros H. take_reply H.
        apply (identities_wrap cfg f v (v_dst v) _ _ l Hcfg Hv Hp);
          [destruct (_ =? 136); lia | rewrite Hv4; exact Hdl | exact Hs | rewrite Hv4; exact Hin |].
        unfold seal_icmp6. rewrite set_cksum_u8_0 by (cbn [app length]; lia).
        unfold u8_at. cbn [app nth]. change (129 =? 136) with false.
        rewrite andb_false_r. reflexivity. }
    destruct (v_proto v =? 6).
    { destruct (length (v_l4 v) <? 20)%nat; [discriminate|].
      destruct (tcp_repl _ _ _ _ _ _) as [[[[tb2 ci2] [seg|]] evs2]|s]; try discriminate.
      intros H. take_reply H. apply Hplain. right; reflexivity. }
    destruct (v_proto v =? 17); [|discriminate].
    destruct (length (v_l4 v) <? 8)%nat; [discriminate|].
    destruct (udp_repl _ _ _ _ _) as [[[ci2 [seg|]] evs2]|s]; try discriminate.
    intros H. take_reply H. apply Hplain. right; reflexivity.
Qed.

Lemma identities_spec E cfg clk tb f tb' rf :
  cfg_ok cfg = true -> bytes_ok f = true ->
  reply_spec E cfg clk tb f = Ok (tb', Some rf) -> identities_ok cfg rf = true.
Proof.
  intros Hcfg Hf.
  destruct (c_self cfg) as [l|] eqn:Hs.
  2: { intros _. unfold identities_ok. rewrite Hs. reflexivity. }
  unfold reply_spec.
  destruct (length f <? 14)%nat eqn:Hlen; [discriminate|].
  destruct (auth_mac cfg (slice 0 6 f)); cbn [negb]; [|discriminate].
  destruct (u16_at 12 f =? 2054).
  - destruct (length (skipn 14 f) <? 28)%nat eqn:Hl; [discriminate|].
    destruct (arp_repl cfg (skipn 14 f)) as [[x|] ev] eqn:Ha; [|discriminate].
    intros H. take_reply H. eapply identities_arp; eassumption.
  - destruct (view cfg f) as [v|] eqn:Hv; [|discriminate].
    intros H. eapply identities_l3; eassumption.
Qed.

(* ---------- the theorem ---------- *)
Theorem scope_and_identity E cfg clk tb f tb' r evs :
  cfg_ok cfg = true -> bytes_ok f = true ->
  reply E cfg clk tb f = Ok (tb', r, evs) -> ok_C02 cfg f r = true.
Proof.
  intros Hcfg Hf Hr. unfold ok_C02. apply andb_true_iff. split.
  - destruct (14 <=? length f)%nat eqn:Hlen; [|reflexivity].
    apply Nat.leb_le in Hlen.
    assert (forall c : bool,
              (c = true -> ref_auth cfg (firstn 6 f) = false \/ denied_source cfg f = true \/
                           unsupported f = true) ->
              (if c then silent r else true) = true) as Hsil.
    { intros [|] Hc; [|reflexivity].
      destruct (out_of_scope_is_inert E cfg clk tb f tb' r evs Hlen (Hc eq_refl) Hr) as [_ ->].
      reflexivity. }
    rewrite !Hsil; [reflexivity| | |].
    + intros H. right; right; exact H.
    + intros H. right; left; exact H.
    + intros H. left. apply negb_true_iff in H. exact H.
  - destruct r as [rf|]; [|reflexivity].
    apply reply_factor_ok in Hr. eapply identities_spec; eassumption.
Qed.
