(* Spec/C14.v -- DNS: IN/A queries get a faithful, parseable answer with the queried
   address. Written from the property text and RFC 1035 section 4.1 on top of the
   reference codec Spec/RefDns.v; nothing is shared with the responder model Dns.v.

   Reading of the text:
   * positive scope: the datagram payload IS a DNS message (it decodes completely,
     nothing left over: a query followed by extra bytes is not "a DNS query
     consisting only of IN/A questions"), QR clear, no record in the answer /
     authority / additional sections, every question of type 1 (A) and class 1 (IN);
     question counts from 0; carried over UDP / IPv4; not identified as another
     protocol by the signature table ([udp_id E p = None]);
   * expected response ([resp_ok]): the reply decodes completely as a message with
     the same ID, QR = 1, the same OPCODE (bits 11..14) and RD (bit 8), the same
     question section, one answer per question in order -- owner = the question's
     name, type 1, class 1, RDLENGTH 4, RDATA = the IPv4 address the datagram was
     sent to -- and empty authority / additional sections. AA, TC, RA, Z, RCODE and
     the TTLs are NOT constrained by the text and are left free (the implementation
     sets AA = 1, the others 0, TTL 43200: [answer] below is that representative);
   * negative scope: a complete message with a question that is not IN/A (whatever
     its flags and other sections), or a truncated message (the reference reader
     runs out of input: [dns_truncated]) is not answered;
   * everything else (trailing bytes, compression pointers, records in a query,
     over-long names, IPv6, TCP) is outside the property.
   Definitions only. *)
From MS Require Export Bytes Types Proto Spec.RefDns Spec.AppView.

Definition TYPE_A : N := 1.
Definition CLASS_IN : N := 1.

Definition is_in_a (q : dquestion) : bool := (qt q =? TYPE_A) && (qc q =? CLASS_IN).
Definition all_in_a (qs : list dquestion) : bool := forallb is_in_a qs.

(* fields of the flag word (RFC 1035 section 4.1.1) *)
Definition qr_of (flags : N) : N := (flags / 32768) mod 2.
Definition opcode_of (flags : N) : N := (flags / 2048) mod 16.
Definition rd_of (flags : N) : N := (flags / 256) mod 2.

Definition is_nil {A} (l : list A) : bool := match l with [] => true | _ :: _ => false end.

(* ---- the expected response, as a relation on decoded messages ---- *)
Definition answer_rr_ok (dst : bytes) (q : dquestion) (r : drr) : bool :=
  name_eqb (ro r) (qn q) && (rt r =? TYPE_A) && (rc r =? CLASS_IN) &&
  (lenN (rdata r) =? 4) && bytes_eqb (rdata r) dst.

Definition resp_ok (q : dquery) (dst : bytes) (a : dmsg) : bool :=
  (m_id a =? k_id q) &&
  (qr_of (m_flags a) =? 1) &&
  (opcode_of (m_flags a) =? opcode_of (k_flags q)) &&
  (rd_of (m_flags a) =? rd_of (k_flags q)) &&
  list_eqb2 question_eqb (m_qd a) (k_qd q) &&
  list_eqb2 (answer_rr_ok dst) (k_qd q) (m_an a) &&
  is_nil (m_ns a) && is_nil (m_ar a).

(* the question section echoed byte for byte: the bytes that follow the reply's
   header, over the length of the query's question section, are the query's *)
Definition echo_ok (p r : bytes) : bool :=
  bytes_eqb (firstn (length p - 12) (skipn 12 r)) (skipn 12 p).

(* the representative with the implementation's choice of the free fields:
   AA set, TC / RA / Z / RCODE clear, TTL 43200 *)
Definition answer_flags (fl : N) : N := QR_BIT + opcode_of fl * 2048 + 1024 + rd_of fl * 256.
Definition answer_rr_of (dst : bytes) (q : dquestion) : drr :=
  {| ro := qn q; rt := TYPE_A; rc := CLASS_IN; rttl := 43200; rdata := dst |}.
Definition answer (q : dquery) (dst : bytes) : dmsg :=
  {| m_id := k_id q; m_flags := answer_flags (k_flags q); m_qd := k_qd q;
     m_an := map (answer_rr_of dst) (k_qd q); m_ns := []; m_ar := [] |}.

(* ---- which payloads the property speaks about ---- *)
Inductive c14_class :=
| InScope (q : dquery)     (* a query consisting only of IN/A questions *)
| NotInA                   (* a message containing a question that is not IN/A *)
| Truncated                (* a truncated message *)
| Outside.

Definition query_of (m : dmsg) : dquery := {| k_id := m_id m; k_flags := m_flags m; k_qd := m_qd m |}.

Definition classify (p : bytes) : c14_class :=
  match dec_msg p with
  | Short => Truncated
  | Bad => Outside
  | Done m [] =>
    if negb (all_in_a (m_qd m)) then NotInA
    else if (m_flags m <? QR_BIT) && is_nil (m_an m) && is_nil (m_ns m) && is_nil (m_ar m)
         then InScope (query_of m)
         else Outside
  | Done _ (_ :: _) => Outside
  end.

(* ---- payload-level monitor, for a payload that no signature identified ---- *)
Definition app_ok_C14_core (ctx : app_ctx) (p : bytes) (o : option bytes) : bool :=
  if negb (a_v4 ctx) || a_tcp ctx then true
  else
    match classify p with
    | InScope q =>
      match o with
      | Some r =>
        match dec_dns r with
        | Some a => resp_ok q (a_dst ctx) a && echo_ok p r
        | None => false
        end
      | None => false
      end
    | NotInA | Truncated => match o with None => true | Some _ => false end
    | Outside => true
    end.

(* "not itself completing another protocol's signature": evaluated on the compiled
   signature table of the implementation *)
Definition app_ok_C14 (E : env) (ctx : app_ctx) (p : bytes) (o : option bytes) : bool :=
  match udp_id E p with
  | Some _ => true
  | None => app_ok_C14_core ctx p o
  end.

(* ---- frame-level monitor ---- *)
Definition ok_C14_udp (E : env) (cfg : config) (f : bytes) (r : option bytes) : bool :=
  ok_app_udp (app_ok_C14 E) cfg f r.

(* frames the positive clause speaks about (for the check's coverage counters) *)
Definition c14_positive_frame (E : env) (cfg : config) (f : bytes) : bool :=
  match udp_req cfg f with
  | Some (ctx, p) =>
    a_v4 ctx && negb (a_tcp ctx) &&
    match udp_id E p with
    | Some _ => false
    | None => match classify p with InScope _ => true | _ => false end
    end
  | None => false
  end.
Definition c14_negative_frame (E : env) (cfg : config) (f : bytes) : bool :=
  match udp_req cfg f with
  | Some (ctx, p) =>
    a_v4 ctx && negb (a_tcp ctx) &&
    match udp_id E p with
    | Some _ => false
    | None => match classify p with NotInA | Truncated => true | _ => false end
    end
  | None => false
  end.
