(* Properties/C12chain.v -- C12, last clause: the reflection chain of a reply-typed message
   contains at most two replies.  Statements only; proofs in Proofs/C12Abs.v (abstract run of
   the dumped matcher table over payload shapes) and Proofs/C12Bound.v; the monitors are in
   Spec/C12chain.v.

   - C12_chain_bound_current: the bound, for every clock, every client context with octet
     addresses, every reply-typed datagram payload of any length (DNS QR = 1, STUN non-request
     below 0x40, ONC-RPC REPLY), on the tables of the current implementation;
   - C12_chain_bound_{dns,stun,rpc}_current: the same per start class;
   - C12_chain_bound_not_ssh_ghost: the bound for EVERY start payload that the matcher does
     not hand to the SSH or the Gh0st responder (whose replies are requests and bounce for ever);
   - C12_chain_frames / C12_chain_frames_monitor: whole frames, any addresses / ports / times;
   - C12_chain_stmt_needs_octets: [chain_bound_stmt] of Proofs/C12Chain.v, which lets the context
     carry arbitrary numbers as address "octets", is false of the model for that reason only;
   - TCP, first data segment: SMB1 / SMB2 / RPC-record reply-typed messages. *)
From MS Require Import L2 Rpc Smb Proto Spec.View Spec.AppView Spec.C12 Spec.C12x Spec.C19 Spec.C12chain
     Proofs.ReplyBytes Proofs.C12Chain Proofs.C12Refute Proofs.C12Abs Proofs.C12Bound Instance.

(* ---- the bound ---- *)
Theorem C12_chain_bound_current :
  forall clk ci n p, ci_full ci = true -> ci_ok ci -> bytes_ok p = true ->
    udp_reply_typed p = true -> (length (app_chain the_env clk ci n p) <= 2)%nat.
Proof. exact chain_bound_current. Qed.
Print Assumptions C12_chain_bound_current.

Theorem C12_chain_bound_dns_current :
  forall clk ci n p, ci_full ci = true -> ci_ok ci -> bytes_ok p = true ->
    dns_response_typed p = true -> (length (app_chain the_env clk ci n p) <= 2)%nat.
Proof. exact chain_bound_dns. Qed.
Print Assumptions C12_chain_bound_dns_current.

Theorem C12_chain_bound_stun_current :
  forall clk ci n p, ci_full ci = true -> ci_ok ci -> bytes_ok p = true ->
    stun_nonrequest_typed p = true -> u8_at 0 p < 64 -> (length (app_chain the_env clk ci n p) <= 2)%nat.
Proof. exact chain_bound_stun. Qed.
Print Assumptions C12_chain_bound_stun_current.

Theorem C12_chain_bound_rpc_current :
  forall clk ci n p, ci_full ci = true -> ci_ok ci -> bytes_ok p = true ->
    rpc_reply_typed_udp p = true -> (length (app_chain the_env clk ci n p) <= 2)%nat.
Proof. exact chain_bound_rpc. Qed.
Print Assumptions C12_chain_bound_rpc_current.

(* every start payload that is not handed to the SSH or the Gh0st responder *)
Theorem C12_chain_bound_not_ssh_ghost :
  forall clk ci n p, ci_full ci = true -> ci_ok ci -> bytes_ok p = true -> bytes_ok (clk_date clk) = true ->
    udp_id the_env p <> Some PROTO_SSH -> udp_id the_env p <> Some PROTO_GHOST ->
    (length (app_chain the_env clk ci n p) <= 2)%nat.
Proof. exact chain_bound_not_ssh_ghost. Qed.
Print Assumptions C12_chain_bound_not_ssh_ghost.

(* a reply-typed start is never handed to the HTTP, SSH or Gh0st responder *)
Theorem C12_reply_typed_never_http_ssh_ghost :
  forall p, bytes_ok p = true -> udp_reply_typed p = true ->
    In (udp_id the_env p) [None; Some PROTO_STUN; Some PROTO_RPC_TCP; Some PROTO_RPC_UDP; Some PROTO_SMB1; Some PROTO_SMB2].
Proof. exact reply_typed_ids. Qed.
Print Assumptions C12_reply_typed_never_http_ssh_ghost.

(* what follows a first reply: nothing, or the DNS fallback, whose answer is not answered *)
Theorem C12_chain_second_hop :
  forall clk ci p c r1, ci_full ci = true -> ci_ok ci -> bytes_ok p = true ->
    In (udp_id the_env p) ids_dyn -> udp_core the_env clk p = Ok c -> render c ci = Some r1 ->
    (forall clk', quiet_core the_env clk' r1) \/ (bytes_ok r1 = true /\ udp_id the_env r1 = None).
Proof. exact hop1_dyn. Qed.
Print Assumptions C12_chain_second_hop.

Theorem C12_chain_third_hop_silent :
  forall clk ci r1 c r2, ci_full ci = true -> ci_ok ci -> first_ok r1 ->
    udp_core the_env clk r1 = Ok c -> render c ci = Some r2 -> forall clk', quiet_core the_env clk' r2.
Proof. exact first_ok_next. Qed.
Print Assumptions C12_chain_third_hop_silent.

(* the emitted shapes, one by one *)
Theorem C12_dns_response_unanswered :
  forall clk p m ip, bytes_ok p = true -> Dns.dns_parse p = Some m ->
    forallb (fun q => (Dns.q_type q =? 1) && (Dns.q_class q =? 1)) (Dns.d_qd m) = true ->
    bytes_ok (ip_octets ip) = true ->
    udp_core the_env clk (render_dns m ip) = Ok CSilent.
Proof. exact dns_out_silent. Qed.
Print Assumptions C12_dns_response_unanswered.

Theorem C12_rpc_record_reply_unanswered_udp :
  forall clk s ip port, (length (ip_octets ip) <= 16)%nat ->
    udp_core the_env clk (render_rpc s true ip port) = Ok CSilent.
Proof. exact rpct_out_silent. Qed.
Print Assumptions C12_rpc_record_reply_unanswered_udp.

Theorem C12_http_template_unanswered :
  forall clk date, bytes_ok date = true ->
    udp_core the_env clk (e_http_pre the_env ++ date ++ e_http_post the_env) = Ok CSilent.
Proof. exact http_out_silent. Qed.
Print Assumptions C12_http_template_unanswered.

Theorem C12_stun_response_to_fallback :
  forall tid src sport, length tid = 16%nat -> bytes_ok tid = true -> bytes_ok (ip_octets src) = true ->
    bytes_ok (Stun.stun_response tid src sport) = true /\ udp_id the_env (Stun.stun_response tid src sport) = None.
Proof. exact stun_out_id. Qed.
Print Assumptions C12_stun_response_to_fallback.

Theorem C12_rpc_reply_to_fallback :
  forall s ip port, (length (ip_octets ip) <= 16)%nat ->
    bytes_ok (rpc_build s ip port) = true /\ udp_id the_env (rpc_build s ip port) = None.
Proof. exact rpcu_out_id. Qed.
Print Assumptions C12_rpc_reply_to_fallback.

Theorem C12_smb1_reply_unanswered_udp :
  forall clk ft p r, bytes_ok p = true ->
    smb1_repl (e_smb_neg the_env) (e_smb_chal the_env) ft p = Ok (Some r) -> quiet_core the_env clk r.
Proof. exact smb1_out_quiet. Qed.
Print Assumptions C12_smb1_reply_unanswered_udp.

Theorem C12_smb2_reply_unanswered_udp :
  forall clk ft p r, bytes_ok p = true ->
    smb2_repl (e_smb_neg the_env) (e_smb_chal the_env) ft p = Ok (Some r) -> quiet_core the_env clk r.
Proof. exact smb2_out_quiet. Qed.
Print Assumptions C12_smb2_reply_unanswered_udp.

(* ---- whole frames ---- *)
Theorem C12_chain_frames :
  forall cfg clk0 clk1 clk2 tb0 tb1 tb2 f0 f1 f2 v0 v1 v2 tb0' tb1' tb2' r0 r1 r2 e0 e1 e2 d0 d1,
    cfg_ok cfg = true -> bytes_ok f0 = true -> bytes_ok f1 = true -> bytes_ok f2 = true ->
    view_udp cfg f0 = Some v0 -> view_udp cfg f1 = Some v1 -> view_udp cfg f2 = Some v2 ->
    udp_reply_typed (skipn 8 (v_l4 v0)) = true ->
    reply the_env cfg clk0 tb0 f0 = Ok (tb0', r0, e0) -> udp_resp r0 = Some (Some d0) -> skipn 8 (v_l4 v1) = d0 ->
    reply the_env cfg clk1 tb1 f1 = Ok (tb1', r1, e1) -> udp_resp r1 = Some (Some d1) -> skipn 8 (v_l4 v2) = d1 ->
    reply the_env cfg clk2 tb2 f2 = Ok (tb2', r2, e2) -> udp_resp r2 = Some None.
Proof. exact frame_chain_bound. Qed.
Print Assumptions C12_chain_frames.

Theorem C12_chain_frames_monitor :
  forall cfg clk0 clk1 clk2 tb0 tb1 tb2 f0 f1 f2 tb0' tb1' tb2' r0 r1 r2 e0 e1 e2,
    cfg_ok cfg = true -> bytes_ok f0 = true -> bytes_ok f1 = true -> bytes_ok f2 = true ->
    reply the_env cfg clk0 tb0 f0 = Ok (tb0', r0, e0) ->
    reply the_env cfg clk1 tb1 f1 = Ok (tb1', r1, e1) ->
    reply the_env cfg clk2 tb2 f2 = Ok (tb2', r2, e2) ->
    ok_C12chain_udp cfg f0 r0 f1 r1 f2 r2 = true.
Proof. exact frame_chain_monitor. Qed.
Print Assumptions C12_chain_frames_monitor.

Theorem C12_chain_payload_monitor :
  forall clk ci n p, ci_full ci = true -> ci_ok ci -> bytes_ok p = true ->
    ok_C12chain_payloads p (chain_outs clk ci n p) = true.
Proof. exact chain_payload_monitor. Qed.
Print Assumptions C12_chain_payload_monitor.

(* ---- [chain_bound_stmt] as stated in Proofs/C12Chain.v: false for contexts that are not octets ---- *)
Theorem C12_chain_stmt_needs_octets : ~ chain_bound_stmt the_env.
Proof. exact chain_bound_stmt_needs_octets. Qed.
Print Assumptions C12_chain_stmt_needs_octets.

Theorem C12_chain_junk_context_observed :
  ci_full junk_ci = true /\ bytes_ok w_two = true /\ lenN w_two <= 4096 /\ udp_reply_typed w_two = true /\
  length (app_chain the_env x_clk junk_ci 5 w_two) = 5%nat.
Proof. exact junk_context_bounces. Qed.
Print Assumptions C12_chain_junk_context_observed.

(* ---- non-vacuity: chains of exactly two replies, and one reply ---- *)
Theorem C12_chain_nonvacuous :
  (ci_full x_ci = true /\ ci_ok x_ci) /\
  (rpc_reply_typed_udp w_two = true /\ bytes_ok w_two = true /\ length (x_chain 8 w_two) = 2%nat) /\
  (stun_nonrequest_typed w_stun_rpc = true /\ u8_at 0 w_stun_rpc < 64 /\ bytes_ok w_stun_rpc = true /\
   x_chain 8 w_stun_rpc =
     [[1; 16; 0; 0; 0; 0; 0; 1; 0; 0; 0; 0; 0; 0; 0; 0; 0; 0; 0; 0; 0; 0; 0; 0];
      [1; 16; 132; 0; 0; 0; 0; 0; 0; 0; 0; 0]]) /\
  (dns_response_typed w_dns_rpc = true /\ bytes_ok w_dns_rpc = true /\ length (x_chain 8 w_dns_rpc) = 1%nat).
Proof. exact (conj x_ci_ok (conj chain2_rpc_stun_dns (conj chain2_stun_rpc_dns chain1_dns_rpc))). Qed.
Print Assumptions C12_chain_nonvacuous.

(* ---- TCP, first data segment of a flow ---- *)
Theorem C12_tcp_first_smb1_reply_silent :
  forall clk p c, bytes_ok p = true -> smb1_reply_typed p = true ->
    tcp_first_core the_env clk p = Ok c -> c = CSilent.
Proof. exact tcp_first_smb1_reply_silent. Qed.
Print Assumptions C12_tcp_first_smb1_reply_silent.

Theorem C12_tcp_first_smb2_reply :
  forall clk p c, bytes_ok p = true -> smb2_reply_typed p = true ->
    tcp_first_core the_env clk p = Ok c -> c = CSilent \/ tcp_first_id the_env p = Some PROTO_RPC_TCP.
Proof. exact tcp_first_smb2_reply. Qed.
Print Assumptions C12_tcp_first_smb2_reply.

Theorem C12_tcp_first_rpc_reply :
  forall clk p c, bytes_ok p = true -> rpc_reply_typed_tcp p = true ->
    tcp_first_core the_env clk p = Ok c ->
    c = CSilent \/ exists i, tcp_first_id the_env p = Some i /\ i <> PROTO_RPC_TCP.
Proof. exact tcp_first_rpc_reply. Qed.
Print Assumptions C12_tcp_first_rpc_reply.

Theorem C12_tcp_other_protocol_observed :
  smb2_reply_typed w_tcp_smb2_rpc = true /\ tcp_first_id the_env w_tcp_smb2_rpc = Some PROTO_RPC_TCP /\
  (match tcp_first_core the_env x_clk w_tcp_smb2_rpc with Ok (CRpc _ true) => true | _ => false end) = true /\
  rpc_reply_typed_tcp w_tcp_rpc_ssh = true /\ tcp_first_id the_env w_tcp_rpc_ssh = Some PROTO_SSH /\
  tcp_first_core the_env x_clk w_tcp_rpc_ssh = Ok (CConst (e_ssh_banner the_env)).
Proof. exact tcp_other_protocol_observed. Qed.
Print Assumptions C12_tcp_other_protocol_observed.

(* ---- the tool: verdict sets of payload shapes, for any dumped table ---- *)
Theorem C12_shape_verdicts_sound :
  forall t, Smack.smack_ok t = true -> Spec.C10.tbl_pre t = true ->
  forall pat allowed, open_ok t pat allowed = true ->
  forall p, bytes_ok p = true -> pmatches pat p -> In (Spec.C10.udp_id_tbl t p) allowed.
Proof. exact open_sound. Qed.
Print Assumptions C12_shape_verdicts_sound.
